/-
  C16 (region), geometry layer.

  Vocabulary and the one geometric fact behind the region clause of C16:

  * `OutE box s e` — the closed segment `s e` has no point in the OPEN box.
  * `crE E q` (C08RegionPass) — parity of the number of edges of the edge list `E` crossed by the
    spec's upward ray from `q`;  `dE h E` — parity of the number of edges of `E` whose two ends are
    separated by the Boolean function `h` (the coboundary of `h`, summed over `E`).
  * `outE_cr` — THE EDGE LEMMA.  For two points `q q'` of the open box and an edge that avoids the open
    box, the two crossing indicators differ by a coboundary:
        crossesAbove s e q != crossesAbove s e q' = (pot box q q' s != pot box q q' e),
    `pot box q q' w` = "`w` is in the closed half-plane above the box and between the two vertical
    lines through `q` and `q'`".  (For ONE point there is no such potential: the complement of the
    open box is an annulus, and the crossing parity of a closed curve in it is its winding parity
    round the box.  The difference of two points kills that class.)
  * `outE_list` — summed over an edge list all of whose edges avoid the open box.
  * `dE_chain` — the coboundary telescopes along a polyline.

  Consequence used by OrbProofs/C16Region.lean: a family of edges avoiding the open box in which every
  point is an end point an even number of times (a mod-2 cycle) has the same crossing parity at every
  point of the open box.
-/
import OrbProofs.C08Region
import OrbProofs.C07Order

namespace Orb.Clip.C16R
open Orb Orb.EvenOdd Orb.Contains Orb.Clip Orb.Clip.C08 Orb.Clip.C08R
open Orb.Core hiding chain

set_option linter.unusedSectionVars false
set_option linter.unusedSimpArgs false
set_option linter.unusedVariables false

variable {α : Type} [Field α] [LinearOrder α] [IsStrictOrderedRing α]

/-! ### vocabulary -/

/-- the closed segment `s e` has no point in the open box -/
def OutE (box : Bound α) (s e : Pt α) : Prop := ∀ t, 0 ≤ t → t ≤ 1 → ¬ InOpenBox box (lerp s e t)

/-- both ends of the edge lie in one of the four closed outer half-planes of the box
    (left, right, bottom, top) -/
def SameSide (box : Bound α) (s e : Pt α) : Prop :=
  (s.x ≤ box.lo.x ∧ e.x ≤ box.lo.x) ∨ (box.hi.x ≤ s.x ∧ box.hi.x ≤ e.x) ∨
  (s.y ≤ box.lo.y ∧ e.y ≤ box.lo.y) ∨ (box.hi.y ≤ s.y ∧ box.hi.y ≤ e.y)

/-- parity (odd = `true`) of the number of edges whose two ends are separated by `h` -/
def dE (h : Pt α → Bool) (E : List (Pt α × Pt α)) : Bool := (E.countP fun se => h se.1 != h se.2) % 2 == 1

/-- the potential of the edge lemma -/
def pot (box : Bound α) (q q' w : Pt α) : Bool :=
  decide (box.hi.y ≤ w.y) && (decide (w.x ≤ q.x) != decide (w.x ≤ q'.x))

/-! ### parity functionals on edge lists -/

theorem dE_nil (h : Pt α → Bool) : dE h [] = false := rfl

theorem dE_cons (h : Pt α → Bool) (s e : Pt α) (E : List (Pt α × Pt α)) :
    dE h ((s, e) :: E) = ((h s != h e) != dE h E) := by
  unfold dE
  rw [List.countP_cons]
  cases hh : (h s != h e)
  · simp
  · simp only [if_true, parity_succ]
    cases ((E.countP fun se => h se.1 != h se.2) % 2 == 1) <;> rfl

theorem dE_append (h : Pt α → Bool) (E F : List (Pt α × Pt α)) : dE h (E ++ F) = (dE h E != dE h F) := by
  induction E with
  | nil => simp [dE_nil]
  | cons se E ih =>
    obtain ⟨s, e⟩ := se
    rw [List.cons_append, dE_cons, dE_cons, ih]
    cases (h s != h e) <;> cases dE h E <;> cases dE h F <;> rfl

theorem crE_append (E F : List (Pt α × Pt α)) (q : Pt α) : crE (E ++ F) q = (crE E q != crE F q) := by
  induction E with
  | nil => simp [crE_nil]
  | cons se E ih =>
    obtain ⟨s, e⟩ := se
    rw [List.cons_append, crE_cons, crE_cons, ih]
    cases crossesAbove s e q <;> cases crE E q <;> cases crE F q <;> rfl

theorem onE_append (E F : List (Pt α × Pt α)) (q : Pt α) : onE (E ++ F) q = (onE E q || onE F q) := by
  unfold onE; rw [List.any_append]

theorem crE_perm {E F : List (Pt α × Pt α)} (h : E.Perm F) (q : Pt α) : crE E q = crE F q := by
  unfold crE; rw [h.countP_eq]

theorem dE_perm {E F : List (Pt α × Pt α)} (hp : E.Perm F) (h : Pt α → Bool) : dE h E = dE h F := by
  unfold dE; rw [hp.countP_eq]

theorem onE_perm {E F : List (Pt α × Pt α)} (h : E.Perm F) (q : Pt α) : onE E q = onE F q := by
  unfold onE
  rw [Bool.eq_iff_iff, List.any_eq_true, List.any_eq_true]
  exact ⟨fun ⟨x, hx, hq⟩ => ⟨x, h.subset hx, hq⟩, fun ⟨x, hx, hq⟩ => ⟨x, h.symm.subset hx, hq⟩⟩

/-- the coboundary telescopes along a polyline -/
theorem dE_chain (h : Pt α → Bool) (a : Pt α) (l : List (Pt α)) : dE h (chain (a :: l)) = (h a != h (lastD' a l)) := by
  induction l generalizing a with
  | nil => simp [chain, dE_nil, lastD']
  | cons b l ih =>
    rw [chain_cons_cons, dE_cons, ih b]
    simp only [lastD']
    cases h a <;> cases h b <;> cases h (lastD' b l) <;> rfl

/-- a closed polyline has no coboundary -/
theorem dE_chain_closed (h : Pt α → Bool) (a : Pt α) (l : List (Pt α)) (hc : lastD' a l = a) :
    dE h (chain (a :: l)) = false := by
  rw [dE_chain, hc]; cases h a <;> rfl

/-! ### small parameters -/

theorem small_pos (c d : α) (hc : 0 < c) : ∃ δ, 0 < δ ∧ δ ≤ 1 ∧ ∀ t, 0 < t → t ≤ δ → 0 < c + d * t := by
  rcases le_or_gt 0 d with hd | hd
  · exact ⟨1, one_pos, le_refl _, fun t ht _ => add_pos_of_pos_of_nonneg hc (mul_nonneg hd ht.le)⟩
  · have hpos : 0 < -2 * d := by linarith
    refine ⟨min 1 (c / (-2 * d)), lt_min one_pos (div_pos hc hpos), min_le_left _ _, ?_⟩
    intro t ht htd
    have h2 : t ≤ c / (-2 * d) := le_trans htd (min_le_right _ _)
    rw [le_div_iff₀ hpos] at h2
    nlinarith

/-- a segment leaving a point of the open top side downwards enters the open box -/
theorem top_touch {box : Bound α} (hb : BoxOK box) {a b : Pt α} (ha : a.y = box.hi.y)
    (hx1 : box.lo.x < a.x) (hx2 : a.x < box.hi.x) (hby : b.y < box.hi.y) : ¬ OutE box a b := by
  intro hO
  obtain ⟨d1, p1, l1, k1⟩ := small_pos (a.x - box.lo.x) (b.x - a.x) (sub_pos.2 hx1)
  obtain ⟨d2, p2, l2, k2⟩ := small_pos (box.hi.x - a.x) (-(b.x - a.x)) (sub_pos.2 hx2)
  obtain ⟨d3, p3, l3, k3⟩ := small_pos (box.hi.y - box.lo.y) (-(box.hi.y - b.y)) (sub_pos.2 hb.2)
  have ht : 0 < min d1 (min d2 d3) := lt_min p1 (lt_min p2 p3)
  have e1 : min d1 (min d2 d3) ≤ d1 := min_le_left _ _
  have e2 : min d1 (min d2 d3) ≤ d2 := le_trans (min_le_right _ _) (min_le_left _ _)
  have e3 : min d1 (min d2 d3) ≤ d3 := le_trans (min_le_right _ _) (min_le_right _ _)
  have q1 := k1 _ ht e1
  have q2 := k2 _ ht e2
  have q3 := k3 _ ht e3
  refine hO _ ht.le (le_trans e1 l1) ⟨?_, ?_, ?_, ?_⟩
  · simp only [lerp_x]; linarith
  · simp only [lerp_x]; linarith
  · simp only [lerp_y]; rw [ha]; linarith
  · simp only [lerp_y]; rw [ha]
    have : min d1 (min d2 d3) * (b.y - box.hi.y) < 0 := mul_neg_of_pos_of_neg ht (by linarith)
    linarith

/-! ### `OutE` -/

theorem OutE.symm {box : Bound α} {s e : Pt α} (h : OutE box s e) : OutE box e s := by
  intro t h0 h1 hin
  refine h (1 - t) (by linarith) (by linarith) ?_
  rw [← lerp_swap]; exact hin

theorem OutE.sub {box : Bound α} {s e : Pt α} (h : OutE box s e) {t1 t2 : α} (h0 : 0 ≤ t1) (h12 : t1 ≤ t2)
    (h1 : t2 ≤ 1) : OutE box (lerp s e t1) (lerp s e t2) := by
  intro t k0 k1 hin
  rw [lerp_lerp] at hin
  refine h _ ?_ ?_ hin
  · nlinarith [mul_nonneg k0 (sub_nonneg.2 h12)]
  · nlinarith [mul_nonneg (sub_nonneg.2 k1) (sub_nonneg.2 h12)]

theorem OutE.left {box : Bound α} {s e : Pt α} (h : OutE box s e) : ¬ InOpenBox box s := by
  have := h 0 (le_refl _) zero_le_one; rwa [lerp_zero] at this

theorem OutE.right {box : Bound α} {s e : Pt α} (h : OutE box s e) : ¬ InOpenBox box e := by
  have := h 1 zero_le_one (le_refl _); rwa [lerp_one] at this

/-- a point of the open box is on no edge that avoids the open box -/
theorem outE_on {box : Bound α} {s e q : Pt α} (h : OutE box s e) (hq : InOpenBox box q) : onSeg s e q = false := by
  rw [← Bool.not_eq_true]
  intro ho
  obtain ⟨t, t0, t1, rfl⟩ := OnSeg_of_onSeg ho
  exact h t t0 t1 hq

/-- both ends in one closed outer half-plane: the edge avoids the open box -/
theorem outE_of_side {box : Bound α} {s e : Pt α} (h : SameSide box s e) : OutE box s e := by
  intro t t0 t1 ⟨h1, h2, h3, h4⟩
  simp only [lerp_x, lerp_y] at h1 h2 h3 h4
  have u : 0 ≤ 1 - t := sub_nonneg.2 t1
  rcases h with ⟨a, b⟩ | ⟨a, b⟩ | ⟨a, b⟩ | ⟨a, b⟩
  · nlinarith [mul_nonneg u (sub_nonneg.2 a), mul_nonneg t0 (sub_nonneg.2 b)]
  · nlinarith [mul_nonneg u (sub_nonneg.2 a), mul_nonneg t0 (sub_nonneg.2 b)]
  · nlinarith [mul_nonneg u (sub_nonneg.2 a), mul_nonneg t0 (sub_nonneg.2 b)]
  · nlinarith [mul_nonneg u (sub_nonneg.2 a), mul_nonneg t0 (sub_nonneg.2 b)]

/-- a degenerate edge outside the open box -/
theorem outE_self {box : Bound α} {s : Pt α} (h : ¬ InOpenBox box s) : OutE box s s := by
  intro t _ _ hin
  rw [lerp_self] at hin
  exact h hin

/-! ### the edge lemma -/

/-- an edge below the top line (one end may touch it) that avoids the open box is not crossed by the
    upward ray from a point of the open box -/
theorem low_no_cross {box : Bound α} (hb : BoxOK box) {a b q : Pt α} (ha : a.y ≤ box.hi.y) (hby : b.y < box.hi.y)
    (hO : OutE box a b) (hq : InOpenBox box q) : crossesAbove a b q = false := by
  rw [← Bool.not_eq_true, crossesAbove_iff]
  intro hc
  obtain ⟨q1, q2, q3, q4⟩ := hq
  have hne : b.x - a.x ≠ 0 := by
    rcases hc with ⟨c1, c2, _⟩ | ⟨c1, c2, _⟩
    · exact ne_of_gt (by linarith)
    · exact ne_of_lt (by linarith)
  -- the point of the edge above `q`
  have ht0 : 0 ≤ (q.x - a.x) / (b.x - a.x) := by
    rcases hc with ⟨c1, c2, _⟩ | ⟨c1, c2, _⟩
    · exact div_nonneg (by linarith) (by linarith)
    · exact div_nonneg_of_nonpos (by linarith) (by linarith)
  have ht1 : (q.x - a.x) / (b.x - a.x) ≤ 1 := by
    rcases hc with ⟨c1, c2, _⟩ | ⟨c1, c2, _⟩
    · rw [div_le_one (by linarith)]; linarith
    · rw [div_le_one_of_neg (by linarith)]; linarith
  set t := (q.x - a.x) / (b.x - a.x) with ht
  have hpx : (lerp a b t).x = q.x := by
    simp only [lerp_x, ht]; field_simp; ring
  have hpy : q.y < (lerp a b t).y := by
    have key : ((lerp a b t).y - q.y) * (b.x - a.x) = - EvenOdd.cross a b q := by
      simp only [lerp_y, ht, EvenOdd.cross]; field_simp; ring
    by_contra hcon
    have hle : (lerp a b t).y - q.y ≤ 0 := by linarith
    rcases hc with ⟨c1, c2, c3⟩ | ⟨c1, c2, c3⟩
    · have hp : 0 ≤ b.x - a.x := by linarith
      have := mul_nonpos_of_nonpos_of_nonneg hle hp
      linarith
    · have hn : b.x - a.x ≤ 0 := by linarith
      have := mul_nonneg_of_nonpos_of_nonpos hle hn
      linarith
  rcases eq_or_lt_of_le ht0 with h0 | h0
  · -- the point is `a` itself
    have hta : lerp a b t = a := by rw [← h0]; exact lerp_zero a b
    rw [hta] at hpx hpy
    rcases eq_or_lt_of_le ha with hay | hay
    · exact top_touch hb hay (by rw [hpx]; exact q1) (by rw [hpx]; exact q2) hby hO
    · exact hO.left ⟨by rw [hpx]; exact q1, by rw [hpx]; exact q2, by linarith, hay⟩
  · refine hO t ht0 ht1 ⟨by rw [hpx]; exact q1, by rw [hpx]; exact q2, by linarith, ?_⟩
    simp only [lerp_y]
    have h3 : 0 < t * (box.hi.y - b.y) := mul_pos h0 (by linarith)
    have h4 : 0 ≤ (1 - t) * (box.hi.y - a.y) := mul_nonneg (sub_nonneg.2 ht1) (sub_nonneg.2 ha)
    nlinarith

/-- the edge lemma when the first end is on or above the top line and the second strictly below it -/
theorem outE_cr_down {box : Bound α} (hb : BoxOK box) {s e q q' : Pt α} (hs : box.hi.y ≤ s.y) (he : e.y < box.hi.y)
    (hO : OutE box s e) (hq : InOpenBox box q) (hq' : InOpenBox box q') :
    (crossesAbove s e q != crossesAbove s e q') = (pot box q q' s != pot box q q' e) := by
  have hd : 0 < s.y - e.y := by linarith
  -- the point where the edge meets the top line
  have ht0 : 0 ≤ (s.y - box.hi.y) / (s.y - e.y) := div_nonneg (by linarith) hd.le
  have ht1 : (s.y - box.hi.y) / (s.y - e.y) ≤ 1 := by rw [div_le_one hd]; linarith
  set t := (s.y - box.hi.y) / (s.y - e.y) with ht
  have hmy : (lerp s e t).y = box.hi.y := by
    simp only [lerp_y, ht]; field_simp; ring
  have hseg : OnSeg s e (lerp s e t) := onSeg_lerp s e ht0 ht1
  have hO2 : OutE box (lerp s e t) e := by
    have := hO.sub ht0 ht1 (le_refl 1)
    rwa [lerp_one] at this
  -- the meeting point is not over the open top side
  have hm : (lerp s e t).x ≤ box.lo.x ∨ box.hi.x ≤ (lerp s e t).x := by
    by_contra hcon
    rw [not_or, not_le, not_le] at hcon
    exact top_touch hb hmy hcon.1 hcon.2 he hO2
  have c2 : ∀ p, InOpenBox box p → crossesAbove (lerp s e t) e p = false :=
    fun p hp => low_no_cross hb hmy.le he hO2 hp
  have c1 : ∀ p, InOpenBox box p → crossesAbove s (lerp s e t) p =
      (decide (s.x ≤ p.x) != decide ((lerp s e t).x ≤ p.x)) := by
    intro p hp
    rcases eq_or_lt_of_le hs with h | h
    · -- `s` is itself on the top line: then the meeting point is `s`
      have : t = 0 := by rw [ht, ← h]; simp
      rw [this, lerp_zero, crossesAbove_self]
      cases decide (s.x ≤ p.x) <;> rfl
    · exact (edge_below s (lerp s e t) p (lt_trans hp.2.2.2 h) (by rw [hmy]; exact hp.2.2.2)).2
  have gm : ∀ p, InOpenBox box p → decide ((lerp s e t).x ≤ p.x) = decide ((lerp s e t).x ≤ box.lo.x) := by
    intro p hp
    rcases hm with h | h
    · rw [decide_eq_true h, decide_eq_true (le_trans h hp.1.le)]
    · rw [decide_eq_false (not_le.2 (lt_of_lt_of_le hp.2.1 h)),
        decide_eq_false (not_le.2 (lt_of_lt_of_le hb.1 h))]
  rw [crossesAbove_split hseg q, crossesAbove_split hseg q', c2 q hq, c2 q' hq', c1 q hq, c1 q' hq',
    gm q hq, gm q' hq']
  unfold pot
  rw [decide_eq_true hs, decide_eq_false (not_le.2 he)]
  cases decide (s.x ≤ q.x) <;> cases decide (s.x ≤ q'.x) <;> cases decide ((lerp s e t).x ≤ box.lo.x) <;> rfl

/-- THE EDGE LEMMA: for an edge that avoids the open box, the crossing indicators of two points of the
    open box differ by the coboundary of `pot box q q'`. -/
theorem outE_cr {box : Bound α} (hb : BoxOK box) {s e q q' : Pt α} (hO : OutE box s e)
    (hq : InOpenBox box q) (hq' : InOpenBox box q') :
    (crossesAbove s e q != crossesAbove s e q') = (pot box q q' s != pot box q q' e) := by
  rcases le_or_gt box.hi.y s.y with hs | hs <;> rcases le_or_gt box.hi.y e.y with he | he
  · -- both on or above the top line
    have c : ∀ p, InOpenBox box p → crossesAbove s e p = (decide (s.x ≤ p.x) != decide (e.x ≤ p.x)) :=
      fun p hp => (edge_below s e p (lt_of_lt_of_le hp.2.2.2 hs) (lt_of_lt_of_le hp.2.2.2 he)).2
    rw [c q hq, c q' hq']
    unfold pot
    rw [decide_eq_true hs, decide_eq_true he]
    cases decide (s.x ≤ q.x) <;> cases decide (s.x ≤ q'.x) <;> cases decide (e.x ≤ q.x) <;>
      cases decide (e.x ≤ q'.x) <;> rfl
  · exact outE_cr_down hb hs he hO hq hq'
  · have := outE_cr_down hb he hs hO.symm hq hq'
    rw [crossesAbove_swap s e q, crossesAbove_swap s e q'] at this
    rw [this]
    cases pot box q q' s <;> cases pot box q q' e <;> rfl
  · -- both strictly below the top line
    rw [low_no_cross hb hs.le he hO hq, low_no_cross hb hs.le he hO hq']
    unfold pot
    rw [decide_eq_false (not_le.2 hs), decide_eq_false (not_le.2 he)]
    rfl

/-- the edge lemma summed over an edge list -/
theorem outE_list {box : Bound α} (hb : BoxOK box) {q q' : Pt α} (hq : InOpenBox box q) (hq' : InOpenBox box q')
    (E : List (Pt α × Pt α)) (hE : ∀ se ∈ E, OutE box se.1 se.2) :
    (crE E q != crE E q') = dE (pot box q q') E := by
  induction E with
  | nil => rfl
  | cons se E ih =>
    obtain ⟨s, e⟩ := se
    have h1 := outE_cr hb (hE (s, e) List.mem_cons_self) hq hq'
    have h2 := ih (fun x hx => hE x (List.mem_cons_of_mem _ hx))
    rw [crE_cons, crE_cons, dE_cons, ← h1, ← h2]
    cases crossesAbove s e q <;> cases crossesAbove s e q' <;> cases crE E q <;> cases crE E q' <;> rfl

theorem outE_list_on {box : Bound α} {q : Pt α} (hq : InOpenBox box q)
    (E : List (Pt α × Pt α)) (hE : ∀ se ∈ E, OutE box se.1 se.2) : onE E q = false := by
  unfold onE
  rw [List.any_eq_false]
  intro se hse
  rw [Bool.not_eq_true]
  exact outE_on (hE se hse) hq

/-! ### signed crossings: winding numbers

  The same theory with signs, so that the ORIENTATION is seen: `sgnAbove s e p` is `+1` when the edge
  passes above `p` from right to left (counter-clockwise round `p`), `-1` from left to right, `0` when
  the upward ray from `p` does not cross it (same half-open convention as `crossesAbove`).  Summed over
  the edges of a closed ring this is the winding number of the ring round `p`. -/

/-- `1` / `0` -/
def ind (b : Bool) : ℤ := if b then 1 else 0

/-- signed crossing of the upward ray from `p` by the edge `s → e` -/
def sgnAbove (s e p : Pt α) : ℤ :=
  if s.x ≤ p.x ∧ p.x < e.x ∧ EvenOdd.cross s e p < 0 then -1
  else if e.x ≤ p.x ∧ p.x < s.x ∧ 0 < EvenOdd.cross s e p then 1 else 0

/-- sum of the signed crossings of an edge list: for the edges of a closed ring, its winding number -/
def wE (E : List (Pt α × Pt α)) (q : Pt α) : ℤ := (E.map fun se => sgnAbove se.1 se.2 q).sum

/-- the (integer) coboundary of `P` summed over an edge list -/
def dZ (P : Pt α → ℤ) (E : List (Pt α × Pt α)) : ℤ := (E.map fun se => P se.2 - P se.1).sum

/-- the integer potential of the signed edge lemma -/
def potZ (box : Bound α) (q q' w : Pt α) : ℤ :=
  if box.hi.y ≤ w.y then ind (decide (w.x ≤ q.x)) - ind (decide (w.x ≤ q'.x)) else 0

theorem ind_true : ind true = 1 := rfl
theorem ind_false : ind false = 0 := rfl

theorem sgn_of_le {s e : Pt α} (h : s.x ≤ e.x) (p : Pt α) : sgnAbove s e p = - ind (crossesAbove s e p) := by
  unfold sgnAbove
  by_cases c1 : s.x ≤ p.x ∧ p.x < e.x ∧ EvenOdd.cross s e p < 0
  · rw [if_pos c1, (crossesAbove_iff s e p).2 (Or.inl c1)]; rfl
  · rw [if_neg c1]
    have c2 : ¬ (e.x ≤ p.x ∧ p.x < s.x ∧ 0 < EvenOdd.cross s e p) := by
      rintro ⟨a, b, _⟩; exact absurd (lt_of_le_of_lt a b) (not_lt.2 h)
    rw [if_neg c2]
    have : crossesAbove s e p = false := by
      rw [← Bool.not_eq_true, crossesAbove_le h]; exact c1
    rw [this]; rfl

theorem sgn_of_ge {s e : Pt α} (h : e.x ≤ s.x) (p : Pt α) : sgnAbove s e p = ind (crossesAbove s e p) := by
  unfold sgnAbove
  by_cases c1 : s.x ≤ p.x ∧ p.x < e.x ∧ EvenOdd.cross s e p < 0
  · exact absurd (lt_of_le_of_lt c1.1 c1.2.1) (not_lt.2 h)
  · rw [if_neg c1]
    by_cases c2 : e.x ≤ p.x ∧ p.x < s.x ∧ 0 < EvenOdd.cross s e p
    · rw [if_pos c2, (crossesAbove_iff s e p).2 (Or.inr c2)]; rfl
    · rw [if_neg c2]
      have : crossesAbove s e p = false := by
        rw [← Bool.not_eq_true, crossesAbove_iff]; rintro (a | a)
        · exact c1 a
        · exact c2 a
      rw [this]; rfl

theorem sgn_swap (s e p : Pt α) : sgnAbove e s p = - sgnAbove s e p := by
  rcases le_total s.x e.x with h | h
  · rw [sgn_of_le h, sgn_of_ge h, crossesAbove_swap]; simp
  · rw [sgn_of_ge h, sgn_of_le h, crossesAbove_swap]

theorem sgn_self (v p : Pt α) : sgnAbove v v p = 0 := by
  rw [sgn_of_le (le_refl _), crossesAbove_self]; rfl

theorem sgn_zero_of_cr {s e p : Pt α} (h : crossesAbove s e p = false) : sgnAbove s e p = 0 := by
  rcases le_total s.x e.x with h' | h'
  · rw [sgn_of_le h', h]; rfl
  · rw [sgn_of_ge h', h]; rfl

/-- the signed crossing of an edge is `±1` exactly when the ray crosses it -/
theorem sgn_cases (s e p : Pt α) :
    (crossesAbove s e p = false ∧ sgnAbove s e p = 0) ∨
    (crossesAbove s e p = true ∧ (sgnAbove s e p = 1 ∨ sgnAbove s e p = -1)) := by
  cases hc : crossesAbove s e p
  · exact Or.inl ⟨rfl, sgn_zero_of_cr hc⟩
  · right
    refine ⟨rfl, ?_⟩
    rcases le_total s.x e.x with h' | h'
    · right; rw [sgn_of_le h', hc]; rfl
    · left; rw [sgn_of_ge h', hc]; rfl

theorem onSeg_symm {a b i : Pt α} (h : OnSeg a b i) : OnSeg b a i := by
  obtain ⟨t, t0, t1, rfl⟩ := h
  exact ⟨1 - t, by linarith, by linarith, lerp_swap a b t⟩

theorem sgn_split_le {a b i : Pt α} (hab : a.x ≤ b.x) (h : OnSeg a b i) (p : Pt α) :
    sgnAbove a b p = sgnAbove a i p + sgnAbove i b p := by
  have hsp := crossesAbove_split h p
  obtain ⟨t, t0, t1, rfl⟩ := h
  have hd : 0 ≤ b.x - a.x := sub_nonneg.2 hab
  have hai : a.x ≤ (lerp a b t).x := by simp only [lerp_x]; nlinarith
  have hib : (lerp a b t).x ≤ b.x := by simp only [lerp_x]; nlinarith
  rw [sgn_of_le hab, sgn_of_le hai, sgn_of_le hib, hsp]
  have hnb : ¬ (crossesAbove a (lerp a b t) p = true ∧ crossesAbove (lerp a b t) b p = true) := by
    rintro ⟨h1, h2⟩
    rw [crossesAbove_le hai] at h1
    rw [crossesAbove_le hib] at h2
    exact absurd (lt_of_lt_of_le h1.2.1 h2.1) (lt_irrefl _)
  revert hnb
  cases crossesAbove a (lerp a b t) p <;> cases crossesAbove (lerp a b t) b p <;> simp [ind]

/-- THE SIGNED SPLIT LEMMA -/
theorem sgn_split {a b i : Pt α} (h : OnSeg a b i) (p : Pt α) :
    sgnAbove a b p = sgnAbove a i p + sgnAbove i b p := by
  rcases le_total a.x b.x with hab | hab
  · exact sgn_split_le hab h p
  · have := sgn_split_le hab (onSeg_symm h) p
    rw [sgn_swap a b p, sgn_swap i b p, sgn_swap a i p] at this
    linarith

/-- an edge above `p`: the signed crossing is the coboundary of `w ↦ [w.x ≤ p.x]` -/
theorem sgn_below (s e p : Pt α) (hs : p.y < s.y) (he : p.y < e.y) :
    sgnAbove s e p = ind (decide (e.x ≤ p.x)) - ind (decide (s.x ≤ p.x)) := by
  have hc := (edge_below s e p hs he).2
  rcases le_total s.x e.x with h | h
  · rw [sgn_of_le h, hc]
    by_cases c1 : s.x ≤ p.x <;> by_cases c2 : e.x ≤ p.x
    · simp [c1, c2, ind]
    · simp [c1, c2, ind]
    · exact absurd (le_trans h c2) c1
    · simp [c1, c2, ind]
  · rw [sgn_of_ge h, hc]
    by_cases c1 : s.x ≤ p.x <;> by_cases c2 : e.x ≤ p.x
    · simp [c1, c2, ind]
    · exact absurd (le_trans h c1) c2
    · simp [c1, c2, ind]
    · simp [c1, c2, ind]

/-! #### sums over edge lists -/

theorem wE_nil (q : Pt α) : wE [] q = 0 := rfl
theorem dZ_nil (P : Pt α → ℤ) : dZ P [] = 0 := rfl

theorem wE_cons (s e : Pt α) (E : List (Pt α × Pt α)) (q : Pt α) : wE ((s, e) :: E) q = sgnAbove s e q + wE E q := by
  unfold wE; rw [List.map_cons, List.sum_cons]

theorem dZ_cons (P : Pt α → ℤ) (s e : Pt α) (E : List (Pt α × Pt α)) : dZ P ((s, e) :: E) = (P e - P s) + dZ P E := by
  unfold dZ; rw [List.map_cons, List.sum_cons]

theorem wE_append (E F : List (Pt α × Pt α)) (q : Pt α) : wE (E ++ F) q = wE E q + wE F q := by
  unfold wE; rw [List.map_append, List.sum_append]

theorem dZ_append (P : Pt α → ℤ) (E F : List (Pt α × Pt α)) : dZ P (E ++ F) = dZ P E + dZ P F := by
  unfold dZ; rw [List.map_append, List.sum_append]

theorem wE_perm {E F : List (Pt α × Pt α)} (h : E.Perm F) (q : Pt α) : wE E q = wE F q := by
  unfold wE; exact (h.map _).sum_eq

theorem dZ_perm {E F : List (Pt α × Pt α)} (h : E.Perm F) (P : Pt α → ℤ) : dZ P E = dZ P F := by
  unfold dZ; exact (h.map _).sum_eq

theorem dZ_chain (P : Pt α → ℤ) (a : Pt α) (l : List (Pt α)) : dZ P (chain (a :: l)) = P (lastD' a l) - P a := by
  induction l generalizing a with
  | nil => simp [chain, dZ_nil, lastD']
  | cons b l ih =>
    rw [chain_cons_cons, dZ_cons, ih b]
    simp only [lastD']
    ring

theorem dZ_chain_closed (P : Pt α → ℤ) (a : Pt α) (l : List (Pt α)) (hc : lastD' a l = a) :
    dZ P (chain (a :: l)) = 0 := by
  rw [dZ_chain, hc]; ring

/-- the parity of the winding sum is the crossing parity: even-odd = odd winding number -/
theorem wE_emod (E : List (Pt α × Pt α)) (q : Pt α) : wE E q % 2 = ind (crE E q) := by
  induction E with
  | nil => rfl
  | cons se E ih =>
    obtain ⟨s, e⟩ := se
    rw [wE_cons, crE_cons]
    have i00 : ind (false != false) = 0 := rfl
    have i01 : ind (false != true) = 1 := rfl
    have i10 : ind (true != false) = 1 := rfl
    have i11 : ind (true != true) = 0 := rfl
    have j0 : ind false = 0 := rfl
    have j1 : ind true = 1 := rfl
    rcases sgn_cases s e q with ⟨h1, h2⟩ | ⟨h1, h2 | h2⟩ <;> rw [h1, h2] <;> cases hc : crE E q <;>
      rw [hc] at ih <;> simp only [i00, i01, i10, i11, j0, j1] at ih ⊢ <;> omega

/-! #### the signed edge lemma -/

theorem outE_sgn_down {box : Bound α} (hb : BoxOK box) {s e q q' : Pt α} (hs : box.hi.y ≤ s.y) (he : e.y < box.hi.y)
    (hO : OutE box s e) (hq : InOpenBox box q) (hq' : InOpenBox box q') :
    sgnAbove s e q - sgnAbove s e q' = potZ box q q' e - potZ box q q' s := by
  have hd : 0 < s.y - e.y := by linarith
  have ht0 : 0 ≤ (s.y - box.hi.y) / (s.y - e.y) := div_nonneg (by linarith) hd.le
  have ht1 : (s.y - box.hi.y) / (s.y - e.y) ≤ 1 := by rw [div_le_one hd]; linarith
  set t := (s.y - box.hi.y) / (s.y - e.y) with ht
  have hmy : (lerp s e t).y = box.hi.y := by
    simp only [lerp_y, ht]; field_simp; ring
  have hseg : OnSeg s e (lerp s e t) := onSeg_lerp s e ht0 ht1
  have hO2 : OutE box (lerp s e t) e := by
    have := hO.sub ht0 ht1 (le_refl 1)
    rwa [lerp_one] at this
  have hm : (lerp s e t).x ≤ box.lo.x ∨ box.hi.x ≤ (lerp s e t).x := by
    by_contra hcon
    rw [not_or, not_le, not_le] at hcon
    exact top_touch hb hmy hcon.1 hcon.2 he hO2
  have c2 : ∀ p, InOpenBox box p → sgnAbove (lerp s e t) e p = 0 :=
    fun p hp => sgn_zero_of_cr (low_no_cross hb hmy.le he hO2 hp)
  have c1 : ∀ p, InOpenBox box p → sgnAbove s (lerp s e t) p =
      ind (decide ((lerp s e t).x ≤ p.x)) - ind (decide (s.x ≤ p.x)) :=
    fun p hp => sgn_below s (lerp s e t) p (lt_of_lt_of_le hp.2.2.2 hs) (by rw [hmy]; exact hp.2.2.2)
  have gm : ∀ p, InOpenBox box p → decide ((lerp s e t).x ≤ p.x) = decide ((lerp s e t).x ≤ box.lo.x) := by
    intro p hp
    rcases hm with h | h
    · rw [decide_eq_true h, decide_eq_true (le_trans h hp.1.le)]
    · rw [decide_eq_false (not_le.2 (lt_of_lt_of_le hp.2.1 h)),
        decide_eq_false (not_le.2 (lt_of_lt_of_le hb.1 h))]
  rw [sgn_split hseg q, sgn_split hseg q', c2 q hq, c2 q' hq', c1 q hq, c1 q' hq', gm q hq, gm q' hq']
  unfold potZ
  rw [if_pos hs, if_neg (not_le.2 he)]
  ring

/-- THE SIGNED EDGE LEMMA: for an edge that avoids the open box, the signed crossings seen from two
    points of the open box differ by the coboundary of `potZ box q q'`. -/
theorem outE_sgn {box : Bound α} (hb : BoxOK box) {s e q q' : Pt α} (hO : OutE box s e)
    (hq : InOpenBox box q) (hq' : InOpenBox box q') :
    sgnAbove s e q - sgnAbove s e q' = potZ box q q' e - potZ box q q' s := by
  rcases le_or_gt box.hi.y s.y with hs | hs <;> rcases le_or_gt box.hi.y e.y with he | he
  · rw [sgn_below s e q (lt_of_lt_of_le hq.2.2.2 hs) (lt_of_lt_of_le hq.2.2.2 he),
      sgn_below s e q' (lt_of_lt_of_le hq'.2.2.2 hs) (lt_of_lt_of_le hq'.2.2.2 he)]
    unfold potZ
    rw [if_pos hs, if_pos he]
    ring
  · exact outE_sgn_down hb hs he hO hq hq'
  · have := outE_sgn_down hb he hs hO.symm hq hq'
    rw [sgn_swap s e q, sgn_swap s e q'] at this
    linarith
  · rw [sgn_zero_of_cr (low_no_cross hb hs.le he hO hq), sgn_zero_of_cr (low_no_cross hb hs.le he hO hq')]
    unfold potZ
    rw [if_neg (not_le.2 hs), if_neg (not_le.2 he)]

theorem outE_list_sgn {box : Bound α} (hb : BoxOK box) {q q' : Pt α} (hq : InOpenBox box q) (hq' : InOpenBox box q')
    (E : List (Pt α × Pt α)) (hE : ∀ se ∈ E, OutE box se.1 se.2) :
    wE E q - wE E q' = dZ (potZ box q q') E := by
  induction E with
  | nil => rfl
  | cons se E ih =>
    obtain ⟨s, e⟩ := se
    have h1 := outE_sgn hb (hE (s, e) List.mem_cons_self) hq hq'
    have h2 := ih (fun x hx => hE x (List.mem_cons_of_mem _ hx))
    rw [wE_cons, wE_cons, dZ_cons]
    linarith

end Orb.Clip.C16R
