/-
  C20 (models), lemma file 3: planar Area / CentroidArea / Length / DistanceFromWithIndex of a
  collection as the combination of the members' results.
  The primed statements are re-exported by OrbProofs/C20Models.lean.
-/
import OrbProofs.C10Lemmas
import OrbProofs.C10DistLemmas

set_option linter.unusedSectionVars false

namespace Orb.C20M
open Orb Orb.Planar

section planar
variable {α : Type} [Field α] [LinearOrder α] [IsStrictOrderedRing α]

/-! ### length: sum over the members -/

theorem planar_lenLoop_eq (sqrt : α → α) (gs : List (Geom α)) (acc : α) :
    length.lenLoop sqrt gs acc = acc + (gs.map (length sqrt)).sum := by
  induction gs generalizing acc with
  | nil => simp [length.lenLoop]
  | cons g t ih => rw [length.lenLoop, ih, List.map_cons, List.sum_cons, add_assoc]

theorem planar_length_collection' (sqrt : α → α) (gs : List (Geom α)) :
    length sqrt (.collection gs) = (gs.map (length sqrt)).sum := by
  rw [length, planar_lenLoop_eq, zero_add]

/-! ### centroid: area-weighted over the members of top dimension -/

theorem planar_collLoop_eq (sqrt : α → α) (mx : Int) (gs : List (Geom α)) (s : α × α × α) :
    centroidArea.collLoop sqrt mx gs s =
      (s.1 + ((gs.filter fun g => dimensions g == mx).map fun g => (centroidArea sqrt g).1.x * (centroidArea sqrt g).2).sum,
       s.2.1 + ((gs.filter fun g => dimensions g == mx).map fun g => (centroidArea sqrt g).1.y * (centroidArea sqrt g).2).sum,
       s.2.2 + ((gs.filter fun g => dimensions g == mx).map fun g => (centroidArea sqrt g).2).sum) := by
  induction gs generalizing s with
  | nil => simp [centroidArea.collLoop]
  | cons g t ih =>
    rw [centroidArea.collLoop]
    by_cases h : dimensions g = mx
    · simp only [h, bne_self_eq_false, Bool.false_eq_true, if_false, ih, List.filter_cons, beq_self_eq_true, if_true,
        List.map_cons, List.sum_cons, add_assoc]
    · have h1 : (dimensions g != mx) = true := by simpa using h
      have h2 : (dimensions g == mx) = false := by simpa using h
      simp only [h1, if_true, ih, List.filter_cons, h2, Bool.false_eq_true, if_false]

theorem planar_centroid_collection' (sqrt : α → α) (gs : List (Geom α)) :
    centroidArea sqrt (.collection gs) =
      finishWeighted
        (((gs.filter fun g => dimensions g == maxDim gs).map fun g => (centroidArea sqrt g).1.x * (centroidArea sqrt g).2).sum,
         ((gs.filter fun g => dimensions g == maxDim gs).map fun g => (centroidArea sqrt g).1.y * (centroidArea sqrt g).2).sum,
         ((gs.filter fun g => dimensions g == maxDim gs).map fun g => (centroidArea sqrt g).2).sum) := by
  rw [centroidArea, planar_collLoop_eq]
  simp only [zero_add]

/-! ### distance-from: running minimum over the members, index of the first member attaining it -/

theorem planar_dist_collLoop_fst (sqrt : α → α) (p : Pt α) (gs : List (Geom α)) (i : Nat) (s : Option α × Int) :
    (distanceFromWithIndex.collLoop sqrt p gs i s).1 =
      gs.foldl (fun m g => omin m (distanceFrom sqrt g p)) s.1 := by
  induction gs generalizing i s with
  | nil => rfl
  | cons g t ih => rw [distanceFromWithIndex.collLoop, ih, minStep_fst, List.foldl_cons]; rfl

theorem planar_distanceFrom_collection' (sqrt : α → α) (gs : List (Geom α)) (p : Pt α) :
    distanceFrom sqrt (.collection gs) p = gs.foldl (fun m g => omin m (distanceFrom sqrt g p)) none := by
  rw [distanceFrom, distanceFromWithIndex, planar_dist_collLoop_fst]

omit [Field α] [IsStrictOrderedRing α] in
theorem optLt_irrefl (a : Option α) : optLt a a = false := by
  cases a <;> simp [optLt]

omit [Field α] [IsStrictOrderedRing α] in
theorem optLt_trans {a b c : Option α} (h1 : optLt a b = true) (h2 : optLt b c = true) : optLt a c = true := by
  cases a <;> cases b <;> cases c <;> simp_all [optLt]
  exact lt_trans h1 h2

omit [Field α] [IsStrictOrderedRing α] in
theorem optLt_asymm {a b : Option α} (h : optLt a b = true) : optLt b a = false := by
  cases a <;> cases b <;> simp_all [optLt]
  exact le_of_lt h

omit [Field α] [IsStrictOrderedRing α] in
theorem optLt_of_lt_of_not_lt {a b c : Option α} (h1 : optLt a b = true) (h2 : optLt c b = false) :
    optLt a c = true := by
  cases a <;> cases b <;> cases c <;> simp_all [optLt]
  exact lt_of_lt_of_le h1 h2

theorem planar_dist_collLoop_index (sqrt : α → α) (p : Pt α) (gs : List (Geom α)) (i : Nat) (s : Option α × Int) :
    (distanceFromWithIndex.collLoop sqrt p gs i s = s ∧
      ∀ d ∈ gs.map (fun g => distanceFrom sqrt g p), optLt d s.1 = false) ∨
    (∃ (k : Nat) (d : Option α), (gs.map fun g => distanceFrom sqrt g p)[k]? = some d ∧
      distanceFromWithIndex.collLoop sqrt p gs i s = (d, ((i + k : Nat) : Int)) ∧ optLt d s.1 = true ∧
      (∀ j, j < k → ∀ x, (gs.map fun g => distanceFrom sqrt g p)[j]? = some x → optLt d x = true) ∧
      ∀ x ∈ gs.map (fun g => distanceFrom sqrt g p), optLt x d = false) := by
  induction gs generalizing i s with
  | nil => left; exact ⟨rfl, by simp⟩
  | cons g t ih =>
    rw [distanceFromWithIndex.collLoop]
    have hdg : (distanceFromWithIndex sqrt p g).1 = distanceFrom sqrt g p := rfl
    rw [hdg]
    by_cases hlt : optLt (distanceFrom sqrt g p) s.1 = true
    · have hs' : minStep s (distanceFrom sqrt g p) (i : Int) = (distanceFrom sqrt g p, (i : Int)) := by
        simp [minStep, hlt]
      rw [hs']
      right
      rcases ih (i + 1) (distanceFrom sqrt g p, (i : Int)) with ⟨hr, hall⟩ | ⟨k, d, hk, hr, hd, hbefore, hall⟩
      · refine ⟨0, distanceFrom sqrt g p, by simp, by simpa using hr, hlt, fun j hj => absurd hj (Nat.not_lt_zero _), ?_⟩
        intro x hx
        rw [List.map_cons] at hx
        rcases List.mem_cons.1 hx with rfl | hx
        · exact optLt_irrefl _
        · exact hall x hx
      · refine ⟨k + 1, d, by simpa using hk, ?_, optLt_trans hd hlt, ?_, ?_⟩
        · rw [hr]; congr 2; omega
        · intro j hj x hx
          cases j with
          | zero => simp at hx; rw [← hx]; exact hd
          | succ j => exact hbefore j (by omega) x (by simpa using hx)
        · intro x hx
          rw [List.map_cons] at hx
          rcases List.mem_cons.1 hx with rfl | hx
          · exact optLt_asymm hd
          · exact hall x hx
    · have hlt' : optLt (distanceFrom sqrt g p) s.1 = false := by simpa using hlt
      have hs' : minStep s (distanceFrom sqrt g p) (i : Int) = s := by simp [minStep, hlt']
      rw [hs']
      rcases ih (i + 1) s with ⟨hr, hall⟩ | ⟨k, d, hk, hr, hd, hbefore, hall⟩
      · left
        refine ⟨hr, ?_⟩
        intro x hx
        rw [List.map_cons] at hx
        rcases List.mem_cons.1 hx with rfl | hx
        · exact hlt'
        · exact hall x hx
      · right
        have hdg' : optLt d (distanceFrom sqrt g p) = true := optLt_of_lt_of_not_lt hd hlt'
        refine ⟨k + 1, d, by simpa using hk, ?_, hd, ?_, ?_⟩
        · rw [hr]; congr 2; omega
        · intro j hj x hx
          cases j with
          | zero => simp at hx; rw [← hx]; exact hdg'
          | succ j => exact hbefore j (by omega) x (by simpa using hx)
        · intro x hx
          rw [List.map_cons] at hx
          rcases List.mem_cons.1 hx with rfl | hx
          · exact optLt_asymm hdg'
          · exact hall x hx

theorem planar_distanceFromWithIndex_collection' (sqrt : α → α) (gs : List (Geom α)) (p : Pt α) :
    (distanceFromWithIndex sqrt p (.collection gs) = (none, -1) ∧
      ∀ g ∈ gs, distanceFrom sqrt g p = none) ∨
    (∃ (k : Nat) (d : α), (gs.map fun g => distanceFrom sqrt g p)[k]? = some (some d) ∧
      distanceFromWithIndex sqrt p (.collection gs) = (some d, (k : Int)) ∧
      (∀ j, j < k → ∀ x, (gs.map fun g => distanceFrom sqrt g p)[j]? = some x → optLt (some d) x = true) ∧
      ∀ g ∈ gs, optLt (distanceFrom sqrt g p) (some d) = false) := by
  rw [distanceFromWithIndex]
  rcases planar_dist_collLoop_index sqrt p gs 0 (none, -1) with ⟨hr, hall⟩ | ⟨k, d, hk, hr, hd, hbefore, hall⟩
  · left
    refine ⟨hr, fun g hg => ?_⟩
    have := hall (distanceFrom sqrt g p) (List.mem_map.2 ⟨g, hg, rfl⟩)
    cases h : distanceFrom sqrt g p with
    | none => rfl
    | some v => rw [h] at this; simp [optLt] at this
  · right
    cases d with
    | none => simp [optLt] at hd
    | some dv =>
      refine ⟨k, dv, hk, by simpa using hr, hbefore, fun g hg => ?_⟩
      exact hall _ (List.mem_map.2 ⟨g, hg, rfl⟩)

end planar

end Orb.C20M
