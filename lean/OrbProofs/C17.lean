/-
  C17 — Resampling returns the requested number of evenly spaced on-line points.
  PROPERTY THEOREMS about the model `Orb.Resample` (resample/line_string.go:
  Resample, ToInterval, resample, resampleEdgeCases, precomputeDistances).

  Coordinates and distances range over an arbitrary ordered field `K` (exact
  arithmetic; floating-point rounding is not modelled).  The distance function `df`
  is arbitrary with `0 ≤ df a b`; `int(x)` is an arbitrary `trunc` that is the floor
  on non-negative values.  The spec-side vocabulary (`cum`, `arcAt`, `OnLine`,
  `Ordered`, `Spaced`, `SpacedDf`, `alongDf`, `NonNeg`, `LinearAlong`, `IsFloor`) is defined at
  the top of `OrbProofs/C17Lemmas.lean`.

  Two readings of "equally spaced in distance along the line":
  * `Spaced` (resample_spacing): arc length inside a segment is parameter × df(a, b) — holds for
    every non-negative `df`;
  * `SpacedDf` (resample_spacing_df): the distance to the point is measured with the `df` that was
    passed in, `cum + df(a, point)` — holds when `df` is linear along segments (`LinearAlong`;
    true of the planar distance, `linearAlong_of_euclid`), and is FALSE without that hypothesis
    (`spacing_df_needs_linear`; for the code: geo.Distance, known finding C17-geo-spacing-nonlinear).
-/
import OrbProofs.C17Lemmas
import Generated.PkgState

namespace Orb.Resample

section field
variable {K : Type} [Field K] [LinearOrder K] [IsStrictOrderedRing K]

/-! ### the main path: a line of positive length -/

/-- Exactly `n` points (whether the vertices all coincide or not). -/
theorem resample_count (df : Pt K → Pt K → K) (hdf : NonNeg df) (ps : List (Pt K)) (n : Int)
    (hlen : 2 ≤ ps.length) (hpos : 0 < lineLength df ps) (hn : 1 ≤ n) :
    ∃ out, resample df (some ps) n = .ok (some out) ∧ (out.length : Int) = n :=
  resample_count' df hdf ps n hlen hpos hn

/-- The result starts at the first vertex and, for `n ≥ 2`, ends at the last. -/
theorem resample_endpoints (df : Pt K → Pt K → K) (hdf : NonNeg df) (ps : List (Pt K)) (n : Int)
    (hlen : 2 ≤ ps.length) (hpos : 0 < lineLength df ps) (hn : 1 ≤ n) :
    ∃ out, resample df (some ps) n = .ok (some out) ∧ out.head? = ps.head? ∧
      (2 ≤ n → out.getLast? = ps.getLast?) :=
  resample_endpoints' df hdf ps n hlen hpos hn

/-- Every point lies on the line: the `k`-th on segment `seg k` at parameter `par k ∈ [0,1]`. -/
theorem resample_on_line (df : Pt K → Pt K → K) (hdf : NonNeg df) (ps : List (Pt K)) (n : Int)
    (hlen : 2 ≤ ps.length) (hpos : 0 < lineLength df ps) (hne : allEq ps = false) (hn : 1 ≤ n) :
    ∃ out seg par, resample df (some ps) n = .ok (some out) ∧ OnLine ps out seg par :=
  resample_on_line' df hdf ps n hlen hpos hne hn

/-- … in travel order: `(seg k, par k)` is lexicographically non-decreasing in `k`. -/
theorem resample_order (df : Pt K → Pt K → K) (hdf : NonNeg df) (ps : List (Pt K)) (n : Int)
    (hlen : 2 ≤ ps.length) (hpos : 0 < lineLength df ps) (hne : allEq ps = false) (hn : 1 ≤ n) :
    ∃ out seg par, resample df (some ps) n = .ok (some out) ∧ OnLine ps out seg par ∧
      Ordered out.length seg par :=
  resample_order' df hdf ps n hlen hpos hne hn

/-- … equally spaced: the arc length from the start to the `k`-th point is `k·total/(n-1)`. -/
theorem resample_spacing (df : Pt K → Pt K → K) (hdf : NonNeg df) (ps : List (Pt K)) (n : Int)
    (hlen : 2 ≤ ps.length) (hpos : 0 < lineLength df ps) (hne : allEq ps = false) (hn : 1 ≤ n) :
    ∃ out seg par, resample df (some ps) n = .ok (some out) ∧ (out.length : Int) = n ∧
      OnLine ps out seg par ∧ Ordered out.length seg par ∧ Spaced df ps out.length seg par :=
  resample_spacing' df hdf ps n hlen hpos hne hn

/-- … equally spaced IN TERMS OF THE DISTANCE FUNCTION PASSED IN: the first `seg k` segments plus
    `df (start of segment seg k) (k-th point)` is `k·total/(n-1)` — for a `df` that is linear
    along segments. -/
theorem resample_spacing_df (df : Pt K → Pt K → K) (hdf : NonNeg df) (hlin : LinearAlong df)
    (ps : List (Pt K)) (n : Int)
    (hlen : 2 ≤ ps.length) (hpos : 0 < lineLength df ps) (hne : allEq ps = false) (hn : 1 ≤ n) :
    ∃ out seg par, resample df (some ps) n = .ok (some out) ∧ (out.length : Int) = n ∧
      OnLine ps out seg par ∧ Ordered out.length seg par ∧ SpacedDf df ps out seg :=
  resample_spacing_df' df hdf hlin ps n hlen hpos hne hn

/-- … hence consecutive points are exactly `total/(n-1)` apart, measured with `df` along the line. -/
theorem resample_gap_df (df : Pt K → Pt K → K) (hdf : NonNeg df) (hlin : LinearAlong df)
    (ps : List (Pt K)) (n : Int)
    (hlen : 2 ≤ ps.length) (hpos : 0 < lineLength df ps) (hne : allEq ps = false) (hn : 1 ≤ n) :
    ∃ out seg par, resample df (some ps) n = .ok (some out) ∧ (out.length : Int) = n ∧
      OnLine ps out seg par ∧ Ordered out.length seg par ∧
      ∀ k, k + 1 < out.length →
        alongDf df ps (seg (k + 1)) (out.getD (k + 1) ⟨0, 0⟩) - alongDf df ps (seg k) (out.getD k ⟨0, 0⟩)
          = lineLength df ps / ((out.length - 1 : Nat) : K) :=
  resample_gap_df' df hdf hlin ps n hlen hpos hne hn

/-- `LinearAlong` holds for every distance function whose square is the Euclidean squared
    distance (planar.Distance in exact arithmetic) … -/
theorem linearAlong_of_euclid (df : Pt K → Pt K → K) (hdf : NonNeg df)
    (hsq : ∀ a b, df a b * df a b = (a.x - b.x) * (a.x - b.x) + (a.y - b.y) * (a.y - b.y)) :
    LinearAlong df :=
  linearAlong_of_euclid' df hdf hsq

/-- … and for the Manhattan distance. -/
theorem linearAlong_manhattan : LinearAlong (fun a b : Pt K => |a.x - b.x| + |a.y - b.y|) :=
  linearAlong_manhattan'

/-- For a distance function with `df p p = 0`, a line of positive length is not all-equal
    (so `hne` above follows from `hpos`). -/
theorem allEq_length_zero (df : Pt K → Pt K → K) (h0 : ∀ p, df p p = 0) (ps : List (Pt K))
    (he : allEq ps = true) : lineLength df ps = 0 :=
  allEq_length_zero' df h0 ps he

/-! ### ToInterval -/

/-- `ToInterval` is `Resample` to `int(total/d) + 1` points. -/
theorem interval_eq_resample (trunc : K → Int) (df : Pt K → Pt K → K) (ls : Line K) (d : K)
    (hd : 0 < d) (hn : 0 < trunc (lineLength df ls.pts / d) + 1) :
    toInterval trunc df ls d = resample df ls (trunc (lineLength df ls.pts / d) + 1) :=
  interval_eq_resample' trunc df ls d hd hn

/-- `⌊total/d⌋ + 1` points. -/
theorem interval_count (trunc : K → Int) (htr : IsFloor trunc) (df : Pt K → Pt K → K) (hdf : NonNeg df)
    (ps : List (Pt K)) (d : K) (hlen : 2 ≤ ps.length) (hpos : 0 < lineLength df ps) (hd : 0 < d) :
    ∃ out, toInterval trunc df (some ps) d = .ok (some out) ∧
      ∃ m : Nat, (m : K) ≤ lineLength df ps / d ∧ lineLength df ps / d < (m : K) + 1 ∧ out.length = m + 1 :=
  interval_count' trunc htr df hdf ps d hlen hpos hd

/-- … which start and end at the endpoints, lie on the line in travel order and are equally spaced. -/
theorem interval_sampling (trunc : K → Int) (htr : IsFloor trunc) (df : Pt K → Pt K → K) (hdf : NonNeg df)
    (ps : List (Pt K)) (d : K) (hlen : 2 ≤ ps.length) (hpos : 0 < lineLength df ps)
    (hne : allEq ps = false) (hd : 0 < d) :
    ∃ out seg par, toInterval trunc df (some ps) d = .ok (some out) ∧
      out.head? = ps.head? ∧ (2 ≤ out.length → out.getLast? = ps.getLast?) ∧
      OnLine ps out seg par ∧ Ordered out.length seg par ∧ Spaced df ps out.length seg par :=
  interval_sampling' trunc htr df hdf ps d hlen hpos hne hd

/-- … and equally spaced in terms of the distance function passed in, when it is linear along segments. -/
theorem interval_spacing_df (trunc : K → Int) (htr : IsFloor trunc) (df : Pt K → Pt K → K) (hdf : NonNeg df)
    (hlin : LinearAlong df) (ps : List (Pt K)) (d : K) (hlen : 2 ≤ ps.length) (hpos : 0 < lineLength df ps)
    (hne : allEq ps = false) (hd : 0 < d) :
    ∃ out seg par, toInterval trunc df (some ps) d = .ok (some out) ∧
      OnLine ps out seg par ∧ Ordered out.length seg par ∧ SpacedDf df ps out seg :=
  interval_spacing_df' trunc htr df hdf hlin ps d hlen hpos hne hd

/-! ### the edge cases -/

/-- Non-positive `N` returns nil. -/
theorem resample_nonpos (df : Pt K → Pt K → K) (ls : Line K) (n : Int) (hn : n ≤ 0) :
    resample df ls n = .ok none :=
  resample_nonpos' df ls n hn

/-- Non-positive `d` returns nil (nil / empty line included: the guard comes first). -/
theorem interval_nonpos (trunc : K → Int) (df : Pt K → Pt K → K) (ls : Line K) (d : K) (hd : d ≤ 0) :
    toInterval trunc df ls d = .ok none :=
  interval_nonpos' trunc df ls d hd

/-- A line with fewer than two vertices (nil, empty, one vertex) is returned as it is. -/
theorem short_identity (df : Pt K → Pt K → K) (ls : Line K) (n : Int) (hlen : ls.pts.length ≤ 1) (hn : 0 < n) :
    resample df ls n = .ok ls :=
  short_identity' df ls n hlen hn

/-- … and so does `ToInterval` (nil, empty, one vertex). -/
theorem interval_short_identity (trunc : K → Int) (df : Pt K → Pt K → K) (ls : Line K) (d : K)
    (hlen : ls.pts.length ≤ 1) (hd : 0 < d) :
    toInterval trunc df ls d = .ok ls :=
  interval_short_identity' trunc df ls d hlen hd

/-- A line whose vertices all coincide is padded (`n > len`) … -/
theorem all_equal_pad (df : Pt K → Pt K → K) (ps : List (Pt K)) (p0 : Pt K) (n : Int)
    (hlen : 2 ≤ ps.length) (heq : ∀ p ∈ ps, p = p0) (hn : (ps.length : Int) < n) :
    resample df (some ps) n = .ok (some (ps ++ List.replicate (n.toNat - ps.length) p0)) :=
  all_equal_pad' df ps p0 n hlen heq hn

/-- … or truncated (`0 < n ≤ len`) to the requested count … -/
theorem all_equal_truncate (df : Pt K → Pt K → K) (ps : List (Pt K)) (p0 : Pt K) (n : Int)
    (hlen : 2 ≤ ps.length) (heq : ∀ p ∈ ps, p = p0) (hn : 0 < n) (hn' : n ≤ (ps.length : Int)) :
    resample df (some ps) n = .ok (some (ps.take n.toNat)) :=
  all_equal_truncate' df ps p0 n hlen heq hn hn'

/-- … in both cases the result is `n` copies of the vertex. -/
theorem all_equal_pad_truncate (df : Pt K → Pt K → K) (ps : List (Pt K)) (p0 : Pt K) (n : Int)
    (hlen : 2 ≤ ps.length) (heq : ∀ p ∈ ps, p = p0) (hn : 0 < n) :
    resample df (some ps) n = .ok (some (List.replicate n.toNat p0)) :=
  all_equal_pad_truncate' df ps p0 n hlen heq hn

/-- The same for `ToInterval`, with `n = int(total/d) + 1`. -/
theorem interval_all_equal (trunc : K → Int) (htr : IsFloor trunc) (df : Pt K → Pt K → K) (hdf : NonNeg df)
    (ps : List (Pt K)) (p0 : Pt K) (d : K) (hlen : 2 ≤ ps.length) (heq : ∀ p ∈ ps, p = p0) (hd : 0 < d) :
    toInterval trunc df (some ps) d =
      .ok (some (List.replicate (trunc (lineLength df ps / d) + 1).toNat p0)) :=
  interval_all_equal' trunc htr df hdf ps p0 d hlen heq hd

/-! ### totality -/

/-- `Resample` returns a value (no panic, no endless loop) for every line — nil, empty,
    degenerate — and every `N`. -/
theorem resample_total (df : Pt K → Pt K → K) (hdf : NonNeg df) (ls : Line K) (n : Int) :
    (resample df ls n).isOk = true :=
  resample_total' df hdf ls n

/-- When the vertices differ but the computed length is zero (distances below float resolution),
    resampling to `n ≥ 2` points gives `n - 1` copies of the first vertex and the last vertex. -/
theorem resample_zero_length (df : Pt K → Pt K → K) (hdf : NonNeg df) (ps : List (Pt K)) (n : Int)
    (hlen : 2 ≤ ps.length) (hne : allEq ps = false) (hzero : lineLength df ps = 0) (hn : 2 ≤ n) :
    ∃ p0 last, ps.head? = some p0 ∧ ps.getLast? = some last ∧
      resample df (some ps) n = .ok (some (List.replicate (n.toNat - 1) p0 ++ [last])) :=
  resample_zero_length' df hdf ps n hlen hne hzero hn

/-- `ToInterval` returns a value for every line (nil and empty included) and every `d`. -/
theorem interval_total (trunc : K → Int) (htr : IsFloor trunc) (df : Pt K → Pt K → K) (hdf : NonNeg df)
    (ls : Line K) (d : K) :
    (toInterval trunc df ls d).isOk = true :=
  interval_total' trunc htr df hdf ls d

end field

/-! ### nothing outside the call (facts regenerated from the Go source by factgen, `Generated/PkgState.lean`)

  The model `Orb.Resample` is a pure function of the line, the distance function and `N` / `d`.  For
  the code that is a claim about more than one call: the result must not depend on the calls made
  before, on the memory the argument lives in, or on what other goroutines do.  Dynamically this is
  sampled (harness/c17_state.go: every call is repeated out of one reused vertex buffer whose
  contents change in between; concurrent callers); statically, package resample has nowhere to keep
  anything: no package-level variable, no goroutine, no import but orb.  (Trusted: factgen's
  extraction — the kernel checks the tables, not the extractor.) -/

open Generated.PkgState in
/-- Package resample was found, and it declares no package-level variable that can carry state from
    one call to the next or between goroutines (no cache, no scratch slice, no counter, no pool):
    the list of its `var`s that are neither error values nor constants in disguise is empty. -/
theorem no_package_state : packages.contains "resample" = true ∧ stateVars "resample" = [] := by decide

open Generated.PkgState in
/-- … in fact it declares no package-level variable of any kind. -/
theorem no_package_vars : varsOf "resample" = [] := by decide

open Generated.PkgState in
/-- It starts no goroutine, imports nothing but package orb (no sync, no sync/atomic, no reflect, no
    runtime, no os, no pointer arithmetic: nothing that holds state or identifies memory), and the only
    package-qualified "call" in it is the conversion `orb.LineString(points)`: whatever it computes
    it computes from its arguments, with `Point.Equal` and the caller's distance function. -/
theorem resample_self_contained :
    lookup goStmts "resample" = some [] ∧
    lookup imports "resample" = some ["github.com/paulmach/orb"] ∧
    lookup extCalls "resample" = some ["orb.LineString"] := by decide

/-- The hypothesis `LinearAlong` of `resample_spacing_df` cannot be dropped.  A latitude-weighted
    distance (the rational analogue of geo.Distance: the east-west part is scaled by the mean
    latitude of the two points) is non-negative, `Resample` of the segment (0,0)–(2,2) to 3 points
    returns the coordinate midpoint (1,1), and the two halves measure 3/2 and 5/2: the result is
    equally spaced in the parameter (`resample_spacing`) but NOT in the distance function passed in. -/
theorem spacing_df_needs_linear :
    ∃ df : Pt Rat → Pt Rat → Rat, NonNeg df ∧
      resample df (some [⟨0, 0⟩, ⟨2, 2⟩]) 3 = .ok (some [⟨0, 0⟩, ⟨1, 1⟩, ⟨2, 2⟩]) ∧
      df ⟨0, 0⟩ ⟨1, 1⟩ = 3 / 2 ∧ df ⟨1, 1⟩ ⟨2, 2⟩ = 5 / 2 ∧
      ¬ SpacedDf df [⟨0, 0⟩, ⟨2, 2⟩] [⟨0, 0⟩, ⟨1, 1⟩, ⟨2, 2⟩] (fun _ => 0) := by
  refine ⟨fun a b => |a.y - b.y| + |a.x - b.x| * |(a.y + b.y) / 2|, ?_, by decide +kernel,
    by decide +kernel, by decide +kernel, ?_⟩
  · intro a b
    exact add_nonneg (abs_nonneg _) (mul_nonneg (abs_nonneg _) (abs_nonneg _))
  · intro h
    have h1 := h 1 (by decide)
    revert h1
    decide +kernel

/-- Non-vacuity: the L-shaped line (0,0)–(4,0)–(4,2) of length 6 (Manhattan distance) resampled to
    4 points and to interval 2; an all-equal line padded to 3; the nil and the empty line. -/
example :
    let df : Pt Rat → Pt Rat → Rat := fun a b => |a.x - b.x| + |a.y - b.y|
    let ps : List (Pt Rat) := [⟨0, 0⟩, ⟨4, 0⟩, ⟨4, 2⟩]
    lineLength df ps = 6 ∧ allEq ps = false ∧
    resample df (some ps) 4 = .ok (some [⟨0, 0⟩, ⟨2, 0⟩, ⟨4, 0⟩, ⟨4, 2⟩]) ∧
    toInterval Rat.floor df (some ps) 2 = .ok (some [⟨0, 0⟩, ⟨2, 0⟩, ⟨4, 0⟩, ⟨4, 2⟩]) ∧
    resample df (some [⟨1, 1⟩, ⟨1, 1⟩]) 3 = .ok (some [⟨1, 1⟩, ⟨1, 1⟩, ⟨1, 1⟩]) ∧
    toInterval Rat.floor df none 2 = .ok none ∧ toInterval Rat.floor df (some []) 2 = .ok (some []) := by
  decide +kernel

/-- Non-vacuity of `resample_spacing_df`: the Manhattan distance over `Rat` satisfies both hypotheses,
    and on the L-shaped line the four points are 0, 2, 4, 6 along the line measured with it. -/
example :
    let df : Pt Rat → Pt Rat → Rat := fun a b => |a.x - b.x| + |a.y - b.y|
    let ps : List (Pt Rat) := [⟨0, 0⟩, ⟨4, 0⟩, ⟨4, 2⟩]
    NonNeg df ∧ LinearAlong df ∧
    alongDf df ps 0 ⟨2, 0⟩ = 2 ∧ alongDf df ps 0 ⟨4, 0⟩ = 4 ∧ alongDf df ps 1 ⟨4, 2⟩ = 6 := by
  refine ⟨fun a b => add_nonneg (abs_nonneg _) (abs_nonneg _), linearAlong_manhattan,
    by decide +kernel, by decide +kernel, by decide +kernel⟩

end Orb.Resample
