/-
  C16 lemmas, part B: the endpoint order (`before`, `lessE`, `swapE`, `sortE`).
-/
import OrbProofs.C16Tables

set_option linter.unusedSectionVars false

namespace Orb.SmartClip
open Orb Orb.Core

variable {α : Type} [Field α] [LinearOrder α] [IsStrictOrderedRing α]

/-- what `Less` needs of an endpoint: it lies on a side and its piece has two points -/
def EpOK (mls : List (List (Pt α))) (e : Endpoint α) : Prop :=
  (1 ≤ e.side ∧ e.side ≤ 4) ∧ ∃ ls, mls[e.index]? = some ls ∧ 2 ≤ ls.length

/-- every field of an endpoint except `otherEnd` (the only field `Swap` rewrites) -/
def epKey (e : Endpoint α) : Pt α × Bool × Bool × Nat × Nat := (e.point, e.start, e.used, e.side, e.index)

/-- `OtherEnd` links the two ends of one piece -/
def LinksOK (eps : List (Endpoint α)) : Prop :=
  ∀ (k : Nat) (e : Endpoint α), eps[k]? = some e → ∃ e' : Endpoint α, eps[e.otherEnd]? = some e' ∧ e'.otherEnd = k ∧ e'.index = e.index ∧ e'.start = !e.start

theorem resB_bind_inv {ε β γ : Type} {r : Res ε β} {f : β → Res ε γ} {b : γ}
    (h : (r >>= f) = .ok b) : ∃ a, r = .ok a ∧ f a = .ok b := by
  cases r with
  | ok a => exact ⟨a, rfl, h⟩
  | err e => cases h
  | panic s => cases h

theorem ptEqB_iff (p q : Pt α) : Core.ptEq p q = true ↔ p = q := by
  cases p; cases q; simp [Core.ptEq]

theorem pointSide_range' (box : Bound α) (p : Pt α) :
    (1 ≤ pointSide box p ∧ pointSide box p ≤ 4) ∨ pointSide box p = notOnSide := by
  unfold pointSide
  split_ifs <;> simp


theorem pointSide_onBoundary' (box : Bound α) (p : Pt α) (h : OnBoundary box p) :
    1 ≤ pointSide box p ∧ pointSide box p ≤ 4 := by
  obtain ⟨_, h⟩ := h
  unfold pointSide
  split_ifs with h1 h2 h3 h4
  · simp
  · simp
  · simp
  · simp
  · simp only [beq_iff_eq] at h1 h2 h3 h4
    tauto

theorem bitCodeOpen_onBoundary' (box : Bound α) (p : Pt α) (h : OnBoundary box p) : bitCodeOpen box p ≠ 0 := by
  obtain ⟨⟨h1, h2, h3, h4⟩, h⟩ := h
  unfold bitCodeOpen
  split_ifs <;> simp
  all_goals (rcases h with h | h | h | h <;> simp [h] at *)


theorem resB_bind_ok {ε β γ : Type} (a : β) (f : β → Res ε γ) : (Res.ok a >>= f) = f a := rfl

theorem before_ok' (mls : List (List (Pt α))) (e : Endpoint α) (h : EpOK mls e) :
    ∃ p, before mls e = .ok p := by
  obtain ⟨_, ls, hls, h2⟩ := h
  unfold before
  rw [hls]
  simp only
  split_ifs with hs hlt
  · have : 1 < ls.length := by omega
    rw [List.getElem?_eq_getElem this]
    exact ⟨_, rfl⟩
  · omega
  · have : ls.length - 2 < ls.length := by omega
    rw [List.getElem?_eq_getElem this]
    exact ⟨_, rfl⟩

theorem lessE_ok' (mls : List (List (Pt α))) (a b : Endpoint α) (ha : EpOK mls a) (hb : EpOK mls b) :
    ∃ r, lessE mls a b = .ok r := by
  obtain ⟨pa, hpa⟩ := before_ok' mls a ha
  obtain ⟨pb, hpb⟩ := before_ok' mls b hb
  obtain ⟨⟨h1, h4⟩, _⟩ := ha
  unfold lessE
  rw [hpa, hpb]
  simp only [resB_bind_ok, pure]
  split_ifs <;> first | exact ⟨_, rfl⟩ | skip
  rename_i c1 c2 c3 c4 c5 c6
  simp only [beq_iff_eq] at c3 c4 c5 c6
  omega

theorem lessE_unreachable' (mls : List (List (Pt α))) (a b : Endpoint α)
    (h : a.side = notOnSide ∧ b.side = notOnSide) : lessE mls a b = .panic "unreachable" := by
  unfold lessE
  simp [h.1, h.2, notOnSide]


/-- exchanging two slots of a list is a permutation -/
theorem swapSlots_perm {β : Type} (l : List β) (i j : Nat) (hi : i < l.length) (hj : j < l.length) :
    ((l.set i l[j]).set j l[i]).Perm l := by
  induction l generalizing i j with
  | nil => simp at hi
  | cons x xs ih =>
    cases i with
    | zero =>
      cases j with
      | zero => simp
      | succ j =>
        simp only [List.length_cons, Nat.add_lt_add_iff_right] at hj
        simp only [List.getElem_cons_succ, List.set_cons_zero, List.set_cons_succ, List.getElem_cons_zero]
        rw [List.set_eq_take_append_cons_drop, if_pos hj]
        have h2 : (xs[j] :: (List.take j xs ++ x :: List.drop (j+1) xs)).Perm (x :: (List.take j xs ++ xs[j] :: List.drop (j+1) xs)) := by
          refine (List.Perm.cons _ List.perm_middle).trans ?_
          refine (List.Perm.swap _ _ _).trans ?_
          exact List.Perm.cons _ List.perm_middle.symm
        refine h2.trans ?_
        rw [← List.drop_eq_getElem_cons hj, List.take_append_drop]
    | succ i =>
      simp only [List.length_cons, Nat.add_lt_add_iff_right] at hi
      cases j with
      | zero =>
        simp only [List.getElem_cons_succ, List.set_cons_zero, List.set_cons_succ, List.getElem_cons_zero]
        rw [List.set_eq_take_append_cons_drop, if_pos hi]
        have h2 : (xs[i] :: (List.take i xs ++ x :: List.drop (i+1) xs)).Perm (x :: (List.take i xs ++ xs[i] :: List.drop (i+1) xs)) := by
          refine (List.Perm.cons _ List.perm_middle).trans ?_
          refine (List.Perm.swap _ _ _).trans ?_
          exact List.Perm.cons _ List.perm_middle.symm
        refine h2.trans ?_
        rw [← List.drop_eq_getElem_cons hi, List.take_append_drop]
      | succ j =>
        simp only [List.length_cons, Nat.add_lt_add_iff_right] at hj
        simp only [List.getElem_cons_succ, List.set_cons_succ]
        exact List.Perm.cons _ (ih i j hi hj)

theorem map_epKey_modify (eps : List (Endpoint α)) (k v : Nat) :
    (eps.modify k fun e => { e with otherEnd := v }).map epKey = eps.map epKey := by
  apply List.ext_getElem?
  intro n
  simp only [List.getElem?_map, List.getElem?_modify]
  cases eps[n]? with
  | none => rfl
  | some e => by_cases h : k = n <;> simp [h, epKey]

theorem swapE_length' (eps : List (Endpoint α)) (i j : Nat) : (swapE eps i j).length = eps.length := by
  unfold swapE
  split
  · simp only
    split <;> simp
  · rfl

theorem swapE_perm' (eps : List (Endpoint α)) (i j : Nat) (hi : i < eps.length) (hj : j < eps.length) :
    ((swapE eps i j).map epKey).Perm (eps.map epKey) := by
  unfold swapE
  rw [List.getElem?_eq_getElem hi, List.getElem?_eq_getElem hj]
  simp only
  generalize he2 : List.modify (List.modify eps eps[i].otherEnd fun e => { e with otherEnd := j }) eps[j].otherEnd
    (fun e => { e with otherEnd := i }) = e2
  have hk : e2.map epKey = eps.map epKey := by
    rw [← he2, map_epKey_modify, map_epKey_modify]
  have hl : e2.length = eps.length := by rw [← he2]; simp
  have hi2 : i < e2.length := by omega
  have hj2 : j < e2.length := by omega
  rw [List.getElem?_eq_getElem hi2, List.getElem?_eq_getElem hj2]
  simp only
  rw [← hk]
  have := swapSlots_perm e2 i j hi2 hj2
  exact this.map epKey


theorem forallB_mem_modify {β : Type} {P : β → Prop} (l : List β) (k : Nat) (f : β → β)
    (h : ∀ e ∈ l, P e) (hf : ∀ e, P (f e)) : ∀ e ∈ l.modify k f, P e := by
  intro e he
  obtain ⟨n, hn⟩ := List.getElem?_of_mem he
  rw [List.getElem?_modify] at hn
  cases hl : l[n]? with
  | none => rw [hl] at hn; simp at hn
  | some e0 =>
    rw [hl] at hn
    simp only [Option.map_eq_map, Option.map_some, Option.some.injEq] at hn
    subst hn
    split_ifs
    · exact hf _
    · exact h _ (List.mem_of_getElem? hl)

theorem forallB_mem_set {β : Type} {P : β → Prop} (l : List β) (k : Nat) (a : β)
    (h : ∀ e ∈ l, P e) (ha : P a) : ∀ e ∈ l.set k a, P e := by
  intro e he
  rcases List.mem_or_eq_of_mem_set he with h1 | h1
  · exact h _ h1
  · exact h1 ▸ ha

theorem swapE_otherEnd_lt' (eps : List (Endpoint α)) (i j : Nat) (hi : i < eps.length) (hj : j < eps.length)
    (h : ∀ e ∈ eps, e.otherEnd < eps.length) : ∀ e ∈ swapE eps i j, e.otherEnd < eps.length := by
  unfold swapE
  rw [List.getElem?_eq_getElem hi, List.getElem?_eq_getElem hj]
  simp only
  generalize he2 : List.modify (List.modify eps eps[i].otherEnd fun e => { e with otherEnd := j }) eps[j].otherEnd
    (fun e => { e with otherEnd := i }) = e2
  have h2 : ∀ e ∈ e2, e.otherEnd < eps.length := by
    rw [← he2]
    apply forallB_mem_modify (P := fun e : Endpoint α => e.otherEnd < eps.length) _ _ _ _ (fun _ => hi)
    exact forallB_mem_modify (P := fun e : Endpoint α => e.otherEnd < eps.length) _ _ _ h (fun _ => hj)
  split
  · rename_i a' b' ha' hb'
    apply forallB_mem_set (P := fun e : Endpoint α => e.otherEnd < eps.length)
    · apply forallB_mem_set (P := fun e : Endpoint α => e.otherEnd < eps.length) _ _ _ h2
      exact h2 _ (List.mem_of_getElem? hb')
    · exact h2 _ (List.mem_of_getElem? ha')
  · exact h2

/-- the transposition of the slots `i` and `j` -/
def swapIdx (i j k : Nat) : Nat := if k = j then i else if k = i then j else k

/-- what `Swap(i, j)` does to the record that sits in slot `k` before the exchange -/
def updE (i j oa ob k : Nat) (e : Endpoint α) : Endpoint α :=
  if ob = k then { e with otherEnd := i } else if oa = k then { e with otherEnd := j } else e

theorem updE_index (i j oa ob k : Nat) (e : Endpoint α) : (updE i j oa ob k e).index = e.index := by
  unfold updE; split_ifs <;> rfl

theorem updE_start (i j oa ob k : Nat) (e : Endpoint α) : (updE i j oa ob k e).start = e.start := by
  unfold updE; split_ifs <;> rfl

theorem updE_otherEnd (i j oa ob k : Nat) (e : Endpoint α) :
    (updE i j oa ob k e).otherEnd = if ob = k then i else if oa = k then j else e.otherEnd := by
  unfold updE; split_ifs <;> rfl

/-- slot-by-slot description of `Swap(i, j)` -/
theorem swapE_getElem? (eps : List (Endpoint α)) (i j : Nat) (hi : i < eps.length) (hj : j < eps.length) (k : Nat) :
    (swapE eps i j)[k]? =
      (eps[swapIdx i j k]?).map (updE i j eps[i].otherEnd eps[j].otherEnd (swapIdx i j k)) := by
  unfold swapE
  rw [List.getElem?_eq_getElem hi, List.getElem?_eq_getElem hj]
  simp only
  generalize he2 : List.modify (List.modify eps eps[i].otherEnd fun e => { e with otherEnd := j }) eps[j].otherEnd
    (fun e => { e with otherEnd := i }) = e2
  have hk2 : ∀ k, e2[k]? = (eps[k]?).map (updE i j eps[i].otherEnd eps[j].otherEnd k) := by
    intro k
    rw [← he2, List.getElem?_modify, List.getElem?_modify]
    cases eps[k]? with
    | none => rfl
    | some e =>
      simp only [Option.map_eq_map, Option.map_some, Option.some.injEq]
      unfold updE
      split_ifs <;> rfl
  have hl : e2.length = eps.length := by rw [← he2]; simp
  have hi2 : i < e2.length := by omega
  have hj2 : j < e2.length := by omega
  rw [List.getElem?_eq_getElem hi2, List.getElem?_eq_getElem hj2]
  simp only
  rw [List.getElem?_set, List.getElem?_set]
  simp only [List.length_set]
  unfold swapIdx
  by_cases h1 : k = j
  · subst h1
    simp only [if_true, hi2, hj2, ← hk2]
    rw [List.getElem?_eq_getElem hi2]
  · by_cases h2 : k = i
    · subst h2
      have : ¬ j = k := fun h => h1 h.symm
      simp only [this, if_false, if_true, hi2, ← hk2, h1]
      rw [List.getElem?_eq_getElem hj2]
    · have h1' : ¬ j = k := fun h => h1 h.symm
      have h2' : ¬ i = k := fun h => h2 h.symm
      simp only [h1, h2, h1', h2', if_false, hk2]

theorem swapIdx_invol (i j k : Nat) : swapIdx i j (swapIdx i j k) = k := by
  unfold swapIdx; split_ifs <;> omega

theorem swapE_links' (eps : List (Endpoint α)) (i j : Nat) (hi : i < eps.length) (hj : j < eps.length)
    (hij : i ≠ j) (h : LinksOK eps) : LinksOK (swapE eps i j) := by
  -- the partners of `i` and `j`
  obtain ⟨a', ha1, ha2, -, ha4⟩ := h i eps[i] (List.getElem?_eq_getElem hi)
  obtain ⟨b', hb1, hb2, -, hb4⟩ := h j eps[j] (List.getElem?_eq_getElem hj)
  generalize hoa : eps[i].otherEnd = oa at *
  generalize hob : eps[j].otherEnd = ob at *
  -- a slot pointing to `i` is the partner of `i`, etc.
  have toI : ∀ k e, eps[k]? = some e → e.otherEnd = i → k = oa := by
    intro k e hk he
    obtain ⟨e', h1, h2, -, -⟩ := h k e hk
    rw [he, List.getElem?_eq_getElem hi, Option.some.injEq] at h1
    rw [← h2, ← h1, hoa]
  have toJ : ∀ k e, eps[k]? = some e → e.otherEnd = j → k = ob := by
    intro k e hk he
    obtain ⟨e', h1, h2, -, -⟩ := h k e hk
    rw [he, List.getElem?_eq_getElem hj, Option.some.injEq] at h1
    rw [← h2, ← h1, hob]
  intro k e hk
  rw [swapE_getElem? eps i j hi hj, hoa, hob] at hk
  -- the record `e0` that moves into slot `k`, and its partner `e0'`
  cases hk0 : eps[swapIdx i j k]? with
  | none => rw [hk0] at hk; cases hk
  | some e0 =>
    rw [hk0, Option.map_some, Option.some.injEq] at hk
    obtain ⟨e0', h1, h2, h3, h4⟩ := h _ e0 hk0
    have hoe : e.otherEnd = swapIdx i j e0.otherEnd := by
      rw [← hk, updE_otherEnd]
      split_ifs with c1 c2
      · rw [c1, hk0] at hb1
        cases hb1
        rw [hb2]; simp [swapIdx]
      · rw [c2, hk0] at ha1
        cases ha1
        rw [ha2]; simp [swapIdx, hij]
      · have n1 : e0.otherEnd ≠ i := fun hc => c2 (toI _ _ hk0 hc).symm
        have n2 : e0.otherEnd ≠ j := fun hc => c1 (toJ _ _ hk0 hc).symm
        simp [swapIdx, n1, n2]
    refine ⟨updE i j oa ob e0.otherEnd e0', ?_, ?_, ?_, ?_⟩
    · rw [swapE_getElem? eps i j hi hj, hoa, hob, hoe, swapIdx_invol, h1, Option.map_some]
    · rw [updE_otherEnd]
      split_ifs with c1 c2
      · rw [← c1, hb1, Option.some.injEq] at h1
        have : swapIdx i j k = j := by rw [← h2, ← h1, hb2]
        have := swapIdx_invol i j k
        rw [‹swapIdx i j k = j›] at this
        rw [← this]; simp [swapIdx]
      · rw [← c2, ha1, Option.some.injEq] at h1
        have : swapIdx i j k = i := by rw [← h2, ← h1, ha2]
        have := swapIdx_invol i j k
        rw [‹swapIdx i j k = i›] at this
        rw [← this]; simp [swapIdx, hij]
      · have n1 : swapIdx i j k ≠ i := by
          intro hc
          rw [hc, List.getElem?_eq_getElem hi, Option.some.injEq] at hk0
          rw [← hk0, hoa] at c2
          exact c2 rfl
        have n2 : swapIdx i j k ≠ j := by
          intro hc
          rw [hc, List.getElem?_eq_getElem hj, Option.some.injEq] at hk0
          rw [← hk0, hob] at c1
          exact c1 rfl
        rw [h2]
        unfold swapIdx at n1 n2 ⊢
        split_ifs at n1 n2 ⊢ <;> omega
    · rw [updE_index, h3, ← hk, updE_index]
    · rw [updE_start, h4, ← hk, updE_start]

theorem lessIdx_ok_lt {mls : List (List (Pt α))} {rev : Bool} {eps : List (Endpoint α)} {i j : Nat} {b : Bool}
    (h : lessIdx mls rev eps i j = .ok b) : i < eps.length ∧ j < eps.length := by
  unfold lessIdx at h
  split at h
  · rename_i a b ha hb
    exact ⟨(List.getElem?_eq_some_iff.mp ha).1, (List.getElem?_eq_some_iff.mp hb).1⟩
  · cases h

/-- anything `Swap` (on two different valid slots) preserves is preserved by the inner loop -/
theorem sortInner_inv (P : List (Endpoint α) → Prop)
    (hP : ∀ eps i j, i < eps.length → j < eps.length → i ≠ j → P eps → P (swapE eps i j))
    (mls : List (List (Pt α))) (rev : Bool) :
    ∀ (j : Nat) (eps eps' : List (Endpoint α)), sortInner mls rev j eps = .ok eps' → P eps → P eps' := by
  intro j
  induction j with
  | zero =>
    intro eps eps' h hp
    simp only [sortInner, Res.ok.injEq] at h
    exact h ▸ hp
  | succ j ih =>
    intro eps eps' h hp
    simp only [sortInner] at h
    obtain ⟨b, hb, h⟩ := resB_bind_inv h
    obtain ⟨h1, h2⟩ := lessIdx_ok_lt hb
    cases b with
    | true =>
      simp only [if_true] at h
      exact ih _ _ h (hP _ _ _ h1 h2 (by omega) hp)
    | false =>
      simp only [Bool.false_eq_true, if_false, pure, Res.ok.injEq] at h
      exact h ▸ hp

theorem foldlM_res_inv {β γ : Type} (P : β → Prop) (f : β → γ → Res String β)
    (hf : ∀ a i b, f a i = .ok b → P a → P b) :
    ∀ (l : List γ) (init out : β), l.foldlM f init = .ok out → P init → P out := by
  intro l
  induction l with
  | nil =>
    intro init out h hp
    simp only [List.foldlM_nil, pure, Res.ok.injEq] at h
    exact h ▸ hp
  | cons x xs ih =>
    intro init out h hp
    rw [List.foldlM_cons] at h
    obtain ⟨a, ha, h⟩ := resB_bind_inv h
    exact ih _ _ h (hf _ _ _ ha hp)

/-- anything `Swap` (on two different valid slots) preserves is preserved by the sort -/
theorem sortE_inv (P : List (Endpoint α) → Prop)
    (hP : ∀ eps i j, i < eps.length → j < eps.length → i ≠ j → P eps → P (swapE eps i j))
    (mls : List (List (Pt α))) (rev : Bool) (eps eps' : List (Endpoint α))
    (h : sortE mls rev eps = .ok eps') (hp : P eps) : P eps' := by
  unfold sortE at h
  exact foldlM_res_inv P _ (fun a i b hab => sortInner_inv P hP mls rev i a b hab) _ _ _ h hp

theorem sortE_perm' (mls : List (List (Pt α))) (rev : Bool) (eps eps' : List (Endpoint α))
    (h : sortE mls rev eps = .ok eps') :
    eps'.length = eps.length ∧ (eps'.map epKey).Perm (eps.map epKey) := by
  refine sortE_inv (fun l => l.length = eps.length ∧ (l.map epKey).Perm (eps.map epKey)) ?_ mls rev eps eps' h
    ⟨rfl, List.Perm.refl _⟩
  intro l i j hi hj _ ⟨h1, h2⟩
  exact ⟨by rw [swapE_length', h1], (swapE_perm' l i j hi hj).trans h2⟩

theorem epOK_of_key {mls : List (List (Pt α))} {e e0 : Endpoint α} (hk : epKey e0 = epKey e) (h : EpOK mls e0) :
    EpOK mls e := by
  simp only [epKey, Prod.mk.injEq] at hk
  obtain ⟨_, _, _, hs, hi⟩ := hk
  unfold EpOK at *
  rw [← hs, ← hi]
  exact h

theorem forall_epOK_of_perm {mls : List (List (Pt α))} {l l0 : List (Endpoint α)}
    (hp : (l.map epKey).Perm (l0.map epKey)) (h : ∀ e ∈ l0, EpOK mls e) : ∀ e ∈ l, EpOK mls e := by
  intro e he
  have : epKey e ∈ l0.map epKey := hp.subset (List.mem_map_of_mem he)
  obtain ⟨e0, he0, hk⟩ := List.mem_map.mp this
  exact epOK_of_key hk (h _ he0)

theorem lessIdx_ok (mls : List (List (Pt α))) (rev : Bool) (eps : List (Endpoint α)) (i j : Nat)
    (hi : i < eps.length) (hj : j < eps.length) (h : ∀ e ∈ eps, EpOK mls e) :
    ∃ b, lessIdx mls rev eps i j = .ok b := by
  unfold lessIdx
  rw [List.getElem?_eq_getElem hi, List.getElem?_eq_getElem hj]
  simp only
  split_ifs
  · exact lessE_ok' _ _ _ (h _ (List.getElem_mem _)) (h _ (List.getElem_mem _))
  · exact lessE_ok' _ _ _ (h _ (List.getElem_mem _)) (h _ (List.getElem_mem _))

theorem sortInner_ok (mls : List (List (Pt α))) (rev : Bool) :
    ∀ (j : Nat) (eps : List (Endpoint α)), j < eps.length → (∀ e ∈ eps, EpOK mls e) →
      ∃ eps', sortInner mls rev j eps = .ok eps' := by
  intro j
  induction j with
  | zero => intro eps _ _; exact ⟨_, rfl⟩
  | succ j ih =>
    intro eps hj h
    obtain ⟨b, hb⟩ := lessIdx_ok mls rev eps (j+1) j hj (by omega) h
    simp only [sortInner, hb, resB_bind_ok]
    cases b with
    | true =>
      simp only [if_true]
      apply ih
      · rw [swapE_length']; omega
      · exact forall_epOK_of_perm (swapE_perm' eps (j+1) j hj (by omega)) h
    | false => exact ⟨_, rfl⟩

theorem foldlM_res_ok {β γ : Type} (Q : β → Prop) (f : β → γ → Res String β) :
    ∀ (l : List γ) (init : β), Q init → (∀ a, Q a → ∀ i ∈ l, ∃ b, f a i = .ok b ∧ Q b) →
      ∃ out, l.foldlM f init = .ok out := by
  intro l
  induction l with
  | nil => intro init _ _; exact ⟨_, rfl⟩
  | cons x xs ih =>
    intro init hq hf
    obtain ⟨b, hb, hqb⟩ := hf init hq x (List.mem_cons_self)
    rw [List.foldlM_cons, hb, resB_bind_ok]
    exact ih b hqb (fun a ha i hi => hf a ha i (List.mem_cons_of_mem _ hi))

theorem sortE_ok' (mls : List (List (Pt α))) (rev : Bool) (eps : List (Endpoint α))
    (h : ∀ e ∈ eps, EpOK mls e) (ho : ∀ e ∈ eps, e.otherEnd < eps.length) :
    ∃ eps', sortE mls rev eps = .ok eps' ∧ eps'.length = eps.length ∧
      (eps'.map epKey).Perm (eps.map epKey) ∧ (∀ e ∈ eps', e.otherEnd < eps'.length) := by
  have hex : ∃ eps', sortE mls rev eps = .ok eps' := by
    unfold sortE
    apply foldlM_res_ok (fun l : List (Endpoint α) => l.length = eps.length ∧ ∀ e ∈ l, EpOK mls e) _ _ _ ⟨rfl, h⟩
    intro a ⟨hal, ha⟩ i hi
    have hi' : i < a.length := by
      rw [List.mem_range'_1] at hi
      omega
    obtain ⟨b, hb⟩ := sortInner_ok mls rev i a hi' ha
    refine ⟨b, hb, ?_⟩
    refine sortInner_inv (fun l : List (Endpoint α) => l.length = eps.length ∧ ∀ e ∈ l, EpOK mls e) ?_ mls rev i a b hb ⟨hal, ha⟩
    intro l i j hi hj _ ⟨h1, h2⟩
    exact ⟨by rw [swapE_length', h1], forall_epOK_of_perm (swapE_perm' l i j hi hj) h2⟩
  obtain ⟨eps', he⟩ := hex
  obtain ⟨hl, hp⟩ := sortE_perm' mls rev eps eps' he
  refine ⟨eps', he, hl, hp, ?_⟩
  have := sortE_inv (fun l : List (Endpoint α) => l.length = eps.length ∧ ∀ e ∈ l, e.otherEnd < eps.length) ?_ mls rev eps eps' he ⟨rfl, ho⟩
  · rw [hl]; exact this.2
  · intro l i j hi hj _ ⟨h1, h2⟩
    refine ⟨by rw [swapE_length', h1], ?_⟩
    rw [← h1]
    exact swapE_otherEnd_lt' l i j hi hj (h1 ▸ h2)

theorem sortE_links' (mls : List (List (Pt α))) (rev : Bool) (eps eps' : List (Endpoint α))
    (h : sortE mls rev eps = .ok eps') (hl : LinksOK eps) : LinksOK eps' :=
  sortE_inv LinksOK (fun l i j hi hj hij hp => swapE_links' l i j hi hj hij hp) mls rev eps eps' h hl

/-- slot-by-slot description of the unsorted endpoint slice -/
theorem mkEndpoints_slots (box : Bound α) :
    ∀ (input : List (List (Pt α))) (i : Nat), (∀ ls ∈ input, ls ≠ []) →
    ∃ eps, mkEndpoints box i input = .ok eps ∧ eps.length = 2 * input.length ∧
      ∀ m ls, input[m]? = some ls → ∃ f l, ls.head? = some f ∧ ls.getLast? = some l ∧
        eps[2*m]? = some { point := f, start := true, used := false, side := pointSide box f, index := i+m, otherEnd := 2*(i+m)+1 } ∧
        eps[2*m+1]? = some { point := l, start := false, used := false, side := pointSide box l, index := i+m, otherEnd := 2*(i+m) } := by
  intro input
  induction input with
  | nil =>
    intro i _
    exact ⟨[], rfl, rfl, by simp⟩
  | cons r rest ih =>
    intro i hne
    obtain ⟨tl, htl, hlen, hs⟩ := ih (i+1) (fun ls h => hne ls (List.mem_cons_of_mem _ h))
    have hr : r ≠ [] := hne r List.mem_cons_self
    obtain ⟨f, hf⟩ : ∃ f, r.head? = some f := by
      cases r with
      | nil => exact absurd rfl hr
      | cons x xs => exact ⟨x, rfl⟩
    obtain ⟨l, hl⟩ : ∃ l, r.getLast? = some l := ⟨r.getLast hr, List.getLast?_eq_some_getLast hr⟩
    refine ⟨_, by simp only [mkEndpoints, hf, hl, htl, resB_bind_ok, pure]; rfl, by simp [hlen]; omega, ?_⟩
    intro m ls hm
    cases m with
    | zero =>
      simp only [List.getElem?_cons_zero, Option.some.injEq] at hm
      subst hm
      exact ⟨f, l, hf, hl, rfl, rfl⟩
    | succ m =>
      simp only [List.getElem?_cons_succ] at hm
      obtain ⟨f', l', h1, h2, h3, h4⟩ := hs m ls hm
      refine ⟨f', l', h1, h2, ?_, ?_⟩
      · have : 2 * (m+1) = (2*m) + 1 + 1 := by omega
        rw [this, List.getElem?_cons_succ, List.getElem?_cons_succ, h3, show i + 1 + m = i + (m+1) by omega]
      · have : 2 * (m+1) + 1 = (2*m+1) + 1 + 1 := by omega
        rw [this, List.getElem?_cons_succ, List.getElem?_cons_succ, h4, show i + 1 + m = i + (m+1) by omega]

theorem mkEndpoints_spec' (box : Bound α) (input : List (List (Pt α))) (hne : ∀ ls ∈ input, ls ≠ []) :
    ∃ eps, mkEndpoints box 0 input = .ok eps ∧ eps.length = 2 * input.length ∧ LinksOK eps ∧
      (∀ e ∈ eps, e.used = false ∧ e.otherEnd < eps.length ∧ e.side = pointSide box e.point ∧
        ∃ ls, input[e.index]? = some ls ∧
          (if e.start then ls.head? = some e.point else ls.getLast? = some e.point)) := by
  obtain ⟨eps, he, hlen, hs⟩ := mkEndpoints_slots box input 0 hne
  -- every slot, by parity
  have key : ∀ k e, eps[k]? = some e → ∃ ls f l, input[k/2]? = some ls ∧ ls.head? = some f ∧ ls.getLast? = some l ∧
      eps[2*(k/2)]? = some { point := f, start := true, used := false, side := pointSide box f, index := k/2, otherEnd := 2*(k/2)+1 } ∧
      eps[2*(k/2)+1]? = some { point := l, start := false, used := false, side := pointSide box l, index := k/2, otherEnd := 2*(k/2) } := by
    intro k e hk
    have hk' : k < eps.length := (List.getElem?_eq_some_iff.mp hk).1
    have hm : k / 2 < input.length := by omega
    obtain ⟨f, l, h1, h2, h3, h4⟩ := hs (k/2) _ (List.getElem?_eq_getElem hm)
    simp only [Nat.zero_add] at h3 h4
    exact ⟨_, f, l, List.getElem?_eq_getElem hm, h1, h2, h3, h4⟩
  refine ⟨eps, he, hlen, ?_, ?_⟩
  · intro k e hk
    obtain ⟨ls, f, l, h0, h1, h2, h3, h4⟩ := key k e hk
    rcases Nat.mod_two_eq_zero_or_one k with hpar | hpar
    · have hk2 : 2 * (k/2) = k := by omega
      rw [hk2] at h3 h4
      rw [hk] at h3
      simp only [Option.some.injEq] at h3
      subst h3
      exact ⟨_, h4, by simp, rfl, rfl⟩
    · have hk2 : 2 * (k/2) + 1 = k := by omega
      rw [hk2] at h4
      rw [hk] at h4
      simp only [Option.some.injEq] at h4
      subst h4
      exact ⟨_, h3, by simp; omega, rfl, rfl⟩
  · intro e hmem
    obtain ⟨k, hk⟩ := List.getElem?_of_mem hmem
    have hk' : k < eps.length := (List.getElem?_eq_some_iff.mp hk).1
    obtain ⟨ls, f, l, h0, h1, h2, h3, h4⟩ := key k e hk
    rcases Nat.mod_two_eq_zero_or_one k with hpar | hpar
    · have hk2 : 2 * (k/2) = k := by omega
      rw [hk2] at h3
      rw [hk] at h3
      simp only [Option.some.injEq] at h3
      subst h3
      exact ⟨rfl, by simp; omega, rfl, ls, h0, by simpa using h1⟩
    · have hk2 : 2 * (k/2) + 1 = k := by omega
      rw [hk2] at h4
      rw [hk] at h4
      simp only [Option.some.injEq] at h4
      subst h4
      exact ⟨rfl, by simp; omega, rfl, ls, h0, by simpa using h2⟩

end Orb.SmartClip
