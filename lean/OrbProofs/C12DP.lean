/-
  C12 lemmas: Douglas-Peucker and the point–segment distance.  The primed statements are re-exported by OrbProofs/C12.lean.
-/
import OrbProofs.C12Basic
import Mathlib.Data.List.Basic
import Mathlib.Data.List.Induction

set_option linter.unusedSectionVars false

namespace Orb.Simplify
open Orb

/-! ### masks -/

theorem getD_set_true (mask : List Bool) (m i : Nat) :
    (mask.set m true).getD i false = true ↔ mask.getD i false = true ∨ (i = m ∧ m < mask.length) := by
  simp only [List.getD_eq_getElem?_getD, List.getElem?_set]
  by_cases h : m = i
  · subst h
    by_cases h2 : m < mask.length <;> simp [h2]
  · simp [h]; omega

theorem mem_maskIdx (mask : List Bool) (i : Nat) :
    i ∈ maskIdx mask ↔ i < mask.length ∧ mask.getD i false = true := by
  simp [maskIdx]

theorem maskIdx_pairwise (mask : List Bool) : (maskIdx mask).Pairwise (· < ·) :=
  List.Pairwise.filter _ List.pairwise_lt_range

section generic
variable {α : Type} [LT α] [DecidableLT α] [OfNat α 0]

theorem dpWorker_mask (dist : Pt α → Pt α → Pt α → α) (ls : List (Pt α)) (tsq : α) :
    ∀ (fuel : Nat) (stack : List (Nat × Nat)) (mask mask' : List Bool),
      dpWorker dist ls tsq fuel stack mask = some mask' →
      mask'.length = mask.length ∧ ∀ i, mask.getD i false = true → mask'.getD i false = true := by
  intro fuel
  induction fuel with
  | zero =>
    intro stack mask mask' h
    cases stack with
    | nil => simp [dpWorker] at h; subst h; simp
    | cons p rest => simp [dpWorker] at h
  | succ fuel ih =>
    intro stack mask mask' h
    cases stack with
    | nil => simp [dpWorker] at h; subst h; simp
    | cons p rest =>
      obtain ⟨s, e⟩ := p
      simp only [dpWorker] at h
      split at h
      · obtain ⟨h1, h2⟩ := ih _ _ _ h
        refine ⟨by simpa using h1, fun i hi => h2 i ?_⟩
        exact (getD_set_true _ _ _).2 (Or.inl hi)
      · exact ih _ _ _ h

end generic

theorem pairwise_head_zero {idx : List Nat} (hp : idx.Pairwise (· < ·)) (h0 : 0 ∈ idx) :
    ∃ r, idx = 0 :: r := by
  cases idx with
  | nil => simp at h0
  | cons a r =>
    rcases List.mem_cons.1 h0 with h | h
    · exact ⟨r, by rw [← h]⟩
    · have := (List.pairwise_cons.1 hp).1 0 h
      omega

theorem pairwise_last_max {idx : List Nat} (hp : idx.Pairwise (· < ·)) {m : Nat} (hm : m ∈ idx)
    (hmax : ∀ i ∈ idx, i ≤ m) : ∃ r, idx = r ++ [m] := by
  induction idx using List.reverseRecOn with
  | nil => simp at hm
  | append_singleton r a _ =>
    rcases List.mem_append.1 hm with h | h
    · have h1 := (List.pairwise_append.1 hp).2.2 m h a (by simp)
      have h2 := hmax a (by simp)
      omega
    · simp at h
      exact ⟨r, by rw [h]⟩


section generic2
variable {α : Type} [Mul α] [LT α] [DecidableLT α] [OfNat α 0]

theorem dpMask_props (dist : Pt α → Pt α → Pt α → α) (t : α) (ls : List (Pt α)) (mask : List Bool)
    (h : dpMask dist t ls = some mask) :
    mask.length = ls.length ∧ (0 < ls.length → mask.getD 0 false = true ∧ mask.getD (ls.length - 1) false = true) := by
  unfold dpMask at h
  obtain ⟨h1, h2⟩ := dpWorker_mask _ _ _ _ _ _ _ h
  refine ⟨by simpa using h1, fun hn => ⟨h2 _ ?_, h2 _ ?_⟩⟩
  · rw [getD_set_true, getD_set_true]
    by_cases h : 0 = ls.length - 1
    · right; simp; omega
    · left; right; simp; omega
  · rw [getD_set_true]
    right; simp; omega

theorem dpWith_kept (dist : Pt α → Pt α → Pt α → α) (t : α) (ls out : List (Pt α))
    (h : dpSimplifyWith dist t ls = .ok out) :
    ∃ idx, (dpMask dist t ls).map maskIdx = some idx ∧ idx.Pairwise (· < ·) ∧ (∀ i ∈ idx, i < ls.length) ∧
      0 ∈ idx ∧ ls.length - 1 ∈ idx ∧ 0 < ls.length ∧
      out = idx.filterMap (fun i => ls[i]?) := by
  unfold dpSimplifyWith at h
  split at h
  · simp at h
  · rename_i hn
    split at h
    · simp at h
    · rename_i mask hm
      obtain ⟨h1, h2⟩ := dpMask_props _ _ _ _ hm
      have hn' : 0 < ls.length := by omega
      obtain ⟨h3, h4⟩ := h2 hn'
      have hr : ∀ i ∈ maskIdx mask, i < ls.length := fun i hi => by
        rw [mem_maskIdx] at hi; omega
      refine ⟨maskIdx mask, by simp [hm], maskIdx_pairwise _, hr, ?_, ?_, hn', ?_⟩
      · rw [mem_maskIdx]; exact ⟨by omega, h3⟩
      · rw [mem_maskIdx]; exact ⟨by omega, h4⟩
      · injection h with h
        rw [← h, compact_eq_map _ _ (maskIdx_pairwise _) hr]

theorem dpWith_ends (dist : Pt α → Pt α → Pt α → α) (t : α) (ls out : List (Pt α))
    (h : dpSimplifyWith dist t ls = .ok out) : EndsKept ls out := by
  obtain ⟨idx, -, hp, hr, h0, hl, hn, rfl⟩ := dpWith_kept dist t ls out h
  constructor
  · obtain ⟨r, rfl⟩ := pairwise_head_zero hp h0
    cases ls with
    | nil => simp at hn
    | cons a l => simp
  · obtain ⟨r, rfl⟩ := pairwise_last_max hp hl (fun i hi => by have := hr i hi; omega)
    rw [List.filterMap_append]
    have : ls[ls.length - 1]? = some (ls[ls.length - 1]'(by omega)) := List.getElem?_eq_getElem _
    simp only [List.filterMap_cons, this, List.filterMap_nil]
    rw [List.getLast?_append]
    simp [List.getLast?_eq_getElem?]

end generic2

section anyArithmetic
variable {α : Type} [Add α] [Sub α] [Mul α] [Div α] [Neg α] [LT α] [LE α] [DecidableLT α] [DecidableLE α] [BEq α] [OfNat α 0] [OfNat α 1] [OfNat α 2]

theorem dp_kept_indices' (t : α) (ls out : List (Pt α)) (h : dpSimplify t ls = .ok out) :
    ∃ idx, (dpMask distSegSq t ls).map maskIdx = some idx ∧ idx.Pairwise (· < ·) ∧ (∀ i ∈ idx, i < ls.length) ∧
      out = idx.filterMap (fun i => ls[i]?) := by
  obtain ⟨idx, h1, h2, h3, -, -, -, h4⟩ := dpWith_kept distSegSq t ls out h
  exact ⟨idx, h1, h2, h3, h4⟩

theorem dp_subseq_in_order' (t : α) (ls out : List (Pt α)) (h : dpSimplify t ls = .ok out) :
    out.Sublist ls := by
  obtain ⟨idx, -, h2, h3, -, -, -, h4⟩ := dpWith_kept distSegSq t ls out h
  rw [h4, ← compact_eq_map _ _ h2 h3]
  exact compact_sublist _ _ h2 h3

theorem dp_endpoints_kept' (t : α) (ls out : List (Pt α)) (h : dpSimplify t ls = .ok out) :
    EndsKept ls out := dpWith_ends distSegSq t ls out h

theorem dp_closed_stays_closed' (t : α) (ls out : List (Pt α)) (h : dpSimplify t ls = .ok out) (hc : Closed ls) :
    Closed out := by
  obtain ⟨h1, h2⟩ := dp_endpoints_kept' t ls out h
  obtain ⟨a, b, ha, hb, hab⟩ := hc
  exact ⟨a, b, by rw [h1, ha], by rw [h2, hb], hab⟩

end anyArithmetic

section scan
variable {α : Type} [LinearOrder α]

/-- one step of the inner scan for the distance-by-index function `d` -/
def scanF (d : Nat → α) (m : α × Nat) (i : Nat) : α × Nat := if m.1 < d i then (d i, i) else m

theorem scanF_pos {d : Nat → α} {m : α × Nat} {i : Nat} (h : m.1 < d i) : scanF d m i = (d i, i) := by
  unfold scanF; rw [if_pos h]

theorem scanF_neg {d : Nat → α} {m : α × Nat} {i : Nat} (h : ¬ m.1 < d i) : scanF d m i = m := by
  unfold scanF; rw [if_neg h]

theorem scan_lt (d : Nat → α) (v : α) (l : List Nat) : ∀ (init : α × Nat), init.1 < v → (∀ i ∈ l, d i < v) →
    (l.foldl (scanF d) init).1 < v := by
  induction l with
  | nil => intro init h _; simpa using h
  | cons x l ih =>
    intro init h hl
    simp only [List.foldl_cons]
    apply ih
    · unfold scanF; split
      · exact hl x (by simp)
      · exact h
    · intro i hi; exact hl i (by simp [hi])

theorem scan_stay (d : Nat → α) (l : List Nat) : ∀ (init : α × Nat), (∀ i ∈ l, d i ≤ init.1) →
    l.foldl (scanF d) init = init := by
  induction l with
  | nil => intro init _; rfl
  | cons x l ih =>
    intro init hl
    have : scanF d init x = init := by
      unfold scanF; rw [if_neg]; exact not_lt.2 (hl x (by simp))
    simp only [List.foldl_cons, this]
    exact ih init (fun i hi => hl i (by simp [hi]))

theorem scan_unique (d : Nat → α) (l1 l2 : List Nat) (c : Nat) (init : α × Nat) (h0 : init.1 < d c)
    (h1 : ∀ i ∈ l1, d i < d c) (h2 : ∀ i ∈ l2, d i ≤ d c) :
    (l1 ++ c :: l2).foldl (scanF d) init = (d c, c) := by
  rw [List.foldl_append, List.foldl_cons]
  have := scan_lt d (d c) l1 init h0 h1
  rw [scanF_pos this]
  exact scan_stay d l2 _ h2

theorem scan_spec [Zero α] (d : Nat → α) (a : Nat) : ∀ len : Nat,
    let r := (List.range' a len).foldl (scanF d) ((0 : α), 0)
    (r = (0, 0) ∧ ∀ k, a ≤ k → k < a + len → d k ≤ 0) ∨
    (a ≤ r.2 ∧ r.2 < a + len ∧ r.1 = d r.2 ∧ 0 < r.1 ∧ (∀ k, a ≤ k → k < r.2 → d k < r.1) ∧
      (∀ k, r.2 < k → k < a + len → d k ≤ r.1)) := by
  intro len
  induction len with
  | zero => left; simp; intro k h1 h2; omega
  | succ len ih =>
    simp only [List.range'_concat, List.foldl_append, List.foldl_cons, List.foldl_nil, one_mul]
    simp only at ih
    set r' := (List.range' a len).foldl (scanF d) ((0 : α), 0) with hr'
    by_cases hlt : r'.1 < d (a + len)
    · right
      rw [scanF_pos hlt]
      refine ⟨by simp, by simp, rfl, ?_, ?_, ?_⟩
      · rcases ih with ⟨h1, h2⟩ | ⟨h1, h2, h3, h4, h5, h6⟩
        · rw [h1] at hlt; exact hlt
        · exact lt_trans h4 hlt
      · intro k hk1 hk2
        simp only at hk2 ⊢
        rcases ih with ⟨h1, h2⟩ | ⟨h1, h2, h3, h4, h5, h6⟩
        · rw [h1] at hlt; exact lt_of_le_of_lt (h2 k hk1 hk2) hlt
        · rcases Nat.lt_trichotomy k r'.2 with h | h | h
          · exact lt_trans (h5 k hk1 h) hlt
          · rw [h, ← h3]; exact hlt
          · exact lt_of_le_of_lt (h6 k h hk2) hlt
      · intro k hk1 hk2; simp only at hk1; omega
    · rw [scanF_neg hlt]
      have hle := not_lt.1 hlt
      rcases ih with ⟨h1, h2⟩ | ⟨h1, h2, h3, h4, h5, h6⟩
      · left
        refine ⟨h1, ?_⟩
        intro k hk1 hk2
        by_cases hk : k = a + len
        · rw [hk]; rw [h1] at hle; exact hle
        · exact h2 k hk1 (by omega)
      · right
        refine ⟨h1, by omega, h3, h4, h5, ?_⟩
        intro k hk1 hk2
        by_cases hk : k = a + len
        · rw [hk]; exact hle
        · exact h6 k hk1 (by omega)

end scan


theorem pairwise_lt_ext {l₁ l₂ : List Nat} (h₁ : l₁.Pairwise (· < ·)) (h₂ : l₂.Pairwise (· < ·))
    (h : ∀ i, i ∈ l₁ ↔ i ∈ l₂) : l₁ = l₂ := by
  apply List.Perm.eq_of_pairwise (le := (· < ·)) _ h₁ h₂
  · exact (List.perm_ext_iff_of_nodup (h₁.imp Nat.ne_of_lt) (h₂.imp Nat.ne_of_lt)).2 h
  · intro a b _ _ hab hba; omega

section ordered
variable {α : Type} [Field α] [LinearOrder α] [IsStrictOrderedRing α]
variable (dist : Pt α → Pt α → Pt α → α) (ls : List (Pt α))

/-- distance of vertex `i` from the segment `(s, e)` -/
def dAt (s e i : Nat) : α := dist (ls.getD s ⟨0, 0⟩) (ls.getD e ⟨0, 0⟩) (ls.getD i ⟨0, 0⟩)

theorem dpScan_eq (s e : Nat) :
    dpScan dist ls s e = (List.range' (s + 1) (e - (s + 1))).foldl (scanF (dAt dist ls s e)) (0, 0) := rfl

theorem dpScan_spec (s e : Nat) :
    (dpScan dist ls s e = (0, 0) ∧ ∀ k, s < k → k < e → dAt dist ls s e k ≤ 0) ∨
    (s < (dpScan dist ls s e).2 ∧ (dpScan dist ls s e).2 < e ∧
      (dpScan dist ls s e).1 = dAt dist ls s e (dpScan dist ls s e).2 ∧ 0 < (dpScan dist ls s e).1 ∧
      (∀ k, s < k → k < (dpScan dist ls s e).2 → dAt dist ls s e k < (dpScan dist ls s e).1) ∧
      (∀ k, (dpScan dist ls s e).2 < k → k < e → dAt dist ls s e k ≤ (dpScan dist ls s e).1)) := by
  have := scan_spec (dAt dist ls s e) (s + 1) (e - (s + 1))
  simp only [← dpScan_eq] at this
  rcases this with ⟨h1, h2⟩ | ⟨h1, h2, h3, h4, h5, h6⟩
  · left; exact ⟨h1, fun k hk1 hk2 => h2 k (by omega) (by omega)⟩
  · right
    exact ⟨by omega, by omega, h3, h4, fun k hk1 hk2 => h5 k (by omega) hk2,
      fun k hk1 hk2 => h6 k hk1 (by omega)⟩

variable (tsq : α)

theorem dpScan_split (h0 : 0 ≤ tsq) (s e : Nat) (h : tsq < (dpScan dist ls s e).1) :
    s < (dpScan dist ls s e).2 ∧ (dpScan dist ls s e).2 < e := by
  rcases dpScan_spec dist ls s e with ⟨h1, _⟩ | ⟨h1, h2, _⟩
  · rw [h1] at h; exact absurd (lt_of_le_of_lt h0 h) (lt_irrefl _)
  · exact ⟨h1, h2⟩

theorem dpRec_succ (F s e : Nat) : dpRec dist ls tsq (F + 1) s e =
    if tsq < (dpScan dist ls s e).1 then
      dpRec dist ls tsq F s (dpScan dist ls s e).2 ++ (dpScan dist ls s e).2 :: dpRec dist ls tsq F (dpScan dist ls s e).2 e
    else [] := rfl

theorem dpRec_fuel (h0 : 0 ≤ tsq) : ∀ (F F' s e : Nat), e - s < F → e - s < F' →
    dpRec dist ls tsq F s e = dpRec dist ls tsq F' s e := by
  intro F
  induction F with
  | zero => intro F' s e h; omega
  | succ F ih =>
    intro F' s e h h'
    cases F' with
    | zero => omega
    | succ F' =>
      rw [dpRec_succ, dpRec_succ]
      split
      · rename_i hlt
        obtain ⟨h1, h2⟩ := dpScan_split dist ls tsq h0 s e hlt
        rw [ih F' s _ (by omega) (by omega), ih F' _ e (by omega) (by omega)]
      · rfl

theorem dpRec_mem (h0 : 0 ≤ tsq) : ∀ (F s e i : Nat), i ∈ dpRec dist ls tsq F s e → s < i ∧ i < e := by
  intro F
  induction F with
  | zero => intro s e i h; simp [dpRec] at h
  | succ F ih =>
    intro s e i h
    rw [dpRec_succ] at h
    split at h
    · rename_i hlt
      obtain ⟨h1, h2⟩ := dpScan_split dist ls tsq h0 s e hlt
      rcases List.mem_append.1 h with h | h
      · have := ih _ _ _ h; omega
      · rcases List.mem_cons.1 h with h | h
        · omega
        · have := ih _ _ _ h; omega
    · simp at h

theorem dpRec_pairwise (h0 : 0 ≤ tsq) : ∀ (F s e : Nat), (dpRec dist ls tsq F s e).Pairwise (· < ·) := by
  intro F
  induction F with
  | zero => intro s e; simp [dpRec]
  | succ F ih =>
    intro s e
    rw [dpRec_succ]
    split
    · rw [List.pairwise_append]
      refine ⟨ih _ _, ?_, ?_⟩
      · rw [List.pairwise_cons]
        exact ⟨fun a ha => (dpRec_mem dist ls tsq h0 _ _ _ _ ha).1, ih _ _⟩
      · intro a ha b hb
        have h1 := dpRec_mem dist ls tsq h0 _ _ _ _ ha
        rcases List.mem_cons.1 hb with hb | hb
        · omega
        · have h2 := dpRec_mem dist ls tsq h0 _ _ _ _ hb; omega
    · simp

/-- the recursion with canonical fuel -/
def dpR (s e : Nat) : List Nat := dpRec dist ls tsq (e - s + 1) s e

theorem dpR_eq (h0 : 0 ≤ tsq) (F s e : Nat) (h : e - s < F) : dpRec dist ls tsq F s e = dpR dist ls tsq s e :=
  dpRec_fuel dist ls tsq h0 _ _ _ _ h (by omega)

theorem dpR_unfold (h0 : 0 ≤ tsq) (s e : Nat) : dpR dist ls tsq s e =
    if tsq < (dpScan dist ls s e).1 then
      dpR dist ls tsq s (dpScan dist ls s e).2 ++ (dpScan dist ls s e).2 :: dpR dist ls tsq (dpScan dist ls s e).2 e
    else [] := by
  show dpRec dist ls tsq (e - s + 1) s e = _
  rw [dpRec_succ]
  split
  · rename_i hlt
    obtain ⟨h1, h2⟩ := dpScan_split dist ls tsq h0 s e hlt
    rw [dpR_eq dist ls tsq h0 (e - s) s _ (by omega), dpR_eq dist ls tsq h0 (e - s) _ e (by omega)]
  · rfl

/-- termination measure of one stack entry -/
def mu (p : Nat × Nat) : Nat := max 1 (2 * (p.2 - p.1) - 1)

theorem dpWorker_spec (h0 : 0 ≤ tsq) : ∀ (fuel : Nat) (stack : List (Nat × Nat)) (mask : List Bool),
    (stack.map mu).sum ≤ fuel →
    ∃ mask', dpWorker dist ls tsq fuel stack mask = some mask' ∧ mask'.length = mask.length ∧
      ∀ i, i < mask.length → (mask'.getD i false = true ↔
        mask.getD i false = true ∨ ∃ p ∈ stack, i ∈ dpR dist ls tsq p.1 p.2) := by
  intro fuel
  induction fuel with
  | zero =>
    intro stack mask h
    cases stack with
    | nil => exact ⟨mask, by simp [dpWorker]⟩
    | cons p rest => simp [mu] at h
  | succ fuel ih =>
    intro stack mask h
    cases stack with
    | nil => exact ⟨mask, by simp [dpWorker]⟩
    | cons p rest =>
      obtain ⟨s, e⟩ := p
      simp only [dpWorker]
      split
      · rename_i hlt
        obtain ⟨h1, h2⟩ := dpScan_split dist ls tsq h0 s e hlt
        obtain ⟨mask', hw, hl, hi⟩ := ih (((dpScan dist ls s e).2, e) :: (s, (dpScan dist ls s e).2) :: rest)
          (mask.set (dpScan dist ls s e).2 true) (by simp [mu] at h ⊢; omega)
        refine ⟨mask', hw, by simpa using hl, ?_⟩
        intro i hil
        rw [hi i (by simpa using hil), getD_set_true]
        simp only [List.mem_cons, exists_eq_or_imp]
        rw [dpR_unfold dist ls tsq h0 s e]
        simp only [List.mem_cons, if_pos hlt, List.mem_append]
        constructor
        · rintro ((h | ⟨h, _⟩) | h | h | h) <;> tauto
        · rintro (h | (h | h | h) | h)
          · tauto
          · tauto
          · by_cases hm : (dpScan dist ls s e).2 < mask.length
            · tauto
            · omega
          · tauto
          · tauto
      · rename_i hlt
        obtain ⟨mask', hw, hl, hi⟩ := ih rest mask (by simp [mu] at h ⊢; omega)
        refine ⟨mask', hw, hl, ?_⟩
        intro i hil
        rw [hi i hil]
        simp only [List.mem_cons, exists_eq_or_imp]
        rw [dpR_unfold dist ls tsq h0 s e]
        simp [hlt]


omit [Field α] [LinearOrder α] [IsStrictOrderedRing α] in
theorem getD_replicate_false (n i : Nat) : (List.replicate n false).getD i false = false := by
  simp only [List.getD_eq_getElem?_getD, List.getElem?_replicate]
  split <;> rfl

theorem dpMask_spec (t : α) (hn : 0 < ls.length) :
    ∃ mask', dpMask dist t ls = some mask' ∧ mask'.length = ls.length ∧
      ∀ i, i < ls.length → (mask'.getD i false = true ↔
        i = 0 ∨ i = ls.length - 1 ∨ i ∈ dpR dist ls (t * t) 0 (ls.length - 1)) := by
  unfold dpMask
  obtain ⟨mask', h1, h2, h3⟩ := dpWorker_spec dist ls (t * t) (mul_self_nonneg t) (2 * ls.length + 1)
    [(0, ls.length - 1)] (((List.replicate ls.length false).set 0 true).set (ls.length - 1) true)
    (by simp [mu]; omega)
  refine ⟨mask', h1, by simpa using h2, ?_⟩
  intro i hi
  rw [h3 i (by simpa using hi), getD_set_true, getD_set_true, getD_replicate_false]
  simp only [List.length_set, List.length_replicate, List.mem_singleton, exists_eq_left]
  constructor
  · rintro (((h | h) | h) | h)
    · simp at h
    · tauto
    · tauto
    · tauto
  · rintro (h | h | h)
    · left; left; right; exact ⟨h, hn⟩
    · left; right; exact ⟨h, by omega⟩
    · tauto

theorem dpMask_idx (t : α) (hn : 2 ≤ ls.length) :
    (dpMask dist t ls).map maskIdx =
      some (0 :: dpR dist ls (t * t) 0 (ls.length - 1) ++ [ls.length - 1]) := by
  obtain ⟨mask', h1, h2, h3⟩ := dpMask_spec dist ls t (by omega)
  rw [h1, Option.map_some]
  congr 1
  have h0 := mul_self_nonneg t
  apply pairwise_lt_ext (maskIdx_pairwise _)
  · rw [List.cons_append, List.pairwise_cons, List.pairwise_append]
    refine ⟨?_, dpRec_pairwise dist ls _ h0 _ _ _, by simp, ?_⟩
    · intro a ha
      rcases List.mem_append.1 ha with ha | ha
      · exact (dpRec_mem dist ls _ h0 _ _ _ _ ha).1
      · simp at ha; omega
    · intro a ha b hb
      simp at hb
      have := (dpRec_mem dist ls _ h0 _ _ _ _ ha).2
      omega
  · intro i
    rw [mem_maskIdx, h2]
    constructor
    · rintro ⟨hi, hm⟩
      rcases (h3 i hi).1 hm with h | h | h
      · simp [h]
      · simp [h]
      · simp [h]
    · intro hi
      simp only [List.cons_append, List.mem_cons, List.mem_append, List.mem_nil_iff, or_false] at hi
      have hlt : i < ls.length := by
        rcases hi with h | h | h
        · omega
        · have := (dpRec_mem dist ls _ h0 _ _ _ _ h).2; omega
        · omega
      refine ⟨hlt, (h3 i hlt).2 ?_⟩
      tauto

theorem dpWith_total (t : α) (h : ls ≠ []) : ∃ out, dpSimplifyWith dist t ls = .ok out := by
  have hn : 0 < ls.length := List.length_pos_iff.2 h
  obtain ⟨mask', h1, -, -⟩ := dpMask_spec dist ls t hn
  unfold dpSimplifyWith
  rw [if_neg (by omega), h1]
  exact ⟨_, rfl⟩

end ordered


theorem adjacent_split {β : Type} {A B : List β} {m i j : β} (h : Adjacent (A ++ m :: B) i j) :
    Adjacent (A ++ [m]) i j ∨ Adjacent (m :: B) i j := by
  obtain ⟨l1, l2, h⟩ := h
  rcases List.append_eq_append_iff.1 h with ⟨a', h1, h2⟩ | ⟨c', h1, h2⟩
  · -- l1 = A ++ a', m :: B = a' ++ i :: j :: l2
    right
    exact ⟨a', l2, h2⟩
  · -- A = l1 ++ c', i :: j :: l2 = c' ++ m :: B
    cases c' with
    | nil =>
      simp at h2
      right; exact ⟨[], l2, by simp [h2]⟩
    | cons x c' =>
      cases c' with
      | nil =>
        simp at h2
        left; exact ⟨l1, [], by simp [h1, h2]⟩
      | cons y c' =>
        simp at h2
        left; exact ⟨l1, c' ++ [m], by simp [h1, h2]⟩

theorem adjacent_pair {β : Type} {s e i j : β} (h : Adjacent [s, e] i j) : i = s ∧ j = e := by
  obtain ⟨l1, l2, h⟩ := h
  cases l1 with
  | nil => simp at h; exact ⟨h.1.symm, h.2.1.symm⟩
  | cons x l1 =>
    have := congrArg List.length h
    simp at this
    omega

theorem adjacent_mem {β : Type} {l : List β} {i j : β} (h : Adjacent l i j) : i ∈ l ∧ j ∈ l := by
  obtain ⟨l1, l2, rfl⟩ := h
  simp

section ordered
variable {α : Type} [Field α] [LinearOrder α] [IsStrictOrderedRing α]
variable (dist : Pt α → Pt α → Pt α → α) (ls : List (Pt α))

theorem dpScan_max (s e k : Nat) (h1 : s < k) (h2 : k < e) : dAt dist ls s e k ≤ (dpScan dist ls s e).1 := by
  rcases dpScan_spec dist ls s e with ⟨h, h'⟩ | ⟨_, _, h3, h4, h5, h6⟩
  · rw [h]; exact h' k h1 h2
  · rcases Nat.lt_trichotomy k (dpScan dist ls s e).2 with h | h | h
    · exact le_of_lt (h5 k h1 h)
    · rw [h, ← h3]
    · exact h6 k h h2

theorem dpRec_mono (tsq₁ tsq₂ : α) (h12 : tsq₁ ≤ tsq₂) : ∀ F s e,
    (dpRec dist ls tsq₂ F s e).Sublist (dpRec dist ls tsq₁ F s e) := by
  intro F
  induction F with
  | zero => intro s e; simp [dpRec]
  | succ F ih =>
    intro s e
    rw [dpRec_succ, dpRec_succ]
    by_cases h : tsq₂ < (dpScan dist ls s e).1
    · rw [if_pos h, if_pos (lt_of_le_of_lt h12 h)]
      exact List.Sublist.append (ih _ _) (List.Sublist.cons_cons _ (ih _ _))
    · rw [if_neg h]; exact List.nil_sublist _

theorem dpRec_err (tsq : α) (h0 : 0 ≤ tsq) : ∀ F s e, s < e → e - s < F → ∀ i j,
    Adjacent (s :: dpRec dist ls tsq F s e ++ [e]) i j → ∀ k, i < k → k < j → dAt dist ls i j k ≤ tsq := by
  intro F
  induction F with
  | zero => intro s e _ h; omega
  | succ F ih =>
    intro s e hse hF i j hadj k hik hkj
    rw [dpRec_succ] at hadj
    split at hadj
    · rename_i hlt
      obtain ⟨h1, h2⟩ := dpScan_split dist ls tsq h0 s e hlt
      have : s :: (dpRec dist ls tsq F s (dpScan dist ls s e).2 ++ (dpScan dist ls s e).2 ::
          dpRec dist ls tsq F (dpScan dist ls s e).2 e) ++ [e] =
          (s :: dpRec dist ls tsq F s (dpScan dist ls s e).2) ++ (dpScan dist ls s e).2 ::
          (dpRec dist ls tsq F (dpScan dist ls s e).2 e ++ [e]) := by simp
      rw [this] at hadj
      rcases adjacent_split hadj with h | h
      · exact ih s _ h1 (by omega) i j h k hik hkj
      · exact ih _ e h2 (by omega) i j h k hik hkj
    · rename_i hlt
      obtain ⟨rfl, rfl⟩ := adjacent_pair hadj
      exact le_trans (dpScan_max dist ls _ _ k hik hkj) (not_lt.1 hlt)

theorem dpWith_error (t : α) (idx : List Nat) (h : (dpMask dist t ls).map maskIdx = some idx) :
    ∀ i j, Adjacent idx i j → ∀ k, i < k → k < j → ∀ a b p, ls[i]? = some a → ls[j]? = some b → ls[k]? = some p →
      dist a b p ≤ t * t := by
  intro i j hadj k hik hkj a b p ha hb hp
  have hj : j < ls.length := by
    by_contra hc
    rw [List.getElem?_eq_none (by omega)] at hb
    simp at hb
  have h0 := mul_self_nonneg t
  rw [dpMask_idx dist ls t (by omega), ← dpR_eq dist ls (t * t) h0 ls.length 0 _ (by omega)] at h
  injection h with h
  subst h
  have := dpRec_err dist ls (t * t) h0 _ _ _ (by omega) (by omega) i j hadj k hik hkj
  simpa [dAt, List.getD_eq_getElem?_getD, ha, hb, hp] using this

theorem dpWith_nested (t₁ t₂ : α) (h0 : 0 ≤ t₁) (h12 : t₁ ≤ t₂) (o₁ o₂ : List (Pt α))
    (h₁ : dpSimplifyWith dist t₁ ls = .ok o₁) (h₂ : dpSimplifyWith dist t₂ ls = .ok o₂) : o₂.Sublist o₁ := by
  obtain ⟨idx₁, hm₁, hp₁, hr₁, hz₁, -, hn, rfl⟩ := dpWith_kept dist t₁ ls o₁ h₁
  obtain ⟨idx₂, hm₂, hp₂, hr₂, hz₂, -, -, rfl⟩ := dpWith_kept dist t₂ ls o₂ h₂
  apply List.Sublist.filterMap
  by_cases hn2 : 2 ≤ ls.length
  · have ha := mul_self_nonneg t₁
    have hb := mul_self_nonneg t₂
    rw [dpMask_idx dist ls _ hn2, ← dpR_eq dist ls _ ha ls.length 0 _ (by omega)] at hm₁
    rw [dpMask_idx dist ls _ hn2, ← dpR_eq dist ls _ hb ls.length 0 _ (by omega)] at hm₂
    injection hm₁ with hm₁
    injection hm₂ with hm₂
    subst hm₁ hm₂
    refine List.Sublist.cons_cons _ (List.Sublist.append ?_ (List.Sublist.refl _))
    exact dpRec_mono dist ls _ _ (mul_self_le_mul_self h0 h12) _ _ _
  · have e1 : ∀ idx : List Nat, idx.Pairwise (· < ·) → (∀ i ∈ idx, i < ls.length) → 0 ∈ idx → idx = [0] := by
      intro idx hp hr hz
      obtain ⟨r, rfl⟩ := pairwise_head_zero hp hz
      have : r = [] := by
        apply List.eq_nil_iff_forall_not_mem.2
        intro a ha
        have h1 := (List.pairwise_cons.1 hp).1 a ha
        have h2 := hr a (by simp [ha])
        omega
      rw [this]
    rw [e1 idx₁ hp₁ hr₁ hz₁, e1 idx₂ hp₂ hr₂ hz₂]

end ordered


theorem range_filterMap_getElem {β : Type} (l : List β) :
    (List.range l.length).filterMap (fun i => l[i]?) = l := by
  induction l using List.reverseRecOn with
  | nil => simp
  | append_singleton l a ih =>
    simp only [List.length_append, List.length_singleton, List.range_succ, List.filterMap_append]
    congr 1
    · conv_rhs => rw [← ih]
      apply List.filterMap_congr
      intro i hi
      rw [List.mem_range] at hi
      rw [List.getElem?_append_left hi]
    · simp

theorem range_split (k : Nat) : 0 :: List.range' 1 k ++ [k + 1] = List.range (k + 2) := by
  rw [List.range_eq_range', show k + 2 = (k + 1) + 1 from rfl, List.range'_concat]
  simp [List.range'_succ]

theorem range'_mid (a n1 n2 : Nat) :
    List.range' (a + 1) (n1 + 1 + n2) = List.range' (a + 1) n1 ++ (a + n1 + 1) :: List.range' (a + n1 + 1 + 1) n2 := by
  rw [← List.range'_append, List.range'_concat]
  simp
  omega

theorem getD_seg (A L B : List Nat) (j : Nat) (h1 : A.length ≤ j) (h2 : j < A.length + L.length) :
    (A ++ L ++ B).getD j 0 ∈ L := by
  rw [List.getD_eq_getElem?_getD, List.getElem?_append_left (by simp; omega),
    List.getElem?_append_right h1, List.getElem?_eq_getElem (by omega)]
  simp

section ordered
variable {α : Type} [Field α] [LinearOrder α] [IsStrictOrderedRing α]
variable (dist : Pt α → Pt α → Pt α → α) (ls : List (Pt α))

theorem getD_map_pt (K : List Nat) (j : Nat) (h : j < K.length) :
    (K.map fun i => ls.getD i (⟨0, 0⟩ : Pt α)).getD j ⟨0, 0⟩ = ls.getD (K.getD j 0) ⟨0, 0⟩ := by
  simp [List.getD_eq_getElem?_getD, List.getElem?_map, List.getElem?_eq_getElem h]

theorem dAt_map (K : List Nat) (a b j : Nat) (ha : a < K.length) (hb : b < K.length) (hj : j < K.length) :
    dAt dist (K.map fun i => ls.getD i (⟨0, 0⟩ : Pt α)) a b j = dAt dist ls (K.getD a 0) (K.getD b 0) (K.getD j 0) := by
  unfold dAt
  rw [getD_map_pt ls K a ha, getD_map_pt ls K b hb, getD_map_pt ls K j hj]

theorem idem_rec (tsq : α) (h0 : 0 ≤ tsq) : ∀ F s e, s < e → e - s < F → ∀ (P Q K : List Nat) (a b : Nat),
    K = P ++ s :: (dpRec dist ls tsq F s e ++ e :: Q) → a = P.length →
    b = a + (dpRec dist ls tsq F s e).length + 1 →
    dpR dist (K.map fun i => ls.getD i (⟨0, 0⟩ : Pt α)) tsq a b = List.range' (a + 1) (b - a - 1) := by
  intro F
  induction F with
  | zero => intro s e _ h; omega
  | succ F ih =>
    intro s e hse hF P Q K a b hK ha hb
    rw [dpRec_succ] at hK hb
    by_cases hlt : tsq < (dpScan dist ls s e).1
    · rw [if_pos hlt] at hK hb
      obtain ⟨h1, h2⟩ := dpScan_split dist ls tsq h0 s e hlt
      generalize hm : (dpScan dist ls s e).2 = m at *
      generalize hL₁ : dpRec dist ls tsq F s m = L₁ at *
      generalize hL₂ : dpRec dist ls tsq F m e = L₂ at *
      have hKlen : K.length = a + L₁.length + L₂.length + 3 + Q.length := by
        rw [hK, ha]; simp; omega
      simp only [List.length_append, List.length_cons] at hb
      have hKa : K.getD a 0 = s := by rw [hK, ha]; simp
      have hKb : K.getD b 0 = e := by
        have : K = (P ++ s :: (L₁ ++ m :: L₂)) ++ e :: Q := by rw [hK]; simp
        rw [this, List.getD_eq_getElem?_getD, List.getElem?_append_right (by simp; omega)]
        have : b - (P ++ s :: (L₁ ++ m :: L₂)).length = 0 := by simp; omega
        rw [this]; simp
      have hKc : K.getD (a + L₁.length + 1) 0 = m := by
        have : K = (P ++ s :: L₁) ++ m :: (L₂ ++ e :: Q) := by rw [hK]; simp
        rw [this, List.getD_eq_getElem?_getD, List.getElem?_append_right (by simp; omega)]
        have : a + L₁.length + 1 - (P ++ s :: L₁).length = 0 := by simp; omega
        rw [this]; simp
      have hK1 : ∀ j, a + 1 ≤ j → j < a + 1 + L₁.length → K.getD j 0 ∈ L₁ := by
        intro j hj1 hj2
        have : K = (P ++ [s]) ++ L₁ ++ (m :: (L₂ ++ e :: Q)) := by rw [hK]; simp
        rw [this]
        exact getD_seg _ _ _ _ (by simp; omega) (by simp; omega)
      have hK2 : ∀ j, a + L₁.length + 2 ≤ j → j < a + L₁.length + 2 + L₂.length → K.getD j 0 ∈ L₂ := by
        intro j hj1 hj2
        have : K = (P ++ s :: (L₁ ++ [m])) ++ L₂ ++ (e :: Q) := by rw [hK]; simp
        rw [this]
        exact getD_seg _ _ _ _ (by simp; omega) (by simp; omega)
      rcases dpScan_spec dist ls s e with ⟨h, _⟩ | ⟨_, _, h3, h4, h5, h6⟩
      · rw [h] at hlt; exact absurd (lt_of_le_of_lt h0 hlt) (lt_irrefl _)
      rw [hm] at h3 h5 h6
      -- the scan over the simplified line
      have hscan : dpScan dist (K.map fun i => ls.getD i (⟨0, 0⟩ : Pt α)) a b =
          (dAt dist ls s e m, a + L₁.length + 1) := by
        rw [dpScan_eq, show b - (a + 1) = L₁.length + 1 + L₂.length by omega, range'_mid]
        have hc : dAt dist (K.map fun i => ls.getD i (⟨0, 0⟩ : Pt α)) a b (a + L₁.length + 1) =
            dAt dist ls s e m := by
          rw [dAt_map dist ls K a b _ (by omega) (by omega) (by omega), hKa, hKb, hKc]
        rw [← hc]
        apply scan_unique
        · rw [hc, ← h3]; exact h4
        · intro j hj
          rw [List.mem_range'_1] at hj
          rw [hc, dAt_map dist ls K a b j (by omega) (by omega) (by omega), hKa, hKb, ← h3]
          have hmem := hK1 j hj.1 (by omega)
          rw [← hL₁] at hmem
          have := dpRec_mem dist ls tsq h0 _ _ _ _ hmem
          exact h5 _ this.1 this.2
        · intro j hj
          rw [List.mem_range'_1] at hj
          rw [hc, dAt_map dist ls K a b j (by omega) (by omega) (by omega), hKa, hKb, ← h3]
          have hmem := hK2 j (by omega) (by omega)
          rw [← hL₂] at hmem
          have := dpRec_mem dist ls tsq h0 _ _ _ _ hmem
          exact h6 _ this.1 this.2
      rw [dpR_unfold dist _ tsq h0 a b, hscan]
      simp only
      rw [if_pos (by rw [← h3]; exact hlt)]
      rw [ih s m h1 (by omega) P (L₂ ++ e :: Q) K a (a + L₁.length + 1) (by rw [hK, hL₁]; simp) ha (by rw [hL₁])]
      rw [ih m e h2 (by omega) (P ++ s :: L₁) Q K (a + L₁.length + 1) b (by rw [hK, hL₂]; simp)
        (by simp; omega) (by rw [hL₂]; omega)]
      rw [show b - a - 1 = L₁.length + 1 + L₂.length by omega, range'_mid]
      congr 2
      · omega
      · congr 2; omega
    · rw [if_neg hlt] at hb
      simp only [List.length_nil] at hb
      rw [dpR_unfold dist _ tsq h0 a b, dpScan_eq]
      rw [show b - (a + 1) = 0 by omega, show b - a - 1 = 0 by omega]
      simp [not_lt.2 h0]


theorem dpWith_idem (t : α) (out : List (Pt α)) (h : dpSimplifyWith dist t ls = .ok out) :
    dpSimplifyWith dist t out = .ok out := by
  obtain ⟨idx, hm, hp, hr, hz, -, hn, hout⟩ := dpWith_kept dist t ls out h
  by_cases hn2 : 2 ≤ ls.length
  · have h0 := mul_self_nonneg t
    rw [dpMask_idx dist ls _ hn2, ← dpR_eq dist ls _ h0 ls.length 0 _ (by omega)] at hm
    injection hm with hm
    have hout' : out = idx.map fun i => ls.getD i (⟨0, 0⟩ : Pt α) := by
      rw [hout, ← List.filterMap_eq_map]
      apply List.filterMap_congr
      intro i hi
      have := hr i hi
      simp [List.getD_eq_getElem?_getD, List.getElem?_eq_getElem this]
    generalize hL : dpRec dist ls (t * t) ls.length 0 (ls.length - 1) = L at hm
    have hlen : out.length = L.length + 2 := by rw [hout', ← hm]; simp
    have hrec := idem_rec dist ls (t * t) h0 ls.length 0 (ls.length - 1) (by omega) (by omega) [] [] idx 0
      (L.length + 1) (by rw [← hm, hL]; simp) rfl (by rw [hL]; omega)
    rw [← hout'] at hrec
    obtain ⟨mask', hm1, hm2, hm3⟩ := dpMask_spec dist out t (by omega)
    have hidx := dpMask_idx dist out t (by omega)
    rw [hm1, Option.map_some, hlen, show L.length + 2 - 1 = L.length + 1 from rfl, hrec] at hidx
    injection hidx with hidx
    rw [show L.length + 1 - 0 - 1 = L.length from rfl, range_split] at hidx
    unfold dpSimplifyWith
    rw [if_neg (by omega), hm1]
    simp only
    rw [hidx, compact_eq_map _ _ List.pairwise_lt_range (by intro i hi; rw [List.mem_range] at hi; omega),
      ← hlen, range_filterMap_getElem]
  · obtain ⟨p, rfl⟩ := List.length_eq_one_iff.1 (show ls.length = 1 by omega)
    have : idx = [0] := by
      obtain ⟨r, rfl⟩ := pairwise_head_zero hp hz
      have : r = [] := by
        apply List.eq_nil_iff_forall_not_mem.2
        intro a ha
        have h1 := (List.pairwise_cons.1 hp).1 a ha
        have h2 := hr a (by simp [ha])
        simp at h2
        omega
      rw [this]
    rw [this] at hout
    simp at hout
    rw [hout]
    rw [hout] at h
    exact h

end ordered

section orderedField
variable {α : Type} [Field α] [LinearOrder α] [IsStrictOrderedRing α]

theorem dp_total' (t : α) (ls : List (Pt α)) (h : ls ≠ []) : ∃ out, dpSimplify t ls = .ok out :=
  dpWith_total distSegSq ls t h

theorem dp_eq_recursive' (t : α) (ls : List (Pt α)) (h : 2 ≤ ls.length) :
    (dpMask distSegSq t ls).map maskIdx =
      some (0 :: dpRec distSegSq ls (t * t) ls.length 0 (ls.length - 1) ++ [ls.length - 1]) := by
  rw [dpMask_idx distSegSq ls t h, dpR_eq distSegSq ls (t * t) (mul_self_nonneg t) ls.length 0 _ (by omega)]

theorem dp_error_bound' (t : α) (ls : List (Pt α)) (idx : List Nat)
    (h : (dpMask distSegSq t ls).map maskIdx = some idx) :
    ∀ i j, Adjacent idx i j → ∀ k, i < k → k < j → ∀ a b p, ls[i]? = some a → ls[j]? = some b → ls[k]? = some p →
      distSegSq a b p ≤ t * t :=
  dpWith_error distSegSq ls t idx h

theorem dp_idempotent' (t : α) (ls out : List (Pt α)) (h : dpSimplify t ls = .ok out) :
    dpSimplify t out = .ok out :=
  dpWith_idem distSegSq ls t out h

theorem dp_nested' (t₁ t₂ : α) (h0 : 0 ≤ t₁) (h12 : t₁ ≤ t₂) (ls o₁ o₂ : List (Pt α))
    (h₁ : dpSimplify t₁ ls = .ok o₁) (h₂ : dpSimplify t₂ ls = .ok o₂) : o₂.Sublist o₁ :=
  dpWith_nested distSegSq ls t₁ t₂ h0 h12 o₁ o₂ h₁ h₂

end orderedField

end Orb.Simplify
