/-
  C20 (models), lemma file 2: clip.Geometry, smartclip.Geometry, simplify.Simplify — the dispatch
  lemmas and the "collection = combination of the members" lemmas.
  The primed statements are re-exported by OrbProofs/C20Models.lean.
-/
import OrbProofs.C20ModelsCore
import OrbProofs.C08Lemmas
import OrbProofs.C12Lemmas
import OrbProofs.C16Lemmas

set_option linter.unusedSectionVars false

namespace Orb.C20M
open Orb Orb.Core

/-! ### clip.Geometry: vocabulary -/

section clipVocab
variable {α : Type} [LT α] [LE α] [DecidableLT α] [DecidableLE α] [Min α] [Max α]

/-- the bound pre-test every case of `clip.Geometry` starts with: `if !bound.Intersects(g.Bound()) { return nil }` -/
def clipPre (eb box : Bound α) (g : Geom α) (k : Option (Option (Geom α))) : Option (Option (Geom α)) :=
  if !(box.intersects (Core.bound eb g)) then some none else k

/-- tail of the `MultiPoint` case: nil / single point unwrapped / multi-point -/
def wrapPts : List (Pt α) → Option (Geom α)
  | [] => none
  | [p] => some (.point p)
  | l => some (.multiPoint l)

/-- tail of the `LineString` / `MultiLineString` cases -/
def wrapLines : List (List (Pt α)) → Option (Geom α)
  | [] => none
  | [l] => some (.lineString l)
  | l => some (.multiLineString l)

/-- tail of the `Ring` case -/
def wrapRing : List (Pt α) → Option (Geom α)
  | [] => none
  | r => some (.ring r)

/-- tail of the `Polygon` case -/
def wrapPoly : List (List (Pt α)) → Option (Geom α)
  | [] => none
  | p => some (.polygon p)

/-- tail of the `MultiPolygon` case -/
def wrapPolys : List (List (List (Pt α))) → Option (Geom α)
  | [] => none
  | [p] => some (.polygon p)
  | l => some (.multiPolygon l)

/-- tail of the `Bound` case -/
def wrapBound (r : Bound α) : Option (Geom α) := if r.isEmpty then none else some (.bound r.lo r.hi)

/-- the `Bound` case: an empty argument gives nil (`if g.IsEmpty() { return nil }`: `clip.Bound` would
    treat it as "no constraint" and hand back the clip box), otherwise the tail on the intersection `r` -/
def wrapBoundArg (g r : Bound α) : Option (Geom α) := if g.isEmpty then none else wrapBound r

/-- tail of the `Collection` case: nil / single survivor unwrapped / collection -/
def wrapColl : List (Geom α) → Option (Geom α)
  | [] => none
  | [g] => some g
  | l => some (.collection l)

end clipVocab

section clip
variable {α : Type} [Add α] [Sub α] [Mul α] [Div α] [LT α] [LE α] [DecidableLT α] [DecidableLE α] [BEq α]
  [Min α] [Max α]

theorem clip_point' (eb box : Bound α) (p : Pt α) :
    Clip.geometry eb box (.point p) = clipPre eb box (.point p) (some (some (.point p))) := by
  simp only [Clip.geometry, clipPre]

theorem clip_multiPoint' (eb box : Bound α) (ps : List (Pt α)) :
    Clip.geometry eb box (.multiPoint ps) =
      clipPre eb box (.multiPoint ps) (some (wrapPts (Clip.multiPoint box ps))) := by
  simp only [Clip.geometry, clipPre]
  split
  · rfl
  · cases h : Clip.multiPoint box ps with
    | nil => rfl
    | cons a t => cases t <;> rfl

theorem clip_lineString' (eb box : Bound α) (ps : List (Pt α)) :
    Clip.geometry eb box (.lineString ps) =
      clipPre eb box (.lineString ps) ((Clip.lineString box false ps).map wrapLines) := by
  simp only [Clip.geometry, clipPre, Clip.lineString]
  split
  · rfl
  · cases h : Clip.line box false ps with
    | none => rfl
    | some l =>
      cases l with
      | nil => rfl
      | cons a t => cases t <;> rfl

theorem clip_multiLineString' (eb box : Bound α) (ls : List (List (Pt α))) :
    Clip.geometry eb box (.multiLineString ls) =
      clipPre eb box (.multiLineString ls) ((Clip.multiLineString box false ls).map wrapLines) := by
  simp only [Clip.geometry, clipPre]
  split
  · rfl
  · cases h : Clip.multiLineString box false ls with
    | none => rfl
    | some l =>
      cases l with
      | nil => rfl
      | cons a t => cases t <;> rfl

theorem clip_ring' (eb box : Bound α) (r : List (Pt α)) :
    Clip.geometry eb box (.ring r) = clipPre eb box (.ring r) ((Clip.ring box r).map wrapRing) := by
  simp only [Clip.geometry, clipPre]
  split
  · rfl
  · cases h : Clip.ring box r with
    | none => rfl
    | some l => cases l <;> rfl

theorem clip_polygon' (eb box : Bound α) (p : List (List (Pt α))) :
    Clip.geometry eb box (.polygon p) = clipPre eb box (.polygon p) ((Clip.polygon box p).map wrapPoly) := by
  simp only [Clip.geometry, clipPre]
  split
  · rfl
  · cases h : Clip.polygon box p with
    | none => rfl
    | some l => cases l <;> rfl

theorem clip_multiPolygon' (eb box : Bound α) (mp : List (List (List (Pt α)))) :
    Clip.geometry eb box (.multiPolygon mp) =
      clipPre eb box (.multiPolygon mp) ((Clip.multiPolygon box mp).map wrapPolys) := by
  simp only [Clip.geometry, clipPre]
  split
  · rfl
  · cases h : Clip.multiPolygon box mp with
    | none => rfl
    | some l =>
      cases l with
      | nil => rfl
      | cons a t => cases t <;> rfl

theorem clip_bound' (eb box : Bound α) (a b : Pt α) :
    Clip.geometry eb box (.bound a b) =
      clipPre eb box (.bound a b) (some (wrapBoundArg ⟨a, b⟩ (Clip.clipBound box ⟨a, b⟩))) := by
  simp only [Clip.geometry, clipPre, wrapBoundArg, wrapBound, Core.bound]
  split
  · rfl
  · split
    · rfl
    · split <;> rfl

theorem clip_collect_eq (eb box : Bound α) (gs : List (Geom α)) :
    Clip.geometry.collect eb box gs = (gs.mapM (Clip.geometry eb box)).map (·.filterMap id) := by
  induction gs with
  | nil => simp [Clip.geometry.collect]
  | cons g gs ih =>
    rw [Clip.geometry.collect, ih, List.mapM_cons]
    cases h1 : Clip.geometry eb box g with
    | none => simp
    | some r =>
      cases h2 : List.mapM (Clip.geometry eb box) gs with
      | none => cases r <;> simp
      | some rs => cases r <;> simp

theorem clip_collection' (eb box : Bound α) (gs : List (Geom α)) :
    Clip.geometry eb box (.collection gs) =
      clipPre eb box (.collection gs)
        ((gs.mapM (Clip.geometry eb box)).map fun rs => wrapColl (rs.filterMap id)) := by
  simp only [Clip.geometry, clipPre, clip_collect_eq]
  split
  · rfl
  · cases h : List.mapM (Clip.geometry eb box) gs with
    | none => rfl
    | some rs =>
      simp only [Option.map_some]
      cases h2 : List.filterMap id rs with
      | nil => rfl
      | cons a t => cases t <;> rfl

end clip

section clipTotal
variable {α : Type} [Field α] [LinearOrder α] [IsStrictOrderedRing α]

theorem mapM_some_of_forall {β γ : Type} (f : β → Option γ) (l : List β) (h : ∀ b ∈ l, ∃ c, f b = some c) :
    ∃ cs, l.mapM f = some cs ∧ List.Forall₂ (fun b c => f b = some c) l cs := by
  induction l with
  | nil => exact ⟨[], by simp, List.Forall₂.nil⟩
  | cons b l ih =>
    obtain ⟨c, hc⟩ := h b List.mem_cons_self
    obtain ⟨cs, hcs, hf⟩ := ih (fun x hx => h x (List.mem_cons_of_mem _ hx))
    exact ⟨c :: cs, by simp [List.mapM_cons, hc, hcs], List.Forall₂.cons hc hf⟩

theorem clip_collection_total' (eb box : Bound α) (hb : Clip.BoxOK box) (gs : List (Geom α)) :
    ∃ rs, List.Forall₂ (fun g r => Clip.geometry eb box g = some r) gs rs ∧
      Clip.geometry eb box (.collection gs) =
        some (if !(box.intersects (Core.bound eb (.collection gs))) then none else wrapColl (rs.filterMap id)) := by
  obtain ⟨rs, hrs, hf⟩ := mapM_some_of_forall (Clip.geometry eb box) gs
    (fun g _ => Clip.geometry_total' eb box hb g)
  refine ⟨rs, hf, ?_⟩
  rw [clip_collection', clipPre, hrs]
  split <;> rfl

end clipTotal

/-! ### smartclip.Geometry -/

section smartVocab
variable {α : Type}

/-- what a member result contributes to the new collection: a nil interface is dropped, a typed
    nil (`orb.Collection(nil)` from a nested collection without survivors) is kept as the empty value -/
def scMember : GVal α → Option (Geom α)
  | .val v => some v
  | .nilSlice k => some (Core.emptyOf k)
  | .nilIface => none

/-- tail of the collection case of `smartclip.Geometry`: typed nil collection / single survivor / collection -/
def scWrap : List (Geom α) → GVal α
  | [] => .nilSlice .collection
  | [g] => .val g
  | l => .val (.collection l)

end smartVocab

section smart
variable {α : Type} [Add α] [Sub α] [Mul α] [Div α] [LT α] [LE α] [DecidableLT α] [DecidableLE α] [BEq α]
  [OfNat α 0] [OfNat α 2] [Min α] [Max α]

theorem resBind_pure_eq_map {ε β γ : Type} (r : Res ε β) (f : β → γ) :
    (do let x ← r; pure (f x) : Res ε γ) = r.map f := by
  cases r <;> rfl

theorem smart_ring' (eb box : Bound α) (o : Int) (r : List (Pt α)) :
    SmartClip.geometry eb box o (.ring r) = (SmartClip.ring box r o).map SmartClip.wrapMP := by
  rw [SmartClip.geometry]; exact resBind_pure_eq_map _ _

theorem smart_polygon' (eb box : Bound α) (o : Int) (p : List (List (Pt α))) :
    SmartClip.geometry eb box o (.polygon p) = (SmartClip.polygon box p o).map SmartClip.wrapMP := by
  rw [SmartClip.geometry]; exact resBind_pure_eq_map _ _

theorem smart_multiPolygon' (eb box : Bound α) (o : Int) (mp : List (List (List (Pt α)))) :
    SmartClip.geometry eb box o (.multiPolygon mp) = (SmartClip.multiPolygon box mp o).map SmartClip.wrapMP := by
  rw [SmartClip.geometry]; exact resBind_pure_eq_map _ _

theorem smart_members_eq (eb box : Bound α) (o : Int) (gs : List (Geom α)) :
    SmartClip.geometry.members eb box o gs =
      (resMapM (SmartClip.geometry eb box o) gs).map (·.filterMap scMember) := by
  induction gs with
  | nil => rfl
  | cons g gs ih =>
    rw [SmartClip.geometry.members, ih, resMapM]
    cases h1 : SmartClip.geometry eb box o g with
    | err e => rfl
    | panic w => rfl
    | ok c =>
      cases h2 : resMapM (SmartClip.geometry eb box o) gs with
      | err e => rfl
      | panic w => rfl
      | ok cs => cases c <;> rfl

theorem smart_collection' (eb box : Bound α) (o : Int) (gs : List (Geom α)) :
    SmartClip.geometry eb box o (.collection gs) =
      if SmartClip.dimensions.dimsList gs != 2 then SmartClip.plainClip eb box (.collection gs)
      else (resMapM (SmartClip.geometry eb box o) gs).map fun cs => scWrap (cs.filterMap scMember) := by
  rw [SmartClip.geometry, smart_members_eq]
  split
  · rfl
  · cases h : resMapM (SmartClip.geometry eb box o) gs with
    | err e => rfl
    | panic w => rfl
    | ok cs =>
      show (match List.filterMap scMember cs with
        | [] => (pure (.nilSlice .collection) : Res String (GVal α))
        | [g] => pure (.val g)
        | l => pure (.val (.collection l))) = _
      cases h2 : List.filterMap scMember cs with
      | nil => simp only [Res.map, h2, scWrap]; rfl
      | cons a t => cases t <;> simp only [Res.map, h2, scWrap] <;> rfl

end smart

/-! ### simplify.Simplify -/

section simplify
variable {α : Type}
open Simplify

theorem simplify_go_eq (s : Simplifier α) (gs : List (Geom α)) :
    simplifyG.go s gs =
      match resMapM (simplifyG s) gs with
      | .ok l => .ok (l.filter fun g => !g.isNil)
      | .err e => .err e
      | .panic w => .panic w := by
  induction gs with
  | nil => rfl
  | cons g gs ih =>
    rw [simplifyG.go, ih, resMapM]
    cases simplifyG s g with
    | ok c =>
      cases resMapM (simplifyG s) gs with
      | ok cs =>
        cases hc : c.isNil <;> simp [List.filter_cons, hc]
      | err e => rfl
      | panic w => rfl
    | err e => rfl
    | panic w => rfl

theorem simplify_collection' (s : Simplifier α) (gs : List (Geom α)) :
    simplifyG s (.collection gs) =
      match resMapM (simplifyG s) gs with
      | .ok l =>
        if (l.filter fun g => !g.isNil).length = 0 then .ok .nil else .ok (.coll (l.filter fun g => !g.isNil))
      | .err e => .err e
      | .panic w => .panic w := by
  rw [simplifyG, simplify_go_eq]
  cases resMapM (simplifyG s) gs <;> rfl

end simplify

end Orb.C20M
