/-
  C03 lemmas, part 3: key / value tables, `encodeProperties` → `decodeTags`, and
  independence of the map iteration order.
-/
import Orb.MVT

namespace Orb.MVT
open Orb

theorem f64IsZero_cases {a : UInt64} (h : f64IsZero a = true) : a = 0 ∨ a = 0x8000000000000000 := by
  unfold f64IsZero at h
  have h1 : a &&& 0x7fffffffffffffff = 0 := by simpa using h
  have h2 := congrArg UInt64.toNat h1
  rw [UInt64.toNat_and] at h2
  have h3 : (0x7fffffffffffffff : UInt64).toNat = 2^63 - 1 := by decide
  rw [h3, Nat.and_two_pow_sub_one_eq_mod] at h2
  have h4 : a.toNat < 2^64 := a.toNat_lt
  have h5 : (0 : UInt64).toNat = 0 := by decide
  rw [h5] at h2
  have : a.toNat = 0 ∨ a.toNat = 2^63 := by omega
  rcases this with h | h
  · left; apply UInt64.toNat_inj.mp; rw [h]; decide
  · right; apply UInt64.toNat_inj.mp; rw [h]; decide

theorem f32IsZero_cases {a : UInt32} (h : f32IsZero a = true) : a = 0 ∨ a = 0x80000000 := by
  unfold f32IsZero at h
  have h1 : a &&& 0x7fffffff = 0 := by simpa using h
  have h2 := congrArg UInt32.toNat h1
  rw [UInt32.toNat_and] at h2
  have h3 : (0x7fffffff : UInt32).toNat = 2^31 - 1 := by decide
  rw [h3, Nat.and_two_pow_sub_one_eq_mod] at h2
  have h4 : a.toNat < 2^32 := a.toNat_lt
  have h5 : (0 : UInt32).toNat = 0 := by decide
  rw [h5] at h2
  have : a.toNat = 0 ∨ a.toNat = 2^31 := by omega
  rcases this with h | h
  · left; apply UInt32.toNat_inj.mp; rw [h]; decide
  · right; apply UInt32.toNat_inj.mp; rw [h]; decide

theorem keyEq_eq {v w : PVal} (hv : isNegZero v = false) (hw : isNegZero w = false)
    (h : keyEq v w = true) : v = w := by
  cases v <;> cases w <;> simp [keyEq] at h
  · simp [h]
  · simp [h]
  · simp [h]
  · simp [h]
  · rename_i a b
    simp [isNegZero] at hv hw
    simp [f32Eq] at h
    rcases h.2 with h | ⟨ha, hb⟩
    · simp [h]
    · rcases f32IsZero_cases ha with ha | ha <;> rcases f32IsZero_cases hb with hb | hb <;> simp_all
  · rename_i a b
    simp [isNegZero] at hv hw
    simp [f64Eq] at h
    rcases h.2 with h | ⟨ha, hb⟩
    · simp [h]
    · rcases f64IsZero_cases ha with ha | ha <;> rcases f64IsZero_cases hb with hb | hb <;> simp_all
  · simp [h]
  · simp [h]

/-- `==` on two table keys that are not the two zeros of one float type is equality. -/
theorem keyEq_eq_of_noClash {v w : PVal} (h : keyEq v w = true) (hc : zeroClash v w = false) : v = w := by
  cases v <;> cases w <;> simp [keyEq] at h
  · simp [h]
  · simp [h]
  · simp [h]
  · simp [h]
  · rename_i a b
    simp [f32Eq] at h
    simp [zeroClash] at hc
    rcases h.2 with h | ⟨ha, hb⟩
    · simp [h]
    · simp [hc ha hb]
  · rename_i a b
    simp [f64Eq] at h
    simp [zeroClash] at hc
    rcases h.2 with h | ⟨ha, hb⟩
    · simp [h]
    · simp [hc ha hb]
  · simp [h]
  · simp [h]

theorem KVE.key_spec (e : KVE) (s : String) :
    (e.key s).2.keys[(e.key s).1]? = some s ∧ e.keys <+: (e.key s).2.keys ∧
      (e.key s).2.vals = e.vals ∧ (e.key s).2.keys.length ≤ e.keys.length + 1 ∧
      (e.key s).1 < (e.key s).2.keys.length := by
  unfold KVE.key
  split
  · rename_i i hi
    obtain ⟨h, h1, _⟩ := List.findIdx?_eq_some_iff_getElem.mp hi
    have : e.keys[i] = s := by simpa using h1
    simp [h, this]
  · simp

theorem jsonStep_spec {v : PVal} (hw : pvalWF v = true) (hz : isNegZero v = false) :
    ∃ v' tv, jsonStep v = .ok v' ∧ isNegZero v' = false ∧ encodeValue v' = .ok tv ∧
      decodeTVal tv = widen v := by
  cases v <;> simp [pvalWF] at hw <;> simp_all [jsonStep, encodeValue, decodeTVal, widen, isNegZero]

theorem KVE.value_spec (e : KVE) (v : PVal) (hi : KVE.Inv e) (hw : pvalWF v = true)
    (hz : isNegZero v = false) :
    ∃ i e', e.value v = .ok (i, e') ∧ KVE.Inv e' ∧ e'.keys = e.keys ∧ e.vals <+: e'.vals ∧
      e'.vals.length ≤ e.vals.length + 1 ∧ i < e'.vals.length ∧
      ∃ p, e'.vals[i]? = some p ∧ decodeTVal p.2 = widen v := by
  obtain ⟨v', tv, h1, h2, h3, h4⟩ := jsonStep_spec hw hz
  unfold KVE.value
  rw [h1]
  dsimp only
  split
  · rename_i i hfi
    obtain ⟨h, hk, _⟩ := List.findIdx?_eq_some_iff_getElem.mp hfi
    have hmem : e.vals[i] ∈ e.vals := List.getElem_mem h
    obtain ⟨he, hnz⟩ := hi _ hmem
    have heq : v' = e.vals[i].1 := keyEq_eq h2 hnz hk
    refine ⟨i, e, rfl, hi, rfl, List.prefix_refl _, Nat.le_succ _, h, e.vals[i], by simp [h], ?_⟩
    rw [← heq, h3] at he
    cases he
    exact h4
  · rw [h3]
    dsimp only
    refine ⟨_, _, rfl, ?_, rfl, by simp, by simp, by simp, (v', tv), by simp, h4⟩
    intro p hp
    simp at hp
    rcases hp with hp | hp
    · exact hi p hp
    · subst hp; exact ⟨h3, h2⟩

theorem prefix_getElem? {α : Type} {l l' : List α} (h : l <+: l') {i : Nat} {x : α}
    (hx : l[i]? = some x) : l'[i]? = some x := by
  obtain ⟨t, rfl⟩ := h
  obtain ⟨hi, rfl⟩ := List.getElem?_eq_some_iff.mp hx
  rw [List.getElem?_append_left hi]
  exact hx

theorem mapSet_new (m : List (String × DVal)) (k : String) (v : DVal)
    (h : ∀ p ∈ m, p.1 ≠ k) : mapSet m k v = m ++ [(k, v)] := by
  induction m with
  | nil => rfl
  | cons p rest ih =>
    obtain ⟨k', v'⟩ := p
    have h1 : k' ≠ k := h (k', v') (by simp)
    simp only [mapSet, beq_iff_eq, h1, if_false, List.cons_append]
    rw [ih (fun p hp => h p (List.mem_cons_of_mem _ hp))]

theorem KVE.le_refl (e : KVE) : KVE.le e e := ⟨List.prefix_refl _, List.prefix_refl _⟩

theorem KVE.le_trans {a b c : KVE} (h1 : KVE.le a b) (h2 : KVE.le b c) : KVE.le a c :=
  ⟨List.IsPrefix.trans h1.1 h2.1, List.IsPrefix.trans h1.2 h2.2⟩

theorem encodeTags_spec (ps : List (String × PVal))
    (hps : ∀ k, pvalWF (lookupP ps k) = true ∧ isNegZero (lookupP ps k) = false) :
    ∀ (ks : List String) (e : KVE), KVE.Inv e → e.keys.length + ks.length ≤ 2^32 →
      e.vals.length + ks.length ≤ 2^32 →
      ∃ tags e', encodeTags ps e ks = .ok (tags, e') ∧ KVE.Inv e' ∧ KVE.le e e' ∧
        e'.keys.length ≤ e.keys.length + ks.length ∧ e'.vals.length ≤ e.vals.length + ks.length ∧
        ∀ e'', KVE.le e' e'' → ∀ m : List (String × DVal), ks.Nodup →
          (∀ k ∈ ks, ∀ p ∈ m, p.1 ≠ k) →
          decodeTags e''.keys e''.dvals tags m =
            .ok (m ++ ks.map fun k => (k, widen (lookupP ps k))) := by
  intro ks
  induction ks with
  | nil =>
    intro e hi _ _
    refine ⟨[], e, rfl, hi, KVE.le_refl e, by simp, by simp, ?_⟩
    intro e'' _ m _ _
    simp [decodeTags]
  | cons k ks ih =>
    intro e hi hk hl
    obtain ⟨k1, k2, k3, k4, k5⟩ := KVE.key_spec e k
    have hi1 : KVE.Inv (e.key k).2 := by
      unfold KVE.Inv; rw [k3]; exact hi
    obtain ⟨vi, e2, v1, v2, v3, v4, v5, v6, p, v7, v8⟩ :=
      KVE.value_spec (e.key k).2 (lookupP ps k) hi1 (hps k).1 (hps k).2
    simp only [List.length_cons] at hk hl
    rw [k3] at v4 v5
    obtain ⟨ts, e3, r1, r2, r3, r4, r5, r6⟩ := ih e2 v2 (by rw [v3]; omega) (by omega)
    refine ⟨BitVec.ofNat 32 (e.key k).1 :: BitVec.ofNat 32 vi :: ts, e3, ?_, r2, ?_, ?_, ?_, ?_⟩
    · simp only [encodeTags, v1, r1]
    · exact ⟨List.IsPrefix.trans k2 (v3 ▸ r3.1), List.IsPrefix.trans v4 r3.2⟩
    · rw [v3] at r4; simp only [List.length_cons]; omega
    · simp only [List.length_cons]; omega
    · intro e'' hle m hnd hm
      have hkn : (BitVec.ofNat 32 (e.key k).1).toNat = (e.key k).1 := by
        rw [BitVec.toNat_ofNat]; apply Nat.mod_eq_of_lt; omega
      have hvn : (BitVec.ofNat 32 vi).toNat = vi := by
        rw [BitVec.toNat_ofNat]; apply Nat.mod_eq_of_lt; omega
      have hkeys : e''.keys[(e.key k).1]? = some k :=
        prefix_getElem? hle.1 (prefix_getElem? r3.1 (v3 ▸ k1))
      have hvals : e''.dvals[vi]? = some (widen (lookupP ps k)) := by
        have : e''.vals[vi]? = some p := prefix_getElem? hle.2 (prefix_getElem? r3.2 v7)
        simp [KVE.dvals, List.getElem?_map, this, v8]
      obtain ⟨hn1, hn2⟩ := List.nodup_cons.mp hnd
      simp only [decodeTags, hkn, hvn, hkeys, hvals]
      rw [mapSet_new m k _ (fun p hp => hm k (by simp) p hp)]
      rw [r6 e'' hle _ hn2]
      · simp
      · intro k' hk' p hp
        simp only [List.mem_append, List.mem_singleton] at hp
        rcases hp with hp | hp
        · exact hm k' (List.mem_cons_of_mem _ hk') p hp
        · subst hp; intro h; have h : k = k' := h; exact hn1 (h ▸ hk')

theorem insertStr_perm (s : String) (l : List String) : (insertStr s l).Perm (s :: l) := by
  induction l with
  | nil => exact List.Perm.refl _
  | cons t ts ih =>
    simp only [insertStr]
    split
    · exact List.Perm.refl _
    · exact (List.Perm.cons t ih).trans (List.Perm.swap s t ts)

theorem sortStrings_perm (l : List String) : (sortStrings l).Perm l := by
  induction l with
  | nil => exact List.Perm.refl _
  | cons s l ih =>
    show (insertStr s (sortStrings l)).Perm (s :: l)
    exact (insertStr_perm s _).trans (List.Perm.cons s ih)

theorem nodupStr_iff (l : List String) : nodupStr l = true ↔ l.Nodup := by
  induction l with
  | nil => simp [nodupStr]
  | cons k ks ih => simp [nodupStr, ih]

theorem lookupP_wf (ps : List (String × PVal)) (hv : ∀ p ∈ ps, pvalWF p.2 = true)
    (hz : noNegZero ps = true) (k : String) :
    pvalWF (lookupP ps k) = true ∧ isNegZero (lookupP ps k) = false := by
  unfold lookupP
  split
  · rename_i p hp
    have hm : p ∈ ps := List.mem_of_find?_eq_some hp
    refine ⟨hv p hm, ?_⟩
    have := List.all_eq_true.mp hz p hm
    simpa using this
  · simp [pvalWF, isNegZero]

theorem KVE.inv_empty : KVE.Inv KVE.empty := by
  intro p hp
  simp [KVE.empty] at hp

/-- The tags written for a property map decode — against the tables of ANY later state of the
    layer's encoder — to the map with sorted keys and widened values. -/
theorem encodeProperties_decode (e : KVE) (ps : List (String × PVal))
    (hn : nodupKeys ps = true) (hv : ∀ p ∈ ps, pvalWF p.2 = true) (hz : noNegZero ps = true)
    (hi : KVE.Inv e) (hk : e.keys.length + ps.length ≤ 2^32) (hl : e.vals.length + ps.length ≤ 2^32) :
    ∃ tags e', encodeProperties e ps = .ok (tags, e') ∧ KVE.Inv e' ∧ KVE.le e e' ∧
      e'.keys.length ≤ e.keys.length + ps.length ∧ e'.vals.length ≤ e.vals.length + ps.length ∧
      ∀ e'', KVE.le e' e'' → decodeTags e''.keys e''.dvals tags [] = .ok (expectProps ps) := by
  have hperm := sortStrings_perm (ps.map (·.1))
  have hlen : (sortStrings (ps.map (·.1))).length = ps.length := by
    rw [hperm.length_eq, List.length_map]
  have hnd : (sortStrings (ps.map (·.1))).Nodup :=
    hperm.nodup_iff.mpr ((nodupStr_iff _).mp hn)
  obtain ⟨tags, e', h1, h2, h3, h4, h5, h6⟩ :=
    encodeTags_spec ps (lookupP_wf ps hv hz) (sortStrings (ps.map (·.1))) e hi
      (by rw [hlen]; exact hk) (by rw [hlen]; exact hl)
  rw [hlen] at h4 h5
  refine ⟨tags, e', h1, h2, h3, h4, h5, ?_⟩
  intro e'' hle
  rw [h6 e'' hle [] hnd (by simp)]
  simp [expectProps]

/-! #### the same with the weakest zero condition: no +0 / −0 clash within the layer -/

/-- What a value needs for the table of a layer whose values are `vs`: it clashes with none of
    them, and with nothing that clashes with none of them. -/
def ZOK (vs : List PVal) (v : PVal) : Prop :=
  (∀ u ∈ vs, zeroClash u v = false) ∧ ∀ w, (∀ u ∈ vs, zeroClash u w = false) → zeroClash v w = false

theorem noZeroClash_iff (vs : List PVal) :
    noZeroClash vs = true ↔ ∀ a ∈ vs, ∀ b ∈ vs, zeroClash a b = false := by
  simp [noZeroClash, List.all_eq_true]

theorem ZOK_mem {vs : List PVal} (hnc : noZeroClash vs = true) {v : PVal} (hv : v ∈ vs) : ZOK vs v :=
  ⟨fun u hu => (noZeroClash_iff vs).mp hnc u hu v hv, fun _ hw => hw v hv⟩

theorem ZOK_nil (vs : List PVal) : ZOK vs .nil :=
  ⟨fun u _ => by cases u <;> rfl, fun _ _ => rfl⟩

theorem jsonStep_specZ {v : PVal} (hw : pvalWF v = true) :
    ∃ v' tv, jsonStep v = .ok v' ∧ (∀ u, zeroClash u v' = zeroClash u v) ∧
      (∀ u, zeroClash v' u = zeroClash v u) ∧ encodeValue v' = .ok tv ∧ decodeTVal tv = widen v := by
  cases v <;> simp [pvalWF] at hw <;>
    exact ⟨_, _, rfl, fun u => by cases u <;> rfl, fun u => by cases u <;> rfl, rfl, rfl⟩

theorem KVE.value_specZ (vs : List PVal) (e : KVE) (v : PVal) (hi : KVE.InvZ vs e) (hw : pvalWF v = true)
    (hz : ZOK vs v) :
    ∃ i e', e.value v = .ok (i, e') ∧ KVE.InvZ vs e' ∧ e'.keys = e.keys ∧ e.vals <+: e'.vals ∧
      e'.vals.length ≤ e.vals.length + 1 ∧ i < e'.vals.length ∧
      ∃ p, e'.vals[i]? = some p ∧ decodeTVal p.2 = widen v := by
  obtain ⟨v', tv, h1, h2r, h2l, h3, h4⟩ := jsonStep_specZ hw
  unfold KVE.value
  rw [h1]
  dsimp only
  split
  · rename_i i hfi
    obtain ⟨h, hk, _⟩ := List.findIdx?_eq_some_iff_getElem.mp hfi
    have hmem : e.vals[i] ∈ e.vals := List.getElem_mem h
    obtain ⟨he, hnz⟩ := hi _ hmem
    have hcl : zeroClash v' e.vals[i].1 = false := by rw [h2l]; exact hz.2 _ hnz
    have heq : v' = e.vals[i].1 := keyEq_eq_of_noClash hk hcl
    refine ⟨i, e, rfl, hi, rfl, List.prefix_refl _, Nat.le_succ _, h, e.vals[i], by simp [h], ?_⟩
    rw [← heq, h3] at he
    cases he
    exact h4
  · rw [h3]
    dsimp only
    refine ⟨_, _, rfl, ?_, rfl, by simp, by simp, by simp, (v', tv), by simp, h4⟩
    intro p hp
    simp at hp
    rcases hp with hp | hp
    · exact hi p hp
    · subst hp; exact ⟨h3, fun u hu => by rw [h2r]; exact hz.1 u hu⟩

theorem encodeTags_specZ (vs : List PVal) (ps : List (String × PVal))
    (hps : ∀ k, pvalWF (lookupP ps k) = true ∧ ZOK vs (lookupP ps k)) :
    ∀ (ks : List String) (e : KVE), KVE.InvZ vs e → e.keys.length + ks.length ≤ 2^32 →
      e.vals.length + ks.length ≤ 2^32 →
      ∃ tags e', encodeTags ps e ks = .ok (tags, e') ∧ KVE.InvZ vs e' ∧ KVE.le e e' ∧
        e'.keys.length ≤ e.keys.length + ks.length ∧ e'.vals.length ≤ e.vals.length + ks.length ∧
        ∀ e'', KVE.le e' e'' → ∀ m : List (String × DVal), ks.Nodup →
          (∀ k ∈ ks, ∀ p ∈ m, p.1 ≠ k) →
          decodeTags e''.keys e''.dvals tags m =
            .ok (m ++ ks.map fun k => (k, widen (lookupP ps k))) := by
  intro ks
  induction ks with
  | nil =>
    intro e hi _ _
    refine ⟨[], e, rfl, hi, KVE.le_refl e, by simp, by simp, ?_⟩
    intro e'' _ m _ _
    simp [decodeTags]
  | cons k ks ih =>
    intro e hi hk hl
    obtain ⟨k1, k2, k3, k4, k5⟩ := KVE.key_spec e k
    have hi1 : KVE.InvZ vs (e.key k).2 := by
      unfold KVE.InvZ; rw [k3]; exact hi
    obtain ⟨vi, e2, v1, v2, v3, v4, v5, v6, p, v7, v8⟩ :=
      KVE.value_specZ vs (e.key k).2 (lookupP ps k) hi1 (hps k).1 (hps k).2
    simp only [List.length_cons] at hk hl
    rw [k3] at v4 v5
    obtain ⟨ts, e3, r1, r2, r3, r4, r5, r6⟩ := ih e2 v2 (by rw [v3]; omega) (by omega)
    refine ⟨BitVec.ofNat 32 (e.key k).1 :: BitVec.ofNat 32 vi :: ts, e3, ?_, r2, ?_, ?_, ?_, ?_⟩
    · simp only [encodeTags, v1, r1]
    · exact ⟨List.IsPrefix.trans k2 (v3 ▸ r3.1), List.IsPrefix.trans v4 r3.2⟩
    · rw [v3] at r4; simp only [List.length_cons]; omega
    · simp only [List.length_cons]; omega
    · intro e'' hle m hnd hm
      have hkn : (BitVec.ofNat 32 (e.key k).1).toNat = (e.key k).1 := by
        rw [BitVec.toNat_ofNat]; apply Nat.mod_eq_of_lt; omega
      have hvn : (BitVec.ofNat 32 vi).toNat = vi := by
        rw [BitVec.toNat_ofNat]; apply Nat.mod_eq_of_lt; omega
      have hkeys : e''.keys[(e.key k).1]? = some k :=
        prefix_getElem? hle.1 (prefix_getElem? r3.1 (v3 ▸ k1))
      have hvals : e''.dvals[vi]? = some (widen (lookupP ps k)) := by
        have : e''.vals[vi]? = some p := prefix_getElem? hle.2 (prefix_getElem? r3.2 v7)
        simp [KVE.dvals, List.getElem?_map, this, v8]
      obtain ⟨hn1, hn2⟩ := List.nodup_cons.mp hnd
      simp only [decodeTags, hkn, hvn, hkeys, hvals]
      rw [mapSet_new m k _ (fun p hp => hm k (by simp) p hp)]
      rw [r6 e'' hle _ hn2]
      · simp
      · intro k' hk' p hp
        simp only [List.mem_append, List.mem_singleton] at hp
        rcases hp with hp | hp
        · exact hm k' (List.mem_cons_of_mem _ hk') p hp
        · subst hp; intro h; have h : k = k' := h; exact hn1 (h ▸ hk')

theorem lookupP_wfZ (vs : List PVal) (ps : List (String × PVal)) (hv : ∀ p ∈ ps, pvalWF p.2 = true)
    (hsub : ∀ p ∈ ps, p.2 ∈ vs) (hnc : noZeroClash vs = true) (k : String) :
    pvalWF (lookupP ps k) = true ∧ ZOK vs (lookupP ps k) := by
  unfold lookupP
  split
  · rename_i p hp
    have hm : p ∈ ps := List.mem_of_find?_eq_some hp
    exact ⟨hv p hm, ZOK_mem hnc (hsub p hm)⟩
  · exact ⟨by simp [pvalWF], ZOK_nil vs⟩

theorem KVE.invZ_empty (vs : List PVal) : KVE.InvZ vs KVE.empty := by
  intro p hp
  simp [KVE.empty] at hp

/-- `encodeProperties_decode` for a map whose values are among the values `vs` of a layer without a
    +0 / −0 clash (negative zeros allowed). -/
theorem encodeProperties_decodeZ (vs : List PVal) (e : KVE) (ps : List (String × PVal))
    (hn : nodupKeys ps = true) (hv : ∀ p ∈ ps, pvalWF p.2 = true)
    (hsub : ∀ p ∈ ps, p.2 ∈ vs) (hnc : noZeroClash vs = true)
    (hi : KVE.InvZ vs e) (hk : e.keys.length + ps.length ≤ 2^32) (hl : e.vals.length + ps.length ≤ 2^32) :
    ∃ tags e', encodeProperties e ps = .ok (tags, e') ∧ KVE.InvZ vs e' ∧ KVE.le e e' ∧
      e'.keys.length ≤ e.keys.length + ps.length ∧ e'.vals.length ≤ e.vals.length + ps.length ∧
      ∀ e'', KVE.le e' e'' → decodeTags e''.keys e''.dvals tags [] = .ok (expectProps ps) := by
  have hperm := sortStrings_perm (ps.map (·.1))
  have hlen : (sortStrings (ps.map (·.1))).length = ps.length := by
    rw [hperm.length_eq, List.length_map]
  have hnd : (sortStrings (ps.map (·.1))).Nodup :=
    hperm.nodup_iff.mpr ((nodupStr_iff _).mp hn)
  obtain ⟨tags, e', h1, h2, h3, h4, h5, h6⟩ :=
    encodeTags_specZ vs ps (lookupP_wfZ vs ps hv hsub hnc) (sortStrings (ps.map (·.1))) e hi
      (by rw [hlen]; exact hk) (by rw [hlen]; exact hl)
  rw [hlen] at h4 h5
  refine ⟨tags, e', h1, h2, h3, h4, h5, ?_⟩
  intro e'' hle
  rw [h6 e'' hle [] hnd (by simp)]
  simp [expectProps]

/-- A list without negative zeros has no zero clash. -/
theorem noZeroClash_of_noNegZero (vs : List PVal) (h : ∀ v ∈ vs, isNegZero v = false) :
    noZeroClash vs = true := by
  rw [noZeroClash_iff]
  intro a ha b hb
  have h1 := h a ha
  have h2 := h b hb
  cases a <;> cases b <;> try rfl
  · rename_i x y
    simp only [isNegZero, beq_eq_false_iff_ne, ne_eq] at h1 h2
    simp only [zeroClash, Bool.and_eq_false_imp, Bool.and_eq_true, bne_eq_false_iff_eq, and_imp]
    intro hx hy
    rcases f32IsZero_cases hx with hx | hx <;> rcases f32IsZero_cases hy with hy | hy <;> simp_all
  · rename_i x y
    simp only [isNegZero, beq_eq_false_iff_ne, ne_eq] at h1 h2
    simp only [zeroClash, Bool.and_eq_false_imp, Bool.and_eq_true, bne_eq_false_iff_eq, and_imp]
    intro hx hy
    rcases f64IsZero_cases hx with hx | hx <;> rcases f64IsZero_cases hy with hy | hy <;> simp_all

theorem insertStr_comm (a b : String) (l : List String) :
    insertStr a (insertStr b l) = insertStr b (insertStr a l) := by
  by_cases hab : a = b
  · subst hab; rfl
  induction l with
  | nil =>
    simp only [insertStr]
    by_cases h1 : a < b
    · have h2 : ¬ b < a := String.lt_asymm h1
      simp [h1, h2]
    · have h2 : b < a := by
        by_cases h3 : b < a
        · exact h3
        · exact absurd (String.le_antisymm (String.not_lt.mp h3) (String.not_lt.mp h1)) hab
      simp [h1, h2]
  | cons t ts ih =>
    have tri : a < b ∨ b < a := by
      by_cases h1 : a < b
      · exact Or.inl h1
      · by_cases h3 : b < a
        · exact Or.inr h3
        · exact absurd (String.le_antisymm (String.not_lt.mp h3) (String.not_lt.mp h1)) hab
    by_cases hat : a < t <;> by_cases hbt : b < t
    · rcases tri with h | h
      · have h' : ¬ b < a := String.lt_asymm h
        simp [insertStr, hat, hbt, h, h']
      · have h' : ¬ a < b := String.lt_asymm h
        simp [insertStr, hat, hbt, h, h']
    · have h' : ¬ b < a := fun h => hbt (String.lt_trans h hat)
      simp [insertStr, hat, hbt, h']
    · have h' : ¬ a < b := fun h => hat (String.lt_trans h hbt)
      simp [insertStr, hat, hbt, h']
    · simp [insertStr, hat, hbt, ih]

theorem sortStrings_perm_eq {l l' : List String} (hp : l.Perm l') :
    sortStrings l = sortStrings l' :=
  List.Perm.foldr_eq' hp (fun x _ y _ z => insertStr_comm y x z) []

theorem find?_key_iff {β : Type} (l : List (String × β)) (hn : (l.map (·.1)).Nodup)
    (k : String) (p : String × β) :
    l.find? (·.1 == k) = some p ↔ p ∈ l ∧ p.1 = k := by
  induction l with
  | nil => simp
  | cons q l ih =>
    simp only [List.map_cons, List.nodup_cons] at hn
    simp only [List.find?_cons]
    split
    · rename_i hq
      have hq : q.1 = k := by simpa using hq
      constructor
      · intro h; cases h; exact ⟨by simp, hq⟩
      · rintro ⟨hm, hk⟩
        rcases List.mem_cons.mp hm with h | h
        · rw [h]
        · exfalso; apply hn.1; rw [hq, ← hk]; exact List.mem_map_of_mem h
    · rename_i hq
      have hq : q.1 ≠ k := by simpa using hq
      rw [ih hn.2]
      constructor
      · rintro ⟨hm, hk⟩; exact ⟨List.mem_cons_of_mem _ hm, hk⟩
      · rintro ⟨hm, hk⟩
        rcases List.mem_cons.mp hm with h | h
        · exact absurd (h ▸ hk) hq
        · exact ⟨h, hk⟩

theorem lookupP_perm {l l' : List (String × PVal)} (hp : l.Perm l')
    (hn : (l.map (·.1)).Nodup) (k : String) : lookupP l k = lookupP l' k := by
  have hn' : (l'.map (·.1)).Nodup := (hp.map _).nodup_iff.mp hn
  have key : l.find? (·.1 == k) = l'.find? (·.1 == k) := by
    cases h : l'.find? (·.1 == k) with
    | some p =>
      rw [find?_key_iff l hn]
      have := (find?_key_iff l' hn' k p).mp h
      exact ⟨hp.mem_iff.mpr this.1, this.2⟩
    | none =>
      cases h2 : l.find? (·.1 == k) with
      | none => rfl
      | some p =>
        have := (find?_key_iff l hn k p).mp h2
        have h3 := (find?_key_iff l' hn' k p).mpr ⟨hp.mem_iff.mp this.1, this.2⟩
        rw [h] at h3; cases h3
  unfold lookupP
  rw [key]

theorem encodeTags_congr {ps ps' : List (String × PVal)}
    (h : ∀ k, lookupP ps k = lookupP ps' k) :
    ∀ (ks : List String) (e : KVE), encodeTags ps e ks = encodeTags ps' e ks := by
  intro ks
  induction ks with
  | nil => intro e; rfl
  | cons k ks ih =>
    intro e
    simp only [encodeTags, h k]
    split
    · rw [ih]
    · rfl
    · rfl

/-- Every iteration order of the Go map gives the same tags and the same tables. -/
theorem marshal_deterministic' (e : KVE) (l l' : List (String × PVal)) (hp : l.Perm l')
    (hn : nodupKeys l = true) : encodeProperties e l = encodeProperties e l' := by
  unfold encodeProperties
  rw [sortStrings_perm_eq (hp.map (·.1))]
  exact encodeTags_congr (fun k => lookupP_perm hp ((nodupStr_iff _).mp hn) k) _ e

end Orb.MVT
