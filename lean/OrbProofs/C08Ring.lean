/-
  Sutherland–Hodgman pass lemmas for C08 (helper file of C08Lemmas).
-/
import OrbProofs.C07Lemmas
import Mathlib.Algebra.Order.Field.Basic
import Mathlib.Tactic.Linarith
import Mathlib.Tactic.Ring
import Mathlib.Tactic.FieldSimp
import Mathlib.Tactic.SplitIfs

namespace Orb.Clip.C08
open Orb Orb.Core Generated.Params

set_option linter.unusedSectionVars false
set_option linter.unusedSimpArgs false

variable {α : Type} [Field α] [LinearOrder α] [IsStrictOrderedRing α]

theorem intersect_1 (box : Bound α) (a b : Pt α) :
    intersect box 1 a b = some ⟨box.lo.x, a.y + (b.y - a.y) * (box.lo.x - a.x) / (b.x - a.x)⟩ := by
  simp [intersect, clip_codeTop, clip_codeBottom, clip_codeRight, clip_codeLeft]

theorem intersect_2 (box : Bound α) (a b : Pt α) :
    intersect box 2 a b = some ⟨box.hi.x, a.y + (b.y - a.y) * (box.hi.x - a.x) / (b.x - a.x)⟩ := by
  simp [intersect, clip_codeTop, clip_codeBottom, clip_codeRight, clip_codeLeft]

theorem intersect_4 (box : Bound α) (a b : Pt α) :
    intersect box 4 a b = some ⟨a.x + (b.x - a.x) * (box.lo.y - a.y) / (b.y - a.y), box.lo.y⟩ := by
  simp [intersect, clip_codeTop, clip_codeBottom, clip_codeRight, clip_codeLeft]

theorem intersect_8 (box : Bound α) (a b : Pt α) :
    intersect box 8 a b = some ⟨a.x + (b.x - a.x) * (box.hi.y - a.y) / (b.y - a.y), box.hi.y⟩ := by
  simp [intersect, clip_codeTop, clip_codeBottom, clip_codeRight, clip_codeLeft]

theorem ins_1 (box : Bound α) (p : Pt α) : ((bitCode box p &&& 1) == 0) = true ↔ box.lo.x ≤ p.x := by
  simp only [bitCode, clip_codeTop, clip_codeBottom, clip_codeRight, clip_codeLeft]
  split_ifs <;> simp_all

theorem ins_2 (box : Bound α) (p : Pt α) :
    ((bitCode box p &&& 2) == 0) = true ↔ (p.x < box.lo.x ∨ p.x ≤ box.hi.x) := by
  simp only [bitCode, clip_codeTop, clip_codeBottom, clip_codeRight, clip_codeLeft]
  split_ifs <;> simp_all

theorem ins_4 (box : Bound α) (p : Pt α) : ((bitCode box p &&& 4) == 0) = true ↔ box.lo.y ≤ p.y := by
  simp only [bitCode, clip_codeTop, clip_codeBottom, clip_codeRight, clip_codeLeft]
  split_ifs <;> simp_all

theorem ins_8 (box : Bound α) (p : Pt α) :
    ((bitCode box p &&& 8) == 0) = true ↔ (p.y < box.lo.y ∨ p.y ≤ box.hi.y) := by
  simp only [bitCode, clip_codeTop, clip_codeBottom, clip_codeRight, clip_codeLeft]
  split_ifs <;> simp_all


theorem ins_1' (box : Bound α) (p : Pt α) : bitCode box p &&& 1 = 0 ↔ box.lo.x ≤ p.x := by
  rw [← ins_1]; simp

theorem ins_1m (box : Bound α) (p : Pt α) : bitCode box p % 2 = 0 ↔ box.lo.x ≤ p.x := by
  rw [← Nat.and_one_is_mod]; exact ins_1' box p

theorem ins_2' (box : Bound α) (p : Pt α) : bitCode box p &&& 2 = 0 ↔ (p.x < box.lo.x ∨ p.x ≤ box.hi.x) := by
  rw [← ins_2]; simp

theorem ins_4' (box : Bound α) (p : Pt α) : bitCode box p &&& 4 = 0 ↔ box.lo.y ≤ p.y := by
  rw [← ins_4]; simp

theorem ins_8' (box : Bound α) (p : Pt α) : bitCode box p &&& 8 = 0 ↔ (p.y < box.lo.y ∨ p.y ≤ box.hi.y) := by
  rw [← ins_8]; simp

/-! ### the pass as a pure list function -/

/-- what one loop iteration appends -/
def emit (ins : Pt α → Bool) (ix : Pt α → Pt α → Pt α) (a b : Pt α) : List (Pt α) :=
  (if (ins b != ins a) = true then [ix a b] else []) ++ (if ins b = true then [b] else [])

/-- everything one pass appends, starting from `prev` -/
def passL (ins : Pt α → Bool) (ix : Pt α → Pt α → Pt α) : Pt α → List (Pt α) → List (Pt α)
  | _, [] => []
  | prev, p :: rest => emit ins ix prev p ++ passL ins ix p rest

theorem go_eq_passL (box : Bound α) (e : Nat) (ix : Pt α → Pt α → Pt α)
    (hix : ∀ a b, intersect box e a b = some (ix a b)) (l : List (Pt α)) (prev : Pt α) (out : List (Pt α)) :
    ringPass.go box e l prev ((bitCode box prev &&& e) == 0) out
      = some (out ++ passL (fun p => (bitCode box p &&& e) == 0) ix prev l) := by
  induction l generalizing prev out with
  | nil => simp [ringPass.go, passL]
  | cons p rest ih =>
    rw [ringPass.go]
    simp only [hix, passL, emit]
    split_ifs <;> simp only [ih] <;> simp_all

theorem ringPass_eq (box : Bound α) (e : Nat) (ix : Pt α → Pt α → Pt α)
    (hix : ∀ a b, intersect box e a b = some (ix a b)) (ic : Bool) (f : Pt α) (t : List (Pt α)) :
    ringPass box e ic (f :: t) = some (passL (fun p => (bitCode box p &&& e) == 0) ix
      (if ic = true then (f :: t).getLast?.getD f else f) (f :: t)) := by
  rw [ringPass]
  rw [go_eq_passL box e ix hix]
  simp


theorem mem_emit {ins : Pt α → Bool} {ix : Pt α → Pt α → Pt α} {a b v : Pt α} (h : v ∈ emit ins ix a b) :
    (v = b ∧ ins b = true) ∨ (v = ix a b ∧ ins a ≠ ins b) := by
  unfold emit at h
  rcases List.mem_append.1 h with h | h
  · right
    split_ifs at h with hc
    · simp at h
      refine ⟨h, ?_⟩
      intro heq; simp [heq] at hc
    · simp at h
  · left
    split_ifs at h with hc
    · simp at h; exact ⟨h, hc⟩
    · simp at h

theorem passL_spec (ins : Pt α → Bool) (ix : Pt α → Pt α → Pt α) (Pre G : Pt α → Prop)
    (h1 : ∀ p, Pre p → ins p = true → G p)
    (h2 : ∀ a b, Pre a → Pre b → ins a ≠ ins b → G (ix a b) ∧ OnSeg a b (ix a b)) :
    ∀ (l : List (Pt α)) (prev : Pt α), Pre prev → (∀ p ∈ l, Pre p) →
      ∀ v ∈ passL ins ix prev l, G v ∧ (v ∈ l ∨ ∃ a ∈ prev :: l, ∃ b ∈ l, OnSeg a b v) := by
  intro l
  induction l with
  | nil => intro prev _ _ v hv; simp [passL] at hv
  | cons p rest ih =>
    intro prev hprev hl v hv
    have hp : Pre p := hl p (List.mem_cons_self)
    simp only [passL] at hv
    rcases List.mem_append.1 hv with hv | hv
    · rcases mem_emit hv with ⟨rfl, hi⟩ | ⟨rfl, hne⟩
      · exact ⟨h1 _ hp hi, Or.inl List.mem_cons_self⟩
      · obtain ⟨hg, hs⟩ := h2 prev p hprev hp hne
        exact ⟨hg, Or.inr ⟨prev, List.mem_cons_self, p, List.mem_cons_self, hs⟩⟩
    · obtain ⟨hg, hr⟩ := ih p hp (fun q hq => hl q (List.mem_cons_of_mem _ hq)) v hv
      refine ⟨hg, ?_⟩
      rcases hr with hr | ⟨a, ha, b, hb, hs⟩
      · exact Or.inl (List.mem_cons_of_mem _ hr)
      · exact Or.inr ⟨a, List.mem_cons_of_mem _ ha, b, List.mem_cons_of_mem _ hb, hs⟩

theorem passL_id (ins : Pt α → Bool) (ix : Pt α → Pt α → Pt α) :
    ∀ (l : List (Pt α)) (prev : Pt α), ins prev = true → (∀ p ∈ l, ins p = true) → passL ins ix prev l = l := by
  intro l
  induction l with
  | nil => intro prev _ _; rfl
  | cons p rest ih =>
    intro prev hprev hl
    have hp : ins p = true := hl p List.mem_cons_self
    simp [passL, emit, hp, hprev, ih p hp (fun q hq => hl q (List.mem_cons_of_mem _ hq))]

theorem prev0_mem (ic : Bool) (f : Pt α) (t : List (Pt α)) :
    (if ic = true then (f :: t).getLast?.getD f else f) ∈ f :: t := by
  split_ifs
  · cases h : (f :: t).getLast? with
    | none => simp
    | some l => simpa using List.mem_of_getLast? h
  · simp

/-- what one pass guarantees, given `Pre` on its input -/
def EdgeSpec (box : Bound α) (e : Nat) (Pre G : Pt α → Prop) : Prop :=
  ∀ (ic : Bool) (inp : List (Pt α)), (∀ v ∈ inp, Pre v) →
    ∃ out, ringPass box e ic inp = some out ∧
      ∀ v ∈ out, G v ∧ (v ∈ inp ∨ ∃ a ∈ inp, ∃ b ∈ inp, OnSeg a b v)

theorem edgeSpec_of (box : Bound α) (e : Nat) (ix : Pt α → Pt α → Pt α) (Pre G : Pt α → Prop)
    (hix : ∀ a b, intersect box e a b = some (ix a b))
    (h1 : ∀ p, Pre p → ((bitCode box p &&& e) == 0) = true → G p)
    (h2 : ∀ a b, Pre a → Pre b → ((bitCode box a &&& e) == 0) ≠ ((bitCode box b &&& e) == 0) →
      G (ix a b) ∧ OnSeg a b (ix a b)) : EdgeSpec box e Pre G := by
  intro ic inp hpre
  cases inp with
  | nil => exact ⟨[], by simp [ringPass], by simp⟩
  | cons f t =>
    refine ⟨_, ringPass_eq box e ix hix ic f t, ?_⟩
    intro v hv
    have hp0 := prev0_mem ic f t
    obtain ⟨hg, hr⟩ := passL_spec _ ix Pre G h1 h2 (f :: t) _ (hpre _ hp0) hpre v hv
    refine ⟨hg, ?_⟩
    rcases hr with hr | ⟨a, ha, b, hb, hs⟩
    · exact Or.inl hr
    · refine Or.inr ⟨a, ?_, b, hb, hs⟩
      rcases List.mem_cons.1 ha with rfl | ha
      · exact hp0
      · exact ha

theorem ringPass_id (box : Bound α) (e : Nat) (ix : Pt α → Pt α → Pt α)
    (hix : ∀ a b, intersect box e a b = some (ix a b)) (ic : Bool) (inp : List (Pt α))
    (h : ∀ v ∈ inp, ((bitCode box v &&& e) == 0) = true) : ringPass box e ic inp = some inp := by
  cases inp with
  | nil => simp [ringPass]
  | cons f t =>
    rw [ringPass_eq box e ix hix ic f t, passL_id _ ix (f :: t) _ (h _ (prev0_mem ic f t)) h]

/-! ### the intersection point lies on the segment -/

theorem onSeg_x (a b : Pt α) (c : α) (hne : a.x ≠ b.x)
    (hc : (a.x ≤ c ∧ c ≤ b.x) ∨ (b.x ≤ c ∧ c ≤ a.x)) :
    OnSeg a b ⟨c, a.y + (b.y - a.y) * (c - a.x) / (b.x - a.x)⟩ := by
  have hd : b.x - a.x ≠ 0 := sub_ne_zero.2 (Ne.symm hne)
  refine ⟨(c - a.x) / (b.x - a.x), ?_, ?_, ?_⟩
  · rcases hc with ⟨h1, h2⟩ | ⟨h1, h2⟩
    · exact div_nonneg (by linarith) (by linarith)
    · exact div_nonneg_of_nonpos (by linarith) (by linarith)
  · rcases hc with ⟨h1, h2⟩ | ⟨h1, h2⟩
    · have : 0 < b.x - a.x := lt_of_le_of_ne (by linarith) (Ne.symm hd)
      rw [div_le_one this]; linarith
    · have : b.x - a.x < 0 := lt_of_le_of_ne (by linarith) hd
      rw [div_le_one_of_neg this]; linarith
  · simp only [lerp, Pt.mk.injEq]
    constructor
    · field_simp; ring
    · field_simp

theorem onSeg_y (a b : Pt α) (c : α) (hne : a.y ≠ b.y)
    (hc : (a.y ≤ c ∧ c ≤ b.y) ∨ (b.y ≤ c ∧ c ≤ a.y)) :
    OnSeg a b ⟨a.x + (b.x - a.x) * (c - a.y) / (b.y - a.y), c⟩ := by
  have hd : b.y - a.y ≠ 0 := sub_ne_zero.2 (Ne.symm hne)
  refine ⟨(c - a.y) / (b.y - a.y), ?_, ?_, ?_⟩
  · rcases hc with ⟨h1, h2⟩ | ⟨h1, h2⟩
    · exact div_nonneg (by linarith) (by linarith)
    · exact div_nonneg_of_nonpos (by linarith) (by linarith)
  · rcases hc with ⟨h1, h2⟩ | ⟨h1, h2⟩
    · have : 0 < b.y - a.y := lt_of_le_of_ne (by linarith) (Ne.symm hd)
      rw [div_le_one this]; linarith
    · have : b.y - a.y < 0 := lt_of_le_of_ne (by linarith) hd
      rw [div_le_one_of_neg this]; linarith
  · simp only [lerp, Pt.mk.injEq]
    constructor
    · field_simp
    · field_simp; ring


theorem bool_ne_cases {p q : Bool} (h : p ≠ q) : (p = true ∧ ¬ q = true) ∨ (¬ p = true ∧ q = true) := by
  cases p <;> cases q <;> simp_all

theorem edge1 (box : Bound α) : EdgeSpec box 1 (fun _ => True) (fun v => box.lo.x ≤ v.x) := by
  refine edgeSpec_of box 1 _ _ _ (intersect_1 box) (fun p _ h => (ins_1 box p).1 h) ?_
  intro a b _ _ hne
  refine ⟨le_refl _, ?_⟩
  rcases bool_ne_cases hne with ⟨h1, h2⟩ | ⟨h1, h2⟩ <;> rw [ins_1] at h1 h2 <;> rw [not_le] at *
  · exact onSeg_x a b _ (by intro h; rw [h] at h1; exact absurd h1 (not_le.2 h2)) (Or.inr ⟨h2.le, h1⟩)
  · exact onSeg_x a b _ (by intro h; rw [h] at h1; exact absurd h2 (not_le.2 h1)) (Or.inl ⟨h1.le, h2⟩)

theorem edge4 (box : Bound α) : EdgeSpec box 4 (fun _ => True) (fun v => box.lo.y ≤ v.y) := by
  refine edgeSpec_of box 4 _ _ _ (intersect_4 box) (fun p _ h => (ins_4 box p).1 h) ?_
  intro a b _ _ hne
  refine ⟨le_refl _, ?_⟩
  rcases bool_ne_cases hne with ⟨h1, h2⟩ | ⟨h1, h2⟩ <;> rw [ins_4] at h1 h2 <;> rw [not_le] at *
  · exact onSeg_y a b _ (by intro h; rw [h] at h1; exact absurd h1 (not_le.2 h2)) (Or.inr ⟨h2.le, h1⟩)
  · exact onSeg_y a b _ (by intro h; rw [h] at h1; exact absurd h2 (not_le.2 h1)) (Or.inl ⟨h1.le, h2⟩)

theorem edge2 (box : Bound α) : EdgeSpec box 2 (fun v => box.lo.x ≤ v.x) (fun v => v.x ≤ box.hi.x) := by
  refine edgeSpec_of box 2 _ _ _ (intersect_2 box)
    (fun p hp h => ((ins_2 box p).1 h).resolve_left (not_lt.2 hp)) ?_
  intro a b ha hb hne
  refine ⟨le_refl _, ?_⟩
  have ea : ((bitCode box a &&& 2) == 0) = true ↔ a.x ≤ box.hi.x := by
    rw [ins_2]; exact ⟨fun h => h.resolve_left (not_lt.2 ha), Or.inr⟩
  have eb : ((bitCode box b &&& 2) == 0) = true ↔ b.x ≤ box.hi.x := by
    rw [ins_2]; exact ⟨fun h => h.resolve_left (not_lt.2 hb), Or.inr⟩
  rcases bool_ne_cases hne with ⟨h1, h2⟩ | ⟨h1, h2⟩ <;> rw [ea] at h1 <;> rw [eb] at h2 <;> rw [not_le] at *
  · exact onSeg_x a b _ (by intro h; rw [h] at h1; exact absurd h1 (not_le.2 h2)) (Or.inl ⟨h1, h2.le⟩)
  · exact onSeg_x a b _ (by intro h; rw [h] at h1; exact absurd h2 (not_le.2 h1)) (Or.inr ⟨h2, h1.le⟩)

theorem edge8 (box : Bound α) : EdgeSpec box 8 (fun v => box.lo.y ≤ v.y) (fun v => v.y ≤ box.hi.y) := by
  refine edgeSpec_of box 8 _ _ _ (intersect_8 box)
    (fun p hp h => ((ins_8 box p).1 h).resolve_left (not_lt.2 hp)) ?_
  intro a b ha hb hne
  refine ⟨le_refl _, ?_⟩
  have ea : ((bitCode box a &&& 8) == 0) = true ↔ a.y ≤ box.hi.y := by
    rw [ins_8]; exact ⟨fun h => h.resolve_left (not_lt.2 ha), Or.inr⟩
  have eb : ((bitCode box b &&& 8) == 0) = true ↔ b.y ≤ box.hi.y := by
    rw [ins_8]; exact ⟨fun h => h.resolve_left (not_lt.2 hb), Or.inr⟩
  rcases bool_ne_cases hne with ⟨h1, h2⟩ | ⟨h1, h2⟩ <;> rw [ea] at h1 <;> rw [eb] at h2 <;> rw [not_le] at *
  · exact onSeg_y a b _ (by intro h; rw [h] at h1; exact absurd h1 (not_le.2 h2)) (Or.inl ⟨h1, h2.le⟩)
  · exact onSeg_y a b _ (by intro h; rw [h] at h1; exact absurd h2 (not_le.2 h1)) (Or.inr ⟨h2, h1.le⟩)


/-! ### convex predicates -/

/-- `C` is closed under taking points of segments -/
def Conv (C : Pt α → Prop) : Prop := ∀ a b v, C a → C b → OnSeg a b v → C v

theorem lerp1_le_max (a b t : α) (h0 : 0 ≤ t) (h1 : t ≤ 1) : a + t * (b - a) ≤ max a b := by
  rcases le_total a b with h | h
  · rw [max_eq_right h]; nlinarith
  · rw [max_eq_left h]; nlinarith

theorem min_le_lerp1 (a b t : α) (h0 : 0 ≤ t) (h1 : t ≤ 1) : min a b ≤ a + t * (b - a) := by
  rcases le_total a b with h | h
  · rw [min_eq_left h]; nlinarith
  · rw [min_eq_right h]; nlinarith

theorem conv_true : Conv (fun _ : Pt α => True) := fun _ _ _ _ _ _ => trivial

theorem Conv.and {C D : Pt α → Prop} (hC : Conv C) (hD : Conv D) : Conv (fun v => C v ∧ D v) :=
  fun a b v ha hb hs => ⟨hC a b v ha.1 hb.1 hs, hD a b v ha.2 hb.2 hs⟩

theorem conv_le_x (c : α) : Conv (fun v : Pt α => c ≤ v.x) := by
  rintro a b v ha hb ⟨t, h0, h1, rfl⟩
  exact le_trans (le_min ha hb) (min_le_lerp1 _ _ t h0 h1)

theorem conv_lt_x (c : α) : Conv (fun v : Pt α => c < v.x) := by
  rintro a b v ha hb ⟨t, h0, h1, rfl⟩
  exact lt_of_lt_of_le (lt_min ha hb) (min_le_lerp1 _ _ t h0 h1)

theorem conv_x_le (c : α) : Conv (fun v : Pt α => v.x ≤ c) := by
  rintro a b v ha hb ⟨t, h0, h1, rfl⟩
  exact le_trans (lerp1_le_max _ _ t h0 h1) (max_le ha hb)

theorem conv_x_lt (c : α) : Conv (fun v : Pt α => v.x < c) := by
  rintro a b v ha hb ⟨t, h0, h1, rfl⟩
  exact lt_of_le_of_lt (lerp1_le_max _ _ t h0 h1) (max_lt ha hb)

theorem conv_le_y (c : α) : Conv (fun v : Pt α => c ≤ v.y) := by
  rintro a b v ha hb ⟨t, h0, h1, rfl⟩
  exact le_trans (le_min ha hb) (min_le_lerp1 _ _ t h0 h1)

theorem conv_lt_y (c : α) : Conv (fun v : Pt α => c < v.y) := by
  rintro a b v ha hb ⟨t, h0, h1, rfl⟩
  exact lt_of_lt_of_le (lt_min ha hb) (min_le_lerp1 _ _ t h0 h1)

theorem conv_y_le (c : α) : Conv (fun v : Pt α => v.y ≤ c) := by
  rintro a b v ha hb ⟨t, h0, h1, rfl⟩
  exact le_trans (lerp1_le_max _ _ t h0 h1) (max_le ha hb)

theorem conv_y_lt (c : α) : Conv (fun v : Pt α => v.y < c) := by
  rintro a b v ha hb ⟨t, h0, h1, rfl⟩
  exact lt_of_le_of_lt (lerp1_le_max _ _ t h0 h1) (max_lt ha hb)

/-! ### `ring` as a pipeline -/

/-- the local `pass` of `ring` -/
def rpass (box : Bound α) (ic : Bool) (edge : Nat) (cur : Option (List (Pt α))) : Option (List (Pt α)) :=
  match cur with
  | none => none
  | some [] => some []
  | some c => ringPass box edge ic c

/-- the re-closing tail of `ring` -/
def rclose (ic : Bool) (r : Option (List (Pt α))) : Option (List (Pt α)) :=
  match r with
  | none => none
  | some [] => some []
  | some out =>
    if ic then
      match out, out.getLast? with
      | f' :: _, some l' => if ptEqB f' l' then some out else some (out ++ [f'])
      | _, _ => some out
    else some out

theorem ring_cons_eq (box : Bound α) (f : Pt α) (t : List (Pt α)) :
    ring box (f :: t) =
      rclose (ptEqB f ((f :: t).getLast?.getD f))
        (rpass box (ptEqB f ((f :: t).getLast?.getD f)) 8
          (rpass box (ptEqB f ((f :: t).getLast?.getD f)) 4
            (rpass box (ptEqB f ((f :: t).getLast?.getD f)) 2
              (rpass box (ptEqB f ((f :: t).getLast?.getD f)) 1 (some (f :: t)))))) := rfl

theorem ptEqB_iff (p q : Pt α) : ptEqB p q = true ↔ p = q := by
  cases p; cases q; simp [ptEqB]

theorem rpass_conv {box : Bound α} {e : Nat} {Pre G : Pt α → Prop} (hE : EdgeSpec box e Pre G)
    {C : Pt α → Prop} (hC : Conv C) (ic : Bool) (l : List (Pt α))
    (hpre : ∀ v ∈ l, Pre v) (hl : ∀ v ∈ l, C v) :
    ∃ l', rpass box ic e (some l) = some l' ∧ ∀ v ∈ l', G v ∧ C v := by
  cases l with
  | nil => exact ⟨[], rfl, by simp⟩
  | cons f t =>
    obtain ⟨out, ho, hs⟩ := hE ic (f :: t) hpre
    refine ⟨out, ho, ?_⟩
    intro v hv
    obtain ⟨hg, hr⟩ := hs v hv
    refine ⟨hg, ?_⟩
    rcases hr with hr | ⟨a, ha, b, hb, hseg⟩
    · exact hl v hr
    · exact hC a b v (hl a ha) (hl b hb) hseg

/-- the four passes: the survivors are in the box and keep every convex property of the input -/
theorem chain_spec (box : Bound α) (ic : Bool) (inp : List (Pt α)) {C : Pt α → Prop} (hC : Conv C)
    (hin : ∀ v ∈ inp, C v) :
    ∃ l, rpass box ic 8 (rpass box ic 4 (rpass box ic 2 (rpass box ic 1 (some inp)))) = some l ∧
      ∀ v ∈ l, InBox box v ∧ C v := by
  obtain ⟨l1, e1, h1⟩ := rpass_conv (edge1 box) hC ic inp (fun _ _ => trivial) hin
  obtain ⟨l2, e2, h2⟩ := rpass_conv (edge2 box) ((conv_le_x box.lo.x).and hC) ic l1
    (fun v hv => (h1 v hv).1) h1
  obtain ⟨l3, e3, h3⟩ := rpass_conv (edge4 box) ((conv_x_le box.hi.x).and ((conv_le_x box.lo.x).and hC)) ic l2
    (fun _ _ => trivial) h2
  obtain ⟨l4, e4, h4⟩ := rpass_conv (edge8 box)
    ((conv_le_y box.lo.y).and ((conv_x_le box.hi.x).and ((conv_le_x box.lo.x).and hC))) ic l3
    (fun v hv => (h3 v hv).1) h3
  refine ⟨l4, by rw [e1, e2, e3, e4], ?_⟩
  intro v hv
  obtain ⟨a, b, c, d, e⟩ := h4 v hv
  exact ⟨⟨d, c, b, a⟩, e⟩

theorem rclose_some (ic : Bool) (l : List (Pt α)) :
    ∃ out, rclose ic (some l) = some out ∧ (∀ v ∈ out, v ∈ l) ∧ (l = [] → out = []) := by
  cases l with
  | nil => exact ⟨[], rfl, by simp, fun _ => rfl⟩
  | cons f t =>
    simp only [rclose]
    cases ic with
    | false => exact ⟨f :: t, by simp, fun v hv => hv, by simp⟩
    | true =>
      cases hl : (f :: t).getLast? with
      | none => exact ⟨f :: t, by simp, fun v hv => hv, by simp⟩
      | some l' =>
        by_cases hq : ptEqB f l' = true
        · exact ⟨f :: t, by simp [hq], fun v hv => hv, by simp⟩
        · refine ⟨(f :: t) ++ [f], by simp [hq], ?_, by simp⟩
          intro v hv
          rcases List.mem_append.1 hv with hv | hv
          · exact hv
          · simp at hv; rw [hv]; exact List.mem_cons_self


theorem rpass_id (box : Bound α) (ic : Bool) (e : Nat) (ix : Pt α → Pt α → Pt α)
    (hix : ∀ a b, intersect box e a b = some (ix a b)) (l : List (Pt α))
    (h : ∀ v ∈ l, ((bitCode box v &&& e) == 0) = true) : rpass box ic e (some l) = some l := by
  cases l with
  | nil => rfl
  | cons f t => exact ringPass_id box e ix hix ic (f :: t) h

theorem rclose_self (f : Pt α) (t : List (Pt α)) :
    rclose (ptEqB f ((f :: t).getLast?.getD f)) (some (f :: t)) = some (f :: t) := by
  simp only [rclose]
  cases hl : (f :: t).getLast? with
  | none => simp
  | some l' =>
    simp only [Option.getD_some]
    split_ifs <;> rfl

theorem rclose_closed (r : Option (List (Pt α))) (out : List (Pt α)) (h : rclose true r = some out)
    (hne : out ≠ []) : out ≠ [] ∧ out.head? = out.getLast? := by
  refine ⟨hne, ?_⟩
  rcases r with _ | l
  · simp [rclose] at h
  · cases l with
    | nil => simp [rclose] at h; exact absurd h hne
    | cons f t =>
      simp only [rclose, if_true] at h
      cases hl : (f :: t).getLast? with
      | none => simp at hl
      | some l' =>
        rw [hl] at h
        simp only [] at h
        split_ifs at h with hq
        · cases h
          rw [hl, (ptEqB_iff _ _).1 hq]; rfl
        · cases h
          rw [List.getLast?_append]
          simp

end Orb.Clip.C08
