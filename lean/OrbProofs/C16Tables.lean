/-
  C16 lemmas, part A: vocabulary, the `nexts` / `pointFor` tables and `aroundBound`.
  The primed statements are re-exported by OrbProofs/C16.lean.
-/
import Orb.SmartClip
import Mathlib.Algebra.Order.Field.Basic
import Mathlib.Tactic.Ring
import Mathlib.Tactic.Linarith
import Mathlib.Tactic.SplitIfs

set_option linter.unusedSectionVars false

namespace Orb.SmartClip
open Orb Orb.Core

/-! ### spec-side vocabulary -/

/-- the eight boundary codes in counter-clockwise order, starting on the left side:
    left, bottom-left, bottom, bottom-right, right, top-right, top, top-left -/
def ccwOrder : List Int := [1, 5, 4, 6, 2, 10, 8, 9]

/-- the codes visited from `c` by following the table `n` times (including `c`) -/
def orbit (tbl : List Int) : Nat → Int → List Int
  | 0, _ => []
  | n+1, c => c :: (match nextAt tbl c with
    | .ok c' => orbit tbl n c'
    | _ => [])

section vocab
variable {α : Type} [Field α] [LinearOrder α] [IsStrictOrderedRing α]

/-- the box has positive width and height (the property's quantifier) -/
def BoxOK (box : Bound α) : Prop := box.lo.x < box.hi.x ∧ box.lo.y < box.hi.y

/-- closed-box membership -/
def InBox (box : Bound α) (p : Pt α) : Prop :=
  box.lo.x ≤ p.x ∧ p.x ≤ box.hi.x ∧ box.lo.y ≤ p.y ∧ p.y ≤ box.hi.y

/-- open-box membership -/
def InOpenBox (box : Bound α) (p : Pt α) : Prop :=
  box.lo.x < p.x ∧ p.x < box.hi.x ∧ box.lo.y < p.y ∧ p.y < box.hi.y

/-- on the boundary of the box -/
def OnBoundary (box : Bound α) (p : Pt α) : Prop :=
  InBox box p ∧ (p.x = box.lo.x ∨ p.x = box.hi.x ∨ p.y = box.lo.y ∨ p.y = box.hi.y)

/-- the ring is explicitly closed -/
def ClosedRing (r : List (Pt α)) : Prop := r ≠ [] ∧ r.head? = r.getLast?

end vocab

/-! ### the tables -/

theorem nexts_ccw_order' : orbit (nexts CCW) 8 1 = ccwOrder := by
  decide

theorem nexts_cw_order' : orbit (nexts CW) 8 1 = 1 :: (ccwOrder.drop 1).reverse := by
  decide

theorem nexts_cycle' : ∀ o ∈ [CW, CCW], ∀ c ∈ ccwOrder,
    (orbit (nexts o) 9 c).getLast? = some c ∧ (orbit (nexts o) 8 c).isPerm ccwOrder = true := by
  decide

theorem nexts_inverse' : ∀ c ∈ ccwOrder,
    (nextAt (nexts CCW) c).bind (nextAt (nexts CW)) = .ok c ∧
    (nextAt (nexts CW) c).bind (nextAt (nexts CCW)) = .ok c := by
  decide

/-! #### helpers: the `Res` monad -/

theorem resA_bind_eq_ok {ε β γ : Type} {r : Res ε β} {f : β → Res ε γ} {b : γ} :
    (r >>= f) = .ok b ↔ ∃ a, r = .ok a ∧ f a = .ok b := by
  cases r <;> simp [bind, Res.bind]

theorem resA_ok_bind {ε β γ : Type} (a : β) (f : β → Res ε γ) : ((Res.ok a : Res ε β) >>= f) = f a := rfl
theorem resA_pure_eq {ε β : Type} (a : β) : (pure a : Res ε β) = .ok a := rfl
attribute [local simp] resA_ok_bind resA_pure_eq

/-! #### helpers: the walk of `aroundLoop` on codes only, and the finite check of all walks -/

/-- the walk of `aroundLoop` on codes only: the codes passed before `target` is met -/
def codeLoop (tbl : List Int) (target : Int) : Nat → Int → Option (List Int)
  | 0, _ => none
  | fuel+1, c =>
    if target == c then some []
    else match nextAt tbl c with
      | .ok c' => (codeLoop tbl target fuel c').map (c :: ·)
      | _ => none

/-- what the finite check establishes about the walk of `aroundBound` from code `cur` to code `t` -/
def WalkOK (o t cur : Int) : Prop :=
  match nextAt (nexts o) cur with
  | .ok c =>
    match codeLoop (nexts o) t 16 c with
    | some cs => cs.length ≤ 7 ∧ t ∉ cs ∧ (∀ x ∈ cs, x ∈ ccwOrder) ∧
        List.IsChain (fun a b => nextAt (nexts o) a = .ok b) (cur :: (cs ++ [t]))
    | none => False
  | _ => False

instance (o t cur : Int) : Decidable (WalkOK o t cur) := by
  unfold WalkOK; split
  · split <;> infer_instance
  · infer_instance

/-- all 2 × 8 × 8 walks reach their target within the fuel, over at most seven intermediate codes -/
theorem walk_tableA : ∀ o ∈ [CW, CCW], ∀ t ∈ ccwOrder, ∀ cur ∈ ccwOrder, WalkOK o t cur := by
  decide

theorem walkOK_elimA {o t cur : Int} (h : WalkOK o t cur) :
    ∃ c cs, nextAt (nexts o) cur = .ok c ∧ codeLoop (nexts o) t 16 c = some cs ∧
      cs.length ≤ 7 ∧ t ∉ cs ∧ (∀ x ∈ cs, x ∈ ccwOrder) ∧
      List.IsChain (fun a b => nextAt (nexts o) a = .ok b) (cur :: (cs ++ [t])) := by
  unfold WalkOK at h
  split at h
  · rename_i c hc
    split at h
    · rename_i cs hcs
      exact ⟨c, cs, hc, hcs, h⟩
    · exact h.elim
  · exact h.elim

theorem forall₂_imp_memA {β γ : Type} {R S : β → γ → Prop} {l₁ : List β} {l₂ : List γ}
    (h : List.Forall₂ R l₁ l₂) (himp : ∀ a ∈ l₁, ∀ b, R a b → S a b) : List.Forall₂ S l₁ l₂ := by
  induction h with
  | nil => exact List.Forall₂.nil
  | cons hab _ ih =>
    exact List.Forall₂.cons (himp _ (by simp) _ hab) (ih fun a ha b hr => himp a (by simp [ha]) b hr)

variable {α : Type} [Field α] [LinearOrder α] [IsStrictOrderedRing α]

theorem mid_ltA {a b : α} (h : a < b) : a < (b + a) / 2 ∧ (b + a) / 2 < b := by
  constructor
  · rw [lt_div_iff₀ (by norm_num : (0:α) < 2)]; linarith
  · rw [div_lt_iff₀ (by norm_num : (0:α) < 2)]; linarith

theorem pointFor_on_side' (box : Bound α) (hb : BoxOK box) : ∀ c ∈ ccwOrder,
    ∃ p, pointFor box c = .ok p ∧ OnBoundary box p ∧ (bitCodeOpen box p : Int) = c := by
  intro c hc
  obtain ⟨hx, hy⟩ := hb
  obtain ⟨hx1, hx2⟩ := mid_ltA hx
  obtain ⟨hy1, hy2⟩ := mid_ltA hy
  simp only [ccwOrder, List.mem_cons, List.not_mem_nil, or_false] at hc
  rcases hc with rfl | rfl | rfl | rfl | rfl | rfl | rfl | rfl
  all_goals
    refine ⟨_, rfl, ?_, ?_⟩
    · simp [OnBoundary, InBox, le_of_lt, *]
    · simp [bitCodeOpen, not_le_of_gt, *]

theorem pointFor_ccw_geometric' (box : Bound α) (hb : BoxOK box) :
    ∃ l bl b br r tr t tl : Pt α,
      ccwOrder.map (pointFor box) = [.ok l, .ok bl, .ok b, .ok br, .ok r, .ok tr, .ok t, .ok tl] ∧
      -- down the left side
      (tl.x = box.lo.x ∧ l.x = box.lo.x ∧ bl.x = box.lo.x ∧ bl.y < l.y ∧ l.y < tl.y) ∧
      -- rightwards along the bottom
      (bl.y = box.lo.y ∧ b.y = box.lo.y ∧ br.y = box.lo.y ∧ bl.x < b.x ∧ b.x < br.x) ∧
      -- up the right side
      (br.x = box.hi.x ∧ r.x = box.hi.x ∧ tr.x = box.hi.x ∧ br.y < r.y ∧ r.y < tr.y) ∧
      -- leftwards along the top
      (tr.y = box.hi.y ∧ t.y = box.hi.y ∧ tl.y = box.hi.y ∧ tl.x < t.x ∧ t.x < tr.x) := by
  obtain ⟨hx, hy⟩ := hb
  obtain ⟨hx1, hx2⟩ := mid_ltA hx
  obtain ⟨hy1, hy2⟩ := mid_ltA hy
  refine ⟨_, _, _, _, _, _, _, _, rfl, ?_⟩
  simp [*]

theorem pointFor_invalid' (box : Bound α) (c : Int) (hc : c ∉ ccwOrder) : pointFor box c = .panic "invalid code" := by
  simp only [ccwOrder, List.mem_cons, List.not_mem_nil, or_false, not_or] at hc
  simp [pointFor, hc]

/-- `pointFor` is defined on the eight codes (no assumption on the box) -/
theorem pointFor_okA (box : Bound α) (c : Int) (hc : c ∈ ccwOrder) : ∃ p, pointFor box c = .ok p := by
  simp only [ccwOrder, List.mem_cons, List.not_mem_nil, or_false] at hc
  rcases hc with rfl | rfl | rfl | rfl | rfl | rfl | rfl | rfl <;> exact ⟨_, rfl⟩

theorem pointFor_ok_memA (box : Bound α) (c : Int) (p : Pt α) (h : pointFor box c = .ok p) : c ∈ ccwOrder := by
  by_contra hc
  rw [pointFor_invalid' box c hc] at h
  cases h

/-- the code of any point is 0 (inside) or one of the eight boundary codes -/
theorem bitCodeOpen_memA (box : Bound α) (p : Pt α) :
    (bitCodeOpen box p : Int) = 0 ∨ (bitCodeOpen box p : Int) ∈ ccwOrder := by
  unfold bitCodeOpen
  split_ifs <;> decide

theorem ptEq_iffA (p q : Pt α) : Core.ptEq p q = true ↔ p = q := by
  cases p; cases q; simp [Core.ptEq]

/-! ### aroundBound -/

theorem aroundBound_invalid_orientation' (box : Bound α) (inp : List (Pt α)) (o : Int) (ho : o ≠ CW ∧ o ≠ CCW) :
    aroundBound box inp o = .panic "invalid orientation" := by
  simp [aroundBound, ho]

/-! #### helpers: `aroundLoop` against `codeLoop` -/

theorem aroundLoop_soundA (box : Bound α) (tbl : List Int) (target : Int) :
    ∀ (fuel : Nat) (c : Int) (acc out : List (Pt α)), aroundLoop box tbl target fuel c acc = .ok out →
      ∃ cs ps, codeLoop tbl target fuel c = some cs ∧
        List.Forall₂ (fun c p => pointFor box c = .ok p) cs ps ∧ out = acc ++ ps := by
  intro fuel
  induction fuel with
  | zero => intro c acc out h; simp [aroundLoop] at h
  | succ n ih =>
    intro c acc out h
    unfold aroundLoop at h
    unfold codeLoop
    split_ifs at h ⊢ with ht
    · refine ⟨[], [], rfl, List.Forall₂.nil, ?_⟩
      simpa using (Res.ok.inj h).symm
    · obtain ⟨p, hp, h⟩ := resA_bind_eq_ok.1 h
      obtain ⟨c', hc', h⟩ := resA_bind_eq_ok.1 h
      obtain ⟨cs, ps, hcs, hfa, hout⟩ := ih c' _ out h
      refine ⟨c :: cs, p :: ps, ?_, List.Forall₂.cons hp hfa, ?_⟩
      · simp [hc', hcs]
      · simp [hout]

theorem aroundLoop_completeA (box : Bound α) (tbl : List Int) (target : Int) :
    ∀ (fuel : Nat) (c : Int) (acc : List (Pt α)) (cs : List Int), codeLoop tbl target fuel c = some cs →
      (∀ x ∈ cs, x ∈ ccwOrder) → ∃ out, aroundLoop box tbl target fuel c acc = .ok out := by
  intro fuel
  induction fuel with
  | zero => intro c acc cs h; simp [codeLoop] at h
  | succ n ih =>
    intro c acc cs h hm
    unfold codeLoop at h
    unfold aroundLoop
    split_ifs at h ⊢ with ht
    · exact ⟨_, rfl⟩
    · cases hc' : nextAt tbl c with
      | ok c' =>
        simp only [hc', Option.map_eq_some_iff] at h
        obtain ⟨cs', hcs', rfl⟩ := h
        obtain ⟨p, hp⟩ := pointFor_okA box c (hm c (by simp))
        obtain ⟨out, ho⟩ := ih c' (acc ++ [p]) cs' hcs' (fun x hx => hm x (by simp [hx]))
        exact ⟨out, by simp [hp, ho]⟩
      | err e => simp [hc'] at h
      | panic e => simp [hc'] at h

/-! #### helpers: the shape of `aroundBound` -/

/-- the "early" decision of `aroundBound`: the ends share a code and the 2-element sort puts the end first -/
def earlyA (box : Bound α) (inp : List (Pt α)) (o : Int) (f l : Pt α) : Res String Bool :=
  if (bitCodeOpen box l : Int) == (bitCodeOpen box f : Int) then do
    let points : List (Endpoint α) :=
      [ { point := f, start := true, used := false, side := pointSide box f, index := 0, otherEnd := 0 },
        { point := l, start := false, used := false, side := pointSide box l, index := 0, otherEnd := 0 } ]
    let sorted ← sortE [inp] (o != CCW) points
    match sorted with
    | p0 :: _ => pure (!p0.start)
    | [] => pure false
  else pure false

theorem aroundBound_unfoldA (box : Bound α) (inp : List (Pt α)) (o : Int) (f l : Pt α)
    (hf : inp.head? = some f) (hl : inp.getLast? = some l) (ho : o = CW ∨ o = CCW) :
    aroundBound box inp o =
      if ((bitCodeOpen box f : Int) == 0 || (bitCodeOpen box l : Int) == 0) = true then
        .panic "endpoints must be outside bound"
      else
      (earlyA box inp o f l >>= fun early =>
        if early then (if f = l then .ok inp else .ok (inp ++ [f]))
        else nextAt (nexts o) (bitCodeOpen box l : Int) >>= fun c =>
          aroundLoop box (nexts o) (bitCodeOpen box f : Int) 16 c inp >>= fun out => .ok (out ++ [f])) := by
  cases inp with
  | nil => simp at hf
  | cons f' tl =>
    simp only [List.head?_cons, Option.some.injEq] at hf
    subst hf
    have hoo : (o != CCW && o != CW) = false := by
      rcases ho with rfl | rfl <;> decide
    unfold aroundBound
    simp only [hoo, hl]
    simp only [Bool.false_eq_true, if_false]
    congr 1
    unfold earlyA
    congr 1
    funext early
    by_cases hfl : f' = l
    · simp [hfl, (ptEq_iffA l l).2 rfl]
    · have : ptEq f' l = false := by
        rw [← Bool.not_eq_true, ptEq_iffA]; exact hfl
      simp [hfl, this]

theorem earlyA_true (box : Bound α) (inp : List (Pt α)) (o : Int) (f l : Pt α)
    (h : earlyA box inp o f l = .ok true) : (bitCodeOpen box l : Int) = bitCodeOpen box f := by
  unfold earlyA at h
  split_ifs at h with hc
  · simpa using hc
  · cases h

/-- everything a successful `aroundBound` call tells -/
theorem aroundBound_invA (box : Bound α) (inp out : List (Pt α)) (o : Int)
    (h : aroundBound box inp o = .ok out) :
    (inp = [] ∧ out = []) ∨ ∃ f l, inp.head? = some f ∧ inp.getLast? = some l ∧ (o = CW ∨ o = CCW) ∧
      (bitCodeOpen box f : Int) ≠ 0 ∧ (bitCodeOpen box l : Int) ≠ 0 ∧
      (((bitCodeOpen box l : Int) = bitCodeOpen box f ∧ f = l ∧ out = inp) ∨
       ((bitCodeOpen box l : Int) = bitCodeOpen box f ∧ f ≠ l ∧ out = inp ++ [f]) ∨
       ∃ c out', nextAt (nexts o) (bitCodeOpen box l : Int) = .ok c ∧
         aroundLoop box (nexts o) (bitCodeOpen box f : Int) 16 c inp = .ok out' ∧ out = out' ++ [f]) := by
  by_cases ho : o = CW ∨ o = CCW
  · cases inp with
    | nil =>
      left
      have hoo : (o != CCW && o != CW) = false := by
        rcases ho with rfl | rfl <;> decide
      simp [aroundBound, hoo] at h
      exact ⟨rfl, h⟩
    | cons f tl =>
      right
      obtain ⟨l, hl⟩ : ∃ l, (f :: tl).getLast? = some l :=
        ⟨_, List.getLast?_eq_some_getLast (List.cons_ne_nil f tl)⟩
      refine ⟨f, l, rfl, hl, ho, ?_⟩
      rw [aroundBound_unfoldA box (f :: tl) o f l rfl hl ho] at h
      by_cases hz : ((bitCodeOpen box f : Int) == 0 || (bitCodeOpen box l : Int) == 0) = true
      · rw [if_pos hz] at h; cases h
      rw [if_neg hz] at h
      simp only [Bool.or_eq_true, beq_iff_eq, not_or] at hz
      refine ⟨hz.1, hz.2, ?_⟩
      obtain ⟨early, he, h⟩ := resA_bind_eq_ok.1 h
      cases early with
      | true =>
        have hcode := earlyA_true box _ o f l he
        simp only [if_true] at h
        split_ifs at h with hfl
        · exact Or.inl ⟨hcode, hfl, (Res.ok.inj h).symm⟩
        · exact Or.inr (Or.inl ⟨hcode, hfl, (Res.ok.inj h).symm⟩)
      | false =>
        simp only [Bool.false_eq_true, if_false] at h
        obtain ⟨c, hc, h⟩ := resA_bind_eq_ok.1 h
        obtain ⟨out', ho', h⟩ := resA_bind_eq_ok.1 h
        exact Or.inr (Or.inr ⟨c, out', hc, ho', (Res.ok.inj h).symm⟩)
  · rw [aroundBound_invalid_orientation' box inp o (not_or.1 ho)] at h
    cases h

theorem aroundBound_closed' (box : Bound α) (inp out : List (Pt α)) (o : Int)
    (h : aroundBound box inp o = .ok out) (hne : inp ≠ []) :
    inp <+: out ∧ out.head? = inp.head? ∧ out.getLast? = inp.head? := by
  rcases aroundBound_invA box inp out o h with ⟨h1, _⟩ | ⟨f, l, hf, hl, _, _, _, hcase⟩
  · exact absurd h1 hne
  · have hhead : ∀ t : List (Pt α), (inp ++ t).head? = inp.head? := by
      intro t; cases inp with
      | nil => exact absurd rfl hne
      | cons a b => rfl
    rcases hcase with ⟨_, hfl, rfl⟩ | ⟨_, _, rfl⟩ | ⟨c, out', _, hloop, rfl⟩
    · exact ⟨List.prefix_refl _, rfl, by rw [hl, hf, hfl]⟩
    · exact ⟨List.prefix_append _ _, hhead _, by rw [hf]; simp⟩
    · obtain ⟨cs, ps, _, _, rfl⟩ := aroundLoop_soundA box _ _ _ _ _ _ hloop
      refine ⟨?_, ?_, by rw [hf]; simp⟩
      · rw [List.append_assoc]; exact List.prefix_append _ _
      · rw [List.append_assoc]; exact hhead _

theorem aroundBound_points' (box : Bound α) (inp out : List (Pt α)) (o : Int)
    (h : aroundBound box inp o = .ok out) :
    ∀ v ∈ out, v ∈ inp ∨ ∃ c ∈ ccwOrder, pointFor box c = .ok v := by
  intro v hv
  rcases aroundBound_invA box inp out o h with ⟨_, rfl⟩ | ⟨f, l, hf, hl, _, _, _, hcase⟩
  · simp at hv
  · have hfm : f ∈ inp := List.mem_of_mem_head? hf
    rcases hcase with ⟨_, _, rfl⟩ | ⟨_, _, rfl⟩ | ⟨c, out', _, hloop, rfl⟩
    · exact Or.inl hv
    · rcases List.mem_append.1 hv with hv | hv
      · exact Or.inl hv
      · rw [List.mem_singleton] at hv; subst hv; exact Or.inl hfm
    · obtain ⟨cs, ps, _, hfa, rfl⟩ := aroundLoop_soundA box _ _ _ _ _ _ hloop
      rcases List.mem_append.1 hv with hv | hv
      · rcases List.mem_append.1 hv with hv | hv
        · exact Or.inl hv
        · right
          have : ∀ (cs : List Int) (ps : List (Pt α)),
              List.Forall₂ (fun c p => pointFor box c = .ok p) cs ps → ∀ v ∈ ps, ∃ c, pointFor box c = .ok v := by
            intro cs ps hfa
            induction hfa with
            | nil => intro v hv; simp at hv
            | cons hab _ ih =>
              intro v hv
              rcases List.mem_cons.1 hv with rfl | hv
              · exact ⟨_, hab⟩
              · exact ih v hv
          obtain ⟨c, hc⟩ := this cs ps hfa v hv
          exact ⟨c, pointFor_ok_memA box c v hc, hc⟩
      · rw [List.mem_singleton] at hv; subst hv; exact Or.inl hfm

theorem aroundBound_on_boundary' (box : Bound α) (hb : BoxOK box) (inp out : List (Pt α)) (o : Int)
    (h : aroundBound box inp o = .ok out) (hin : ∀ v ∈ inp, OnBoundary box v) :
    ∀ v ∈ out, OnBoundary box v := by
  intro v hv
  rcases aroundBound_points' box inp out o h v hv with hv | ⟨c, hc, hp⟩
  · exact hin v hv
  · obtain ⟨p, hp', hb', _⟩ := pointFor_on_side' box hb c hc
    rw [hp] at hp'
    cases hp'
    exact hb'

/-- Statement corrected (agreed with the builder): the walk (chain of `nextAt` links, codes, points) is
    claimed only when `aroundBound` actually walks; the "early" return (ends in the same side / corner
    region, first point met directly) is a separate alternative.  The original statement put the `IsChain`
    conjunct also on the early case, which is false: box (0,0)-(4,4) over ℚ, inp = [(0,1),(0,3)], o = CCW
    gives `.ok [(0,1),(0,3),(0,1)]` with both codes 1, and `nextAt (nexts CCW) 1 = .ok 5 ≠ .ok 1`. -/
theorem aroundBound_direction' (box : Bound α) (hb : BoxOK box) (inp out : List (Pt α)) (o : Int) (f l : Pt α)
    (hf : inp.head? = some f) (hl : inp.getLast? = some l) (h : aroundBound box inp o = .ok out) :
    (out = inp ∧ f = l) ∨
    ((bitCodeOpen box l : Int) = bitCodeOpen box f ∧ out = inp ++ [f]) ∨
    ∃ cs ps, List.IsChain (fun a b => nextAt (nexts o) a = .ok b)
        ((bitCodeOpen box l : Int) :: (cs ++ [(bitCodeOpen box f : Int)])) ∧
      (bitCodeOpen box f : Int) ∉ cs ∧ cs.length ≤ 7 ∧
      List.Forall₂ (fun c p => pointFor box c = .ok p ∧ (bitCodeOpen box p : Int) = c) cs ps ∧
      out = inp ++ ps ++ [f] := by
  rcases aroundBound_invA box inp out o h with ⟨h1, _⟩ | ⟨f', l', hf', hl', ho, h0, h1, hcase⟩
  · subst h1; simp at hf
  · rw [hf] at hf'; rw [hl] at hl'
    cases hf'; cases hl'
    rcases hcase with ⟨_, hfl, rfl⟩ | ⟨hc, _, rfl⟩ | ⟨c, out', hc, hloop, rfl⟩
    · exact Or.inl ⟨rfl, hfl⟩
    · exact Or.inr (Or.inl ⟨hc, rfl⟩)
    · right; right
      obtain ⟨cs, ps, hcs, hfa, rfl⟩ := aroundLoop_soundA box _ _ _ _ _ _ hloop
      have hfm : (bitCodeOpen box f : Int) ∈ ccwOrder := (bitCodeOpen_memA box f).resolve_left h0
      have hlm : (bitCodeOpen box l : Int) ∈ ccwOrder := (bitCodeOpen_memA box l).resolve_left h1
      have hom : o ∈ [CW, CCW] := by rcases ho with rfl | rfl <;> simp
      obtain ⟨c', cs', hc', hcs', hlen, hnm, hmem, hchain⟩ := walkOK_elimA (walk_tableA o hom _ hfm _ hlm)
      rw [hc] at hc'; cases hc'
      rw [hcs] at hcs'; cases hcs'
      refine ⟨cs, ps, hchain, hnm, hlen, ?_, rfl⟩
      refine forall₂_imp_memA hfa ?_
      intro a ha p hp
      obtain ⟨p', hp', _, hcode⟩ := pointFor_on_side' box hb a (hmem a ha)
      rw [hp] at hp'; cases hp'
      exact ⟨hp, hcode⟩

/-! #### helpers: the 2-element sort of `aroundBound` does not panic -/

theorem bitCodeOpen_onBoundaryA (box : Bound α) (p : Pt α) (h : OnBoundary box p) :
    (bitCodeOpen box p : Int) ≠ 0 := by
  obtain ⟨-, h⟩ := h
  unfold bitCodeOpen
  rcases h with h | h | h | h <;> split_ifs <;> first | decide | (exfalso; simp_all)

theorem pointSide_onBoundaryA (box : Bound α) (p : Pt α) (h : OnBoundary box p) :
    pointSide box p = 1 ∨ pointSide box p = 2 ∨ pointSide box p = 3 ∨ pointSide box p = 4 := by
  obtain ⟨-, h⟩ := h
  unfold pointSide
  split_ifs with h1 h2 h3 h4
  · simp
  · simp
  · simp
  · simp
  · simp only [beq_iff_eq] at h1 h2 h3 h4
    tauto

theorem before_okA (inp : List (Pt α)) (h2 : 2 ≤ inp.length) (e : Endpoint α) (hi : e.index = 0) :
    ∃ p, before [inp] e = .ok p := by
  unfold before
  simp only [hi, List.getElem?_cons_zero]
  split_ifs with hs hlt
  · have : 1 < inp.length := by omega
    rw [List.getElem?_eq_getElem this]; exact ⟨_, rfl⟩
  · omega
  · have : inp.length - 2 < inp.length := by omega
    rw [List.getElem?_eq_getElem this]; exact ⟨_, rfl⟩

theorem lessE_okA (mls : List (List (Pt α))) (a b : Endpoint α)
    (ha : ∃ p, before mls a = .ok p) (hb : ∃ p, before mls b = .ok p)
    (hs : a.side = 1 ∨ a.side = 2 ∨ a.side = 3 ∨ a.side = 4) : ∃ r, lessE mls a b = .ok r := by
  obtain ⟨pa, ha⟩ := ha
  obtain ⟨pb, hb⟩ := hb
  unfold lessE
  split_ifs <;> simp_all

theorem sortE_two_okA (mls : List (List (Pt α))) (rev : Bool) (a b : Endpoint α)
    (h1 : ∃ r, lessE mls a b = .ok r) (h2 : ∃ r, lessE mls b a = .ok r) :
    ∃ s, sortE mls rev [a, b] = .ok s := by
  obtain ⟨r1, h1⟩ := h1
  obtain ⟨r2, h2⟩ := h2
  have hl : ∃ r, lessIdx mls rev [a, b] 1 0 = .ok r := by
    unfold lessIdx
    cases rev <;> simp [h1, h2]
  obtain ⟨r, hr⟩ := hl
  have : sortE mls rev [a, b] = sortInner mls rev 1 [a, b] := by
    simp only [sortE, List.length_cons, List.length_nil, Nat.reduceAdd, Nat.add_one_sub_one,
      List.range'_one, List.foldlM_cons, List.foldlM_nil]
    cases sortInner mls rev 1 [a, b] <;> rfl
  rw [this]
  unfold sortInner
  rw [hr]
  cases r <;> simp [sortInner]

theorem earlyA_ok (box : Bound α) (inp : List (Pt α)) (o : Int) (f l : Pt α) (h2 : 2 ≤ inp.length)
    (hfb : OnBoundary box f) (hlb : OnBoundary box l) : ∃ e, earlyA box inp o f l = .ok e := by
  unfold earlyA
  split_ifs with hc
  · have hb1 := before_okA inp h2
      { point := f, start := true, used := false, side := pointSide box f, index := 0, otherEnd := 0 } rfl
    have hb2 := before_okA inp h2
      { point := l, start := false, used := false, side := pointSide box l, index := 0, otherEnd := 0 } rfl
    obtain ⟨s, hs⟩ := sortE_two_okA [inp] (o != CCW) _ _
      (lessE_okA [inp] _ _ hb1 hb2 (pointSide_onBoundaryA box f hfb))
      (lessE_okA [inp] _ _ hb2 hb1 (pointSide_onBoundaryA box l hlb))
    show ∃ e, (sortE [inp] (o != CCW) _ >>= _) = Res.ok e
    rw [hs]
    cases s <;> exact ⟨_, rfl⟩
  · exact ⟨_, rfl⟩

theorem aroundBound_total' (box : Bound α) (hb : BoxOK box) (inp : List (Pt α)) (o : Int) (f l : Pt α)
    (ho : o = CW ∨ o = CCW) (h2 : 2 ≤ inp.length)
    (hf : inp.head? = some f) (hl : inp.getLast? = some l) (hfb : OnBoundary box f) (hlb : OnBoundary box l) :
    ∃ out, aroundBound box inp o = .ok out := by
  have h0 := bitCodeOpen_onBoundaryA box f hfb
  have h1 := bitCodeOpen_onBoundaryA box l hlb
  rw [aroundBound_unfoldA box inp o f l hf hl ho]
  have hz : ¬ ((bitCodeOpen box f : Int) == 0 || (bitCodeOpen box l : Int) == 0) = true := by
    simp only [Bool.or_eq_true, beq_iff_eq, not_or]
    exact ⟨h0, h1⟩
  rw [if_neg hz]
  obtain ⟨e, he⟩ := earlyA_ok box inp o f l h2 hfb hlb
  rw [he]
  cases e with
  | true =>
    simp only [resA_ok_bind, if_true]
    split_ifs <;> exact ⟨_, rfl⟩
  | false =>
    simp only [resA_ok_bind, Bool.false_eq_true, if_false]
    have hfm : (bitCodeOpen box f : Int) ∈ ccwOrder := (bitCodeOpen_memA box f).resolve_left h0
    have hlm : (bitCodeOpen box l : Int) ∈ ccwOrder := (bitCodeOpen_memA box l).resolve_left h1
    have hom : o ∈ [CW, CCW] := by rcases ho with rfl | rfl <;> simp
    obtain ⟨c, cs, hc, hcs, _, _, hmem, _⟩ := walkOK_elimA (walk_tableA o hom _ hfm _ hlm)
    obtain ⟨out, hout⟩ := aroundLoop_completeA box (nexts o) _ 16 c inp cs hcs hmem
    rw [hc, resA_ok_bind, hout]
    exact ⟨_, rfl⟩

theorem aroundBound_witness' :
    aroundBound (⟨⟨0, 0⟩, ⟨4, 4⟩⟩ : Bound ℚ) [⟨4, 1⟩, ⟨0, 3⟩] CCW =
      .ok [⟨4, 1⟩, ⟨0, 3⟩, ⟨0, 0⟩, ⟨2, 0⟩, ⟨4, 0⟩, ⟨4, 1⟩] := by
  decide +kernel

end Orb.SmartClip
