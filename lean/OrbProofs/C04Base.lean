/-
  C04 — basic lemmas about the WKT tokenisers (trimSpace, trimSpaceBrackets, upperPrefix, EqualFold,
  cut, parsePoint, splitOnComma).  Helper file of OrbProofs.C04Lemmas.
-/
import Orb.WKT
import Mathlib.Data.List.Basic
import Mathlib.Tactic
import Mathlib.Data.List.TakeWhile

namespace Orb.WKT

/-- at least two bytes, first and last not blank: what `trimSpace` returns unchanged -/
def GoodEnds (s : Str) : Prop :=
  2 ≤ s.length ∧ (∀ b, s.head? = some b → isBlank b = false) ∧ (∀ b, s.getLast? = some b → isBlank b = false)

/-- a piece between separators of `splitOnComma`: non-empty, no comma, first and last byte not blank -/
def IsPiece (p : Str) : Prop :=
  p ≠ [] ∧ cComma ∉ p ∧ (∀ b, p.head? = some b → isBlank b = false) ∧ (∀ b, p.getLast? = some b → isBlank b = false)

/-! ### trimSpace -/

theorem bs_isBlank_false_of_head {core : Str} (hne : core ≠ [])
    (hh : ∀ b, core.head? = some b → isBlank b = false) (rest : Str) :
    (core ++ rest).takeWhile isBlank = [] := by
  cases core with
  | nil => exact absurd rfl hne
  | cons c t =>
    have := hh c rfl
    simp [this]

theorem bs_allBlank_reverse {s : Str} (h : AllBlank s) : AllBlank s.reverse := by
  intro b hb; exact h b (List.mem_reverse.mp hb)

/-- general form of `trimSpace_pad`: also covers the one-byte core -/
theorem bs_trimSpace_pad_gen {pre core post : Str} (h1 : AllBlank pre) (h2 : AllBlank post) (hne : core ≠ [])
    (hh : ∀ b, core.head? = some b → isBlank b = false)
    (hl : ∀ b, core.getLast? = some b → isBlank b = false) :
    trimSpace (pre ++ core ++ post) = if 2 ≤ core.length then core else [] := by
  have hstart : ((pre ++ core ++ post).takeWhile isBlank).length = pre.length := by
    rw [List.append_assoc, List.takeWhile_append_of_pos h1, bs_isBlank_false_of_head hne hh]
    simp
  have hrev : ((pre ++ core ++ post).reverse.takeWhile isBlank).length = post.length := by
    have hne' : core.reverse ≠ [] := by simpa using hne
    have hh' : ∀ b, core.reverse.head? = some b → isBlank b = false := by
      intro b hb; rw [List.head?_reverse] at hb; exact hl b hb
    rw [List.reverse_append, List.reverse_append,
      List.takeWhile_append_of_pos (bs_allBlank_reverse h2), bs_isBlank_false_of_head hne' hh']
    simp
  unfold trimSpace
  simp only [hstart, hrev]
  have hlen : (pre ++ core ++ post).length - post.length = pre.length + core.length := by
    simp only [List.length_append]; omega
  rw [hlen]
  by_cases h : 2 ≤ core.length
  · rw [if_neg (by omega), if_pos h]
    rw [List.take_left' (by simp), List.drop_left' rfl]
  · rw [if_pos (by omega), if_neg h]

theorem trimSpace_pad {pre core post : Str} (h1 : AllBlank pre) (h2 : AllBlank post) (hc : GoodEnds core) :
    trimSpace (pre ++ core ++ post) = core := by
  obtain ⟨hlen, hh, hl⟩ := hc
  have hne : core ≠ [] := by intro h; simp [h] at hlen
  rw [bs_trimSpace_pad_gen h1 h2 hne hh hl, if_pos hlen]

theorem bs_allBlank_nil : AllBlank [] := by intro b hb; simp at hb

theorem trimSpace_goodEnds {s : Str} (hc : GoodEnds s) : trimSpace s = s := by
  have := trimSpace_pad bs_allBlank_nil bs_allBlank_nil hc
  simpa using this

/-- the `start >= end` quirk: the result never has exactly one byte -/
theorem trimSpace_length_ne_one (s : Str) : (trimSpace s).length ≠ 1 := by
  unfold trimSpace
  simp only []
  split
  · simp
  · simp only [List.length_drop, List.length_take]
    omega

theorem trimSpace_length_le (s : Str) : (trimSpace s).length ≤ s.length := by
  unfold trimSpace
  simp only []
  split
  · simp
  · simp only [List.length_drop, List.length_take]
    omega

theorem bs_trimSpace_allBlank {s : Str} (h : AllBlank s) : trimSpace s = [] := by
  unfold trimSpace
  simp only []
  have : (s.takeWhile isBlank).length = s.length := by
    rw [List.takeWhile_eq_self_iff.mpr h]
  rw [this, if_pos (by omega)]

/-- every string is blank, or a padded core with non-blank ends -/
theorem bs_blank_decomp (s : Str) : AllBlank s ∨ ∃ pre core post, AllBlank pre ∧ AllBlank post ∧ core ≠ [] ∧
    (∀ b, core.head? = some b → isBlank b = false) ∧ (∀ b, core.getLast? = some b → isBlank b = false) ∧
    s = pre ++ core ++ post := by
  by_cases hd : s.dropWhile isBlank = []
  · left
    have := List.takeWhile_append_dropWhile (p := isBlank) (l := s)
    rw [hd, List.append_nil] at this
    intro b hb
    rw [← this] at hb
    exact List.mem_takeWhile_imp hb
  · right
    set d := s.dropWhile isBlank with hd'
    refine ⟨s.takeWhile isBlank, (d.reverse.dropWhile isBlank).reverse, (d.reverse.takeWhile isBlank).reverse,
      ?_, ?_, ?_, ?_, ?_, ?_⟩
    · intro b hb; exact List.mem_takeWhile_imp hb
    · intro b hb; exact List.mem_takeWhile_imp (List.mem_reverse.mp hb)
    · -- the head of d is not blank, so d.reverse is not all blank
      have hhead := List.head?_dropWhile_not isBlank s
      rw [← hd'] at hhead
      cases hdd : d with
      | nil => exact absurd hdd hd
      | cons c t =>
        rw [hdd] at hhead
        simp only [List.head?_cons] at hhead
        intro hcon
        have hcon' : (c :: t).reverse.dropWhile isBlank = [] := by simpa using hcon
        rw [List.dropWhile_eq_nil_iff] at hcon'
        have := hcon' c (by simp)
        rw [hhead] at this
        exact absurd this (by simp)
    · intro b hb
      have hsplit : d = (d.reverse.dropWhile isBlank).reverse ++ (d.reverse.takeWhile isBlank).reverse := by
        rw [← List.reverse_append, List.takeWhile_append_dropWhile, List.reverse_reverse]
      have hhead := List.head?_dropWhile_not isBlank s
      rw [← hd'] at hhead
      cases hcore : (d.reverse.dropWhile isBlank).reverse with
      | nil => rw [hcore] at hb; simp at hb
      | cons c t =>
        rw [hcore] at hb hsplit
        simp only [List.head?_cons, Option.some.injEq] at hb
        rw [hsplit] at hhead
        simp only [List.cons_append, List.head?_cons] at hhead
        rw [← hb]; exact hhead
    · intro b hb
      rw [List.getLast?_reverse] at hb
      have := List.head?_dropWhile_not isBlank d.reverse
      rw [hb] at this
      exact this
    · have hsplit : d = (d.reverse.dropWhile isBlank).reverse ++ (d.reverse.takeWhile isBlank).reverse := by
        rw [← List.reverse_append, List.takeWhile_append_dropWhile, List.reverse_reverse]
      rw [List.append_assoc, ← hsplit, List.takeWhile_append_dropWhile]

/-- `trimSpace s` is `[]` or has good ends -/
theorem trimSpace_nil_or_goodEnds (s : Str) : trimSpace s = [] ∨ GoodEnds (trimSpace s) := by
  rcases bs_blank_decomp s with h | ⟨pre, core, post, h1, h2, hne, hh, hl, rfl⟩
  · left; exact bs_trimSpace_allBlank h
  · rw [bs_trimSpace_pad_gen h1 h2 hne hh hl]
    by_cases h : 2 ≤ core.length
    · right; rw [if_pos h]; exact ⟨h, hh, hl⟩
    · left; rw [if_neg h]

/-! ### trimSpaceBrackets -/

theorem bs_isBlank_cLP : isBlank cLP = false := by decide
theorem bs_isBlank_cRP : isBlank cRP = false := by decide

/-- what `trimSpaceBrackets` computes, given the shape of `trimSpace s` -/
theorem bs_trimSpaceBrackets_nil {s : Str} (h : trimSpace s = []) : trimSpaceBrackets s = .ok [] := by
  unfold trimSpaceBrackets
  simp [h]

theorem bs_trimSpaceBrackets_cons {s : Str} {x : UInt8} {v : Str} (h : trimSpace s = x :: v) :
    trimSpaceBrackets s =
      if x != cLP then .err .notWKT else
      match v.getLast? with
      | none => .panic "index out of range [-1]"
      | some l => if l != cRP then .err .notWKT else .ok (trimSpace v.dropLast) := by
  unfold trimSpaceBrackets
  simp only [h]
  rw [if_neg (by simp)]
  simp only [index, List.getElem?_cons_zero]
  by_cases hx : (x != cLP) = true
  · rw [if_pos hx, if_pos hx]
  · rw [if_neg hx, if_neg hx]
    have hsf : sliceFrom (x :: v) 1 = .ok v := by simp [sliceFrom]
    simp only [hsf]
    rcases List.eq_nil_or_concat v with hv | ⟨w, l, hv⟩
    · subst hv
      simp [lastByte]
    · subst hv
      have hlb : lastByte (w ++ [l]) = .ok l := by
        simp [lastByte, index]
      have hdl : dropLastByte (w ++ [l]) = .ok w := by
        simp [dropLastByte, slice]
      simp only [List.concat_eq_append, hlb, hdl, List.getLast?_append, List.getLast?_singleton, Option.some_or,
        List.dropLast_concat]

theorem trimSpaceBrackets_bracketed {a b c body : Str} (ha : AllBlank a) (hb : AllBlank b) (hc : AllBlank c)
    (hbody : GoodEnds body) : trimSpaceBrackets (bracketed a b c body) = .ok body := by
  have hcore : GoodEnds (cLP :: (b ++ body ++ c ++ [cRP])) := by
    refine ⟨by simp only [List.length_cons, List.length_append]; omega, ?_, ?_⟩
    · intro x hx; simp only [List.head?_cons, Option.some.injEq] at hx; rw [← hx]; exact bs_isBlank_cLP
    · intro x hx
      rw [← List.cons_append, List.getLast?_append] at hx
      simp only [List.getLast?_singleton, Option.some_or, Option.some.injEq] at hx
      rw [← hx]; exact bs_isBlank_cRP
  have h1 : trimSpace (bracketed a b c body) = cLP :: (b ++ body ++ c ++ [cRP]) := by
    have := trimSpace_pad ha bs_allBlank_nil hcore
    simpa [bracketed] using this
  rw [bs_trimSpaceBrackets_cons h1]
  simp only [bne_self_eq_false, Bool.false_eq_true, if_false, List.getLast?_append, List.getLast?_singleton,
    Option.some_or, List.dropLast_concat]
  rw [trimSpace_pad hb hc hbody]

/-- the index `s[0]`, the slice `s[1:]`, the index `s[len(s)-1]` and the slice `s[:len(s)-1]` are all in
    bounds — because `trimSpace` never returns a one-byte string -/
theorem trimSpaceBrackets_not_panic (s : Str) : (trimSpaceBrackets s).isPanic = false := by
  cases h : trimSpace s with
  | nil => rw [bs_trimSpaceBrackets_nil h]; rfl
  | cons x v =>
    rw [bs_trimSpaceBrackets_cons h]
    split
    · rfl
    · have hne : v ≠ [] := by
        intro hv
        have := trimSpace_length_ne_one s
        rw [h, hv] at this
        exact this rfl
      cases hl : v.getLast? with
      | none => rw [List.getLast?_eq_none_iff] at hl; exact absurd hl hne
      | some l =>
        simp only []
        split <;> rfl

theorem trimSpaceBrackets_length {s t : Str} (h : trimSpaceBrackets s = .ok t) : t.length ≤ s.length := by
  have hle := trimSpace_length_le s
  cases hs : trimSpace s with
  | nil =>
    rw [bs_trimSpaceBrackets_nil hs] at h
    cases h
    simp
  | cons x v =>
    rw [bs_trimSpaceBrackets_cons hs] at h
    rw [hs] at hle
    split at h
    · cases h
    · cases hl : v.getLast? with
      | none => rw [hl] at h; cases h
      | some l =>
        rw [hl] at h
        simp only [] at h
        split at h
        · cases h
        · cases h
          have h1 := trimSpace_length_le v.dropLast
          simp only [List.length_dropLast, List.length_cons] at h1 hle
          omega

/-! ### keyword dispatch -/

theorem bs_upperPrefix_length (s : Str) : (upperPrefix s).length = 20 := by
  unfold upperPrefix
  simp only [List.length_append, List.length_map, List.length_replicate, List.length_take]
  omega

/-- `upperPrefix` pads with NUL, keywords contain no NUL: a keyword test is also a length guard -/
theorem hasPrefix_upperPrefix_length {s kw : Str} (hk : ∀ b ∈ kw, b ≠ 0) (h : hasPrefix (upperPrefix s) kw = true) :
    kw.length ≤ s.length := by
  unfold hasPrefix at h
  rw [List.isPrefixOf_iff_prefix] at h
  by_contra hlt
  rw [Nat.not_le] at hlt
  have hlen := h.length_le
  rw [bs_upperPrefix_length] at hlen
  have hget := h.getElem hlt
  have hmem : kw[s.length] ∈ kw := List.getElem_mem _
  apply hk _ hmem
  rw [hget]
  unfold upperPrefix
  have htake : s.take 20 = s := List.take_of_length_le (by omega)
  simp only [htake]
  rw [List.getElem_append_right (by simp)]
  simp

theorem caseVariant_length {kw k : Str} (hv : CaseVariant kw k) : k.length = kw.length := by
  unfold CaseVariant at hv
  rw [← hv, List.length_map]

theorem upperPrefix_caseVariant {kw k rest : Str} (hv : CaseVariant kw k) (hl : kw.length ≤ 20) :
    ∃ tail, upperPrefix (k ++ rest) = kw ++ tail := by
  have hlen := caseVariant_length hv
  unfold CaseVariant at hv
  have htake : (k ++ rest).take 20 = k ++ rest.take (20 - k.length) := by
    rw [List.take_append, List.take_of_length_le (by omega)]
  refine ⟨(rest.take (20 - k.length)).map upper ++ List.replicate (20 - ((k ++ rest).take 20).length) 0, ?_⟩
  unfold upperPrefix
  rw [htake, List.map_append, hv, List.append_assoc]

set_option maxRecDepth 100000 in
theorem bs_foldByte_upper_fin : ∀ n : Fin 256, foldByte (upper (UInt8.ofFin n)) = foldByte (UInt8.ofFin n) := by
  decide

theorem bs_foldByte_upper (b : UInt8) : foldByte (upper b) = foldByte b := by
  have := bs_foldByte_upper_fin b.toFin
  simpa using this

set_option maxRecDepth 100000 in
theorem bs_foldByte_eq_lp_fin : ∀ n : Fin 256, foldByte (UInt8.ofFin n) = cLP → UInt8.ofFin n = cLP := by
  decide

theorem bs_foldByte_eq_lp {b : UInt8} (h : foldByte b = cLP) : b = cLP := by
  have := bs_foldByte_eq_lp_fin b.toFin
  simp only [UInt8.ofFin_toFin] at this
  exact this h

/-- `strings.EqualFold` with the constant: true on every case variant of it … -/
theorem equalFold_caseVariant {K t : Str} (hv : CaseVariant K t) : equalFold t K = true := by
  unfold CaseVariant at hv
  unfold equalFold
  rw [← hv, List.map_map]
  have : (foldByte ∘ upper) = foldByte := by
    funext b; exact bs_foldByte_upper b
  rw [this]
  simp

/-- … false on every text containing a `(` (none of the constants does) -/
theorem equalFold_false_of_lp {K t : Str} (hK : cLP ∉ K) (ht : cLP ∈ t) : equalFold t K = false := by
  unfold equalFold
  rw [beq_eq_false_iff_ne]
  intro heq
  have h1 : cLP ∈ t.map foldByte := List.mem_map.mpr ⟨cLP, ht, by decide⟩
  rw [heq] at h1
  obtain ⟨b, hb, hfb⟩ := List.mem_map.mp h1
  rw [bs_foldByte_eq_lp hfb] at hb
  exact hK hb

theorem sliceFrom_append (a b : Str) : sliceFrom (a ++ b) a.length = .ok b := by
  simp [sliceFrom]

/-! ### parsePoint -/

theorem cutSpace_append {a b : Str} (ha : cSpace ∉ a) : cutSpace (a ++ cSpace :: b) = some (a, b) := by
  induction a with
  | nil => simp [cutSpace]
  | cons x t ih =>
    have hx : x ≠ cSpace := by intro h; exact ha (by simp [h])
    have ht : cSpace ∉ t := by intro h; exact ha (by simp [h])
    simp only [List.cons_append, cutSpace]
    rw [if_neg (by simpa using hx), ih ht]

theorem bs_not_delim {b : UInt8} (h : isDelim b = false) :
    b ≠ cSpace ∧ b ≠ cComma ∧ b ≠ cLP ∧ b ≠ cRP ∧ isBlank b = false := by
  unfold isDelim at h
  simp only [Bool.or_eq_false_iff, beq_eq_false_iff_ne] at h
  obtain ⟨⟨⟨⟨⟨h1, h2⟩, h3⟩, h4⟩, h5⟩, h6⟩ := h
  refine ⟨h1, h4, h5, h6, ?_⟩
  unfold isBlank
  simp [h1, h2, h3]

theorem parsePoint_wCoord {fmtF : UInt64 → Str} {parseF : Str → Option UInt64} {p : P}
    (hx : FloatText fmtF parseF p.x) (hy : FloatText fmtF parseF p.y) :
    parsePoint parseF (wCoord fmtF p) = .ok p := by
  have hsp : cSpace ∉ fmtF p.x := fun hm => (bs_not_delim (hx.clean _ hm)).1 rfl
  unfold parsePoint wCoord
  rw [cutSpace_append hsp]
  simp only [hx.parses, hy.parses]

theorem parsePoint_not_panic (parseF : Str → Option UInt64) (s : Str) : (parsePoint parseF s).isPanic = false := by
  unfold parsePoint
  repeat' split
  all_goals rfl

theorem wCoord_isPiece {fmtF : UInt64 → Str} {parseF : Str → Option UInt64} {p : P}
    (hx : FloatText fmtF parseF p.x) (hy : FloatText fmtF parseF p.y) : IsPiece (wCoord fmtF p) := by
  unfold wCoord
  refine ⟨by simp, ?_, ?_, ?_⟩
  · intro hm
    rcases List.mem_append.mp hm with h | h
    · exact (bs_not_delim (hx.clean _ h)).2.1 rfl
    · rcases List.mem_cons.mp h with h | h
      · exact absurd h (by decide)
      · exact (bs_not_delim (hy.clean _ h)).2.1 rfl
  · intro b hb
    cases hfx : fmtF p.x with
    | nil => exact absurd hfx hx.nonempty
    | cons c t =>
      rw [hfx] at hb
      simp only [List.cons_append, List.head?_cons, Option.some.injEq] at hb
      rw [← hb]
      exact (bs_not_delim (hx.clean c (by rw [hfx]; simp))).2.2.2.2
  · intro b hb
    have : (fmtF p.x ++ cSpace :: fmtF p.y) = (fmtF p.x ++ [cSpace]) ++ fmtF p.y := by simp
    rw [this, List.getLast?_append_of_ne_nil _ hy.nonempty] at hb
    have hm : b ∈ fmtF p.y := List.mem_of_getLast? hb
    exact (bs_not_delim (hy.clean b hm)).2.2.2.2

theorem wCoord_goodEnds {fmtF : UInt64 → Str} {parseF : Str → Option UInt64} {p : P}
    (hx : FloatText fmtF parseF p.x) (hy : FloatText fmtF parseF p.y) : GoodEnds (wCoord fmtF p) := by
  obtain ⟨_, _, h3, h4⟩ := wCoord_isPiece hx hy
  refine ⟨?_, h3, h4⟩
  unfold wCoord
  have := List.length_pos_of_ne_nil hx.nonempty
  simp only [List.length_append, List.length_cons]
  omega

/-- a printed coordinate pair contains no comma and no parenthesis -/
theorem wCoord_clean {fmtF : UInt64 → Str} {parseF : Str → Option UInt64} {p : P}
    (hx : FloatText fmtF parseF p.x) (hy : FloatText fmtF parseF p.y) :
    cComma ∉ wCoord fmtF p ∧ cLP ∉ wCoord fmtF p ∧ cRP ∉ wCoord fmtF p := by
  unfold wCoord
  refine ⟨?_, ?_, ?_⟩
  · intro hm
    rcases List.mem_append.mp hm with h | h
    · exact (bs_not_delim (hx.clean _ h)).2.1 rfl
    · rcases List.mem_cons.mp h with h | h
      · exact absurd h (by decide)
      · exact (bs_not_delim (hy.clean _ h)).2.1 rfl
  · intro hm
    rcases List.mem_append.mp hm with h | h
    · exact (bs_not_delim (hx.clean _ h)).2.2.1 rfl
    · rcases List.mem_cons.mp h with h | h
      · exact absurd h (by decide)
      · exact (bs_not_delim (hy.clean _ h)).2.2.1 rfl
  · intro hm
    rcases List.mem_append.mp hm with h | h
    · exact (bs_not_delim (hx.clean _ h)).2.2.2.1 rfl
    · rcases List.mem_cons.mp h with h | h
      · exact absurd h (by decide)
      · exact (bs_not_delim (hy.clean _ h)).2.2.2.1 rfl

/-! ### splitOnComma -/

theorem bs_isBlank_ne_comma {b : UInt8} (h : isBlank b = true) : b ≠ cComma := by
  intro hb; rw [hb] at h; exact absurd h (by decide)

section steps
variable {β : Type} (s : Str) (f : β → Str → R β)

theorem bs_step_blank_sp {b : UInt8} (hb : isBlank b = true) (rest : Str) (i a st : Nat) (cm : Bool) (acc : β) :
    splitOnCommaLoop s f (b :: rest) i ⟨a, st, true, cm⟩ acc = splitOnCommaLoop s f rest (i + 1) ⟨a, st, true, cm⟩ acc := by
  rw [splitOnCommaLoop]
  have : (b == cComma) = false := by simpa using bs_isBlank_ne_comma hb
  simp [this, hb]

theorem bs_step_blank_nsp {b : UInt8} (hb : isBlank b = true) (rest : Str) (i a st : Nat) (cm : Bool) (acc : β) :
    splitOnCommaLoop s f (b :: rest) i ⟨a, st, false, cm⟩ acc = splitOnCommaLoop s f rest (i + 1) ⟨a, i, true, cm⟩ acc := by
  rw [splitOnCommaLoop]
  have : (b == cComma) = false := by simpa using bs_isBlank_ne_comma hb
  simp [this, hb]

theorem bs_step_comma_sp (rest : Str) (i a st : Nat) (cm : Bool) (acc : β) :
    splitOnCommaLoop s f (cComma :: rest) i ⟨a, st, true, cm⟩ acc = splitOnCommaLoop s f rest (i + 1) ⟨a, st, true, true⟩ acc := by
  rw [splitOnCommaLoop]
  simp

theorem bs_step_comma_nsp (rest : Str) (i a st : Nat) (cm : Bool) (acc : β) :
    splitOnCommaLoop s f (cComma :: rest) i ⟨a, st, false, cm⟩ acc = splitOnCommaLoop s f rest (i + 1) ⟨a, i, true, true⟩ acc := by
  rw [splitOnCommaLoop]
  simp

theorem bs_step_plain {b : UInt8} (hc : b ≠ cComma) (hb : isBlank b = false) (rest : Str) (i a st : Nat) (sp : Bool) (acc : β) :
    splitOnCommaLoop s f (b :: rest) i ⟨a, st, sp, false⟩ acc = splitOnCommaLoop s f rest (i + 1) ⟨a, st, false, false⟩ acc := by
  rw [splitOnCommaLoop]
  have : (b == cComma) = false := by simpa using hc
  simp [this, hb]

theorem bs_step_yield {b : UInt8} (hc : b ≠ cComma) (hb : isBlank b = false) (rest : Str) (i a st : Nat) (sp : Bool) (acc : β) :
    splitOnCommaLoop s f (b :: rest) i ⟨a, st, sp, true⟩ acc =
      match slice s a st with
      | .panic w => .panic w
      | .err e => .err e
      | .ok p =>
        match f acc p with
        | .panic w => .panic w
        | .err e => .err e
        | .ok acc => splitOnCommaLoop s f rest (i + 1) ⟨i, st, false, false⟩ acc := by
  rw [splitOnCommaLoop]
  have : (b == cComma) = false := by simpa using hc
  simp only [this, hb, Bool.false_eq_true, if_false, if_true]
  cases slice s a st with
  | ok p => simp only []; cases f acc p <;> rfl
  | err e => rfl
  | panic w => rfl

/-- scanning a run of blanks after the first blank / comma of a separator changes nothing -/
theorem bs_loop_blanks {a : Str} (ha : AllBlank a) (tail : Str) (i at_ st : Nat) (cm : Bool) (acc : β) :
    splitOnCommaLoop s f (a ++ tail) i ⟨at_, st, true, cm⟩ acc =
      splitOnCommaLoop s f tail (i + a.length) ⟨at_, st, true, cm⟩ acc := by
  induction a generalizing i with
  | nil => rfl
  | cons x t ih =>
    have hx : isBlank x = true := ha x (by simp)
    have ht : AllBlank t := fun b hb => ha b (by simp [hb])
    rw [List.cons_append, bs_step_blank_sp s f hx, ih ht]
    congr 1
    simp only [List.length_cons]; omega

/-- scanning a piece: no yield, `at` unchanged, and the state is clean at its end -/
theorem bs_loop_piece {p : Str} (hc : cComma ∉ p) (hl : ∀ b, p.getLast? = some b → isBlank b = false)
    (tail : Str) (i a st : Nat) (sp : Bool) (acc : β) (hsp : p = [] → sp = false) :
    ∃ st', splitOnCommaLoop s f (p ++ tail) i ⟨a, st, sp, false⟩ acc =
      splitOnCommaLoop s f tail (i + p.length) ⟨a, st', false, false⟩ acc := by
  induction p generalizing i st sp with
  | nil =>
    rw [hsp rfl]
    exact ⟨st, rfl⟩
  | cons b t ih =>
    have hbc : b ≠ cComma := by intro h; exact hc (by simp [h])
    have htc : cComma ∉ t := by intro h; exact hc (by simp [h])
    have hi : i + 1 + t.length = i + (b :: t).length := by simp only [List.length_cons]; omega
    cases hbb : isBlank b with
    | true =>
      -- then `t` is not empty
      cases t with
      | nil =>
        have := hl b rfl
        rw [hbb] at this; cases this
      | cons c t' =>
        have hl' : ∀ x, (c :: t').getLast? = some x → isBlank x = false := by
          intro x hx; apply hl x; rw [List.getLast?_cons_cons]; exact hx
        cases sp with
        | true =>
          obtain ⟨st', h⟩ := ih htc hl' (i + 1) st true (by intro h; cases h)
          refine ⟨st', ?_⟩
          rw [List.cons_append, bs_step_blank_sp s f hbb, h, hi]
        | false =>
          obtain ⟨st', h⟩ := ih htc hl' (i + 1) i true (by intro h; cases h)
          refine ⟨st', ?_⟩
          rw [List.cons_append, bs_step_blank_nsp s f hbb, h, hi]
    | false =>
      have hl' : ∀ x, t.getLast? = some x → isBlank x = false := by
        intro x hx
        cases t with
        | nil => simp at hx
        | cons c t' => apply hl x; rw [List.getLast?_cons_cons]; exact hx
      obtain ⟨st', h⟩ := ih htc hl' (i + 1) st false (by intro _; rfl)
      refine ⟨st', ?_⟩
      rw [List.cons_append, bs_step_plain s f hbc hbb, h, hi]

/-- a separator `a , b` followed by the first byte `c` of the next piece: yield `s[at:j]`, restart at `c` -/
theorem bs_loop_sep {a b : Str} (ha : AllBlank a) (hb : AllBlank b) {c : UInt8} (hcc : c ≠ cComma) (hcb : isBlank c = false)
    (tail : Str) (j at_ st k : Nat) (acc : β) (hk : k = j + a.length + 1 + b.length) :
    splitOnCommaLoop s f (a ++ cComma :: (b ++ c :: tail)) j ⟨at_, st, false, false⟩ acc =
      match slice s at_ j with
      | .panic w => .panic w
      | .err e => .err e
      | .ok p =>
        match f acc p with
        | .panic w => .panic w
        | .err e => .err e
        | .ok acc => splitOnCommaLoop s f (c :: tail) k ⟨k, j, false, false⟩ acc := by
  have hfin : ∀ (i : Nat) (acc' : β), i + b.length = k →
      splitOnCommaLoop s f (b ++ c :: tail) i ⟨at_, j, true, true⟩ acc' =
      match slice s at_ j with
      | .panic w => .panic w
      | .err e => .err e
      | .ok p =>
        match f acc' p with
        | .panic w => .panic w
        | .err e => .err e
        | .ok acc => splitOnCommaLoop s f (c :: tail) k ⟨k, j, false, false⟩ acc := by
    intro i acc' hik
    rw [bs_loop_blanks s f hb, bs_step_yield s f hcc hcb, hik]
    simp only [bs_step_plain s f hcc hcb]
  cases a with
  | nil =>
    rw [List.nil_append, bs_step_comma_nsp, hfin]
    simp only [List.length_nil] at hk; omega
  | cons x a' =>
    have hx : isBlank x = true := ha x (by simp)
    have ha' : AllBlank a' := fun y hy => ha y (by simp [hy])
    rw [List.cons_append, bs_step_blank_nsp s f hx, bs_loop_blanks s f ha', bs_step_comma_sp, hfin]
    simp only [List.length_cons] at hk; omega

end steps

theorem bs_slice_mid (pre p rest : Str) : slice (pre ++ (p ++ rest)) pre.length (pre.length + p.length) = .ok p := by
  unfold slice
  rw [if_pos (by simp only [List.length_append]; omega), List.drop_left' rfl, Nat.add_sub_cancel_left,
    List.take_left' rfl]

/-- a joined text starts with the first byte of its first piece -/
theorem bs_sepJoin_head {pieces : List Str} {body : Str} (hj : SepJoin pieces body) (hp : ∀ p ∈ pieces, IsPiece p) :
    ∃ c t, body = c :: t ∧ c ≠ cComma ∧ isBlank c = false := by
  have key : ∀ p : Str, IsPiece p → ∀ rest : Str, ∃ c t, p ++ rest = c :: t ∧ c ≠ cComma ∧ isBlank c = false := by
    intro p ⟨hne, hcm, hh, _⟩ rest
    cases p with
    | nil => exact absurd rfl hne
    | cons c t =>
      refine ⟨c, t ++ rest, rfl, ?_, hh c rfl⟩
      intro h; exact hcm (by simp [h])
  cases hj with
  | one =>
    obtain ⟨c, t, h, h2⟩ := key body (hp body (by simp)) []
    exact ⟨c, t, by simpa using h, h2⟩
  | cons p a b ps t ha hb hj' =>
    obtain ⟨c, t', h, h2⟩ := key p (hp p (by simp)) (a ++ cComma :: (b ++ t))
    exact ⟨c, t', by simpa using h, h2⟩

theorem bs_loop_sepJoin {β : Type} (f : β → Str → R β) {pieces : List Str} {body : Str} (hj : SepJoin pieces body)
    (hp : ∀ p ∈ pieces, IsPiece p) :
    ∀ (s pre : Str) (n st : Nat) (acc : β), s = pre ++ body → n = pre.length →
      splitOnCommaLoop s f body n ⟨n, st, false, false⟩ acc = foldlR f acc pieces := by
  induction hj with
  | one p =>
    intro s pre n st acc hs hn
    obtain ⟨_, hcm, _, hl⟩ := hp p (by simp)
    obtain ⟨st', h⟩ := bs_loop_piece s f hcm hl [] n n st false acc (fun _ => rfl)
    rw [List.append_nil] at h
    rw [h, splitOnCommaLoop, hs, hn, sliceFrom_append]
    simp only [foldlR]
    cases f acc p <;> rfl
  | cons p a b ps t ha hb hj' ih =>
    intro s pre n st acc hs hn
    obtain ⟨_, hcm, _, hl⟩ := hp p (by simp)
    have hps : ∀ q ∈ ps, IsPiece q := fun q hq => hp q (by simp [hq])
    obtain ⟨c, t', ht, hcc, hcb⟩ := bs_sepJoin_head hj' hps
    obtain ⟨st', h⟩ := bs_loop_piece s f hcm hl (a ++ cComma :: (b ++ t)) n n st false acc (fun _ => rfl)
    rw [List.append_assoc, h]
    have hsl : slice s n (n + p.length) = .ok p := by
      rw [hs, hn, List.append_assoc]
      exact bs_slice_mid pre p _
    have hsep := bs_loop_sep s f ha hb hcc hcb t' (n + p.length) n st' (n + p.length + a.length + 1 + b.length) acc rfl
    rw [← ht] at hsep
    rw [hsep, hsl]
    simp only [foldlR]
    cases hf : f acc p with
    | ok acc' =>
      simp only []
      apply ih hps s (pre ++ p ++ a ++ [cComma] ++ b)
      · rw [hs]; simp
      · rw [hn]; simp only [List.length_append, List.length_cons, List.length_nil]
    | err e => rfl
    | panic w => rfl

/-- On pieces joined by re-spelled commas, `splitOnComma` yields exactly the pieces, in order. -/
theorem splitOnComma_sepJoin {β : Type} {pieces : List Str} {body : Str} (hj : SepJoin pieces body)
    (hp : ∀ p ∈ pieces, IsPiece p) (f : β → Str → R β) (init : β) :
    splitOnComma body f init = foldlR f init pieces := by
  unfold splitOnComma
  exact bs_loop_sepJoin f hj hp body [] 0 0 init rfl rfl

/-- the loop invariant behind `splitOnComma_not_panic` -/
def bs_SCInv (s rest : Str) (i : Nat) (st : SC) : Prop :=
  i + rest.length = s.length ∧ st.at_ ≤ i ∧ (st.sawSpace = true → st.at_ ≤ st.start ∧ st.start ≤ i) ∧
    (st.sawComma = true → st.sawSpace = true)

theorem bs_loop_not_panic {β : Type} (s : Str) (f : β → Str → R β) (hf : ∀ acc p, (f acc p).isPanic = false) :
    ∀ (rest : Str) (i : Nat) (st : SC) (acc : β), bs_SCInv s rest i st →
      (splitOnCommaLoop s f rest i st acc).isPanic = false := by
  intro rest
  induction rest with
  | nil =>
    intro i st acc ⟨h1, h2, _, _⟩
    rw [splitOnCommaLoop]
    simp only [List.length_nil, Nat.add_zero] at h1
    have : sliceFrom s st.at_ = .ok (s.drop st.at_) := by
      unfold sliceFrom; rw [if_pos (by omega)]
    rw [this]
    exact hf _ _
  | cons b rest ih =>
    intro i st acc ⟨h1, h2, h3, h4⟩
    obtain ⟨a, start, sp, cm⟩ := st
    simp only [List.length_cons] at h1
    simp only at h2 h3 h4
    rw [splitOnCommaLoop]
    by_cases hb : (b == cComma) = true
    · rw [if_pos hb]
      apply ih
      cases sp with
      | true =>
        have := h3 rfl
        refine ⟨by omega, by simp; omega, ?_, ?_⟩ <;> (simp; try omega)
      | false =>
        refine ⟨by omega, by simp; omega, ?_, ?_⟩ <;> (simp; try omega)
    · rw [if_neg hb]
      by_cases hbl : isBlank b = true
      · rw [if_pos hbl]
        apply ih
        cases sp with
        | true =>
          have := h3 rfl
          refine ⟨by omega, by simp; omega, ?_, ?_⟩ <;> (simp; try omega)
        | false =>
          have : cm = false := by
            cases cm with
            | true => exact absurd (h4 rfl) (by simp)
            | false => rfl
          subst this
          refine ⟨by omega, by simp; omega, ?_, ?_⟩ <;> (simp; try omega)
      · rw [if_neg hbl]
        cases cm with
        | true =>
          have hsp := h4 rfl
          have := h3 hsp
          simp only [if_true]
          have hs : slice s a start = .ok ((s.drop a).take (start - a)) := by
            unfold slice; rw [if_pos ⟨this.1, by omega⟩]
          rw [hs]
          simp only []
          cases hfa : f acc ((s.drop a).take (start - a)) with
          | ok acc' =>
            simp only []
            apply ih
            refine ⟨by omega, by simp, ?_, ?_⟩ <;> simp
          | err e => rfl
          | panic w =>
            have := hf acc ((s.drop a).take (start - a))
            rw [hfa] at this
            exact absurd this (by simp [Res.isPanic])
        | false =>
          simp only [Bool.false_eq_true, if_false]
          apply ih
          refine ⟨by omega, by simp; omega, ?_, ?_⟩ <;> simp

/-- the slices `s[at:start]` and `s[at:]` are always in bounds -/
theorem splitOnComma_not_panic {β : Type} (s : Str) (f : β → Str → R β) (init : β)
    (hf : ∀ acc p, (f acc p).isPanic = false) : (splitOnComma s f init).isPanic = false := by
  unfold splitOnComma
  apply bs_loop_not_panic s f hf
  refine ⟨by simp, by simp, ?_, ?_⟩ <;> simp

theorem sepJoin_commaSep {ps : List Str} (h : ps ≠ []) : SepJoin ps (commaSep ps) := by
  induction ps with
  | nil => exact absurd rfl h
  | cons a t ih =>
    cases t with
    | nil => exact SepJoin.one a
    | cons b more =>
      have := SepJoin.cons a [] [] (b :: more) _ bs_allBlank_nil bs_allBlank_nil (ih (by simp))
      simpa [commaSep] using this

/-- first / last byte and length of a joined text come from the first / last piece -/
theorem sepJoin_goodEnds {pieces : List Str} {body : Str} (hj : SepJoin pieces body)
    (hp : ∀ p ∈ pieces, p ≠ [] ∧ (∀ b, p.head? = some b → isBlank b = false) ∧ (∀ b, p.getLast? = some b → isBlank b = false))
    (h2 : ∀ p ∈ pieces, 2 ≤ p.length) : GoodEnds body := by
  induction hj with
  | one p =>
    obtain ⟨_, hh, hl⟩ := hp p (by simp)
    exact ⟨h2 p (by simp), hh, hl⟩
  | cons p a b ps t ha hb hj' ih =>
    obtain ⟨hne, hh, _⟩ := hp p (by simp)
    obtain ⟨tl, _, tlast⟩ := ih (fun q hq => hp q (by simp [hq])) (fun q hq => h2 q (by simp [hq]))
    have hlen := h2 p (by simp)
    have htne : t ≠ [] := by intro h; simp [h] at tl
    refine ⟨by simp only [List.length_append, List.length_cons]; omega, ?_, ?_⟩
    · intro x hx
      apply hh x
      cases p with
      | nil => exact absurd rfl hne
      | cons c p' => simpa using hx
    · intro x hx
      apply tlast x
      have : p ++ a ++ cComma :: (b ++ t) = (p ++ a ++ cComma :: b) ++ t := by simp
      rw [this, List.getLast?_append_of_ne_nil _ htne] at hx
      exact hx

end Orb.WKT
