/-
  Helper lemmas for C16 (smart clipping).  The parts are proved in
  C16Tables (tables, aroundBound), C16Sort (endpoint order), C16Wrap (stitching loop),
  C16Line (the open-bound line clipper as smartclip uses it), C16Ring (clipRings, entry points),
  C16Gen (the model's tables equal the tables regenerated from the Go source).
  This file discharges the two hypotheses about the plain clipper — `LineSpec` (C16Line `line_spec'`) and
  `PlainClipTotal` (C08 `geometry_total'`) — so that the statements re-exported by OrbProofs/C16.lean
  assume nothing but a box of positive area.
-/
import OrbProofs.C16Tables
import OrbProofs.C16Sort
import OrbProofs.C16Wrap
import OrbProofs.C16Line
import OrbProofs.C16Ring
import OrbProofs.C16Gen
import OrbProofs.C08Lemmas

namespace Orb.SmartClip
open Orb Orb.Core

variable {α : Type} [Field α] [LinearOrder α] [IsStrictOrderedRing α]

/-- plain `clip.Geometry` never gets stuck (C08) -/
theorem plainClipTotal' (eb box : Bound α) (hb : BoxOK box) : PlainClipTotal eb box :=
  fun g => Orb.Clip.geometry_total' eb box ⟨hb.1, hb.2⟩ g

theorem ring_output_in_box'' (box : Bound α) (hb : BoxOK box) (r : List (Pt α)) (o : Int)
    (out : List (List (List (Pt α)))) (h : ring box r o = .ok out) :
    out = [[r]] ∨ ∀ pg ∈ out, ∀ rg ∈ pg, ∀ v ∈ rg, InBox box v :=
  ring_output_in_box' box hb (line_spec' box hb) r o out h

theorem polygon_output_in_box'' (box : Bound α) (hb : BoxOK box) (p : List (List (Pt α)))
    (o : Int) (out : List (List (List (Pt α)))) (h : polygon box p o = .ok out) :
    out = [p] ∨ ∀ pg ∈ out, ∀ rg ∈ pg, ∀ v ∈ rg, InBox box v :=
  polygon_output_in_box' box hb (line_spec' box hb) p o out h

theorem multiPolygon_output_in_box'' (box : Bound α) (hb : BoxOK box)
    (mp : List (List (List (Pt α)))) (o : Int) (out : List (List (List (Pt α))))
    (h : multiPolygon box mp o = .ok out) :
    out = mp ∨ ∀ pg ∈ out, ∀ rg ∈ pg, ∀ v ∈ rg, InBox box v :=
  multiPolygon_output_in_box' box hb (line_spec' box hb) mp o out h

theorem clipRings_spec'' (box : Bound α) (hb : BoxOK box) (rings : List (List (Pt α))) :
    ∃ op cl, clipRings box rings = .ok (op, cl) ∧ (∀ ls ∈ op, PieceOK box ls) ∧ (∀ ls ∈ cl, InsideRing box ls) :=
  clipRings_spec' box hb (line_spec' box hb) rings

theorem ring_total'' (box : Bound α) (hb : BoxOK box) (r : List (Pt α)) (o : Int)
    (ho : o = CW ∨ o = CCW) : ∃ out, ring box r o = .ok out := ring_total' box hb (line_spec' box hb) r o ho

theorem polygon_total'' (box : Bound α) (hb : BoxOK box) (p : List (List (Pt α))) (o : Int)
    (ho : o = CW ∨ o = CCW) : ∃ out, polygon box p o = .ok out := polygon_total' box hb (line_spec' box hb) p o ho

theorem multiPolygon_total'' (box : Bound α) (hb : BoxOK box) (mp : List (List (List (Pt α)))) (o : Int)
    (ho : o = CW ∨ o = CCW) : ∃ out, multiPolygon box mp o = .ok out :=
  multiPolygon_total' box hb (line_spec' box hb) mp o ho

theorem geometry_total'' (eb box : Bound α) (hb : BoxOK box) (o : Int) (ho : o = CW ∨ o = CCW) (v : GVal α) :
    ∃ r, geometryV eb box o v = .ok r :=
  geometry_total' eb box hb (line_spec' box hb) (plainClipTotal' eb box hb) o ho v

end Orb.SmartClip
