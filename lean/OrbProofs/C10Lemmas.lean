/-
  Helper lemmas for C10, part 1: area and centroid.  The primed statements are re-exported by OrbProofs/C10.lean.
-/
import Orb.Planar
import Orb.EvenOdd
import OrbProofs.C06Lemmas
import Mathlib.Algebra.Order.Field.Basic
import Mathlib.Algebra.Order.Group.Abs
import Mathlib.Algebra.BigOperators.Group.List.Basic
import Mathlib.Tactic.Ring
import Mathlib.Tactic.Linarith
import Mathlib.Tactic.FieldSimp
import Mathlib.Tactic.SplitIfs

set_option linter.unusedSectionVars false

namespace Orb.Planar
open Orb Orb.Core

/-! ### spec-side vocabulary -/

/-- the (signed) area `ringCentroidArea` reports -/
def ringArea {α : Type} [Add α] [Sub α] [Mul α] [Div α] [OfNat α 0] [OfNat α 2] [OfNat α 6] [BEq α]
    (r : List (Pt α)) : α := (ringCentroidArea r).2

/-- the fan triangles `(o, p, q)` over consecutive pairs of `rest`: (centroid, signed area) -/
def fanTris {α : Type} [Add α] [Sub α] [Mul α] [Div α] [OfNat α 2] [OfNat α 3] (o : Pt α) :
    List (Pt α) → List (Pt α × α)
  | p :: q :: t =>
    (⟨(o.x + p.x + q.x) / 3, (o.y + p.y + q.y) / 3⟩, ((p.x - o.x) * (q.y - o.y) - (q.x - o.x) * (p.y - o.y)) / 2) ::
      fanTris o (q :: t)
  | _ => []

/-- convex in the edge-side sense: every vertex lies on one and the same side of every edge of the closed chain -/
def ConvexRing {α : Type} [Sub α] [Mul α] [OfNat α 0] [LE α] (r : List (Pt α)) : Prop :=
  (∀ e ∈ EvenOdd.edges r, ∀ v ∈ r, 0 ≤ EvenOdd.cross e.1 e.2 v) ∨
  (∀ e ∈ EvenOdd.edges r, ∀ v ∈ r, EvenOdd.cross e.1 e.2 v ≤ 0)

/-- holes nested in the outer ring's even-odd region, with pairwise disjoint interiors -/
def NestedHoles {α : Type} [Sub α] [Mul α] [OfNat α 0] [LT α] [LE α] [DecidableLT α] [DecidableLE α]
    (o : List (Pt α)) (hs : List (List (Pt α))) : Prop :=
  (∀ h ∈ hs, ∀ p, EvenOdd.inside h p = true → EvenOdd.inside o p = true) ∧
  hs.Pairwise fun h k => ∀ p, ¬ ((EvenOdd.inside h p = true ∧ EvenOdd.onBoundary h p = false) ∧
                                   (EvenOdd.inside k p = true ∧ EvenOdd.onBoundary k p = false))


section area
variable {α : Type} [Field α] [LinearOrder α] [IsStrictOrderedRing α]

theorem fabs_eq_abs (a : α) : fabs a = |a| := by
  unfold fabs
  split_ifs with h
  · exact (abs_of_neg h).symm
  · exact (abs_of_nonneg (not_lt.1 h)).symm

/-- x-moment accumulated by `ringLoop` -/
def fanX (o : Pt α) : List (Pt α) → α
  | p :: q :: t => (p.x + q.x - 2 * o.x) * ((p.x - o.x) * (q.y - o.y) - (q.x - o.x) * (p.y - o.y)) + fanX o (q :: t)
  | _ => 0

/-- y-moment accumulated by `ringLoop` -/
def fanY (o : Pt α) : List (Pt α) → α
  | p :: q :: t => (p.y + q.y - 2 * o.y) * ((p.x - o.x) * (q.y - o.y) - (q.x - o.x) * (p.y - o.y)) + fanY o (q :: t)
  | _ => 0

theorem ringLoop_eq (o : Pt α) (l : List (Pt α)) (cx cy ar : α) :
    ringLoop o l (cx, cy, ar) = (cx + fanX o l, cy + fanY o l, ar + fan o l) := by
  induction l generalizing cx cy ar with
  | nil => simp [ringLoop, fanX, fanY, fan]
  | cons p t ih =>
    cases t with
    | nil => simp [ringLoop, fanX, fanY, fan]
    | cons q t =>
      rw [ringLoop, ih, fanX, fanY, fan]
      simp only [Prod.mk.injEq]
      refine ⟨by ring, by ring, by ring⟩

theorem ringCentroidArea_cons (o : Pt α) (rest : List (Pt α)) :
    ringCentroidArea (o :: rest) =
      if fan o rest = 0 then (o, 0) else
        (⟨fanX o rest / (6 * (fan o rest / 2)) + o.x, fanY o rest / (6 * (fan o rest / 2)) + o.y⟩, fan o rest / 2) := by
  simp only [ringCentroidArea, ringLoop_eq, zero_add, beq_iff_eq]

theorem ringArea_cons (o : Pt α) (rest : List (Pt α)) : ringArea (o :: rest) = fan o rest / 2 := by
  rw [ringArea, ringCentroidArea_cons]
  split_ifs with h
  · simp [h]
  · rfl

theorem ringArea_nil : ringArea ([] : List (Pt α)) = 0 := by
  simp [ringArea, ringCentroidArea]

theorem fan_eq_cyc (o : Pt α) (rest : List (Pt α)) : fan o rest = cyc (o :: rest) := by
  have h := orientArea_eq_cyc (o :: rest)
  simp only [orientArea] at h
  rw [go_eq_fan, zero_add] at h
  exact h

theorem area_eq_shoelace' (r : List (Pt α)) : ringArea r = cyc r / 2 := by
  cases r with
  | nil => simp [ringArea_nil, cyc, chain]
  | cons o rest => rw [ringArea_cons, fan_eq_cyc]

theorem cyc_cons (a : Pt α) (t : List (Pt α)) : cyc (a :: t) = chain (a :: t ++ [a]) := by
  rw [chain_append_single, cyc]
  cases h : (a :: t).getLast? <;> simp

theorem cyc_rot1 (a : Pt α) (l : List (Pt α)) : cyc (a :: l) = cyc (l ++ [a]) := by
  cases l with
  | nil => rfl
  | cons b t =>
    have e : b :: t ++ [a] = b :: (t ++ [a]) := rfl
    rw [cyc_cons, e, cyc_cons, ← e,
      chain_append_single (b :: t ++ [a]) b, List.getLast?_concat]
    simp only [List.cons_append, chain]
    ring

theorem cyc_rotate (a b : List (Pt α)) : cyc (a ++ b) = cyc (b ++ a) := by
  induction a generalizing b with
  | nil => simp
  | cons x a ih =>
    rw [List.cons_append, cyc_rot1, List.append_assoc, ih]
    simp

theorem area_close' (v : Pt α) (t : List (Pt α)) : ringArea (v :: t ++ [v]) = ringArea (v :: t) := by
  rw [area_eq_shoelace', area_eq_shoelace', List.cons_append, cyc_cons, ← List.cons_append,
    chain_append_single, ← cyc_cons, List.getLast?_concat]
  simp [cross]

theorem area_rotate' (a b : List (Pt α)) : ringArea (b ++ a) = ringArea (a ++ b) := by
  rw [area_eq_shoelace', area_eq_shoelace', cyc_rotate]

theorem area_reverse' (r : List (Pt α)) : ringArea r.reverse = - ringArea r := by
  rw [area_eq_shoelace', area_eq_shoelace', cyc_reverse, neg_div]

theorem lastD_append (p a : Pt α) (t : List (Pt α)) : lastD p (t ++ [a]) = a := by
  induction t generalizing p with
  | nil => rfl
  | cons q t ih => exact ih q

theorem chain_translate (d p : Pt α) (t : List (Pt α)) :
    chain ((p :: t).map fun p => (⟨p.x + d.x, p.y + d.y⟩ : Pt α)) =
      chain (p :: t) + (d.x * ((lastD p t).y - p.y) - d.y * ((lastD p t).x - p.x)) := by
  induction t generalizing p with
  | nil => simp [chain, lastD]
  | cons q t ih =>
    have ih' := ih q
    simp only [List.map_cons] at ih' ⊢
    rw [chain, ih', chain, lastD]
    simp only [cross]
    ring

theorem area_translate' (d : Pt α) (r : List (Pt α)) :
    ringArea (r.map fun p => ⟨p.x + d.x, p.y + d.y⟩) = ringArea r := by
  rw [area_eq_shoelace', area_eq_shoelace']
  cases r with
  | nil => rfl
  | cons a t =>
    have h := chain_translate d a (t ++ [a])
    rw [lastD_append] at h
    rw [List.map_cons, cyc_cons, cyc_cons]
    simp only [List.map_cons, List.map_append, List.map_nil, List.cons_append] at h ⊢
    rw [h]; ring

theorem orientation_sign' (r : List (Pt α)) :
    (0 < ringArea r ↔ orientation r = 1) ∧ (ringArea r < 0 ↔ orientation r = -1) := by
  rw [area_eq_shoelace']
  unfold orientation
  simp only []
  rw [orientArea_eq_cyc]
  generalize cyc r = a
  have h2 : (0 : α) < 2 := two_pos
  have e1 : 0 < a / 2 ↔ 0 < a := div_pos_iff_of_pos_right h2
  have e2 : a / 2 < 0 ↔ a < 0 := by
    constructor <;> intro h <;> linarith
  rw [e1, e2]
  split_ifs with h1 h3
  · simp [h1, not_lt.2 (le_of_lt h1)]
  · simp [h1, h3]
  · simp [h1, h3]

theorem holes_foldl (hs : List (List (Pt α))) (a b c : α) :
    hs.foldl (fun (s : α × α × α) hr =>
        let hca := ringCentroidArea hr
        let ha := fabs hca.2
        (s.1 + ha, s.2.1 + hca.1.x * ha, s.2.2 + hca.1.y * ha)) (a, b, c) =
      (a + (hs.map fun h => |ringArea h|).sum,
       b + (hs.map fun h => (ringCentroidArea h).1.x * |ringArea h|).sum,
       c + (hs.map fun h => (ringCentroidArea h).1.y * |ringArea h|).sum) := by
  induction hs generalizing a b c with
  | nil => simp
  | cons h t ih =>
    rw [List.foldl_cons]
    simp only []
    rw [ih]
    simp only [List.map_cons, List.sum_cons, fabs_eq_abs, ringArea, Prod.mk.injEq]
    refine ⟨by ring, by ring, by ring⟩

theorem polygonCentroidArea_cons (sqrt : α → α) (o : List (Pt α)) (hs : List (List (Pt α))) :
    polygonCentroidArea sqrt (o :: hs) =
      if |ringArea o| - (hs.map fun h => |ringArea h|).sum = 0 then (lineFallback sqrt o, 0) else
        (⟨(|ringArea o| * (ringCentroidArea o).1.x - (hs.map fun h => (ringCentroidArea h).1.x * |ringArea h|).sum) /
            (|ringArea o| - (hs.map fun h => |ringArea h|).sum),
          (|ringArea o| * (ringCentroidArea o).1.y - (hs.map fun h => (ringCentroidArea h).1.y * |ringArea h|).sum) /
            (|ringArea o| - (hs.map fun h => |ringArea h|).sum)⟩,
         |ringArea o| - (hs.map fun h => |ringArea h|).sum) := by
  cases hs with
  | nil =>
    simp only [polygonCentroidArea, fabs_eq_abs, beq_iff_eq, List.map_nil, List.sum_nil, sub_zero, ringArea]
    split_ifs with h
    · rfl
    · rw [mul_div_cancel_left₀ _ h, mul_div_cancel_left₀ _ h]
  | cons h t =>
    simp only [polygonCentroidArea]
    rw [holes_foldl]
    simp only [fabs_eq_abs, beq_iff_eq, zero_add, ringArea]
    rfl

theorem polygon_area_eq' (sqrt : α → α) (o : List (Pt α)) (hs : List (List (Pt α))) :
    (polygonCentroidArea sqrt (o :: hs)).2 = |ringArea o| - (hs.map fun h => |ringArea h|).sum := by
  rw [polygonCentroidArea_cons]
  split_ifs with h
  · exact h.symm
  · rfl

theorem polygon_area_nonneg_partial' (sqrt : α → α) (o : List (Pt α)) (hs : List (List (Pt α)))
    (h : (hs.map fun h => |ringArea h|).sum ≤ |ringArea o|) : 0 ≤ (polygonCentroidArea sqrt (o :: hs)).2 := by
  rw [polygon_area_eq']
  exact sub_nonneg.2 h

theorem finishWeighted_snd (s : α × α × α) : (finishWeighted s).2 = s.2.2 := by
  unfold finishWeighted
  split_ifs with h
  · rw [beq_iff_eq] at h; exact h.symm
  · rfl

theorem multi_foldl (sqrt : α → α) (mp : List (List (List (Pt α)))) (a b c : α) :
    mp.foldl (fun (s : α × α × α) p =>
        let ca := polygonCentroidArea sqrt p
        (s.1 + ca.1.x * ca.2, s.2.1 + ca.1.y * ca.2, s.2.2 + ca.2)) (a, b, c) =
      (a + (mp.map fun p => (polygonCentroidArea sqrt p).1.x * (polygonCentroidArea sqrt p).2).sum,
       b + (mp.map fun p => (polygonCentroidArea sqrt p).1.y * (polygonCentroidArea sqrt p).2).sum,
       c + (mp.map fun p => (polygonCentroidArea sqrt p).2).sum) := by
  induction mp generalizing a b c with
  | nil => simp
  | cons h t ih =>
    rw [List.foldl_cons]
    simp only []
    rw [ih]
    simp only [List.map_cons, List.sum_cons, Prod.mk.injEq]
    refine ⟨by ring, by ring, by ring⟩

theorem multi_area_sum' (sqrt : α → α) (mp : List (List (List (Pt α)))) :
    (multiPolygonCentroidArea sqrt mp).2 = (mp.map fun p => (polygonCentroidArea sqrt p).2).sum := by
  unfold multiPolygonCentroidArea
  rw [finishWeighted_snd, multi_foldl]
  simp only [zero_add]

theorem collLoop_snd (sqrt : α → α) (mx : Int) (gs : List (Geom α)) (s : α × α × α) :
    (centroidArea.collLoop sqrt mx gs s).2.2 =
      s.2.2 + ((gs.filter fun g => dimensions g == mx).map (area sqrt)).sum := by
  induction gs generalizing s with
  | nil => simp [centroidArea.collLoop]
  | cons g t ih =>
    rw [centroidArea.collLoop]
    by_cases h : dimensions g = mx
    · simp only [h, bne_self_eq_false, Bool.false_eq_true, if_false, ih, List.filter_cons, beq_self_eq_true, if_true,
        List.map_cons, List.sum_cons, area]
      ring
    · have h1 : (dimensions g != mx) = true := by simpa using h
      have h2 : (dimensions g == mx) = false := by simpa using h
      simp only [h1, if_true, ih, List.filter_cons, h2, Bool.false_eq_true, if_false]

theorem collection_area_sum_topdim' (sqrt : α → α) (gs : List (Geom α)) :
    area sqrt (.collection gs) = ((gs.filter fun g => dimensions g == maxDim gs).map (area sqrt)).sum := by
  rw [area, centroidArea, finishWeighted_snd, collLoop_snd, zero_add]

theorem dimsMax_ge_seed (gs : List (Geom α)) (m : Int) : m ≤ dimensions.dimsMax gs m := by
  induction gs generalizing m with
  | nil => simp [dimensions.dimsMax]
  | cons g t ih =>
    rw [dimensions.dimsMax]
    refine le_trans ?_ (ih _)
    split_ifs with h <;> omega

theorem dimsMax_ge_mem (gs : List (Geom α)) (m : Int) (g : Geom α) (hg : g ∈ gs) :
    dimensions g ≤ dimensions.dimsMax gs m := by
  induction gs generalizing m with
  | nil => cases hg
  | cons g' t ih =>
    rw [dimensions.dimsMax]
    rcases List.mem_cons.1 hg with rfl | hg
    · refine le_trans ?_ (dimsMax_ge_seed _ _)
      split_ifs with h <;> omega
    · exact ih _ hg

theorem sum_map_zero {β : Type} (l : List β) (f : β → α) (h : ∀ b ∈ l, f b = 0) : (l.map f).sum = 0 := by
  induction l with
  | nil => rfl
  | cons b t ih =>
    rw [List.map_cons, List.sum_cons, h b (List.mem_cons_self ..), ih (fun b hb => h b (List.mem_cons_of_mem _ hb)), add_zero]

theorem area_lowerdim_zero' (sqrt : α → α) (g : Geom α) (h : dimensions g < 2) : area sqrt g = 0 := by
  induction g using Geom.ind with
  | hc gs ih =>
    rw [collection_area_sum_topdim']
    apply sum_map_zero
    intro g hg
    have hg' := (List.mem_filter.1 hg).1
    apply ih g hg'
    rw [dimensions] at h
    exact lt_of_le_of_lt (dimsMax_ge_mem gs _ g hg') h
  | h1 p => simp [area, centroidArea]
  | h2 p => simp [area, centroidArea]
  | h3 p => simp [area, centroidArea]
  | h4 p => simp [area, centroidArea]
  | h5 p => simp [dimensions] at h
  | h6 p => simp [dimensions] at h
  | h7 p => simp [dimensions] at h
  | h8 p => simp [dimensions] at h

end area

section centroid
variable {α : Type} [Field α] [LinearOrder α] [IsStrictOrderedRing α]

theorem fanTris_sum_w (o : Pt α) (rest : List (Pt α)) :
    ((fanTris o rest).map (·.2)).sum = fan o rest / 2 := by
  induction rest with
  | nil => simp [fanTris, fan]
  | cons p t ih =>
    cases t with
    | nil => simp [fanTris, fan]
    | cons q t =>
      rw [fanTris, List.map_cons, List.sum_cons, ih, fan]
      ring

theorem fanTris_sum_x (o : Pt α) (rest : List (Pt α)) :
    ((fanTris o rest).map fun ta => ta.1.x * ta.2).sum = (fanX o rest + 3 * o.x * fan o rest) / 6 := by
  induction rest with
  | nil => simp [fanTris, fan, fanX]
  | cons p t ih =>
    cases t with
    | nil => simp [fanTris, fan, fanX]
    | cons q t =>
      rw [fanTris, List.map_cons, List.sum_cons, ih, fan, fanX]
      ring

theorem fanTris_sum_y (o : Pt α) (rest : List (Pt α)) :
    ((fanTris o rest).map fun ta => ta.1.y * ta.2).sum = (fanY o rest + 3 * o.y * fan o rest) / 6 := by
  induction rest with
  | nil => simp [fanTris, fan, fanY]
  | cons p t ih =>
    cases t with
    | nil => simp [fanTris, fan, fanY]
    | cons q t =>
      rw [fanTris, List.map_cons, List.sum_cons, ih, fan, fanY]
      ring

theorem centroid_is_weighted_mean' (o : Pt α) (rest : List (Pt α)) (hA : ringArea (o :: rest) ≠ 0) :
    ringArea (o :: rest) = ((fanTris o rest).map (·.2)).sum ∧
    (ringCentroidArea (o :: rest)).1.x = ((fanTris o rest).map fun ta => ta.1.x * ta.2).sum / ((fanTris o rest).map (·.2)).sum ∧
    (ringCentroidArea (o :: rest)).1.y = ((fanTris o rest).map fun ta => ta.1.y * ta.2).sum / ((fanTris o rest).map (·.2)).sum := by
  rw [ringArea_cons] at hA
  have hS : fan o rest ≠ 0 := by
    intro h; apply hA; rw [h, zero_div]
  rw [ringArea_cons, fanTris_sum_w, fanTris_sum_x, fanTris_sum_y, ringCentroidArea_cons, if_neg hS]
  refine ⟨rfl, ?_, ?_⟩
  · simp only []
    field_simp
    ring
  · simp only []
    field_simp
    ring

theorem polygon_centroid_weighted' (sqrt : α → α) (o : List (Pt α)) (hs : List (List (Pt α)))
    (hA : (polygonCentroidArea sqrt (o :: hs)).2 ≠ 0) :
    let w := |ringArea o| - (hs.map fun h => |ringArea h|).sum
    (polygonCentroidArea sqrt (o :: hs)).1.x =
      (|ringArea o| * (ringCentroidArea o).1.x - (hs.map fun h => (ringCentroidArea h).1.x * |ringArea h|).sum) / w ∧
    (polygonCentroidArea sqrt (o :: hs)).1.y =
      (|ringArea o| * (ringCentroidArea o).1.y - (hs.map fun h => (ringCentroidArea h).1.y * |ringArea h|).sum) / w := by
  rw [polygon_area_eq'] at hA
  intro w
  rw [polygonCentroidArea_cons, if_neg hA]
  exact ⟨rfl, rfl⟩

theorem multi_centroid_weighted' (sqrt : α → α) (mp : List (List (List (Pt α))))
    (hA : (multiPolygonCentroidArea sqrt mp).2 ≠ 0) :
    (multiPolygonCentroidArea sqrt mp).1.x =
      (mp.map fun p => (polygonCentroidArea sqrt p).1.x * (polygonCentroidArea sqrt p).2).sum /
        (mp.map fun p => (polygonCentroidArea sqrt p).2).sum ∧
    (multiPolygonCentroidArea sqrt mp).1.y =
      (mp.map fun p => (polygonCentroidArea sqrt p).1.y * (polygonCentroidArea sqrt p).2).sum /
        (mp.map fun p => (polygonCentroidArea sqrt p).2).sum := by
  rw [multi_area_sum'] at hA
  unfold multiPolygonCentroidArea
  rw [multi_foldl]
  simp only [zero_add, finishWeighted, beq_iff_eq, if_neg hA]
  exact ⟨trivial, trivial⟩

theorem mp_foldl (ps : List (Pt α)) (a b : α) :
    ps.foldl (fun (s : α × α) p => (s.1 + p.x, s.2 + p.y)) (a, b) =
      (a + (ps.map (·.x)).sum, b + (ps.map (·.y)).sum) := by
  induction ps generalizing a b with
  | nil => simp
  | cons p t ih =>
    rw [List.foldl_cons, ih]
    simp only [List.map_cons, List.sum_cons, Prod.mk.injEq]
    exact ⟨by ring, by ring⟩

theorem multiPoint_centroid_mean' (ps : List (Pt α)) (h : ps ≠ []) :
    multiPointCentroid ps = ⟨(ps.map (·.x)).sum / (ps.length : α), (ps.map (·.y)).sum / (ps.length : α)⟩ := by
  cases ps with
  | nil => exact absurd rfl h
  | cons p t =>
    simp only [multiPointCentroid]
    rw [mp_foldl]
    simp only [zero_add]

/-- squared-length-then-sqrt of a segment, as the spec writes it -/
def segLen (sqrt : α → α) (ab : Pt α × Pt α) : α :=
  sqrt ((ab.1.x - ab.2.x) * (ab.1.x - ab.2.x) + (ab.1.y - ab.2.y) * (ab.1.y - ab.2.y))

theorem lineCentroidLoop_eq (sqrt : α → α) (o a : Pt α) (t : List (Pt α)) (px py dist : α) :
    lineCentroidLoop sqrt o (a :: t) (px, py, dist) =
      (px + (((a :: t).zip t).map fun ab => ((ab.1.x + ab.2.x) / 2 - o.x) * segLen sqrt ab).sum,
       py + (((a :: t).zip t).map fun ab => ((ab.1.y + ab.2.y) / 2 - o.y) * segLen sqrt ab).sum,
       dist + (((a :: t).zip t).map (segLen sqrt)).sum) := by
  induction t generalizing a px py dist with
  | nil => simp [lineCentroidLoop]
  | cons b t ih =>
    rw [lineCentroidLoop, ih]
    have e : distance sqrt ⟨a.x - o.x, a.y - o.y⟩ ⟨b.x - o.x, b.y - o.y⟩ = segLen sqrt (a, b) := by
      simp only [distance, segLen]
      exact congrArg sqrt (by ring)
    simp only [e, List.zip_cons_cons, List.map_cons, List.sum_cons, Prod.mk.injEq]
    refine ⟨by ring, by ring, by ring⟩

theorem sum_shift {β : Type} (l : List β) (m w : β → α) (c : α) :
    (l.map fun b => (m b - c) * w b).sum = (l.map fun b => m b * w b).sum - c * (l.map w).sum := by
  induction l with
  | nil => simp
  | cons b t ih => simp only [List.map_cons, List.sum_cons, ih]; ring

theorem line_centroid_weighted' (sqrt : α → α) (o : Pt α) (rest : List (Pt α)) :
    let segs := (o :: rest).zip rest
    let len := fun (ab : Pt α × Pt α) => sqrt ((ab.1.x - ab.2.x) * (ab.1.x - ab.2.x) + (ab.1.y - ab.2.y) * (ab.1.y - ab.2.y))
    let L := (segs.map len).sum
    (L = 0 → lineStringCentroidDist sqrt (o :: rest) = some (o, 0)) ∧
    (L ≠ 0 → lineStringCentroidDist sqrt (o :: rest) =
      some (⟨(segs.map fun ab => (ab.1.x + ab.2.x) / 2 * len ab).sum / L, (segs.map fun ab => (ab.1.y + ab.2.y) / 2 * len ab).sum / L⟩, L)) := by
  intro segs len L
  have hlen : len = segLen sqrt := rfl
  have hL : L = (segs.map (segLen sqrt)).sum := rfl
  have hdef : lineStringCentroidDist sqrt (o :: rest) =
      if L = 0 then some (o, 0) else
        some (⟨((segs.map fun ab => (ab.1.x + ab.2.x) / 2 * len ab).sum - o.x * L) / L + o.x,
               ((segs.map fun ab => (ab.1.y + ab.2.y) / 2 * len ab).sum - o.y * L) / L + o.y⟩, L) := by
    simp only [lineStringCentroidDist, lineCentroidLoop_eq, zero_add, beq_iff_eq, sum_shift]
    rfl
  rw [hdef]
  refine ⟨fun h => by rw [if_pos h], fun h => ?_⟩
  rw [if_neg h]
  congr 2
  congr 1
  · field_simp; ring
  · field_simp; ring

theorem wmean_nonneg {β : Type} (l : List β) (t w : β → α) (lo hi : α)
    (hw : ∀ b ∈ l, 0 ≤ w b) (ht : ∀ b ∈ l, lo ≤ t b ∧ t b ≤ hi) :
    lo * (l.map w).sum ≤ (l.map fun b => t b * w b).sum ∧ (l.map fun b => t b * w b).sum ≤ hi * (l.map w).sum := by
  induction l with
  | nil => simp
  | cons b l ih =>
    obtain ⟨i1, i2⟩ := ih (fun b hb => hw b (List.mem_cons_of_mem _ hb)) (fun b hb => ht b (List.mem_cons_of_mem _ hb))
    have h0 := hw b (List.mem_cons_self ..)
    obtain ⟨h1, h2⟩ := ht b (List.mem_cons_self ..)
    simp only [List.map_cons, List.sum_cons, mul_add]
    exact ⟨add_le_add (mul_le_mul_of_nonneg_right h1 h0) i1, add_le_add (mul_le_mul_of_nonneg_right h2 h0) i2⟩

theorem wmean_nonpos {β : Type} (l : List β) (t w : β → α) (lo hi : α)
    (hw : ∀ b ∈ l, w b ≤ 0) (ht : ∀ b ∈ l, lo ≤ t b ∧ t b ≤ hi) :
    (l.map fun b => t b * w b).sum ≤ lo * (l.map w).sum ∧ hi * (l.map w).sum ≤ (l.map fun b => t b * w b).sum := by
  induction l with
  | nil => simp
  | cons b l ih =>
    obtain ⟨i1, i2⟩ := ih (fun b hb => hw b (List.mem_cons_of_mem _ hb)) (fun b hb => ht b (List.mem_cons_of_mem _ hb))
    have h0 := hw b (List.mem_cons_self ..)
    obtain ⟨h1, h2⟩ := ht b (List.mem_cons_self ..)
    simp only [List.map_cons, List.sum_cons, mul_add]
    exact ⟨add_le_add (mul_le_mul_of_nonpos_right h1 h0) i1, add_le_add (mul_le_mul_of_nonpos_right h2 h0) i2⟩

theorem sum_map_nonneg {β : Type} (l : List β) (w : β → α) (hw : ∀ b ∈ l, 0 ≤ w b) : 0 ≤ (l.map w).sum := by
  induction l with
  | nil => simp
  | cons b l ih =>
    rw [List.map_cons, List.sum_cons]
    exact add_nonneg (hw b (List.mem_cons_self ..)) (ih fun b hb => hw b (List.mem_cons_of_mem _ hb))

theorem sum_map_nonpos {β : Type} (l : List β) (w : β → α) (hw : ∀ b ∈ l, w b ≤ 0) : (l.map w).sum ≤ 0 := by
  induction l with
  | nil => simp
  | cons b l ih =>
    rw [List.map_cons, List.sum_cons]
    exact add_nonpos (hw b (List.mem_cons_self ..)) (ih fun b hb => hw b (List.mem_cons_of_mem _ hb))

theorem wmean_bound {β : Type} (l : List β) (t w : β → α) (lo hi : α)
    (hw : (∀ b ∈ l, 0 ≤ w b) ∨ (∀ b ∈ l, w b ≤ 0)) (ht : ∀ b ∈ l, lo ≤ t b ∧ t b ≤ hi)
    (hW : (l.map w).sum ≠ 0) :
    lo ≤ (l.map fun b => t b * w b).sum / (l.map w).sum ∧ (l.map fun b => t b * w b).sum / (l.map w).sum ≤ hi := by
  rcases hw with hw | hw
  · obtain ⟨i1, i2⟩ := wmean_nonneg l t w lo hi hw ht
    have hpos : 0 < (l.map w).sum := lt_of_le_of_ne (sum_map_nonneg l w hw) (Ne.symm hW)
    exact ⟨(le_div_iff₀ hpos).2 i1, (div_le_iff₀ hpos).2 i2⟩
  · obtain ⟨i1, i2⟩ := wmean_nonpos l t w lo hi hw ht
    have hneg : (l.map w).sum < 0 := lt_of_le_of_ne (sum_map_nonpos l w hw) hW
    exact ⟨(le_div_iff_of_neg hneg).2 i1, (div_le_iff_of_neg hneg).2 i2⟩

theorem mem_fanTris (o x : Pt α) (rest : List (Pt α)) (ta : Pt α × α) (h : ta ∈ fanTris o rest) :
    ∃ p q, (p, q) ∈ (x :: rest).zip rest ∧
      ta = (⟨(o.x + p.x + q.x) / 3, (o.y + p.y + q.y) / 3⟩, ((p.x - o.x) * (q.y - o.y) - (q.x - o.x) * (p.y - o.y)) / 2) := by
  induction rest generalizing x with
  | nil => simp [fanTris] at h
  | cons p t ih =>
    cases t with
    | nil => simp [fanTris] at h
    | cons q t =>
      rw [fanTris, List.mem_cons] at h
      rcases h with h | h
      · exact ⟨p, q, by simp, h⟩
      · obtain ⟨p', q', hm, e⟩ := ih p h
        exact ⟨p', q', by rw [List.zip_cons_cons]; exact List.mem_cons_of_mem _ hm, e⟩

theorem centroid_convex_in_bound_partial' (o : Pt α) (rest : List (Pt α)) (hA : ringArea (o :: rest) ≠ 0)
    (hs : (∀ ta ∈ fanTris o rest, 0 ≤ ta.2) ∨ (∀ ta ∈ fanTris o rest, ta.2 ≤ 0))
    (lx hx ly hy : α) (hb : ∀ v ∈ o :: rest, lx ≤ v.x ∧ v.x ≤ hx ∧ ly ≤ v.y ∧ v.y ≤ hy) :
    let c := (ringCentroidArea (o :: rest)).1
    lx ≤ c.x ∧ c.x ≤ hx ∧ ly ≤ c.y ∧ c.y ≤ hy := by
  intro c
  obtain ⟨e0, e1, e2⟩ := centroid_is_weighted_mean' o rest hA
  have hW : ((fanTris o rest).map (·.2)).sum ≠ 0 := by rw [← e0]; exact hA
  have h3 : (0 : α) < 3 := by norm_num
  have hbx : ∀ ta ∈ fanTris o rest, lx ≤ ta.1.x ∧ ta.1.x ≤ hx := by
    intro ta hta
    obtain ⟨p, q, hm, rfl⟩ := mem_fanTris o o rest ta hta
    obtain ⟨hp, hq⟩ := List.of_mem_zip hm
    have b0 := hb o (List.mem_cons_self ..)
    have b1 := hb p hp
    have b2 := hb q (List.mem_cons_of_mem _ hq)
    simp only []
    rw [le_div_iff₀ h3, div_le_iff₀ h3]
    constructor <;> linarith
  have hby : ∀ ta ∈ fanTris o rest, ly ≤ ta.1.y ∧ ta.1.y ≤ hy := by
    intro ta hta
    obtain ⟨p, q, hm, rfl⟩ := mem_fanTris o o rest ta hta
    obtain ⟨hp, hq⟩ := List.of_mem_zip hm
    have b0 := hb o (List.mem_cons_self ..)
    have b1 := hb p hp
    have b2 := hb q (List.mem_cons_of_mem _ hq)
    simp only []
    rw [le_div_iff₀ h3, div_le_iff₀ h3]
    constructor <;> linarith
  obtain ⟨x1, x2⟩ := wmean_bound (fanTris o rest) (fun ta => ta.1.x) (fun ta => ta.2) lx hx hs hbx hW
  obtain ⟨y1, y2⟩ := wmean_bound (fanTris o rest) (fun ta => ta.1.y) (fun ta => ta.2) ly hy hs hby hW
  show lx ≤ (ringCentroidArea (o :: rest)).1.x ∧ (ringCentroidArea (o :: rest)).1.x ≤ hx ∧
    ly ≤ (ringCentroidArea (o :: rest)).1.y ∧ (ringCentroidArea (o :: rest)).1.y ≤ hy
  rw [e1, e2]
  exact ⟨x1, x2, y1, y2⟩

theorem convex_fan_sign' (o : Pt α) (rest : List (Pt α)) (hc : ConvexRing (o :: rest)) :
    (∀ ta ∈ fanTris o rest, 0 ≤ ta.2) ∨ (∀ ta ∈ fanTris o rest, ta.2 ≤ 0) := by
  have key : ∀ ta ∈ fanTris o rest, ∃ e ∈ EvenOdd.edges (o :: rest), ta.2 = EvenOdd.cross e.1 e.2 o / 2 := by
    intro ta hta
    obtain ⟨p, q, hm, rfl⟩ := mem_fanTris o o rest ta hta
    refine ⟨(p, q), ?_, ?_⟩
    · simp only [EvenOdd.edges]
      exact List.mem_cons_of_mem _ hm
    · simp only [EvenOdd.cross]
      ring
  have h2 : (0 : α) < 2 := two_pos
  rcases hc with hc | hc
  · left
    intro ta hta
    obtain ⟨e, he, rfl'⟩ := key ta hta
    rw [rfl']
    exact div_nonneg (hc e he o (List.mem_cons_self ..)) h2.le
  · right
    intro ta hta
    obtain ⟨e, he, rfl'⟩ := key ta hta
    rw [rfl']
    exact div_nonpos_of_nonpos_of_nonneg (hc e he o (List.mem_cons_self ..)) h2.le

theorem collection_lowerdim_centroid_origin' (sqrt : α → α) (gs : List (Geom α)) (h : maxDim gs < 2) :
    centroidArea sqrt (.collection gs) = (⟨0, 0⟩, 0) := by
  have h0 : area sqrt (.collection gs) = 0 := by
    rw [collection_area_sum_topdim']
    apply sum_map_zero
    intro g hg
    have hg' := (List.mem_filter.1 hg).1
    apply area_lowerdim_zero'
    exact lt_of_le_of_lt (dimsMax_ge_mem gs _ g hg') h
  rw [area, centroidArea, finishWeighted_snd] at h0
  rw [centroidArea, finishWeighted, h0]
  simp

theorem collection_lines_witness' (sqrt : α → α) :
    centroidArea sqrt (.collection [.lineString [⟨0, 0⟩, ⟨2, 0⟩], .lineString [⟨0, 2⟩, ⟨2, 2⟩]]) = ((⟨0, 0⟩ : Pt α), 0) := by
  apply collection_lowerdim_centroid_origin'
  simp [maxDim, dimensions.dimsMax, dimensions]

/-- the loop of `multiLineStringCentroid`, accumulator generalised -/
theorem mls_foldl (sqrt : α → α) (mls : List (List (Pt α))) (s : MLSAcc α) :
    mls.foldl (mlsStep sqrt) s =
      { px := s.px + ((mls.filterMap (lineStringCentroidDist sqrt)).map fun cd => cd.1.x * cd.2).sum,
        py := s.py + ((mls.filterMap (lineStringCentroidDist sqrt)).map fun cd => cd.1.y * cd.2).sum,
        fx := s.fx + ((mls.filterMap (lineStringCentroidDist sqrt)).map (·.1.x)).sum,
        fy := s.fy + ((mls.filterMap (lineStringCentroidDist sqrt)).map (·.1.y)).sum,
        dist := s.dist + ((mls.filterMap (lineStringCentroidDist sqrt)).map (·.2)).sum,
        valid := s.valid + (mls.filterMap (lineStringCentroidDist sqrt)).length } := by
  induction mls generalizing s with
  | nil => simp
  | cons l t ih =>
    rw [List.foldl_cons, ih]
    cases h : lineStringCentroidDist sqrt l with
    | none => simp [mlsStep, h]
    | some cd =>
      obtain ⟨c, d⟩ := cd
      simp only [mlsStep, h, List.filterMap_cons, List.map_cons, List.sum_cons, List.length_cons]
      congr 1 <;> ring

theorem mls_centroid_weighted' (sqrt : α → α) (mls : List (List (Pt α))) :
    let vs := mls.filterMap (lineStringCentroidDist sqrt)
    let L := (vs.map (·.2)).sum
    (vs = [] → multiLineStringCentroid sqrt mls = ⟨0, 0⟩) ∧
    (vs ≠ [] → L ≠ 0 → multiLineStringCentroid sqrt mls =
      ⟨(vs.map fun cd => cd.1.x * cd.2).sum / L, (vs.map fun cd => cd.1.y * cd.2).sum / L⟩) ∧
    (vs ≠ [] → L = 0 → multiLineStringCentroid sqrt mls =
      ⟨(vs.map (·.1.x)).sum / (vs.length : α), (vs.map (·.1.y)).sum / (vs.length : α)⟩) := by
  intro vs L
  cases mls with
  | nil => simp [vs, multiLineStringCentroid]
  | cons l t =>
    have hf := mls_foldl sqrt (l :: t) ⟨0, 0, 0, 0, 0, 0⟩
    simp only [zero_add] at hf
    refine ⟨?_, ?_, ?_⟩
    · intro hv
      simp only [multiLineStringCentroid, hf]
      have : (List.filterMap (lineStringCentroidDist sqrt) (l :: t)).length = 0 := by
        change vs.length = 0; rw [hv]; rfl
      simp [this]
    · intro hv hL
      have hlen : ¬ (List.filterMap (lineStringCentroidDist sqrt) (l :: t)).length = 0 := by
        change ¬ vs.length = 0
        intro h; exact hv (List.length_eq_zero_iff.1 h)
      have hL' : ¬ ((List.filterMap (lineStringCentroidDist sqrt) (l :: t)).map (·.2)).sum = 0 := hL
      simp only [multiLineStringCentroid, hf, beq_iff_eq, hlen, hL', if_false]
      rfl
    · intro hv hL
      have hlen : ¬ (List.filterMap (lineStringCentroidDist sqrt) (l :: t)).length = 0 := by
        change ¬ vs.length = 0
        intro h; exact hv (List.length_eq_zero_iff.1 h)
      have hL' : ((List.filterMap (lineStringCentroidDist sqrt) (l :: t)).map (·.2)).sum = 0 := hL
      simp only [multiLineStringCentroid, hf, beq_iff_eq, hlen, hL', if_false, if_true]
      rfl

theorem mls_zero_length_line_example' (sqrt : α → α) (h0 : sqrt 0 = 0) (h4 : sqrt 4 = 2) :
    multiLineStringCentroid sqrt [[⟨0, 0⟩, ⟨2, 0⟩], [⟨10, 10⟩, ⟨10, 10⟩]] = (⟨1, 0⟩ : Pt α) := by
  have l1 := (line_centroid_weighted' sqrt (⟨0, 0⟩ : Pt α) [⟨2, 0⟩]).2
  have l2 := (line_centroid_weighted' sqrt (⟨10, 10⟩ : Pt α) [⟨10, 10⟩]).1
  have e4 : ((0 : α) - 2) * (0 - 2) + (0 - 0) * (0 - 0) = 4 := by norm_num
  have e0 : ((10 : α) - 10) * (10 - 10) + (10 - 10) * (10 - 10) = 0 := by norm_num
  simp only [List.zip_cons_cons, List.zip_nil_right, List.map_cons, List.map_nil, List.sum_cons, List.sum_nil,
    add_zero, e4, e0, h4, h0] at l1 l2
  have l1' := l1 two_ne_zero
  have l2' := l2 trivial
  simp only [multiLineStringCentroid, List.foldl_cons, List.foldl_nil, mlsStep, l1', l2']
  norm_num

end centroid

section convexfull
variable {α : Type} [Field α] [LinearOrder α] [IsStrictOrderedRing α]

theorem centroid_convex_in_bound' (r : List (Pt α)) (lx hx ly hy : α)
    (hc : ConvexRing r) (hA : ringArea r ≠ 0) (hb : ∀ v ∈ r, lx ≤ v.x ∧ v.x ≤ hx ∧ ly ≤ v.y ∧ v.y ≤ hy) :
    lx ≤ (ringCentroidArea r).1.x ∧ (ringCentroidArea r).1.x ≤ hx ∧ ly ≤ (ringCentroidArea r).1.y ∧ (ringCentroidArea r).1.y ≤ hy := by
  cases r with
  | nil => exact absurd ringArea_nil hA
  | cons o rest =>
    exact centroid_convex_in_bound_partial' o rest hA (convex_fan_sign' o rest hc) lx hx ly hy hb

end convexfull

end Orb.Planar
