import OrbProofs.C14DdaGeom
import Mathlib.Tactic
namespace Orb.TileCover
open Orb Orb.Tile
section dda
variable {K : Type} [Field K] [LinearOrder K] [IsStrictOrderedRing K] [FloorRing K]
set_option linter.unusedSectionVars false

/-!
  C14 lemmas, part 5: the per-segment DDA theorems lifted to the whole line string.
  `line` threads `prevX, prevY` (the last emitted cell) through the segments; the first cell of a
  segment is skipped when it equals that cell.  The invariant `PrevInv` says that the skipped cell is
  already in the set, so nothing is lost.
-/

/-- `prevX, prevY` are still the initial `-1, -1`, or they are an integer cell whose tile is in the set -/
def PrevInv (zoom : Nat) (s : LState K) : Prop :=
  (s.prevX = -1 ∧ s.prevY = -1) ∨
  ∃ z w : ℤ, s.prevX = (z : K) ∧ s.prevY = (w : K) ∧ (⟨z.toNat, w.toNat, zoom⟩ : Tile) ∈ s.set

/-- every tile the walk adds has zoom `zoom` -/
theorem walk_zoom (zoom : Nat) (sx sy tdx tdy : K) (s' : LState K) :
    ∀ (fuel : Nat) (tMX tMY : Option K) (s : LState K),
      walk (opsK K) zoom sx sy tdx tdy fuel tMX tMY s = some s' →
      ∀ c ∈ s'.set, c ∈ s.set ∨ c.z = zoom := by
  intro fuel
  induction fuel with
  | zero =>
    intro tMX tMY s hwalk c hc
    by_cases hcnd : (ltOne tMX || ltOne tMY) = true
    · simp [walk, hcnd] at hwalk
    · simp only [walk, hcnd] at hwalk
      have : s = s' := by simpa using hwalk
      subst this
      exact Or.inl hc
  | succ n ih =>
    intro tMX tMY s hwalk c hc
    by_cases hcnd : (ltOne tMX || ltOne tMY) = true
    · by_cases hl : ltInf tMX tMY = true
      · simp only [walk, hcnd, hl, if_true] at hwalk
        rcases ih _ _ _ hwalk c hc with h | h
        · rw [emit_set] at h
          rcases List.mem_cons.mp h with h | h
          · right; rw [h]
          · exact Or.inl h
        · exact Or.inr h
      · simp only [walk, hcnd, hl, if_true] at hwalk
        rcases ih _ _ _ hwalk c hc with h | h
        · rw [emit_set] at h
          rcases List.mem_cons.mp h with h | h
          · right; rw [h]
          · exact Or.inl h
        · exact Or.inr h
    · simp only [walk, hcnd] at hwalk
      have : s = s' := by simpa using hwalk
      subst this
      exact Or.inl hc

/-- during the walk `prevX, prevY` are the current cell and its tile is in the set -/
theorem walk_prev (zoom : Nat) (sx sy tdx tdy : K) (kx ky : ℤ) (hkx : sx = (kx : K)) (hky : sy = (ky : K))
    (s' : LState K) :
    ∀ (fuel : Nat) (tMX tMY : Option K) (s : LState K) (z w : ℤ),
      s.x = (z : K) → s.y = (w : K) → s.prevX = (z : K) → s.prevY = (w : K) →
      (⟨z.toNat, w.toNat, zoom⟩ : Tile) ∈ s.set →
      walk (opsK K) zoom sx sy tdx tdy fuel tMX tMY s = some s' →
      ∃ z' w' : ℤ, s'.prevX = (z' : K) ∧ s'.prevY = (w' : K) ∧
        (⟨z'.toNat, w'.toNat, zoom⟩ : Tile) ∈ s'.set := by
  intro fuel
  induction fuel with
  | zero =>
    intro tMX tMY s z w hx hy hpx hpy hmem hwalk
    by_cases hcnd : (ltOne tMX || ltOne tMY) = true
    · simp [walk, hcnd] at hwalk
    · simp only [walk, hcnd] at hwalk
      have : s = s' := by simpa using hwalk
      subst this
      exact ⟨z, w, hpx, hpy, hmem⟩
  | succ n ih =>
    intro tMX tMY s z w hx hy hpx hpy hmem hwalk
    by_cases hcnd : (ltOne tMX || ltOne tMY) = true
    · by_cases hl : ltInf tMX tMY = true
      · simp only [walk, hcnd, hl, if_true] at hwalk
        have e : s.x + sx = ((z + kx : ℤ) : K) := by rw [hx, hkx]; push_cast; rfl
        refine ih _ _ _ (z + kx) w ?_ ?_ ?_ ?_ ?_ hwalk
        · rw [emit_x]; exact e
        · rw [emit_y]; exact hy
        · show s.x + sx = _; exact e
        · show s.y = _; exact hy
        · rw [emit_set]
          show (⟨(z + kx).toNat, w.toNat, zoom⟩ : Tile) ∈
            (⟨⌊s.x + sx⌋.toNat, ⌊s.y⌋.toNat, zoom⟩ : Tile) :: s.set
          rw [e, hy, Int.floor_intCast, Int.floor_intCast]
          exact List.mem_cons_self
      · simp only [walk, hcnd, hl, if_true] at hwalk
        have e : s.y + sy = ((w + ky : ℤ) : K) := by rw [hy, hky]; push_cast; rfl
        refine ih _ _ _ z (w + ky) ?_ ?_ ?_ ?_ ?_ hwalk
        · rw [emit_x]; exact hx
        · rw [emit_y]; exact e
        · show s.x = _; exact hx
        · show s.y + sy = _; exact e
        · rw [emit_set]
          show (⟨z.toNat, (w + ky).toNat, zoom⟩ : Tile) ∈
            (⟨⌊s.x⌋.toNat, ⌊s.y + sy⌋.toNat, zoom⟩ : Tile) :: s.set
          rw [e, hx, Int.floor_intCast, Int.floor_intCast]
          exact List.mem_cons_self
    · simp only [walk, hcnd] at hwalk
      have : s = s' := by simpa using hwalk
      subst this
      exact ⟨z, w, hpx, hpy, hmem⟩

theorem sg0_int (a b : K) : ∃ k : ℤ, sg0 a b = (k : K) := by
  unfold sg0
  split
  · exact ⟨1, by simp⟩
  · exact ⟨-1, by simp⟩

/-- one segment of `line`, from any state that satisfies `PrevInv` -/
theorem segment_geo_gen (zoom fuel : Nat) (a b : Pt K) (s s' : LState K)
    (hax : 0 ≤ a.x) (hay : 0 ≤ a.y) (hbx : 0 ≤ b.x) (hby : 0 ≤ b.y)
    (hinv : PrevInv zoom s)
    (h : segment (opsK K) zoom fuel s a b = some s') :
    (∀ c ∈ s'.set, c ∈ s.set ∨ (c.z = zoom ∧ Meets a.x b.x a.y b.y c)) ∧
    (∀ c ∈ s.set, c ∈ s'.set) ∧
    (a ≠ b → ∀ (i j : Nat) (t : K), 0 ≤ t → t ≤ 1 →
      (i : K) < a.x + t * (b.x - a.x) → a.x + t * (b.x - a.x) < (i : K) + 1 →
      (j : K) < a.y + t * (b.y - a.y) → a.y + t * (b.y - a.y) < (j : K) + 1 →
      (⟨i, j, zoom⟩ : Tile) ∈ s'.set) ∧
    PrevInv zoom s' := by
  rw [segment_eq] at h
  by_cases hne : (b.y - a.y == 0 && b.x - a.x == 0) = true
  · simp only [hne, if_true, Option.some.injEq] at h
    subst h
    refine ⟨fun c hc => Or.inl hc, fun c hc => hc, ?_, hinv⟩
    intro hab
    exfalso
    simp only [Bool.and_eq_true, beq_iff_eq, sub_eq_zero] at hne
    apply hab
    cases a; cases b; simp_all
  · simp only [hne] at h
    have hfx : (0 : ℤ) ≤ ⌊a.x⌋ := Int.floor_nonneg.mpr hax
    have hfy : (0 : ℤ) ≤ ⌊a.y⌋ := Int.floor_nonneg.mpr hay
    have hx0 : InCl a.x b.x ⌊a.x⌋ 0 := by
      refine ⟨?_, ?_⟩
      · rw [zero_mul, add_zero]; exact Int.floor_le a.x
      · rw [zero_mul, add_zero]; exact (Int.lt_floor_add_one a.x).le
    have hy0 : InCl a.y b.y ⌊a.y⌋ 0 := by
      refine ⟨?_, ?_⟩
      · rw [zero_mul, add_zero]; exact Int.floor_le a.y
      · rw [zero_mul, add_zero]; exact (Int.lt_floor_add_one a.y).le
    -- the state at the start of the walk
    obtain ⟨s1, hs1, h1x, h1y, h1px, h1py, h1mem, h1sub, h1sup⟩ :
        ∃ s1 : LState K,
          s1 = (if !(((⌊a.x⌋ : ℤ) : K) == s.prevX) || !(((⌊a.y⌋ : ℤ) : K) == s.prevY) then
            LState.emit (opsK K) zoom { s with x := ((⌊a.x⌋ : ℤ) : K), y := ((⌊a.y⌋ : ℤ) : K) }
           else { s with x := ((⌊a.x⌋ : ℤ) : K), y := ((⌊a.y⌋ : ℤ) : K) }) ∧
          s1.x = ((⌊a.x⌋ : ℤ) : K) ∧ s1.y = ((⌊a.y⌋ : ℤ) : K) ∧
          s1.prevX = ((⌊a.x⌋ : ℤ) : K) ∧ s1.prevY = ((⌊a.y⌋ : ℤ) : K) ∧
          (⟨⌊a.x⌋.toNat, ⌊a.y⌋.toNat, zoom⟩ : Tile) ∈ s1.set ∧
          (∀ c ∈ s1.set, c ∈ s.set ∨ c = ⟨⌊a.x⌋.toNat, ⌊a.y⌋.toNat, zoom⟩) ∧
          (∀ c ∈ s.set, c ∈ s1.set) := by
      refine ⟨_, rfl, ?_⟩
      by_cases hcnd : (!(((⌊a.x⌋ : ℤ) : K) == s.prevX) || !(((⌊a.y⌋ : ℤ) : K) == s.prevY)) = true
      · simp only [hcnd, if_true]
        have hset : (LState.emit (opsK K) zoom
            { s with x := ((⌊a.x⌋ : ℤ) : K), y := ((⌊a.y⌋ : ℤ) : K) }).set =
            ⟨⌊a.x⌋.toNat, ⌊a.y⌋.toNat, zoom⟩ :: s.set := by
          rw [emit_set]
          show (⟨⌊((⌊a.x⌋ : ℤ) : K)⌋.toNat, ⌊((⌊a.y⌋ : ℤ) : K)⌋.toNat, zoom⟩ : Tile) :: s.set = _
          rw [Int.floor_intCast, Int.floor_intCast]
        refine ⟨rfl, rfl, rfl, rfl, ?_, ?_, ?_⟩
        · rw [hset]; exact List.mem_cons_self
        · intro c hc
          rw [hset] at hc
          rcases List.mem_cons.mp hc with h | h
          · exact Or.inr h
          · exact Or.inl h
        · intro c hc
          rw [hset]
          exact List.mem_cons_of_mem _ hc
      · have hcnd' := hcnd
        simp only [Bool.or_eq_true, Bool.not_eq_true', beq_eq_false_iff_ne, ne_eq, not_or,
          not_not] at hcnd'
        obtain ⟨e1, e2⟩ := hcnd'
        simp only [hcnd]
        have hmem : (⟨⌊a.x⌋.toNat, ⌊a.y⌋.toNat, zoom⟩ : Tile) ∈ s.set := by
          rcases hinv with ⟨p1, _⟩ | ⟨z, w, p1, p2, pm⟩
          · exfalso
            have : ((⌊a.x⌋ : ℤ) : K) = ((-1 : ℤ) : K) := by rw [e1, p1]; simp
            have := Int.cast_injective this
            omega
          · have q1 : ⌊a.x⌋ = z := Int.cast_injective (α := K) (by rw [e1, p1])
            have q2 : ⌊a.y⌋ = w := Int.cast_injective (α := K) (by rw [e2, p2])
            rw [q1, q2]; exact pm
        exact ⟨rfl, rfl, e1.symm, e2.symm, hmem, fun c hc => Or.inl hc, fun c hc => hc⟩
    rw [← hs1] at h
    obtain ⟨hA, hB, hC⟩ :=
      walk_geo zoom a.x b.x a.y b.y _ _ _ _ hax hbx hay hby s' fuel _ _ s1 ⌊a.x⌋ ⌊a.y⌋ 0
        (ax_init a.x b.x) (ax_init a.y b.y) h1x h1y
        le_rfl zero_le_one hx0 hy0 (ax_tM_nonneg (ax_init a.x b.x)) (ax_tM_nonneg (ax_init a.y b.y)) h
    have hZ := walk_zoom zoom _ _ _ _ s' fuel _ _ s1 h
    obtain ⟨kx, hkx⟩ := sg0_int a.x b.x
    obtain ⟨ky, hky⟩ := sg0_int a.y b.y
    obtain ⟨z', w', hp1, hp2, hpm⟩ :=
      walk_prev zoom _ _ _ _ kx ky hkx hky s' fuel _ _ s1 ⌊a.x⌋ ⌊a.y⌋ h1x h1y h1px h1py h1mem h
    refine ⟨?_, ?_, ?_, Or.inr ⟨z', w', hp1, hp2, hpm⟩⟩
    · intro c hc
      have first : c ∈ s1.set → c ∈ s.set ∨ (c.z = zoom ∧ Meets a.x b.x a.y b.y c) := by
        intro hc1
        rcases h1sub c hc1 with h' | h'
        · exact Or.inl h'
        · right
          rw [h']
          exact ⟨rfl, meets_of_inCl hfx hfy le_rfl zero_le_one hx0 hy0⟩
      rcases hA c hc with h' | h'
      · exact first h'
      · rcases hZ c hc with h'' | h''
        · exact first h''
        · exact Or.inr ⟨h'', h'⟩
    · intro c hc
      exact hB c (h1sup c hc)
    · intro _ i j t ht0 ht1 e1 e2 e3 e4
      exact hC h1mem i j t ht0 ht1 e1 e2 e3 e4

/-- the segment loop of `line`, from any state that satisfies `PrevInv` -/
theorem lineSegs_geo (zoom fuel : Nat) :
    ∀ (pts : List (Pt K)) (s s' : LState K), (∀ p ∈ pts, 0 ≤ p.x ∧ 0 ≤ p.y) → PrevInv zoom s →
      lineSegs (opsK K) zoom fuel s pts = some s' →
      (∀ c ∈ s'.set, c ∈ s.set ∨ (c.z = zoom ∧ ∃ e ∈ pts.zip (pts.drop 1),
        Meets e.1.x e.2.x e.1.y e.2.y c)) ∧
      (∀ c ∈ s.set, c ∈ s'.set) ∧
      (∀ e ∈ pts.zip (pts.drop 1), e.1 ≠ e.2 → ∀ (i j : Nat) (t : K), 0 ≤ t → t ≤ 1 →
        (i : K) < e.1.x + t * (e.2.x - e.1.x) → e.1.x + t * (e.2.x - e.1.x) < (i : K) + 1 →
        (j : K) < e.1.y + t * (e.2.y - e.1.y) → e.1.y + t * (e.2.y - e.1.y) < (j : K) + 1 →
        (⟨i, j, zoom⟩ : Tile) ∈ s'.set) := by
  intro pts
  induction pts with
  | nil =>
    intro s s' _ _ h
    simp only [lineSegs, Option.some.injEq] at h
    subst h
    exact ⟨fun c hc => Or.inl hc, fun c hc => hc, by simp⟩
  | cons a l ih =>
    cases l with
    | nil =>
      intro s s' _ _ h
      simp only [lineSegs, Option.some.injEq] at h
      subst h
      exact ⟨fun c hc => Or.inl hc, fun c hc => hc, by simp⟩
    | cons b l =>
      intro s s' hnn hinv h
      simp only [lineSegs] at h
      cases hseg : segment (opsK K) zoom fuel s a b with
      | none => rw [hseg] at h; simp at h
      | some s1 =>
        rw [hseg] at h
        simp only [Option.bind_some] at h
        have ha := hnn a (by simp)
        have hb := hnn b (by simp)
        obtain ⟨gA, gB, gC, gI⟩ := segment_geo_gen zoom fuel a b s s1 ha.1 ha.2 hb.1 hb.2 hinv hseg
        obtain ⟨iA, iB, iC⟩ := ih s1 s' (fun p hp => hnn p (List.mem_cons_of_mem _ hp)) gI h
        have hzip : (a :: b :: l).zip ((a :: b :: l).drop 1) = (a, b) :: (b :: l).zip ((b :: l).drop 1) := by
          simp
        rw [hzip]
        refine ⟨?_, ?_, ?_⟩
        · intro c hc
          rcases iA c hc with h' | ⟨hz, e, he, hm⟩
          · rcases gA c h' with h'' | ⟨hz, hm⟩
            · exact Or.inl h''
            · exact Or.inr ⟨hz, (a, b), List.mem_cons_self, hm⟩
          · exact Or.inr ⟨hz, e, List.mem_cons_of_mem _ he, hm⟩
        · intro c hc
          exact iB c (gB c hc)
        · intro e he hne i j t ht0 ht1 e1 e2 e3 e4
          rcases List.mem_cons.mp he with h' | h'
          · subst h'
            exact iB _ (gC hne i j t ht0 ht1 e1 e2 e3 e4)
          · exact iC e h' hne i j t ht0 ht1 e1 e2 e3 e4

/-- the set returned by `line` is the set of the final state of `lineSegs` -/
theorem line_ok_set (zoom fuel : Nat) (set : List Tile) (pts : List (Pt K))
    (ring : Option (List (Nat × Nat))) (r : List Tile × Option (List (Nat × Nat)))
    (h : line (opsK K) zoom fuel set pts ring = .ok r) :
    ∃ s, lineSegs (opsK K) zoom fuel ⟨set, ring, -1, -1, 0, 0⟩ pts = some s ∧ r.1 = s.set := by
  unfold line at h
  cases hl : lineSegs (opsK K) zoom fuel ⟨set, ring, -1, -1, 0, 0⟩ pts with
  | none => rw [hl] at h; simp at h
  | some s =>
    rw [hl] at h
    refine ⟨s, rfl, ?_⟩
    simp only at h
    split at h
    · cases h; rfl
    · split at h
      · cases h; rfl
      · split at h <;> (cases h; rfl)

/-- In exact arithmetic the cover of a line string is sound and complete segment by segment:
    every tile's closed square meets some segment, and every tile whose open square a
    non-degenerate segment enters is present. -/
theorem lineString_cover_exact' (frac : Pt K → Pt K) (zoom fuel : Nat) (ps : List (Pt K))
    (hnn : ∀ p ∈ ps, 0 ≤ (frac p).x ∧ 0 ≤ (frac p).y) (S : List Tile)
    (h : cover (opsK K) frac zoom fuel (.lineString ps) = .ok S) :
    (∀ c ∈ S, c.z = zoom ∧ ∃ e ∈ (ps.map frac).zip ((ps.map frac).drop 1), ∃ t : K, 0 ≤ t ∧ t ≤ 1 ∧
        (c.x : K) ≤ e.1.x + t * (e.2.x - e.1.x) ∧ e.1.x + t * (e.2.x - e.1.x) ≤ (c.x : K) + 1 ∧
        (c.y : K) ≤ e.1.y + t * (e.2.y - e.1.y) ∧ e.1.y + t * (e.2.y - e.1.y) ≤ (c.y : K) + 1) ∧
    (∀ e ∈ (ps.map frac).zip ((ps.map frac).drop 1), e.1 ≠ e.2 → ∀ (i j : Nat) (t : K), 0 ≤ t → t ≤ 1 →
        (i : K) < e.1.x + t * (e.2.x - e.1.x) → e.1.x + t * (e.2.x - e.1.x) < (i : K) + 1 →
        (j : K) < e.1.y + t * (e.2.y - e.1.y) → e.1.y + t * (e.2.y - e.1.y) < (j : K) + 1 →
        (⟨i, j, zoom⟩ : Tile) ∈ S) := by
  simp only [cover] at h
  cases hl : line (opsK K) zoom fuel [] (ps.map frac) none with
  | err e => rw [hl] at h; simp [Res.map] at h
  | panic w => rw [hl] at h; simp [Res.map] at h
  | ok r =>
    rw [hl] at h
    simp only [Res.map, Res.ok.injEq] at h
    obtain ⟨s, hs, hr⟩ := line_ok_set zoom fuel [] (ps.map frac) none r hl
    have hS : S = s.set := by rw [← h, hr]
    have hnn' : ∀ p ∈ ps.map frac, 0 ≤ p.x ∧ 0 ≤ p.y := by
      intro p hp
      obtain ⟨q, hq, rfl⟩ := List.mem_map.mp hp
      exact hnn q hq
    obtain ⟨A, _, C⟩ := lineSegs_geo zoom fuel (ps.map frac) ⟨[], none, -1, -1, 0, 0⟩ s hnn'
      (Or.inl ⟨rfl, rfl⟩) hs
    rw [hS]
    refine ⟨?_, C⟩
    intro c hc
    rcases A c hc with h' | ⟨hz, e, he, hm⟩
    · cases h'
    · exact ⟨hz, e, he, hm⟩

/-- the segment loop of `line` terminates when the fuel covers the longest segment -/
theorem lineSegs_term (zoom fuel : Nat) :
    ∀ (pts : List (Pt K)) (s : LState K),
      (∀ e ∈ pts.zip (pts.drop 1),
        (⌊e.2.x⌋ - ⌊e.1.x⌋).natAbs + (⌊e.2.y⌋ - ⌊e.1.y⌋).natAbs + 2 ≤ fuel) →
      (lineSegs (opsK K) zoom fuel s pts).isSome = true := by
  intro pts
  induction pts with
  | nil => intro s _; simp [lineSegs]
  | cons a l ih =>
    cases l with
    | nil => intro s _; simp [lineSegs]
    | cons b l =>
      intro s hf
      have hzip : (a :: b :: l).zip ((a :: b :: l).drop 1) = (a, b) :: (b :: l).zip ((b :: l).drop 1) := by
        simp
      rw [hzip] at hf
      have h1 := dda_terminates' zoom fuel a b s (hf (a, b) List.mem_cons_self)
      obtain ⟨s1, hs1⟩ := Option.isSome_iff_exists.mp h1
      simp only [lineSegs, hs1, Option.bind_some]
      exact ih s1 (fun e he => hf e (List.mem_cons_of_mem _ he))

/-- With fuel proportional to the longest segment (in tiles) the cover of a line string is defined. -/
theorem lineString_cover_ok' (frac : Pt K → Pt K) (zoom fuel : Nat) (ps : List (Pt K))
    (hf : ∀ e ∈ (ps.map frac).zip ((ps.map frac).drop 1),
      (⌊e.2.x⌋ - ⌊e.1.x⌋).natAbs + (⌊e.2.y⌋ - ⌊e.1.y⌋).natAbs + 2 ≤ fuel) :
    ∃ S, cover (opsK K) frac zoom fuel (.lineString ps) = .ok S := by
  obtain ⟨s, hs⟩ := Option.isSome_iff_exists.mp
    (lineSegs_term zoom fuel (ps.map frac) ⟨[], none, -1, -1, 0, 0⟩ hf)
  simp only [cover, line, hs]
  cases hr : s.ring with
  | none => exact ⟨_, rfl⟩
  | some r =>
    simp only []
    cases hh : r.head? with
    | none => exact ⟨_, rfl⟩
    | some first =>
      simp only []
      split <;> exact ⟨_, rfl⟩

end dda
end Orb.TileCover

