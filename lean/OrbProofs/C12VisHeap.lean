/-
  C12 lemmas: the hand-rolled min-heap of visvalingam.go (`up`, `down`, `Push`, `Pop`, `Update`).
  Interface used by OrbProofs/C12Vis.lean:
  * for ARBITRARY arithmetic (no order laws): the index invariant `HeapIdx`, the heap contents as a
    permutation, and the frame (links, point indices and — except for `Update` — areas untouched);
  * over a linear order: the ordering invariant `HeapOrd` and pop-min.
-/
import OrbProofs.C12Basic
import Mathlib.Data.List.Nodup
import Mathlib.Data.List.Perm.Basic

namespace Orb.Simplify
open Orb

attribute [-simp] Array.getD_eq_getD_getElem?

/-- heap operations leave the item count, the links and the point indices alone -/
def Frame {α : Type} (st st' : VS α) : Prop :=
  st'.items.size = st.items.size ∧
  ∀ j, (st'.get j).next = (st.get j).next ∧ (st'.get j).prev = (st.get j).prev ∧
    (st'.get j).pointIndex = (st.get j).pointIndex


/-! ### structural API -/

namespace VH
section api
variable {α : Type}

theorem get_modify (st : VS α) (id k : Nat) (f : VItem α → VItem α) :
    (st.modify id f).get k = if k = id ∧ id < st.items.size then f (st.get k) else st.get k := by
  unfold VS.get VS.modify
  simp only [Array.getD_eq_getD_getElem?, Array.getElem?_modify]
  by_cases h : id = k
  · subst h
    by_cases h2 : id < st.items.size
    · simp [h2]
    · simp [h2]
  · have : ¬ k = id := fun e => h e.symm
    simp [h, this]

@[simp] theorem modify_heap (st : VS α) (id : Nat) (f : VItem α → VItem α) : (st.modify id f).heap = st.heap := rfl
@[simp] theorem setIndex_heap (st : VS α) (id i : Nat) : (st.setIndex id i).heap = st.heap := rfl
@[simp] theorem setHeap_items (st : VS α) (id i : Nat) : (st.setHeap i id).items = st.items := rfl
@[simp] theorem setHeap_get (st : VS α) (id i k : Nat) : (st.setHeap i id).get k = st.get k := rfl
@[simp] theorem setHeap_area (st : VS α) (id i k : Nat) : (st.setHeap i id).area k = st.area k := rfl
@[simp] theorem modify_items_size (st : VS α) (id : Nat) (f : VItem α → VItem α) :
    (st.modify id f).items.size = st.items.size := by simp [VS.modify]
@[simp] theorem setIndex_items_size (st : VS α) (id i : Nat) : (st.setIndex id i).items.size = st.items.size := by
  simp [VS.setIndex]
@[simp] theorem setHeap_heap_size (st : VS α) (id i : Nat) : (st.setHeap i id).heap.size = st.heap.size := by
  simp [VS.setHeap]
theorem setHeap_heap_getD (st : VS α) (id i k : Nat) :
    (st.setHeap i id).heap.getD k 0 = if k = i ∧ i < st.heap.size then id else st.heap.getD k 0 := by
  simp only [VS.setHeap, Array.getD_eq_getD_getElem?, Array.getElem?_setIfInBounds]
  by_cases h : i = k
  · subst h
    by_cases h2 : i < st.heap.size <;> simp [h2]
  · have : ¬ k = i := fun e => h e.symm
    simp [h, this]

theorem get_setIndex (st : VS α) (id i k : Nat) :
    (st.setIndex id i).get k = if k = id ∧ id < st.items.size then { st.get k with index := i } else st.get k := by
  simp [VS.setIndex, get_modify]

theorem mem_heap_iff (st : VS α) (x : Nat) : x ∈ st.heap.toList ↔ ∃ k, k < st.heap.size ∧ st.heap.getD k 0 = x := by
  rw [Array.mem_toList_iff, Array.mem_iff_getElem]
  constructor
  · rintro ⟨i, h, e⟩; exact ⟨i, h, by simp [Array.getD, h, e]⟩
  · rintro ⟨i, h, e⟩; exact ⟨i, h, by simpa [Array.getD, h] using e⟩

theorem heapIdx_inj {st : VS α} (h : HeapIdx st) {i j : Nat} (hi : i < st.heap.size) (hj : j < st.heap.size)
    (e : st.heap.getD i 0 = st.heap.getD j 0) : i = j := by
  have := (h i hi).2; rw [e, (h j hj).2] at this; exact this.symm

theorem heapIdx_nodup {st : VS α} (h : HeapIdx st) : st.heap.toList.Nodup := by
  rw [List.nodup_iff_injective_get]
  intro a b e
  apply Fin.ext
  have ha : a.1 < st.heap.size := by simp
  have hb : b.1 < st.heap.size := by simp
  apply heapIdx_inj h ha hb
  simpa [Array.getD, ha, hb] using e


def sw (st : VS α) (i j a b : Nat) : VS α := (((st.setIndex b i).setHeap i b).setIndex a j).setHeap j a

theorem sw_heap_size (st : VS α) (i j a b : Nat) : (sw st i j a b).heap.size = st.heap.size := by
  simp [sw]

theorem sw_items_size (st : VS α) (i j a b : Nat) : (sw st i j a b).items.size = st.items.size := by
  simp [sw]

theorem sw_heap_getD (st : VS α) (i j a b k : Nat) (hi : i < st.heap.size) (hj : j < st.heap.size) :
    (sw st i j a b).heap.getD k 0 = if k = j then a else if k = i then b else st.heap.getD k 0 := by
  simp [sw, setHeap_heap_getD, hi, hj]

theorem sw_get (st : VS α) (i j a b k : Nat) :
    ((sw st i j a b).get k).area = (st.get k).area ∧ ((sw st i j a b).get k).next = (st.get k).next ∧
    ((sw st i j a b).get k).prev = (st.get k).prev ∧ ((sw st i j a b).get k).pointIndex = (st.get k).pointIndex := by
  simp only [sw, setHeap_get, get_setIndex, setHeap_items, setIndex_items_size]
  split_ifs <;> simp

theorem sw_get_index (st : VS α) (i j a b k : Nat) (ha : a < st.items.size) (hb : b < st.items.size) :
    ((sw st i j a b).get k).index = if k = a then j else if k = b then i else (st.get k).index := by
  simp only [sw, setHeap_get, get_setIndex, setHeap_items, setIndex_items_size]
  split_ifs <;> simp_all

/-- what the structural lemmas say about a heap operation -/
structure Rel (st st' : VS α) : Prop where
  idx : HeapIdx st'
  perm : st'.heap.toList.Perm st.heap.toList
  frame : Frame st st'
  area : ∀ j, st'.area j = st.area j

theorem frame_refl (st : VS α) : Frame st st := ⟨rfl, fun _ => ⟨rfl, rfl, rfl⟩⟩
theorem frame_trans {a b c : VS α} (h1 : Frame a b) (h2 : Frame b c) : Frame a c := by
  refine ⟨h2.1.trans h1.1, fun j => ?_⟩
  obtain ⟨x1, x2, x3⟩ := h1.2 j
  obtain ⟨y1, y2, y3⟩ := h2.2 j
  exact ⟨y1.trans x1, y2.trans x2, y3.trans x3⟩

theorem Rel.refl {st : VS α} (h : HeapIdx st) : Rel st st := ⟨h, List.Perm.refl _, frame_refl _, fun _ => rfl⟩
theorem Rel.trans {a b c : VS α} (h1 : Rel a b) (h2 : Rel b c) : Rel a c :=
  ⟨h2.idx, h2.perm.trans h1.perm, frame_trans h1.frame h2.frame, fun j => (h2.area j).trans (h1.area j)⟩

theorem perm_of_idx {st st' : VS α} (h : HeapIdx st) (h' : HeapIdx st')
    (hm : ∀ x, (∃ k, k < st'.heap.size ∧ st'.heap.getD k 0 = x) ↔ (∃ k, k < st.heap.size ∧ st.heap.getD k 0 = x)) :
    st'.heap.toList.Perm st.heap.toList := by
  rw [List.perm_ext_iff_of_nodup (heapIdx_nodup h') (heapIdx_nodup h)]
  intro x; rw [mem_heap_iff, mem_heap_iff]; exact hm x

theorem sw_rel {st : VS α} {i j a b : Nat} (h : HeapIdx st) (hi : i < st.heap.size) (hj : j < st.heap.size)
    (hij : i ≠ j) (ha : st.heap.getD i 0 = a) (hb : st.heap.getD j 0 = b) : Rel st (sw st i j a b) := by
  have hab : a ≠ b := by
    intro e; apply hij; apply heapIdx_inj h hi hj; rw [ha, hb, e]
  have ha' : a < st.items.size := ha ▸ (h i hi).1
  have hb' : b < st.items.size := hb ▸ (h j hj).1
  have hidx : HeapIdx (sw st i j a b) := by
    intro k hk
    rw [sw_heap_size] at hk
    rw [sw_heap_getD _ _ _ _ _ _ hi hj, sw_items_size]
    by_cases h1 : k = j
    · subst h1; simp [ha', sw_get_index, hb']
    · by_cases h2 : k = i
      · subst h2; simp [h1, hb', sw_get_index, ha', hab.symm]
      · simp only [h1, h2, if_false]
        refine ⟨(h k hk).1, ?_⟩
        rw [sw_get_index _ _ _ _ _ _ ha' hb']
        have n1 : st.heap.getD k 0 ≠ a := fun e => h2 (heapIdx_inj h hk hi (e.trans ha.symm))
        have n2 : st.heap.getD k 0 ≠ b := fun e => h1 (heapIdx_inj h hk hj (e.trans hb.symm))
        simp [n1, n2, (h k hk).2]
  refine ⟨hidx, perm_of_idx h hidx ?_, ⟨sw_items_size .., fun k => ?_⟩, fun k => ?_⟩
  · intro x
    rw [sw_heap_size]
    constructor
    · rintro ⟨k, hk, e⟩
      rw [sw_heap_getD _ _ _ _ _ _ hi hj] at e
      by_cases h1 : k = j
      · exact ⟨i, hi, by simp_all⟩
      · by_cases h2 : k = i
        · exact ⟨j, hj, by simp_all⟩
        · exact ⟨k, hk, by simp_all⟩
    · rintro ⟨k, hk, e⟩
      by_cases h1 : k = j
      · exact ⟨i, hi, by rw [sw_heap_getD _ _ _ _ _ _ hi hj]; simp_all⟩
      · by_cases h2 : k = i
        · exact ⟨j, hj, by rw [sw_heap_getD _ _ _ _ _ _ hi hj]; simp_all⟩
        · exact ⟨k, hk, by rw [sw_heap_getD _ _ _ _ _ _ hi hj]; simp_all⟩
  · have := sw_get st i j a b k; exact ⟨this.2.1, this.2.2.1, this.2.2.2⟩
  · exact (sw_get st i j a b k).1

section loops
variable [LT α] [LE α] [DecidableLT α] [DecidableLE α]
set_option linter.unusedSectionVars false

theorem upLoop_succ (obj fuel i : Nat) (st : VS α) :
    upLoop obj (fuel + 1) i st =
      if i = 0 then st else
      if aLe (st.area (st.heap.getD (((i + 1) >>> 1) - 1) 0)) (st.area obj) then st
      else upLoop obj fuel (((i + 1) >>> 1) - 1)
        (sw st i (((i + 1) >>> 1) - 1) obj (st.heap.getD (((i + 1) >>> 1) - 1) 0)) := rfl

/-- the child selection of `minHeap.down` -/
def dcOf (st : VS α) (i : Nat) : Nat × Nat :=
  let right := (i + 1) <<< 1
  let left := right - 1
  let child := st.heap.getD i 0
  let dc : Nat × Nat :=
    if left < st.heap.size && aLt (st.area (st.heap.getD left 0)) (st.area child) then (left, st.heap.getD left 0)
    else (i, child)
  if right < st.heap.size && aLt (st.area (st.heap.getD right 0)) (st.area dc.2) then (right, st.heap.getD right 0)
  else dc

theorem downLoop_succ (obj fuel i : Nat) (st : VS α) :
    downLoop obj (fuel + 1) i st =
      if (dcOf st i).1 = i then st
      else downLoop obj fuel (dcOf st i).1 (sw st i (dcOf st i).1 obj (dcOf st i).2) := rfl

theorem par_eq (i : Nat) : ((i + 1) >>> 1) - 1 = (i + 1) / 2 - 1 := by
  rw [Nat.shiftRight_eq_div_pow]

theorem dcOf_snd (st : VS α) (i : Nat) : (dcOf st i).2 = st.heap.getD (dcOf st i).1 0 := by
  unfold dcOf; dsimp only; split_ifs <;> rfl

theorem dcOf_fst (st : VS α) (i : Nat) :
    (dcOf st i).1 = i ∨ ((dcOf st i).1 < st.heap.size ∧ ((dcOf st i).1 = 2 * i + 1 ∨ (dcOf st i).1 = 2 * i + 2)) := by
  unfold dcOf; simp only [Nat.shiftLeft_eq, Bool.and_eq_true, decide_eq_true_eq]
  split_ifs with h1 h2 h2
  · right; exact ⟨h2.1, by dsimp only; omega⟩
  · right; exact ⟨h1.1, by dsimp only; omega⟩
  · right; exact ⟨h2.1, by dsimp only; omega⟩
  · left; rfl

theorem upLoop_rel (obj fuel : Nat) : ∀ (i : Nat) (st : VS α), HeapIdx st → i < st.heap.size →
    st.heap.getD i 0 = obj → Rel st (upLoop obj fuel i st) := by
  induction fuel with
  | zero => intro i st h _ _; exact Rel.refl h
  | succ n ih =>
    intro i st h hi ho
    rw [upLoop_succ]
    split_ifs with h0 h1
    · exact Rel.refl h
    · exact Rel.refl h
    · have hup : ((i + 1) >>> 1) - 1 < st.heap.size := by rw [par_eq]; omega
      have hne : i ≠ ((i + 1) >>> 1) - 1 := by rw [par_eq]; omega
      have r := sw_rel h hi hup hne ho rfl
      refine r.trans (ih _ _ r.idx (by rw [sw_heap_size]; exact hup) ?_)
      rw [sw_heap_getD _ _ _ _ _ _ hi hup]; simp

theorem downLoop_rel (obj fuel : Nat) : ∀ (i : Nat) (st : VS α), HeapIdx st → i < st.heap.size →
    st.heap.getD i 0 = obj → Rel st (downLoop obj fuel i st) := by
  induction fuel with
  | zero => intro i st h _ _; exact Rel.refl h
  | succ n ih =>
    intro i st h hi ho
    rw [downLoop_succ]
    split_ifs with h0
    · exact Rel.refl h
    · have hd : (dcOf st i).1 < st.heap.size := by
        rcases dcOf_fst st i with e | e
        · exact absurd e h0
        · exact e.1
      have r := sw_rel h hi hd (Ne.symm h0) ho (dcOf_snd st i).symm
      refine r.trans (ih _ _ r.idx (by rw [sw_heap_size]; exact hd) ?_)
      rw [sw_heap_getD _ _ _ _ _ _ hi hd]; simp

theorem up_rel (st : VS α) (i : Nat) (h : HeapIdx st) (hi : i < st.heap.size) : Rel st (up st i) :=
  upLoop_rel _ _ i st h hi rfl

theorem down_rel (st : VS α) (i : Nat) (h : HeapIdx st) (hi : i < st.heap.size) : Rel st (down st i) :=
  downLoop_rel _ _ i st h hi rfl

end loops

theorem getD_push (a : Array Nat) (x k : Nat) : (a.push x).getD k 0 = if k = a.size then x else a.getD k 0 := by
  simp only [Array.getD_eq_getD_getElem?, Array.getElem?_push]; split_ifs <;> simp

theorem getD_pop (a : Array Nat) (k : Nat) (hk : k < a.size - 1) : a.pop.getD k 0 = a.getD k 0 := by
  simp only [Array.getD_eq_getD_getElem?, Array.getElem?_pop, hk, if_true]

theorem area_modify_index (st : VS α) (id i k : Nat) : (st.setIndex id i).area k = st.area k := by
  simp only [VS.area, get_setIndex]; split_ifs <;> rfl

section anyArithmetic
variable [LT α] [LE α] [DecidableLT α] [DecidableLE α]

theorem push_idx' (st : VS α) (id : Nat) (h : HeapIdx st) (hid : id < st.items.size) (hnew : id ∉ st.heap.toList) :
    HeapIdx (push st id) ∧ (push st id).heap.toList.Perm (id :: st.heap.toList) ∧ Frame st (push st id) ∧
      ∀ j, (push st id).area j = st.area j := by
  let st1 : VS α := { st.setIndex id st.heap.size with heap := st.heap.push id }
  have hpush : push st id = up st1 (st1.get id).index := rfl
  have hget : ∀ k, st1.get k = if k = id then { st.get k with index := st.heap.size } else st.get k := by
    intro k; show (st.setIndex id st.heap.size).get k = _; rw [get_setIndex]; simp [hid]
  have hheap : st1.heap = st.heap.push id := rfl
  have hisz : st1.items.size = st.items.size := setIndex_items_size ..
  have hsize : st1.heap.size = st.heap.size + 1 := by rw [hheap]; simp
  have hidx1 : HeapIdx st1 := by
    intro k hk
    rw [hheap, getD_push, hisz]
    by_cases hks : k = st.heap.size
    · simp [hks, hget, hid]
    · have hk' : k < st.heap.size := by omega
      have : st.heap.getD k 0 ≠ id := fun e => hnew ((mem_heap_iff _ _).2 ⟨k, hk', e⟩)
      simp [hks, hget, this, h k hk']
  have hpos : (st1.get id).index = st.heap.size := by simp [hget]
  have r := up_rel st1 (st1.get id).index hidx1 (by rw [hpos, hsize]; omega)
  rw [hpush]
  refine ⟨r.idx, r.perm.trans ?_, frame_trans ⟨hisz, fun k => ?_⟩ r.frame, fun k => (r.area k).trans ?_⟩
  · rw [hheap]; simp [List.perm_append_singleton]
  · rw [hget]; split_ifs <;> simp
  · exact area_modify_index ..

end anyArithmetic

theorem perm_cons_of_idx {st st' : VS α} {r : Nat} (h : HeapIdx st) (h' : HeapIdx st')
    (hr : ¬ ∃ k, k < st'.heap.size ∧ st'.heap.getD k 0 = r)
    (hm : ∀ x, (∃ k, k < st.heap.size ∧ st.heap.getD k 0 = x) ↔
      (x = r ∨ ∃ k, k < st'.heap.size ∧ st'.heap.getD k 0 = x)) :
    st.heap.toList.Perm (r :: st'.heap.toList) := by
  rw [List.perm_ext_iff_of_nodup (heapIdx_nodup h) (List.nodup_cons.2 ⟨by rwa [mem_heap_iff], heapIdx_nodup h'⟩)]
  intro x; rw [List.mem_cons, mem_heap_iff, mem_heap_iff]; exact hm x

section anyArithmetic2
variable [LT α] [LE α] [DecidableLT α] [DecidableLE α]
set_option linter.unusedSectionVars false

/-- the state `Pop` hands to `down` -/
def popSt (st : VS α) : VS α :=
  ((({ st with heap := st.heap.pop } : VS α).setIndex (st.heap.getD (st.heap.size - 1) 0) 0).setHeap 0
    (st.heap.getD (st.heap.size - 1) 0))

theorem pop_eq_of_one (st : VS α) (h1 : st.heap.size = 1) :
    pop st = (st.heap.getD 0 0, { st with heap := st.heap.pop }) := by
  unfold pop; simp [h1]

theorem pop_eq_of_gt (st : VS α) (h1 : 1 < st.heap.size) :
    pop st = (st.heap.getD 0 0, down (popSt st) 0) := by
  unfold pop popSt
  have : 0 < st.heap.size - 1 := by omega
  simp [this]

theorem popSt_heap_size (st : VS α) : (popSt st).heap.size = st.heap.size - 1 := by simp [popSt]
theorem popSt_items_size (st : VS α) : (popSt st).items.size = st.items.size := by simp [popSt]
theorem popSt_heap_getD (st : VS α) (k : Nat) (hk : k < st.heap.size - 1) :
    (popSt st).heap.getD k 0 = if k = 0 then st.heap.getD (st.heap.size - 1) 0 else st.heap.getD k 0 := by
  have h0 : 0 < st.heap.size - 1 := by omega
  simp only [popSt, setHeap_heap_getD, setIndex_heap, Array.size_pop, h0, and_true]
  split_ifs
  · rfl
  · exact getD_pop _ _ hk
theorem popSt_get (st : VS α) (k : Nat) :
    (popSt st).get k = if k = st.heap.getD (st.heap.size - 1) 0 ∧ st.heap.getD (st.heap.size - 1) 0 < st.items.size
      then { st.get k with index := 0 } else st.get k := by
  simp only [popSt, setHeap_get, get_setIndex]; rfl

theorem popSt_idx (st : VS α) (h : HeapIdx st) (h1 : 1 < st.heap.size) : HeapIdx (popSt st) := by
  have hl := h (st.heap.size - 1) (by omega)
  intro k hk
  rw [popSt_heap_size] at hk
  rw [popSt_heap_getD _ _ hk, popSt_items_size, popSt_get]
  by_cases h0 : k = 0
  · simp [h0, hl.1]
  · have hk' : k < st.heap.size := by omega
    have : st.heap.getD k 0 ≠ st.heap.getD (st.heap.size - 1) 0 := fun e => by
      have := heapIdx_inj h hk' (by omega) e; omega
    simp [h0, this, h k hk']

theorem pop_idx' (st : VS α) (h : HeapIdx st) (hne : 0 < st.heap.size) :
    HeapIdx (pop st).2 ∧ st.heap.toList.Perm ((pop st).1 :: (pop st).2.heap.toList) ∧ Frame st (pop st).2 ∧
      ∀ j, (pop st).2.area j = st.area j := by
  by_cases h1 : st.heap.size = 1
  · rw [pop_eq_of_one st h1]
    show HeapIdx ({ st with heap := st.heap.pop } : VS α) ∧
      st.heap.toList.Perm (st.heap.getD 0 0 :: ({ st with heap := st.heap.pop } : VS α).heap.toList) ∧
      Frame st ({ st with heap := st.heap.pop } : VS α) ∧
      ∀ j, ({ st with heap := st.heap.pop } : VS α).area j = st.area j
    have hidx : HeapIdx ({ st with heap := st.heap.pop } : VS α) := by
      intro k hk; simp [h1] at hk
    refine ⟨hidx, perm_cons_of_idx h hidx ?_ ?_, frame_refl _, fun _ => rfl⟩
    · rintro ⟨k, hk, _⟩; simp [h1] at hk
    · intro x
      constructor
      · rintro ⟨k, hk, e⟩
        have : k = 0 := by omega
        subst this; exact Or.inl e.symm
      · rintro (e | ⟨k, hk, _⟩)
        · exact ⟨0, hne, e.symm⟩
        · simp [h1] at hk
  · have h1 : 1 < st.heap.size := by omega
    rw [pop_eq_of_gt st h1]
    show HeapIdx (down (popSt st) 0) ∧
      st.heap.toList.Perm (st.heap.getD 0 0 :: (down (popSt st) 0).heap.toList) ∧
      Frame st (down (popSt st) 0) ∧ ∀ j, (down (popSt st) 0).area j = st.area j
    have hidx := popSt_idx st h h1
    have r := down_rel (popSt st) 0 hidx (by rw [popSt_heap_size]; omega)
    have hfr : Frame st (popSt st) := by
      refine ⟨popSt_items_size st, fun k => ?_⟩
      rw [popSt_get]; split_ifs <;> simp
    have har : ∀ k, (popSt st).area k = st.area k := by
      intro k; simp only [VS.area, popSt_get]; split_ifs <;> rfl
    refine ⟨r.idx, ?_, frame_trans hfr r.frame, fun k => (r.area k).trans (har k)⟩
    refine List.Perm.trans ?_ (List.Perm.cons _ r.perm.symm)
    refine perm_cons_of_idx h hidx ?_ ?_
    · rintro ⟨k, hk, e⟩
      rw [popSt_heap_size] at hk
      rw [popSt_heap_getD _ _ hk] at e
      by_cases h0 : k = 0
      · rw [if_pos h0] at e
        have := heapIdx_inj h (i := st.heap.size - 1) (j := 0) (by omega) hne e; omega
      · rw [if_neg h0] at e
        have := heapIdx_inj h (i := k) (j := 0) (by omega) hne e; omega
    · intro x
      rw [popSt_heap_size]
      constructor
      · rintro ⟨k, hk, e⟩
        by_cases h0 : k = 0
        · left; rw [← e, h0]
        · by_cases hl : k = st.heap.size - 1
          · right; refine ⟨0, by omega, ?_⟩
            rw [popSt_heap_getD _ _ (by omega), if_pos rfl, ← hl, e]
          · right; refine ⟨k, by omega, ?_⟩
            rw [popSt_heap_getD _ _ (by omega), if_neg h0, e]
      · rintro (e | ⟨k, hk, e⟩)
        · exact ⟨0, hne, e.symm⟩
        · rw [popSt_heap_getD _ _ hk] at e
          by_cases h0 : k = 0
          · rw [if_pos h0] at e; exact ⟨_, by omega, e⟩
          · rw [if_neg h0] at e; exact ⟨k, by omega, e⟩

end anyArithmetic2

section anyArithmetic3
variable [LT α] [LE α] [DecidableLT α] [DecidableLE α]
set_option linter.unusedSectionVars false

/-- the state `Update` hands to `up`/`down` -/
def updSt (st : VS α) (id : Nat) (a : Option α) : VS α := st.modify id fun it => { it with area := a }

theorem update_eq (st : VS α) (id : Nat) (a : Option α) :
    update st id a = if aLt a (st.area id) then up (updSt st id a) ((updSt st id a).get id).index
      else down (updSt st id a) ((updSt st id a).get id).index := rfl

theorem updSt_get (st : VS α) (id : Nat) (a : Option α) (k : Nat) :
    (updSt st id a).get k = if k = id ∧ id < st.items.size then { st.get k with area := a } else st.get k :=
  get_modify ..

theorem updSt_index (st : VS α) (id : Nat) (a : Option α) (k : Nat) :
    ((updSt st id a).get k).index = (st.get k).index := by
  rw [updSt_get]; split_ifs <;> rfl

theorem updSt_heap (st : VS α) (id : Nat) (a : Option α) : (updSt st id a).heap = st.heap := rfl

theorem updSt_idx (st : VS α) (id : Nat) (a : Option α) (h : HeapIdx st) : HeapIdx (updSt st id a) := by
  intro k hk
  rw [updSt_heap] at hk ⊢
  rw [updSt_index]
  exact ⟨by simpa [updSt] using (h k hk).1, (h k hk).2⟩

theorem updSt_frame (st : VS α) (id : Nat) (a : Option α) : Frame st (updSt st id a) := by
  refine ⟨by simp [updSt], fun k => ?_⟩
  rw [updSt_get]; split_ifs <;> simp

theorem updSt_area (st : VS α) (id : Nat) (a : Option α) (k : Nat) (hid : id < st.items.size) :
    (updSt st id a).area k = if k = id then a else st.area k := by
  simp only [VS.area, updSt_get, hid, and_true]; split_ifs <;> rfl

theorem update_idx' (st : VS α) (id : Nat) (a : Option α) (h : HeapIdx st) (hin : id ∈ st.heap.toList) :
    HeapIdx (update st id a) ∧ (update st id a).heap.toList.Perm st.heap.toList ∧ Frame st (update st id a) ∧
      (update st id a).area id = a ∧ ∀ j, j ≠ id → (update st id a).area j = st.area j := by
  obtain ⟨k, hk, e⟩ := (mem_heap_iff _ _).1 hin
  have hid : id < st.items.size := e ▸ (h k hk).1
  have hpos : ((updSt st id a).get id).index = k := by rw [updSt_index, ← e]; exact (h k hk).2
  have hidx := updSt_idx st id a h
  have key : ∀ st', Rel (updSt st id a) st' → HeapIdx st' ∧ st'.heap.toList.Perm st.heap.toList ∧ Frame st st' ∧
      st'.area id = a ∧ ∀ j, j ≠ id → st'.area j = st.area j := by
    intro st' r
    refine ⟨r.idx, r.perm, frame_trans (updSt_frame st id a) r.frame, ?_, fun j hj => ?_⟩
    · rw [r.area, updSt_area _ _ _ _ hid, if_pos rfl]
    · rw [r.area, updSt_area _ _ _ _ hid, if_neg hj]
  rw [update_eq, hpos]
  split_ifs
  · exact key _ (up_rel _ _ hidx hk)
  · exact key _ (down_rel _ _ hidx hk)

end anyArithmetic3

end api
end VH

section anyArithmetic
variable {α : Type} [Add α] [Sub α] [Mul α] [Div α] [Neg α] [LT α] [LE α] [DecidableLT α] [DecidableLE α] [BEq α] [OfNat α 0] [OfNat α 1] [OfNat α 2]
set_option linter.unusedSectionVars false

theorem push_idx (st : VS α) (id : Nat) (h : HeapIdx st) (hid : id < st.items.size) (hnew : id ∉ st.heap.toList) :
    HeapIdx (push st id) ∧ (push st id).heap.toList.Perm (id :: st.heap.toList) ∧ Frame st (push st id) ∧
      ∀ j, (push st id).area j = st.area j := by
  exact VH.push_idx' st id h hid hnew

theorem pop_idx (st : VS α) (h : HeapIdx st) (hne : 0 < st.heap.size) :
    HeapIdx (pop st).2 ∧ st.heap.toList.Perm ((pop st).1 :: (pop st).2.heap.toList) ∧ Frame st (pop st).2 ∧
      ∀ j, (pop st).2.area j = st.area j := by
  exact VH.pop_idx' st h hne

theorem update_idx (st : VS α) (id : Nat) (a : Option α) (h : HeapIdx st) (hin : id ∈ st.heap.toList) :
    HeapIdx (update st id a) ∧ (update st id a).heap.toList.Perm st.heap.toList ∧ Frame st (update st id a) ∧
      (update st id a).area id = a ∧ ∀ j, j ≠ id → (update st id a).area j = st.area j := by
  exact VH.update_idx' st id a h hin

end anyArithmetic

/-! ### the ordering invariant over a linear order -/

namespace VH
section ord
variable {α : Type} [LinearOrder α]
set_option linter.unusedSectionVars false

theorem aLe_refl (a : Option α) : aLe a a = true := by
  cases a <;> simp [aLe]

theorem aLe_total (a b : Option α) : aLe a b = true ∨ aLe b a = true := by
  cases a <;> cases b <;> simp [aLe, le_total]

theorem aLe_trans {a b c : Option α} (h1 : aLe a b = true) (h2 : aLe b c = true) : aLe a c = true := by
  cases a <;> cases b <;> cases c <;> simp_all [aLe]
  exact le_trans h1 h2

theorem aLt_eq (a b : Option α) : aLt a b = !aLe b a := by
  cases a <;> cases b <;> simp [aLe, aLt]
  rename_i x y
  by_cases h : y ≤ x
  · simp [h, not_lt.2 h]
  · simp [h, not_le.1 h]

theorem aLe_of_not {a b : Option α} (h : ¬ aLe a b = true) : aLe b a = true :=
  (aLe_total a b).resolve_left h

/-- parent slot -/
def par (j : Nat) : Nat := (j + 1) / 2 - 1

theorem par_shift (j : Nat) : ((j + 1) >>> 1) - 1 = par j := par_eq j

/-- the heap order on a key function -/
def OrdF (f : Nat → Option α) (n : Nat) : Prop := ∀ j, 0 < j → j < n → aLe (f (par j)) (f j) = true

/-- sift-up invariant: the order holds except at the hole `i`, whose key is only too small -/
def UpInvF (f : Nat → Option α) (n i : Nat) : Prop :=
  (∀ j, 0 < j → j < n → j ≠ i → aLe (f (par j)) (f j) = true) ∧
  (0 < i → ∀ c, c < n → par c = i → aLe (f (par i)) (f c) = true)

/-- sift-down invariant: the order holds except below the hole `i`, whose key is only too large -/
def DownInvF (f : Nat → Option α) (n i : Nat) : Prop :=
  (∀ j, 0 < j → j < n → par j ≠ i → aLe (f (par j)) (f j) = true) ∧
  (0 < i → ∀ c, c < n → par c = i → aLe (f (par i)) (f c) = true)

theorem upInv_step {f f' : Nat → Option α} {n i : Nat} (hi0 : 0 < i) (hin : i < n)
    (hf' : ∀ k, f' k = if k = par i then f i else if k = i then f (par i) else f k)
    (hinv : UpInvF f n i) (hlt : ¬ aLe (f (par i)) (f i) = true) : UpInvF f' n (par i) := by
  obtain ⟨ha, hb⟩ := hinv
  have hiu : aLe (f i) (f (par i)) = true := aLe_of_not hlt
  have hpi : par i < i := by unfold par; omega
  constructor
  · intro j hj0 hjn hju
    rw [hf' j, hf' (par j), if_neg hju]
    by_cases hji : j = i
    · subst hji; rw [if_pos rfl, if_pos rfl]; exact hiu
    · rw [if_neg hji]
      by_cases h1 : par j = par i
      · rw [if_pos h1]; exact aLe_trans hiu (h1 ▸ ha j hj0 hjn hji)
      · rw [if_neg h1]
        by_cases h2 : par j = i
        · rw [if_pos h2]; exact hb hi0 j hjn h2
        · rw [if_neg h2]; exact ha j hj0 hjn hji
  · intro hu0 c hcn hpc
    have hppi : par (par i) < par i := by unfold par at hu0 ⊢; omega
    rw [hf' c, hf' (par (par i)), if_neg (by omega), if_neg (by omega)]
    have hc0 : 0 < c := by unfold par at hpc hu0; omega
    have hcu : c ≠ par i := by unfold par at hpc ⊢; omega
    rw [if_neg hcu]
    have hpu := ha (par i) hu0 (by omega) (by omega)
    by_cases hci : c = i
    · rw [if_pos hci]; exact hpu
    · rw [if_neg hci]; exact aLe_trans hpu (hpc ▸ ha c hc0 hcn hci)

theorem downInv_step {f f' : Nat → Option α} {n i m : Nat} (hm : m = 2 * i + 1 ∨ m = 2 * i + 2) (hmn : m < n)
    (hf' : ∀ k, f' k = if k = m then f i else if k = i then f m else f k)
    (hinv : DownInvF f n i) (hmi : aLe (f m) (f i) = true)
    (hms : ∀ c, 0 < c → c < n → par c = i → aLe (f m) (f c) = true) : DownInvF f' n m := by
  obtain ⟨ha, hb⟩ := hinv
  have hpm : par m = i := by unfold par; omega
  have him : i ≠ m := by omega
  constructor
  · intro j hj0 hjn hjm
    rw [hf' j, hf' (par j), if_neg hjm]
    by_cases h1 : j = m
    · subst h1; rw [if_pos rfl, hpm, if_pos rfl]; exact hmi
    · rw [if_neg h1]
      by_cases h2 : j = i
      · subst h2
        have : par j ≠ j := by unfold par; omega
        rw [if_pos rfl, if_neg this]
        exact hb hj0 m hmn hpm
      · rw [if_neg h2]
        by_cases h3 : par j = i
        · rw [if_pos h3]; exact hms j hj0 hjn h3
        · rw [if_neg h3]; exact ha j hj0 hjn h3
  · intro hm0 c hcn hpc
    have hc0 : 0 < c := by unfold par at hpc; omega
    have hcm : c ≠ m := by unfold par at hpc; omega
    have hci : c ≠ i := by unfold par at hpc; omega
    rw [hpm, hf' i, hf' c, if_neg him, if_pos rfl, if_neg hcm, if_neg hci]
    exact hpc ▸ ha c hc0 hcn (by omega)

theorem ord_of_upInv {f : Nat → Option α} {n i : Nat} (hinv : UpInvF f n i)
    (hfin : i = 0 ∨ aLe (f (par i)) (f i) = true) : OrdF f n := by
  intro j hj0 hjn
  by_cases hji : j = i
  · subst hji
    rcases hfin with e | e
    · omega
    · exact e
  · exact hinv.1 j hj0 hjn hji

theorem ord_of_downInv {f : Nat → Option α} {n i : Nat} (hinv : DownInvF f n i)
    (hfin : ∀ c, 0 < c → c < n → par c = i → aLe (f i) (f c) = true) : OrdF f n := by
  intro j hj0 hjn
  by_cases hji : par j = i
  · exact hji ▸ hfin j hj0 hjn hji
  · exact hinv.1 j hj0 hjn hji

theorem upInv_of_decrease {f f' : Nat → Option α} {n k : Nat} {a : Option α} (hord : OrdF f n) (hk : k < n)
    (hf' : ∀ j, j < n → f' j = if j = k then a else f j) (hle : aLe a (f k) = true) : UpInvF f' n k := by
  have hpar : ∀ j, j < n → par j < n := by intro j hj; unfold par; omega
  constructor
  · intro j hj0 hjn hjk
    rw [hf' j hjn, hf' (par j) (hpar j hjn), if_neg hjk]
    by_cases h1 : par j = k
    · rw [if_pos h1]; exact aLe_trans hle (h1 ▸ hord j hj0 hjn)
    · rw [if_neg h1]; exact hord j hj0 hjn
  · intro hk0 c hcn hpc
    have hc0 : 0 < c := by unfold par at hpc; omega
    have hck : c ≠ k := by unfold par at hpc; omega
    have hpk : par k ≠ k := by unfold par; omega
    rw [hf' c hcn, hf' (par k) (hpar k hk), if_neg hck, if_neg hpk]
    exact aLe_trans (hord k hk0 hk) (hpc ▸ hord c hc0 hcn)

theorem downInv_of_increase {f f' : Nat → Option α} {n k : Nat} {a : Option α} (hord : OrdF f n) (hk : k < n)
    (hf' : ∀ j, j < n → f' j = if j = k then a else f j) (hle : aLe (f k) a = true) : DownInvF f' n k := by
  have hpar : ∀ j, j < n → par j < n := by intro j hj; unfold par; omega
  constructor
  · intro j hj0 hjn hjk
    rw [hf' j hjn, hf' (par j) (hpar j hjn), if_neg hjk]
    by_cases h1 : j = k
    · rw [if_pos h1]; exact aLe_trans (h1 ▸ hord j hj0 hjn) hle
    · rw [if_neg h1]; exact hord j hj0 hjn
  · intro hk0 c hcn hpc
    have hc0 : 0 < c := by unfold par at hpc; omega
    have hck : c ≠ k := by unfold par at hpc; omega
    have hpk : par k ≠ k := by unfold par; omega
    rw [hf' c hcn, hf' (par k) (hpar k hk), if_neg hck, if_neg hpk]
    exact aLe_trans (hord k hk0 hk) (hpc ▸ hord c hc0 hcn)

theorem upInv_of_push {f f' : Nat → Option α} {n : Nat} (hord : OrdF f n)
    (hf' : ∀ j, j < n → f' j = f j) : UpInvF f' (n + 1) n := by
  constructor
  · intro j hj0 hjn hjk
    have : par j < n := by unfold par; omega
    rw [hf' j (by omega), hf' (par j) this]; exact hord j hj0 (by omega)
  · intro hk0 c hcn hpc
    unfold par at hpc; omega

theorem downInv_of_pop {f f' : Nat → Option α} {n : Nat} (hord : OrdF f n)
    (hf' : ∀ j, 0 < j → j < n - 1 → f' j = f j) : DownInvF f' (n - 1) 0 := by
  constructor
  · intro j hj0 hjn hjk
    have : par j < n - 1 := by unfold par; omega
    rw [hf' j hj0 hjn, hf' (par j) (by omega) this]; exact hord j hj0 (by omega)
  · intro hk0; omega

theorem root_le {f : Nat → Option α} {n : Nat} (hord : OrdF f n) : ∀ k, k < n → aLe (f 0) (f k) = true := by
  intro k
  induction k using Nat.strong_induction_on with
  | _ k ih =>
    intro hk
    by_cases h0 : k = 0
    · subst h0; exact aLe_refl _
    · have hp : par k < k := by unfold par; omega
      exact aLe_trans (ih (par k) hp (by omega)) (hord k (by omega) hk)

/-- key (area) stored at heap slot `k` -/
def ky (st : VS α) (k : Nat) : Option α := st.area (st.heap.getD k 0)

theorem heapOrd_iff (st : VS α) : HeapOrd st ↔ OrdF (ky st) st.heap.size := by
  simp only [HeapOrd, OrdF, ky, par_shift]

theorem sw_area (st : VS α) (i j a b k : Nat) : (sw st i j a b).area k = st.area k := (sw_get st i j a b k).1

theorem sw_ky (st : VS α) (i j k : Nat) (hi : i < st.heap.size) (hj : j < st.heap.size) :
    ky (sw st i j (st.heap.getD i 0) (st.heap.getD j 0)) k =
      if k = j then ky st i else if k = i then ky st j else ky st k := by
  simp only [ky, sw_area, sw_heap_getD _ _ _ _ _ _ hi hj]
  split_ifs <;> rfl

theorem aLt_iff (a b : Option α) : aLt a b = true ↔ ¬ aLe b a = true := by
  rw [aLt_eq]; simp

theorem upLoop_ord (obj fuel : Nat) : ∀ (i : Nat) (st : VS α), i < fuel → i < st.heap.size →
    st.heap.getD i 0 = obj → UpInvF (ky st) st.heap.size i → HeapOrd (upLoop obj fuel i st) := by
  induction fuel with
  | zero => intro i st h; omega
  | succ n ih =>
    intro i st hf hi ho hinv
    subst ho
    rw [upLoop_succ]
    by_cases h0 : i = 0
    · rw [if_pos h0]
      exact (heapOrd_iff st).2 (ord_of_upInv hinv (Or.inl h0))
    · rw [if_neg h0, par_shift]
      by_cases h1 : aLe (st.area (st.heap.getD (par i) 0)) (st.area (st.heap.getD i 0)) = true
      · rw [if_pos h1]
        exact (heapOrd_iff st).2 (ord_of_upInv hinv (Or.inr h1))
      · rw [if_neg h1]
        have hpi : par i < i := by unfold par; omega
        have hup : par i < st.heap.size := by omega
        apply ih
        · omega
        · rw [sw_heap_size]; exact hup
        · rw [sw_heap_getD _ _ _ _ _ _ hi hup, if_pos rfl]
        · rw [sw_heap_size]
          exact upInv_step (by omega) hi (fun k => sw_ky st i (par i) k hi hup) hinv h1

theorem dcOf_spec (st : VS α) (i : Nat) :
    ((dcOf st i).1 = i ∧ ∀ c, 0 < c → c < st.heap.size → par c = i → aLe (ky st i) (ky st c) = true) ∨
    ((dcOf st i).1 < st.heap.size ∧ ((dcOf st i).1 = 2 * i + 1 ∨ (dcOf st i).1 = 2 * i + 2) ∧
      aLe (ky st (dcOf st i).1) (ky st i) = true ∧
      ∀ c, 0 < c → c < st.heap.size → par c = i → aLe (ky st (dcOf st i).1) (ky st c) = true) := by
  have hc : ∀ c, 0 < c → par c = i → c = 2 * i + 1 ∨ c = 2 * i + 2 := by
    intro c h0 hp; unfold par at hp; omega
  have e1 : (i + 1) <<< 1 = 2 * i + 2 := by rw [Nat.shiftLeft_eq]; omega
  have e2 : 2 * i + 2 - 1 = 2 * i + 1 := by omega
  unfold dcOf
  simp only [e1, e2, Bool.and_eq_true, decide_eq_true_eq, aLt_iff]
  split_ifs with h1 h2 h2
  · right
    have hRL : aLe (ky st (2 * i + 2)) (ky st (2 * i + 1)) = true := aLe_of_not h2.2
    have hLi : aLe (ky st (2 * i + 1)) (ky st i) = true := aLe_of_not h1.2
    refine ⟨h2.1, Or.inr rfl, aLe_trans hRL hLi, fun c h0 hcn hp => ?_⟩
    rcases hc c h0 hp with rfl | rfl
    · exact hRL
    · exact aLe_refl _
  · right
    have hLi : aLe (ky st (2 * i + 1)) (ky st i) = true := aLe_of_not h1.2
    refine ⟨h1.1, Or.inl rfl, hLi, fun c h0 hcn hp => ?_⟩
    rcases hc c h0 hp with rfl | rfl
    · exact aLe_refl _
    · by_contra hcon; exact h2 ⟨hcn, hcon⟩
  · right
    have hRi : aLe (ky st (2 * i + 2)) (ky st i) = true := aLe_of_not h2.2
    refine ⟨h2.1, Or.inr rfl, hRi, fun c h0 hcn hp => ?_⟩
    rcases hc c h0 hp with rfl | rfl
    · refine aLe_trans hRi ?_
      by_contra hcon; exact h1 ⟨hcn, hcon⟩
    · exact aLe_refl _
  · left
    refine ⟨rfl, fun c h0 hcn hp => ?_⟩
    rcases hc c h0 hp with rfl | rfl
    · by_contra hcon; exact h1 ⟨hcn, hcon⟩
    · by_contra hcon; exact h2 ⟨hcn, hcon⟩

theorem downLoop_ord (obj fuel : Nat) : ∀ (i : Nat) (st : VS α), st.heap.size < fuel + i → i < st.heap.size →
    st.heap.getD i 0 = obj → DownInvF (ky st) st.heap.size i → HeapOrd (downLoop obj fuel i st) := by
  induction fuel with
  | zero => intro i st h hi; omega
  | succ n ih =>
    intro i st hf hi ho hinv
    subst ho
    rw [downLoop_succ]
    rcases dcOf_spec st i with ⟨hm, hfin⟩ | ⟨hmn, hm, hmi, hms⟩
    · rw [if_pos hm]
      exact (heapOrd_iff st).2 (ord_of_downInv hinv hfin)
    · rw [if_neg (by omega), dcOf_snd]
      apply ih
      · rw [sw_heap_size]; omega
      · rw [sw_heap_size]; exact hmn
      · rw [sw_heap_getD _ _ _ _ _ _ hi hmn, if_pos rfl]
      · rw [sw_heap_size]
        exact downInv_step hm hmn (fun k => sw_ky st i _ k hi hmn) hinv hmi hms

theorem up_ord (st : VS α) (i : Nat) (hi : i < st.heap.size) (hinv : UpInvF (ky st) st.heap.size i) :
    HeapOrd (up st i) := upLoop_ord _ _ i st (by omega) hi rfl hinv

theorem down_ord (st : VS α) (i : Nat) (hi : i < st.heap.size) (hinv : DownInvF (ky st) st.heap.size i) :
    HeapOrd (down st i) := downLoop_ord _ _ i st (by omega) hi rfl hinv

/-- the state `Push` hands to `up` -/
def pushSt (st : VS α) (id : Nat) : VS α := { st.setIndex id st.heap.size with heap := st.heap.push id }

theorem push_eq (st : VS α) (id : Nat) : push st id = up (pushSt st id) ((pushSt st id).get id).index := rfl

theorem push_ord' (st : VS α) (id : Nat) (h : HeapOrd st) (hid : id < st.items.size) : HeapOrd (push st id) := by
  rw [push_eq]
  have hpos : ((pushSt st id).get id).index = st.heap.size := by
    show ((st.setIndex id st.heap.size).get id).index = _
    rw [get_setIndex]; simp [hid]
  have hsz : (pushSt st id).heap.size = st.heap.size + 1 := by simp [pushSt]
  rw [hpos]
  apply up_ord _ _ (by omega)
  rw [hsz]
  refine upInv_of_push ((heapOrd_iff st).1 h) (fun j hj => ?_)
  have : (pushSt st id).heap.getD j 0 = st.heap.getD j 0 := by
    show (st.heap.push id).getD j 0 = _
    rw [getD_push, if_neg (by omega)]
  simp only [ky]
  rw [this]; exact area_modify_index ..

theorem popSt_area (st : VS α) (k : Nat) : (popSt st).area k = st.area k := by
  simp only [VS.area, popSt_get]; split_ifs <;> rfl

theorem pop_fst (st : VS α) (hne : 0 < st.heap.size) : (pop st).1 = st.heap.getD 0 0 := by
  by_cases h1 : st.heap.size = 1
  · rw [pop_eq_of_one st h1]
  · rw [pop_eq_of_gt st (by omega)]

theorem pop_ord' (st : VS α) (h : HeapOrd st) (hne : 0 < st.heap.size) :
    HeapOrd (pop st).2 ∧ ∀ id ∈ st.heap.toList, aLe (st.area (pop st).1) (st.area id) = true := by
  constructor
  · by_cases h1 : st.heap.size = 1
    · rw [pop_eq_of_one st h1]
      intro i hi0 hi
      simp [h1] at hi
    · have h1 : 1 < st.heap.size := by omega
      rw [pop_eq_of_gt st h1]
      show HeapOrd (down (popSt st) 0)
      apply down_ord _ _ (by rw [popSt_heap_size]; omega)
      rw [popSt_heap_size]
      refine downInv_of_pop ((heapOrd_iff st).1 h) (fun j hj0 hj => ?_)
      simp only [ky]
      rw [popSt_heap_getD _ _ hj, if_neg (by omega)]; exact popSt_area ..
  · intro id hid
    rw [pop_fst st hne]
    obtain ⟨k, hk, e⟩ := (mem_heap_iff _ _).1 hid
    rw [← e]
    exact root_le ((heapOrd_iff st).1 h) k hk

theorem update_ord' (st : VS α) (id : Nat) (a : Option α) (h : HeapInv st) (hin : id ∈ st.heap.toList) :
    HeapOrd (update st id a) := by
  obtain ⟨hidx, hord⟩ := h
  obtain ⟨k, hk, e⟩ := (mem_heap_iff _ _).1 hin
  have hid : id < st.items.size := e ▸ (hidx k hk).1
  have hpos : ((updSt st id a).get id).index = k := by rw [updSt_index, ← e]; exact (hidx k hk).2
  have hky : ∀ j, j < st.heap.size → ky (updSt st id a) j = if j = k then a else ky st j := by
    intro j hj
    simp only [ky, updSt_heap, updSt_area _ _ _ _ hid]
    by_cases hjk : j = k
    · rw [if_pos hjk, hjk, e, if_pos rfl]
    · rw [if_neg hjk, if_neg]
      intro e2; exact hjk (heapIdx_inj hidx hj hk (e2.trans e.symm))
  have hkk : ky st k = st.area id := by simp only [ky, e]
  rw [update_eq, hpos]
  by_cases hlt : aLt a (st.area id) = true
  · rw [if_pos hlt]
    apply up_ord (updSt st id a) k hk
    refine upInv_of_decrease ((heapOrd_iff st).1 hord) hk hky ?_
    rw [hkk]; exact aLe_of_not ((aLt_iff _ _).1 hlt)
  · rw [if_neg hlt]
    apply down_ord (updSt st id a) k hk
    refine downInv_of_increase ((heapOrd_iff st).1 hord) hk hky ?_
    rw [hkk]
    by_contra hcon; exact hlt ((aLt_iff _ _).2 hcon)

end ord
end VH

section linearOrder
variable {α : Type} [LinearOrder α]

set_option linter.unusedVariables false in
theorem push_ord (st : VS α) (id : Nat) (h : HeapInv st) (hid : id < st.items.size) (hnew : id ∉ st.heap.toList) :
    HeapOrd (push st id) := by
  exact VH.push_ord' st id h.2 hid

theorem pop_ord (st : VS α) (h : HeapInv st) (hne : 0 < st.heap.size) :
    HeapOrd (pop st).2 ∧ ∀ id ∈ st.heap.toList, aLe (st.area (pop st).1) (st.area id) = true := by
  exact VH.pop_ord' st h.2 hne

theorem update_ord (st : VS α) (id : Nat) (a : Option α) (h : HeapInv st) (hin : id ∈ st.heap.toList) :
    HeapOrd (update st id a) := by
  exact VH.update_ord' st id a h hin

end linearOrder

end Orb.Simplify
