/-
  C20 — Generic geometry entry points are total and agree with typed ones.
  PROPERTY THEOREMS about facts REGENERATED from the Go source on every run
  (`Generated/Switches.lean`: every type switch in non-test code whose cases name at least two of
  the nine geometry kinds, with its case set, default clause and whether a `panic` follows).

  The dynamic clauses (no panic on degenerate members, agreement with the typed functions,
  collections as combinations, read-only arguments unchanged) are judged by the executable property
  on the implementation's outcomes (harness/c20.go, Driver/C20.lean) and by the per-package models
  of C01, C04, C06–C12, C14–C18.
-/
import Generated.Switches
import Generated.Anchors

namespace Orb.C20
open Generated.Switches

/-- the nine kinds, sorted as factgen sorts them -/
def nine : List String :=
  ["Bound", "Collection", "LineString", "MultiLineString", "MultiPoint", "MultiPolygon", "Point", "Polygon", "Ring"]

def namesAll (s : Sw) : Bool := s.kinds == nine

/-- kinds not named reach neither a panicking `default` nor a `panic` placed after the switch -/
def fallsThroughSafely (s : Sw) : Bool := !(s.hasDefault && s.defaultPanics) && !s.tailPanics

/-- Switches that name fewer than nine kinds in front of a `panic`, with the reason the missing
    kinds cannot reach it.  An entry is matched with its exact case set, so widening or narrowing
    such a switch re-opens the obligation. -/
def justified : List (String × String × Nat × List String) := [
  -- smartclip.Geometry returns `clip.Geometry(box, g)` for every value with Dimensions() != 2
  -- before the switch; the five kinds named are exactly those that can have dimension 2
  ("clip/smartclip", "Geometry", 1, ["Bound", "Collection", "MultiPolygon", "Polygon", "Ring"]),
  -- Encoder.encode's first switch rewrites Ring and Bound to Polygon before this second switch
  -- (since fix 968afdb the dispatch lives in `encode`; `Encode` keeps only the top-level nil rule)
  ("encoding/internal/wkbcommon", "Encoder.encode", 2,
    ["Collection", "LineString", "MultiLineString", "MultiPoint", "MultiPolygon", "Point", "Polygon"])
]

def okSwitch (s : Sw) : Bool :=
  namesAll s || fallsThroughSafely s || justified.contains (s.pkg, s.fn, s.idx, s.kinds)

/-- The generic entry points the property lists, by the function that holds their type switch.
    Each must still exist and name all nine kinds (so a deleted or renamed switch is noticed). -/
def expectedGeneric : List (String × String) := [
  (".", "Clone"), (".", "Equal"), (".", "Round"), ("planar", "CentroidArea"), ("planar", "DistanceFromWithIndex"),
  ("internal/length", "Length"), ("geo", "Area"), ("clip", "Geometry"), ("project", "Geometry"),
  ("simplify", "simplify"), ("maptile/tilecover", "Geometry"), ("encoding/wkt", "wkt"),
  ("encoding/mvt", "encodeGeometry")
]

/-- EVERY type switch over the geometry interface in the source tree names all nine kinds or cannot
    send a kind it does not name into a panic. -/
theorem switches_total : switches.all okSwitch = true := by decide

/-- Every listed generic entry point has its nine-kind switch. -/
theorem generic_entry_points_cover_nine :
    expectedGeneric.all (fun e => switches.any fun s => s.pkg == e.1 && s.fn == e.2 && namesAll s) = true := by
  decide

/-- factgen resolved every anchor it looks for (constants, tables, functions). -/
theorem anchors_resolved : Generated.anchorsLost = [] := by decide

/-- Non-vacuity: the regenerated list is not empty and contains a switch that needs its justification. -/
example : switches.length ≥ 15 ∧ (switches.any fun s => !namesAll s && !fallsThroughSafely s) = true := by decide

end Orb.C20
