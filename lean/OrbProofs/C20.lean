/-
  C20 — Generic geometry entry points are total and agree with typed ones.
  PROPERTY THEOREMS about facts REGENERATED from the Go source on every run
  (`Generated/Switches.lean`: every type switch in non-test code whose cases name at least two of
  the nine geometry kinds — found at any nesting depth, inside labelled statements, select bodies,
  function literals and package-level initialisers — with its case set, whether its default clause
  contains a non-returning call and whether one occurs anywhere after it in the enclosing function).

  A switch passes only if it names all nine kinds or is LISTED here with its exact case set and a
  reason: `justified` (a panic is in reach, the missing kinds cannot get there) or `ignoring` (no
  panic in reach, the missing kinds are passed over and the result is still right).  Being
  panic-free is not a pass by itself.

  The dynamic clauses (no panic on degenerate members, agreement with the typed functions,
  collections as combinations, read-only arguments unchanged) are judged by the executable property
  on the implementation's outcomes (harness/c20.go, Driver/C20.lean) and by the per-package models
  of C01, C04, C06–C12, C14–C18.
-/
import Generated.Switches
import Generated.Anchors

namespace Orb.C20
open Generated.Switches

/-- the nine kinds, sorted as factgen sorts them -/
def nine : List String :=
  ["Bound", "Collection", "LineString", "MultiLineString", "MultiPoint", "MultiPolygon", "Point", "Polygon", "Ring"]

def namesAll (s : Sw) : Bool := s.kinds == nine

/-- no non-returning call (`panic`, `log.Panic*`, `log.Fatal*`, `os.Exit`) ANYWHERE in the default
    clause and none ANYWHERE after the switch in the enclosing function body (factgen looks at any
    depth, so a guarded or distant panic counts too).  This alone does NOT make a switch acceptable:
    a switch that silently ignores kinds can make its function's result wrong without panicking. -/
def fallsThroughSafely (s : Sw) : Bool := !(s.hasDefault && s.defaultPanics) && !s.tailPanics

/-- Switches that name fewer than nine kinds and have a `panic` in reach (in the default clause or
    somewhere after the switch), with the reason the missing kinds cannot reach it.  An entry is
    matched with its exact case set, so widening or narrowing such a switch re-opens the obligation. -/
def justified : List (String × String × Nat × List String) := [
  -- smartclip.Geometry returns `clip.Geometry(box, g)` for every value with Dimensions() != 2
  -- before the switch; the five kinds named are exactly those that can have dimension 2
  ("clip/smartclip", "Geometry", 1, ["Bound", "Collection", "MultiPolygon", "Polygon", "Ring"]),
  -- Encoder.encode's first switch only REWRITES a Ring / Bound to the Polygon it is written as; every
  -- other kind leaves it unchanged and goes on to the second switch of the same function (next
  -- entry), whose trailing panic is the one factgen sees from here
  ("encoding/internal/wkbcommon", "Encoder.encode", 1, ["Bound", "Ring"]),
  -- … so this second switch sees neither Ring nor Bound: it names the seven kinds that are left
  -- (since fix 968afdb the dispatch lives in `encode`; `Encode` keeps only the top-level nil rule)
  ("encoding/internal/wkbcommon", "Encoder.encode", 2,
    ["Collection", "LineString", "MultiLineString", "MultiPoint", "MultiPolygon", "Point", "Polygon"])
]

/-- Switches that name fewer than nine kinds and have NO panic in reach: the kinds not named are
    passed over silently, so each needs a reason why the function's result is still right for them.
    Matched with the exact case set; an entry only counts while the switch stays panic-free. -/
def ignoring : List (String × String × Nat × List String) := [
  -- ScanMultiPoint switches on the value `Unmarshal` DECODED (not on an argument): a point becomes a
  -- one-point multi-point, a multi-point is returned, every other kind is answered with the error
  -- ErrIncorrectGeometry right after the switch — not silently
  ("encoding/internal/wkbcommon", "ScanMultiPoint", 1, ["MultiPoint", "Point"]),
  -- Encoder.Encode's switch only asks "is this a typed nil slice?" (then nothing is written); Point
  -- and Bound are arrays / structs, never nil, and every kind then goes to `encode`
  ("encoding/internal/wkbcommon", "Encoder.Encode", 1,
    ["Collection", "LineString", "MultiLineString", "MultiPoint", "MultiPolygon", "Polygon", "Ring"]),
  -- GeomLength answers 0 for a Ring / Bound; its only use is the INITIAL CAPACITY of the bytes.Buffer
  -- in Marshal (the buffer grows), so no encoding depends on it (C01 compares the bytes of rings and bounds)
  ("encoding/internal/wkbcommon", "GeomLength", 1,
    ["Collection", "LineString", "MultiLineString", "MultiPoint", "MultiPolygon", "Point", "Polygon"]),
  -- geojson.NewGeometry / newGeometryMarshallDoc: Ring and Bound become the Polygon they are written
  -- as, a Collection becomes the list of its members' documents, and the `default` clause stores
  -- every other kind as the coordinates value it already is (the six kinds GeoJSON has itself)
  ("geojson", "NewGeometry", 1, ["Bound", "Collection", "Ring"]),
  ("geojson", "newGeometryMarshallDoc", 1, ["Bound", "Collection", "Ring"])
]

def key (s : Sw) : String × String × Nat × List String := (s.pkg, s.fn, s.idx, s.kinds)

def okSwitch (s : Sw) : Bool :=
  namesAll s || justified.contains (key s) || (fallsThroughSafely s && ignoring.contains (key s))

/-- The generic entry points the property lists, by the function that holds their type switch.
    Each must still exist and name all nine kinds (so a deleted or renamed switch is noticed). -/
def expectedGeneric : List (String × String) := [
  (".", "Clone"), (".", "Equal"), (".", "round"), ("planar", "CentroidArea"), ("planar", "DistanceFromWithIndex"),
  ("internal/length", "Length"), ("geo", "Area"), ("clip", "Geometry"), ("project", "Geometry"),
  ("simplify", "simplify"), ("maptile/tilecover", "Geometry"), ("encoding/wkt", "wkt"),
  ("encoding/mvt", "encodeGeometry")
]

/-- EVERY type switch over the geometry interface in the source tree — at any nesting, in labelled
    statements, select bodies, function literals and package-level initialisers — names all nine
    kinds, or is listed above with its exact case set and the reason why the kinds it does not name
    neither reach a panic (`justified`) nor are wrongly ignored (`ignoring`, panic-free switches only).
    A new partial switch, or a change to the case set of a listed one, makes this fail. -/
theorem switches_total : switches.all okSwitch = true := by decide

/-- No listed exception is stale: each matches a switch that exists now. -/
theorem exceptions_all_in_use :
    (justified ++ ignoring).all (fun j => switches.any fun s => key s == j) = true := by decide

/-- Being panic-free is not enough: the panic-free partial switches are exactly the listed ones. -/
theorem panic_free_partial_switches_listed :
    (switches.filter fun s => !namesAll s && fallsThroughSafely s).map key = ignoring := by decide

/-- Every listed generic entry point has its nine-kind switch. -/
theorem generic_entry_points_cover_nine :
    expectedGeneric.all (fun e => switches.any fun s => s.pkg == e.1 && s.fn == e.2 && namesAll s) = true := by
  decide

/-- factgen resolved every anchor it looks for (constants, tables, functions). -/
theorem anchors_resolved : Generated.anchorsLost = [] := by decide

/-- Non-vacuity: the regenerated list is not empty, contains switches that need a justification, and
    the check rejects an unlisted partial switch, panic-free or not. -/
example : switches.length ≥ 15 ∧ (switches.any fun s => !namesAll s && !fallsThroughSafely s) = true ∧
    okSwitch ⟨"x", "F", 1, ["Point", "Ring"], false, false, false⟩ = false ∧
    okSwitch ⟨"x", "F", 1, ["Point", "Ring"], true, true, false⟩ = false ∧
    -- a listed panic-free switch that grows a panic is rejected again
    okSwitch ⟨"geojson", "NewGeometry", 1, ["Bound", "Collection", "Ring"], true, true, false⟩ = false := by decide

end Orb.C20
