import OrbProofs.C14Dda
import Mathlib.Tactic
namespace Orb.TileCover
open Orb Orb.Tile
section dda
variable {K : Type} [Field K] [LinearOrder K] [IsStrictOrderedRing K] [FloorRing K]
set_option linter.unusedSectionVars false

/-!
  C14 lemmas, part 4: the geometry of the DDA (soundness and completeness of a segment's cover).
  `P(t) = a + t (b − a)`; the walk invariant of `C14Dda` is strengthened with the parameter `τ` at which
  the current cell was entered.
-/

/-- `P(t)` (one coordinate) lies in the closed cell `[z, z+1]` -/
def InCl (a b : K) (z : ℤ) (t : K) : Prop :=
  (z:K) ≤ a + t * (b - a) ∧ a + t * (b - a) ≤ (z:K) + 1

/-- `t ≤ tM` with `none = +Inf` -/
def LeOpt (t : K) : Option K → Prop
  | none => True
  | some m => t ≤ m

/-- the tile `c` meets the segment `a → b` (closed square) -/
def Meets (ax bx ay by_ : K) (c : Tile) : Prop :=
  ∃ t : K, 0 ≤ t ∧ t ≤ 1 ∧
    (c.x : K) ≤ ax + t * (bx - ax) ∧ ax + t * (bx - ax) ≤ (c.x : K) + 1 ∧
    (c.y : K) ≤ ay + t * (by_ - ay) ∧ ay + t * (by_ - ay) ≤ (c.y : K) + 1

theorem leOpt_trans {t t' : K} {o : Option K} (h : t ≤ t') (h' : LeOpt t' o) : LeOpt t o := by
  cases o with
  | none => trivial
  | some m => exact le_trans h h'

theorem leOpt_of_not_ltOne {tM : Option K} (h : ltOne tM = false) {t : K} (ht : t ≤ 1) :
    LeOpt t tM := by
  cases tM with
  | none => trivial
  | some m =>
    simp only [ltOne, decide_eq_false_iff_not, not_lt] at h
    exact le_trans ht h

theorem some_of_ltOne {tM : Option K} (h : ltOne tM = true) : ∃ m, tM = some m ∧ m < 1 := by
  cases tM with
  | none => simp [ltOne] at h
  | some m => exact ⟨m, rfl, by simpa [ltOne] using h⟩

theorem leOpt_of_ltInf {m : K} {tY : Option K} (h : ltInf (some m) tY = true) : LeOpt m tY := by
  cases tY with
  | none => trivial
  | some m' =>
    simp only [ltInf, decide_eq_true_eq] at h
    exact h.le

theorem leOpt_of_not_ltInf {m' : K} {tX : Option K} (h : ¬ ltInf tX (some m') = true) :
    LeOpt m' tX := by
  cases tX with
  | none => trivial
  | some m =>
    simp only [ltInf, decide_eq_true_eq, not_lt] at h
    exact h

/-- inside the parameter interval of the current cell the point stays in the closed cell -/
theorem ax_mid {a b : K} {z : ℤ} {tM : Option K} {sg td τ t : K} (h : AxInv a b z tM sg td)
    (hτ : InCl a b z τ) (hτt : τ ≤ t) (ht : LeOpt t tM) : InCl a b z t := by
  obtain ⟨h1, h2⟩ := hτ
  rcases h with ⟨hab, rfl, -, -, -, -⟩ | ⟨hab, rfl, -, -, -, -⟩ | ⟨hab, rfl, -, -⟩
  · have hpos : 0 < b - a := sub_pos.mpr hab
    have ht' : t ≤ ((z:K) + 1 - a) / (b - a) := ht
    rw [le_div_iff₀ hpos] at ht'
    have : τ * (b - a) ≤ t * (b - a) := mul_le_mul_of_nonneg_right hτt hpos.le
    exact ⟨by linarith, by linarith⟩
  · have hpos : 0 < a - b := sub_pos.mpr hab
    have ht' : t ≤ (a - (z:K)) / (a - b) := ht
    rw [le_div_iff₀ hpos] at ht'
    have : τ * (a - b) ≤ t * (a - b) := mul_le_mul_of_nonneg_right hτt hpos.le
    exact ⟨by linarith, by linarith⟩
  · subst hab
    simp only [sub_self, mul_zero, add_zero] at h1 h2 ⊢
    exact ⟨by simpa using h1, by simpa using h2⟩

/-- at `tM` the point is on the edge shared with the next cell; `td ≥ 0` -/
theorem ax_edge {a b : K} {z z' : ℤ} {m sg td : K} (h : AxInv a b z (some m) sg td)
    (hz' : (z:K) + sg = (z':K)) : InCl a b z' m ∧ 0 ≤ td := by
  rcases h with ⟨hab, hm, rfl, rfl, -, -⟩ | ⟨hab, hm, rfl, rfl, -, -⟩ | ⟨-, hm, -, -⟩
  · have hpos : 0 < b - a := sub_pos.mpr hab
    have hm' : m = ((z:K) + 1 - a) / (b - a) := Option.some.inj hm
    have hP : a + m * (b - a) = (z:K) + 1 := by
      rw [hm', div_mul_cancel₀ _ (ne_of_gt hpos)]; ring
    refine ⟨⟨?_, ?_⟩, div_nonneg zero_le_one hpos.le⟩
    · rw [hP, hz']
    · rw [hP, hz']; linarith
  · have hpos : 0 < a - b := sub_pos.mpr hab
    have hm' : m = (a - (z:K)) / (a - b) := Option.some.inj hm
    have hP : a + m * (b - a) = (z:K) := by
      have : m * (b - a) = -(m * (a - b)) := by ring
      rw [this, hm', div_mul_cancel₀ _ (ne_of_gt hpos)]; ring
    refine ⟨⟨?_, ?_⟩, div_nonneg zero_le_one hpos.le⟩
    · rw [hP, ← hz']; linarith
    · rw [hP, ← hz']; linarith
  · cases hm

theorem ax_tM_nonneg {a b : K} {z : ℤ} {tM : Option K} {sg td : K} (h : AxInv a b z tM sg td) :
    LeOpt 0 tM := by
  rcases h with ⟨hab, rfl, -, -, -, h2⟩ | ⟨hab, rfl, -, -, -, h2⟩ | ⟨-, rfl, -, -⟩
  · exact div_nonneg (by linarith) (sub_pos.mpr hab).le
  · exact div_nonneg (by linarith) (sub_pos.mpr hab).le
  · trivial

/-- a point of the open square `(i, i+1)` that is in the closed cell `[z, z+1]` has `i = z` -/
theorem cell_eq {z : ℤ} {i : Nat} {p : K} (hz : 0 ≤ z) (h1 : (i:K) < p) (h2 : p < (i:K) + 1)
    (h3 : (z:K) ≤ p) (h4 : p ≤ (z:K) + 1) : i = z.toNat := by
  have e1 : (((i:ℤ)):K) < ((z + 1 : ℤ) : K) := by push_cast; linarith
  have e2 : ((z:ℤ):K) < (((i:ℤ) + 1 : ℤ) : K) := by push_cast; linarith
  have e1' := Int.cast_lt.mp e1
  have e2' := Int.cast_lt.mp e2
  omega

theorem meets_of_inCl {ax bx ay by_ : K} {z w : ℤ} {zoom : Nat} {t : K} (hz : 0 ≤ z) (hw : 0 ≤ w)
    (ht0 : 0 ≤ t) (ht1 : t ≤ 1) (hx : InCl ax bx z t) (hy : InCl ay by_ w t) :
    Meets ax bx ay by_ ⟨z.toNat, w.toNat, zoom⟩ := by
  refine ⟨t, ht0, ht1, ?_⟩
  show ((z.toNat : ℕ) : K) ≤ _ ∧ _ ≤ ((z.toNat : ℕ) : K) + 1 ∧
    ((w.toNat : ℕ) : K) ≤ _ ∧ _ ≤ ((w.toNat : ℕ) : K) + 1
  rw [natCast_toNat hz, natCast_toNat hw]
  exact ⟨hx.1, hx.2, hy.1, hy.2⟩

/-- the walk: everything added meets the segment, nothing is removed, and every open square entered at
    a parameter `≥ τ` ends up in the set -/
theorem walk_geo (zoom : Nat) (ax bx ay by_ sx sy tdx tdy : K)
    (hax : 0 ≤ ax) (hbx : 0 ≤ bx) (hay : 0 ≤ ay) (hby : 0 ≤ by_) (s' : LState K) :
    ∀ (fuel : Nat) (tMX tMY : Option K) (s : LState K) (z w : ℤ) (τ : K),
      AxInv ax bx z tMX sx tdx → AxInv ay by_ w tMY sy tdy → s.x = z → s.y = w →
      0 ≤ τ → τ ≤ 1 → InCl ax bx z τ → InCl ay by_ w τ → LeOpt τ tMX → LeOpt τ tMY →
      walk (opsK K) zoom sx sy tdx tdy fuel tMX tMY s = some s' →
      (∀ c ∈ s'.set, c ∈ s.set ∨ Meets ax bx ay by_ c) ∧ (∀ c ∈ s.set, c ∈ s'.set) ∧
      ((⟨z.toNat, w.toNat, zoom⟩ : Tile) ∈ s.set → ∀ (i j : Nat) (t : K), τ ≤ t → t ≤ 1 →
        (i : K) < ax + t * (bx - ax) → ax + t * (bx - ax) < (i : K) + 1 →
        (j : K) < ay + t * (by_ - ay) → ay + t * (by_ - ay) < (j : K) + 1 →
        (⟨i, j, zoom⟩ : Tile) ∈ s'.set) := by
  intro fuel
  -- a parameter inside the current cell's interval
  have hcur : ∀ (tMX tMY : Option K) (z w : ℤ) (τ : K),
      AxInv ax bx z tMX sx tdx → AxInv ay by_ w tMY sy tdy →
      InCl ax bx z τ → InCl ay by_ w τ →
      ∀ (i j : Nat) (t : K), τ ≤ t → LeOpt t tMX → LeOpt t tMY →
        (i : K) < ax + t * (bx - ax) → ax + t * (bx - ax) < (i : K) + 1 →
        (j : K) < ay + t * (by_ - ay) → ay + t * (by_ - ay) < (j : K) + 1 →
        (⟨i, j, zoom⟩ : Tile) = ⟨z.toNat, w.toNat, zoom⟩ := by
    intro tMX tMY z w τ hx hy hzτ hwτ i j t hτt htX htY h1 h2 h3 h4
    have hz := ax_nonneg hx hax hbx
    have hw := ax_nonneg hy hay hby
    obtain ⟨a1, a2⟩ := ax_mid hx hzτ hτt htX
    obtain ⟨b1, b2⟩ := ax_mid hy hwτ hτt htY
    rw [cell_eq hz h1 h2 a1 a2, cell_eq hw h3 h4 b1 b2]
  have hexit : ∀ (tMX tMY : Option K) (s : LState K) (z w : ℤ) (τ : K),
      AxInv ax bx z tMX sx tdx → AxInv ay by_ w tMY sy tdy →
      InCl ax bx z τ → InCl ay by_ w τ →
      ¬ (ltOne tMX || ltOne tMY) = true → s = s' →
      (∀ c ∈ s'.set, c ∈ s.set ∨ Meets ax bx ay by_ c) ∧ (∀ c ∈ s.set, c ∈ s'.set) ∧
      ((⟨z.toNat, w.toNat, zoom⟩ : Tile) ∈ s.set → ∀ (i j : Nat) (t : K), τ ≤ t → t ≤ 1 →
        (i : K) < ax + t * (bx - ax) → ax + t * (bx - ax) < (i : K) + 1 →
        (j : K) < ay + t * (by_ - ay) → ay + t * (by_ - ay) < (j : K) + 1 →
        (⟨i, j, zoom⟩ : Tile) ∈ s'.set) := by
    intro tMX tMY s z w τ hx hy hzτ hwτ hc hs
    simp only [Bool.or_eq_true, not_or, Bool.not_eq_true] at hc
    subst hs
    refine ⟨fun c hc' => Or.inl hc', fun c hc' => hc', ?_⟩
    intro hmem i j t hτt ht1 h1 h2 h3 h4
    rw [hcur tMX tMY z w τ hx hy hzτ hwτ i j t hτt (leOpt_of_not_ltOne hc.1 ht1)
      (leOpt_of_not_ltOne hc.2 ht1) h1 h2 h3 h4]
    exact hmem
  induction fuel with
  | zero =>
    intro tMX tMY s z w τ hx hy hsx hsy hτ0 hτ1 hzτ hwτ hτX hτY hwalk
    by_cases hc : (ltOne tMX || ltOne tMY) = true
    · simp [walk, hc] at hwalk
    · simp only [walk, hc] at hwalk
      exact hexit tMX tMY s z w τ hx hy hzτ hwτ hc (by simpa using hwalk)
  | succ n ih =>
    intro tMX tMY s z w τ hx hy hsx hsy hτ0 hτ1 hzτ hwτ hτX hτY hwalk
    have hz := ax_nonneg hx hax hbx
    have hw := ax_nonneg hy hay hby
    by_cases hc : (ltOne tMX || ltOne tMY) = true
    · by_cases hl : ltInf tMX tMY = true
      · have hX := ltOne_of_ltInf hc hl
        obtain ⟨m, rfl, hm1⟩ := some_of_ltOne hX
        obtain ⟨z', hz', hinv, _, _⟩ := ax_step hx hX
        have hz'0 := ax_nonneg hinv hax hbx
        obtain ⟨hedge, htd⟩ := ax_edge hx hz'
        have hτm : τ ≤ m := hτX
        have hmY : LeOpt m tMY := leOpt_of_ltInf hl
        have hwm : InCl ay by_ w m := ax_mid hy hwτ hτm hmY
        simp only [walk, hc, hl, if_true] at hwalk
        have hsx' : (LState.emit (opsK K) zoom { s with x := s.x + sx }).x = (z' : K) := by
          rw [emit_x]; show s.x + sx = _; rw [hsx, hz']
        have hsy' : (LState.emit (opsK K) zoom { s with x := s.x + sx }).y = (w : K) := by
          rw [emit_y]; exact hsy
        have hemit : (LState.emit (opsK K) zoom { s with x := s.x + sx }).set =
            ⟨z'.toNat, w.toNat, zoom⟩ :: s.set := by
          rw [emit_set]
          show (⟨⌊s.x + sx⌋.toNat, ⌊s.y⌋.toNat, zoom⟩ : Tile) :: s.set = _
          rw [hsx, hsy, hz', Int.floor_intCast, Int.floor_intCast]
        have hmX' : LeOpt m ((some m).map (· + tdx)) := by
          show m ≤ m + tdx
          linarith
        obtain ⟨hA, hB, hC⟩ := ih _ _ _ z' w m hinv hy hsx' hsy' (le_trans hτ0 hτm) hm1.le
          hedge hwm hmX' hmY hwalk
        rw [hemit] at hA hB hC
        refine ⟨?_, ?_, ?_⟩
        · intro c hc'
          rcases hA c hc' with h | h
          · rcases List.mem_cons.mp h with h | h
            · right
              rw [h]
              exact meets_of_inCl hz'0 hw (le_trans hτ0 hτm) hm1.le hedge hwm
            · exact Or.inl h
          · exact Or.inr h
        · intro c hc'
          exact hB c (List.mem_cons_of_mem _ hc')
        · intro hmem i j t hτt ht1 h1 h2 h3 h4
          by_cases htm : t ≤ m
          · rw [hcur (some m) tMY z w τ hx hy hzτ hwτ i j t hτt htm (leOpt_trans htm hmY)
              h1 h2 h3 h4]
            exact hB _ (List.mem_cons_of_mem _ hmem)
          · exact hC (List.mem_cons_self) i j t (not_le.mp htm).le ht1 h1 h2 h3 h4
      · have hY := ltOne_of_not_ltInf hc hl
        obtain ⟨m, rfl, hm1⟩ := some_of_ltOne hY
        obtain ⟨w', hw', hinv, _, _⟩ := ax_step hy hY
        have hw'0 := ax_nonneg hinv hay hby
        obtain ⟨hedge, htd⟩ := ax_edge hy hw'
        have hτm : τ ≤ m := hτY
        have hmX : LeOpt m tMX := leOpt_of_not_ltInf hl
        have hzm : InCl ax bx z m := ax_mid hx hzτ hτm hmX
        simp only [walk, hc, hl, if_true] at hwalk
        have hsx' : (LState.emit (opsK K) zoom { s with y := s.y + sy }).x = (z : K) := by
          rw [emit_x]; exact hsx
        have hsy' : (LState.emit (opsK K) zoom { s with y := s.y + sy }).y = (w' : K) := by
          rw [emit_y]; show s.y + sy = _; rw [hsy, hw']
        have hemit : (LState.emit (opsK K) zoom { s with y := s.y + sy }).set =
            ⟨z.toNat, w'.toNat, zoom⟩ :: s.set := by
          rw [emit_set]
          show (⟨⌊s.x⌋.toNat, ⌊s.y + sy⌋.toNat, zoom⟩ : Tile) :: s.set = _
          rw [hsx, hsy, hw', Int.floor_intCast, Int.floor_intCast]
        have hmY' : LeOpt m ((some m).map (· + tdy)) := by
          show m ≤ m + tdy
          linarith
        obtain ⟨hA, hB, hC⟩ := ih _ _ _ z w' m hx hinv hsx' hsy' (le_trans hτ0 hτm) hm1.le
          hzm hedge hmX hmY' hwalk
        rw [hemit] at hA hB hC
        refine ⟨?_, ?_, ?_⟩
        · intro c hc'
          rcases hA c hc' with h | h
          · rcases List.mem_cons.mp h with h | h
            · right
              rw [h]
              exact meets_of_inCl hz hw'0 (le_trans hτ0 hτm) hm1.le hzm hedge
            · exact Or.inl h
          · exact Or.inr h
        · intro c hc'
          exact hB c (List.mem_cons_of_mem _ hc')
        · intro hmem i j t hτt ht1 h1 h2 h3 h4
          by_cases htm : t ≤ m
          · rw [hcur tMX (some m) z w τ hx hy hzτ hwτ i j t hτt (leOpt_trans htm hmX) htm
              h1 h2 h3 h4]
            exact hB _ (List.mem_cons_of_mem _ hmem)
          · exact hC (List.mem_cons_self) i j t (not_le.mp htm).le ht1 h1 h2 h3 h4
    · simp only [walk, hc] at hwalk
      exact hexit tMX tMY s z w τ hx hy hzτ hwτ hc (by simpa using hwalk)

/-- `walk_geo` instantiated at the start of a segment (`a ≠ b`, first cell emitted, `τ = 0`) -/
theorem segment_geo (zoom fuel : Nat) (a b : Pt K) (s : LState K)
    (hax : 0 ≤ a.x) (hay : 0 ≤ a.y) (hbx : 0 ≤ b.x) (hby : 0 ≤ b.y)
    (hne : ¬ (b.y - a.y == 0 && b.x - a.x == 0) = true)
    (h : segment (opsK K) zoom fuel ⟨[], none, -1, -1, 0, 0⟩ a b = some s) :
    (∀ c ∈ s.set, Meets a.x b.x a.y b.y c) ∧
    (∀ (i j : Nat) (t : K), 0 ≤ t → t ≤ 1 →
      (i : K) < a.x + t * (b.x - a.x) → a.x + t * (b.x - a.x) < (i : K) + 1 →
      (j : K) < a.y + t * (b.y - a.y) → a.y + t * (b.y - a.y) < (j : K) + 1 →
      (⟨i, j, zoom⟩ : Tile) ∈ s.set) := by
  rw [segment_eq] at h
  have hfx : (0 : ℤ) ≤ ⌊a.x⌋ := Int.floor_nonneg.mpr hax
  have hfy : (0 : ℤ) ≤ ⌊a.y⌋ := Int.floor_nonneg.mpr hay
  have hprev : (!(((⌊a.x⌋ : ℤ) : K) == (-1 : K)) || !(((⌊a.y⌋ : ℤ) : K) == (-1 : K))) = true := by
    have : ((⌊a.x⌋ : ℤ) : K) ≠ -1 := by
      intro he
      have : ((⌊a.x⌋ : ℤ) : K) = ((-1 : ℤ) : K) := by rw [he]; simp
      have := Int.cast_injective this
      omega
    simp [this]
  simp only [hne, hprev, if_true] at h
  have hx0 : InCl a.x b.x ⌊a.x⌋ 0 := by
    refine ⟨?_, ?_⟩
    · rw [zero_mul, add_zero]; exact Int.floor_le a.x
    · rw [zero_mul, add_zero]; exact (Int.lt_floor_add_one a.x).le
  have hy0 : InCl a.y b.y ⌊a.y⌋ 0 := by
    refine ⟨?_, ?_⟩
    · rw [zero_mul, add_zero]; exact Int.floor_le a.y
    · rw [zero_mul, add_zero]; exact (Int.lt_floor_add_one a.y).le
  obtain ⟨hA, _, hC⟩ :=
    walk_geo zoom a.x b.x a.y b.y _ _ _ _ hax hbx hay hby s fuel _ _ _ ⌊a.x⌋ ⌊a.y⌋ 0
      (ax_init a.x b.x) (ax_init a.y b.y) (by rw [emit_x]) (by rw [emit_y])
      le_rfl zero_le_one hx0 hy0 (ax_tM_nonneg (ax_init a.x b.x)) (ax_tM_nonneg (ax_init a.y b.y)) h
  have hset : (LState.emit (opsK K) zoom
      { (⟨[], none, -1, -1, 0, 0⟩ : LState K) with x := ((⌊a.x⌋ : ℤ) : K), y := ((⌊a.y⌋ : ℤ) : K) }).set =
      [⟨⌊a.x⌋.toNat, ⌊a.y⌋.toNat, zoom⟩] := by
    rw [emit_set]
    show (⟨⌊((⌊a.x⌋ : ℤ) : K)⌋.toNat, ⌊((⌊a.y⌋ : ℤ) : K)⌋.toNat, zoom⟩ : Tile) :: [] = _
    rw [Int.floor_intCast, Int.floor_intCast]
  rw [hset] at hA hC
  refine ⟨?_, ?_⟩
  · intro c hc
    rcases hA c hc with h' | h'
    · rw [List.mem_singleton.mp h']
      exact meets_of_inCl hfx hfy le_rfl zero_le_one hx0 hy0
    · exact h'
  · intro i j t ht0 ht1 h1 h2 h3 h4
    exact hC (List.mem_singleton.mpr rfl) i j t ht0 ht1 h1 h2 h3 h4

/-- every tile of a segment's cover meets the segment (closed square) -/
theorem dda_sound' (zoom fuel : Nat) (a b : Pt K) (s : LState K)
    (hax : 0 ≤ a.x) (hay : 0 ≤ a.y) (hbx : 0 ≤ b.x) (hby : 0 ≤ b.y)
    (h : segment (opsK K) zoom fuel ⟨[], none, -1, -1, 0, 0⟩ a b = some s) :
    ∀ c ∈ s.set, ∃ t : K, 0 ≤ t ∧ t ≤ 1 ∧
      (c.x : K) ≤ a.x + t * (b.x - a.x) ∧ a.x + t * (b.x - a.x) ≤ (c.x : K) + 1 ∧
      (c.y : K) ≤ a.y + t * (b.y - a.y) ∧ a.y + t * (b.y - a.y) ≤ (c.y : K) + 1 := by
  by_cases hne : (b.y - a.y == 0 && b.x - a.x == 0) = true
  · rw [segment_eq] at h
    simp only [hne, if_true, Option.some.injEq] at h
    subst h
    intro c hc
    cases hc
  · exact (segment_geo zoom fuel a b s hax hay hbx hby hne h).1

/-- every tile whose open square the segment enters is in the segment's cover -/
theorem dda_complete' (zoom fuel : Nat) (a b : Pt K) (s : LState K)
    (hax : 0 ≤ a.x) (hay : 0 ≤ a.y) (hbx : 0 ≤ b.x) (hby : 0 ≤ b.y) (hab : a ≠ b)
    (h : segment (opsK K) zoom fuel ⟨[], none, -1, -1, 0, 0⟩ a b = some s) :
    ∀ (i j : Nat) (t : K), 0 ≤ t → t ≤ 1 →
      (i : K) < a.x + t * (b.x - a.x) → a.x + t * (b.x - a.x) < (i : K) + 1 →
      (j : K) < a.y + t * (b.y - a.y) → a.y + t * (b.y - a.y) < (j : K) + 1 →
      (⟨i, j, zoom⟩ : Tile) ∈ s.set := by
  have hne : ¬ (b.y - a.y == 0 && b.x - a.x == 0) = true := by
    intro hc
    simp only [Bool.and_eq_true, beq_iff_eq, sub_eq_zero] at hc
    apply hab
    cases a; cases b; simp_all
  exact (segment_geo zoom fuel a b s hax hay hbx hby hne h).2

end dda
end Orb.TileCover
