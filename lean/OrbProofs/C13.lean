/-
  C13 — Map tile arithmetic is a consistent quadtree of the mercator square.
  PROPERTY THEOREMS about the models `Orb.Tile` (maptile/tile.go, integer part) and
  `Orb.TileGeo` (Fraction / At / Bound / Center + mercator.ToGeo; second half of this file).

  `V t` is the property's quantifier: a valid tile with zoom 0..30.
  The abstract spec is the ancestor relation of the tile pyramid
  (`ancestorAt u k = (x / 2^k, y / 2^k, z - k)`), tied to the code's `parent`
  by `ancestorAt_eq_iterate_parent`.
-/
import OrbProofs.C13Lemmas
import OrbProofs.C13GeoLemmas

namespace Orb.Tile

/-- `Valid()` decides exactly `x, y < 2^z` (for z ≤ 31; at z ≥ 32 the uint32 shift wraps to 0). -/
theorem valid_iff (t : Tile) (hz : t.z ≤ 31) :
    valid t = true ↔ (t.x < 2^t.z ∧ t.y < 2^t.z) := valid_iff' t hz

/-- The abstract ancestor `k` levels up is `Parent()` applied `k` times. -/
theorem ancestorAt_eq_iterate_parent (u : Tile) (hu : V u) (k : Nat) (hk : k ≤ u.z) :
    ancestorAt u k = parentN k u := ancestorAt_eq_iterate_parent' u hu k hk

/-- The four children of EVERY tile of the quantifier (zoom 30 included) are valid tiles one level
    down whose parent is the tile.  "Valid" is stated as the range condition at the child's own zoom
    `t.z + 1 ≤ 31` together with `Valid() = true` (`V c` would demand `c.z ≤ 30` and so exclude the
    children of zoom-30 tiles). -/
theorem children_valid_parent (t : Tile) (ht : V t) :
    ∀ c ∈ children t, (c.x < 2 ^ c.z ∧ c.y < 2 ^ c.z ∧ c.z ≤ 31) ∧ valid c = true ∧
      c.z = t.z + 1 ∧ parent c = t := children_valid_parent_all' t ht

/-- Below zoom 30 the children are again tiles of the quantifier. -/
theorem children_valid_parent_V (t : Tile) (ht : V t) (hz : t.z < 30) :
    ∀ c ∈ children t, V c ∧ c.z = t.z + 1 ∧ parent c = t := children_valid_parent' t ht hz

/-- The four children are pairwise distinct. -/
theorem children_distinct (t : Tile) (ht : V t) : (children t).Nodup := children_distinct' t ht

/-- …and they are all of the tile's descendants one level down (every zoom 0..30; no validity
    hypothesis on `c` is needed). -/
theorem children_complete (t c : Tile) (ht : V t) (hcz : c.z = t.z + 1)
    (hp : parent c = t) : c ∈ children t := children_complete_all' t c ht hcz hp

/-- `Contains` agrees with the ancestor relation. -/
theorem contains_iff_ancestor (t u : Tile) (ht : V t) (hu : V u) :
    contains t u = true ↔ IsAncestor t u := contains_iff_ancestor' t u ht hu

/-- The quadkey round-trips. -/
theorem quadkey_roundtrip (t : Tile) (ht : V t) : fromQuadkey (quadkey t) t.z = t :=
  quadkey_roundtrip' t ht

/-- The quadkey of a valid tile fits in `2·z` bits. -/
theorem quadkey_lt (t : Tile) (ht : V t) : quadkey t < 4 ^ t.z := quadkey_lt' t ht

/-- The shared parent is a common ancestor of both tiles … -/
theorem sharedParent_common (t u : Tile) (ht : V t) (hu : V u) :
    IsAncestor (sharedParent t u) t ∧ IsAncestor (sharedParent t u) u :=
  sharedParent_common' t u ht hu

/-- … and the deepest one: every common ancestor is an ancestor of it. -/
theorem sharedParent_deepest (t u a : Tile) (ht : V t) (hu : V u)
    (hat : IsAncestor a t) (hau : IsAncestor a u) : IsAncestor a (sharedParent t u) :=
  sharedParent_deepest' t u a ht hu hat hau

/-- The range at a deeper zoom is exactly the block of descendants there. -/
theorem range_eq_descendants (t u : Tile) (z : Nat) (ht : V t) (hz : t.z ≤ z) (hz' : z ≤ 30)
    (hu : V u) (huz : u.z = z) :
    IsAncestor t u ↔
      ((range t z).1.x ≤ u.x ∧ u.x ≤ (range t z).2.x ∧ (range t z).1.y ≤ u.y ∧ u.y ≤ (range t z).2.y) :=
  range_eq_descendants' t u z ht hz hz' hu huz

/-- The range at a shallower zoom is the single ancestor there. -/
theorem range_up (t : Tile) (z : Nat) (ht : V t) (hz : z < t.z) :
    range t z = (ancestorAt t (t.z - z), ancestorAt t (t.z - z)) := range_up' t z ht hz

/-- `ChildrenInZoomRange` lists exactly the descendants with zoom in `[zs, ze]`, each once. -/
theorem childrenInZoomRange_spec (t : Tile) (zs ze : Nat) (ht : V t) (h1 : t.z ≤ zs) (h2 : zs ≤ ze) (h3 : ze ≤ 30) :
    ∃ l, childrenInZoomRange t zs ze = some l ∧ l.Nodup ∧
      ∀ u, u ∈ l ↔ (V u ∧ zs ≤ u.z ∧ u.z ≤ ze ∧ IsAncestor t u) :=
  childrenInZoomRange_spec' t zs ze ht h1 h2 h3

/-- Non-vacuity: a concrete valid tile and a concrete strict descendant. -/
example : V ⟨5, 9, 4⟩ ∧ IsAncestor ⟨5, 9, 4⟩ ⟨21, 38, 6⟩ ∧ contains ⟨5, 9, 4⟩ ⟨21, 38, 6⟩ = true := by
  refine ⟨by decide, ?_, by decide⟩
  exact ⟨by decide, by decide⟩

/-- Non-vacuity at the deepest zoom of the quantifier: the last tile of zoom 30 is in `V`, and its
    last child (zoom 31, coordinates `2^31 − 1`) is accepted by `Valid()` and has it as parent. -/
example : V ⟨2 ^ 30 - 1, 2 ^ 30 - 1, 30⟩ ∧
    (⟨2 ^ 31 - 1, 2 ^ 31 - 1, 31⟩ : Tile) ∈ children ⟨2 ^ 30 - 1, 2 ^ 30 - 1, 30⟩ ∧
    valid ⟨2 ^ 31 - 1, 2 ^ 31 - 1, 31⟩ = true ∧
    parent ⟨2 ^ 31 - 1, 2 ^ 31 - 1, 31⟩ = ⟨2 ^ 30 - 1, 2 ^ 30 - 1, 30⟩ := by
  have hV : V ⟨2 ^ 30 - 1, 2 ^ 30 - 1, 30⟩ := by decide
  have hm : (⟨2 ^ 31 - 1, 2 ^ 31 - 1, 31⟩ : Tile) ∈ children ⟨2 ^ 30 - 1, 2 ^ 30 - 1, 30⟩ := by
    rw [children_eq _ hV]; simp
  obtain ⟨_, hv, _, hp⟩ := children_valid_parent _ hV _ hm
  exact ⟨hV, hm, hv, hp⟩

end Orb.Tile

/-! ## Geography: `At`, `Bound`, `Center`

  The model `Orb.TileGeo` takes the transcendental maps as parameters of an environment `E`:
  `E.mercY` (latitude ↦ normalised mercator ordinate, Go: `0.5 + 0.5*log((1+sin φ)/(1−sin φ))/(−2π)`),
  `E.latOf` (ordinate ↦ latitude, Go: `2*atan(exp(π − 2π y))*(180/π) − 90`), `E.floorU32` (`uint32(f)`),
  `E.ofNat` (`float64(n)`), `E.latMax` (the literal 85.0511).  The theorems hold over every ordered field
  under the NAMED hypotheses (definitions in `C13GeoLemmas.lean`):

  * `CastExact`        `E.ofNat n = n`
  * `FloorSpec`        `n ≤ x < n+1 → E.floorU32 x = n`
  * `LatMaxNonneg`     `0 ≤ E.latMax`
  * `LatOfStrictAnti`  `a < b → E.latOf b < E.latOf a`
  * `MercYAntitone`    `a ≤ b → E.mercY b ≤ E.mercY a`
  * `MercYLatOf`       `0 ≤ y ≤ 1 → E.mercY (E.latOf y) = y`
  * `LatOfMercY`       `−latMax ≤ φ ≤ latMax → E.latOf (E.mercY φ) = φ`
  * `ClampInside`      `E.latMax < E.latOf 0 ∧ E.latOf 1 < −E.latMax`   (85.0511 < 85.05112878…)

  They are facts of real analysis about the Gudermannian pair, NOT proved here and NOT true of
  float64 `sin/log/atan/exp` to the last bit; the float-level agreement of the code with this model
  (same arithmetic on top of Go's own libm values) is what the correspondence run checks.
-/

namespace Orb.TileGeo
open Orb Orb.Tile

section geo
variable {α : Type} [Field α] [LinearOrder α] [IsStrictOrderedRing α]

/-- The tile found for a longitude in `[−180, 180]` and ANY latitude (clamped beyond ±latMax) is
    valid.  `lon = 180` gives the fraction `2^z` and relies on the last-column clamp (fix 440399b). -/
theorem at_valid (E : Env α) (hc : CastExact E) (hf : FloorSpec E)
    (hanti : MercYAntitone E) (h1 : MercYLatOf E) (h2 : LatOfMercY E) (hin : ClampInside E)
    (ll : Pt α) (z : Nat) (hz : z ≤ 31) (hlo : -180 ≤ ll.x) (hhi : ll.x ≤ 180) :
    (at_ E ll z).x < 2 ^ z ∧ (at_ E ll z).y < 2 ^ z ∧ (at_ E ll z).z = z :=
  at_valid' E hc hf hanti h1 h2 hin ll z hz hlo hhi

/-- For a longitude in `[−180, 180)` and an unclamped latitude the bound of the found tile contains
    the point — in the half-open sense (`InCell`: west/north edges included, east/south excluded),
    which is what makes the tile unique. -/
theorem at_bound_contains (E : Env α) (hc : CastExact E) (hf : FloorSpec E)
    (hlat : LatOfStrictAnti E) (hanti : MercYAntitone E) (h1 : MercYLatOf E) (h2 : LatOfMercY E)
    (hin : ClampInside E)
    (ll : Pt α) (z : Nat) (hz : z ≤ 31) (hlo : -180 ≤ ll.x) (hhi : ll.x < 180)
    (hlatlo : -E.latMax ≤ ll.y) (hlathi : ll.y ≤ E.latMax) :
    InCell (bound E (at_ E ll z) 0) ll :=
  at_bound_contains' E hc hf hlat hanti h1 h2 hin ll z hz hlo hhi hlatlo hlathi

/-- … hence also in the closed sense of `orb.Bound.Contains`, and in that sense on the WHOLE closed
    range of longitudes the property quantifies over, the antimeridian `lon = 180` included: there the
    fraction is `2^z`, the last-column clamp of `At` (fix 440399b) applies and the point lies on the east
    edge of the last column. -/
theorem at_bound_contains_closed (E : Env α) (hc : CastExact E) (hf : FloorSpec E)
    (hlat : LatOfStrictAnti E) (hanti : MercYAntitone E) (h1 : MercYLatOf E) (h2 : LatOfMercY E)
    (hin : ClampInside E)
    (ll : Pt α) (z : Nat) (hz : z ≤ 31) (hlo : -180 ≤ ll.x) (hhi : ll.x ≤ 180)
    (hlatlo : -E.latMax ≤ ll.y) (hlathi : ll.y ≤ E.latMax) :
    InBound (bound E (at_ E ll z) 0) ll :=
  at_bound_contains_closed' E hc hf hlat hanti h1 h2 hin ll z hz hlo hhi hlatlo hlathi

/-- The column found for the antimeridian is the last one. -/
theorem at_antimeridian_last_column (E : Env α) (hc : CastExact E) (hf : FloorSpec E) (ll : Pt α)
    (z : Nat) (hz : z ≤ 31) (h180 : ll.x = 180) : (at_ E ll z).x = 2 ^ z - 1 :=
  at_x_antimeridian E hc hf ll hz h180

/-- Latitudes beyond the clamp are snapped to the last row (south) / row 0 (north). -/
theorem at_clamped_row (E : Env α) (hc : CastExact E) (hf : FloorSpec E) (hm : LatMaxNonneg E)
    (ll : Pt α) (z : Nat) (hz : z ≤ 31) :
    (ll.y < -E.latMax → (at_ E ll z).y = 2 ^ z - 1) ∧ (E.latMax < ll.y → (at_ E ll z).y = 0) :=
  at_clamped_row' E hc hf hm ll z hz

/-- The centre of a valid tile maps back to the tile — PROVIDED the centre latitude is within the
    clamp (`_partial`: the full statement below is false, known finding C13-polar-clamp-center). -/
theorem center_maps_back_partial (E : Env α) (hc : CastExact E) (hf : FloorSpec E)
    (hlat : LatOfStrictAnti E) (hanti : MercYAntitone E) (h1 : MercYLatOf E) (h2 : LatOfMercY E)
    (t : Tile) (hz : t.z ≤ 31) (hx : t.x < 2 ^ t.z) (hy : t.y < 2 ^ t.z)
    (hclo : -E.latMax ≤ (center E t).y) (hchi : (center E t).y ≤ E.latMax) :
    at_ E (center E t) t.z = t :=
  center_maps_back' E hc hf hlat hanti h1 h2 t hz hx hy hclo hchi

/-- FULL statement of "the centre of a tile maps back to that tile": every valid tile, no side
    condition on the centre latitude.  It is FALSE for the code as it is — known finding
    C13-polar-clamp-center — see `center_polar_rows_fail` and `center_maps_back_full_fails`. -/
def center_maps_back_full (E : Env α) : Prop :=
  ∀ t : Tile, t.z ≤ 30 → t.x < 2 ^ t.z → t.y < 2 ^ t.z → at_ E (center E t) t.z = t

/-- The polar rows: a tile whose centre latitude is beyond the clamp and that is not in the edge
    row does NOT map back.  For the real projection such rows exist from zoom 18 on, between 85.0511
    and 85.05112878 (e.g. tile (950460,1,21), replayed by `./check C13`). -/
theorem center_polar_rows_fail (E : Env α) (hc : CastExact E) (hf : FloorSpec E) (hm : LatMaxNonneg E)
    (t : Tile) (hz : t.z ≤ 31) :
    (E.latMax < (center E t).y → t.y ≠ 0 → at_ E (center E t) t.z ≠ t) ∧
    ((center E t).y < -E.latMax → t.y ≠ 2 ^ t.z - 1 → at_ E (center E t) t.z ≠ t) :=
  center_polar_rows_fail' E hc hf hm t hz

/-- Witness: an environment with ALL the named hypotheses in which `center_maps_back_full` fails. -/
theorem center_maps_back_full_fails :
    ∃ E : Env ℚ, (CastExact E ∧ FloorSpec E ∧ LatMaxNonneg E ∧ LatOfStrictAnti E ∧
      MercYAntitone E ∧ MercYLatOf E ∧ LatOfMercY E ∧ ClampInside E) ∧ ¬ center_maps_back_full E :=
  center_maps_back_full_fails'

/-- Neighbouring tiles share their edge coordinates exactly: the east edge of `t` IS the west edge of
    its right neighbour and the south edge of `t` IS the north edge of the tile below. -/
theorem neighbours_share_edges (E : Env α) (hc : CastExact E) (t : Tile) (hz : t.z ≤ 31)
    (hy : t.y + 1 ≤ 2 ^ t.z) :
    (bound E t 0).max.x = (bound E ⟨t.x + 1, t.y, t.z⟩ 0).min.x ∧
    (bound E t 0).min.y = (bound E ⟨t.x, t.y + 1, t.z⟩ 0).max.y :=
  neighbours_share_edges' E hc t hz hy

end geo

/-- The same, for ANY carrier (no field, no order axioms — in particular `Float`): all that is used
    is `float64(x+1) = float64(x) + 1`, `float64(y+1) = float64(y) + 1`, that adding / subtracting the
    zero buffer leaves THESE two sums unchanged, and that the y clamps are inactive; after that both
    sides are the SAME term `360*(v/maxtiles − 0.5)` resp. `latOf(v/maxtiles)` of the same `v`.
    That is why the shared edges agree bit-for-bit in float64 and not just up to rounding.
    Every hypothesis is POINTWISE in the tile: the global forms (`∀ n, ofNat (n+1) = ofNat n + 1`,
    `∀ a, a + 0 = a`) are false of float64 (at `n = 2^53 + 1`, resp. bitwise at `a = −0.0`), the
    pointwise ones are true of it for every tile with coordinates below `2^53` — the driver evaluates
    them bit for bit on every `nbr` case (`Driver.C13.floatHypFails`), and `satEnv_neighbours` below is an
    instance in a non-field carrier whose conversion saturates like float64's. -/
theorem neighbours_share_edges_any {β : Type} [Add β] [Sub β] [Mul β] [Div β] [Neg β] [LT β] [DecidableLT β]
    [OfNat β 0] [OfNat β 1] [OfNat β 2] [OfNat β 90] [OfNat β 180] [OfNat β 360]
    (E : Env β) (t : Tile)
    (hsuccx : E.ofNat (t.x + 1) = E.ofNat t.x + 1)
    (hsuccy : E.ofNat (t.y + 1) = E.ofNat t.y + 1)
    (hadd0x : E.ofNat t.x + 1 + 0 = E.ofNat t.x + 1)
    (hadd0y : E.ofNat t.y + 1 + 0 = E.ofNat t.y + 1)
    (hsub0x : E.ofNat t.x + 1 - 0 = E.ofNat t.x + 1)
    (hsub0y : E.ofNat t.y + 1 - 0 = E.ofNat t.y + 1)
    (hnoclampN : ¬ (maxTiles32 E t.z < E.ofNat t.y + 1))
    (hnoclamp0 : ¬ (E.ofNat t.y + 1 < 0)) :
    (bound E t 0).max.x = (bound E ⟨t.x + 1, t.y, t.z⟩ 0).min.x ∧
    (bound E t 0).min.y = (bound E ⟨t.x, t.y + 1, t.z⟩ 0).max.y :=
  neighbours_share_edges_gen E t hsuccx hsuccy hadd0x hadd0y hsub0x hsub0y hnoclampN hnoclamp0

/-- Non-vacuity of the pointwise form where the global one was vacuous: in `satEnv` (carrier `Int`,
    `ofNat n = min n 2^53`) the global successor law is FALSE, yet every tile with `x < 2^53` inside the
    pyramid satisfies the hypotheses of `neighbours_share_edges_any`. -/
theorem satEnv_neighbours :
    (¬ ∀ n : Nat, satEnv.ofNat (n + 1) = satEnv.ofNat n + 1) ∧
    ∀ t : Tile, t.x < 2 ^ 53 → t.y + 1 ≤ 2 ^ t.z → t.z ≤ 31 →
      (bound satEnv t 0).max.x = (bound satEnv ⟨t.x + 1, t.y, t.z⟩ 0).min.x ∧
      (bound satEnv t 0).min.y = (bound satEnv ⟨t.x, t.y + 1, t.z⟩ 0).max.y :=
  ⟨satEnv_not_global_succ, fun t hx hy hz => satEnv_pointwise t hx hy hz⟩

section geo2
variable {α : Type} [Field α] [LinearOrder α] [IsStrictOrderedRing α]

/-- The children's bounds tile the parent's bound: their outer edges ARE the parent's edges and their
    inner edges ARE the parent's midlines `midLon t` / `midLat E t` (uses `x/2^z = (2x)/2^(z+1)`;
    in float64 that identity is exact too, divisions by powers of two being exact). -/
theorem children_bounds_tile_parent (E : Env α) (hc : CastExact E) (t : Tile) (hz : t.z ≤ 30)
    (hx : t.x < 2 ^ t.z) (hy : t.y < 2 ^ t.z) :
    (children t).map (fun c => bound E c 0) =
      let b := bound E t 0
      let mx : α := midLon t
      let my : α := midLat E t
      [ ⟨⟨b.min.x, my⟩, ⟨mx, b.max.y⟩⟩,
        ⟨⟨mx, my⟩, ⟨b.max.x, b.max.y⟩⟩,
        ⟨⟨mx, b.min.y⟩, ⟨b.max.x, my⟩⟩,
        ⟨⟨b.min.x, b.min.y⟩, ⟨mx, my⟩⟩ ] :=
  children_bounds' E hc t hz hx hy

/-- … with the midlines strictly inside, … -/
theorem children_midlines_inside (E : Env α) (hc : CastExact E) (hlat : LatOfStrictAnti E) (t : Tile)
    (hz : t.z ≤ 31) (hy : t.y < 2 ^ t.z) :
    (bound E t 0).min.x < midLon t ∧ midLon t < (bound E t 0).max.x ∧
    (bound E t 0).min.y < midLat E t ∧ midLat E t < (bound E t 0).max.y :=
  mid_strict E hc hlat t hz hy

/-- … so that, pointwise, the four child cells partition the parent cell: a point is in the parent's
    cell iff it is in some child's cell, and never in two of them. -/
theorem children_cells_partition (E : Env α) (hc : CastExact E) (hlat : LatOfStrictAnti E)
    (t : Tile) (hz : t.z ≤ 30) (hx : t.x < 2 ^ t.z) (hy : t.y < 2 ^ t.z) (p : Pt α) :
    (InCell (bound E t 0) p ↔ ∃ c ∈ children t, InCell (bound E c 0) p) ∧
    (children t).Pairwise (fun a b => ¬ (InCell (bound E a 0) p ∧ InCell (bound E b 0) p)) :=
  children_cells_partition' E hc hlat t hz hx hy p

end geo2

/-- Non-vacuity: the named hypotheses are jointly satisfiable (`toyEnv`, an affine pair over ℚ), and
    in that environment the antimeridian point (180, 0) at zoom 3 lands in the last column
    (fraction 8 → clamp → 7), row 4. -/
example :
    (CastExact toyEnv ∧ FloorSpec toyEnv ∧ LatMaxNonneg toyEnv ∧ LatOfStrictAnti toyEnv ∧
      MercYAntitone toyEnv ∧ MercYLatOf toyEnv ∧ LatOfMercY toyEnv ∧ ClampInside toyEnv) ∧
    at_ toyEnv ⟨180, 0⟩ 3 = ⟨7, 4, 3⟩ := by
  refine ⟨toyEnv_hyps, ?_⟩
  exact at_toy_example

/-- Non-vacuity of the closed containment AT the antimeridian: in `toyEnv` the point (180, 0) lies in
    the closed bound of the tile found for it at zoom 3 (the last column, whose east edge is 180). -/
example : InBound (bound toyEnv (at_ toyEnv ⟨180, 0⟩ 3) 0) (⟨180, 0⟩ : Pt ℚ) := by
  obtain ⟨hc, hf, _, hlat, hanti, h1, h2, hin⟩ := toyEnv_hyps
  exact at_bound_contains_closed toyEnv hc hf hlat hanti h1 h2 hin ⟨180, 0⟩ 3 (by decide)
    (by norm_num) (le_refl _) (by simp only [toyEnv]; norm_num) (by simp only [toyEnv]; norm_num)

end Orb.TileGeo
