/-
  C13 — Map tile arithmetic is a consistent quadtree of the mercator square.
  PROPERTY THEOREMS about the model `Orb.Tile` (maptile/tile.go, integer part).

  `V t` is the property's quantifier: a valid tile with zoom 0..30.
  The abstract spec is the ancestor relation of the tile pyramid
  (`ancestorAt u k = (x / 2^k, y / 2^k, z - k)`), tied to the code's `parent`
  by `ancestorAt_eq_iterate_parent`.
-/
import OrbProofs.C13Lemmas

namespace Orb.Tile

/-- `Valid()` decides exactly `x, y < 2^z` (for z ≤ 31; at z ≥ 32 the uint32 shift wraps to 0). -/
theorem valid_iff (t : Tile) (hz : t.z ≤ 31) :
    valid t = true ↔ (t.x < 2^t.z ∧ t.y < 2^t.z) := valid_iff' t hz

/-- The abstract ancestor `k` levels up is `Parent()` applied `k` times. -/
theorem ancestorAt_eq_iterate_parent (u : Tile) (hu : V u) (k : Nat) (hk : k ≤ u.z) :
    ancestorAt u k = parentN k u := ancestorAt_eq_iterate_parent' u hu k hk

/-- The four children are valid tiles one level down whose parent is the tile. -/
theorem children_valid_parent (t : Tile) (ht : V t) (hz : t.z < 30) :
    ∀ c ∈ children t, V c ∧ c.z = t.z + 1 ∧ parent c = t := children_valid_parent' t ht hz

/-- The four children are pairwise distinct. -/
theorem children_distinct (t : Tile) (ht : V t) : (children t).Nodup := children_distinct' t ht

/-- …and they are all of the tile's descendants one level down. -/
theorem children_complete (t c : Tile) (ht : V t) (hz : t.z < 30) (hc : V c) (hcz : c.z = t.z + 1)
    (hp : parent c = t) : c ∈ children t := children_complete' t c ht hz hc hcz hp

/-- `Contains` agrees with the ancestor relation. -/
theorem contains_iff_ancestor (t u : Tile) (ht : V t) (hu : V u) :
    contains t u = true ↔ IsAncestor t u := contains_iff_ancestor' t u ht hu

/-- The quadkey round-trips. -/
theorem quadkey_roundtrip (t : Tile) (ht : V t) : fromQuadkey (quadkey t) t.z = t :=
  quadkey_roundtrip' t ht

/-- The quadkey of a valid tile fits in `2·z` bits. -/
theorem quadkey_lt (t : Tile) (ht : V t) : quadkey t < 4 ^ t.z := quadkey_lt' t ht

/-- The shared parent is a common ancestor of both tiles … -/
theorem sharedParent_common (t u : Tile) (ht : V t) (hu : V u) :
    IsAncestor (sharedParent t u) t ∧ IsAncestor (sharedParent t u) u :=
  sharedParent_common' t u ht hu

/-- … and the deepest one: every common ancestor is an ancestor of it. -/
theorem sharedParent_deepest (t u a : Tile) (ht : V t) (hu : V u)
    (hat : IsAncestor a t) (hau : IsAncestor a u) : IsAncestor a (sharedParent t u) :=
  sharedParent_deepest' t u a ht hu hat hau

/-- The range at a deeper zoom is exactly the block of descendants there. -/
theorem range_eq_descendants (t u : Tile) (z : Nat) (ht : V t) (hz : t.z ≤ z) (hz' : z ≤ 30)
    (hu : V u) (huz : u.z = z) :
    IsAncestor t u ↔
      ((range t z).1.x ≤ u.x ∧ u.x ≤ (range t z).2.x ∧ (range t z).1.y ≤ u.y ∧ u.y ≤ (range t z).2.y) :=
  range_eq_descendants' t u z ht hz hz' hu huz

/-- The range at a shallower zoom is the single ancestor there. -/
theorem range_up (t : Tile) (z : Nat) (ht : V t) (hz : z < t.z) :
    range t z = (ancestorAt t (t.z - z), ancestorAt t (t.z - z)) := range_up' t z ht hz

/-- `ChildrenInZoomRange` lists exactly the descendants with zoom in `[zs, ze]`, each once. -/
theorem childrenInZoomRange_spec (t : Tile) (zs ze : Nat) (ht : V t) (h1 : t.z ≤ zs) (h2 : zs ≤ ze) (h3 : ze ≤ 30) :
    ∃ l, childrenInZoomRange t zs ze = some l ∧ l.Nodup ∧
      ∀ u, u ∈ l ↔ (V u ∧ zs ≤ u.z ∧ u.z ≤ ze ∧ IsAncestor t u) :=
  childrenInZoomRange_spec' t zs ze ht h1 h2 h3

/-- Non-vacuity: a concrete valid tile and a concrete strict descendant. -/
example : V ⟨5, 9, 4⟩ ∧ IsAncestor ⟨5, 9, 4⟩ ⟨21, 38, 6⟩ ∧ contains ⟨5, 9, 4⟩ ⟨21, 38, 6⟩ = true := by
  refine ⟨by decide, ?_, by decide⟩
  exact ⟨by decide, by decide⟩

end Orb.Tile
