/-
  C16 — region clause, lifted to `smartclip.Polygon` and `smartclip.MultiPolygon` (one-bit form).

  The even-odd region of ALL the rings of a (multi-)polygon together (`multiEvenOdd`: on a ring, or an
  odd number of ring edges above) is what is compared: it does not depend on which polygon a hole has
  been attached to, only on no ring being lost.  `addToMultiPolygon` DROPS a closed interior ring that
  no returned outer ring contains (by its own crossing test `polygonContains`); `addAll_keep` shows that
  nothing is dropped when every such ring is contained in some returned polygon (`Contained`), and that
  is the hypothesis `hk` below (automatic when `smartWrap` returns a single polygon, for `Polygon`).

  * `polygon_region_const`, `polygon_region_of_ref` — `smartclip.Polygon`;
  * `multiPolygon_region_const`, `multiPolygon_region_of_ref` — `smartclip.MultiPolygon`.
  Hypotheses as for `ring_region_const`: every ring closed in Go's sense, an open piece exists,
  piece start points pairwise distinct.
-/
import OrbProofs.C16Region

namespace Orb.SmartClip
open Orb Orb.Core
open Orb.Clip.C16R (OutE Decomp SameSide dE pot)
open Orb.Clip.C08R (crE onE)

set_option linter.unusedSectionVars false
set_option linter.unusedSimpArgs false
set_option linter.unusedVariables false

variable {α : Type} [Field α] [LinearOrder α] [IsStrictOrderedRing α]

/-! ### no ring is lost by the hole assignment -/

/-- the ring is contained (by smartclip's own vertex test) in one of the polygons with these outer rings -/
def Contained (heads : List (Option (List (Pt α)))) (ring : List (Pt α)) : Prop :=
  ∃ outer, some outer ∈ heads ∧ polygonContains outer ring = true

theorem flatten_modify_append {β : Type} (x : β) : ∀ (l : List (List β)) (j : Nat) (o : β) (hs : List β),
    l[j]? = some (o :: hs) →
    (l.modify j (· ++ [x])).flatten.Perm (l.flatten ++ [x]) ∧
      (l.modify j (· ++ [x])).map List.head? = l.map List.head? := by
  intro l
  induction l with
  | nil => intro j o hs hj; simp at hj
  | cons a l ih =>
    intro j o hs hj
    cases j with
    | zero =>
      rw [List.getElem?_cons_zero, Option.some.injEq] at hj
      subst hj
      rw [List.modify_zero_cons]
      constructor
      · simp only [List.flatten_cons, List.append_assoc]
        exact List.Perm.append_left _ List.perm_append_comm
      · simp
    | succ j =>
      rw [List.getElem?_cons_succ] at hj
      rw [List.modify_succ_cons]
      obtain ⟨p1, p2⟩ := ih j o hs hj
      constructor
      · simp only [List.flatten_cons, List.append_assoc]
        exact List.Perm.append_left _ p1
      · simp only [List.map_cons, p2]

theorem addTo_keep (mp : List (List (List (Pt α)))) (ring : List (Pt α)) : ∀ out,
    addToMultiPolygon mp ring = .ok out → Contained (mp.map List.head?) ring →
    out.flatten.Perm (mp.flatten ++ [ring]) ∧ out.map List.head? = mp.map List.head? := by
  intro out h hc
  rcases addTo_spec mp ring out h with ⟨_, hno⟩ | ⟨j, outer, holes, hj, rfl, _, _⟩
  · obtain ⟨o, hm, hp⟩ := hc
    obtain ⟨pg, hpg, e⟩ := List.mem_map.1 hm
    obtain ⟨o', hs, rfl, hf⟩ := hno pg hpg
    simp only [List.head?_cons, Option.some.injEq] at e
    subst e
    rw [hp] at hf
    cases hf
  · exact flatten_modify_append ring mp j outer holes hj

/-- the point of fix C16-3.  When `addToMultiPolygon` attaches the ring to polygon number `j`, the outer
    ring of that polygon contains a vertex of the ring, and the choice is innermost for the scan: no LATER
    polygon both contains a vertex of the ring and has a vertex of its outer ring inside polygon `j`'s
    outer ring (such a polygon would have replaced `j`). -/
theorem addTo_innermost (mp : List (List (List (Pt α)))) (ring : List (Pt α)) (out : List (List (List (Pt α))))
    (h : addToMultiPolygon mp ring = .ok out) (j : Nat) (hj : j < mp.length)
    (ho : out = mp.modify j (· ++ [ring])) :
    ∃ outer, mp[j].head? = some outer ∧ polygonContains outer ring = true ∧
      ∀ k (hk : k < mp.length), j < k → ∀ outerk, mp[k].head? = some outerk →
        polygonContains outerk ring = true → polygonContains outer outerk = false := by
  -- the position at which a ring was appended is determined by the result
  have hpos : ∀ j', j' < mp.length → out = mp.modify j' (· ++ [ring]) → j' = j := by
    intro j' hj' ho'
    by_contra hne
    have e : (mp.modify j' (· ++ [ring]))[j]'(by rw [List.length_modify]; exact hj) =
        (mp.modify j (· ++ [ring]))[j]'(by rw [List.length_modify]; exact hj) := by
      simp only [← ho', ← ho]
    rw [List.getElem_modify, List.getElem_modify, if_neg hne, if_pos rfl] at e
    have := congrArg List.length e
    simp at this
  rcases addTo_spec mp ring out h with ⟨rfl, _⟩ | ⟨j', outer, holes, hj', ho', hc, hlater⟩
  · exfalso
    have e : out[j] = (out.modify j (· ++ [ring]))[j]'(by rw [List.length_modify]; exact hj) := by
      simp only [← ho]
    rw [List.getElem_modify, if_pos rfl] at e
    have := congrArg List.length e
    simp at this
  · obtain ⟨hj'l, hj'e⟩ := List.getElem?_eq_some_iff.1 hj'
    have : j' = j := hpos j' hj'l ho'
    subst this
    refine ⟨outer, by rw [hj'e]; rfl, hc, ?_⟩
    intro k hk hjk outerk hhead hck
    obtain ⟨o', hs, e, hf⟩ := hlater k mp[k] hjk (List.getElem?_eq_getElem hk)
    rw [e, List.head?_cons, Option.some.injEq] at hhead
    subst hhead
    rw [hck, Bool.true_and] at hf
    exact hf

theorem addAll_keep (rings : List (List (Pt α))) : ∀ (mp out : List (List (List (Pt α)))),
    addAll mp rings = .ok out → (∀ ring ∈ rings, Contained (mp.map List.head?) ring) →
    out.flatten.Perm (mp.flatten ++ rings) := by
  induction rings with
  | nil =>
    intro mp out h _
    simp only [addAll, List.foldlM_nil, resD_pure, Res.ok.injEq] at h
    subst h; simp
  | cons r rest ih =>
    intro mp out h hc
    rw [addAll_cons] at h
    obtain ⟨mp', h1, h2⟩ := resD_bind_eq_ok h
    obtain ⟨p1, p2⟩ := addTo_keep mp r mp' h1 (hc r List.mem_cons_self)
    have := ih mp' out h2 (by
      intro ring hring
      rw [p2]
      exact hc ring (List.mem_cons_of_mem _ hring))
    refine this.trans ?_
    have e : mp.flatten ++ r :: rest = (mp.flatten ++ [r]) ++ rest := by simp
    rw [e]
    exact List.Perm.append_right _ p1

theorem flatten_map_single {β : Type} (l : List β) : (l.map fun r => [r]).flatten = l := by
  induction l with
  | nil => rfl
  | cons a l ih => simp [ih]

/-! ### `smartclip.Polygon` -/

/-- the rings `smartclip.Polygon` returns: those `smartWrap` makes of the open pieces, and the closed
    interior rings — provided none of the latter is dropped by the hole assignment -/
theorem polygon_keep (box : Bound α) (p : List (List (Pt α))) (o : Int) (hne : p ≠ [])
    (op cl : List (List (Pt α))) (hcr : clipRings box p = .ok (op, cl)) (hop : op ≠ [])
    (result : List (List (List (Pt α)))) (hw : smartWrap box op o = .ok result)
    (out : List (List (List (Pt α)))) (h : polygon box p o = .ok out)
    (hk : (∃ pg, result = [pg]) ∨ ∀ ring ∈ cl, Contained (result.map List.head?) ring) :
    out.flatten.Perm (result.flatten ++ cl) := by
  have hemp : p.isEmpty = false := by
    cases p with
    | nil => exact absurd rfl hne
    | cons a t => rfl
  have hopE : op.isEmpty = false := by
    cases op with
    | nil => exact absurd rfl hop
    | cons a t => rfl
  rw [polygon_unfold, hemp, hcr] at h
  simp only [Bool.false_eq_true, if_false, resD_ok_bind, hopE, hw] at h
  match result, hk, h with
  | [pg], _, h =>
    simp only [resD_pure, Res.ok.injEq] at h
    subst h; simp
  | [], hk, h =>
    rcases hk with ⟨pg, hpg⟩ | hk
    · cases hpg
    · exact addAll_keep cl [] out h hk
  | pg1 :: pg2 :: rest, hk, h =>
    rcases hk with ⟨pg, hpg⟩ | hk
    · cases hpg
    · exact addAll_keep cl _ out h hk

/-- `smartclip.Polygon`: output and input differ by a mod-2 cycle of edges avoiding the open box -/
theorem polygon_cycle (box : Bound α) (hb : BoxOK box) (p : List (List (Pt α))) (o : Int) (ho : o = CW ∨ o = CCW)
    (hrc : ∀ r ∈ p, ringClosed r = true) (op cl : List (List (Pt α))) (hcr : clipRings box p = .ok (op, cl))
    (hop : op ≠ []) (hnd : (op.map List.head?).Nodup)
    (result : List (List (List (Pt α)))) (hw : smartWrap box op o = .ok result)
    (out : List (List (List (Pt α)))) (h : polygon box p o = .ok out)
    (hk : (∃ pg, result = [pg]) ∨ ∀ ring ∈ cl, Contained (result.map List.head?) ring) :
    ∃ Z : List (Pt α × Pt α), (∀ se ∈ Z, OutE box se.1 se.2) ∧ (∀ g : Pt α → Bool, dE g Z = false) ∧
      (∀ q, (crE (out.flatten.flatMap EvenOdd.edges) q != crE (p.flatMap EvenOdd.edges) q) = crE Z q) ∧
      (∀ q, InOpenBox box q → onE (out.flatten.flatMap EvenOdd.edges) q = onE (p.flatMap EvenOdd.edges) q) := by
  have hne : p ≠ [] := by
    rintro rfl
    simp [clipRings, clipAll, partitionPieces] at hcr
    exact hop hcr.1
  obtain ⟨⟨O, hO, D⟩, hpok, hcl⟩ := clipRings_decomp_multi box hb p hrc op cl hcr
  exact cycle_core box hb o ho p (fun r hr => ringClosed_closed r (hrc r hr)) op cl hpok hnd
    (insideRing_closed hcl) O hO D result hw out.flatten
    (polygon_keep box p o hne op cl hcr hop result hw out h hk)

/-- (R5, one-bit form) `smartclip.Polygon`: the discrepancy between the even-odd region of all returned
    rings and that of all input rings is the same at all points of the open box. -/
theorem polygon_region_const (box : Bound α) (hb : BoxOK box) (p : List (List (Pt α))) (o : Int)
    (ho : o = CW ∨ o = CCW) (hrc : ∀ r ∈ p, ringClosed r = true) (op cl : List (List (Pt α)))
    (hcr : clipRings box p = .ok (op, cl)) (hop : op ≠ []) (hnd : (op.map List.head?).Nodup)
    (result : List (List (List (Pt α)))) (hw : smartWrap box op o = .ok result)
    (out : List (List (List (Pt α)))) (h : polygon box p o = .ok out)
    (hk : (∃ pg, result = [pg]) ∨ ∀ ring ∈ cl, Contained (result.map List.head?) ring)
    (q q₀ : Pt α) (hq : InOpenBox box q) (hq₀ : InOpenBox box q₀) :
    ((multiCrossings out q % 2 == 1) != (multiCrossings [p] q % 2 == 1)) =
      ((multiCrossings out q₀ % 2 == 1) != (multiCrossings [p] q₀ % 2 == 1)) := by
  have hZ := polygon_cycle box hb p o ho hrc op cl hcr hop hnd result hw out h hk
  rw [multiCrossings_parity, multiCrossings_parity, multiCrossings_parity, multiCrossings_parity]
  simp only [List.flatten_cons, List.flatten_nil, List.append_nil]
  exact cycle_const box hb _ _ hZ q q₀ hq hq₀

/-- `smartclip.Polygon`: right at one point of the open box ⇒ right at every point of the open box. -/
theorem polygon_region_of_ref (box : Bound α) (hb : BoxOK box) (p : List (List (Pt α))) (o : Int)
    (ho : o = CW ∨ o = CCW) (hrc : ∀ r ∈ p, ringClosed r = true) (op cl : List (List (Pt α)))
    (hcr : clipRings box p = .ok (op, cl)) (hop : op ≠ []) (hnd : (op.map List.head?).Nodup)
    (result : List (List (List (Pt α)))) (hw : smartWrap box op o = .ok result)
    (out : List (List (List (Pt α)))) (h : polygon box p o = .ok out)
    (hk : (∃ pg, result = [pg]) ∨ ∀ ring ∈ cl, Contained (result.map List.head?) ring)
    (q₀ : Pt α) (hq₀ : InOpenBox box q₀) (href : multiCrossings out q₀ % 2 = multiCrossings [p] q₀ % 2)
    (q : Pt α) (hq : InOpenBox box q) :
    multiCrossings out q % 2 = multiCrossings [p] q % 2 ∧ multiOnBoundary out q = multiOnBoundary [p] q ∧
      multiEvenOdd out q = multiEvenOdd [p] q := by
  have hc := polygon_region_const box hb p o ho hrc op cl hcr hop hnd result hw out h hk q q₀ hq hq₀
  obtain ⟨Z, _, _, _, hon⟩ := polygon_cycle box hb p o ho hrc op cl hcr hop hnd result hw out h hk
  have h1 : multiCrossings out q % 2 = multiCrossings [p] q % 2 := parity_transfer hc href
  have h2 : multiOnBoundary out q = multiOnBoundary [p] q := by
    rw [multiOnBoundary_eq, multiOnBoundary_eq]
    simp only [List.flatten_cons, List.flatten_nil, List.append_nil]
    exact hon q hq
  refine ⟨h1, h2, ?_⟩
  unfold multiEvenOdd
  rw [h2, h1]

/-- `smartclip.Polygon`, with signs: the total winding number of the returned rings differs from that of
    the input rings by the same integer at all points of the open box. -/
theorem polygon_winding_const (box : Bound α) (hb : BoxOK box) (p : List (List (Pt α))) (o : Int)
    (ho : o = CW ∨ o = CCW) (hrc : ∀ r ∈ p, ringClosed r = true) (op cl : List (List (Pt α)))
    (hcr : clipRings box p = .ok (op, cl)) (hop : op ≠ []) (hnd : (op.map List.head?).Nodup)
    (result : List (List (List (Pt α)))) (hw : smartWrap box op o = .ok result)
    (out : List (List (List (Pt α)))) (h : polygon box p o = .ok out)
    (hk : (∃ pg, result = [pg]) ∨ ∀ ring ∈ cl, Contained (result.map List.head?) ring)
    (q q₀ : Pt α) (hq : InOpenBox box q) (hq₀ : InOpenBox box q₀) :
    multiWinding out q - multiWinding [p] q = multiWinding out q₀ - multiWinding [p] q₀ := by
  have hne : p ≠ [] := by
    rintro rfl
    simp [clipRings, clipAll, partitionPieces] at hcr
    exact hop hcr.1
  obtain ⟨⟨O, hO, D⟩, hpok, hcl⟩ := clipRings_decomp_multi box hb p hrc op cl hcr
  have := cycle_core_w box hb o ho p (fun r hr => ringClosed_closed r (hrc r hr)) op cl hpok hnd
    (insideRing_closed hcl) O hO D result hw out.flatten
    (polygon_keep box p o hne op cl hcr hop result hw out h hk) q q₀ hq hq₀
  rw [multiWinding_eq, multiWinding_eq, multiWinding_eq, multiWinding_eq]
  simpa using this

/-! ### `smartclip.MultiPolygon` -/

theorem outer_inner_perm (mp : List (List (List (Pt α)))) :
    (outerRings mp ++ mp.flatMap fun p => p.drop 1).Perm mp.flatten := by
  induction mp with
  | nil => exact List.Perm.refl _
  | cons p rest ih =>
    cases p with
    | nil =>
      simp only [outerRings, List.flatMap_cons, List.drop_nil, List.nil_append, List.flatten_cons]
      exact ih
    | cons o hs =>
      simp only [outerRings, List.flatMap_cons, List.drop_succ_cons, List.drop_zero, List.flatten_cons,
        List.cons_append]
      refine List.Perm.cons _ ?_
      -- outerRings rest ++ (hs ++ inner rest) ~ hs ++ rest.flatten
      have e1 : (outerRings rest ++ (hs ++ rest.flatMap fun p => p.drop 1)).Perm
          (hs ++ (outerRings rest ++ rest.flatMap fun p => p.drop 1)) := by
        rw [← List.append_assoc, ← List.append_assoc]
        exact List.Perm.append_right _ List.perm_append_comm
      exact e1.trans (List.Perm.append_left _ ih)

/-- the branch of `smartclip.MultiPolygon` taken when an outer ring is cut by the box -/
theorem multiPolygon_eq (box : Bound α) (mp : List (List (List (Pt α)))) (o : Int) (hne : mp ≠ [])
    (op co inn ci : List (List (Pt α))) (hcr1 : clipRings box (outerRings mp) = .ok (op, co)) (hop : op ≠ [])
    (hcr2 : clipRings box (mp.flatMap fun p => p.drop 1) = .ok (inn, ci))
    (result : List (List (List (Pt α)))) (hw : smartWrap box (op ++ inn) o = .ok result) :
    multiPolygon box mp o = addAll (result ++ co.map fun r => [r]) ci := by
  have hemp : mp.isEmpty = false := by
    cases mp with
    | nil => exact absurd rfl hne
    | cons a t => rfl
  have hopE : op.isEmpty = false := by
    cases op with
    | nil => exact absurd rfl hop
    | cons a t => rfl
  rw [multiPolygon_unfold, hemp, hcr1]
  simp only [Bool.false_eq_true, if_false, resD_ok_bind, hopE, Bool.false_and, hcr2, hw]

/-- `smartclip.MultiPolygon`: output and input differ by a mod-2 cycle of edges avoiding the open box -/
theorem multiPolygon_cycle (box : Bound α) (hb : BoxOK box) (mp : List (List (List (Pt α)))) (o : Int)
    (ho : o = CW ∨ o = CCW) (hrc : ∀ p ∈ mp, ∀ r ∈ p, ringClosed r = true)
    (op co inn ci : List (List (Pt α))) (hcr1 : clipRings box (outerRings mp) = .ok (op, co)) (hop : op ≠ [])
    (hcr2 : clipRings box (mp.flatMap fun p => p.drop 1) = .ok (inn, ci))
    (hnd : ((op ++ inn).map List.head?).Nodup)
    (result : List (List (List (Pt α)))) (hw : smartWrap box (op ++ inn) o = .ok result)
    (out : List (List (List (Pt α)))) (h : multiPolygon box mp o = .ok out)
    (hk : ∀ ring ∈ ci, Contained ((result ++ co.map fun r => [r]).map List.head?) ring) :
    ∃ Z : List (Pt α × Pt α), (∀ se ∈ Z, OutE box se.1 se.2) ∧ (∀ g : Pt α → Bool, dE g Z = false) ∧
      (∀ q, (crE (out.flatten.flatMap EvenOdd.edges) q != crE (mp.flatten.flatMap EvenOdd.edges) q) = crE Z q) ∧
      (∀ q, InOpenBox box q →
        onE (out.flatten.flatMap EvenOdd.edges) q = onE (mp.flatten.flatMap EvenOdd.edges) q) := by
  have hne : mp ≠ [] := by
    rintro rfl
    simp [outerRings, clipRings, clipAll, partitionPieces] at hcr1
    exact hop hcr1.1
  have hmem : ∀ r ∈ mp.flatten, ringClosed r = true := by
    intro r hr
    obtain ⟨p, hp, hr⟩ := List.mem_flatten.1 hr
    exact hrc p hp r hr
  have hpm := outer_inner_perm mp
  have hrc1 : ∀ r ∈ outerRings mp, ringClosed r = true :=
    fun r hr => hmem r (hpm.subset (List.mem_append_left _ hr))
  have hrc2 : ∀ r ∈ (mp.flatMap fun p => p.drop 1), ringClosed r = true :=
    fun r hr => hmem r (hpm.subset (List.mem_append_right _ hr))
  obtain ⟨⟨O1, hO1, D1⟩, hpok1, hcl1⟩ := clipRings_decomp_multi box hb _ hrc1 op co hcr1
  obtain ⟨⟨O2, hO2, D2⟩, hpok2, hcl2⟩ := clipRings_decomp_multi box hb _ hrc2 inn ci hcr2
  rw [multiPolygon_eq box mp o hne op co inn ci hcr1 hop hcr2 result hw] at h
  have hkeep := addAll_keep ci _ out h hk
  rw [List.flatten_append, flatten_map_single] at hkeep
  -- the combined decomposition
  have D : Decomp ((outerRings mp ++ mp.flatMap fun p => p.drop 1).flatMap Contains.chain)
      (((op ++ inn) ++ (co ++ ci)).flatMap Contains.chain) (O1 ++ O2) := by
    have := D1.append D2
    rw [← List.flatMap_append, ← List.flatMap_append] at this
    refine this.of_perm (List.Perm.flatMap_right _ ?_) (List.Perm.refl _)
    -- (op ++ co) ++ (inn ++ ci) ~ (op ++ inn) ++ (co ++ ci)
    have e : ((op ++ co) ++ (inn ++ ci)).Perm (op ++ ((inn ++ co) ++ ci)) := by
      simp only [List.append_assoc]
      refine List.Perm.append_left _ ?_
      rw [← List.append_assoc, ← List.append_assoc]
      exact List.Perm.append_right _ List.perm_append_comm
    refine e.trans ?_
    simp only [List.append_assoc]
    exact List.Perm.refl _
  have hZ := cycle_core box hb o ho (outerRings mp ++ mp.flatMap fun p => p.drop 1)
    (fun r hr => ringClosed_closed r (hmem r (hpm.subset hr))) (op ++ inn) (co ++ ci)
    (by
      intro ls hls
      rcases List.mem_append.1 hls with h' | h'
      · exact hpok1 ls h'
      · exact hpok2 ls h')
    hnd
    (by
      intro rg hrg
      rcases List.mem_append.1 hrg with h' | h'
      · exact insideRing_closed hcl1 rg h'
      · exact insideRing_closed hcl2 rg h')
    (O1 ++ O2)
    (by
      intro se hse
      rcases List.mem_append.1 hse with h' | h'
      · exact hO1 se h'
      · exact hO2 se h')
    D result hw out.flatten (by rw [← List.append_assoc]; exact hkeep)
  obtain ⟨Z, z1, z2, z3, z4⟩ := hZ
  have pe := List.Perm.flatMap_right EvenOdd.edges hpm
  refine ⟨Z, z1, z2, ?_, ?_⟩
  · intro q; rw [← z3 q, Clip.C16R.crE_perm pe q]
  · intro q hq; rw [z4 q hq, Clip.C16R.onE_perm pe q]

/-- `smartclip.MultiPolygon`, with signs. -/
theorem multiPolygon_winding_const (box : Bound α) (hb : BoxOK box) (mp : List (List (List (Pt α)))) (o : Int)
    (ho : o = CW ∨ o = CCW) (hrc : ∀ p ∈ mp, ∀ r ∈ p, ringClosed r = true)
    (op co inn ci : List (List (Pt α))) (hcr1 : clipRings box (outerRings mp) = .ok (op, co)) (hop : op ≠ [])
    (hcr2 : clipRings box (mp.flatMap fun p => p.drop 1) = .ok (inn, ci))
    (hnd : ((op ++ inn).map List.head?).Nodup)
    (result : List (List (List (Pt α)))) (hw : smartWrap box (op ++ inn) o = .ok result)
    (out : List (List (List (Pt α)))) (h : multiPolygon box mp o = .ok out)
    (hk : ∀ ring ∈ ci, Contained ((result ++ co.map fun r => [r]).map List.head?) ring)
    (q q₀ : Pt α) (hq : InOpenBox box q) (hq₀ : InOpenBox box q₀) :
    multiWinding out q - multiWinding mp q = multiWinding out q₀ - multiWinding mp q₀ := by
  have hne : mp ≠ [] := by
    rintro rfl
    simp [outerRings, clipRings, clipAll, partitionPieces] at hcr1
    exact hop hcr1.1
  have hmem : ∀ r ∈ mp.flatten, ringClosed r = true := by
    intro r hr
    obtain ⟨p, hp, hr⟩ := List.mem_flatten.1 hr
    exact hrc p hp r hr
  have hpm := outer_inner_perm mp
  have hrc1 : ∀ r ∈ outerRings mp, ringClosed r = true :=
    fun r hr => hmem r (hpm.subset (List.mem_append_left _ hr))
  have hrc2 : ∀ r ∈ (mp.flatMap fun p => p.drop 1), ringClosed r = true :=
    fun r hr => hmem r (hpm.subset (List.mem_append_right _ hr))
  obtain ⟨⟨O1, hO1, D1⟩, hpok1, hcl1⟩ := clipRings_decomp_multi box hb _ hrc1 op co hcr1
  obtain ⟨⟨O2, hO2, D2⟩, hpok2, hcl2⟩ := clipRings_decomp_multi box hb _ hrc2 inn ci hcr2
  rw [multiPolygon_eq box mp o hne op co inn ci hcr1 hop hcr2 result hw] at h
  have hkeep := addAll_keep ci _ out h hk
  rw [List.flatten_append, flatten_map_single] at hkeep
  have D : Decomp ((outerRings mp ++ mp.flatMap fun p => p.drop 1).flatMap Contains.chain)
      (((op ++ inn) ++ (co ++ ci)).flatMap Contains.chain) (O1 ++ O2) := by
    have := D1.append D2
    rw [← List.flatMap_append, ← List.flatMap_append] at this
    refine this.of_perm (List.Perm.flatMap_right _ ?_) (List.Perm.refl _)
    have e : ((op ++ co) ++ (inn ++ ci)).Perm (op ++ ((inn ++ co) ++ ci)) := by
      simp only [List.append_assoc]
      refine List.Perm.append_left _ ?_
      rw [← List.append_assoc, ← List.append_assoc]
      exact List.Perm.append_right _ List.perm_append_comm
    refine e.trans ?_
    simp only [List.append_assoc]
    exact List.Perm.refl _
  have hZ := cycle_core_w box hb o ho (outerRings mp ++ mp.flatMap fun p => p.drop 1)
    (fun r hr => ringClosed_closed r (hmem r (hpm.subset hr))) (op ++ inn) (co ++ ci)
    (by
      intro ls hls
      rcases List.mem_append.1 hls with h' | h'
      · exact hpok1 ls h'
      · exact hpok2 ls h')
    hnd
    (by
      intro rg hrg
      rcases List.mem_append.1 hrg with h' | h'
      · exact insideRing_closed hcl1 rg h'
      · exact insideRing_closed hcl2 rg h')
    (O1 ++ O2)
    (by
      intro se hse
      rcases List.mem_append.1 hse with h' | h'
      · exact hO1 se h'
      · exact hO2 se h')
    D result hw out.flatten (by rw [← List.append_assoc]; exact hkeep) q q₀ hq hq₀
  have pe := List.Perm.flatMap_right EvenOdd.edges hpm
  rw [multiWinding_eq, multiWinding_eq, multiWinding_eq, multiWinding_eq,
    ← Clip.C16R.wE_perm pe q, ← Clip.C16R.wE_perm pe q₀]
  exact hZ

/-- (R5, one-bit form) `smartclip.MultiPolygon`. -/
theorem multiPolygon_region_const (box : Bound α) (hb : BoxOK box) (mp : List (List (List (Pt α)))) (o : Int)
    (ho : o = CW ∨ o = CCW) (hrc : ∀ p ∈ mp, ∀ r ∈ p, ringClosed r = true)
    (op co inn ci : List (List (Pt α))) (hcr1 : clipRings box (outerRings mp) = .ok (op, co)) (hop : op ≠ [])
    (hcr2 : clipRings box (mp.flatMap fun p => p.drop 1) = .ok (inn, ci))
    (hnd : ((op ++ inn).map List.head?).Nodup)
    (result : List (List (List (Pt α)))) (hw : smartWrap box (op ++ inn) o = .ok result)
    (out : List (List (List (Pt α)))) (h : multiPolygon box mp o = .ok out)
    (hk : ∀ ring ∈ ci, Contained ((result ++ co.map fun r => [r]).map List.head?) ring)
    (q q₀ : Pt α) (hq : InOpenBox box q) (hq₀ : InOpenBox box q₀) :
    ((multiCrossings out q % 2 == 1) != (multiCrossings mp q % 2 == 1)) =
      ((multiCrossings out q₀ % 2 == 1) != (multiCrossings mp q₀ % 2 == 1)) := by
  have hZ := multiPolygon_cycle box hb mp o ho hrc op co inn ci hcr1 hop hcr2 hnd result hw out h hk
  rw [multiCrossings_parity, multiCrossings_parity, multiCrossings_parity, multiCrossings_parity]
  exact cycle_const box hb _ _ hZ q q₀ hq hq₀

/-- `smartclip.MultiPolygon`: right at one point of the open box ⇒ right at every point of the open box. -/
theorem multiPolygon_region_of_ref (box : Bound α) (hb : BoxOK box) (mp : List (List (List (Pt α)))) (o : Int)
    (ho : o = CW ∨ o = CCW) (hrc : ∀ p ∈ mp, ∀ r ∈ p, ringClosed r = true)
    (op co inn ci : List (List (Pt α))) (hcr1 : clipRings box (outerRings mp) = .ok (op, co)) (hop : op ≠ [])
    (hcr2 : clipRings box (mp.flatMap fun p => p.drop 1) = .ok (inn, ci))
    (hnd : ((op ++ inn).map List.head?).Nodup)
    (result : List (List (List (Pt α)))) (hw : smartWrap box (op ++ inn) o = .ok result)
    (out : List (List (List (Pt α)))) (h : multiPolygon box mp o = .ok out)
    (hk : ∀ ring ∈ ci, Contained ((result ++ co.map fun r => [r]).map List.head?) ring)
    (q₀ : Pt α) (hq₀ : InOpenBox box q₀) (href : multiCrossings out q₀ % 2 = multiCrossings mp q₀ % 2)
    (q : Pt α) (hq : InOpenBox box q) :
    multiCrossings out q % 2 = multiCrossings mp q % 2 ∧ multiOnBoundary out q = multiOnBoundary mp q ∧
      multiEvenOdd out q = multiEvenOdd mp q := by
  have hc := multiPolygon_region_const box hb mp o ho hrc op co inn ci hcr1 hop hcr2 hnd result hw out h hk
    q q₀ hq hq₀
  obtain ⟨Z, _, _, _, hon⟩ := multiPolygon_cycle box hb mp o ho hrc op co inn ci hcr1 hop hcr2 hnd result hw out h hk
  have h1 : multiCrossings out q % 2 = multiCrossings mp q % 2 := parity_transfer hc href
  have h2 : multiOnBoundary out q = multiOnBoundary mp q := by
    rw [multiOnBoundary_eq, multiOnBoundary_eq]
    exact hon q hq
  refine ⟨h1, h2, ?_⟩
  unfold multiEvenOdd
  rw [h2, h1]

end Orb.SmartClip
