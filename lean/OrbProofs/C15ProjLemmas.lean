/-
  Helper lemmas for C15, second file: `mvt.newProjection` itself (isPowerOfTwo, TrailingZeros32,
  the integral tile origin, the level), the chain
      planar_geo_roundtrip_partial  →  CloseAt … 0  →  tile_roundtrip_*  →  newProjection
  and the feature loops `Layer.ProjectToTile / ProjectToWGS84`, `Layers.ProjectTo*`.
  The primed statements are re-exported by OrbProofs/C15.lean.
-/
import OrbProofs.C15Lemmas
import Mathlib.Data.Nat.Cast.Order.Ring
import Mathlib.Algebra.Order.Ring.Cast

set_option linter.unusedSectionVars false

namespace Orb.Project
open Orb Orb.Core

/-! ### `isPowerOfTwo`, `bits.TrailingZeros32` -/

theorem isPowerOfTwo_iff' (e : Nat) : isPowerOfTwo e = true ↔ e = 0 ∨ ∃ k, e = 2 ^ k := by
  unfold isPowerOfTwo
  by_cases h : e = 0
  · simp [h]
  · have := Nat.and_sub_one_eq_zero_iff_isPowerOfTwo h
    simp only [Bool.or_eq_true, beq_iff_eq, h, false_or]
    rw [this]
    rfl

theorem isPowerOfTwo_two_pow' (k : Nat) : isPowerOfTwo (2 ^ k) = true :=
  (isPowerOfTwo_iff' _).2 (Or.inr ⟨k, rfl⟩)

theorem tz_go_two_pow (fuel k : Nat) (h : k < fuel) : trailingZeros32.go fuel (2 ^ k) = k := by
  induction k generalizing fuel with
  | zero =>
    cases fuel with
    | zero => omega
    | succ f => simp [trailingZeros32.go]
  | succ k ih =>
    cases fuel with
    | zero => omega
    | succ f =>
      have h0 : 2 ^ (k + 1) % 2 = 0 := by rw [Nat.pow_succ]; omega
      have h1 : 2 ^ (k + 1) / 2 = 2 ^ k := by rw [Nat.pow_succ]; omega
      simp only [trailingZeros32.go, h0, h1]
      rw [ih f (by omega)]
      simp
      omega

theorem trailingZeros32_two_pow' (k : Nat) (hk : k < 32) : trailingZeros32 (2 ^ k) = k := by
  unfold trailingZeros32
  have hlt : 2 ^ k < 2 ^ 32 := Nat.pow_lt_pow_right (by omega) hk
  have hpos : 0 < 2 ^ k := Nat.two_pow_pos k
  have : ¬ ((2 ^ k % 2 ^ 32 == 0) = true) := by
    rw [Nat.mod_eq_of_lt hlt]; simp
  rw [if_neg this]
  exact tz_go_two_pow 32 k hk

theorem trailingZeros32_zero' : trailingZeros32 0 = 32 := by
  simp [trailingZeros32]

/-- a uint32 power of two is `2^k` with `k < 32` -/
theorem two_pow_lt_iff (k : Nat) : 2 ^ k < 2 ^ 32 ↔ k < 32 :=
  Nat.pow_lt_pow_iff_right (by omega)

/-! ### the level and the integral origin -/

section field
variable {α : Type} [Field α] [LinearOrder α] [IsStrictOrderedRing α]

theorem maxTiles_eq' (F : MFn α) (hofNat : ∀ n : Nat, F.ofNat n = (n : α)) (z : Nat) (hz : z < 64) :
    maxTiles F z = 2 ^ z := by
  unfold maxTiles
  rw [hofNat, Nat.mod_eq_of_lt (Nat.pow_lt_pow_right (by omega) hz)]
  push_cast
  rfl

theorem maxTiles_wrap' (F : MFn α) (hofNat : ∀ n : Nat, F.ofNat n = (n : α)) (z : Nat) (hz : 64 ≤ z) :
    maxTiles F z = 0 := by
  unfold maxTiles
  rw [hofNat, Nat.mod_eq_zero_of_dvd (Nat.pow_dvd_pow 2 hz)]
  simp

theorem maxTiles_ne_zero' (F : MFn α) (hofNat : ∀ n : Nat, F.ofNat n = (n : α)) (z : Nat) (hz : z < 64) :
    maxTiles F z ≠ 0 := by
  rw [maxTiles_eq' F hofNat z hz]
  positivity

/-- the level `newProjection` works at -/
def projLevel (Z extent : Nat) : Nat :=
  if isPowerOfTwo extent then Z + trailingZeros32 extent else Z

/-- pixels per unit of that level (1 on the power-of-two path: there a pixel IS a unit) -/
def pixelScale (extent : Nat) : α := if isPowerOfTwo extent then 1 else (extent : α)

/-- the point that `newProjection(tile, extent).ToWGS84` hands to `mercator.ToGeo` for pixel (i, j):
    the pixel centre in units of `projLevel` -/
def pixelCentre (X Y extent : Nat) (i j : ℤ) : Pt α :=
  if isPowerOfTwo extent then
    ⟨(i : α) + (((X * 2 ^ trailingZeros32 extent) % 2 ^ 64 : ℕ) : α) + 1 / 2,
     (j : α) + (((Y * 2 ^ trailingZeros32 extent) % 2 ^ 64 : ℕ) : α) + 1 / 2⟩
  else ⟨((i : α) + 1 / 2) / (extent : α) + (X : α), ((j : α) + 1 / 2) / (extent : α) + (Y : α)⟩

theorem projLevel_two_pow' (Z k : Nat) (hk : k < 32) : projLevel Z (2 ^ k) = Z + k := by
  simp [projLevel, isPowerOfTwo_two_pow', trailingZeros32_two_pow' k hk]

theorem projLevel_zero' (Z : Nat) : projLevel Z 0 = Z + 32 := by
  simp [projLevel, isPowerOfTwo, trailingZeros32_zero']

theorem projLevel_other' (Z e : Nat) (h : isPowerOfTwo e = false) : projLevel Z e = Z := by
  simp [projLevel, h]

/-- no wrap: `uint64(tile.X) << n` with `X < 2^32`, `n ≤ 32` -/
theorem origin_no_wrap (X n : Nat) (hX : X < 2 ^ 32) (hn : n ≤ 32) : (X * 2 ^ n) % 2 ^ 64 = X * 2 ^ n := by
  apply Nat.mod_eq_of_lt
  calc X * 2 ^ n < 2 ^ 32 * 2 ^ n := Nat.mul_lt_mul_of_pos_right hX (Nat.two_pow_pos n)
    _ ≤ 2 ^ 32 * 2 ^ 32 := Nat.mul_le_mul_left _ (Nat.pow_le_pow_right (by omega) hn)
    _ = 2 ^ 64 := by norm_num

theorem pixelCentre_two_pow' (X Y k : Nat) (hk : k < 32) (hX : X < 2 ^ 32) (hY : Y < 2 ^ 32) (i j : ℤ) :
    (pixelCentre X Y (2 ^ k) i j : Pt α) =
      ⟨(i : α) + (X : α) * 2 ^ k + 1 / 2, (j : α) + (Y : α) * 2 ^ k + 1 / 2⟩ := by
  simp only [pixelCentre, isPowerOfTwo_two_pow', if_true, trailingZeros32_two_pow' k hk,
    origin_no_wrap X k hX (by omega), origin_no_wrap Y k hY (by omega)]
  push_cast
  rfl

theorem pixelCentre_other' (X Y e : Nat) (h : isPowerOfTwo e = false) (i j : ℤ) :
    (pixelCentre X Y e i j : Pt α) =
      ⟨((i : α) + 1 / 2) / (e : α) + (X : α), ((j : α) + 1 / 2) / (e : α) + (Y : α)⟩ := by
  simp [pixelCentre, h]

/-- Integrality: with an exact `float64(uint64(n))`, the origin `minx, miny` of the power-of-two path
    and the extent / origin of the other path are integers of the field — what `tile_roundtrip_margin`
    (`mx my : ℤ`) needs. -/
theorem newProjection_origin_int' (F : MFn α) (hofNat : ∀ n : Nat, F.ofNat n = (n : α)) (X n : Nat) :
    F.ofNat ((X * 2 ^ n) % 2 ^ 64) = ((((X * 2 ^ n) % 2 ^ 64 : ℕ) : ℤ) : α) := by
  rw [hofNat, Int.cast_natCast]

/-! ### one composed theorem about `newProjection` -/

theorem newProjection_roundtrip' (F : MFn α)
    (hfloor : ∀ (x : α) (n : ℤ), (n : α) ≤ x → x < (n : α) + 1 → F.floor x = (n : α))
    (hofNat : ∀ n : Nat, F.ofNat n = (n : α))
    (X Y Z extent : Nat) (ε : α) (hε : ε * pixelScale extent < 1 / 2) (i j : ℤ)
    (hclose : CloseAt (toPlanar F (projLevel Z extent)) (toGeo F (projLevel Z extent)) ε
      (pixelCentre X Y extent i j)) :
    (newProjection F X Y Z extent).toTile ((newProjection F X Y Z extent).toWGS84 ⟨(i : α), (j : α)⟩)
      = ⟨(i : α), (j : α)⟩ := by
  by_cases h : isPowerOfTwo extent = true
  · simp only [pixelScale, projLevel, pixelCentre, h, if_true, mul_one] at hε hclose
    rw [newProjection_pow2' F X Y Z extent h, newProjection_origin_int' F hofNat X,
      newProjection_origin_int' F hofNat Y]
    apply tile_roundtrip_margin' F.floor hfloor _ _ ε hε
    simpa only [Int.cast_natCast] using hclose
  · have h' : isPowerOfTwo extent = false := by simpa using h
    simp only [pixelScale, projLevel, pixelCentre, h', Bool.false_eq_true, if_false] at hε hclose
    have hne : extent ≠ 0 := by
      intro h0; rw [h0] at h'; simp [isPowerOfTwo] at h'
    have hpos : (0 : α) < (extent : α) := by exact_mod_cast Nat.pos_of_ne_zero hne
    rw [newProjection_nonpow2' F X Y Z extent h', hofNat, hofNat, hofNat]
    exact tile_roundtrip_nonpow2_fixed_margin' F.floor hfloor _ _ ε _ _ _ hpos hε i j hclose

/-- The chain the review asked for: the pointwise `planar_geo_roundtrip_partial` (Gudermannian
    identity, clamp inactive AT THE PIXEL CENTRE) feeds the tile theorem through `CloseAt … 0`. -/
theorem newProjection_roundtrip_exact' (F : MFn α)
    (hfloor : ∀ (x : α) (n : ℤ), (n : α) ≤ x → x < (n : α) + 1 → F.floor x = (n : α))
    (hofNat : ∀ n : Nat, F.ofNat n = (n : α))
    (X Y Z extent : Nat) (hlev : projLevel Z extent < 64) (i j : ℤ)
    (hpi : F.pi ≠ 0) (htwo : F.twoPi = 2 * F.pi) (hd : F.d180pi = 180 / F.pi)
    (hgd : ∀ t, F.log ((1 + F.sin (2 * F.atan (F.exp t) - F.pi / 2)) / (1 - F.sin (2 * F.atan (F.exp t) - F.pi / 2))) = 2 * t)
    (hclamp :
      ¬ F.sin (2 * F.atan (F.exp (F.pi - F.twoPi *
          ((pixelCentre X Y extent i j : Pt α).y / maxTiles F (projLevel Z extent)))) - F.pi / 2) < -F.c9999 ∧
      ¬ F.c9999 < F.sin (2 * F.atan (F.exp (F.pi - F.twoPi *
          ((pixelCentre X Y extent i j : Pt α).y / maxTiles F (projLevel Z extent)))) - F.pi / 2)) :
    (newProjection F X Y Z extent).toTile ((newProjection F X Y Z extent).toWGS84 ⟨(i : α), (j : α)⟩)
      = ⟨(i : α), (j : α)⟩ := by
  have hrt := planar_geo_roundtrip_partial' F (projLevel Z extent) (pixelCentre X Y extent i j) hpi
    (maxTiles_ne_zero' F hofNat _ hlev) htwo hd hgd hclamp
  refine newProjection_roundtrip' F hfloor hofNat X Y Z extent 0 ?_ i j (closeAt_of_eq _ _ _ hrt)
  simp

/-- the same chain for the bare power-of-two path (abstract origin) -/
theorem tile_roundtrip_pow2_of_planar_geo' (F : MFn α)
    (hfloor : ∀ (x : α) (n : ℤ), (n : α) ≤ x → x < (n : α) + 1 → F.floor x = (n : α))
    (z : Nat) (mx my i j : ℤ)
    (hpi : F.pi ≠ 0) (hm : maxTiles F z ≠ 0) (htwo : F.twoPi = 2 * F.pi) (hd : F.d180pi = 180 / F.pi)
    (hgd : ∀ t, F.log ((1 + F.sin (2 * F.atan (F.exp t) - F.pi / 2)) / (1 - F.sin (2 * F.atan (F.exp t) - F.pi / 2))) = 2 * t)
    (hclamp :
      ¬ F.sin (2 * F.atan (F.exp (F.pi - F.twoPi * (((j : α) + my + 1 / 2) / maxTiles F z))) - F.pi / 2) < -F.c9999 ∧
      ¬ F.c9999 < F.sin (2 * F.atan (F.exp (F.pi - F.twoPi * (((j : α) + my + 1 / 2) / maxTiles F z))) - F.pi / 2)) :
    (pow2Proj F.floor (toPlanar F z) (toGeo F z) (mx : α) (my : α)).toTile
        ((pow2Proj F.floor (toPlanar F z) (toGeo F z) (mx : α) (my : α)).toWGS84 ⟨(i : α), (j : α)⟩)
      = ⟨(i : α), (j : α)⟩ := by
  have hrt := planar_geo_roundtrip_partial' F z ⟨(i : α) + mx + 1 / 2, (j : α) + my + 1 / 2⟩ hpi hm htwo hd hgd hclamp
  exact tile_roundtrip_margin' F.floor hfloor _ _ 0 (by norm_num) mx my i j (closeAt_of_eq _ _ _ hrt)

end field

/-! ### pure point functions: `project.Geometry` is a map -/

section pure
variable {α : Type} [LinearOrder α]

theorem ptssM_pure (f : Pt α → Pt α) (ls : List (List (Pt α))) :
    (ptssM (σ := Unit) (fun p s => (f p, s)) ls ()).1 = ls.map (List.map f) := by
  induction ls with
  | nil => simp [ptssM]
  | cons l ls ih => simp [ptssM, ih, ptsM_pure]

theorem ptsssM_pure (f : Pt α → Pt α) (ps : List (List (List (Pt α)))) :
    (ptsssM (σ := Unit) (fun p s => (f p, s)) ps ()).1 = ps.map (List.map (List.map f)) := by
  induction ps with
  | nil => simp [ptsssM]
  | cons l ls ih => simp [ptsssM, ih, ptssM_pure]

theorem go_pure (f : Pt α → Pt α) (gs : List (Geom α)) :
    (geometryM.go (σ := Unit) (fun p s => (f p, s)) gs ()).1 = gs.map (geometry f) := by
  induction gs with
  | nil => simp [geometryM.go]
  | cons g gs ih => simp [geometryM.go, ih, geometry]

theorem geometry_point (f : Pt α → Pt α) (p : Pt α) : geometry f (.point p) = .point (f p) := rfl
theorem geometry_multiPoint (f : Pt α → Pt α) (ps : List (Pt α)) :
    geometry f (.multiPoint ps) = .multiPoint (ps.map f) := by simp [geometry, geometryM, ptsM_pure]
theorem geometry_lineString (f : Pt α → Pt α) (ps : List (Pt α)) :
    geometry f (.lineString ps) = .lineString (ps.map f) := by simp [geometry, geometryM, ptsM_pure]
theorem geometry_ring (f : Pt α → Pt α) (ps : List (Pt α)) :
    geometry f (.ring ps) = .ring (ps.map f) := by simp [geometry, geometryM, ptsM_pure]
theorem geometry_multiLineString (f : Pt α → Pt α) (ls : List (List (Pt α))) :
    geometry f (.multiLineString ls) = .multiLineString (ls.map (List.map f)) := by
  simp [geometry, geometryM, ptssM_pure]
theorem geometry_polygon (f : Pt α → Pt α) (ls : List (List (Pt α))) :
    geometry f (.polygon ls) = .polygon (ls.map (List.map f)) := by
  simp [geometry, geometryM, ptssM_pure]
theorem geometry_multiPolygon (f : Pt α → Pt α) (ps : List (List (List (Pt α)))) :
    geometry f (.multiPolygon ps) = .multiPolygon (ps.map (List.map (List.map f))) := by
  simp [geometry, geometryM, ptsssM_pure]
theorem geometry_collection (f : Pt α → Pt α) (gs : List (Geom α)) :
    geometry f (.collection gs) = .collection (gs.map (geometry f)) := by
  simp [geometry, geometryM, go_pure]

theorem map_id_of {β : Type} (f : β → β) (l : List β) (h : ∀ x ∈ l, f x = x) : l.map f = l := by
  conv_rhs => rw [← List.map_id l]
  exact List.map_congr_left (fun x hx => by simpa using h x hx)

theorem mem_flatten_of {β : Type} {l : List β} {ls : List (List β)} {x : β} (hl : l ∈ ls) (hx : x ∈ l) :
    x ∈ ls.flatten := List.mem_flatten.2 ⟨l, hl, hx⟩

theorem verts_go_mem (gs : List (Geom α)) (g : Geom α) (hg : g ∈ gs) (p : Pt α) (hp : p ∈ verts g) :
    p ∈ verts.go gs := by
  induction gs with
  | nil => cases hg
  | cons a as ih =>
    simp only [verts.go, List.mem_append]
    rcases List.mem_cons.1 hg with rfl | h
    · exact Or.inl hp
    · exact Or.inr (ih h)

/-- Projecting back: if `f` undoes `h` on every vertex, `geometry f` undoes `geometry h` — for
    geometries without bounds (a bound is re-boxed by each stage: `project_bound`). -/
theorem geometry_roundtrip' (f h : Pt α → Pt α) (g : Geom α) (hn : NoBounds g)
    (hfh : ∀ p ∈ verts g, f (h p) = p) : geometry f (geometry h g) = g := by
  induction g using Orb.Core.Geom.ind with
  | h1 p =>
    simp only [verts, List.mem_singleton, forall_eq] at hfh
    simp only [geometry_point, hfh]
  | h2 ps =>
    simp only [verts] at hfh
    simp only [geometry_multiPoint, List.map_map]
    congr 1; exact map_id_of _ _ (fun p hp => by simpa using hfh p hp)
  | h3 ps =>
    simp only [verts] at hfh
    simp only [geometry_lineString, List.map_map]
    congr 1; exact map_id_of _ _ (fun p hp => by simpa using hfh p hp)
  | h5 ps =>
    simp only [verts] at hfh
    simp only [geometry_ring, List.map_map]
    congr 1; exact map_id_of _ _ (fun p hp => by simpa using hfh p hp)
  | h4 ls =>
    simp only [verts] at hfh
    simp only [geometry_multiLineString, List.map_map]
    congr 1
    refine map_id_of _ _ (fun l hl => ?_)
    simp only [Function.comp, List.map_map]
    exact map_id_of _ _ (fun p hp => by simpa using hfh p (mem_flatten_of hl hp))
  | h6 ls =>
    simp only [verts] at hfh
    simp only [geometry_polygon, List.map_map]
    congr 1
    refine map_id_of _ _ (fun l hl => ?_)
    simp only [Function.comp, List.map_map]
    exact map_id_of _ _ (fun p hp => by simpa using hfh p (mem_flatten_of hl hp))
  | h7 ps =>
    simp only [verts] at hfh
    simp only [geometry_multiPolygon, List.map_map]
    congr 1
    refine map_id_of _ _ (fun pg hpg => ?_)
    simp only [Function.comp, List.map_map]
    refine map_id_of _ _ (fun l hl => ?_)
    simp only [Function.comp, List.map_map]
    exact map_id_of _ _ (fun p hp => by
      simpa using hfh p (mem_flatten_of (mem_flatten_of hpg hl) hp))
  | h8 a b => simp [NoBounds] at hn
  | hc gs ih =>
    simp only [geometry_collection, List.map_map]
    congr 1
    refine map_id_of _ _ (fun g hg => ?_)
    simp only [Function.comp]
    simp only [NoBounds] at hn
    exact ih g hg (hn g hg) (fun p hp => hfh p (by simp only [verts]; exact verts_go_mem gs g hg p hp))

end pure

/-! ### `Layer.ProjectToTile / ProjectToWGS84`, `Layers.ProjectTo*` -/

/-- `project.Geometry` with a pure point function on a possibly-nil value -/
def gmap {α : Type} [LT α] [LE α] [DecidableLT α] [DecidableLE α] [Min α] [Max α]
    (f : Pt α → Pt α) : GVal α → GVal α
  | .nilIface => .nilIface
  | .nilSlice k => .nilSlice k
  | .val g => .val (geometry f g)

section layer
variable {α : Type} [Field α] [LinearOrder α] [IsStrictOrderedRing α]

theorem layerProjectToTile_eq' (F : MFn α) (X Y Z extent : Nat) (feats : List (GVal α)) :
    layerProjectToTile F X Y Z extent feats = feats.map (gmap (newProjection F X Y Z extent).toTile) := by
  unfold layerProjectToTile
  apply List.map_congr_left
  intro g _
  cases g <;> rfl

theorem layerProjectToWGS84_eq' (F : MFn α) (X Y Z extent : Nat) (feats : List (GVal α)) :
    layerProjectToWGS84 F X Y Z extent feats = feats.map (gmap (newProjection F X Y Z extent).toWGS84) := by
  unfold layerProjectToWGS84
  apply List.map_congr_left
  intro g _
  cases g <;> rfl

/-- every vertex of a feature is an integer pixel at whose centre `toPlanar ∘ toGeo` is accurate to
    better than half a pixel -/
def PixelsOK (F : MFn α) (X Y Z extent : Nat) (g : Geom α) : Prop :=
  NoBounds g ∧ ∀ p ∈ verts g, ∃ (i j : ℤ) (ε : α), p = ⟨(i : α), (j : α)⟩ ∧ ε * pixelScale extent < 1 / 2 ∧
    CloseAt (toPlanar F (projLevel Z extent)) (toGeo F (projLevel Z extent)) ε (pixelCentre X Y extent i j)

theorem layer_roundtrip' (F : MFn α)
    (hfloor : ∀ (x : α) (n : ℤ), (n : α) ≤ x → x < (n : α) + 1 → F.floor x = (n : α))
    (hofNat : ∀ n : Nat, F.ofNat n = (n : α))
    (X Y Z extent : Nat) (feats : List (GVal α))
    (hpix : ∀ g, GVal.val g ∈ feats → PixelsOK F X Y Z extent g) :
    layerProjectToTile F X Y Z extent (layerProjectToWGS84 F X Y Z extent feats) = feats := by
  rw [layerProjectToTile_eq', layerProjectToWGS84_eq', List.map_map]
  conv_rhs => rw [← List.map_id feats]
  apply List.map_congr_left
  intro g hg
  cases g with
  | nilIface => rfl
  | nilSlice k => rfl
  | val g =>
    obtain ⟨hn, hv⟩ := hpix g hg
    simp only [Function.comp, gmap, id]
    congr 1
    apply geometry_roundtrip' _ _ g hn
    intro p hp
    obtain ⟨i, j, ε, rfl, hε, hc⟩ := hv p hp
    exact newProjection_roundtrip' F hfloor hofNat X Y Z extent ε hε i j hc

theorem layers_roundtrip' (F : MFn α)
    (hfloor : ∀ (x : α) (n : ℤ), (n : α) ≤ x → x < (n : α) + 1 → F.floor x = (n : α))
    (hofNat : ∀ n : Nat, F.ofNat n = (n : α))
    (X Y Z : Nat) (ls : List (Nat × List (GVal α)))
    (hpix : ∀ l ∈ ls, ∀ g, GVal.val g ∈ l.2 → PixelsOK F X Y Z l.1 g) :
    layersProjectToTile F X Y Z (layersProjectToWGS84 F X Y Z ls) = ls := by
  unfold layersProjectToTile layersProjectToWGS84
  rw [List.map_map]
  conv_rhs => rw [← List.map_id ls]
  apply List.map_congr_left
  intro l hl
  simp only [Function.comp, id]
  rw [layer_roundtrip' F hfloor hofNat X Y Z l.1 l.2 (hpix l hl)]

end layer

end Orb.Project
