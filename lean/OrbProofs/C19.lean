/-
  C19 — Concurrent quadtree queries are race-free and see a consistent tree.
  PROPERTY THEOREMS:
   (1) about facts REGENERATED from the Go source on every run (`Generated/Writes.lean`): no
       function reachable from the documented read-only query methods writes through the tree;
       every pruning-bound pointer handed to a visitor points at a per-call local (a copy of
       `q.bound`, or a by-value parameter);
   (2) about the interleaving model `Orb.Conc`: under that frame condition, for EVERY schedule of
       any number of threads the tree is unchanged and every thread ends with exactly the answers
       it computes when run alone.
  Data-race freedom under the Go memory model itself is not a theorem: it is observed with the
  race detector on the real code (harness/c19.go), and the write-set classification is syntactic.
-/
import OrbProofs.C19Lemmas

namespace Orb.C19
open Generated.Writes Orb.Conc

/-- a write is harmless for other goroutines: its root is a local, per-call visitor/heap state, or
    the caller-supplied result buffer (per goroutine by the documented contract) -/
def harmless (w : W) : Bool :=
  w.root == "local" || w.root == "visitor" || (w.root == "other" && (w.lhs == "buf" || w.lhs == "buf[i]"))

/-- NO function reachable from the read-only query methods writes to tree memory. -/
theorem no_shared_writes : writes.all harmless = true := by decide

/-- Every `closestBound` / `bound` pointer is the address of a per-call local
    (`b := q.bound; closestBound: &b`), never of the tree's own bound. -/
theorem bound_pointers_local :
    boundInits.all (fun b => b.kind == "local-copy-of-q.bound" || b.kind == "local") = true := by decide

/-- The query path touches no package-level variable (no shared free lists, caches or counters). -/
theorem no_package_state : globalsUsed = [] := by decide

/-- The three visitor constructions are still there, and every query function was found. -/
theorem query_path_resolved : boundInits.length = 3 ∧ missingFuncs = [] ∧ reachable.length ≥ 15 := by decide

/-- FOR EVERY SCHEDULE: the tree is unchanged and thread `i` is in the state it reaches by taking
    its own steps alone (as many as it was scheduled). -/
theorem schedule_independent {T S : Type} (f : T → S → S) (s : Sys T S) (σ : List Nat) :
    (run f s σ).tree = s.tree ∧ ∀ i, (run f s σ).st i = iter (f s.tree) (σ.count i) (s.st i) :=
  schedule_independent' f s σ

/-- Hence every concurrent query returns exactly what the same query returns when run alone: once
    a thread has been scheduled at least as often as it has queries, its answers are the sequential
    answers, in order, whatever the other threads did in between. -/
theorem concurrent_answers_eq_sequential {T Q A : Type} (answer : T → Q → A) (t : T) (qs : Nat → List Q)
    (σ : List Nat) (i : Nat) (h : (qs i).length ≤ σ.count i) :
    ((run (answerStep answer) ⟨t, fun j => ⟨qs j, []⟩⟩ σ).st i).done = (qs i).map (answer t) ∧
    (run (answerStep answer) ⟨t, fun j => ⟨qs j, []⟩⟩ σ).tree = t :=
  concurrent_answers_eq_sequential' answer t qs σ i h

/-- Non-vacuity: the regenerated write list is not empty and contains writes through visitor state. -/
example : writes.length ≥ 30 ∧ (writes.any fun w => w.root == "visitor") = true := by decide

end Orb.C19
