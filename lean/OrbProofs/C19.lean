/-
  C19 — Concurrent quadtree queries are race-free and see a consistent tree.

  PROPERTY THEOREMS, and what each does and does not establish.

  (1) About facts REGENERATED from the Go source on every run (`Generated/Writes.lean`; factgen
      type-checks package quadtree and runs a whole-package, field-based points-to analysis):
        * `no_shared_writes` — THE OBLIGATION "every write root on a query path is per-call
          allocated": every assignment, increment and every destination argument of copy / append /
          clear / delete / a call that leaves the package, in every function reachable from the
          documented read-only query methods, can only designate a local variable, memory allocated
          during the call, or the caller's own RESULT BUFFER (class `caller-buf`: the parameter
          `buf []orb.Pointer` of the four query methods that take one, per goroutine by the
          documented contract).  A heap kept in the tree, a scratch slice of the tree used as a
          copy/append/sort destination, a write through a visitor field or a local that holds a tree
          node all give a row whose class list contains "tree" and break it; a write to any OTHER
          argument of the caller (class `caller-arg`: the variadic `maxDistance ...float64`, which is
          the caller's own slice when the call is written `lims...`, the filter, a pointer) breaks
          it as well — nothing says those are per goroutine, goroutines may share them read-only.
        * `caller_arguments_read_only`, `result_buffers_documented` — the same for `caller-arg`
          alone, and the list of parameters that were classified `caller-buf`.
        * `write_roots_initialised_per_call` — the same obligation re-derived INSIDE Lean from the
          initialisation tables instead of from factgen's class column: for every write, every
          reference field the written path dereferences is initialised (in every composite literal
          and every assignment of the package) from make / a composite literal / the address of a
          local / the caller's buffer, and the variable the path starts from is bound, at every
          definition, assignment and call site, to such memory.
        * `per_call_fields_initialised_per_call`, `tree_refs_never_written_through`,
          `bound_pointers_local`, `no_package_state`, `only_documented_callbacks`,
          `query_path_resolved`.
      NOT established by (1): that factgen's extraction (call reachability, the points-to rules, the
      treatment of code outside the package as opaque) is right — that is trusted; the Lean kernel
      checks the tables, not the extractor.

  (2) About the interleaving model `Orb.Conc`:
        * `schedule_independent`, `concurrent_answers_eq_sequential` are about `Conc.step`, whose
          TYPE already forbids writing the tree (`f : T → S → S`).  They are the statement "a
          read-only step commutes with everybody else's", for whole-query atomic steps.  NO change of
          the Go code can make them fail; they do not, by themselves, say anything about orb.
        * `schedule_independent_W`, `same_as_alone` are about `Conc.stepW`, where a step may write the
          shared structure; the frame condition `FrameOn` is a hypothesis, and
          `frame_condition_is_needed` shows the conclusion is FALSE without it (a query that caches in
          the tree gives schedule-dependent answers).
        * `queries_frame_from_facts`, `queries_schedule_independent` DISCHARGE that hypothesis from
          the regenerated table, for the abstract query machine of `Orb.Conc`: a query is any
          sequence of write instructions each of which is one of the table's rows, landing in the
          thread's private memory or in shared memory according to that row's classes, and writing
          an arbitrary function of everything the thread can read; steps interleave PER INSTRUCTION.
          If a row of the table stops being harmless, `no_shared_writes` fails and with it these.
      NOT established by (2): that the real program IS such a machine — that a goroutine's private
      memory (its stack, what it allocated, its caller's buffer) is unreachable for other
      goroutines is exactly what the classes of (1) claim, syntactically; the Go memory model
      (non-sequentially-consistent executions of racy programs) is not formalised.  Data-race
      freedom on the real code is observed with the race detector (harness/c19.go), not proved.
-/
import OrbProofs.C19Lemmas

namespace Orb.C19
open Generated.Writes Orb.Conc

/-! ### (1) the regenerated write table -/

/-- memory another goroutine cannot reach: a local, memory allocated during the call, or the
    caller-supplied RESULT BUFFER (class `caller-buf`, per goroutine by the documented contract).
    Every other reference a caller hands in (class `caller-arg`: the limits slice behind
    `maxDistance...`, the filter, a pointer) is NOT in this list: concurrent callers may share it. -/
def harmlessRoot (r : String) : Bool := r == "local" || r == "percall" || r == "caller-buf"

def rootsOK (rs : List String) : Bool := rs.all harmlessRoot

/-- a write is harmless for other goroutines: it is not a channel send or a `go` statement, the
    analysis found what it may designate (a non-empty class list), and every class is harmless -/
def harmless (w : W) : Bool :=
  w.kind != "send" && w.kind != "go" && !w.roots.isEmpty && rootsOK w.roots

/-- EVERY WRITE ROOT ON A QUERY PATH IS PER-CALL ALLOCATED: no function reachable from the
    read-only query methods writes to (or hands out as a copy/append/sort/… destination) memory of
    the tree, package-level state, or memory of unknown origin. -/
theorem no_shared_writes : writes.all harmless = true := by decide

/-- No write on the query path can land in an argument of the caller other than the result buffer:
    the distance limit, the filter and the pointers handed in are read, never written — the limit
    is a value (`Orb.Quadtree.kNearestCall_limits_unchanged` is the model's side of this). -/
theorem caller_arguments_read_only : writes.all (fun w => !w.roots.contains "caller-arg") = true := by decide

/-- The parameters factgen classified as result buffers are exactly the documented ones. -/
theorem result_buffers_documented :
    resultBuffers = [("Quadtree.InBound", "buf"), ("Quadtree.InBoundMatching", "buf"),
      ("Quadtree.KNearest", "buf"), ("Quadtree.KNearestMatching", "buf")] := by decide

/-- every store to field `f` anywhere in the package puts per-call memory / the result buffer there -/
def fieldOK (f : String) : Bool := fieldInits.all fun fi => fi.field != f || rootsOK fi.roots

/-- every binding of variable `v` of function `fn` (definition, assignment, call site, entry point)
    gives it per-call / caller memory (or no reference at all) -/
def varOK (fn v : String) : Bool := bindings.all fun b => !(b.fn == fn && b.var == v) || rootsOK b.roots

/-- does the write dereference the variable its path starts from?  (a plain `x = …`, `x++` does not) -/
def throughRootVar (w : W) : Bool :=
  !((w.kind == "assign" || w.kind == "incdec" || w.kind == "range") && w.lhs == w.rootVar)

/-- The same obligation, derived in Lean from the INITIALISATION tables: whatever a write path
    dereferences — the reference fields on the way and the variable it starts from — was initialised
    per call (make / composite literal / address of a local / caller's buffer), at every place the
    package stores to that field or binds that variable. -/
theorem write_roots_initialised_per_call :
    writes.all (fun w => w.via.all fieldOK && (!throughRootVar w || varOK w.fn w.rootVar)) = true := by decide

/-- the struct types whose instances are the per-call search state -/
def perCallTypes : List String := ["findVisitor", "nearestVisitor", "inBoundVisitor", "visit", "heapItem"]

/-- fields of per-call objects that hold READ-ONLY references to tree-owned memory: the node found so
    far, and the stored pointers collected in the heap -/
def treeRefFields : List String := ["findVisitor.closest", "heapItem.point"]

/-- what a field of a per-call object may HOLD: harmless memory, or an argument of the caller (the
    filter function is kept in the visitor and called; holding a reference is not writing — that no
    write goes through such a field is `write_roots_initialised_per_call`, whose `fieldOK` is strict) -/
def heldOK (rs : List String) : Bool := rs.all fun r => harmlessRoot r || r == "caller-arg"

/-- Every slice / pointer / function field of a per-call visitor, visit or heap item is initialised
    from per-call or caller memory wherever the package stores to it — except the two read-only
    references into the tree. -/
theorem per_call_fields_initialised_per_call :
    fieldInits.all (fun fi => !perCallTypes.contains fi.owner || treeRefFields.contains fi.field || heldOK fi.roots) = true := by
  decide

/-- … and a field that may hold an argument of the caller is never dereferenced by a write. -/
theorem caller_arg_fields_never_written_through :
    writes.all (fun w => w.via.all fun f => fieldInits.all fun fi => fi.field != f || !fi.roots.contains "caller-arg") = true := by
  decide

/-- … and no write on the query path goes through one of those two references. -/
theorem tree_refs_never_written_through :
    writes.all (fun w => w.via.all fun f => !treeRefFields.contains f) = true := by decide

/-- Every `closestBound` / `bound` pointer is the address of a per-call local
    (`b := q.bound; closestBound: &b`), never of the tree's own bound. -/
theorem bound_pointers_local :
    boundInits.all (fun b => b.kind == "local-copy-of-q.bound" || b.kind == "local") = true := by decide

/-- The query path touches no package-level variable (no shared free lists, caches or counters). -/
theorem no_package_state : globalsUsed = [] := by decide

/-- The only code outside the package that the query path hands tree memory to is the caller's own:
    the filter function and `Pointer.Point` of the stored values. -/
theorem only_documented_callbacks :
    callbacks.all (fun c => c.2.1 == "v.filter" || c.2.1 == "n.Value.Point") = true := by decide

/-- The three visitor constructions are still there, every query function was found, and package
    quadtree type-checked without error (the analysis saw every expression typed). -/
theorem query_path_resolved :
    boundInits.length = 3 ∧ missingFuncs = [] ∧ reachable.length ≥ 15 ∧ typeErrors = [] := by decide

/-! ### (2a) steps that cannot write the tree by construction -/

/-- FOR EVERY SCHEDULE of steps that (by their type) cannot write the tree: the tree is unchanged
    and thread `i` is in the state it reaches by taking its own steps alone.  This holds for any
    Go code whatsoever; it is the commutation argument, not a fact about orb. -/
theorem schedule_independent {T S : Type} (f : T → S → S) (s : Sys T S) (σ : List Nat) :
    (run f s σ).tree = s.tree ∧ ∀ i, (run f s σ).st i = iter (f s.tree) (σ.count i) (s.st i) :=
  schedule_independent' f s σ

/-- For the same kind of step, with whole-query atomic steps: once a thread has been scheduled at
    least as often as it has queries, its answers are the sequential answers, in order. -/
theorem concurrent_answers_eq_sequential {T Q A : Type} (answer : T → Q → A) (t : T) (qs : Nat → List Q)
    (σ : List Nat) (i : Nat) (h : (qs i).length ≤ σ.count i) :
    ((run (answerStep answer) ⟨t, fun j => ⟨qs j, []⟩⟩ σ).st i).done = (qs i).map (answer t) ∧
    (run (answerStep answer) ⟨t, fun j => ⟨qs j, []⟩⟩ σ).tree = t :=
  concurrent_answers_eq_sequential' answer t qs σ i h

/-! ### (2b) steps that may write the tree: the frame condition as a hypothesis -/

/-- FOR EVERY SCHEDULE of steps that MAY write the shared structure: if every step taken from a
    state satisfying the invariant `P` leaves the shared structure alone (frame condition), the
    shared structure is unchanged at the end and thread `i` is in the state it reaches by taking its
    own steps against the ORIGINAL structure. -/
theorem schedule_independent_W {T S : Type} (P : S → Prop) (f : T → S → T × S) (hf : FrameOn P f)
    (s : Sys T S) (hP : ∀ i, P (s.st i)) (σ : List Nat) :
    (runW f s σ).tree = s.tree ∧
    ∀ i, (runW f s σ).st i = iter (fun x => (f s.tree x).2) (σ.count i) (s.st i) :=
  ⟨(schedule_independent_W' P f hf s hP σ).1, (schedule_independent_W' P f hf s hP σ).2.1⟩

/-- "every concurrent query returns exactly what the same query returns when run alone": under the
    frame condition thread `i` ends any schedule in the state in which it ends the schedule that
    consists of its own steps only. -/
theorem same_as_alone {T S : Type} (P : S → Prop) (f : T → S → T × S) (hf : FrameOn P f)
    (s : Sys T S) (hP : ∀ i, P (s.st i)) (σ : List Nat) (i : Nat) :
    (runW f s σ).st i = (runW f s (List.replicate (σ.count i) i)).st i :=
  same_as_alone' P f hf s hP σ i

/-- a query that keeps a counter in the shared structure: it stores what it read and bumps it -/
def cachingQuery (t : Nat) (_ : Nat) : Nat × Nat := (t + 1, t)

/-- THE FRAME CONDITION IS NEEDED: for a step that writes the shared structure, two schedules with
    the same steps per thread leave thread 0 with different results, and the structure changed. -/
theorem frame_condition_is_needed :
    (runW cachingQuery ⟨0, fun _ => 0⟩ [0, 1]).st 0 ≠ (runW cachingQuery ⟨0, fun _ => 0⟩ [1, 0]).st 0 ∧
    (runW cachingQuery ⟨0, fun _ => 0⟩ [0, 1]).tree ≠ 0 := by decide

/-! ### (2c) the frame condition discharged from the regenerated table -/

/-- where the table says a write lands -/
def targetOfWrite (w : W) : Target := if harmless w then .priv else .shared

/-- an instruction of the abstract query machine is one of the writes of the regenerated table -/
def Licensed {Sh Pr : Type} (ins : Instr Sh Pr) : Prop := ∃ w ∈ writes, ins.target = targetOfWrite w

/-- a query thread: every instruction it will ever execute is in the table -/
def QueryThread {Sh Pr : Type} (th : Thread Sh Pr) : Prop := ∀ ins ∈ th.prog, Licensed ins

/-- FROM THE GENERATED FACTS: an instruction licensed by the table lands in private memory. -/
theorem licensed_private {Sh Pr : Type} (ins : Instr Sh Pr) (h : Licensed ins) : ins.target = .priv := by
  obtain ⟨w, hw, ht⟩ := h
  have := List.all_eq_true.mp no_shared_writes w hw
  simp [ht, targetOfWrite, this]

/-- The frame condition of the query machine, discharged from `no_shared_writes`. -/
theorem queries_frame_from_facts {Sh Pr : Type} :
    FrameOn (QueryThread (Sh := Sh) (Pr := Pr)) instrStep :=
  instr_frame_of Licensed licensed_private

/-- Hence, for every number of query threads, every program made of writes of the table, and EVERY
    interleaving of their individual write instructions: the shared memory (tree, package state) is
    unchanged, and each thread ends exactly where it ends when it runs alone. -/
theorem queries_schedule_independent {Sh Pr : Type} (sh : Sh) (ths : Nat → Thread Sh Pr)
    (h : ∀ i, QueryThread (ths i)) (σ : List Nat) :
    (runW instrStep ⟨sh, ths⟩ σ).tree = sh ∧
    ∀ i, (runW instrStep ⟨sh, ths⟩ σ).st i = (runW instrStep ⟨sh, ths⟩ (List.replicate (σ.count i) i)).st i :=
  ⟨(schedule_independent_W QueryThread instrStep queries_frame_from_facts ⟨sh, ths⟩ h σ).1,
   fun i => same_as_alone QueryThread instrStep queries_frame_from_facts ⟨sh, ths⟩ h σ i⟩

/-! ### non-vacuity -/

/-- the regenerated tables are not empty: writes through visitor state, through the per-call heap and
    into the caller's buffer are there, as are the field initialisations the second theorem joins on -/
example : writes.length ≥ 30 ∧ (writes.any fun w => w.roots == ["percall"] && w.via == ["nearestVisitor.closestBound"]) = true ∧
    (writes.any fun w => w.kind == "append" && w.roots == ["caller-buf", "percall"]) = true ∧
    (bindings.any fun b => b.fn == "Quadtree.KNearestMatching" && b.var == "maxDistance" && b.roots == ["caller-arg"]) = true ∧
    (fieldInits.any fun fi => fi.field == "nearestVisitor.maxHeap" && fi.how == "make") = true ∧
    (bindings.any fun b => b.fn == "maxHeap.Push" && b.var == "h" && b.roots == ["percall"]) = true := by decide

/-- `harmless` does reject: a heap that lives in the tree, a `copy` into the tree, a send -/
example : harmless ⟨"maxHeap.Push", "(*h)[i].point", "assign", ["tree"], "h", [], ["TREE"]⟩ = false ∧
    harmless ⟨"Quadtree.KNearestMatching", "q.scratch", "copy", ["tree"], "q", ["Quadtree.scratch"], ["TREE"]⟩ = false ∧
    harmless ⟨"Quadtree.KNearestMatching", "maxDistance[0]", "assign", ["caller-arg"], "maxDistance", [], ["CALLER-ARG"]⟩ = false ∧
    harmless ⟨"f", "ch <-", "send", ["percall"], "ch", [], []⟩ = false ∧
    harmless ⟨"f", "p.x", "assign", [], "p", [], []⟩ = false := by decide

/-- the query machine has licensed instructions and query threads: the hypotheses of
    `queries_schedule_independent` are satisfiable -/
example : ∃ th : Thread Nat Nat, QueryThread th ∧ th.prog.length = 2 := by
  refine ⟨⟨[⟨.priv, fun sh pr => sh + pr, fun sh _ => sh⟩, ⟨.priv, fun _ pr => pr + 1, fun sh _ => sh⟩], 0⟩, ?_, rfl⟩
  intro ins hins
  have hw : (⟨"childIndex", "i", "assign", ["local"], "i", [], ["V:childIndex.i"]⟩ : W) ∈ writes := by decide
  refine ⟨_, hw, ?_⟩
  have : ins.target = .priv := by
    simp only [List.mem_cons, List.not_mem_nil, or_false] at hins
    rcases hins with h | h <;> simp [h]
  rw [this]
  decide

end Orb.C19
