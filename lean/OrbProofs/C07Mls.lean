/-
  C07 — the second entry point `clip.MultiLineString` (model `Orb.Clip.multiLineString`) and the
  degenerate inputs of `line` (no vertex, one vertex).

  `multiLineString` clips every member with `line` (same option) and concatenates the results in
  member order; everything proved about `line` therefore transfers member by member.
  The primed statements are re-exported by OrbProofs/C07.lean.
-/
import OrbProofs.C07Lemmas

set_option linter.unusedSectionVars false

namespace Orb.Clip
open Orb Orb.Core

variable {α : Type} [Field α] [LinearOrder α] [IsStrictOrderedRing α]

/-! ### degenerate inputs of `line` -/

theorem clip_no_vertex' (box : Bound α) (isOpen : Bool) : line box isOpen [] = some [] := rfl

/-- a one-vertex line string has no segment: the loop body never runs and nothing is returned, even
    when the vertex is inside the box (so "a line wholly inside is returned as is" needs two vertices) -/
theorem clip_one_vertex' (box : Bound α) (isOpen : Bool) (p : Pt α) : line box isOpen [p] = some [] := rfl

/-! ### `multiLineString` is member-wise `line`, concatenated -/

/-- `outs` are the results of `line` on the members, member by member -/
def MemberResults (box : Bound α) (isOpen : Bool) (mls : List (List (Pt α))) (outs : List (List (List (Pt α)))) : Prop :=
  List.Forall₂ (fun ls o => line box isOpen ls = some o) mls outs

/-- the step function of the fold in `multiLineString` -/
def mlsStep (box : Bound α) (isOpen : Bool) (acc : Option (List (List (Pt α)))) (ls : List (Pt α)) :
    Option (List (List (Pt α))) :=
  match acc, line box isOpen ls with
  | some r, some x => some (r ++ x)
  | _, _ => none

theorem multiLineString_eq_foldl (box : Bound α) (isOpen : Bool) (mls : List (List (Pt α))) :
    multiLineString box isOpen mls = mls.foldl (mlsStep box isOpen) (some []) := rfl

theorem mls_foldl_none (box : Bound α) (isOpen : Bool) (mls : List (List (Pt α))) :
    mls.foldl (mlsStep box isOpen) none = none := by
  induction mls with
  | nil => rfl
  | cons ls rest ih => simpa [List.foldl_cons, mlsStep] using ih

theorem mls_foldl_some (box : Bound α) (isOpen : Bool) (mls : List (List (Pt α))) :
    ∀ (r out : List (List (Pt α))), mls.foldl (mlsStep box isOpen) (some r) = some out ↔
      ∃ outs, MemberResults box isOpen mls outs ∧ out = r ++ outs.flatten := by
  induction mls with
  | nil =>
    intro r out
    constructor
    · intro h
      refine ⟨[], List.Forall₂.nil, ?_⟩
      simpa using (Option.some.inj h).symm
    · rintro ⟨outs, ho, rfl⟩
      cases ho
      simp
  | cons ls rest ih =>
    intro r out
    rw [List.foldl_cons]
    cases hl : line box isOpen ls with
    | none =>
      have : mlsStep box isOpen (some r) ls = none := by simp [mlsStep, hl]
      rw [this, mls_foldl_none]
      constructor
      · intro h; cases h
      · rintro ⟨outs, ho, _⟩
        cases ho with
        | cons h1 _ => rw [hl] at h1; cases h1
    | some x =>
      have : mlsStep box isOpen (some r) ls = some (r ++ x) := by simp [mlsStep, hl]
      rw [this, ih]
      constructor
      · rintro ⟨outs, ho, rfl⟩
        exact ⟨x :: outs, List.Forall₂.cons hl ho, by simp [List.append_assoc]⟩
      · rintro ⟨outs, ho, rfl⟩
        cases ho with
        | cons h1 h2 =>
          rw [hl] at h1
          cases h1
          exact ⟨_, h2, by simp [List.append_assoc]⟩

/-- CONCATENATION: `multiLineString` returns `out` iff every member is clipped by `line` (same option)
    and `out` is the concatenation of the member results in member order.  (No hypothesis on the box.) -/
theorem mls_concat_iff' (box : Bound α) (isOpen : Bool) (mls : List (List (Pt α))) (out : List (List (Pt α))) :
    multiLineString box isOpen mls = some out ↔
      ∃ outs, MemberResults box isOpen mls outs ∧ out = outs.flatten := by
  rw [multiLineString_eq_foldl, mls_foldl_some]
  simp

theorem memberResults_total (box : Bound α) (hb : BoxOK box) (isOpen : Bool) (mls : List (List (Pt α))) :
    ∃ outs, MemberResults box isOpen mls outs := by
  induction mls with
  | nil => exact ⟨[], List.Forall₂.nil⟩
  | cons ls rest ih =>
    obtain ⟨outs, ho⟩ := ih
    obtain ⟨o, h⟩ := line_total' box hb isOpen ls
    exact ⟨o :: outs, List.Forall₂.cons h ho⟩

/-- `multiLineString` never gets stuck, and its value is the concatenation of the member results. -/
theorem mls_concat' (box : Bound α) (hb : BoxOK box) (isOpen : Bool) (mls : List (List (Pt α))) :
    ∃ outs, MemberResults box isOpen mls outs ∧ multiLineString box isOpen mls = some outs.flatten := by
  obtain ⟨outs, ho⟩ := memberResults_total box hb isOpen mls
  exact ⟨outs, ho, (mls_concat_iff' box isOpen mls _).2 ⟨outs, ho, rfl⟩⟩

/-- the two entry points agree on a single line string -/
theorem mls_singleton' (box : Bound α) (isOpen : Bool) (ls : List (Pt α)) :
    multiLineString box isOpen [ls] = line box isOpen ls := by
  cases hl : line box isOpen ls with
  | none => simp [multiLineString, hl]
  | some x => simp [multiLineString, hl]

/-- membership in the concatenation: a piece of the result is a piece of some member's result -/
theorem memberResults_piece {box : Bound α} {isOpen : Bool} {mls : List (List (Pt α))}
    {outs : List (List (List (Pt α)))} (ho : MemberResults box isOpen mls outs) {piece : List (Pt α)} :
    piece ∈ outs.flatten ↔ ∃ ls o, ls ∈ mls ∧ line box isOpen ls = some o ∧ piece ∈ o := by
  induction ho with
  | nil => simp
  | cons h1 _ ih =>
    rw [List.flatten_cons, List.mem_append, ih]
    constructor
    · rintro (h | ⟨ls, o, hls, hl, hp⟩)
      · exact ⟨_, _, List.mem_cons_self, h1, h⟩
      · exact ⟨ls, o, List.mem_cons_of_mem _ hls, hl, hp⟩
    · rintro ⟨ls, o, hls, hl, hp⟩
      rcases List.mem_cons.1 hls with rfl | hls
      · rw [h1] at hl; cases hl; exact Or.inl hp
      · exact Or.inr ⟨ls, o, hls, hl, hp⟩

/-- Every output vertex is inside the closed box (both modes). -/
theorem mls_vertices_in_box' (box : Bound α) (hb : BoxOK box) (isOpen : Bool) (mls : List (List (Pt α)))
    (out : List (List (Pt α))) (h : multiLineString box isOpen mls = some out) :
    ∀ piece ∈ out, ∀ v ∈ piece, InBox box v := by
  obtain ⟨outs, ho, rfl⟩ := (mls_concat_iff' box isOpen mls out).1 h
  intro piece hp v hv
  obtain ⟨ls, o, _, hl, hpo⟩ := (memberResults_piece ho).1 hp
  exact clip_vertices_in_box' box hb isOpen ls o hl piece hpo v hv

/-- SOUND AND COMPLETE, closed mode: the pieces together are exactly the points of the members lying
    in the closed box. -/
theorem mls_exact' (box : Bound α) (hb : BoxOK box) (mls : List (List (Pt α))) (out : List (List (Pt α)))
    (h : multiLineString box false mls = some out) :
    ∀ q, OnPieces out q ↔ ((∃ ls ∈ mls, OnPath ls q) ∧ InBox box q) := by
  obtain ⟨outs, ho, rfl⟩ := (mls_concat_iff' box false mls out).1 h
  intro q
  constructor
  · rintro ⟨piece, hp, hq⟩
    obtain ⟨ls, o, hls, hl, hpo⟩ := (memberResults_piece ho).1 hp
    obtain ⟨h1, h2⟩ := (clip_exact' box hb ls o hl q).1 ⟨piece, hpo, hq⟩
    exact ⟨⟨ls, hls, h1⟩, h2⟩
  · rintro ⟨⟨ls, hls, hq⟩, hin⟩
    obtain ⟨o, hl⟩ := line_total' box hb false ls
    obtain ⟨piece, hpo, hq'⟩ := (clip_exact' box hb ls o hl q).2 ⟨hq, hin⟩
    exact ⟨piece, (memberResults_piece ho).2 ⟨ls, o, hls, hl, hpo⟩, hq'⟩

/-- Open mode, soundness: the interior of every piece segment is strictly inside the box. -/
theorem mls_open_interior' (box : Bound α) (hb : BoxOK box) (mls : List (List (Pt α))) (out : List (List (Pt α)))
    (h : multiLineString box true mls = some out) :
    ∀ piece ∈ out, ∀ s ∈ segsOf piece, ∀ t, 0 < t → t < 1 → s.1 ≠ s.2 → InOpenBox box (lerp s.1 s.2 t) := by
  obtain ⟨outs, ho, rfl⟩ := (mls_concat_iff' box true mls out).1 h
  intro piece hp
  obtain ⟨ls, o, _, hl, hpo⟩ := (memberResults_piece ho).1 hp
  exact clip_open_interior' box hb ls o hl piece hpo

/-- Open mode, completeness: every point of a member strictly inside the box is on a piece. -/
theorem mls_open_complete' (box : Bound α) (hb : BoxOK box) (mls : List (List (Pt α))) (out : List (List (Pt α)))
    (h : multiLineString box true mls = some out) :
    ∀ ls ∈ mls, ∀ q, OnPath ls q → InOpenBox box q → OnPieces out q := by
  obtain ⟨outs, ho, rfl⟩ := (mls_concat_iff' box true mls out).1 h
  intro ls hls q hq hin
  obtain ⟨o, hl⟩ := line_total' box hb true ls
  obtain ⟨piece, hpo, hq'⟩ := clip_open_complete' box hb ls o hl q hq hin
  exact ⟨piece, (memberResults_piece ho).2 ⟨ls, o, hls, hl, hpo⟩, hq'⟩

/-- Non-vacuity of the open-mode split on the second entry point: a member that never leaves the closed
    box but touches its boundary is split there (and is NOT returned as it is). -/
theorem mls_open_split_witness' :
    multiLineString (⟨⟨0, 0⟩, ⟨2, 2⟩⟩ : Bound ℚ) true [[⟨1, 1⟩, ⟨2, 1⟩, ⟨1, 3/2⟩]] =
      some [[⟨1, 1⟩, ⟨2, 1⟩], [⟨2, 1⟩, ⟨1, 3/2⟩]] := by
  decide +kernel

end Orb.Clip
