/-
  C14 fill, part 1: pure combinatorics of `fillPairs`, `sortYX` and `ringIntersections`
  (no geometry, no DDA).
-/
import Orb.TileCover
import Mathlib.Tactic
import Mathlib.Data.ZMod.Basic
import Mathlib.Algebra.BigOperators.Group.Finset.Basic

namespace Orb.TileCover
open Orb Orb.Tile

/-- the scan-line order of `sortYX` -/
def LeYX (a b : Nat × Nat) : Prop := a.2 < b.2 ∨ (a.2 = b.2 ∧ a.1 ≤ b.1)

theorem sortYX_perm (l : List (Nat × Nat)) : (sortYX l).Perm l := by
  unfold sortYX
  exact List.mergeSort_perm _ _

theorem fillc_le_iff (a b : Nat × Nat) :
    (if a.2 != b.2 then decide (a.2 < b.2) else decide (a.1 ≤ b.1)) = true ↔ LeYX a b := by
  unfold LeYX
  by_cases h : a.2 = b.2
  · simp [h]
  · simp [h]

theorem sortYX_sorted (l : List (Nat × Nat)) : (sortYX l).Pairwise LeYX := by
  unfold sortYX
  have h := List.pairwise_mergeSort
    (le := fun a b : Nat × Nat => if a.2 != b.2 then decide (a.2 < b.2) else decide (a.1 ≤ b.1))
    (by
      intro a b c hab hbc
      have h1 := (fillc_le_iff a b).1 hab
      have h2 := (fillc_le_iff b c).1 hbc
      apply (fillc_le_iff a c).2
      unfold LeYX at *
      omega)
    (by
      intro a b
      by_cases h1 : LeYX a b
      · simp only [(fillc_le_iff a b).2 h1, Bool.true_or]
      · have h2 : LeYX b a := by
          unfold LeYX at *
          omega
        simp only [(fillc_le_iff b a).2 h2, Bool.or_true])
    l
  exact h.imp (fun {a b} hab => (fillc_le_iff a b).1 hab)

/-- F2 (hit form): in a `(y, x)`-sorted list whose rows all have an even number of entries, a position
    `(i, j)` that is not itself an entry and has an odd number of row-`j` entries to its right lies
    strictly between the `2k`-th and `2k+1`-th entry of its row, so `fillPairs` produces its tile. -/
theorem fillPairs_hit (zoom i j : Nat) (L : List (Nat × Nat)) (hs : L.Pairwise LeYX)
    (hev : ∀ y, (L.filter (fun e => e.2 = y)).length % 2 = 0)
    (hne : (i, j) ∉ L)
    (hodd : (L.filter (fun e => e.2 = j ∧ i < e.1)).length % 2 = 1) :
    (⟨i, j, zoom⟩ : Tile) ∈ fillPairs zoom L := by
  induction' hn : L.length using Nat.strong_induction_on with n ih generalizing L
  match L, hn with
  | [], _ => simp at hodd
  | [a], _ =>
    have := hev a.2
    simp at this
  | a :: b :: rest, hn =>
    rw [List.pairwise_cons, List.pairwise_cons] at hs
    obtain ⟨ha, hb, hrest⟩ := hs
    have hab := ha b (by simp)
    -- same row
    have hrow : a.2 = b.2 := by
      by_contra hne2
      have hlt : a.2 < b.2 := by
        unfold LeYX at hab
        omega
      have hnil : rest.filter (fun e => e.2 = a.2) = [] := by
        rw [List.filter_eq_nil_iff]
        intro x hx
        have h1 := hb x hx
        have : x.2 ≠ a.2 := by
          unfold LeYX at h1
          omega
        simpa using this
      have h2 := hev a.2
      have hb2 : ¬ b.2 = a.2 := fun h => hne2 h.symm
      simp [hb2, hnil] at h2
    have hle : a.1 ≤ b.1 := by
      unfold LeYX at hab
      omega
    have hev' : ∀ y, (rest.filter (fun e => e.2 = y)).length % 2 = 0 := by
      intro y
      have h2 := hev y
      by_cases hy : a.2 = y
      · have hy' : b.2 = y := by omega
        simp [hy, hy'] at h2
        omega
      · have hy' : ¬ b.2 = y := by omega
        simp [hy, hy'] at h2
        simpa using h2
    have hne' : (i, j) ∉ rest := fun h => hne (by simp [h])
    have hia : (i, j) ≠ a := fun h => hne (by simp [h])
    have hib : (i, j) ≠ b := fun h => hne (by simp [h])
    have hia' : ¬ (a.1 = i ∧ a.2 = j) := by
      rintro ⟨h1, h2⟩
      exact hia (by rw [← h1, ← h2])
    have hib' : ¬ (b.1 = i ∧ b.2 = j) := by
      rintro ⟨h1, h2⟩
      exact hib (by rw [← h1, ← h2])
    unfold fillPairs
    rw [List.mem_append]
    by_cases hin : a.2 = j ∧ a.1 < i ∧ i < b.1
    · left
      rw [List.mem_map]
      have hadd : add32 a.1 1 ≤ a.1 + 1 := by
        unfold add32
        exact Nat.mod_le _ _
      refine ⟨i - add32 a.1 1, ?_, ?_⟩
      · rw [List.mem_range]
        omega
      · have : add32 a.1 1 + (i - add32 a.1 1) = i := by omega
        rw [this, hin.1]
    · right
      refine ih rest.length (by simp at hn; omega) rest hrest hev' hne' ?_ rfl
      simp only [Bool.decide_and] at hodd ⊢
      by_cases hja : a.2 = j
      · have hjb : b.2 = j := by omega
        by_cases hi : i < a.1
        · have hi' : i < b.1 := by omega
          simp [hja, hjb, hi, hi'] at hodd
          omega
        · have hi' : ¬ i < b.1 := by omega
          simp [hja, hjb, hi, hi'] at hodd
          simpa using hodd
      · have hjb : ¬ b.2 = j := by omega
        simp [hja, hjb] at hodd
        simpa using hodd

/-- entry `m` of the ring trace read cyclically -/
def cyY (ring : List (Nat × Nat)) (m : Nat) : Nat × Nat := ring.getD (m % ring.length) (0, 0)

/-- a cyclic sequence of rows in which consecutive rows differ by exactly one -/
def CycStep (ring : List (Nat × Nat)) : Prop :=
  ∀ m, m < ring.length →
    (cyY ring m).2 + 1 = (cyY ring (m + 1)).2 ∨ (cyY ring (m + 1)).2 + 1 = (cyY ring m).2

/-- "transition between row `j` on the side `P` and row `j + 1`" -/
def RA (P : Nat × Nat → Bool) (j : Nat) (a b : Nat × Nat) : Bool :=
  (decide (a.2 = j) && P a && decide (b.2 = j + 1)) || (decide (a.2 = j + 1) && decide (b.2 = j) && P b)


theorem ringc_countP_range (p : Nat → Bool) (n : Nat) :
    (List.range n).countP p = ∑ m ∈ Finset.range n, (if p m then 1 else 0) := by
  induction n with
  | zero => simp
  | succ k ih =>
    rw [List.range_succ, List.countP_append, ih, Finset.sum_range_succ]
    simp [List.countP_cons]

theorem ringc_sum_mod_congr (f g : Nat → Nat) (n : Nat)
    (h : ∀ m, m < n → f m % 2 = g m % 2) :
    (∑ m ∈ Finset.range n, f m) % 2 = (∑ m ∈ Finset.range n, g m) % 2 := by
  induction n with
  | zero => simp
  | succ k ih =>
    rw [Finset.sum_range_succ, Finset.sum_range_succ]
    have h1 := ih (fun m hm => h m (by omega))
    have h2 := h k (by omega)
    omega

theorem ringc_sum_shift (G : Nat → Nat) (n : Nat) (hper : G n = G 0) :
    ∑ m ∈ Finset.range n, G (m + 1) = ∑ m ∈ Finset.range n, G m := by
  have h1 := Finset.sum_range_succ G n
  have h2 := Finset.sum_range_succ' G n
  omega

theorem ringc_cyY_add_length (ring : List (Nat × Nat)) (m : Nat) :
    cyY ring (m + ring.length) = cyY ring m := by
  unfold cyY
  rw [Nat.add_mod_right]

theorem ringc_cyY_of_lt (ring : List (Nat × Nat)) (m : Nat) (hm : m < ring.length) :
    ring.getD m (0, 0) = cyY ring m := by
  unfold cyY
  rw [Nat.mod_eq_of_lt hm]

/-- `CycStep` holds at every index, not just below the length -/
theorem ringc_step_all (ring : List (Nat × Nat)) (h : CycStep ring) (hn : 0 < ring.length) (m : Nat) :
    (cyY ring m).2 + 1 = (cyY ring (m + 1)).2 ∨ (cyY ring (m + 1)).2 + 1 = (cyY ring m).2 := by
  have h1 := h (m % ring.length) (Nat.mod_lt _ hn)
  have e1 : cyY ring (m % ring.length) = cyY ring m := by
    unfold cyY; rw [Nat.mod_mod]
  have e2 : cyY ring (m % ring.length + 1) = cyY ring (m + 1) := by
    unfold cyY; rw [Nat.mod_add_mod]
  rw [e1, e2] at h1
  exact h1

theorem ringc_step_pred (ring : List (Nat × Nat)) (h : CycStep ring) (hn : 0 < ring.length) (m : Nat) :
    (cyY ring (ring.length - 1 + m)).2 + 1 = (cyY ring m).2 ∨
      (cyY ring m).2 + 1 = (cyY ring (ring.length - 1 + m)).2 := by
  have h1 := ringc_step_all ring h hn (ring.length - 1 + m)
  have e : ring.length - 1 + m + 1 = m + ring.length := by omega
  rw [e, ringc_cyY_add_length] at h1
  exact h1

theorem ringc_filterMap_len {β : Type} (f : Nat → Option β) (q : β → Bool) (c : Nat → Bool)
    (l : List Nat) (h : ∀ m ∈ l, (f m).elim false q = c m) :
    ((l.filterMap f).filter q).length = l.countP c := by
  induction l with
  | nil => simp
  | cons a t ih =>
    have ha := h a (by simp)
    have iht := ih (fun m hm => h m (by simp [hm]))
    rw [List.filterMap_cons, List.countP_cons, ← iht, ← ha]
    cases hfa : f a with
    | none => simp
    | some b =>
      simp only [Option.elim_some]
      by_cases hq : q b <;> simp [hq]

theorem ringc_len (q : Nat × Nat → Bool) (ring : List (Nat × Nat)) :
    ((ringIntersections ring).filter q).length =
      (List.range ring.length).countP (fun m =>
        ((decide ((cyY ring (ring.length - 1 + m)).2 < (cyY ring m).2) ||
            decide ((cyY ring (m + 1)).2 < (cyY ring m).2)) &&
          (decide ((cyY ring m).2 < (cyY ring (ring.length - 1 + m)).2) ||
            decide ((cyY ring m).2 < (cyY ring (m + 1)).2)) &&
          ((cyY ring m).2 != (cyY ring (m + 1)).2)) && q (cyY ring m)) := by
  unfold ringIntersections
  apply ringc_filterMap_len
  intro m hm
  have hm' : m < ring.length := List.mem_range.mp hm
  simp only [ringc_cyY_of_lt ring m hm']
  change (if ((decide ((cyY ring (ring.length - 1 + m)).2 < (cyY ring m).2) ||
            decide ((cyY ring (m + 1)).2 < (cyY ring m).2)) &&
          (decide ((cyY ring m).2 < (cyY ring (ring.length - 1 + m)).2) ||
            decide ((cyY ring m).2 < (cyY ring (m + 1)).2)) &&
          ((cyY ring m).2 != (cyY ring (m + 1)).2)) = true then some (cyY ring m) else none).elim false q = _
  split <;> rename_i hc
  · simp [hc]
  · simp [hc]

theorem ringc_pointwise (y nx p j : Nat) (Pb : Bool)
    (h1 : y + 1 = nx ∨ nx + 1 = y) (h2 : p + 1 = y ∨ y + 1 = p) :
    (if (((decide (p < y) || decide (nx < y)) && (decide (y < p) || decide (y < nx)) && (y != nx)) &&
        (decide (y = j) && Pb)) = true then 1 else 0) % 2 =
      ((if (decide (y = j) && Pb && decide (nx = j + 1)) = true then 1 else 0) +
        (if (decide (p = j + 1) && decide (y = j) && Pb) = true then 1 else 0)) % 2 := by
  cases Pb
  · simp
  · simp only [Bool.and_eq_true, Bool.or_eq_true, decide_eq_true_eq, bne_iff_ne, Bool.and_true, ne_eq]
    split_ifs <;> omega

theorem ringc_RA_split (P : Nat × Nat → Bool) (j : Nat) (a b : Nat × Nat) :
    (if RA P j a b = true then 1 else 0) =
      (if (decide (a.2 = j) && P a && decide (b.2 = j + 1)) = true then 1 else 0) +
        (if (decide (a.2 = j + 1) && decide (b.2 = j) && P b) = true then 1 else 0) := by
  unfold RA
  by_cases h1 : a.2 = j
  · subst h1
    simp
  · simp [h1]

/-- the filter keeps exactly the crossing runs: mod 2, the kept entries of row `j` on the side `P`
    are the cyclic transitions between (row `j`, side `P`) and row `j + 1` -/
theorem ringIntersections_parity (P : Nat × Nat → Bool) (j : Nat) (ring : List (Nat × Nat))
    (h : CycStep ring) :
    ((ringIntersections ring).filter (fun e => decide (e.2 = j) && P e)).length % 2 =
      ((List.range ring.length).countP (fun m => RA P j (cyY ring m) (cyY ring (m + 1)))) % 2 := by
  by_cases hn : ring.length = 0
  · have : ring = [] := List.eq_nil_of_length_eq_zero hn
    subst this
    simp [ringIntersections]
  have hn' : 0 < ring.length := Nat.pos_of_ne_zero hn
  rw [ringc_len, ringc_countP_range, ringc_countP_range]
  rw [ringc_sum_mod_congr _ (fun m =>
      (if (decide ((cyY ring m).2 = j) && P (cyY ring m) &&
          decide ((cyY ring (m + 1)).2 = j + 1)) = true then 1 else 0) +
      (if (decide ((cyY ring (ring.length - 1 + m)).2 = j + 1) &&
          decide ((cyY ring m).2 = j) && P (cyY ring m)) = true then 1 else 0)) _
    (fun m _ => ringc_pointwise _ _ _ j _ (ringc_step_all ring h hn' m) (ringc_step_pred ring h hn' m))]
  rw [Finset.sum_add_distrib]
  have hs := ringc_sum_shift (fun m =>
      if (decide ((cyY ring (ring.length - 1 + m)).2 = j + 1) &&
          decide ((cyY ring m).2 = j) && P (cyY ring m)) = true then 1 else 0) ring.length (by
    have e1 : cyY ring (ring.length - 1 + ring.length) = cyY ring (ring.length - 1 + 0) := by
      rw [ringc_cyY_add_length]; rfl
    have e2 : cyY ring ring.length = cyY ring 0 := by
      have := ringc_cyY_add_length ring 0
      rwa [Nat.zero_add] at this
    simp only [e1, e2])
  rw [← hs, ← Finset.sum_add_distrib]
  congr 1
  apply Finset.sum_congr rfl
  intro m _
  have e : ring.length - 1 + (m + 1) = m + ring.length := by omega
  simp only [e, ringc_cyY_add_length]
  exact (ringc_RA_split P j _ _).symm

theorem ringc_straddle (j : Nat) (a b : Nat × Nat) (h1 : a.2 + 1 = b.2 ∨ b.2 + 1 = a.2) :
    (if RA (fun _ => true) j a b = true then 1 else 0) % 2 =
      ((if decide (a.2 ≤ j) = true then 1 else 0) + (if decide (b.2 ≤ j) = true then 1 else 0)) % 2 := by
  unfold RA
  simp only [Bool.and_eq_true, Bool.or_eq_true, decide_eq_true_eq, Bool.and_true]
  split_ifs <;> omega

/-- F1: every row of the filtered trace of a cyclic ±1 sequence has an even number of entries -/
theorem ringIntersections_row_even (j : Nat) (ring : List (Nat × Nat)) (h : CycStep ring) :
    ((ringIntersections ring).filter (fun e => e.2 = j)).length % 2 = 0 := by
  by_cases hn : ring.length = 0
  · have : ring = [] := List.eq_nil_of_length_eq_zero hn
    subst this
    simp [ringIntersections]
  have hn' : 0 < ring.length := Nat.pos_of_ne_zero hn
  have hf : (fun e : Nat × Nat => decide (e.2 = j)) =
      (fun e => decide (e.2 = j) && (fun _ => true) e) := by
    funext e; simp
  rw [hf, ringIntersections_parity (fun _ => true) j ring h, ringc_countP_range]
  rw [ringc_sum_mod_congr _ (fun m =>
      (if decide ((cyY ring m).2 ≤ j) = true then 1 else 0) +
      (if decide ((cyY ring (m + 1)).2 ≤ j) = true then 1 else 0)) _
    (fun m _ => ringc_straddle j _ _ (ringc_step_all ring h hn' m))]
  rw [Finset.sum_add_distrib]
  have hs := ringc_sum_shift (fun m =>
      if decide ((cyY ring m).2 ≤ j) = true then 1 else 0) ring.length (by
    have e2 : cyY ring ring.length = cyY ring 0 := by
      have := ringc_cyY_add_length ring 0
      rwa [Nat.zero_add] at this
    simp only [e2])
  rw [hs]
  omega

end Orb.TileCover
