/-
  Helper lemmas for C02 (GeoJSON via JSON and BSON) and the GeoJSON share of C05.
  The primed statements are re-exported by OrbProofs/C02.lean.
-/
import Orb.GeoJSON

namespace Orb.GeoJSON
open Orb

/-- structural induction for the nested inductive `Geom` -/
theorem G.ind {motive : G → Prop}
    (h1 : ∀ p, motive (.point p)) (h2 : ∀ ps, motive (.multiPoint ps))
    (h3 : ∀ ps, motive (.lineString ps)) (h4 : ∀ ls, motive (.multiLineString ls))
    (h5 : ∀ ps, motive (.ring ps)) (h6 : ∀ rs, motive (.polygon rs))
    (h7 : ∀ ps, motive (.multiPolygon ps)) (h8 : ∀ a b, motive (.bound a b))
    (hc : ∀ gs, (∀ g ∈ gs, motive g) → motive (.collection gs)) : ∀ g, motive g := by
  intro g
  refine Geom.rec (motive_1 := motive) (motive_2 := fun gs => ∀ g ∈ gs, motive g)
    h1 h2 h3 h4 h5 h6 h7 h8 hc ?_ ?_ g
  · intro g hg; cases hg
  · intro head tail hh ht g hg
    rcases List.mem_cons.1 hg with rfl | hg
    · exact hh
    · exact ht g hg

/-! ### coordinates -/

theorem finite_not_inf {b : UInt64} (h : finite b = true) : isInf b = false := by
  simp only [finite, bne_iff_ne, ne_eq] at h
  simp [isInf, h]

theorem f64Of_num (c : Codec) (b : UInt64) (h : c = .bson ∨ finite b = true) : f64Of c (.num b) = some b := by
  rcases h with rfl | h
  · simp [f64Of]
  · simp [f64Of, finite_not_inf h]

theorem ptOf_ptJ (c : Codec) (p : Pt UInt64) (h : c = .bson ∨ finitePt p = true) : ptOf c (ptJ p) = some p := by
  have hx : f64Of c (.num p.x) = some p.x := f64Of_num c p.x (h.imp id fun h => by simp [finitePt] at h; exact h.1)
  have hy : f64Of c (.num p.y) = some p.y := f64Of_num c p.y (h.imp id fun h => by simp [finitePt] at h; exact h.2)
  simp [ptJ, ptOf, hx, hy]

theorem mapOpt_map {α β : Type} (f : β → Option α) (g : α → β) (l : List α)
    (h : ∀ a ∈ l, f (g a) = some a) : mapOpt f (l.map g) = some l := by
  induction l with
  | nil => rfl
  | cons a l ih =>
    have h1 := h a (by simp)
    have h2 := ih (fun b hb => h b (by simp [hb]))
    simp [mapOpt, h1, h2]

theorem sliceOf_arr_map {α : Type} (f : Json → Option α) (g : α → Json) (l : List α)
    (h : ∀ a ∈ l, f (g a) = some a) : sliceOf f (.arr (l.map g)) = some (some l) := by
  simp [sliceOf, mapOpt_map f g l h]

theorem sliceOf'_arr_map {α : Type} (f : Json → Option α) (g : α → Json) (l : List α)
    (h : ∀ a ∈ l, f (g a) = some a) : sliceOf' f (.arr (l.map g)) = some l := by
  simp [sliceOf', sliceOf_arr_map f g l h]

/-! ### struct field matching on the keys the library writes -/

theorem fk_type (c : Codec) : fieldKey c "type" = "type" := by cases c <;> decide
theorem fk_coordinates (c : Codec) : fieldKey c "coordinates" = "coordinates" := by cases c <;> decide
theorem fk_geometries (c : Codec) : fieldKey c "geometries" = "geometries" := by cases c <;> decide
theorem fk_id (c : Codec) : fieldKey c "id" = "id" := by cases c <;> decide
theorem fk_bbox (c : Codec) : fieldKey c "bbox" = "bbox" := by cases c <;> decide
theorem fk_geometry (c : Codec) : fieldKey c "geometry" = "geometry" := by cases c <;> decide
theorem fk_properties (c : Codec) : fieldKey c "properties" = "properties" := by cases c <;> decide

/-- decoding `{"type": ty, "coordinates": J}` for a coordinate kind -/
theorem decode_coordObj (c : Codec) (ty : String) (J : Json) (v : V)
    (hk : coordsOf c ty J = some (.ok v)) (hty : ty ≠ "GeometryCollection") :
    decodeGeometry c (.obj [("type", .str ty), ("coordinates", J)]) = .ok ⟨v, false⟩ := by
  simp [decodeGeometry, decodeGMembers, gStep, gTypeField, fk_type, fk_coordinates, finishGeometry, hty, hk]

theorem coordDoc_eq (c : Codec) (ty : String) (J : Json) (n : Nat) (h : c = .json ∨ n ≠ 0) :
    coordDoc c ty J n = .obj [("type", .str ty), ("coordinates", J)] := by
  rcases h with rfl | h
  · simp [coordDoc]
  · simp [coordDoc, h]

theorem ptOf_ptJ' (c : Codec) (p : Pt UInt64) (h : finitePt p = true) : ptOf c (ptJ p) = some p :=
  ptOf_ptJ c p (Or.inr h)

theorem slice_pts (c : Codec) (ps : List (Pt UInt64)) (h : ps.all finitePt = true) :
    sliceOf (ptOf c) (ptsJ ps) = some (some ps) :=
  sliceOf_arr_map _ _ _ fun p hp => ptOf_ptJ' c p (List.all_eq_true.1 h p hp)

theorem ptsOf_ptsJ (c : Codec) (ps : List (Pt UInt64)) (h : ps.all finitePt = true) :
    ptsOf c (ptsJ ps) = some ps :=
  sliceOf'_arr_map _ _ _ fun p hp => ptOf_ptJ' c p (List.all_eq_true.1 h p hp)

theorem slice_ptss (c : Codec) (l : List (List (Pt UInt64))) (h : l.all (·.all finitePt) = true) :
    sliceOf (ptsOf c) (ptssJ l) = some (some l) :=
  sliceOf_arr_map _ _ _ fun ps hp => ptsOf_ptsJ c ps (List.all_eq_true.1 h ps hp)

theorem ptssOf_ptssJ (c : Codec) (l : List (List (Pt UInt64))) (h : l.all (·.all finitePt) = true) :
    ptssOf c (ptssJ l) = some l :=
  sliceOf'_arr_map _ _ _ fun ps hp => ptsOf_ptsJ c ps (List.all_eq_true.1 h ps hp)

theorem slice_ptsss (c : Codec) (l : List (List (List (Pt UInt64))))
    (h : l.all (·.all (·.all finitePt)) = true) :
    sliceOf (ptssOf c) (ptsssJ l) = some (some l) :=
  sliceOf_arr_map _ _ _ fun ps hp => ptssOf_ptssJ c ps (List.all_eq_true.1 h ps hp)

theorem canonGs_eq_map (gs : List G) : canonG.canonGs gs = gs.map canonG := by
  induction gs with
  | nil => rfl
  | cons g gs ih => simp [canonG.canonGs, ih]

theorem geomsJ_eq_map (c : Codec) (gs : List G) : geomsJ c gs = gs.map (geomJ c) := by
  induction gs with
  | nil => rfl
  | cons g gs ih => simp [geomsJ, ih]

theorem geomJ_ne_null (c : Codec) (g : G) (h : isEmptyColl g = false) : geomJ c g ≠ .null := by
  cases g with
  | collection gs =>
    cases gs with
    | nil => simp [isEmptyColl] at h
    | cons g gs => simp [geomJ]
  | _ => simp [geomJ, coordDoc] <;> split <;> simp

theorem gElemOf_ne_null (j : Json) (r : R DG) (h : j ≠ .null) : gElemOf j r = r.map some := by
  cases j <;> simp_all [gElemOf]

theorem boundRing_finite (a b : Pt UInt64) (ha : finitePt a = true) (hb : finitePt b = true) :
    (boundRing a b).all finitePt = true := by
  simp [finitePt] at ha hb
  simp [boundRing, finitePt, ha, hb]

/-- decoding the "geometries" elements the library wrote for members that decode back -/
theorem decodeGElems_geomsJ (c : Codec) (gs : List G)
    (ih : ∀ g ∈ gs, decodeGeometry c (geomJ c g) = .ok ⟨.val (canonG g), false⟩)
    (hne : ∀ g ∈ gs, isEmptyColl g = false) :
    decodeGElems c (geomsJ c gs) = .ok (gs.map fun g => some ⟨.val (canonG g), false⟩) := by
  induction gs with
  | nil => simp [geomsJ, decodeGElems]
  | cons g gs ihl =>
    have h1 := ih g (by simp)
    have h2 := ihl (fun x hx => ih x (by simp [hx])) (fun x hx => hne x (by simp [hx]))
    have h3 := gElemOf_ne_null (geomJ c g) (decodeGeometry c (geomJ c g)) (geomJ_ne_null c g (hne g (by simp)))
    rw [h1] at h3
    simp [geomsJ, decodeGElems, h3, h1, h2, Res.map]

theorem hasNilMember_map_some (l : List DG) : hasNilMember (l.map some) = false := by
  induction l with
  | nil => rfl
  | cons d l ih => simp [hasNilMember, ih]

/-- `Geometry()` over members none of which is a nil pointer: the members' values, no panic -/
theorem membersGeometry_map_some (l : List DG) :
    membersGeometry (l.map some) = .ok (l.map (·.v.toGeom)) := by
  induction l with
  | nil => rfl
  | cons d l ih => simp [membersGeometry, memberGeometry, ih]

/-- decoding `{"type":"GeometryCollection","geometries":L}` when every element decodes -/
theorem decode_collObj (c : Codec) (L : List Json) (ds : List DG)
    (h : decodeGElems c L = .ok (ds.map some)) :
    decodeGeometry c (.obj [("type", .str "GeometryCollection"), ("geometries", .arr L)]) =
      .ok ⟨.val (.collection (ds.map (·.v.toGeom))), false⟩ := by
  simp (config := { decide := true }) only [decodeGeometry, decodeGMembers, gStep, gTypeField, gGeomsField,
    geomsOf, fk_type, fk_geometries, h, finishGeometry, if_true, if_false, hasNilMember_map_some,
    membersGeometry_map_some]

theorem okGs_iff (gs : List G) :
    okGs gs = true ↔ ∀ g ∈ gs, isEmptyColl g = false ∧ okG g = true := by
  induction gs with
  | nil => simp [okGs]
  | cons g gs ih => simp [okGs, ih, and_assoc]

theorem nonEmptyMultis_iff (gs : List G) :
    nonEmptyMultis gs = true ↔ ∀ g ∈ gs, nonEmptyMulti g = true := by
  induction gs with
  | nil => simp [nonEmptyMultis]
  | cons g gs ih => simp [nonEmptyMultis, ih]

/-- **Geometry round trip at the member level** (json and bson): what `NewGeometry(g)` writes as a
    member decodes to the canonical value. -/
theorem decode_geomJ (c : Codec) : ∀ g : G, okG g = true → (c = .json ∨ nonEmptyMulti g = true) →
    isEmptyColl g = false → decodeGeometry c (geomJ c g) = .ok ⟨.val (canonG g), false⟩ := by
  intro g
  induction g using G.ind with
  | h1 p =>
    intro hok _ _
    exact decode_coordObj c _ _ _ (by simp [canonG, coordsOf, ptOf_ptJ' c p (by simpa [okG] using hok)]) (by decide)
  | h2 ps =>
    intro hok hb _
    have hn : c = .json ∨ ps.length ≠ 0 := hb.imp id fun h => by cases ps <;> simp_all [nonEmptyMulti]
    rw [geomJ, coordDoc_eq c _ _ _ hn]
    exact decode_coordObj c _ _ _ (by simp [canonG, coordsOf, slice_pts c ps (by simpa [okG] using hok)]) (by decide)
  | h3 ps =>
    intro hok hb _
    have hn : c = .json ∨ ps.length ≠ 0 := hb.imp id fun h => by cases ps <;> simp_all [nonEmptyMulti]
    rw [geomJ, coordDoc_eq c _ _ _ hn]
    exact decode_coordObj c _ _ _ (by simp [canonG, coordsOf, slice_pts c ps (by simpa [okG] using hok)]) (by decide)
  | h4 ls =>
    intro hok hb _
    have hn : c = .json ∨ ls.length ≠ 0 := hb.imp id fun h => by cases ls <;> simp_all [nonEmptyMulti]
    rw [geomJ, coordDoc_eq c _ _ _ hn]
    exact decode_coordObj c _ _ _ (by simp [canonG, coordsOf, slice_ptss c ls (by simpa [okG] using hok)]) (by decide)
  | h5 ps =>
    intro hok _ _
    have hf : [ps].all (·.all finitePt) = true := by simpa [okG] using hok
    have := slice_ptss c [ps] hf
    simp only [ptssJ, List.map] at this
    exact decode_coordObj c _ _ _ (by simp [coordsOf, this, canonG]) (by decide)
  | h6 rs =>
    intro hok hb _
    have hn : c = .json ∨ rs.length ≠ 0 := hb.imp id fun h => by cases rs <;> simp_all [nonEmptyMulti]
    rw [geomJ, coordDoc_eq c _ _ _ hn]
    exact decode_coordObj c _ _ _ (by simp [canonG, coordsOf, slice_ptss c rs (by simpa [okG] using hok)]) (by decide)
  | h7 ps =>
    intro hok hb _
    have hn : c = .json ∨ ps.length ≠ 0 := hb.imp id fun h => by cases ps <;> simp_all [nonEmptyMulti]
    rw [geomJ, coordDoc_eq c _ _ _ hn]
    exact decode_coordObj c _ _ _ (by simp [canonG, coordsOf, slice_ptsss c ps (by simpa [okG] using hok)]) (by decide)
  | h8 a b =>
    intro hok _ _
    have hab : finitePt a = true ∧ finitePt b = true := by simpa [okG] using hok
    have hf : [boundRing a b].all (·.all finitePt) = true := by
      simpa using boundRing_finite a b hab.1 hab.2
    have := slice_ptss c [boundRing a b] hf
    simp only [ptssJ, List.map] at this
    exact decode_coordObj c _ _ _ (by simp [coordsOf, this, canonG]) (by decide)
  | hc gs ih =>
    intro hok hb hne
    cases gs with
    | nil => simp [isEmptyColl] at hne
    | cons g0 gs' =>
      have hoks := (okGs_iff (g0 :: gs')).1 (by simpa [okG] using hok)
      have hbs : ∀ g ∈ g0 :: gs', c = .json ∨ nonEmptyMulti g = true := by
        intro g hg
        rcases hb with h | h
        · exact Or.inl h
        · exact Or.inr ((nonEmptyMultis_iff _).1 (by simpa [nonEmptyMulti] using h) g hg)
      have hel := decodeGElems_geomsJ c (g0 :: gs')
        (fun g hg => ih g hg (hoks g hg).2 (hbs g hg) (hoks g hg).1) (fun g hg => (hoks g hg).1)
      have hdoc : geomJ c (.collection (g0 :: gs')) =
          .obj [("type", .str "GeometryCollection"), ("geometries", .arr (geomsJ c (g0 :: gs')))] := by
        simp [geomJ, geomsJ]
      have hmap : (List.map (fun g => some (⟨.val (canonG g), false⟩ : DG)) (g0 :: gs')) =
          ((g0 :: gs').map fun g => (⟨.val (canonG g), false⟩ : DG)).map some := by
        simp
      rw [hmap] at hel
      rw [hdoc, decode_collObj c _ _ hel]
      simp [canonG, canonGs_eq_map, V.toGeom]

/-! ### the entry points -/

theorem geomDoc_val (c : Codec) (g : G) (h : isEmptyColl g = false) : geomDoc c (.val g) = geomJ c g := by
  have hn := geomJ_ne_null c g h
  unfold geomDoc geomMember
  cases c <;> cases hj : geomJ .. <;> simp_all

theorem geomPtrOfDoc_ne_null (j : Json) (h : j ≠ .null) : geomPtrOfDoc j = geomOfDoc .json j := by
  cases j <;> simp_all [geomPtrOfDoc]

theorem geom_roundtrip' (c : Codec) (g : G) (hok : okG g = true) (hb : c = .json ∨ nonEmptyMulti g = true)
    (hne : isEmptyColl g = false) : geomOfDoc c (geomDoc c (.val g)) = .ok (.val (canonG g)) := by
  rw [geomDoc_val c g hne, geomOfDoc, decode_geomJ c g hok hb hne]
  rfl

theorem geom_roundtrip_ptr' (v : V) (hok : okV v = true) : geomPtrOfDoc (geomDoc .json v) = .ok (canonV v) := by
  cases v with
  | nilIface => rfl
  | nilSlice k =>
    cases k
    case point => simp [okV] at hok
    case bound => simp [okV] at hok
    case collection => rfl
    all_goals
      simp only [geomDoc, geomMember, kindName, coordDoc_eq .json _ _ _ (Or.inl rfl)]
      rw [geomPtrOfDoc_ne_null _ (by simp), geomOfDoc, decode_coordObj .json _ _ _ (by simp [coordsOf, sliceOf, sliceOf', ptsOf, mapOpt]; rfl) (by decide)]
      rfl
  | val g =>
    by_cases he : isEmptyColl g = true
    · cases g with
      | collection gs => cases gs with
        | nil => rfl
        | cons _ _ => simp [isEmptyColl] at he
      | _ => simp [isEmptyColl] at he
    · have he' : isEmptyColl g = false := by simpa using he
      rw [geomPtrOfDoc_ne_null _ (by rw [geomDoc_val _ g he']; exact geomJ_ne_null _ g he'),
        geom_roundtrip' .json g (by simpa [okV] using hok) (Or.inl rfl) he']
      cases g with
      | collection gs => cases gs with
        | nil => simp [isEmptyColl] at he
        | cons _ _ => rfl
      | _ => rfl

/-! ### marshalling the decoded value again -/

theorem geomJ_canonG (c : Codec) : ∀ g : G, geomJ c (canonG g) = geomJ c g := by
  intro g
  induction g using G.ind with
  | h5 ps => simp [canonG, geomJ, coordDoc, ptssJ]
  | h8 a b => simp [canonG, geomJ, coordDoc, ptssJ]
  | hc gs ih =>
    cases gs with
    | nil => rfl
    | cons g0 gs' =>
      have h0 := ih g0 (by simp)
      have hs : geomsJ c (canonG.canonGs gs') = geomsJ c gs' := by
        rw [canonGs_eq_map, geomsJ_eq_map, geomsJ_eq_map, List.map_map]
        exact List.map_congr_left fun g hg => ih g (by simp [hg])
      simp [canonG, canonG.canonGs, geomJ, h0, hs]
  | _ => rfl

theorem geomMember_canonV (c : Codec) (v : V) (hr : v ≠ .nilSlice .ring) :
    geomMember c (canonV v) = geomMember c v := by
  cases v with
  | nilIface => rfl
  | nilSlice k => cases k <;> first | rfl | exact absurd rfl hr
  | val g =>
    cases g with
    | collection gs =>
      cases gs with
      | nil => rfl
      | cons g0 gs' => exact geomJ_canonG c _
    | _ => exact geomJ_canonG c _

theorem remarshal_geom' (c : Codec) (v : V) (hr : v ≠ .nilSlice .ring) :
    geomDoc c (canonV v) = geomDoc c v := by
  simp [geomDoc, geomMember_canonV c v hr]

/-! ### RFC 7946 shape -/

theorem coordDepth_pt (p : Pt UInt64) : coordDepth 1 (ptJ p) = true := by simp [ptJ, coordDepth]

theorem allDepth_map {α : Type} (d : Nat) (f : α → Json) (l : List α) (h : ∀ a ∈ l, coordDepth d (f a) = true) :
    coordDepth.allDepth d (l.map f) = true := by
  induction l with
  | nil => rfl
  | cons a l ih => simp [coordDepth.allDepth, h a (by simp), ih (fun b hb => h b (by simp [hb]))]

theorem coordDepth_pts (ps : List (Pt UInt64)) : coordDepth 2 (ptsJ ps) = true := by
  simp [ptsJ, coordDepth, allDepth_map 1 ptJ ps (fun p _ => coordDepth_pt p)]

theorem coordDepth_ptss (l : List (List (Pt UInt64))) : coordDepth 3 (ptssJ l) = true := by
  simp [ptssJ, coordDepth, allDepth_map 2 ptsJ l (fun p _ => coordDepth_pts p)]

theorem coordDepth_ptsss (l : List (List (List (Pt UInt64)))) : coordDepth 4 (ptsssJ l) = true := by
  simp [ptsssJ, coordDepth, allDepth_map 3 ptssJ l (fun p _ => coordDepth_ptss p)]

theorem wellformed_coord (ty : String) (d : Nat) (J : Json) (hd : depthOfType ty = some d)
    (h : coordDepth d J = true) : wellformed (.obj [("type", .str ty), ("coordinates", J)]) = true := by
  simp [wellformed, hd, h]

theorem wellformedList_map (l : List Json) (h : ∀ j ∈ l, wellformed j = true) : wellformedList l = true := by
  induction l with
  | nil => rfl
  | cons a l ih => simp [wellformedList, h a (by simp), ih (fun b hb => h b (by simp [hb]))]

theorem doc_wellformed' (c : Codec) : ∀ g : G, okG g = true → (c = .json ∨ nonEmptyMulti g = true) →
    isEmptyColl g = false → wellformed (geomJ c g) = true := by
  intro g
  induction g using G.ind with
  | h1 p => intro _ _ _; exact wellformed_coord _ 1 _ rfl (coordDepth_pt p)
  | h2 ps =>
    intro _ hb _
    have hn : c = .json ∨ ps.length ≠ 0 := hb.imp id fun h => by cases ps <;> simp_all [nonEmptyMulti]
    rw [geomJ, coordDoc_eq c _ _ _ hn]; exact wellformed_coord _ 2 _ rfl (coordDepth_pts ps)
  | h3 ps =>
    intro _ hb _
    have hn : c = .json ∨ ps.length ≠ 0 := hb.imp id fun h => by cases ps <;> simp_all [nonEmptyMulti]
    rw [geomJ, coordDoc_eq c _ _ _ hn]; exact wellformed_coord _ 2 _ rfl (coordDepth_pts ps)
  | h4 ls =>
    intro _ hb _
    have hn : c = .json ∨ ls.length ≠ 0 := hb.imp id fun h => by cases ls <;> simp_all [nonEmptyMulti]
    rw [geomJ, coordDoc_eq c _ _ _ hn]; exact wellformed_coord _ 3 _ rfl (coordDepth_ptss ls)
  | h5 ps => intro _ _ _; exact wellformed_coord _ 3 _ rfl (coordDepth_ptss [ps])
  | h6 rs =>
    intro _ hb _
    have hn : c = .json ∨ rs.length ≠ 0 := hb.imp id fun h => by cases rs <;> simp_all [nonEmptyMulti]
    rw [geomJ, coordDoc_eq c _ _ _ hn]; exact wellformed_coord _ 3 _ rfl (coordDepth_ptss rs)
  | h7 ps =>
    intro _ hb _
    have hn : c = .json ∨ ps.length ≠ 0 := hb.imp id fun h => by cases ps <;> simp_all [nonEmptyMulti]
    rw [geomJ, coordDoc_eq c _ _ _ hn]; exact wellformed_coord _ 4 _ rfl (coordDepth_ptsss ps)
  | h8 a b => intro _ _ _; exact wellformed_coord _ 3 _ rfl (coordDepth_ptss [boundRing a b])
  | hc gs ih =>
    intro hok hb hne
    cases gs with
    | nil => simp [isEmptyColl] at hne
    | cons g0 gs' =>
      have hoks := (okGs_iff (g0 :: gs')).1 (by simpa [okG] using hok)
      have hbs : ∀ g ∈ g0 :: gs', c = .json ∨ nonEmptyMulti g = true := by
        intro g hg
        rcases hb with h | h
        · exact Or.inl h
        · exact Or.inr ((nonEmptyMultis_iff _).1 (by simpa [nonEmptyMulti] using h) g hg)
      have hdoc : geomJ c (.collection (g0 :: gs')) =
          .obj [("type", .str "GeometryCollection"), ("geometries", .arr (geomsJ c (g0 :: gs')))] := by
        simp [geomJ, geomsJ]
      have hl : wellformedList (geomsJ c (g0 :: gs')) = true := by
        rw [geomsJ_eq_map]
        exact wellformedList_map _ (by
          intro j hj
          obtain ⟨g, hg, rfl⟩ := List.mem_map.1 hj
          exact ih g hg (hoks g hg).2 (hbs g hg) (hoks g hg).1)
      rw [hdoc]
      simp [wellformed, hl, depthOfType]

/-! ### property / id / foreign-member values -/

/-- structural induction for the nested inductive `Json` -/
theorem Json.ind {P : Json → Prop} (hnull : P .null) (hbool : ∀ b, P (.bool b)) (hnum : ∀ b, P (.num b))
    (hstr : ∀ s, P (.str s)) (harr : ∀ l, (∀ j ∈ l, P j) → P (.arr l))
    (hobj : ∀ ms : Members, (∀ kv ∈ ms, P kv.2) → P (.obj ms)) (hbad : P .bad) : ∀ j, P j := by
  intro j
  refine Json.rec (motive_1 := P) (motive_2 := fun l => ∀ j ∈ l, P j)
    (motive_3 := fun ms => ∀ kv ∈ ms, P kv.2) (motive_4 := fun kv => P kv.2)
    hnull hbool hnum hstr harr hobj hbad ?_ ?_ ?_ ?_ ?_ j
  · intro j hj; cases hj
  · intro head tail hh ht j hj
    rcases List.mem_cons.1 hj with rfl | hj
    · exact hh
    · exact ht j hj
  · intro kv hkv; cases hkv
  · intro head tail hh ht kv hkv
    rcases List.mem_cons.1 hkv with rfl | hkv
    · exact hh
    · exact ht kv hkv
  · intro k v hv; exact hv

theorem valOfList_eq_map (l : List Json) : valOfList l = l.map valOf := by
  induction l with
  | nil => rfl
  | cons j l ih => simp [valOfList, ih]

theorem valOfMembers_eq_map (ms : Members) : valOfMembers ms = ms.map fun kv => (kv.1, valOf kv.2) := by
  induction ms with
  | nil => rfl
  | cons kv ms ih => obtain ⟨k, v⟩ := kv; simp [valOfMembers, ih]

theorem okVals_iff (l : List Json) : okVals l = true ↔ ∀ j ∈ l, okVal j = true := by
  induction l with
  | nil => simp [okVals]
  | cons j l ih => simp [okVals, ih]

/-- the keys of a member list are strictly increasing -/
def SortedKeys : Members → Prop
  | [] => True
  | [_] => True
  | (k, _) :: (k', v') :: rest => k < k' ∧ SortedKeys ((k', v') :: rest)

theorem okMembers_iff (ms : Members) :
    okMembers ms = true ↔ (∀ kv ∈ ms, okVal kv.2 = true) ∧ SortedKeys ms := by
  induction ms with
  | nil => simp [okMembers, SortedKeys]
  | cons kv ms ih =>
    obtain ⟨k, v⟩ := kv
    cases ms with
    | nil => simp [okMembers, SortedKeys]
    | cons kv' rest =>
      obtain ⟨k', v'⟩ := kv'
      rw [show okMembers ((k, v) :: (k', v') :: rest) =
        (okVal v && decide (k < k') && okMembers ((k', v') :: rest)) from rfl]
      simp only [Bool.and_eq_true, decide_eq_true_eq, ih, SortedKeys, List.mem_cons, forall_eq_or_imp]
      constructor
      · rintro ⟨⟨a, b⟩, ⟨c, d⟩, e⟩; exact ⟨⟨a, c, d⟩, b, e⟩
      · rintro ⟨⟨a, c, d⟩, b, e⟩; exact ⟨⟨a, b⟩, ⟨c, d⟩, e⟩

theorem normKeys_sorted (ms : Members) (h : SortedKeys ms) : normKeys ms = ms := by
  induction ms with
  | nil => rfl
  | cons kv ms ih =>
    obtain ⟨k, v⟩ := kv
    cases ms with
    | nil => rfl
    | cons kv' rest =>
      obtain ⟨k', v'⟩ := kv'
      have h' : k < k' ∧ SortedKeys ((k', v') :: rest) := h
      rw [normKeys, ih h'.2]
      simp [insertKeep, h'.1]

/-- a value as Go holds it is its own document -/
theorem valOf_ok : ∀ j : Json, okVal j = true → valOf j = j := by
  intro j
  induction j using Json.ind with
  | harr l ih =>
    intro h
    have h' := (okVals_iff l).1 (by simpa [okVal] using h)
    have hl : l.map valOf = l := by
      conv => rhs; rw [← List.map_id l]
      exact List.map_congr_left fun j hj => by simp [ih j hj (h' j hj)]
    simp [valOf, valOfList_eq_map, hl]
  | hobj ms ih =>
    intro h
    have h' := (okMembers_iff ms).1 (by simpa [okVal] using h)
    have hm : valOfMembers ms = ms := by
      rw [valOfMembers_eq_map]
      conv => rhs; rw [← List.map_id ms]
      exact List.map_congr_left fun kv hkv => by
        obtain ⟨k, v⟩ := kv
        simp [ih (k, v) hkv (h'.1 (k, v) hkv)]
    simp [valOf, hm, normKeys_sorted ms h'.2]
  | _ => intros; rfl

theorem valOfMembers_ok (ms : Members) (h : okMembers ms = true) : valOfMembers ms = ms := by
  have h' := (okMembers_iff ms).1 h
  rw [valOfMembers_eq_map]
  conv => rhs; rw [← List.map_id ms]
  exact List.map_congr_left fun kv hkv => by
    obtain ⟨k, v⟩ := kv
    simp [valOf_ok v (h'.1 (k, v) hkv)]

theorem normVal_ok (ms : Members) (h : okMembers ms = true) : normKeys (valOfMembers ms) = ms := by
  rw [valOfMembers_ok ms h, normKeys_sorted ms ((okMembers_iff ms).1 h).2]

theorem hasInfList_iff (l : List Json) : hasInfList l = false ↔ ∀ j ∈ l, hasInf j = false := by
  induction l with
  | nil => simp [hasInfList]
  | cons j l ih => simp [hasInfList, ih]

theorem hasInfMembers_iff (ms : Members) : hasInfMembers ms = false ↔ ∀ kv ∈ ms, hasInf kv.2 = false := by
  induction ms with
  | nil => simp [hasInfMembers]
  | cons kv ms ih => obtain ⟨k, v⟩ := kv; simp [hasInfMembers, ih]

theorem hasInf_ok : ∀ j : Json, okVal j = true → hasInf j = false := by
  intro j
  induction j using Json.ind with
  | hnum b => intro h; simpa [hasInf] using finite_not_inf (by simpa [okVal] using h)
  | harr l ih =>
    intro h
    have h' := (okVals_iff l).1 (by simpa [okVal] using h)
    simpa [hasInf] using (hasInfList_iff l).2 fun j hj => ih j hj (h' j hj)
  | hobj ms ih =>
    intro h
    have h' := (okMembers_iff ms).1 (by simpa [okVal] using h)
    simpa [hasInf] using (hasInfMembers_iff ms).2 fun kv hkv => ih kv hkv (h'.1 kv hkv)
  | _ => intros; rfl

theorem hasInfMembers_ok (ms : Members) (h : okMembers ms = true) : hasInfMembers ms = false :=
  (hasInfMembers_iff ms).2 fun kv hkv => hasInf_ok kv.2 (((okMembers_iff ms).1 h).1 kv hkv)

theorem hasBadList_iff (l : List Json) : hasBadList l = false ↔ ∀ j ∈ l, hasBad j = false := by
  induction l with
  | nil => simp [hasBadList]
  | cons j l ih => simp [hasBadList, ih]

theorem hasBadMembers_iff (ms : Members) : hasBadMembers ms = false ↔ ∀ kv ∈ ms, hasBad kv.2 = false := by
  induction ms with
  | nil => simp [hasBadMembers]
  | cons kv ms ih => obtain ⟨k, v⟩ := kv; simp [hasBadMembers, ih]

/-- a value as Go holds it has no unreadable element -/
theorem hasBad_ok : ∀ j : Json, okVal j = true → hasBad j = false := by
  intro j
  induction j using Json.ind with
  | harr l ih =>
    intro h
    have h' := (okVals_iff l).1 (by simpa [okVal] using h)
    simpa [hasBad] using (hasBadList_iff l).2 fun j hj => ih j hj (h' j hj)
  | hobj ms ih =>
    intro h
    have h' := (okMembers_iff ms).1 (by simpa [okVal] using h)
    simpa [hasBad] using (hasBadMembers_iff ms).2 fun kv hkv => ih kv hkv (h'.1 kv hkv)
  | hbad => intro h; simp [okVal] at h
  | _ => intros; rfl

theorem hasBadMembers_ok (ms : Members) (h : okMembers ms = true) : hasBadMembers ms = false :=
  (hasBadMembers_iff ms).2 fun kv hkv => hasBad_ok kv.2 (((okMembers_iff ms).1 h).1 kv hkv)

/-! ### features -/

theorem decode_geomMember (c : Codec) (v : V) (hok : okV v = true) (hb : c = .json ∨ okVB v = true) :
    (geomMember c v = .null ∧ canonV v = .nilIface) ∨
    (geomMember c v ≠ .null ∧ decodeGeometry c (geomMember c v) = .ok ⟨canonV v, false⟩) := by
  cases v with
  | nilIface => exact Or.inl ⟨rfl, rfl⟩
  | nilSlice k =>
    have hj : c = .json := by rcases hb with h | h; exact h; simp [okVB] at h
    subst hj
    cases k
    case point => simp [okV] at hok
    case bound => simp [okV] at hok
    case collection => exact Or.inl ⟨rfl, rfl⟩
    all_goals
      refine Or.inr ⟨by simp [geomMember, kindName, coordDoc], ?_⟩
      simp only [geomMember, kindName, coordDoc_eq .json _ _ _ (Or.inl rfl)]
      rw [decode_coordObj .json _ _ _ (by simp [coordsOf, sliceOf, sliceOf', ptsOf, mapOpt]; rfl) (by decide)]
      rfl
  | val g =>
    by_cases he : isEmptyColl g = true
    · cases g with
      | collection gs => cases gs with
        | nil => exact Or.inl ⟨rfl, rfl⟩
        | cons _ _ => simp [isEmptyColl] at he
      | _ => simp [isEmptyColl] at he
    · have he' : isEmptyColl g = false := by simpa using he
      refine Or.inr ⟨geomJ_ne_null c g he', ?_⟩
      have := decode_geomJ c g (by simpa [okV] using hok) (hb.imp id fun h => by simpa [okVB] using h) he'
      simp only [geomMember, this]
      cases g with
      | collection gs => cases gs with
        | nil => simp [isEmptyColl] at he
        | cons _ _ => rfl
      | _ => rfl

theorem bboxOf_bboxJ (c : Codec) (bb : List UInt64) (h : bb.all finite = true) :
    bboxOf c (bboxJ bb) = some (some bb) :=
  sliceOf_arr_map _ _ _ fun b hb => f64Of_num c b (Or.inr (List.all_eq_true.1 h b hb))

theorem fStep_id_some (c : Codec) (j : Json) (st : FSt) (h : okId (some j) = true) :
    fStep c "id" (valOf j) st = .ok { st with id := some j } := by
  cases j <;> simp [okId] at h
  case num b => simp [fStep, fIdField, fk_id, valOf, hasInf, hasBad, finite_not_inf h]
  case str s => simp [fStep, fIdField, fk_id, valOf, hasInf, hasBad]

theorem fStep_id_null (c : Codec) (st : FSt) : fStep c "id" .null st = .ok { st with id := none } := by
  simp [fStep, fIdField, fk_id]

theorem fStep_type (c : Codec) (s : String) (st : FSt) : fStep c "type" (.str s) st = .ok { st with ty := s } := by
  simp (config := { decide := true }) [fStep, fTypeField, fk_type]

theorem fStep_bbox (c : Codec) (bb : List UInt64) (st : FSt) (h : bb.all finite = true) :
    fStep c "bbox" (bboxJ bb) st = .ok { st with bbox := some bb } := by
  simp (config := { decide := true }) [fStep, fBBoxField, fk_bbox, bboxOf_bboxJ c bb h]

theorem fStep_geometry_null (c : Codec) (st : FSt) :
    fStep c "geometry" .null st = .ok { st with geom := none } := by
  simp (config := { decide := true }) [fStep, fGeomField, fk_geometry]

theorem fStep_geometry (c : Codec) (j : Json) (d : DG) (st : FSt) (hn : j ≠ .null)
    (h : decodeGeometry c j = .ok d) : fStep c "geometry" j st = .ok { st with geom := some d } := by
  cases j <;> simp_all (config := { decide := true }) [fStep, fGeomField, fk_geometry]

theorem fStep_props_null (c : Codec) (st : FSt) :
    fStep c "properties" .null st = .ok { st with props := none } := by
  simp (config := { decide := true }) [fStep, fPropsField, fk_properties]

theorem fStep_props_obj (c : Codec) (ms : Members) (st : FSt) (h : okMembers ms = true) :
    fStep c "properties" (.obj ms) st = .ok { st with props := some ms } := by
  simp (config := { decide := true }) [fStep, fPropsField, fk_properties, normVal_ok ms h, hasInfMembers_ok ms h,
    hasBadMembers_ok ms h]

theorem decodeFMembers_append (c : Codec) (ms1 ms2 : Members) (st : FSt) :
    decodeFMembers c (ms1 ++ ms2) st =
      (match decodeFMembers c ms1 st with
       | .ok st' => decodeFMembers c ms2 st'
       | .err e => .err e
       | .panic s => .panic s) := by
  induction ms1 generalizing st with
  | nil => simp [decodeFMembers]
  | cons kv ms1 ih =>
    obtain ⟨k, v⟩ := kv
    simp only [List.cons_append, decodeFMembers]
    cases fStep c k v st <;> simp [ih]

/-- the "id" part of the feature document -/
theorem decode_idPart (c : Codec) (id : Option Json) (st : FSt) (h : okId id = true) (h0 : st.id = none) :
    decodeFMembers c (idMember c id) st = .ok { st with id := id } := by
  obtain ⟨i, t, b, g, p, sv⟩ := st
  simp only at h0
  subst h0
  cases id with
  | none => cases c <;> simp [idMember, decodeFMembers, fStep_id_null]
  | some j => simp [idMember, decodeFMembers, fStep_id_some c j _ h]

/-- the "bbox" part -/
theorem decode_bboxPart (c : Codec) (bbox : Option (List UInt64)) (st : FSt)
    (h : (bbox.getD []).all finite = true) (h0 : st.bbox = none) :
    decodeFMembers c (bboxMember bbox) st = .ok { st with bbox := canonBBox bbox } := by
  obtain ⟨i, t, b, g, p, sv⟩ := st
  simp only at h0
  subst h0
  cases bbox with
  | none => simp [bboxMember, canonBBox, decodeFMembers]
  | some bb =>
    cases bb with
    | nil => simp [bboxMember, canonBBox, decodeFMembers]
    | cons b bs => simp [bboxMember, canonBBox, decodeFMembers, fStep_bbox c (b :: bs) _ (by simpa using h)]

theorem fStep_propsDoc (c : Codec) (props : Option Members) (st : FSt) (hp : okMembers (props.getD []) = true) :
    fStep c "properties" (propsDoc props) st = .ok { st with props := canonProps props } := by
  cases props with
  | none => simp [propsDoc, canonProps, fStep_props_null]
  | some ps =>
    cases ps with
    | nil => simp [propsDoc, canonProps, fStep_props_null]
    | cons p ps =>
      have h1 : okMembers (p :: ps) = true := by simpa using hp
      simp only [propsDoc, canonProps, normVal_ok _ h1]
      exact fStep_props_obj c _ st h1

/-- the "geometry" and "properties" part, and `featureUnmarshalFinish` -/
theorem decode_tailPart (c : Codec) (v : V) (props : Option Members) (st : FSt)
    (hok : okV v = true) (hb : c = .json ∨ okVB v = true) (hp : okMembers (props.getD []) = true)
    (hg : st.geom = none) (hpr : st.props = none) (hs : st.saved = false) (ht : st.ty = "Feature") :
    (decodeFMembers c [("geometry", geomMember c v), ("properties", propsDoc props)] st).bind featureFinish =
    .ok { id := st.id, typ := "Feature", bbox := st.bbox, geom := canonV v, props := canonProps props } := by
  obtain ⟨i, t, b, g, p, sv⟩ := st
  simp only at hg hpr hs ht
  subst hg hpr hs ht
  rcases decode_geomMember c v hok hb with ⟨hn, hcan⟩ | ⟨hn, hdec⟩
  · simp [decodeFMembers, hn, fStep_geometry_null, fStep_propsDoc c props _ hp, featureFinish, hcan, Res.bind]
  · simp [decodeFMembers, fStep_geometry c _ _ _ hn hdec, fStep_propsDoc c props _ hp, featureFinish,
      derefGeometry, Res.bind]

theorem featureOfDoc_obj (c : Codec) (ms : Members) :
    featureOfDoc c false (.obj ms) = (decodeFMembers c ms {}).bind featureFinish := by
  simp only [featureOfDoc, featureDocPtr, Bool.false_eq_true, if_false]
  cases decodeFMembers c ms {} <;> simp [Res.map, Res.bind, featureFinishPtr]

theorem decodeFMembers_append' (c : Codec) (ms1 ms2 : Members) (st : FSt) :
    decodeFMembers c (ms1 ++ ms2) st = (decodeFMembers c ms1 st).bind (decodeFMembers c ms2) := by
  rw [decodeFMembers_append]; cases decodeFMembers c ms1 st <;> rfl

/-- **Feature round trip** (json and bson) -/
theorem feature_roundtrip' (c : Codec) (f : Feature) (hok : okFeature f = true)
    (hb : c = .json ∨ okVB f.geom = true) :
    featureOfDoc c false (featureDoc c f) = .ok (canonF f) := by
  obtain ⟨id, typ, bbox, geom, props⟩ := f
  simp only [okFeature, Bool.and_eq_true] at hok
  obtain ⟨⟨⟨hid, hv⟩, hbb⟩, hp⟩ := hok
  have hidv : id.map valOf = id := by
    cases id with
    | none => rfl
    | some j => cases j <;> simp [okId] at hid <;> simp [valOf]
  simp only [featureDoc, featureDocG, List.append_assoc, featureOfDoc_obj]
  rw [decodeFMembers_append', decode_idPart c id {} hid rfl]
  simp only [Res.bind, List.cons_append, List.nil_append, decodeFMembers, fStep_type]
  rw [decodeFMembers_append', decode_bboxPart c bbox _ hbb rfl]
  simp only [Res.bind]
  have := decode_tailPart c geom props { id := id, ty := "Feature", bbox := canonBBox bbox } hv hb hp rfl rfl rfl rfl
  simp only [Res.bind] at this
  rw [this]
  simp [canonF, hidv]

theorem noNilRing_ne (v : V) (h : noNilRing v = true) : v ≠ .nilSlice .ring := by
  rintro rfl; simp [noNilRing] at h

theorem feature_remarshal' (c : Codec) (f : Feature) (hok : okFeature f = true) (hr : noNilRing f.geom = true) :
    featureDoc c (canonF f) = featureDoc c f := by
  obtain ⟨id, typ, bbox, geom, props⟩ := f
  simp only [okFeature, Bool.and_eq_true] at hok
  obtain ⟨⟨⟨hid, hv⟩, hbb⟩, hp⟩ := hok
  have hidv : id.map valOf = id := by
    cases id with
    | none => rfl
    | some j => cases j <;> simp [okId] at hid <;> simp [valOf]
  have hbx : bboxMember (canonBBox bbox) = bboxMember bbox := by
    cases bbox with
    | none => rfl
    | some bb => cases bb <;> rfl
  have hpr : propsDoc (canonProps props) = propsDoc props := by
    cases props with
    | none => rfl
    | some ps =>
      cases ps with
      | nil => rfl
      | cons p ps =>
        have h1 : okMembers (p :: ps) = true := by simpa using hp
        simp [propsDoc, canonProps, normVal_ok _ h1]
  simp only [featureDoc, featureDocG, canonF, hidv, hbx, hpr, geomMember_canonV c geom (noNilRing_ne _ hr)]

end Orb.GeoJSON
