/-
  C05 helper lemmas, byte-slice path: no panic, "success implies enough bytes".
-/
import OrbProofs.C05Stream

namespace Orb.WKB
open Orb Generated.Params

/-! ### headers -/

theorem byteOrderType_np (buf : Bytes) : (byteOrderType buf).isPanic = false := by
  unfold byteOrderType
  split
  · rfl
  · split
    · split
      · rfl
      · split <;> rfl
    · rfl

theorem byteOrderType_len {buf : Bytes} {o : Order} {t : Nat} (h : byteOrderType buf = .ok (o, t)) :
    6 ≤ buf.length := by
  unfold byteOrderType at h
  split at h
  · contradiction
  · omega

theorem unmarshalBOT_np (buf : Bytes) : (unmarshalBOT buf).isPanic = false := by
  unfold unmarshalBOT
  split
  · split
    · rfl
    · split <;> rfl
  · rfl
  · rename_i heq
    exact (np_absurd heq (byteOrderType_np _)).elim

theorem unmarshalBOT_len {buf gd : Bytes} {o : Order} {t srid : Nat}
    (h : unmarshalBOT buf = .ok (o, t, srid, gd)) : gd.length + 5 ≤ buf.length ∧ 6 ≤ buf.length := by
  unfold unmarshalBOT at h
  split at h
  · rename_i hb
    have h6 := byteOrderType_len hb
    split at h
    · injection h with h; injection h with _ h; injection h with _ h; injection h with _ h
      subst h
      simp only [List.length_drop]; omega
    · split at h
      · contradiction
      · injection h with h; injection h with _ h; injection h with _ h; injection h with _ h
        subst h
        simp only [List.length_drop]; omega
  · contradiction
  · contradiction

/-! ### points -/

theorem unmarshalPoints_np (o : Order) (data : Bytes) : (unmarshalPoints o data).isPanic = false := by
  unfold unmarshalPoints
  split
  · rfl
  · simp only []
    split <;> rfl

theorem unmarshalPoints_len {o : Order} {data : Bytes} {ps : List (Pt UInt64)}
    (h : unmarshalPoints o data = .ok ps) : 4 + 16 * ps.length ≤ data.length := by
  unfold unmarshalPoints at h
  split at h
  · contradiction
  · simp only [] at h
    split at h
    · contradiction
    · rename_i h4 hn
      injection h with h
      subst h
      rw [readPts_length]
      simp only [List.length_drop] at hn
      omega

theorem unmarshalPoint_np (o : Order) (buf : Bytes) : (unmarshalPoint o buf).isPanic = false := by
  unfold unmarshalPoint
  split <;> rfl

theorem unmarshalPoint_len {o : Order} {buf : Bytes} {p : Pt UInt64}
    (h : unmarshalPoint o buf = .ok p) : 16 ≤ buf.length := by
  unfold unmarshalPoint at h
  split at h
  · contradiction
  · omega

/-! ### sliceFrom -/

theorem sliceFrom_of_le {data : Bytes} {n : Nat} (h : n ≤ data.length) :
    sliceFrom data n = .ok (data.drop n) := by
  unfold sliceFrom; rw [if_pos h]

theorem sliceFrom_len {data rest : Bytes} {n : Nat} (h : sliceFrom data n = .ok rest) :
    rest.length + n = data.length := by
  unfold sliceFrom at h
  split at h
  · injection h with h; subst h; simp only [List.length_drop]; omega
  · contradiction

theorem sliceFrom_np_of_le {data : Bytes} {n : Nat} (h : n ≤ data.length) :
    (sliceFrom data n).isPanic = false := by
  rw [sliceFrom_of_le h]; rfl

/-! ### polygon -/

theorem unmarshalPolygon_loop_np (o : Order) (n : Nat) :
    ∀ data, (unmarshalPolygon.loop o n data).isPanic = false := by
  induction n with
  | zero => intro data; rfl
  | succ n ih =>
    intro data
    simp only [unmarshalPolygon.loop]
    split
    · rename_i ps hps
      have hl := unmarshalPoints_len hps
      split
      · split
        · rfl
        · rfl
        · rename_i heq
          exact (np_absurd heq (ih _)).elim
      · rfl
      · rename_i heq
        exact (np_absurd heq (sliceFrom_np_of_le (by omega))).elim
    · rfl
    · rename_i heq
      exact (np_absurd heq (unmarshalPoints_np _ _)).elim

theorem unmarshalPolygon_loop_len {o : Order} (n : Nat) : ∀ {data : Bytes} {rs : List (List (Pt UInt64))},
    unmarshalPolygon.loop o n data = .ok rs → (rs.map fun r => 4 + 16 * r.length).sum ≤ data.length := by
  induction n with
  | zero =>
    intro data rs h
    simp only [unmarshalPolygon.loop] at h
    injection h with h; subst h; simp
  | succ n ih =>
    intro data rs h
    simp only [unmarshalPolygon.loop] at h
    split at h
    · rename_i ps hps
      split at h
      · rename_i rest hrest
        split at h
        · rename_i rs' hrs'
          injection h with h
          subst h
          have := ih hrs'
          have := sliceFrom_len hrest
          simp only [List.map_cons, List.sum_cons]; omega
        all_goals contradiction
      all_goals contradiction
    all_goals contradiction

theorem unmarshalPolygon_np (o : Order) (data : Bytes) : (unmarshalPolygon o data).isPanic = false := by
  unfold unmarshalPolygon
  split
  · rfl
  · exact unmarshalPolygon_loop_np _ _ _

theorem unmarshalPolygon_len {o : Order} {data : Bytes} {rs : List (List (Pt UInt64))}
    (h : unmarshalPolygon o data = .ok rs) : polyStride rs ≤ data.length + 5 := by
  unfold unmarshalPolygon at h
  split at h
  · contradiction
  · have := unmarshalPolygon_loop_len _ h
    simp only [List.length_drop] at this
    unfold polyStride
    omega

/-! ### member loop -/

theorem memberLoop_len {β : Type} (scan : Bytes → R (β × Nat)) (stride : β → Nat) (n : Nat) :
    ∀ {data : Bytes} {xs : List β},
    memberLoop scan stride n data = .ok xs → (xs.map stride).sum ≤ data.length := by
  induction n with
  | zero =>
    intro data xs h
    simp only [memberLoop] at h
    injection h with h; subst h; simp
  | succ n ih =>
    intro data xs h
    simp only [memberLoop] at h
    split at h
    · rename_i x s hx
      split at h
      · rename_i rest hrest
        split at h
        · rename_i xs' hxs'
          injection h with h
          subst h
          have := ih hxs'
          have := sliceFrom_len hrest
          simp only [List.map_cons, List.sum_cons]; omega
        all_goals contradiction
      all_goals contradiction
    all_goals contradiction

theorem memberLoop_np {β : Type} (scan : Bytes → R (β × Nat)) (stride : β → Nat) (L : Nat)
    (hnp : ∀ d, d.length ≤ L → (scan d).isPanic = false)
    (hstride : ∀ d x s, scan d = .ok (x, s) → stride x ≤ d.length) (n : Nat) :
    ∀ data, data.length ≤ L → (memberLoop scan stride n data).isPanic = false := by
  induction n with
  | zero => intro data _; rfl
  | succ n ih =>
    intro data hd
    simp only [memberLoop]
    split
    · rename_i x s hx
      have hs := hstride _ _ _ hx
      split
      · rename_i rest hrest
        have := sliceFrom_len hrest
        split
        · rfl
        · rfl
        · rename_i heq
          exact (np_absurd heq (ih _ (by omega))).elim
      · rfl
      · rename_i heq
        exact (np_absurd heq (sliceFrom_np_of_le hs)).elim
    · rfl
    · rename_i heq
      exact (np_absurd heq (hnp _ hd)).elim

/-! ### scanMember / scanSingle / unmarshalMultiF -/

theorem unmarshalMultiF_len {β : Type} (tS : Nat) (single : Order → Bytes → R β) (stride : β → Nat)
    (o : Order) (data : Bytes) (xs : List β)
    (h : unmarshalMultiF tS single stride o data = .ok xs) :
    4 + (xs.map stride).sum ≤ data.length := by
  simp only [unmarshalMultiF] at h
  split at h
  · contradiction
  · have := memberLoop_len _ _ _ h
    simp only [List.length_drop] at this
    omega

/-- a successful member scan consumed at least `stride` bytes -/
theorem scanMember_stride {β : Type} (tS : Nat) (single : Order → Bytes → R β) (stride : β → Nat)
    (hsingle : ∀ o d x, single o d = .ok x → stride x ≤ d.length + 5)
    {data : Bytes} {x : β} {s : Nat} (h : scanMember tS single data = .ok (x, s)) :
    stride x ≤ data.length := by
  unfold scanMember at h
  split at h
  · rename_i hb
    have hl := unmarshalBOT_len hb
    split at h
    · contradiction
    · split at h
      · rename_i p hp
        injection h with h; injection h with h _; subst h
        have := hsingle _ _ _ hp
        omega
      all_goals contradiction
  all_goals contradiction

theorem scanMember_np {β : Type} (tS : Nat) (single : Order → Bytes → R β) (data : Bytes)
    (hsingle : ∀ o d, (single o d).isPanic = false) :
    (scanMember tS single data).isPanic = false := by
  unfold scanMember
  split
  · split
    · rfl
    · split
      · rfl
      · rfl
      · rename_i heq
        exact (np_absurd heq (hsingle _ _)).elim
  · rfl
  · rename_i heq
    exact (np_absurd heq (unmarshalBOT_np _)).elim

theorem scanSingle_stride {β : Type} (tS tM : Nat) (single : Order → Bytes → R β)
    (multi : Order → Bytes → R (List β)) (stride : β → Nat)
    (hsingle : ∀ o d x, single o d = .ok x → stride x ≤ d.length + 5)
    (hmulti : ∀ o d x, multi o d = .ok [x] → stride x ≤ d.length)
    {data : Bytes} {x : β} {s : Nat} (h : scanSingle tS tM single multi data = .ok (x, s)) :
    stride x ≤ data.length := by
  unfold scanSingle at h
  split at h
  · rename_i hb
    have hl := unmarshalBOT_len hb
    split at h
    · split at h
      · rename_i p hp
        injection h with h; injection h with h _; subst h
        have := hsingle _ _ _ hp
        omega
      all_goals contradiction
    · split at h
      · split at h
        · rename_i p hp
          injection h with h; injection h with h _; subst h
          have := hmulti _ _ _ hp
          omega
        all_goals contradiction
      · contradiction
  all_goals contradiction

theorem scanSingle_np {β : Type} (tS tM : Nat) (single : Order → Bytes → R β)
    (multi : Order → Bytes → R (List β)) (data : Bytes)
    (hsingle : ∀ o d, (single o d).isPanic = false)
    (hmulti : ∀ o d, (multi o d).isPanic = false) :
    (scanSingle tS tM single multi data).isPanic = false := by
  unfold scanSingle
  split
  · split
    · split
      · rfl
      · rfl
      · rename_i heq
        exact (np_absurd heq (hsingle _ _)).elim
    · split
      · split
        · rfl
        · rfl
        · rfl
        · rename_i heq
          exact (np_absurd heq (hmulti _ _)).elim
      · rfl
  · rfl
  · rename_i heq
    exact (np_absurd heq (unmarshalBOT_np _)).elim

/-- no multi decoder panics: the re-derived stride never exceeds what the member scan was given -/
theorem unmarshalMultiF_np {β : Type} (tS : Nat) (single : Order → Bytes → R β) (stride : β → Nat)
    (hsnp : ∀ o d, (single o d).isPanic = false)
    (hsingle : ∀ o d x, single o d = .ok x → stride x ≤ d.length + 5) (o : Order) (data : Bytes) :
    (unmarshalMultiF tS single stride o data).isPanic = false := by
  simp only [unmarshalMultiF]
  split
  · rfl
  · apply memberLoop_np _ _ (data.drop 4).length
    · intro d _
      exact scanMember_np tS single d hsnp
    · intro d x s hx
      exact scanMember_stride tS single stride hsingle hx
    · exact Nat.le_refl _

/-! ### the three instantiations -/

theorem stride_point (o : Order) (d : Bytes) (x : Pt UInt64) (h : unmarshalPoint o d = .ok x) :
    (fun _ : Pt UInt64 => 21) x ≤ d.length + 5 := by
  have := unmarshalPoint_len h
  simp only []; omega

theorem stride_lineString (o : Order) (d : Bytes) (x : List (Pt UInt64)) (h : unmarshalPoints o d = .ok x) :
    (fun ls : List (Pt UInt64) => 16 * ls.length + 9) x ≤ d.length + 5 := by
  have := unmarshalPoints_len h
  simp only []; omega

theorem stride_polygon (o : Order) (d : Bytes) (x : List (List (Pt UInt64))) (h : unmarshalPolygon o d = .ok x) :
    polyStride x ≤ d.length + 5 := unmarshalPolygon_len h

theorem unmarshalMultiPoint_np (o : Order) (d : Bytes) : (unmarshalMultiPoint o d).isPanic = false :=
  unmarshalMultiF_np _ _ _ unmarshalPoint_np stride_point o d

theorem unmarshalMultiLineString_np (o : Order) (d : Bytes) : (unmarshalMultiLineString o d).isPanic = false :=
  unmarshalMultiF_np _ _ _ unmarshalPoints_np stride_lineString o d

theorem unmarshalMultiPolygon_np (o : Order) (d : Bytes) : (unmarshalMultiPolygon o d).isPanic = false :=
  unmarshalMultiF_np _ _ _ unmarshalPolygon_np stride_polygon o d

theorem scanPoint_np (d : Bytes) : (scanPoint d).isPanic = false :=
  scanSingle_np _ _ _ _ d unmarshalPoint_np unmarshalMultiPoint_np

theorem scanLineString_np (d : Bytes) : (scanLineString d).isPanic = false :=
  scanSingle_np _ _ _ _ d unmarshalPoints_np unmarshalMultiLineString_np

theorem scanPolygon_np (d : Bytes) : (scanPolygon d).isPanic = false :=
  scanSingle_np _ _ _ _ d unmarshalPolygon_np unmarshalMultiPolygon_np

/-! ### hex -/

theorem hexDecode_len : ∀ (l d : Bytes), hexDecode l = some d → l.length = 2 * d.length
  | [], d, h => by simp only [hexDecode] at h; injection h with h; subst h; rfl
  | [_], d, h => by simp only [hexDecode] at h; contradiction
  | a :: b :: rest, d, h => by
    simp only [hexDecode] at h
    split at h
    · rename_i x y bs _ _ hr
      injection h with h; subst h
      have := hexDecode_len rest _ hr
      simp only [List.length_cons]; omega
    · contradiction

end Orb.WKB
