/-
  C07 — the two remaining clauses of the property: "the pieces appear in travel order" and
  "their total length equals the length of the input inside the box".

  Model: `Orb.Clip.line` (clip/clip.go `line`).  Everything here is proved for both modes (`isOpen`
  arbitrary) and specialised to the closed mode in the final section.

  Method: the outer-loop invariant of C07Line (`Good` / `Repr`) is replaced by an invariant `Ann` on an
  ANNOTATED virtual piece list: every vertex carries its position `(i, t)` on the input
  (= the point `lerp inp[i] inp[i+1] t`).  The inner loop is re-examined once more
  (`segLoop_param`) to extract the parameters `s ≤ e` of the accepted sub-segment.

  Main results (section "the property clauses"):
    * `clip_segments`  — the piece segments, read piece after piece, are exactly the accepted
                          sub-segments of the input segments, in input order (one per accepted input
                          segment: nothing twice, nothing omitted);
    * `clip_order`     — travel order, with explicit positions;
    * `clip_length`    — total length of the pieces = sum over the input segments of the length of the
                          accepted sub-segment;
    * `clipSeg_closed_spec`, `segInsideLen_spec`, `isInsideLen_unique`, `clip_length_sem`
                        — the accepted sub-segment is the part of the segment in the closed box, in
                          parametric form, so the right-hand side of `clip_length` is the length of
                          the input inside the box however it is measured.
-/
import OrbProofs.C07Lemmas
import Mathlib.Data.List.Chain
import Mathlib.Algebra.BigOperators.Group.List.Basic
import Mathlib.Algebra.Order.Field.Rat

set_option linter.unusedSectionVars false

namespace Orb.Clip
open Orb Orb.Core Generated.Params

variable {α : Type} [Field α] [LinearOrder α] [IsStrictOrderedRing α]

/-! ### vocabulary of the two clauses -/

section vocab

/-- the vertex `v` is the point at position `p = (i, t)` of the polyline `inp`: segment index `i`
    (so `i + 1 < inp.length`), parameter `t ∈ [0, 1]`, `v = lerp inp[i] inp[i+1] t` -/
def At (inp : List (Pt α)) (p : Nat × α) (v : Pt α) : Prop :=
  ∃ a b, inp[p.1]? = some a ∧ inp[p.1 + 1]? = some b ∧ 0 ≤ p.2 ∧ p.2 ≤ 1 ∧ v = lerp a b p.2

/-- lexicographic order on positions: the order of travel along the input -/
def PosLE (p q : Nat × α) : Prop := p.1 < q.1 ∨ (p.1 = q.1 ∧ p.2 ≤ q.2)

/-- positions of two consecutive vertices of a piece: further along the same input segment, or the
    first is the end (`t = 1`) of segment `i` and the second lies on segment `i + 1` -/
def Step (p q : Nat × α) : Prop := (q.1 = p.1 ∧ p.2 ≤ q.2) ∨ (q.1 = p.1 + 1 ∧ p.2 = 1)

/-- the per-segment result of the inner loop (the model's loop, started as `lineStep` starts it): the
    accepted sub-segment `(a', b')` of the input segment `s`, or nothing -/
def clipSeg (box : Bound α) (isOpen : Bool) (s : Pt α × Pt α) : Option (Pt α × Pt α) :=
  match segLoop box isOpen 8 s.1 s.2 (code box isOpen s.1) (code box isOpen s.2) 0 0 with
  | .accept a' b' _ => some (a', b')
  | _ => none

variable {β : Type} [AddCommMonoid β]

/-- length of a polyline for an arbitrary segment-length function `len` -/
def pathLen (len : Pt α → Pt α → β) (ps : List (Pt α)) : β :=
  ((segsOf ps).map fun s => len s.1 s.2).sum

/-- total length of the pieces -/
def piecesLen (len : Pt α → Pt α → β) (out : List (List (Pt α))) : β :=
  (out.map (pathLen len)).sum

/-- length of the accepted sub-segment of the input segment `s` (zero when rejected) -/
def segInsideLen (box : Bound α) (isOpen : Bool) (len : Pt α → Pt α → β) (s : Pt α × Pt α) : β :=
  match clipSeg box isOpen s with
  | some u => len u.1 u.2
  | none => 0

/-- length of the input inside the box: the sum over the input segments -/
def insideLen (box : Bound α) (isOpen : Bool) (len : Pt α → Pt α → β) (inp : List (Pt α)) : β :=
  ((segsOf inp).map (segInsideLen box isOpen len)).sum

/-- `[s, e]` is the parameter interval of the part of the segment `a b` in the closed box -/
def InsidePart (box : Bound α) (a b : Pt α) (s e : α) : Prop :=
  0 ≤ s ∧ s ≤ e ∧ e ≤ 1 ∧ ∀ t, 0 ≤ t → t ≤ 1 → (InBox box (lerp a b t) ↔ s ≤ t ∧ t ≤ e)

/-- `ℓ` is the length of the part of the segment `a b` in the closed box (semantic, no reference to
    the algorithm) -/
def IsInsideLen (box : Bound α) (len : Pt α → Pt α → β) (a b : Pt α) (ℓ : β) : Prop :=
  (∃ s e, InsidePart box a b s e ∧ ℓ = len (lerp a b s) (lerp a b e)) ∨
  ((∀ t, 0 ≤ t → t ≤ 1 → ¬ InBox box (lerp a b t)) ∧ ℓ = 0)

end vocab

/-! ### positions -/

theorem PosLE.trans {p q r : Nat × α} (h1 : PosLE p q) (h2 : PosLE q r) : PosLE p r := by
  rcases h1 with h1 | ⟨h1, h1'⟩ <;> rcases h2 with h2 | ⟨h2, h2'⟩
  · exact Or.inl (lt_trans h1 h2)
  · exact Or.inl (h2 ▸ h1)
  · exact Or.inl (h1 ▸ h2)
  · exact Or.inr ⟨h1.trans h2, le_trans h1' h2'⟩

instance : Trans (PosLE (α := α)) PosLE PosLE := ⟨PosLE.trans⟩

theorem PosLE.refl (p : Nat × α) : PosLE p p := Or.inr ⟨rfl, le_refl _⟩

theorem At.index_lt {inp : List (Pt α)} {p : Nat × α} {v : Pt α} (h : At inp p v) :
    p.1 + 1 < inp.length := by
  obtain ⟨a, b, _, hb, _⟩ := h
  by_contra hc
  rw [List.getElem?_eq_none (not_lt.1 hc)] at hb
  cases hb

theorem At.param {inp : List (Pt α)} {p : Nat × α} {v : Pt α} (h : At inp p v) : 0 ≤ p.2 ∧ p.2 ≤ 1 := by
  obtain ⟨a, b, _, _, h0, h1, _⟩ := h
  exact ⟨h0, h1⟩

theorem At.onPath {inp : List (Pt α)} {p : Nat × α} {v : Pt α} (h : At inp p v) :
    ∃ a b, inp[p.1]? = some a ∧ inp[p.1 + 1]? = some b ∧ OnSeg a b v := by
  obtain ⟨a, b, ha, hb, h0, h1, rfl⟩ := h
  exact ⟨a, b, ha, hb, onSeg_lerp a b h0 h1⟩

/-- a step between two positions stays within the order of travel -/
theorem Step.posLE {p q : Nat × α} (h : Step p q) : PosLE p q := by
  rcases h with ⟨h1, h2⟩ | ⟨h1, _⟩
  · exact Or.inr ⟨h1.symm, h2⟩
  · exact Or.inl (by omega)

/-- two consecutive vertices of a piece lie on one common input segment, in order -/
theorem Step.same_segment {inp : List (Pt α)} {p q : Nat × α} {u v : Pt α} (hu : At inp p u)
    (hv : At inp q v) (h : Step p q) : ∃ i s e, s ≤ e ∧ At inp (i, s) u ∧ At inp (i, e) v := by
  rcases h with ⟨h1, h2⟩ | ⟨h1, h2⟩
  · refine ⟨p.1, p.2, q.2, h2, hu, ?_⟩
    rw [← h1]; exact hv
  · obtain ⟨a, b, ha, hb, h0, h1', rfl⟩ := hu
    obtain ⟨c, d, hc, hd, k0, k1, rfl⟩ := hv
    rw [h1, hb] at hc
    cases hc
    refine ⟨q.1, 0, q.2, k0, ⟨b, d, by rw [h1]; exact hb, hd, le_refl _, zero_le_one, ?_⟩,
      ⟨b, d, by rw [h1]; exact hb, hd, k0, k1, rfl⟩⟩
    show lerp a b p.2 = lerp b d 0
    rw [h2, lerp_one, lerp_zero]

theorem getElem?_snoc_of_some {γ : Type} {l : List γ} {i : Nat} {x y : γ} (h : l[i]? = some x) :
    (l ++ [y])[i]? = some x := by
  have hi : i < l.length := by
    by_contra hc
    rw [List.getElem?_eq_none (not_lt.1 hc)] at h
    cases h
  rw [List.getElem?_append_left hi]; exact h

theorem At.mono {pre : List (Pt α)} {a b : Pt α} {p : Nat × α} {v : Pt α}
    (h : At (pre ++ [a]) p v) : At (pre ++ [a, b]) p v := by
  obtain ⟨x, y, hx, hy, h0, h1, hv⟩ := h
  have e : pre ++ [a, b] = (pre ++ [a]) ++ [b] := by simp
  rw [e]
  exact ⟨x, y, getElem?_snoc_of_some hx, getElem?_snoc_of_some hy, h0, h1, hv⟩

theorem At.lt {pre : List (Pt α)} {a : Pt α} {p : Nat × α} {v : Pt α} (h : At (pre ++ [a]) p v) :
    p.1 < pre.length := by
  have := h.index_lt
  simp at this
  omega

theorem at_new (pre : List (Pt α)) (a b : Pt α) {t : α} (h0 : 0 ≤ t) (h1 : t ≤ 1) :
    At (pre ++ [a, b]) (pre.length, t) (lerp a b t) :=
  ⟨a, b, by simp, by simp, h0, h1, rfl⟩

/-! ### parameters of the accepted sub-segment -/

/-- the inner loop run on the sub-segment `[s, e]` of `a b` accepts a sub-segment `[s', e']` of it,
    and an end whose code is already zero is not moved (as a parameter, not only as a point) -/
theorem segLoop_param {box : Bound α} (hb : BoxOK box) (a b : Pt α) :
    ∀ (fuel : Nat) (s e : α) (cA cB : Nat), s ≤ e → W box cA (lerp a b s) → W box cB (lerp a b e) →
      ∀ a' b' c, segLoopU box fuel (lerp a b s) (lerp a b e) cA cB = .accept a' b' c →
      ∃ s' e', s ≤ s' ∧ s' ≤ e' ∧ e' ≤ e ∧ a' = lerp a b s' ∧ b' = lerp a b e' ∧
        (cA = 0 → s' = s) ∧ (cB = 0 → e' = e) := by
  intro fuel
  induction fuel with
  | zero => intro s e cA cB _ _ _ a' b' c h; simp [segLoopU] at h
  | succ n ih =>
    intro s e cA cB hse hWA hWB a' b' c h
    rw [segLoopU] at h
    split_ifs at h with h1 h2 h3
    · cases h
      exact ⟨s, e, le_refl _, hse, le_refl _, rfl, rfl, fun _ => rfl, fun _ => rfl⟩
    · have hand : cA &&& cB = 0 := not_not.1 h2
      obtain ⟨T, hT0, hT1, hint, _, _⟩ := clipA hb hWA hWB h3 hand
      rw [hint, lerp_lerp] at h
      obtain ⟨s', e', k1, k2, k3, ka, kb, _, kB⟩ := ih (s + T * (e - s)) e _ cB
        (by nlinarith [mul_nonneg (sub_nonneg.2 hT1) (sub_nonneg.2 hse)]) (W_bitCode hb _) hWB a' b' c h
      exact ⟨s', e', by nlinarith [mul_nonneg hT0 (sub_nonneg.2 hse)], k2, k3, ka, kb,
        fun h0 => absurd h0 h3, kB⟩
    · have hand : cA &&& cB = 0 := not_not.1 h2
      have hA0 : cA = 0 := not_not.1 h3
      have hB0 : cB ≠ 0 := by
        rintro rfl; apply h1; rw [hA0]; rfl
      obtain ⟨T, hT0, hT1, hint, _, _⟩ := clipB hb hWA hWB hB0 hand
      rw [hint, lerp_lerp] at h
      obtain ⟨s', e', k1, k2, k3, ka, kb, kA, _⟩ := ih s (s + T * (e - s)) cA _
        (by nlinarith [mul_nonneg hT0 (sub_nonneg.2 hse)]) hWA (W_bitCode hb _) a' b' c h
      exact ⟨s', e', k1, k2,
        by nlinarith [mul_nonneg (sub_nonneg.2 hT1) (sub_nonneg.2 hse)], ka, kb, kA,
        fun h0 => absurd h0 hB0⟩

/-- what the inner loop does on an input segment, as the outer loop calls it -/
theorem segLoop_cases {box : Bound α} (hb : BoxOK box) (isOpen : Bool) (a b : Pt α) :
    (segLoopU box 8 a b (code box isOpen a) (code box isOpen b) = .reject ∧ code box isOpen a ≠ 0) ∨
    ∃ s e, 0 ≤ s ∧ s ≤ e ∧ e ≤ 1 ∧
      segLoopU box 8 a b (code box isOpen a) (code box isOpen b) = .accept (lerp a b s) (lerp a b e) 0 ∧
      (code box isOpen a = 0 → s = 0) ∧ (code box isOpen b = 0 → e = 1) := by
  have hWA := W_code hb isOpen a
  have hWB := W_code hb isOpen b
  have key := segLoop_spec hb (isOpen = false) 8 a b _ _ hWA hWB
    (by intro h; subst h; exact ⟨rfl, rfl⟩) (mu_lt_eight hWA.1 hWB.1)
  generalize hr : segLoopU box 8 a b (code box isOpen a) (code box isOpen b) = r at key
  cases r with
  | stuck => exact key.elim
  | reject => exact Or.inl ⟨rfl, key.1⟩
  | accept a' b' c =>
    obtain ⟨hc, _⟩ := key
    subst hc
    obtain ⟨s, e, k1, k2, k3, ka, kb, kA, kB⟩ := segLoop_param hb a b 8 0 1 _ _ zero_le_one
      (by rw [lerp_zero]; exact hWA) (by rw [lerp_one]; exact hWB) a' b' 0
      (by rw [lerp_zero, lerp_one]; exact hr)
    subst ka; subst kb
    exact Or.inr ⟨s, e, k1, k2, k3, rfl, kA, kB⟩

/-! ### annotated piece lists -/

/-- forget the positions -/
def unann (Wl : List (List ((Nat × α) × Pt α))) : List (List (Pt α)) := Wl.map (List.map Prod.snd)

@[simp] theorem unann_append (W1 W2 : List (List ((Nat × α) × Pt α))) :
    unann (W1 ++ W2) = unann W1 ++ unann W2 := by simp [unann]

@[simp] theorem unann_length (Wl : List (List ((Nat × α) × Pt α))) : (unann Wl).length = Wl.length := by
  simp [unann]

theorem unann_singleton (l : List ((Nat × α) × Pt α)) : unann [l] = [l.map Prod.snd] := rfl

/-- the invariant of the outer loop: `Wl` is the (virtual) piece list built from the path, every
    vertex annotated with its position -/
structure Ann (box : Bound α) (isOpen : Bool) (path : List (Pt α))
    (Wl : List (List ((Nat × α) × Pt α))) : Prop where
  /-- every vertex is the point at its position -/
  at_ : ∀ l ∈ Wl, ∀ x ∈ l, At path x.1 x.2
  /-- consecutive vertices of a piece -/
  step : ∀ l ∈ Wl, l.IsChain (fun x y => Step x.1 y.1)
  /-- an earlier piece uses strictly earlier input segments than a later piece -/
  sep : Wl.Pairwise (fun l l' => ∀ x ∈ l, ∀ y ∈ l', x.1.1 < y.1.1)
  /-- the piece segments are the accepted sub-segments, in input order -/
  segs : (unann Wl).flatMap segsOf = (segsOf path).filterMap (clipSeg box isOpen)

theorem ann_nil (box : Bound α) (isOpen : Bool) {path : List (Pt α)} (h : segsOf path = []) :
    Ann box isOpen path [] :=
  ⟨by simp, by simp, List.Pairwise.nil, by simp [unann, h]⟩

theorem ann_reject {box : Bound α} {isOpen : Bool} {pre : List (Pt α)} {a b : Pt α}
    {Wl : List (List ((Nat × α) × Pt α))} (hA : Ann box isOpen (pre ++ [a]) Wl)
    (hr : clipSeg box isOpen (a, b) = none) : Ann box isOpen (pre ++ [a, b]) Wl := by
  refine ⟨fun l hl x hx => (hA.at_ l hl x hx).mono, hA.step, hA.sep, ?_⟩
  rw [segsOf_append_pair, List.filterMap_append, hA.segs]
  simp [hr]

theorem ann_new {box : Bound α} {isOpen : Bool} {pre : List (Pt α)} {a b : Pt α}
    {Wl : List (List ((Nat × α) × Pt α))} (hA : Ann box isOpen (pre ++ [a]) Wl) {s e : α}
    (h0 : 0 ≤ s) (hse : s ≤ e) (h1 : e ≤ 1)
    (hr : clipSeg box isOpen (a, b) = some (lerp a b s, lerp a b e)) :
    Ann box isOpen (pre ++ [a, b])
      (Wl ++ [[((pre.length, s), lerp a b s), ((pre.length, e), lerp a b e)]]) := by
  refine ⟨?_, ?_, ?_, ?_⟩
  · intro l hl x hx
    rcases List.mem_append.1 hl with h | h
    · exact (hA.at_ l h x hx).mono
    · rw [List.mem_singleton] at h; subst h
      simp only [List.mem_cons, List.not_mem_nil, or_false] at hx
      rcases hx with rfl | rfl
      · exact at_new pre a b h0 (le_trans hse h1)
      · exact at_new pre a b (le_trans h0 hse) h1
  · intro l hl
    rcases List.mem_append.1 hl with h | h
    · exact hA.step l h
    · rw [List.mem_singleton] at h; subst h
      exact List.isChain_pair.2 (Or.inl ⟨rfl, hse⟩)
  · rw [List.pairwise_append]
    refine ⟨hA.sep, List.pairwise_singleton _ _, ?_⟩
    intro l hl l' hl' x hx y hy
    rw [List.mem_singleton] at hl'; subst hl'
    have := (hA.at_ l hl x hx).lt
    simp only [List.mem_cons, List.not_mem_nil, or_false] at hy
    rcases hy with rfl | rfl <;> exact this
  · rw [segsOf_append_pair, List.filterMap_append, ← hA.segs]
    simp [hr, unann, segsOf]

theorem ann_ext {box : Bound α} {isOpen : Bool} {pre : List (Pt α)} {a b : Pt α}
    {done : List (List ((Nat × α) × Pt α))} {cur : List ((Nat × α) × Pt α)} {i : Nat}
    (hA : Ann box isOpen (pre ++ [a]) (done ++ [cur ++ [((i, 1), a)]])) (hi : i + 1 = pre.length)
    {e : α} (h0 : 0 ≤ e) (h1 : e ≤ 1) (hr : clipSeg box isOpen (a, b) = some (a, lerp a b e)) :
    Ann box isOpen (pre ++ [a, b])
      (done ++ [cur ++ [((i, 1), a), ((pre.length, e), lerp a b e)]]) := by
  have hmem : cur ++ [((i, (1 : α)), a)] ∈ done ++ [cur ++ [((i, 1), a)]] :=
    List.mem_append_right _ (List.mem_singleton.2 rfl)
  have e2 : cur ++ [((i, (1 : α)), a), ((pre.length, e), lerp a b e)] =
      (cur ++ [((i, 1), a)]) ++ [((pre.length, e), lerp a b e)] := by simp
  refine ⟨?_, ?_, ?_, ?_⟩
  · intro l hl x hx
    rcases List.mem_append.1 hl with h | h
    · exact (hA.at_ l (List.mem_append_left _ h) x hx).mono
    · rw [List.mem_singleton] at h; subst h
      rw [e2] at hx
      rcases List.mem_append.1 hx with h' | h'
      · exact (hA.at_ _ hmem x h').mono
      · rw [List.mem_singleton] at h'; subst h'
        exact at_new pre a b h0 h1
  · intro l hl
    rcases List.mem_append.1 hl with h | h
    · exact hA.step l (List.mem_append_left _ h)
    · rw [List.mem_singleton] at h; subst h
      rw [e2]
      refine List.IsChain.append (hA.step _ hmem) (List.isChain_singleton _) ?_
      intro x hx y hy
      simp at hx hy
      subst hx; subst hy
      exact Or.inr ⟨hi.symm, rfl⟩
  · have hs := hA.sep
    rw [List.pairwise_append] at hs ⊢
    obtain ⟨hs1, _, hs3⟩ := hs
    refine ⟨hs1, List.pairwise_singleton _ _, ?_⟩
    intro l hl l' hl' x hx y hy
    rw [List.mem_singleton] at hl'; subst hl'
    rw [e2] at hy
    rcases List.mem_append.1 hy with h' | h'
    · exact hs3 l hl _ (List.mem_singleton.2 rfl) x hx y h'
    · rw [List.mem_singleton] at h'; subst h'
      exact (hA.at_ l (List.mem_append_left _ hl) x hx).lt
  · have hs := hA.segs
    rw [segsOf_append_pair, List.filterMap_append, ← hs]
    simp only [unann_append, List.flatMap_append, unann_singleton, List.map_append, List.map_cons,
      List.map_nil, List.flatMap_cons, List.flatMap_nil, List.append_nil]
    rw [segsOf_append_pair]
    simp [hr]

/-! ### one step of the outer loop -/

/-- how the state represents the annotated virtual piece list (cf. `Repr`): the open piece is completed
    by the pending vertex `a`, which is the end (`t = 1`) of the previous input segment -/
def ReprA (st : LineSt α) (pre : List (Pt α)) (a : Pt α) (Wl : List (List ((Nat × α) × Pt α))) : Prop :=
  ∃ done, st.line = done.length ∧
    ((st.out = unann done ∧ Wl = done) ∨
     ∃ cur i, st.out = unann done ++ [cur.map Prod.snd] ∧ st.codeA = 0 ∧ i + 1 = pre.length ∧
       Wl = done ++ [cur ++ [((i, 1), a)]])

/-- over an ordered field the inner loop is the loop without the rounding guards -/
theorem segLoop_code_eq {box : Bound α} (hb : BoxOK box) (isOpen : Bool) (a b : Pt α) :
    segLoop box isOpen 8 a b (code box isOpen a) (code box isOpen b) 0 0 =
      segLoopU box 8 a b (code box isOpen a) (code box isOpen b) :=
  segLoop_eq_segLoopU hb isOpen (W_code hb isOpen a) (W_code hb isOpen b) (bitCount_code_le box isOpen a)
    (bitCount_code_le box isOpen b) (fun ho => by subst ho; exact ⟨rfl, rfl⟩) 8

theorem clipSeg_of_accept {box : Bound α} (hb : BoxOK box) {isOpen : Bool} {a b a' b' : Pt α} {c : Nat}
    (h : segLoopU box 8 a b (code box isOpen a) (code box isOpen b) = .accept a' b' c) :
    clipSeg box isOpen (a, b) = some (a', b') := by
  unfold clipSeg; simp only; rw [segLoop_code_eq hb, h]

theorem clipSeg_of_reject {box : Bound α} (hb : BoxOK box) {isOpen : Bool} {a b : Pt α}
    (h : segLoopU box 8 a b (code box isOpen a) (code box isOpen b) = .reject) :
    clipSeg box isOpen (a, b) = none := by
  unfold clipSeg; simp only; rw [segLoop_code_eq hb, h]

theorem lineStep_ord {box : Bound α} (hb : BoxOK box) (isOpen : Bool) (pre : List (Pt α)) (a b : Pt α)
    (st : LineSt α) (Wl : List (List ((Nat × α) × Pt α))) (hcode : st.codeA = code box isOpen a)
    (hA : Ann box isOpen (pre ++ [a]) Wl) (hR : ReprA st pre a Wl) (last : Bool) :
    (lineStep box isOpen st a b last).codeA = code box isOpen b ∧
    ∃ Wl', Ann box isOpen (pre ++ [a, b]) Wl' ∧
      (last = true → (lineStep box isOpen st a b last).out = unann Wl') ∧
      (last = false → ReprA (lineStep box isOpen st a b last) (pre ++ [a]) b Wl') := by
  rw [lineStep_eq_U hb isOpen b last hcode]
  rcases segLoop_cases hb isOpen a b with ⟨hr, hne⟩ | ⟨s, e, h0, hse, h1, hr, hs0, he1⟩
  · -- rejected
    have hr' := hr
    rw [← hcode] at hr'
    rw [lineStep_reject last hr']
    refine ⟨rfl, Wl, ann_reject hA (clipSeg_of_reject hb hr), ?_, ?_⟩
    · intro _
      obtain ⟨done, _, h | ⟨cur, i, _, hz, _⟩⟩ := hR
      · show st.out = unann Wl
        rw [h.1, h.2]
      · exact absurd (hcode ▸ hz) hne
    · intro _
      obtain ⟨done, hl, h | ⟨cur, i, _, hz, _⟩⟩ := hR
      · exact ⟨done, hl, Or.inl h⟩
      · exact absurd (hcode ▸ hz) hne
  · -- accepted: the sub-segment `[s, e]`
    have hr' := hr
    rw [← hcode] at hr'
    have hcs := clipSeg_of_accept hb hr
    obtain ⟨done, hl, ⟨ho, hV⟩ | ⟨cur, i, ho, hz, hi, hV⟩⟩ := hR
    · -- no open piece: a new piece starts
      subst hV
      have hA' := ann_new hA h0 hse h1 hcs
      have hl' : st.line = (unann Wl).length := by rw [unann_length]; exact hl
      have p1 : push st.out st.line (lerp a b s) = unann Wl ++ [[lerp a b s]] := by
        rw [hl', ho]; exact push_new _ _
      have p2 : push (unann Wl ++ [[lerp a b s]]) st.line (lerp a b e) =
          unann Wl ++ [[lerp a b s, lerp a b e]] := by
        rw [hl']; exact push_open _ _ _
      have hu : unann (Wl ++ [[((pre.length, s), lerp a b s), ((pre.length, e), lerp a b e)]]) =
          unann Wl ++ [[lerp a b s, lerp a b e]] := by simp [unann]
      by_cases hE : code box isOpen b = 0
      · have he : e = 1 := he1 hE
        cases last
        · rw [lineStep_accept_in hr' hE, p1]
          refine ⟨rfl, _, hA', by simp, fun _ => ⟨Wl, hl, Or.inr ⟨[((pre.length, s), lerp a b s)],
            pre.length, rfl, hE, by simp, ?_⟩⟩⟩
          rw [he, lerp_one]; rfl
        · rw [lineStep_accept_in_last hr' hE, p1, p2]
          exact ⟨rfl, _, hA', fun _ => hu.symm, by simp⟩
      · rw [lineStep_accept_out last hr' hE, p1, p2]
        refine ⟨rfl, _, hA', fun _ => hu.symm, ?_⟩
        intro hlast
        subst hlast
        exact ⟨_, by simp [hl], Or.inl ⟨hu.symm, rfl⟩⟩
    · -- an open piece: the start is unclipped and continues it
      subst hV
      have hs : s = 0 := hs0 (hcode ▸ hz)
      subst hs
      rw [lerp_zero] at hr' hcs
      have hA' := ann_ext hA hi (le_trans h0 hse) h1 hcs
      have hl' : st.line = (unann done).length := by rw [unann_length]; exact hl
      have p1 : push st.out st.line a = unann done ++ [cur.map Prod.snd ++ [a]] := by
        rw [hl', ho]; exact push_open _ _ _
      have p2 : push (unann done ++ [cur.map Prod.snd ++ [a]]) st.line (lerp a b e) =
          unann done ++ [cur.map Prod.snd ++ [a, lerp a b e]] := by
        rw [hl', push_open]; simp
      have hu : unann (done ++ [cur ++ [((i, (1 : α)), a), ((pre.length, e), lerp a b e)]]) =
          unann done ++ [cur.map Prod.snd ++ [a, lerp a b e]] := by simp [unann]
      by_cases hE : code box isOpen b = 0
      · have he : e = 1 := he1 hE
        cases last
        · rw [lineStep_accept_in hr' hE, p1]
          refine ⟨rfl, _, hA', by simp, fun _ => ⟨done, hl, Or.inr ⟨cur ++ [((i, 1), a)],
            pre.length, by simp, hE, by simp, ?_⟩⟩⟩
          rw [he, lerp_one]; simp
        · rw [lineStep_accept_in_last hr' hE, p1, p2]
          exact ⟨rfl, _, hA', fun _ => hu.symm, by simp⟩
      · rw [lineStep_accept_out last hr' hE, p1, p2]
        refine ⟨rfl, _, hA', fun _ => hu.symm, ?_⟩
        intro hlast
        subst hlast
        exact ⟨_, by simp [hl], Or.inl ⟨hu.symm, rfl⟩⟩

/-! ### the whole loop -/

theorem lineLoop_ord {box : Bound α} (hb : BoxOK box) (isOpen : Bool) :
    ∀ (rest pre : List (Pt α)) (a : Pt α) (st : LineSt α), rest ≠ [] →
      st.codeA = code box isOpen a → (∃ Wl, Ann box isOpen (pre ++ [a]) Wl ∧ ReprA st pre a Wl) →
      ∃ Wl', Ann box isOpen (pre ++ a :: rest) Wl' ∧
        (lineLoop box isOpen st (a :: rest)).out = unann Wl' := by
  intro rest
  induction rest with
  | nil => intro pre a st h; exact absurd rfl h
  | cons b rest ih =>
    intro pre a st _ hcode ⟨Wl, hA, hR⟩
    rw [lineLoop_cons_cons]
    cases rest with
    | nil =>
      obtain ⟨_, Wl', hA', hout, _⟩ := lineStep_ord hb isOpen pre a b st Wl hcode hA hR true
      rw [lineLoop_single]
      exact ⟨Wl', hA', hout rfl⟩
    | cons c rest =>
      obtain ⟨h2, Wl', hA', _, hrep⟩ := lineStep_ord hb isOpen pre a b st Wl hcode hA hR false
      have := ih (pre ++ [a]) b (lineStep box isOpen st a b false) (by simp) h2
        ⟨Wl', by rw [List.append_assoc]; exact hA', hrep rfl⟩
      rw [List.append_assoc] at this
      exact this

/-- the result of `line` is an annotated piece list satisfying the invariant -/
theorem line_ord {box : Bound α} (hb : BoxOK box) (isOpen : Bool) (inp : List (Pt α))
    (out : List (List (Pt α))) (h : line box isOpen inp = some out) :
    ∃ Wl, Ann box isOpen inp Wl ∧ out = unann Wl := by
  cases inp with
  | nil =>
    refine ⟨[], ann_nil box isOpen rfl, ?_⟩
    simp [line] at h
    exact h
  | cons p rest =>
    cases rest with
    | nil =>
      refine ⟨[], ann_nil box isOpen rfl, ?_⟩
      simp [line, lineLoop_single] at h
      exact h
    | cons b rest =>
      obtain ⟨Wl, hA, hout⟩ := lineLoop_ord hb isOpen (b :: rest) [] p ⟨[], 0, code box isOpen p, false⟩
        (by simp) rfl ⟨[], ann_nil box isOpen rfl, [], rfl, Or.inl ⟨rfl, rfl⟩⟩
      refine ⟨Wl, hA, ?_⟩
      have h' : (if (lineLoop box isOpen ⟨[], 0, code box isOpen p, false⟩ (p :: b :: rest)).stuck = true
          then none
          else some (lineLoop box isOpen ⟨[], 0, code box isOpen p, false⟩ (p :: b :: rest)).out) =
          some out := h
      split_ifs at h'
      cases h'
      exact hout

/-! ### list bookkeeping for the final statements -/

theorem forall₂_map_map {γ δ ε : Type} (R : δ → ε → Prop) (f : γ → δ) (g : γ → ε) :
    ∀ l : List γ, (∀ x ∈ l, R (f x) (g x)) → List.Forall₂ R (l.map f) (l.map g)
  | [], _ => List.Forall₂.nil
  | x :: l, h => List.Forall₂.cons (h x List.mem_cons_self)
      (forall₂_map_map R f g l fun y hy => h y (List.mem_cons_of_mem _ hy))

section sums
variable {β : Type} [AddCommMonoid β]

theorem sum_map_flatMap_segsOf (f : Pt α × Pt α → β) (out : List (List (Pt α))) :
    ((out.flatMap segsOf).map f).sum = (out.map fun p => ((segsOf p).map f).sum).sum := by
  induction out with
  | nil => simp
  | cons p out ih => simp [List.flatMap_cons, ih]

theorem sum_map_filterMap {γ δ : Type} (g : γ → Option δ) (f : δ → β) (l : List γ) :
    ((l.filterMap g).map f).sum =
      (l.map fun s => match g s with | some u => f u | none => 0).sum := by
  induction l with
  | nil => simp
  | cons x l ih =>
    cases hg : g x with
    | none => simp [hg, ih]
    | some u => simp [hg, ih]

end sums

/-! ### the per-segment result is the part of the segment in the closed box -/

theorem lerp_self (a : Pt α) (t : α) : lerp a a t = a := by
  apply pt_eq <;> simp

theorem lerp_inj {a b : Pt α} (hab : a ≠ b) {t t' : α} (h : lerp a b t = lerp a b t') : t = t' := by
  have hx : (lerp a b t).x = (lerp a b t').x := by rw [h]
  have hy : (lerp a b t).y = (lerp a b t').y := by rw [h]
  simp only [lerp_x, lerp_y, add_right_inj] at hx hy
  by_cases h1 : b.x - a.x = 0
  · by_cases h2 : b.y - a.y = 0
    · exact absurd (pt_eq (sub_eq_zero.1 h1).symm (sub_eq_zero.1 h2).symm) hab
    · exact mul_right_cancel₀ h2 hy
  · exact mul_right_cancel₀ h1 hx

/-- closed mode: the accepted sub-segment is, in parametric form, exactly the part of the input segment
    in the closed box; a rejected segment has no point in the box -/
theorem clipSeg_closed_spec {box : Bound α} (hb : BoxOK box) (a b : Pt α) :
    (match clipSeg box false (a, b) with
     | some u => ∃ s e, InsidePart box a b s e ∧ u = (lerp a b s, lerp a b e)
     | none => ∀ t, 0 ≤ t → t ≤ 1 → ¬ InBox box (lerp a b t)) := by
  have hcl := segLoop_closed hb a b
  rcases segLoop_cases hb false a b with ⟨hr, _⟩ | ⟨s, e, h0, hse, h1, hr, hs0, he1⟩
  · rw [clipSeg_of_reject hb hr]
    have hr2 : segLoopU box 8 a b (bitCode box a) (bitCode box b) = .reject := hr
    rw [hr2] at hcl
    intro t ht0 ht1
    exact hcl _ (onSeg_lerp a b ht0 ht1)
  · rw [clipSeg_of_accept hb hr]
    have hr2 : segLoopU box 8 a b (bitCode box a) (bitCode box b) =
        .accept (lerp a b s) (lerp a b e) 0 := hr
    rw [hr2] at hcl
    obtain ⟨hia, _, _, _, hiff⟩ := hcl
    refine ⟨s, e, ⟨h0, hse, h1, ?_⟩, rfl⟩
    intro t ht0 ht1
    by_cases hab : a = b
    · subst hab
      have hand := segLoop_accept_and hr
      rw [Nat.and_self] at hand
      rw [hs0 hand, he1 hand]
      rw [lerp_self] at hia ⊢
      exact ⟨fun _ => ⟨ht0, ht1⟩, fun _ => hia⟩
    · rw [hiff _ (onSeg_lerp a b ht0 ht1)]
      constructor
      · rintro ⟨τ, hτ0, hτ1, hq⟩
        rw [lerp_lerp] at hq
        have := lerp_inj hab hq
        subst this
        constructor
        · nlinarith [mul_nonneg hτ0 (sub_nonneg.2 hse)]
        · nlinarith [mul_nonneg (sub_nonneg.2 hτ1) (sub_nonneg.2 hse)]
      · rintro ⟨h2, h3⟩
        exact onSeg_between a b h2 h3

theorem insidePart_unique {box : Bound α} {a b : Pt α} {s e s' e' : α}
    (h : InsidePart box a b s e) (h' : InsidePart box a b s' e') : s = s' ∧ e = e' := by
  obtain ⟨h0, hse, h1, hiff⟩ := h
  obtain ⟨h0', hse', h1', hiff'⟩ := h'
  have a1 := (hiff' s h0 (le_trans hse h1)).1 ((hiff s h0 (le_trans hse h1)).2 ⟨le_refl _, hse⟩)
  have a2 := (hiff' e (le_trans h0 hse) h1).1 ((hiff e (le_trans h0 hse) h1).2 ⟨hse, le_refl _⟩)
  have b1 := (hiff s' h0' (le_trans hse' h1')).1
    ((hiff' s' h0' (le_trans hse' h1')).2 ⟨le_refl _, hse'⟩)
  have b2 := (hiff e' (le_trans h0' hse') h1').1
    ((hiff' e' (le_trans h0' hse') h1').2 ⟨hse', le_refl _⟩)
  exact ⟨le_antisymm b1.1 a1.1, le_antisymm a2.2 b2.2⟩

section lengths
variable {β : Type} [AddCommMonoid β]

/-- the length the model attributes to an input segment is the length of its part in the closed box -/
theorem segInsideLen_spec {box : Bound α} (hb : BoxOK box) (len : Pt α → Pt α → β) (a b : Pt α) :
    IsInsideLen box len a b (segInsideLen box false len (a, b)) := by
  have h := clipSeg_closed_spec hb a b
  unfold segInsideLen
  cases hc : clipSeg box false (a, b) with
  | none =>
    rw [hc] at h
    exact Or.inr ⟨h, rfl⟩
  | some u =>
    rw [hc] at h
    obtain ⟨s, e, hp, rfl⟩ := h
    exact Or.inl ⟨s, e, hp, rfl⟩

/-- … and that length is determined by the segment and the box alone -/
theorem isInsideLen_unique {box : Bound α} {len : Pt α → Pt α → β} {a b : Pt α} {ℓ ℓ' : β}
    (h : IsInsideLen box len a b ℓ) (h' : IsInsideLen box len a b ℓ') : ℓ = ℓ' := by
  rcases h with ⟨s, e, hp, rfl⟩ | ⟨hn, rfl⟩ <;> rcases h' with ⟨s', e', hp', rfl⟩ | ⟨hn', rfl⟩
  · obtain ⟨rfl, rfl⟩ := insidePart_unique hp hp'
    rfl
  · obtain ⟨h0, hse, h1, hiff⟩ := hp
    exact absurd ((hiff s h0 (le_trans hse h1)).2 ⟨le_refl _, hse⟩) (hn' s h0 (le_trans hse h1))
  · obtain ⟨h0, hse, h1, hiff⟩ := hp'
    exact absurd ((hiff s' h0 (le_trans hse h1)).2 ⟨le_refl _, hse⟩) (hn s' h0 (le_trans hse h1))
  · rfl

end lengths

/-! ### the property clauses -/

/-- STRUCTURE (both modes): reading the output piece after piece, its segments are exactly the accepted
    sub-segments of the input segments, in the order of the input — each accepted input segment
    contributes exactly one piece segment, a rejected one none. -/
theorem clip_segments_gen (box : Bound α) (hb : BoxOK box) (isOpen : Bool) (inp : List (Pt α))
    (out : List (List (Pt α))) (h : line box isOpen inp = some out) :
    out.flatMap segsOf = (segsOf inp).filterMap (clipSeg box isOpen) := by
  obtain ⟨Wl, hA, rfl⟩ := line_ord hb isOpen inp out h
  exact hA.segs

/-- TRAVEL ORDER (both modes).  Every output vertex can be given a position `(i, t)` on the input
    (`At`: `i + 1 < inp.length`, `0 ≤ t ≤ 1`, the vertex is `lerp inp[i] inp[i+1] t`) such that
    * consecutive vertices of a piece are related by `Step`: further along the same input segment, or
      from the end of segment `i` onto segment `i + 1`;
    * the positions, read piece after piece, are non-decreasing in the lexicographic order of travel
      (within each piece, and from the last vertex of a piece to the first vertex of the next);
    * two different pieces never use the same input segment: all segment indices of an earlier piece
      are strictly smaller than all those of a later piece. -/
theorem clip_order_gen (box : Bound α) (hb : BoxOK box) (isOpen : Bool) (inp : List (Pt α))
    (out : List (List (Pt α))) (h : line box isOpen inp = some out) :
    ∃ pos : List (List (Nat × α)),
      List.Forall₂ (List.Forall₂ (At inp)) pos out ∧
      (∀ l ∈ pos, l.IsChain Step) ∧
      pos.flatten.Pairwise PosLE ∧
      pos.Pairwise (fun l l' => ∀ p ∈ l, ∀ q ∈ l', p.1 < q.1) := by
  obtain ⟨Wl, hA, rfl⟩ := line_ord hb isOpen inp out h
  have hstep : ∀ l ∈ Wl.map (List.map Prod.fst), l.IsChain (Step (α := α)) := by
    intro l hl
    obtain ⟨l0, hl0, rfl⟩ := List.mem_map.1 hl
    rw [List.isChain_map]
    exact hA.step l0 hl0
  have hsep : (Wl.map (List.map Prod.fst)).Pairwise
      (fun l l' => ∀ p ∈ l, ∀ q ∈ l', p.1 < q.1) := by
    rw [List.pairwise_map]
    refine hA.sep.imp ?_
    intro l l' hll p hp q hq
    obtain ⟨x, hx, rfl⟩ := List.mem_map.1 hp
    obtain ⟨y, hy, rfl⟩ := List.mem_map.1 hq
    exact hll x hx y hy
  refine ⟨Wl.map (List.map Prod.fst), ?_, hstep, ?_, hsep⟩
  · exact forall₂_map_map _ _ _ Wl fun l hl => forall₂_map_map _ _ _ l fun x hx => hA.at_ l hl x hx
  · rw [List.pairwise_flatten]
    refine ⟨?_, hsep.imp ?_⟩
    · intro l hl
      exact ((hstep l hl).imp fun p q hpq => Step.posLE hpq).pairwise
    · intro l l' hll p hp q hq
      exact Or.inl (hll p hp q hq)

section lengths
variable {β : Type} [AddCommMonoid β]

/-- LENGTH (both modes), for an arbitrary segment-length function: the total length of the pieces is
    the sum, over the input segments, of the length of the accepted sub-segment. -/
theorem clip_length_gen (box : Bound α) (hb : BoxOK box) (isOpen : Bool) (len : Pt α → Pt α → β)
    (inp : List (Pt α)) (out : List (List (Pt α))) (h : line box isOpen inp = some out) :
    piecesLen len out = insideLen box isOpen len inp := by
  have hs := clip_segments_gen box hb isOpen inp out h
  unfold piecesLen insideLen pathLen
  rw [← sum_map_flatMap_segsOf (fun s => len s.1 s.2) out, hs, sum_map_filterMap]
  congr 1
  apply List.map_congr_left
  intro s _
  unfold segInsideLen
  cases clipSeg box isOpen s <;> rfl

end lengths

/-! #### closed mode: the statements of property C07 -/

/-- C07 (structure): the piece segments are exactly the inside parts of the input segments, once each,
    in input order. -/
theorem clip_segments (box : Bound α) (hb : BoxOK box) (inp : List (Pt α)) (out : List (List (Pt α)))
    (h : line box false inp = some out) :
    out.flatMap segsOf = (segsOf inp).filterMap (clipSeg box false) :=
  clip_segments_gen box hb false inp out h

/-- C07 "pieces appear in travel order". -/
theorem clip_order (box : Bound α) (hb : BoxOK box) (inp : List (Pt α)) (out : List (List (Pt α)))
    (h : line box false inp = some out) :
    ∃ pos : List (List (Nat × α)),
      List.Forall₂ (List.Forall₂ (At inp)) pos out ∧
      (∀ l ∈ pos, l.IsChain Step) ∧
      pos.flatten.Pairwise PosLE ∧
      pos.Pairwise (fun l l' => ∀ p ∈ l, ∀ q ∈ l', p.1 < q.1) :=
  clip_order_gen box hb false inp out h

section lengths
variable {β : Type} [AddCommMonoid β]

/-- C07 "total length equals the length of the input inside the box", for ANY segment-length function
    `len` (no additivity is needed: the algorithm never splits the inside part of an input segment).
    `insideLen` sums `len a' b'` over the accepted sub-segments `[a', b']`, which by
    `clipSeg_closed_spec` are the parts of the input segments in the closed box. -/
theorem clip_length (box : Bound α) (hb : BoxOK box) (len : Pt α → Pt α → β) (inp : List (Pt α))
    (out : List (List (Pt α))) (h : line box false inp = some out) :
    piecesLen len out = insideLen box false len inp :=
  clip_length_gen box hb false len inp out h

/-- The same with the hypotheses under which `len` is a length (additive along a segment, zero on a
    point), as the property states them; they are not used. -/
theorem clip_length_additive (box : Bound α) (hb : BoxOK box) (len : Pt α → Pt α → α)
    (_hadd : ∀ a b : Pt α, ∀ s t u : α, 0 ≤ s → s ≤ t → t ≤ u → u ≤ 1 →
      len (lerp a b s) (lerp a b u) = len (lerp a b s) (lerp a b t) + len (lerp a b t) (lerp a b u))
    (_hzero : ∀ p, len p p = 0) (inp : List (Pt α)) (out : List (List (Pt α)))
    (h : line box false inp = some out) :
    piecesLen len out = insideLen box false len inp :=
  clip_length box hb len inp out h

/-- C07 length clause, algorithm-free on the right-hand side: if `ℓs` lists, for every input segment,
    the length of its part in the closed box (`IsInsideLen`: the part is a parameter interval
    `[s, e]` with `InBox (lerp a b t) ↔ s ≤ t ≤ e`, or empty), then the total length of the pieces is
    the sum of `ℓs`. -/
theorem clip_length_sem (box : Bound α) (hb : BoxOK box) (len : Pt α → Pt α → β) (inp : List (Pt α))
    (out : List (List (Pt α))) (h : line box false inp = some out) (ℓs : List β)
    (hℓ : List.Forall₂ (fun s ℓ => IsInsideLen box len s.1 s.2 ℓ) (segsOf inp) ℓs) :
    piecesLen len out = ℓs.sum := by
  rw [clip_length box hb len inp out h]
  unfold insideLen
  generalize segsOf inp = L at hℓ
  congr 1
  induction hℓ with
  | nil => rfl
  | cons hx _ ih =>
    rw [List.map_cons, ih]
    congr 1
    exact isInsideLen_unique (segInsideLen_spec hb len _ _) hx

end lengths

/-! #### non-vacuity: a concrete two-piece clip on ℚ and its per-segment results -/

example : line (⟨⟨1, 1⟩, ⟨3, 3⟩⟩ : Bound ℚ) false [⟨0, 2⟩, ⟨4, 2⟩, ⟨4, 0⟩, ⟨2, 0⟩, ⟨2, 2⟩, ⟨2, 4⟩] =
    some [[⟨1, 2⟩, ⟨3, 2⟩], [⟨2, 1⟩, ⟨2, 2⟩, ⟨2, 3⟩]] := by decide +kernel

example : (segsOf ([⟨0, 2⟩, ⟨4, 2⟩, ⟨4, 0⟩, ⟨2, 0⟩, ⟨2, 2⟩, ⟨2, 4⟩] : List (Pt ℚ))).filterMap
      (clipSeg (⟨⟨1, 1⟩, ⟨3, 3⟩⟩ : Bound ℚ) false) =
    [(⟨1, 2⟩, ⟨3, 2⟩), (⟨2, 1⟩, ⟨2, 2⟩), (⟨2, 2⟩, ⟨2, 3⟩)] := by decide +kernel

end Orb.Clip
