/-
  Helper lemmas for C10, part 5: SCALE INVARIANCE.  Multiplying every coordinate by one positive factor `s` of an
  ordered field multiplies centroids, lengths and distances by `s`, areas by `s²`, and leaves every index alone —
  for every kind of geometry, collections included.  `sqrt` is abstract: only `sqrt (s·s·x) = s·sqrt x` is assumed
  (true of the real square root for `s > 0`; in float64 with `s = 2^k` it holds bit for bit absent under/overflow).
  The primed statements are re-exported by OrbProofs/C10.lean; the driver's op `scale` is the executable twin.
-/
import Orb.Planar
import Orb.PlanarScale
import OrbProofs.C10Lemmas

set_option linter.unusedSectionVars false
set_option linter.unusedVariables false
set_option linter.unusedSimpArgs false

namespace Orb.Planar
open Orb Orb.Core

section scale
variable {α : Type} [Field α] [LinearOrder α] [IsStrictOrderedRing α]

/-- the hypothesis on the abstract square root -/
def SqrtScales (sqrt : α → α) (s : α) : Prop := ∀ x, sqrt (s * s * x) = s * sqrt x

theorem scalePt_sub (s : α) (a o : Pt α) :
    (⟨s * a.x - s * o.x, s * a.y - s * o.y⟩ : Pt α) = scalePt s ⟨a.x - o.x, a.y - o.y⟩ := by
  simp only [scalePt, mul_sub]

theorem distance_scale' (sqrt : α → α) (s : α) (hq : SqrtScales sqrt s) (p q : Pt α) :
    distance sqrt (scalePt s p) (scalePt s q) = s * distance sqrt p q := by
  simp only [distance, scalePt]
  rw [← hq]
  congr 1
  ring

theorem distanceSquared_scale' (s : α) (p q : Pt α) :
    distanceSquared (scalePt s p) (scalePt s q) = s * s * distanceSquared p q := by
  simp only [distanceSquared, scalePt]
  ring

/-! ### multi-point -/

theorem mpFold_scale (s : α) (l : List (Pt α)) (a b : α) :
    (l.map (scalePt s)).foldl (fun (t : α × α) p => (t.1 + p.x, t.2 + p.y)) (s * a, s * b) =
      (s * (l.foldl (fun (t : α × α) p => (t.1 + p.x, t.2 + p.y)) (a, b)).1,
       s * (l.foldl (fun (t : α × α) p => (t.1 + p.x, t.2 + p.y)) (a, b)).2) := by
  induction l generalizing a b with
  | nil => rfl
  | cons p t ih =>
    simp only [List.map_cons, List.foldl_cons, scalePt]
    rw [← mul_add, ← mul_add]
    exact ih _ _

theorem multiPointCentroid_scale' (s : α) (ps : List (Pt α)) :
    multiPointCentroid (ps.map (scalePt s)) = scalePt s (multiPointCentroid ps) := by
  cases ps with
  | nil => simp [multiPointCentroid, scalePt]
  | cons p t =>
    have h := mpFold_scale s (p :: t) 0 0
    rw [mul_zero] at h
    simp only [multiPointCentroid, List.map_cons, List.length_cons, List.length_map]
    simp only [List.map_cons] at h
    rw [h]
    simp only [scalePt, mul_div_assoc]

/-! ### line, multi-line -/

theorem lineCentroidLoop_scale (sqrt : α → α) (s : α) (hq : SqrtScales sqrt s) (o : Pt α) (l : List (Pt α))
    (px py d : α) :
    lineCentroidLoop sqrt (scalePt s o) (l.map (scalePt s)) (s * s * px, s * s * py, s * d) =
      (s * s * (lineCentroidLoop sqrt o l (px, py, d)).1, s * s * (lineCentroidLoop sqrt o l (px, py, d)).2.1,
       s * (lineCentroidLoop sqrt o l (px, py, d)).2.2) := by
  induction l generalizing px py d with
  | nil => rfl
  | cons a t ih =>
    cases t with
    | nil => rfl
    | cons b t' =>
      simp only [List.map_cons, lineCentroidLoop]
      simp only [List.map_cons] at ih
      have e1 : ∀ v : Pt α, (⟨(scalePt s v).x - (scalePt s o).x, (scalePt s v).y - (scalePt s o).y⟩ : Pt α) =
          scalePt s ⟨v.x - o.x, v.y - o.y⟩ := fun v => by simp only [scalePt, mul_sub]
      rw [e1 a, e1 b, distance_scale' sqrt s hq]
      have := ih (px + ((a.x - o.x) + (b.x - o.x)) / 2 * distance sqrt ⟨a.x - o.x, a.y - o.y⟩ ⟨b.x - o.x, b.y - o.y⟩)
        (py + ((a.y - o.y) + (b.y - o.y)) / 2 * distance sqrt ⟨a.x - o.x, a.y - o.y⟩ ⟨b.x - o.x, b.y - o.y⟩)
        (d + distance sqrt ⟨a.x - o.x, a.y - o.y⟩ ⟨b.x - o.x, b.y - o.y⟩)
      rw [← this]
      congr 2
      · simp only [scalePt]; ring
      · congr 1
        · simp only [scalePt]; ring
        · ring

theorem lineStringCentroidDist_scale' (sqrt : α → α) (s : α) (hs : 0 < s) (hq : SqrtScales sqrt s) (ls : List (Pt α)) :
    lineStringCentroidDist sqrt (ls.map (scalePt s)) =
      (lineStringCentroidDist sqrt ls).map fun cd => (scalePt s cd.1, s * cd.2) := by
  cases ls with
  | nil => rfl
  | cons o t =>
    have h := lineCentroidLoop_scale sqrt s hq o (o :: t) 0 0 0
    simp only [mul_zero, List.map_cons] at h
    simp only [lineStringCentroidDist, List.map_cons, h, beq_iff_eq, Option.map_some, mul_eq_zero, hs.ne', false_or]
    split_ifs with h0
    · simp [scalePt]
    · congr 2
      simp only [scalePt, Pt.mk.injEq]
      constructor <;> field_simp

/-- the accumulator of `multiLineStringCentroid` for the scaled lines -/
def scaleMLS (s : α) (a : MLSAcc α) : MLSAcc α :=
  { px := s * s * a.px, py := s * s * a.py, fx := s * a.fx, fy := s * a.fy, dist := s * a.dist, valid := a.valid }

theorem mlsStep_scale (sqrt : α → α) (s : α) (hs : 0 < s) (hq : SqrtScales sqrt s) (a : MLSAcc α) (ls : List (Pt α)) :
    mlsStep sqrt (scaleMLS s a) (ls.map (scalePt s)) = scaleMLS s (mlsStep sqrt a ls) := by
  simp only [mlsStep, lineStringCentroidDist_scale' sqrt s hs hq]
  cases lineStringCentroidDist sqrt ls with
  | none => rfl
  | some cd =>
    simp only [Option.map_some, scaleMLS, scalePt, MLSAcc.mk.injEq, and_true]
    refine ⟨by ring, by ring, by ring, by ring, by ring⟩

theorem mlsFold_scale (sqrt : α → α) (s : α) (hs : 0 < s) (hq : SqrtScales sqrt s) (mls : List (List (Pt α)))
    (a : MLSAcc α) :
    (mls.map (·.map (scalePt s))).foldl (mlsStep sqrt) (scaleMLS s a) = scaleMLS s (mls.foldl (mlsStep sqrt) a) := by
  induction mls generalizing a with
  | nil => rfl
  | cons l t ih =>
    simp only [List.map_cons, List.foldl_cons]
    rw [mlsStep_scale sqrt s hs hq]
    exact ih _

theorem multiLineStringCentroid_scale' (sqrt : α → α) (s : α) (hs : 0 < s) (hq : SqrtScales sqrt s)
    (mls : List (List (Pt α))) :
    multiLineStringCentroid sqrt (mls.map (·.map (scalePt s))) = scalePt s (multiLineStringCentroid sqrt mls) := by
  cases mls with
  | nil => simp [multiLineStringCentroid, scalePt]
  | cons l t =>
    have h := mlsFold_scale sqrt s hs hq (l :: t) ⟨0, 0, 0, 0, 0, 0⟩
    have h0 : scaleMLS s (⟨0, 0, 0, 0, 0, 0⟩ : MLSAcc α) = ⟨0, 0, 0, 0, 0, 0⟩ := by simp [scaleMLS]
    rw [h0] at h
    simp only [List.map_cons] at h
    simp only [multiLineStringCentroid, List.map_cons, h, scaleMLS, beq_iff_eq, mul_eq_zero, hs.ne', false_or]
    split_ifs with h1 h2
    · simp [scalePt]
    · simp only [scalePt, mul_div_assoc]
    · simp only [scalePt, Pt.mk.injEq]
      constructor <;> field_simp

/-! ### ring -/

theorem ringLoop_scale (s : α) (o : Pt α) (l : List (Pt α)) (cx cy a : α) :
    ringLoop (scalePt s o) (l.map (scalePt s)) (s * s * s * cx, s * s * s * cy, s * s * a) =
      (s * s * s * (ringLoop o l (cx, cy, a)).1, s * s * s * (ringLoop o l (cx, cy, a)).2.1,
       s * s * (ringLoop o l (cx, cy, a)).2.2) := by
  induction l generalizing cx cy a with
  | nil => rfl
  | cons p t ih =>
    cases t with
    | nil => rfl
    | cons q t' =>
      simp only [List.map_cons, ringLoop]
      simp only [List.map_cons] at ih
      rw [← ih]
      congr 2
      · simp only [scalePt]; ring
      · congr 1
        · simp only [scalePt]; ring
        · simp only [scalePt]; ring

theorem ringCentroidArea_scale' (s : α) (hs : 0 < s) (r : List (Pt α)) :
    ringCentroidArea (r.map (scalePt s)) = (scalePt s (ringCentroidArea r).1, s * s * (ringCentroidArea r).2) := by
  cases r with
  | nil => simp [ringCentroidArea, scalePt]
  | cons o rest =>
    have h := ringLoop_scale s o rest 0 0 0
    simp only [mul_zero] at h
    simp only [ringCentroidArea, List.map_cons, h, beq_iff_eq, mul_eq_zero, hs.ne', false_or, or_self]
    split_ifs with h0
    · simp
    · simp only [scalePt, Prod.mk.injEq, Pt.mk.injEq]
      refine ⟨⟨?_, ?_⟩, ?_⟩ <;> field_simp

theorem lineFallback_scale (sqrt : α → α) (s : α) (hs : 0 < s) (hq : SqrtScales sqrt s) (r : List (Pt α)) :
    lineFallback sqrt (r.map (scalePt s)) = scalePt s (lineFallback sqrt r) := by
  simp only [lineFallback, lineStringCentroidDist_scale' sqrt s hs hq]
  cases lineStringCentroidDist sqrt r with
  | none => simp [scalePt]
  | some cd => rfl

theorem fabs_scale (s a : α) : fabs (s * s * a) = s * s * fabs a := by
  rw [fabs_eq_abs, fabs_eq_abs, abs_mul, abs_mul_self]

/-! ### polygon, multi-polygon -/

theorem holeFold_scale (s : α) (hs : 0 < s) (holes : List (List (Pt α))) (a b c : α) :
    (holes.map (·.map (scalePt s))).foldl (fun (t : α × α × α) hr =>
        let hca := ringCentroidArea hr
        let ha := fabs hca.2
        (t.1 + ha, t.2.1 + hca.1.x * ha, t.2.2 + hca.1.y * ha)) (s * s * a, s * s * s * b, s * s * s * c) =
      let r := holes.foldl (fun (t : α × α × α) hr =>
        let hca := ringCentroidArea hr
        let ha := fabs hca.2
        (t.1 + ha, t.2.1 + hca.1.x * ha, t.2.2 + hca.1.y * ha)) (a, b, c)
      (s * s * r.1, s * s * s * r.2.1, s * s * s * r.2.2) := by
  induction holes generalizing a b c with
  | nil => rfl
  | cons h t ih =>
    simp only [List.map_cons, List.foldl_cons]
    simp only [List.map_cons] at ih
    rw [ringCentroidArea_scale' s hs, fabs_scale]
    simp only [scalePt]
    rw [← ih]
    congr 2
    · ring
    · congr 1 <;> ring

theorem polygonCentroidArea_scale' (sqrt : α → α) (s : α) (hs : 0 < s) (hq : SqrtScales sqrt s)
    (p : List (List (Pt α))) :
    polygonCentroidArea sqrt (p.map (·.map (scalePt s))) =
      (scalePt s (polygonCentroidArea sqrt p).1, s * s * (polygonCentroidArea sqrt p).2) := by
  cases p with
  | nil => simp [polygonCentroidArea, scalePt]
  | cons outer holes =>
    cases holes with
    | nil =>
      simp only [polygonCentroidArea, List.map_cons, List.map_nil, ringCentroidArea_scale' s hs, fabs_scale,
        beq_iff_eq, mul_eq_zero, hs.ne', false_or, or_self, lineFallback_scale sqrt s hs hq]
      split_ifs with h0
      · simp
      · rfl
    | cons h t =>
      have hf := holeFold_scale s hs (h :: t) 0 0 0
      simp only [mul_zero, List.map_cons] at hf
      simp only [polygonCentroidArea, List.map_cons, ringCentroidArea_scale' s hs, fabs_scale, hf,
        lineFallback_scale sqrt s hs hq, beq_iff_eq, ← mul_sub, mul_eq_zero, hs.ne', false_or, or_self]
      split_ifs with h0
      · simp
      · simp only [scalePt, Prod.mk.injEq, Pt.mk.injEq, and_true]
        constructor <;> field_simp

theorem finishWeighted_scale (s : α) (hs : 0 < s) (a b w : α) :
    finishWeighted (s * s * s * a, s * s * s * b, s * s * w) =
      (scalePt s (finishWeighted (a, b, w)).1, s * s * (finishWeighted (a, b, w)).2) := by
  simp only [finishWeighted, beq_iff_eq, mul_eq_zero, hs.ne', false_or, or_self]
  split_ifs with h0
  · simp [scalePt]
  · simp only [scalePt, Prod.mk.injEq, Pt.mk.injEq, and_true]
    constructor <;> field_simp

theorem mpFoldCA_scale (sqrt : α → α) (s : α) (hs : 0 < s) (hq : SqrtScales sqrt s)
    (mp : List (List (List (Pt α)))) (a b w : α) :
    (mp.map (·.map (·.map (scalePt s)))).foldl (fun (t : α × α × α) p =>
        let ca := polygonCentroidArea sqrt p
        (t.1 + ca.1.x * ca.2, t.2.1 + ca.1.y * ca.2, t.2.2 + ca.2)) (s * s * s * a, s * s * s * b, s * s * w) =
      let r := mp.foldl (fun (t : α × α × α) p =>
        let ca := polygonCentroidArea sqrt p
        (t.1 + ca.1.x * ca.2, t.2.1 + ca.1.y * ca.2, t.2.2 + ca.2)) (a, b, w)
      (s * s * s * r.1, s * s * s * r.2.1, s * s * r.2.2) := by
  induction mp generalizing a b w with
  | nil => rfl
  | cons p t ih =>
    simp only [List.map_cons, List.foldl_cons]
    simp only [List.map_cons] at ih
    rw [polygonCentroidArea_scale' sqrt s hs hq]
    simp only [scalePt]
    rw [← ih]
    congr 2
    · ring
    · congr 1 <;> ring

theorem multiPolygonCentroidArea_scale' (sqrt : α → α) (s : α) (hs : 0 < s) (hq : SqrtScales sqrt s)
    (mp : List (List (List (Pt α)))) :
    multiPolygonCentroidArea sqrt (mp.map (·.map (·.map (scalePt s)))) =
      (scalePt s (multiPolygonCentroidArea sqrt mp).1, s * s * (multiPolygonCentroidArea sqrt mp).2) := by
  have h := mpFoldCA_scale sqrt s hs hq mp 0 0 0
  simp only [mul_zero] at h
  simp only [multiPolygonCentroidArea, h]
  exact finishWeighted_scale s hs _ _ _

theorem boundRing_scale (s : α) (lo hi : Pt α) :
    boundRing (scalePt s lo) (scalePt s hi) = (boundRing lo hi).map (scalePt s) := by
  simp [boundRing, scalePt]

end scale

/-! ### dimensions are untouched -/

theorem dimensions_scale {α : Type} [Mul α] (s : α) (g : Geom α) : dimensions (scaleGeom s g) = dimensions g := by
  induction g using Geom.ind with
  | hc gs ih =>
    simp only [scaleGeom, dimensions]
    suffices h : ∀ m, dimensions.dimsMax (scaleGeom.scaleList s gs) m = dimensions.dimsMax gs m from h _
    induction gs with
    | nil => intro m; rfl
    | cons g t iht =>
      intro m
      simp only [scaleGeom.scaleList, dimensions.dimsMax]
      rw [ih g (List.mem_cons_self ..)]
      exact iht (fun g hg => ih g (List.mem_cons_of_mem _ hg)) _
  | h1 p => rfl
  | h2 p => rfl
  | h3 p => rfl
  | h4 p => rfl
  | h5 p => rfl
  | h6 p => rfl
  | h7 p => rfl
  | h8 a b => rfl

theorem dimsMax_scale {α : Type} [Mul α] (s : α) (gs : List (Geom α)) (m : Int) :
    dimensions.dimsMax (scaleGeom.scaleList s gs) m = dimensions.dimsMax gs m := by
  induction gs generalizing m with
  | nil => rfl
  | cons g t ih =>
    simp only [scaleGeom.scaleList, dimensions.dimsMax, dimensions_scale]
    exact ih _

theorem maxDim_scale {α : Type} [Mul α] (s : α) (gs : List (Geom α)) :
    maxDim (scaleGeom.scaleList s gs) = maxDim gs := dimsMax_scale s gs 0

section scale2
variable {α : Type} [Field α] [LinearOrder α] [IsStrictOrderedRing α]

/-! ### CentroidArea -/

theorem caCollLoop_scale (sqrt : α → α) (s : α) (mx : Int) (gs : List (Geom α))
    (ih : ∀ g ∈ gs, centroidArea sqrt (scaleGeom s g) = (scalePt s (centroidArea sqrt g).1, s * s * (centroidArea sqrt g).2))
    (a b w : α) :
    centroidArea.collLoop sqrt mx (scaleGeom.scaleList s gs) (s * s * s * a, s * s * s * b, s * s * w) =
      (s * s * s * (centroidArea.collLoop sqrt mx gs (a, b, w)).1, s * s * s * (centroidArea.collLoop sqrt mx gs (a, b, w)).2.1,
       s * s * (centroidArea.collLoop sqrt mx gs (a, b, w)).2.2) := by
  induction gs generalizing a b w with
  | nil => rfl
  | cons g t iht =>
    simp only [scaleGeom.scaleList, centroidArea.collLoop, dimensions_scale]
    split_ifs with hd
    · exact iht (fun g hg => ih g (List.mem_cons_of_mem _ hg)) _ _ _
    · rw [ih g (List.mem_cons_self ..)]
      simp only [scalePt]
      rw [← iht (fun g hg => ih g (List.mem_cons_of_mem _ hg))]
      congr 2
      · ring
      · congr 1 <;> ring

theorem centroidArea_scale' (sqrt : α → α) (s : α) (hs : 0 < s) (hq : SqrtScales sqrt s) (g : Geom α) :
    centroidArea sqrt (scaleGeom s g) = (scalePt s (centroidArea sqrt g).1, s * s * (centroidArea sqrt g).2) := by
  induction g using Geom.ind with
  | hc gs ih =>
    have h := caCollLoop_scale sqrt s (maxDim gs) gs ih 0 0 0
    simp only [mul_zero] at h
    simp only [scaleGeom, centroidArea, maxDim_scale, h]
    exact finishWeighted_scale s hs _ _ _
  | h1 p =>
    have := multiPointCentroid_scale' s [p]
    simp only [List.map_cons, List.map_nil] at this
    simp only [scaleGeom, centroidArea, this, mul_zero]
  | h2 ps => simp only [scaleGeom, centroidArea, multiPointCentroid_scale', mul_zero]
  | h3 ps =>
    have := multiLineStringCentroid_scale' sqrt s hs hq [ps]
    simp only [List.map_cons, List.map_nil] at this
    simp only [scaleGeom, centroidArea, this, mul_zero]
  | h4 ls => simp only [scaleGeom, centroidArea, multiLineStringCentroid_scale' sqrt s hs hq, mul_zero]
  | h5 r => simp only [scaleGeom, centroidArea, ringCentroidArea_scale' s hs]
  | h6 p => simp only [scaleGeom, centroidArea, polygonCentroidArea_scale' sqrt s hs hq]
  | h7 mp => simp only [scaleGeom, centroidArea, multiPolygonCentroidArea_scale' sqrt s hs hq]
  | h8 a b => simp only [scaleGeom, centroidArea, boundRing_scale, ringCentroidArea_scale' s hs]

theorem area_scale' (sqrt : α → α) (s : α) (hs : 0 < s) (hq : SqrtScales sqrt s) (g : Geom α) :
    area sqrt (scaleGeom s g) = s * s * area sqrt g := by
  simp only [area, centroidArea_scale' sqrt s hs hq]

/-! ### Length -/

theorem lineStringLength_scale (sqrt : α → α) (s : α) (hq : SqrtScales sqrt s) (l : List (Pt α)) (acc : α) :
    lineStringLength sqrt (l.map (scalePt s)) (s * acc) = s * lineStringLength sqrt l acc := by
  induction l generalizing acc with
  | nil => rfl
  | cons a t ih =>
    cases t with
    | nil => rfl
    | cons b t' =>
      simp only [List.map_cons, lineStringLength, distance_scale' sqrt s hq]
      simp only [List.map_cons] at ih
      rw [← mul_add]
      exact ih _

theorem lineStringLength_scale0 (sqrt : α → α) (s : α) (hq : SqrtScales sqrt s) (l : List (Pt α)) :
    lineStringLength sqrt (l.map (scalePt s)) 0 = s * lineStringLength sqrt l 0 := by
  have := lineStringLength_scale sqrt s hq l 0
  rwa [mul_zero] at this

theorem lenFold_scale (sqrt : α → α) (s : α) (hq : SqrtScales sqrt s) (ls : List (List (Pt α))) (acc : α) :
    (ls.map (·.map (scalePt s))).foldl (fun sum l => sum + lineStringLength sqrt l 0) (s * acc) =
      s * ls.foldl (fun sum l => sum + lineStringLength sqrt l 0) acc := by
  induction ls generalizing acc with
  | nil => rfl
  | cons l t ih =>
    simp only [List.map_cons, List.foldl_cons, lineStringLength_scale0 sqrt s hq]
    rw [← mul_add]
    exact ih _

theorem polygonLength_scale (sqrt : α → α) (s : α) (hq : SqrtScales sqrt s) (p : List (List (Pt α))) :
    polygonLength sqrt (p.map (·.map (scalePt s))) = s * polygonLength sqrt p := by
  have := lenFold_scale sqrt s hq p 0
  rw [mul_zero] at this
  exact this

theorem mpLenFold_scale (sqrt : α → α) (s : α) (hq : SqrtScales sqrt s) (mp : List (List (List (Pt α)))) (acc : α) :
    (mp.map (·.map (·.map (scalePt s)))).foldl (fun sum p => sum + polygonLength sqrt p) (s * acc) =
      s * mp.foldl (fun sum p => sum + polygonLength sqrt p) acc := by
  induction mp generalizing acc with
  | nil => rfl
  | cons p t ih =>
    simp only [List.map_cons, List.foldl_cons, polygonLength_scale sqrt s hq]
    rw [← mul_add]
    exact ih _

theorem lenLoop_scale (sqrt : α → α) (s : α) (gs : List (Geom α))
    (ih : ∀ g ∈ gs, length sqrt (scaleGeom s g) = s * length sqrt g) (acc : α) :
    length.lenLoop sqrt (scaleGeom.scaleList s gs) (s * acc) = s * length.lenLoop sqrt gs acc := by
  induction gs generalizing acc with
  | nil => rfl
  | cons g t iht =>
    simp only [scaleGeom.scaleList, length.lenLoop]
    rw [ih g (List.mem_cons_self ..), ← mul_add]
    exact iht (fun g hg => ih g (List.mem_cons_of_mem _ hg)) _

theorem length_scale' (sqrt : α → α) (s : α) (hq : SqrtScales sqrt s) (g : Geom α) :
    length sqrt (scaleGeom s g) = s * length sqrt g := by
  induction g using Geom.ind with
  | hc gs ih =>
    have := lenLoop_scale sqrt s gs ih 0
    rw [mul_zero] at this
    simp only [scaleGeom, length, this]
  | h1 p => simp only [scaleGeom, length, mul_zero]
  | h2 ps => simp only [scaleGeom, length, mul_zero]
  | h3 ps => simp only [scaleGeom, length, lineStringLength_scale0 sqrt s hq]
  | h4 ls =>
    have := lenFold_scale sqrt s hq ls 0
    rw [mul_zero] at this
    simp only [scaleGeom, length, this]
  | h5 r => simp only [scaleGeom, length, lineStringLength_scale0 sqrt s hq]
  | h6 p => simp only [scaleGeom, length, polygonLength_scale sqrt s hq]
  | h7 mp =>
    have := mpLenFold_scale sqrt s hq mp 0
    rw [mul_zero] at this
    simp only [scaleGeom, length, this]
  | h8 a b => simp only [scaleGeom, length, boundRing_scale, lineStringLength_scale0 sqrt s hq]

/-! ### DistanceFrom -/

theorem segmentDistanceFromSquared_scale' (s : α) (hs : 0 < s) (a b p : Pt α) :
    segmentDistanceFromSquared (scalePt s a) (scalePt s b) (scalePt s p) = s * s * segmentDistanceFromSquared a b p := by
  have hs0 : s ≠ 0 := hs.ne'
  have hss : s * s ≠ 0 := mul_ne_zero hs0 hs0
  have ht : ((s * p.x - s * a.x) * (s * b.x - s * a.x) + (s * p.y - s * a.y) * (s * b.y - s * a.y)) /
      ((s * b.x - s * a.x) * (s * b.x - s * a.x) + (s * b.y - s * a.y) * (s * b.y - s * a.y)) =
      ((p.x - a.x) * (b.x - a.x) + (p.y - a.y) * (b.y - a.y)) /
      ((b.x - a.x) * (b.x - a.x) + (b.y - a.y) * (b.y - a.y)) := by
    have e1 : (s * p.x - s * a.x) * (s * b.x - s * a.x) + (s * p.y - s * a.y) * (s * b.y - s * a.y) =
        s * s * ((p.x - a.x) * (b.x - a.x) + (p.y - a.y) * (b.y - a.y)) := by ring
    have e2 : (s * b.x - s * a.x) * (s * b.x - s * a.x) + (s * b.y - s * a.y) * (s * b.y - s * a.y) =
        s * s * ((b.x - a.x) * (b.x - a.x) + (b.y - a.y) * (b.y - a.y)) := by ring
    rw [e1, e2, mul_div_mul_left _ _ hss]
  have hdx : (s * b.x - s * a.x = 0) ↔ (b.x - a.x = 0) := by
    rw [← mul_sub, mul_eq_zero]; simp [hs0]
  have hdy : (s * b.y - s * a.y = 0) ↔ (b.y - a.y = 0) := by
    rw [← mul_sub, mul_eq_zero]; simp [hs0]
  simp only [segmentDistanceFromSquared, scalePt, ht, bne_iff_ne, ne_eq, hdx, hdy, Bool.or_eq_true, decide_eq_true_eq]
  split_ifs <;> ring

/-- `d < dist` (with `none` = +Inf) is untouched by a strictly increasing map of both sides -/
theorem optLt_map (f : α → α) (hf : StrictMono f) (a b : Option α) : optLt (a.map f) (b.map f) = optLt a b := by
  cases a <;> cases b <;> simp [optLt, hf.lt_iff_lt]

theorem minStep_map (f : α → α) (hf : StrictMono f) (t : Option α × Int) (d : Option α) (i : Int) :
    minStep (t.1.map f, t.2) (d.map f) i = ((minStep t d i).1.map f, (minStep t d i).2) := by
  simp only [minStep, optLt_map f hf]
  split_ifs <;> rfl

theorem strictMono_mul_pos (c : α) (hc : 0 < c) : StrictMono (fun x : α => c * x) :=
  fun _ _ h => mul_lt_mul_of_pos_left h hc

theorem mpDistFold_scale (s : α) (hs : 0 < s) (p : Pt α) (l : List (Pt α × Nat)) (t : Option α × Int) :
    (l.map fun qi => (scalePt s qi.1, qi.2)).foldl (fun (t : Option α × Int) (qi : Pt α × Nat) =>
        minStep t (some (distanceSquared qi.1 (scalePt s p))) qi.2) (t.1.map (s * s * ·), t.2) =
      let r := l.foldl (fun (t : Option α × Int) (qi : Pt α × Nat) => minStep t (some (distanceSquared qi.1 p)) qi.2) t
      (r.1.map (s * s * ·), r.2) := by
  induction l generalizing t with
  | nil => rfl
  | cons qi tl ih =>
    simp only [List.map_cons, List.foldl_cons, distanceSquared_scale']
    have := minStep_map (fun x => s * s * x) (strictMono_mul_pos _ (mul_pos hs hs)) t (some (distanceSquared qi.1 p)) qi.2
    simp only [Option.map_some] at this
    rw [this]
    exact ih _

theorem zipIdx_map_scale {β γ : Type} (f : β → γ) (l : List β) (k : Nat) :
    (l.map f).zipIdx k = (l.zipIdx k).map fun qi => (f qi.1, qi.2) := by
  induction l generalizing k with
  | nil => rfl
  | cons a t ih => simp only [List.map_cons, List.zipIdx_cons, ih]

theorem sqrt_map_scale (sqrt : α → α) (s : α) (hq : SqrtScales sqrt s) (o : Option α) :
    (o.map (s * s * ·)).map sqrt = (o.map sqrt).map (s * ·) := by
  cases o with
  | none => rfl
  | some x => simp only [Option.map_some, hq x]

theorem multiPointDistanceFrom_scale' (sqrt : α → α) (s : α) (hs : 0 < s) (hq : SqrtScales sqrt s)
    (mp : List (Pt α)) (p : Pt α) :
    multiPointDistanceFrom sqrt (mp.map (scalePt s)) (scalePt s p) =
      ((multiPointDistanceFrom sqrt mp p).1.map (s * ·), (multiPointDistanceFrom sqrt mp p).2) := by
  have h := mpDistFold_scale s hs p mp.zipIdx (none, -1)
  simp only [Option.map_none] at h
  simp only [multiPointDistanceFrom, zipIdx_map_scale, h, sqrt_map_scale sqrt s hq]

theorem lineDistLoop_scale (s : α) (hs : 0 < s) (p : Pt α) (l : List (Pt α)) (i : Nat) (t : Option α × Int) :
    lineDistLoop (scalePt s p) (l.map (scalePt s)) i (t.1.map (s * s * ·), t.2) =
      ((lineDistLoop p l i t).1.map (s * s * ·), (lineDistLoop p l i t).2) := by
  induction l generalizing i t with
  | nil => rfl
  | cons a tl ih =>
    cases tl with
    | nil => rfl
    | cons b tl' =>
      simp only [List.map_cons, lineDistLoop, segmentDistanceFromSquared_scale' s hs]
      simp only [List.map_cons] at ih
      have := minStep_map (fun x => s * s * x) (strictMono_mul_pos _ (mul_pos hs hs)) t
        (some (segmentDistanceFromSquared a b p)) i
      simp only [Option.map_some] at this
      rw [this]
      exact ih _ _

theorem lineStringDistanceFrom_scale' (sqrt : α → α) (s : α) (hs : 0 < s) (hq : SqrtScales sqrt s)
    (ls : List (Pt α)) (p : Pt α) :
    lineStringDistanceFrom sqrt (ls.map (scalePt s)) (scalePt s p) =
      ((lineStringDistanceFrom sqrt ls p).1.map (s * ·), (lineStringDistanceFrom sqrt ls p).2) := by
  have h := lineDistLoop_scale s hs p ls 0 (none, -1)
  simp only [Option.map_none] at h
  simp only [lineStringDistanceFrom, h, sqrt_map_scale sqrt s hq]

theorem polyDistFold_scale (sqrt : α → α) (s : α) (hs : 0 < s) (hq : SqrtScales sqrt s) (p : Pt α)
    (holes : List (List (Pt α))) (t : Option α × Int) :
    (holes.map (·.map (scalePt s))).foldl (fun t h =>
        let di := lineStringDistanceFrom sqrt h (scalePt s p)
        if optLt di.1 t.1 then di else t) (t.1.map (s * ·), t.2) =
      let r := holes.foldl (fun t h =>
        let di := lineStringDistanceFrom sqrt h p
        if optLt di.1 t.1 then di else t) t
      (r.1.map (s * ·), r.2) := by
  induction holes generalizing t with
  | nil => rfl
  | cons h tl ih =>
    simp only [List.map_cons, List.foldl_cons, lineStringDistanceFrom_scale' sqrt s hs hq,
      optLt_map (fun x => s * x) (strictMono_mul_pos s hs)]
    split_ifs with hc
    · exact ih _
    · exact ih _

theorem polygonDistanceFrom_scale' (sqrt : α → α) (s : α) (hs : 0 < s) (hq : SqrtScales sqrt s)
    (pg : List (List (Pt α))) (p : Pt α) :
    polygonDistanceFrom sqrt (pg.map (·.map (scalePt s))) (scalePt s p) =
      ((polygonDistanceFrom sqrt pg p).1.map (s * ·), (polygonDistanceFrom sqrt pg p).2) := by
  cases pg with
  | nil => rfl
  | cons outer holes =>
    simp only [polygonDistanceFrom, List.map_cons, lineStringDistanceFrom_scale' sqrt s hs hq]
    exact polyDistFold_scale sqrt s hs hq p holes _

/-- the generic member loop of `DistanceFromWithIndex` for multi-lines / multi-polygons -/
theorem memberFold_scale {β : Type} (s : α) (hs : 0 < s) (f g : β → Option α) (sc : β → β)
    (hfg : ∀ b, g (sc b) = (f b).map (s * ·)) (l : List (β × Nat)) (t : Option α × Int) :
    (l.map fun bi => (sc bi.1, bi.2)).foldl (fun t (bi : β × Nat) => minStep t (g bi.1) bi.2) (t.1.map (s * ·), t.2) =
      let r := l.foldl (fun t (bi : β × Nat) => minStep t (f bi.1) bi.2) t
      (r.1.map (s * ·), r.2) := by
  induction l generalizing t with
  | nil => rfl
  | cons bi tl ih =>
    simp only [List.map_cons, List.foldl_cons, hfg]
    rw [minStep_map (fun x => s * x) (strictMono_mul_pos s hs)]
    exact ih _

theorem dfCollLoop_scale (sqrt : α → α) (s : α) (hs : 0 < s) (p : Pt α) (gs : List (Geom α))
    (ih : ∀ g ∈ gs, distanceFromWithIndex sqrt (scalePt s p) (scaleGeom s g) =
      ((distanceFromWithIndex sqrt p g).1.map (s * ·), (distanceFromWithIndex sqrt p g).2))
    (i : Nat) (t : Option α × Int) :
    distanceFromWithIndex.collLoop sqrt (scalePt s p) (scaleGeom.scaleList s gs) i (t.1.map (s * ·), t.2) =
      ((distanceFromWithIndex.collLoop sqrt p gs i t).1.map (s * ·), (distanceFromWithIndex.collLoop sqrt p gs i t).2) := by
  induction gs generalizing i t with
  | nil => rfl
  | cons g tl iht =>
    simp only [scaleGeom.scaleList, distanceFromWithIndex.collLoop]
    rw [ih g (List.mem_cons_self ..)]
    simp only
    rw [minStep_map (fun x => s * x) (strictMono_mul_pos s hs)]
    exact iht (fun g hg => ih g (List.mem_cons_of_mem _ hg)) _ _

theorem distanceFromWithIndex_scale' (sqrt : α → α) (s : α) (hs : 0 < s) (hq : SqrtScales sqrt s)
    (g : Geom α) (p : Pt α) :
    distanceFromWithIndex sqrt (scalePt s p) (scaleGeom s g) =
      ((distanceFromWithIndex sqrt p g).1.map (s * ·), (distanceFromWithIndex sqrt p g).2) := by
  induction g using Geom.ind with
  | hc gs ih =>
    have := dfCollLoop_scale sqrt s hs p gs ih 0 (none, -1)
    simp only [Option.map_none] at this
    simp only [scaleGeom, distanceFromWithIndex, this]
  | h1 q => simp only [scaleGeom, distanceFromWithIndex, distance_scale' sqrt s hq, Option.map_some]
  | h2 ps => simp only [scaleGeom, distanceFromWithIndex, multiPointDistanceFrom_scale' sqrt s hs hq]
  | h3 ps => simp only [scaleGeom, distanceFromWithIndex, lineStringDistanceFrom_scale' sqrt s hs hq]
  | h4 ls =>
    have := memberFold_scale s hs (fun l => (lineStringDistanceFrom sqrt l p).1)
      (fun l => (lineStringDistanceFrom sqrt l (scalePt s p)).1) (fun l => l.map (scalePt s))
      (fun l => by simp only [lineStringDistanceFrom_scale' sqrt s hs hq]) ls.zipIdx (none, -1)
    simp only [Option.map_none] at this
    simp only [scaleGeom, distanceFromWithIndex, zipIdx_map_scale, this]
  | h5 r => simp only [scaleGeom, distanceFromWithIndex, lineStringDistanceFrom_scale' sqrt s hs hq]
  | h6 pg => simp only [scaleGeom, distanceFromWithIndex, polygonDistanceFrom_scale' sqrt s hs hq]
  | h7 mp =>
    have := memberFold_scale s hs (fun pg => (polygonDistanceFrom sqrt pg p).1)
      (fun pg => (polygonDistanceFrom sqrt pg (scalePt s p)).1) (fun pg => pg.map (·.map (scalePt s)))
      (fun pg => by simp only [polygonDistanceFrom_scale' sqrt s hs hq]) mp.zipIdx (none, -1)
    simp only [Option.map_none] at this
    simp only [scaleGeom, distanceFromWithIndex, zipIdx_map_scale, this]
  | h8 a b => simp only [scaleGeom, distanceFromWithIndex, boundRing_scale, lineStringDistanceFrom_scale' sqrt s hs hq]

theorem distanceFrom_scale' (sqrt : α → α) (s : α) (hs : 0 < s) (hq : SqrtScales sqrt s) (g : Geom α) (p : Pt α) :
    distanceFrom sqrt (scaleGeom s g) (scalePt s p) = (distanceFrom sqrt g p).map (s * ·) := by
  simp only [distanceFrom, distanceFromWithIndex_scale' sqrt s hs hq]

end scale2

end Orb.Planar
