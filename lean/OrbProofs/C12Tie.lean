/-
  C12 — translation tie for the straight-line helpers of package simplify:
  `doubleTriangleArea` (visvalingam.go) and the two planar distance functions Douglas-Peucker and
  the radial simplifier are run with.  `Generated/SimplifyGo.lean` and `Generated/PlanarGo.lean` are
  REGENERATED from /repo on every run by harness/cmd/factgen/translate_float.go.
-/
import Orb.Simplify
import Generated.SimplifyGo
import Generated.PlanarGo
import Orb.LoopForms

namespace Orb.C12Tie
open Orb Orb.Core

set_option linter.unusedSectionVars false

variable {α : Type} [Add α] [Sub α] [Mul α] [Div α] [Neg α] [LT α] [LE α] [DecidableLT α] [DecidableLE α]
  [BEq α] [Min α] [Max α] [OfNat α 0] [OfNat α 1] [OfNat α 2] [OfNat α 6] [NatCast α]

theorem distSq_tie (p q : Pt α) : Generated.PlanarGo.distanceSquared p q = Simplify.distSq p q := rfl
theorem distSegSq_tie (a b p : Pt α) :
    Generated.PlanarGo.distanceFromSegmentSquared a b p = Simplify.distSegSq a b p := rfl

/-- `doubleTriangleArea` (an index is read with `getD` on both sides: Go's bounds check is not part
    of the translation, nor of the model) -/
theorem doubleTriangleArea_tie (ls : List (Pt α)) (i j k : Nat) :
    Generated.SimplifyGo.doubleTriangleArea ls i j k = Simplify.doubleTriangleArea ls i j k := rfl

/-! ### simplify/helpers.go: `runSimplify`, `lineString`, `multiLineString`, `ring`, `polygon`, `multiPolygon`

The simplifier (an interface value with one method) is translated as a PURE TOTAL function
`f : List (Pt α) → Bool → List (Pt α)`; the model's simplifier answers in `R` (it may fail), and the ties are at the
simplifier `okS f = fun ls area => .ok (f ls area)`.  `multiLineString` rewrites its lines in place (`List.set`,
turned into `List.map` by `foldl_set_map`); `polygon` and `multiPolygon` compact in place
(`x[count] = r; count++ … x[:count]`, translated with `List.set` / `List.take`), which
`Orb.LoopForms.compact_loop` turns into `compactFrom` — what is kept, in order. -/

open Orb.LoopForms Orb.Simplify

/-- a simplifier that never fails -/
def okS (f : List (Pt α) → Bool → List (Pt α)) : Simplifier α := fun ls area => .ok (f ls area)

theorem runSimplify_tie (f : List (Pt α) → Bool → List (Pt α)) (ls : List (Pt α)) (area : Bool) :
    Simplify.runSimplify (okS f) ls area = .ok (Generated.SimplifyGo.runSimplify f ls area) := by
  unfold Simplify.runSimplify Generated.SimplifyGo.runSimplify okS
  split <;> rfl

theorem lineString_tie (f : List (Pt α) → Bool → List (Pt α)) (ls : List (Pt α)) :
    Simplify.lineString (okS f) ls = .ok (Generated.SimplifyGo.lineString f ls) := runSimplify_tie f ls false

theorem ring_tie (f : List (Pt α) → Bool → List (Pt α)) (r : List (Pt α)) :
    Simplify.ring (okS f) r = .ok (Generated.SimplifyGo.ring f r) := runSimplify_tie f r true

theorem multiLineString_map (f : List (Pt α) → Bool → List (Pt α)) (mls : List (List (Pt α))) :
    Generated.SimplifyGo.multiLineString f mls = mls.map (fun l => Generated.SimplifyGo.runSimplify f l false) :=
  foldl_set_map (fun l => Generated.SimplifyGo.runSimplify f l false) [] mls

theorem multiLineString_tie (f : List (Pt α) → Bool → List (Pt α)) (mls : List (List (Pt α))) :
    Simplify.multiLineString (okS f) mls = .ok (Generated.SimplifyGo.multiLineString f mls) := by
  rw [multiLineString_map]
  induction mls with
  | nil => rfl
  | cons l t ih => simp only [Simplify.multiLineString, runSimplify_tie, ih, List.map_cons]

/-- what `polygon` keeps of ring number `i`: every simplified ring but the holes left with at most two points -/
def keepRing (f : List (Pt α) → Bool → List (Pt α)) (i : Nat) (x : List (Pt α)) : Option (List (Pt α)) :=
  let r := Generated.SimplifyGo.runSimplify f x true
  if i ≠ 0 ∧ r.length ≤ 2 then none else some r

theorem polygon_compact (f : List (Pt α) → Bool → List (Pt α)) (p : List (List (Pt α))) :
    Generated.SimplifyGo.polygon f p = compactFrom (keepRing f) 0 p := by
  rw [← compact_loop (keepRing f) [] p]
  have hstep : (fun ((count, p) : Nat × List (List (Pt α))) (i : Nat) =>
      let r : List (Pt α) := Generated.SimplifyGo.runSimplify f (p.getD i []) true
      if i ≠ 0 ∧ r.length ≤ 2 then (count, p)
      else
        let p : List (List (Pt α)) := p.set count r
        let count : Nat := count + 1
        (count, p)) = compactStep (keepRing f) [] := by
    funext st i
    obtain ⟨count, q⟩ := st
    simp only [compactStep, keepRing]
    split <;> rfl
  unfold Generated.SimplifyGo.polygon
  simp only []
  rw [hstep]

theorem polygonFrom_tie (f : List (Pt α) → Bool → List (Pt α)) (i : Nat) (p : List (List (Pt α))) :
    Simplify.polygonFrom (okS f) i p = .ok (compactFrom (keepRing f) i p) := by
  induction p generalizing i with
  | nil => rfl
  | cons r t ih =>
    simp only [Simplify.polygonFrom, runSimplify_tie, ih, compactFrom, keepRing]
    split <;> rfl

theorem polygon_tie (f : List (Pt α) → Bool → List (Pt α)) (p : List (List (Pt α))) :
    Simplify.polygon (okS f) p = .ok (Generated.SimplifyGo.polygon f p) := by
  rw [polygon_compact]; exact polygonFrom_tie f 0 p

/-- what `multiPolygon` keeps: the simplified polygons that still have an outer ring with more than two points -/
def keepPolygon (f : List (Pt α) → Bool → List (Pt α)) (_ : Nat) (x : List (List (Pt α))) : Option (List (List (Pt α))) :=
  let p := Generated.SimplifyGo.polygon f x
  if p.length = 0 ∨ (p.getD 0 []).length ≤ 2 then none else some p

theorem multiPolygon_compact (f : List (Pt α) → Bool → List (Pt α)) (mp : List (List (List (Pt α)))) :
    Generated.SimplifyGo.multiPolygon f mp = compactFrom (keepPolygon f) 0 mp := by
  rw [← compact_loop (keepPolygon f) [] mp]
  have hstep : (fun ((count, mp) : Nat × List (List (List (Pt α)))) (i : Nat) =>
      let p : List (List (Pt α)) := Generated.SimplifyGo.polygon f (mp.getD i [])
      if p.length = 0 ∨ ((p.getD 0 []).length) ≤ 2 then (count, mp)
      else
        let mp : List (List (List (Pt α))) := mp.set count p
        let count : Nat := count + 1
        (count, mp)) = compactStep (keepPolygon f) [] := by
    funext st i
    obtain ⟨count, q⟩ := st
    simp only [compactStep, keepPolygon]
    split <;> rfl
  unfold Generated.SimplifyGo.multiPolygon
  simp only []
  rw [hstep]

theorem multiPolygon_tie (f : List (Pt α) → Bool → List (Pt α)) (mp : List (List (List (Pt α)))) :
    Simplify.multiPolygon (okS f) mp = .ok (Generated.SimplifyGo.multiPolygon f mp) := by
  rw [multiPolygon_compact]
  generalize (0 : Nat) = i
  induction mp generalizing i with
  | nil => rfl
  | cons p t ih =>
    simp only [Simplify.multiPolygon, polygon_tie, ih (i + 1), compactFrom, keepPolygon]
    cases hp : Generated.SimplifyGo.polygon f p with
    | nil => simp
    | cons r0 rs =>
      simp only [List.length_cons, Nat.succ_ne_zero, false_or, List.getD_cons_zero]
      split <;> rfl

theorem all_translated_SimplifyGo : Generated.SimplifyGo.translated =
    ["doubleTriangleArea", "runSimplify", "lineString", "multiLineString", "ring", "polygon", "multiPolygon"] := by
  decide

end Orb.C12Tie
