/-
  C12 — translation tie for the straight-line helpers of package simplify:
  `doubleTriangleArea` (visvalingam.go) and the two planar distance functions Douglas-Peucker and
  the radial simplifier are run with.  `Generated/SimplifyGo.lean` and `Generated/PlanarGo.lean` are
  REGENERATED from /repo on every run by harness/cmd/factgen/translate_float.go.
-/
import Orb.Simplify
import Generated.SimplifyGo
import Generated.PlanarGo

namespace Orb.C12Tie
open Orb Orb.Core

set_option linter.unusedSectionVars false

variable {α : Type} [Add α] [Sub α] [Mul α] [Div α] [Neg α] [LT α] [LE α] [DecidableLT α] [DecidableLE α]
  [BEq α] [Min α] [Max α] [OfNat α 0] [OfNat α 1] [OfNat α 2] [OfNat α 6] [NatCast α]

theorem distSq_tie (p q : Pt α) : Generated.PlanarGo.distanceSquared p q = Simplify.distSq p q := rfl
theorem distSegSq_tie (a b p : Pt α) :
    Generated.PlanarGo.distanceFromSegmentSquared a b p = Simplify.distSegSq a b p := rfl

/-- `doubleTriangleArea` (an index is read with `getD` on both sides: Go's bounds check is not part
    of the translation, nor of the model) -/
theorem doubleTriangleArea_tie (ls : List (Pt α)) (i j k : Nat) :
    Generated.SimplifyGo.doubleTriangleArea ls i j k = Simplify.doubleTriangleArea ls i j k := rfl

theorem all_translated_SimplifyGo : Generated.SimplifyGo.translated = ["doubleTriangleArea"] := by
  decide

end Orb.C12Tie
