/-
  Helper lemmas for the geography half of C13 (`Orb.TileGeo`).
  The primed statements are re-exported by OrbProofs/C13.lean.
-/
import Orb.TileGeo
import OrbProofs.C13Lemmas
import Mathlib.Tactic.Positivity
import Mathlib.Tactic.NormNum
import Mathlib.Tactic.Push
import Mathlib.Algebra.Order.Field.Basic
import Mathlib.Algebra.Order.Floor.Ring
import Mathlib.Data.Rat.Floor
import Mathlib.Tactic.Ring
import Mathlib.Tactic.FieldSimp
import Mathlib.Tactic.Linarith
import Mathlib.Tactic.SplitIfs

namespace Orb.TileGeo
open Orb Orb.Tile

/-! ### the named hypotheses on the parameters -/

section hyps
variable {α : Type} [Field α] [LinearOrder α] [IsStrictOrderedRing α]

/-- `float64(n)` is the number `n` (exact for every uint32, and for the powers of two `ToGeo` converts). -/
def CastExact (E : Env α) : Prop := ∀ n : Nat, E.ofNat n = (n : α)

/-- `uint32(f)` truncates: it returns the integer `n` with `n ≤ f < n+1`. -/
def FloorSpec (E : Env α) : Prop :=
  ∀ (x : α) (n : Nat), (n : α) ≤ x → x < (n : α) + 1 → E.floorU32 x = n

/-- The clamp latitude is a latitude of the northern hemisphere. -/
def LatMaxNonneg (E : Env α) : Prop := 0 ≤ E.latMax

/-- `latOf` (inverse Gudermannian of the row ordinate) is strictly decreasing: rows grow southwards. -/
def LatOfStrictAnti (E : Env α) : Prop := ∀ a b : α, a < b → E.latOf b < E.latOf a

/-- `mercY` is (weakly) decreasing in the latitude. -/
def MercYAntitone (E : Env α) : Prop := ∀ a b : α, a ≤ b → E.mercY b ≤ E.mercY a

/-- `mercY ∘ latOf = id` on the unit interval of normalised ordinates. -/
def MercYLatOf (E : Env α) : Prop := ∀ y : α, 0 ≤ y → y ≤ 1 → E.mercY (E.latOf y) = y

/-- `latOf ∘ mercY = id` on the unclamped latitudes. -/
def LatOfMercY (E : Env α) : Prop :=
  ∀ φ : α, -E.latMax ≤ φ → φ ≤ E.latMax → E.latOf (E.mercY φ) = φ

/-- The clamp latitude `85.0511` lies strictly inside the mercator square, whose top and bottom
    edges are `latOf 0 = 85.05112878…` and `latOf 1 = −85.05112878…`. -/
def ClampInside (E : Env α) : Prop := E.latMax < E.latOf 0 ∧ E.latOf 1 < -E.latMax

end hyps

set_option linter.unusedSectionVars false

section lemmas
variable {α : Type} [Field α] [LinearOrder α] [IsStrictOrderedRing α]

/-! ### arithmetic helpers -/

/-- A bounded non-negative element of an ordered field has an integer part (no Archimedean axiom
    needed: search downwards from the bound). -/
theorem exists_nat_floor : ∀ (N : Nat) (x : α), 0 ≤ x → x ≤ (N : α) →
    ∃ n : Nat, n ≤ N ∧ (n : α) ≤ x ∧ x < (n : α) + 1 ∧ (x < (N : α) → n < N) := by
  intro N
  induction N with
  | zero =>
    intro x h0 h1
    refine ⟨0, le_refl _, by simpa using h0, ?_, ?_⟩
    · have : x = 0 := le_antisymm (by simpa using h1) h0
      rw [this]; norm_num
    · intro h; exact absurd h (by simpa using h0)
  | succ N ih =>
    intro x h0 h1
    by_cases hx : x < 1
    · exact ⟨0, Nat.zero_le _, by simpa using h0, by simpa using hx, fun _ => Nat.succ_pos _⟩
    · have hx1 : (1 : α) ≤ x := not_lt.mp hx
      have h1' : x - 1 ≤ (N : α) := by push_cast at h1; linarith
      obtain ⟨n, hn, hl, hu, hs⟩ := ih (x - 1) (by linarith) h1'
      refine ⟨n + 1, Nat.succ_le_succ hn, by push_cast; linarith, by push_cast; linarith, ?_⟩
      intro h
      have : x - 1 < (N : α) := by push_cast at h; linarith
      exact Nat.succ_lt_succ (hs this)

theorem shl32_one {z : Nat} (hz : z ≤ 31) : shl32 1 z = 2 ^ z := by
  have h : 1 * 2 ^ z < 2 ^ 32 := by
    rw [Nat.one_mul]
    exact Nat.pow_lt_pow_right (by decide) (by omega)
  rw [shl32_eq h, Nat.one_mul]

theorem pow_mod_W64 {z : Nat} (hz : z ≤ 31) : (2 ^ z) % W64 = 2 ^ z := by
  unfold W64
  exact Nat.mod_eq_of_lt (Nat.pow_lt_pow_right (by decide) (by omega))

theorem maxTiles32_eq (E : Env α) (hc : CastExact E) {z : Nat} (hz : z ≤ 31) :
    maxTiles32 E z = (2 : α) ^ z := by
  unfold maxTiles32; rw [shl32_one hz, hc]; push_cast; rfl

theorem maxTiles64_eq (E : Env α) (hc : CastExact E) {z : Nat} (hz : z ≤ 31) :
    maxTiles64 E z = (2 : α) ^ z := by
  unfold maxTiles64; rw [pow_mod_W64 hz, hc]; push_cast; rfl

theorem two_pow_pos (z : Nat) : (0 : α) < (2 : α) ^ z := by positivity

theorem two_pow_ge_one (z : Nat) : (1 : α) ≤ (2 : α) ^ z := one_le_pow₀ (by norm_num)

theorem natCast_lt_two_pow {n z : Nat} (h : n < 2 ^ z) : (n : α) < (2 : α) ^ z := by
  have : ((n : Nat) : α) < ((2 ^ z : Nat) : α) := by exact_mod_cast h
  simpa using this

theorem natCast_succ_le_two_pow {n z : Nat} (h : n < 2 ^ z) : (n : α) + 1 ≤ (2 : α) ^ z := by
  have : (((n + 1 : Nat)) : α) ≤ ((2 ^ z : Nat) : α) := by exact_mod_cast h
  simpa using this

/-! ### consequences of the hypotheses -/

theorem latOf_anti (E : Env α) (h : LatOfStrictAnti E) {a b : α} (hab : a ≤ b) :
    E.latOf b ≤ E.latOf a := by
  rcases lt_or_eq_of_le hab with h1 | h1
  · exact le_of_lt (h a b h1)
  · rw [h1]

/-- On the unclamped latitudes `mercY` takes its values in `[0, 1)`. -/
theorem mercY_range (E : Env α) (hanti : MercYAntitone E) (h1 : MercYLatOf E) (h2 : LatOfMercY E)
    (hin : ClampInside E) (φ : α) (hlo : -E.latMax ≤ φ) (hhi : φ ≤ E.latMax) :
    0 ≤ E.mercY φ ∧ E.mercY φ < 1 := by
  constructor
  · have := hanti φ (E.latOf 0) (le_of_lt (lt_of_le_of_lt hhi hin.1))
    rwa [h1 0 (le_refl _) zero_le_one] at this
  · have hle := hanti (E.latOf 1) φ (le_of_lt (lt_of_lt_of_le hin.2 hlo))
    rw [h1 1 zero_le_one (le_refl _)] at hle
    rcases lt_or_eq_of_le hle with h | h
    · exact h
    · exfalso
      have := h2 φ hlo hhi
      rw [h] at this
      have : E.latOf 1 < E.latOf 1 := by
        calc E.latOf 1 < -E.latMax := hin.2
          _ ≤ φ := hlo
          _ = E.latOf 1 := this.symm
      exact lt_irrefl _ this

/-! ### `Fraction` / `At` -/

theorem fraction_x (E : Env α) (hc : CastExact E) (ll : Pt α) {z : Nat} (hz : z ≤ 31) :
    (fraction E ll z).x = (ll.x / 360 + 1 / 2) * (2 : α) ^ z := by
  simp only [fraction, maxTiles32_eq E hc hz]

theorem fraction_y_mid (E : Env α) (hc : CastExact E) (ll : Pt α) {z : Nat} (hz : z ≤ 31)
    (hlo : -E.latMax ≤ ll.y) (hhi : ll.y ≤ E.latMax) :
    (fraction E ll z).y = E.mercY ll.y * (2 : α) ^ z := by
  simp only [fraction, maxTiles32_eq E hc hz]
  rw [if_neg (not_lt.mpr hlo), if_neg (not_lt.mpr hhi)]

theorem fraction_x_bounds (E : Env α) (hc : CastExact E) (ll : Pt α) {z : Nat} (hz : z ≤ 31)
    (hlo : -180 ≤ ll.x) (hhi : ll.x ≤ 180) :
    0 ≤ (fraction E ll z).x ∧ (fraction E ll z).x ≤ (2 : α) ^ z := by
  rw [fraction_x E hc ll hz]
  have hp := two_pow_pos (α := α) z
  have h0 : (0 : α) ≤ ll.x / 360 + 1 / 2 := by
    have : (-180 : α) / 360 ≤ ll.x / 360 := div_le_div_of_nonneg_right hlo (by norm_num)
    linarith [show (-180 : α) / 360 = -(1 / 2) by norm_num]
  have h1 : ll.x / 360 + 1 / 2 ≤ (1 : α) := by
    have : ll.x / 360 ≤ (180 : α) / 360 := div_le_div_of_nonneg_right hhi (by norm_num)
    linarith [show (180 : α) / 360 = 1 / 2 by norm_num]
  exact ⟨mul_nonneg h0 (le_of_lt hp), by nlinarith⟩

/-- In exact arithmetic the west-edge step-back of `At` never fires: a column that is not to the
    right of the fraction has its west edge at or west of the longitude. -/
theorem stepback_inactive (E : Env α) (hc : CastExact E) (ll : Pt α) {z : Nat} (hz : z ≤ 31)
    (x1 : Nat) (h : (x1 : α) ≤ (fraction E ll z).x) :
    ¬ (ll.x < 360 * (E.ofNat x1 / E.ofNat (2 ^ z) - 1 / 2)) := by
  rw [hc, hc]
  rw [fraction_x E hc ll hz] at h
  have hp := two_pow_pos (α := α) z
  have h2 : (x1 : α) / (2 : α) ^ z ≤ ll.x / 360 + 1 / 2 := by
    rw [div_le_iff₀ hp]; exact h
  push_cast
  intro hlt
  linarith

/-- `At`'s column is the clamped floor whenever that is not to the right of the fraction. -/
theorem at_x_eq (E : Env α) (hc : CastExact E) (ll : Pt α) {z : Nat} (hz : z ≤ 31) (n x1 : Nat)
    (hfl : E.floorU32 (fraction E ll z).x = n)
    (hx1 : x1 = if 2 ^ z ≠ 0 ∧ n ≥ 2 ^ z then 2 ^ z - 1 else n)
    (h : (x1 : α) ≤ (fraction E ll z).x) : (at_ E ll z).x = x1 := by
  simp only [at_, hfl, shl32_one hz]
  rw [← hx1, if_neg]
  rintro ⟨_, _, hlt⟩
  exact stepback_inactive E hc ll hz x1 h hlt

/-- the column computed by `At` for a longitude in `[-180, 180]` -/
theorem at_x_spec (E : Env α) (hc : CastExact E) (hf : FloorSpec E) (ll : Pt α) {z : Nat}
    (hz : z ≤ 31) (hlo : -180 ≤ ll.x) (hhi : ll.x ≤ 180) :
    (at_ E ll z).x < 2 ^ z ∧
      (ll.x < 180 → ((at_ E ll z).x : α) ≤ (fraction E ll z).x ∧
        (fraction E ll z).x < ((at_ E ll z).x : α) + 1) := by
  obtain ⟨h0, h1⟩ := fraction_x_bounds E hc ll hz hlo hhi
  have h1' : (fraction E ll z).x ≤ ((2 ^ z : Nat) : α) := by push_cast; exact h1
  obtain ⟨n, hn, hl, hu, hs⟩ := exists_nat_floor (2 ^ z) _ h0 h1'
  have hfl : E.floorU32 (fraction E ll z).x = n := hf _ n hl hu
  have hpos : 0 < 2 ^ z := Nat.pos_of_ne_zero (by positivity)
  have hx : (at_ E ll z).x = if 2 ^ z ≠ 0 ∧ n ≥ 2 ^ z then 2 ^ z - 1 else n := by
    apply at_x_eq E hc ll hz n _ hfl rfl
    have hle : (if 2 ^ z ≠ 0 ∧ n ≥ 2 ^ z then 2 ^ z - 1 else n) ≤ n := by split_ifs <;> omega
    have : (((if 2 ^ z ≠ 0 ∧ n ≥ 2 ^ z then 2 ^ z - 1 else n : Nat)) : α) ≤ (n : α) := by
      exact_mod_cast hle
    linarith
  constructor
  · rw [hx]; split_ifs <;> omega
  · intro hlt
    have hxlt : (fraction E ll z).x < ((2 ^ z : Nat) : α) := by
      push_cast
      rw [fraction_x E hc ll hz]
      have hp := two_pow_pos (α := α) z
      have : ll.x / 360 + 1 / 2 < (1 : α) := by
        have : ll.x / 360 < (180 : α) / 360 := div_lt_div_of_pos_right hlt (by norm_num)
        linarith [show (180 : α) / 360 = 1 / 2 by norm_num]
      nlinarith
    have hnlt := hs hxlt
    have : (at_ E ll z).x = n := by
      rw [hx, if_neg]; omega
    rw [this]; exact ⟨hl, hu⟩

theorem at_z (E : Env α) (ll : Pt α) (z : Nat) : (at_ E ll z).z = z := rfl

theorem at_y (E : Env α) (ll : Pt α) (z : Nat) :
    (at_ E ll z).y = E.floorU32 (fraction E ll z).y := rfl

/-- the row computed by `At` for an unclamped latitude -/
theorem at_y_spec (E : Env α) (hc : CastExact E) (hf : FloorSpec E) (ll : Pt α) {z : Nat}
    (hz : z ≤ 31) (hlo : -E.latMax ≤ ll.y) (hhi : ll.y ≤ E.latMax)
    (hr : 0 ≤ E.mercY ll.y ∧ E.mercY ll.y < 1) :
    (at_ E ll z).y < 2 ^ z ∧ ((at_ E ll z).y : α) ≤ E.mercY ll.y * (2 : α) ^ z ∧
      E.mercY ll.y * (2 : α) ^ z < ((at_ E ll z).y : α) + 1 := by
  have hp := two_pow_pos (α := α) z
  have hy := fraction_y_mid E hc ll hz hlo hhi
  have h0 : 0 ≤ E.mercY ll.y * (2 : α) ^ z := mul_nonneg hr.1 (le_of_lt hp)
  have h1 : E.mercY ll.y * (2 : α) ^ z < (2 : α) ^ z := by nlinarith [hr.2]
  have h1' : E.mercY ll.y * (2 : α) ^ z ≤ ((2 ^ z : Nat) : α) := by push_cast; exact le_of_lt h1
  obtain ⟨n, hn, hl, hu, hs⟩ := exists_nat_floor (2 ^ z) _ h0 h1'
  have hfl : (at_ E ll z).y = n := by rw [at_y, hy]; exact hf _ n hl hu
  rw [hfl]
  exact ⟨hs (by push_cast; exact h1), hl, hu⟩

theorem at_valid' (E : Env α) (hc : CastExact E) (hf : FloorSpec E)
    (hanti : MercYAntitone E) (h1 : MercYLatOf E) (h2 : LatOfMercY E) (hin : ClampInside E)
    (ll : Pt α) (z : Nat) (hz : z ≤ 31) (hlo : -180 ≤ ll.x) (hhi : ll.x ≤ 180) :
    (at_ E ll z).x < 2 ^ z ∧ (at_ E ll z).y < 2 ^ z ∧ (at_ E ll z).z = z := by
  refine ⟨(at_x_spec E hc hf ll hz hlo hhi).1, ?_, rfl⟩
  have hpos : 0 < 2 ^ z := Nat.pos_of_ne_zero (by positivity)
  by_cases hs : ll.y < -E.latMax
  · -- south of the clamp: fraction = maxtiles - 1
    have hy : (fraction E ll z).y = (2 : α) ^ z - 1 := by
      simp only [fraction, maxTiles32_eq E hc hz]; rw [if_pos hs]
    have hcast : (((2 ^ z - 1 : Nat)) : α) = (2 : α) ^ z - 1 := by
      rw [Nat.cast_sub hpos]; push_cast; rfl
    have : (at_ E ll z).y = 2 ^ z - 1 := by
      rw [at_y, hy]; apply hf
      · rw [hcast]
      · rw [hcast]; linarith
    rw [this]; omega
  · by_cases hn : E.latMax < ll.y
    · have hy : (fraction E ll z).y = 0 := by
        simp only [fraction]; rw [if_neg hs, if_pos hn]
      have : (at_ E ll z).y = 0 := by
        rw [at_y, hy]; apply hf <;> norm_num
      rw [this]; exact hpos
    · have hlo' := not_lt.mp hs
      have hhi' := not_lt.mp hn
      exact (at_y_spec E hc hf ll hz hlo' hhi'
        (mercY_range E hanti h1 h2 hin _ hlo' hhi')).1

theorem at_clamped_row' (E : Env α) (hc : CastExact E) (hf : FloorSpec E) (hm : LatMaxNonneg E)
    (ll : Pt α) (z : Nat) (hz : z ≤ 31) :
    (ll.y < -E.latMax → (at_ E ll z).y = 2 ^ z - 1) ∧ (E.latMax < ll.y → (at_ E ll z).y = 0) := by
  have hpos : 0 < 2 ^ z := Nat.pos_of_ne_zero (by positivity)
  constructor
  · intro hs
    have hy : (fraction E ll z).y = (2 : α) ^ z - 1 := by
      simp only [fraction, maxTiles32_eq E hc hz]; rw [if_pos hs]
    have hcast : (((2 ^ z - 1 : Nat)) : α) = (2 : α) ^ z - 1 := by
      rw [Nat.cast_sub hpos]; push_cast; rfl
    rw [at_y, hy]; apply hf
    · rw [hcast]
    · rw [hcast]; linarith
  · intro hn
    have hs : ¬ ll.y < -E.latMax := by
      unfold LatMaxNonneg at hm
      intro h; linarith
    have hy : (fraction E ll z).y = 0 := by
      simp only [fraction]; rw [if_neg hs, if_pos hn]
    rw [at_y, hy]; apply hf <;> norm_num

/-! ### `Bound` -/

/-- The bound of a valid tile (no buffer): the four edges as `ToGeo` of the integer corners. -/
theorem bound_valid (E : Env α) (hc : CastExact E) (t : Tile) (hz : t.z ≤ 31)
    (hy : t.y < 2 ^ t.z) :
    bound E t 0 =
      ⟨⟨360 * ((t.x : α) / (2 : α) ^ t.z - 1 / 2), E.latOf (((t.y : α) + 1) / (2 : α) ^ t.z)⟩,
       ⟨360 * (((t.x : α) + 1) / (2 : α) ^ t.z - 1 / 2), E.latOf ((t.y : α) / (2 : α) ^ t.z)⟩⟩ := by
  have hy0 : ¬ (E.ofNat t.y < 0) := by
    rw [hc]; exact not_lt.mpr (Nat.cast_nonneg _)
  have hy1 : ¬ ((2 : α) ^ t.z < E.ofNat t.y + 1) := by
    rw [hc]; exact not_lt.mpr (natCast_succ_le_two_pow hy)
  simp only [bound, toGeo, lonOfX, latOfY, maxTiles32_eq E hc hz, maxTiles64_eq E hc hz,
    sub_zero, add_zero, if_neg hy0, if_neg hy1]
  rw [hc t.x, hc t.y]

theorem at_bound_contains' (E : Env α) (hc : CastExact E) (hf : FloorSpec E)
    (hlat : LatOfStrictAnti E) (hanti : MercYAntitone E) (h1 : MercYLatOf E) (h2 : LatOfMercY E)
    (hin : ClampInside E)
    (ll : Pt α) (z : Nat) (hz : z ≤ 31) (hlo : -180 ≤ ll.x) (hhi : ll.x < 180)
    (hlatlo : -E.latMax ≤ ll.y) (hlathi : ll.y ≤ E.latMax) :
    InCell (bound E (at_ E ll z) 0) ll := by
  have hp := two_pow_pos (α := α) z
  have hr := mercY_range E hanti h1 h2 hin _ hlatlo hlathi
  obtain ⟨_, hxs⟩ := at_x_spec E hc hf ll hz hlo (le_of_lt hhi)
  obtain ⟨hxl, hxu⟩ := hxs hhi
  obtain ⟨hyv, hyl, hyu⟩ := at_y_spec E hc hf ll hz hlatlo hlathi hr
  rw [fraction_x E hc ll hz] at hxl hxu
  have hb := bound_valid E hc (at_ E ll z) (by rw [at_z]; exact hz) (by rw [at_z]; exact hyv)
  rw [at_z] at hb
  rw [hb]
  unfold InCell
  simp only
  have hxl' : ((at_ E ll z).x : α) / (2 : α) ^ z ≤ ll.x / 360 + 1 / 2 := by
    rw [div_le_iff₀ hp]; exact hxl
  have hxu' : ll.x / 360 + 1 / 2 < (((at_ E ll z).x : α) + 1) / (2 : α) ^ z := by
    rw [lt_div_iff₀ hp]; exact hxu
  have hyl' : ((at_ E ll z).y : α) / (2 : α) ^ z ≤ E.mercY ll.y := by
    rw [div_le_iff₀ hp]; exact hyl
  have hyu' : E.mercY ll.y < (((at_ E ll z).y : α) + 1) / (2 : α) ^ z := by
    rw [lt_div_iff₀ hp]; exact hyu
  refine ⟨by linarith, by linarith, ?_, ?_⟩
  · have := hlat _ _ hyu'
    rwa [h2 _ hlatlo hlathi] at this
  · have := latOf_anti E hlat hyl'
    rwa [h2 _ hlatlo hlathi] at this

/-- At the antimeridian itself the fraction is `2^z`, `uint32` gives `2^z` and the last-column clamp
    of `At` brings the column back to `2^z − 1`. -/
theorem at_x_antimeridian (E : Env α) (hc : CastExact E) (hf : FloorSpec E) (ll : Pt α) {z : Nat}
    (hz : z ≤ 31) (h180 : ll.x = 180) : (at_ E ll z).x = 2 ^ z - 1 := by
  have hpos : 0 < 2 ^ z := Nat.pos_of_ne_zero (by positivity)
  have hfx : (fraction E ll z).x = ((2 ^ z : Nat) : α) := by
    rw [fraction_x E hc ll hz, h180]; push_cast; norm_num
  have hfl : E.floorU32 (fraction E ll z).x = 2 ^ z := by
    rw [hfx]; apply hf
    · exact le_refl _
    · linarith
  apply at_x_eq E hc ll hz (2 ^ z) _ hfl
  · rw [if_pos ⟨by omega, le_refl _⟩]
  · rw [hfx]; exact_mod_cast Nat.sub_le _ _

/-- … hence also in the closed sense of `orb.Bound.Contains` — and in that sense for the whole closed
    range of longitudes `[−180, 180]`: at `lon = 180` the point lies ON the east edge of the last
    column (the clamp branch of `At`), which the half-open cell excludes and the closed bound includes. -/
theorem at_bound_contains_closed' (E : Env α) (hc : CastExact E) (hf : FloorSpec E)
    (hlat : LatOfStrictAnti E) (hanti : MercYAntitone E) (h1 : MercYLatOf E) (h2 : LatOfMercY E)
    (hin : ClampInside E)
    (ll : Pt α) (z : Nat) (hz : z ≤ 31) (hlo : -180 ≤ ll.x) (hhi : ll.x ≤ 180)
    (hlatlo : -E.latMax ≤ ll.y) (hlathi : ll.y ≤ E.latMax) :
    InBound (bound E (at_ E ll z) 0) ll := by
  rcases lt_or_eq_of_le hhi with hlt | h180
  · obtain ⟨a, b, c, d⟩ := at_bound_contains' E hc hf hlat hanti h1 h2 hin ll z hz hlo hlt hlatlo hlathi
    exact ⟨a, le_of_lt b, le_of_lt c, d⟩
  · -- the antimeridian: the same row as the point (−180, lat), the last column
    have hp := two_pow_pos (α := α) z
    have hpos : 0 < 2 ^ z := Nat.pos_of_ne_zero (by positivity)
    have hr := mercY_range E hanti h1 h2 hin _ hlatlo hlathi
    obtain ⟨hyv, hyl, hyu⟩ := at_y_spec E hc hf ll hz hlatlo hlathi hr
    have hx := at_x_antimeridian E hc hf ll hz h180
    have hb := bound_valid E hc (at_ E ll z) (by rw [at_z]; exact hz) (by rw [at_z]; exact hyv)
    rw [at_z, hx] at hb
    have hcast : (((2 ^ z - 1 : Nat)) : α) = (2 : α) ^ z - 1 := by
      rw [Nat.cast_sub hpos]; push_cast; rfl
    rw [hcast] at hb
    rw [hb]
    unfold InBound
    simp only
    have hyl' : ((at_ E ll z).y : α) / (2 : α) ^ z ≤ E.mercY ll.y := by
      rw [div_le_iff₀ hp]; exact hyl
    have hyu' : E.mercY ll.y < (((at_ E ll z).y : α) + 1) / (2 : α) ^ z := by
      rw [lt_div_iff₀ hp]; exact hyu
    have e1 : ((2 : α) ^ z - 1 + 1) / (2 : α) ^ z = 1 := by
      rw [sub_add_cancel]; exact div_self (ne_of_gt hp)
    have e0 : ((2 : α) ^ z - 1) / (2 : α) ^ z ≤ 1 := by
      rw [div_le_one hp]; linarith
    refine ⟨?_, ?_, ?_, ?_⟩
    · rw [h180]; linarith
    · rw [h180, e1]; norm_num
    · have := hlat _ _ hyu'
      rw [h2 _ hlatlo hlathi] at this
      exact le_of_lt this
    · have := latOf_anti E hlat hyl'
      rwa [h2 _ hlatlo hlathi] at this

/-! ### `Center` -/

theorem center_valid (E : Env α) (hc : CastExact E) (t : Tile) (hz : t.z ≤ 31)
    (hy : t.y < 2 ^ t.z) :
    center E t =
      ⟨360 * (((t.x : α) + 1 / 2) / (2 : α) ^ t.z - 1 / 2),
       (E.latOf (((t.y : α) + 1) / (2 : α) ^ t.z) + E.latOf ((t.y : α) / (2 : α) ^ t.z)) / 2⟩ := by
  unfold center bndCenter
  rw [bound_valid E hc t hz hy]
  simp only
  congr 1
  have hp := two_pow_pos (α := α) t.z
  field_simp
  ring

theorem center_maps_back' (E : Env α) (hc : CastExact E) (hf : FloorSpec E)
    (hlat : LatOfStrictAnti E) (hanti : MercYAntitone E) (h1 : MercYLatOf E) (h2 : LatOfMercY E)
    (t : Tile) (hz : t.z ≤ 31) (hx : t.x < 2 ^ t.z) (hy : t.y < 2 ^ t.z)
    (hclo : -E.latMax ≤ (center E t).y) (hchi : (center E t).y ≤ E.latMax) :
    at_ E (center E t) t.z = t := by
  have hp := two_pow_pos (α := α) t.z
  have hcen := center_valid E hc t hz hy
  set c := center E t with hcdef
  have hcx : c.x = 360 * (((t.x : α) + 1 / 2) / (2 : α) ^ t.z - 1 / 2) := by rw [hcen]
  have hcy : c.y = (E.latOf (((t.y : α) + 1) / (2 : α) ^ t.z) + E.latOf ((t.y : α) / (2 : α) ^ t.z)) / 2 := by
    rw [hcen]
  -- the two normalised row edges lie in [0, 1]
  have hyn0 : (0 : α) ≤ (t.y : α) / (2 : α) ^ t.z := div_nonneg (Nat.cast_nonneg _) (le_of_lt hp)
  have hyn1 : ((t.y : α) + 1) / (2 : α) ^ t.z ≤ 1 := by
    rw [div_le_one hp]; exact natCast_succ_le_two_pow hy
  have hynlt : (t.y : α) / (2 : α) ^ t.z < ((t.y : α) + 1) / (2 : α) ^ t.z :=
    div_lt_div_of_pos_right (by linarith) hp
  have hstrict := hlat _ _ hynlt
  -- the centre latitude is strictly between the two edge latitudes
  have hc_lo : E.latOf (((t.y : α) + 1) / (2 : α) ^ t.z) < c.y := by rw [hcy]; linarith
  have hc_hi : c.y < E.latOf ((t.y : α) / (2 : α) ^ t.z) := by rw [hcy]; linarith
  -- hence its ordinate is in [y/N, (y+1)/N)
  have hm_lo : (t.y : α) / (2 : α) ^ t.z ≤ E.mercY c.y := by
    have := hanti _ _ (le_of_lt hc_hi)
    rwa [h1 _ hyn0 (by linarith)] at this
  have hm_hi : E.mercY c.y < ((t.y : α) + 1) / (2 : α) ^ t.z := by
    have hle := hanti _ _ (le_of_lt hc_lo)
    rw [h1 _ (by linarith) hyn1] at hle
    rcases lt_or_eq_of_le hle with h | h
    · exact h
    · exfalso
      have := h2 c.y hclo hchi
      rw [h] at this
      rw [this] at hc_lo
      exact lt_irrefl _ hc_lo
  -- x: the fraction is x + 1/2
  have hfx : (fraction E c t.z).x = (t.x : α) + 1 / 2 := by
    rw [fraction_x E hc c hz, hcx]
    field_simp
    ring
  have hflx : E.floorU32 (fraction E c t.z).x = t.x := by
    rw [hfx]; apply hf <;> linarith
  have hfy : (fraction E c t.z).y = E.mercY c.y * (2 : α) ^ t.z :=
    fraction_y_mid E hc c hz hclo hchi
  have hfly : E.floorU32 (fraction E c t.z).y = t.y := by
    rw [hfy]; apply hf
    · rwa [div_le_iff₀ hp] at hm_lo
    · rwa [lt_div_iff₀ hp] at hm_hi
  have hxx : (at_ E c t.z).x = t.x := by
    apply at_x_eq E hc c hz t.x _ hflx
    · rw [if_neg]; omega
    · rw [hfx]; linarith
  have hyy : (at_ E c t.z).y = t.y := by rw [at_y, hfly]
  exact tile_ext hxx hyy rfl

/-! ### neighbours and children -/

/-- The east edge of a tile and the west edge of its right neighbour, the south edge of a tile and
    the north edge of the tile below: each pair is `ToGeo` of the SAME integer corner.  Stated for
    every carrier with POINTWISE hypotheses — only the two conversions `float64(x+1)`, `float64(y+1)` and
    the four sums/differences with `0.0` that the two `Bound` calls actually perform.  (A global
    `∀ n, ofNat (n+1) = ofNat n + 1` is false in float64 from `n = 2^53 + 1` on, and a global
    `∀ a, a + 0 = a` is false bitwise at `a = −0.0`; pointwise, at tile coordinates `< 2^32` and at
    `float64(x) + 1 ≥ 1`, they are true of float64 and of every field.) -/
theorem neighbours_share_edges_gen {β : Type} [Add β] [Sub β] [Mul β] [Div β] [Neg β] [LT β] [DecidableLT β]
    [OfNat β 0] [OfNat β 1] [OfNat β 2] [OfNat β 90] [OfNat β 180] [OfNat β 360]
    (E : Env β) (t : Tile)
    (hsuccx : E.ofNat (t.x + 1) = E.ofNat t.x + 1)
    (hsuccy : E.ofNat (t.y + 1) = E.ofNat t.y + 1)
    (hadd0x : E.ofNat t.x + 1 + 0 = E.ofNat t.x + 1)
    (hadd0y : E.ofNat t.y + 1 + 0 = E.ofNat t.y + 1)
    (hsub0x : E.ofNat t.x + 1 - 0 = E.ofNat t.x + 1)
    (hsub0y : E.ofNat t.y + 1 - 0 = E.ofNat t.y + 1)
    (hnoclampN : ¬ (maxTiles32 E t.z < E.ofNat t.y + 1))
    (hnoclamp0 : ¬ (E.ofNat t.y + 1 < 0)) :
    (bound E t 0).max.x = (bound E ⟨t.x + 1, t.y, t.z⟩ 0).min.x ∧
    (bound E t 0).min.y = (bound E ⟨t.x, t.y + 1, t.z⟩ 0).max.y := by
  constructor
  · simp only [bound, toGeo, hsuccx, hadd0x, hsub0x]
  · simp only [bound, toGeo, hsuccy, hadd0y, hsub0y, if_neg hnoclampN, if_neg hnoclamp0]

theorem neighbours_share_edges' (E : Env α) (hc : CastExact E) (t : Tile) (hz : t.z ≤ 31)
    (hy : t.y + 1 ≤ 2 ^ t.z) :
    (bound E t 0).max.x = (bound E ⟨t.x + 1, t.y, t.z⟩ 0).min.x ∧
    (bound E t 0).min.y = (bound E ⟨t.x, t.y + 1, t.z⟩ 0).max.y := by
  apply neighbours_share_edges_gen E t
  · rw [hc, hc]; push_cast; rfl
  · rw [hc, hc]; push_cast; rfl
  · exact add_zero _
  · exact add_zero _
  · exact sub_zero _
  · exact sub_zero _
  · rw [maxTiles32_eq E hc hz, hc]
    exact not_lt.mpr (natCast_succ_le_two_pow hy)
  · rw [hc]
    have : (0 : α) ≤ (t.y : α) := Nat.cast_nonneg _
    exact not_lt.mpr (by linarith)

/-! A carrier that is NOT a field and whose conversion saturates (as `float64` loses `+ 1` above `2^53`):
    `Int` with `ofNat n = min n 2^53`.  The GLOBAL successor law fails in it, the pointwise hypotheses of
    `neighbours_share_edges_gen` hold for every tile with coordinates below `2^53` — so the pointwise
    statement applies where the former global one was vacuous. -/

/-- saturating conversion on `Int` -/
def satEnv : Env Int where
  mercY := fun a => a
  latOf := fun a => a
  floorU32 := fun a => a.toNat
  ofNat := fun n => ((min n (2 ^ 53) : Nat) : Int)
  latMax := 85

theorem satEnv_not_global_succ : ¬ ∀ n : Nat, satEnv.ofNat (n + 1) = satEnv.ofNat n + 1 := by
  intro h
  have := h (2 ^ 53)
  simp only [satEnv] at this
  omega

theorem satEnv_pointwise (t : Tile) (hx : t.x < 2 ^ 53) (hy : t.y + 1 ≤ 2 ^ t.z) (hz : t.z ≤ 31) :
    (bound satEnv t 0).max.x = (bound satEnv ⟨t.x + 1, t.y, t.z⟩ 0).min.x ∧
    (bound satEnv t 0).min.y = (bound satEnv ⟨t.x, t.y + 1, t.z⟩ 0).max.y := by
  have h31 : 2 ^ t.z ≤ 2 ^ 31 := Nat.pow_le_pow_right (by decide) hz
  have hm : maxTiles32 satEnv t.z = ((2 ^ t.z : Nat) : Int) := by
    simp only [maxTiles32, satEnv, shl32_one hz]
    congr 1
    omega
  apply neighbours_share_edges_gen satEnv t
  · simp only [satEnv]; omega
  · simp only [satEnv]; omega
  · exact Int.add_zero _
  · exact Int.add_zero _
  · exact Int.sub_zero _
  · exact Int.sub_zero _
  · rw [hm]; simp only [satEnv]; omega
  · simp only [satEnv]; omega

theorem children_eq (t : Tile) (hz : t.z ≤ 30) (hx : t.x < 2 ^ t.z) (hy : t.y < 2 ^ t.z) :
    children t =
      [⟨2 * t.x, 2 * t.y, t.z + 1⟩, ⟨2 * t.x + 1, 2 * t.y, t.z + 1⟩,
       ⟨2 * t.x + 1, 2 * t.y + 1, t.z + 1⟩, ⟨2 * t.x, 2 * t.y + 1, t.z + 1⟩] := by
  have hp : 2 ^ t.z ≤ 2 ^ 30 := two_pow_le_30 hz
  have hsx : shl32 t.x 1 = 2 * t.x := by rw [shl32_eq (by omega)]; omega
  have hsy : shl32 t.y 1 = 2 * t.y := by rw [shl32_eq (by omega)]; omega
  have hz1 : add32 t.z 1 = t.z + 1 := by unfold add32 W32; omega
  have hax : add32 (2 * t.x) 1 = 2 * t.x + 1 := by unfold add32 W32; omega
  have hay : add32 (2 * t.y) 1 = 2 * t.y + 1 := by unfold add32 W32; omega
  simp only [children, hsx, hsy, hz1, hax, hay]

/-- the meridian / parallel through the middle of a tile, as `ToGeo` sees it one zoom down -/
def midLon (t : Tile) : α := 360 * (((t.x : α) + 1 / 2) / (2 : α) ^ t.z - 1 / 2)
def midLat (E : Env α) (t : Tile) : α := E.latOf (((t.y : α) + 1 / 2) / (2 : α) ^ t.z)

theorem children_bounds' (E : Env α) (hc : CastExact E) (t : Tile) (hz : t.z ≤ 30)
    (hx : t.x < 2 ^ t.z) (hy : t.y < 2 ^ t.z) :
    (children t).map (fun c => bound E c 0) =
      let b := bound E t 0
      let mx : α := midLon t
      let my : α := midLat E t
      [ ⟨⟨b.min.x, my⟩, ⟨mx, b.max.y⟩⟩,     -- (2x,   2y)   north-west
        ⟨⟨mx, my⟩, ⟨b.max.x, b.max.y⟩⟩,     -- (2x+1, 2y)   north-east
        ⟨⟨mx, b.min.y⟩, ⟨b.max.x, my⟩⟩,     -- (2x+1, 2y+1) south-east
        ⟨⟨b.min.x, b.min.y⟩, ⟨mx, my⟩⟩ ] := by  -- (2x, 2y+1) south-west
  have hp := two_pow_pos (α := α) t.z
  have hpn : (2 : α) ^ t.z ≠ 0 := ne_of_gt hp
  have hN : 2 ^ (t.z + 1) = 2 * 2 ^ t.z := by rw [Nat.pow_succ]; omega
  rw [children_eq t hz hx hy]
  simp only [List.map]
  rw [bound_valid E hc ⟨2 * t.x, 2 * t.y, t.z + 1⟩ (by simp only; omega) (by simp only; omega),
    bound_valid E hc ⟨2 * t.x + 1, 2 * t.y, t.z + 1⟩ (by simp only; omega) (by simp only; omega),
    bound_valid E hc ⟨2 * t.x + 1, 2 * t.y + 1, t.z + 1⟩ (by simp only; omega) (by simp only; omega),
    bound_valid E hc ⟨2 * t.x, 2 * t.y + 1, t.z + 1⟩ (by simp only; omega) (by simp only; omega),
    bound_valid E hc t (by omega) hy]
  -- the field identity `x / 2^z = (2x) / 2^(z+1)` in its four instances
  have e1 : ((2 * t.x : Nat) : α) / (2 : α) ^ (t.z + 1) = (t.x : α) / (2 : α) ^ t.z := by
    push_cast; rw [pow_succ]; field_simp
  have e2 : (((2 * t.x : Nat) : α) + 1) / (2 : α) ^ (t.z + 1) = ((t.x : α) + 1 / 2) / (2 : α) ^ t.z := by
    push_cast; rw [pow_succ]; field_simp
  have e3 : (((2 * t.x + 1 : Nat) : α)) / (2 : α) ^ (t.z + 1) = ((t.x : α) + 1 / 2) / (2 : α) ^ t.z := by
    push_cast; rw [pow_succ]; field_simp
  have e4 : (((2 * t.x + 1 : Nat) : α) + 1) / (2 : α) ^ (t.z + 1) = ((t.x : α) + 1) / (2 : α) ^ t.z := by
    push_cast; rw [pow_succ]; field_simp; ring
  have f1 : ((2 * t.y : Nat) : α) / (2 : α) ^ (t.z + 1) = (t.y : α) / (2 : α) ^ t.z := by
    push_cast; rw [pow_succ]; field_simp
  have f2 : (((2 * t.y : Nat) : α) + 1) / (2 : α) ^ (t.z + 1) = ((t.y : α) + 1 / 2) / (2 : α) ^ t.z := by
    push_cast; rw [pow_succ]; field_simp
  have f3 : (((2 * t.y + 1 : Nat) : α)) / (2 : α) ^ (t.z + 1) = ((t.y : α) + 1 / 2) / (2 : α) ^ t.z := by
    push_cast; rw [pow_succ]; field_simp
  have f4 : (((2 * t.y + 1 : Nat) : α) + 1) / (2 : α) ^ (t.z + 1) = ((t.y : α) + 1) / (2 : α) ^ t.z := by
    push_cast; rw [pow_succ]; field_simp; ring
  simp only [e1, e2, e3, e4, f1, f2, f3, f4, midLon, midLat]

/-- The midlines are strictly inside the parent's bound. -/
theorem mid_strict (E : Env α) (hc : CastExact E) (hlat : LatOfStrictAnti E) (t : Tile) (hz : t.z ≤ 31)
    (hy : t.y < 2 ^ t.z) :
    (bound E t 0).min.x < midLon t ∧ midLon t < (bound E t 0).max.x ∧
    (bound E t 0).min.y < midLat E t ∧ midLat E t < (bound E t 0).max.y := by
  have hp := two_pow_pos (α := α) t.z
  rw [bound_valid E hc t hz hy]
  simp only [midLon, midLat]
  have a1 : (t.x : α) / (2 : α) ^ t.z < ((t.x : α) + 1 / 2) / (2 : α) ^ t.z :=
    div_lt_div_of_pos_right (by linarith) hp
  have a2 : ((t.x : α) + 1 / 2) / (2 : α) ^ t.z < ((t.x : α) + 1) / (2 : α) ^ t.z :=
    div_lt_div_of_pos_right (by linarith) hp
  have b1 : (t.y : α) / (2 : α) ^ t.z < ((t.y : α) + 1 / 2) / (2 : α) ^ t.z :=
    div_lt_div_of_pos_right (by linarith) hp
  have b2 : ((t.y : α) + 1 / 2) / (2 : α) ^ t.z < ((t.y : α) + 1) / (2 : α) ^ t.z :=
    div_lt_div_of_pos_right (by linarith) hp
  exact ⟨by linarith, by linarith, hlat _ _ b2, hlat _ _ b1⟩

/-- The children's cells partition the parent's cell: a point is in the parent's cell iff it is in
    a child's cell, and then in exactly one (the cells of two children at different list positions are disjoint). -/
theorem children_cells_partition' (E : Env α) (hc : CastExact E) (hlat : LatOfStrictAnti E)
    (t : Tile) (hz : t.z ≤ 30) (hx : t.x < 2 ^ t.z) (hy : t.y < 2 ^ t.z) (p : Pt α) :
    (InCell (bound E t 0) p ↔ ∃ c ∈ children t, InCell (bound E c 0) p) ∧
    (children t).Pairwise (fun a b => ¬ (InCell (bound E a 0) p ∧ InCell (bound E b 0) p)) := by
  have hcb := children_bounds' E hc t hz hx hy
  obtain ⟨m1, m2, m3, m4⟩ := mid_strict E hc hlat t (by omega) hy
  have hce := children_eq t hz hx hy
  rw [hce] at hcb ⊢
  simp only [List.map, List.cons.injEq, and_true] at hcb
  obtain ⟨hb0, hb1, hb2, hb3⟩ := hcb
  constructor
  · simp only [List.mem_cons, List.not_mem_nil, or_false, exists_eq_or_imp, exists_eq_left]
    rw [hb0, hb1, hb2, hb3]
    unfold InCell
    simp only
    constructor
    · rintro ⟨h1, h2, h3, h4⟩
      by_cases hxm : p.x < midLon t <;> by_cases hym : midLat E t < p.y
      · exact Or.inl ⟨h1, hxm, hym, h4⟩
      · exact Or.inr (Or.inr (Or.inr ⟨h1, hxm, h3, not_lt.mp hym⟩))
      · exact Or.inr (Or.inl ⟨not_lt.mp hxm, h2, hym, h4⟩)
      · exact Or.inr (Or.inr (Or.inl ⟨not_lt.mp hxm, h2, h3, not_lt.mp hym⟩))
    · rintro (⟨h1, h2, h3, h4⟩ | ⟨h1, h2, h3, h4⟩ | ⟨h1, h2, h3, h4⟩ | ⟨h1, h2, h3, h4⟩)
      · exact ⟨h1, by linarith, by linarith, h4⟩
      · exact ⟨by linarith, h2, by linarith, h4⟩
      · exact ⟨by linarith, h2, h3, by linarith⟩
      · exact ⟨h1, by linarith, h3, by linarith⟩
  · simp only [List.pairwise_cons, List.mem_cons, List.not_mem_nil, or_false, forall_eq_or_imp,
      forall_eq, List.Pairwise.nil, and_true, false_imp_iff, implies_true]
    rw [hb0, hb1, hb2, hb3]
    unfold InCell
    simp only
    refine ⟨⟨?_, ?_, ?_⟩, ⟨?_, ?_⟩, ?_⟩ <;>
      (rintro ⟨⟨a1, a2, a3, a4⟩, ⟨c1, c2, c3, c4⟩⟩; linarith)

/-! ### the polar rows (known finding C13-polar-clamp-center) -/

/-- A tile whose centre latitude is beyond the clamp is sent to the edge row, so unless it IS in the
    edge row its centre does not map back. -/
theorem center_polar_rows_fail' (E : Env α) (hc : CastExact E) (hf : FloorSpec E) (hm : LatMaxNonneg E)
    (t : Tile) (hz : t.z ≤ 31) :
    (E.latMax < (center E t).y → t.y ≠ 0 → at_ E (center E t) t.z ≠ t) ∧
    ((center E t).y < -E.latMax → t.y ≠ 2 ^ t.z - 1 → at_ E (center E t) t.z ≠ t) := by
  obtain ⟨hs, hn⟩ := at_clamped_row' E hc hf hm (center E t) t.z hz
  constructor
  · intro h hy he
    have := hn h
    rw [he] at this
    exact hy this
  · intro h hy he
    have := hs h
    rw [he] at this
    exact hy this

end lemmas

/-! ### a concrete environment: non-vacuity of the hypotheses, witness of the polar finding -/

/-- A toy "projection" over ℚ with all the named properties: the affine pair
    `latOf y = 90 − 180·y`, `mercY φ = 1/2 − φ/180`, exact casts, the true floor, clamp at 85.0511. -/
def toyEnv : Env ℚ where
  mercY := fun φ => 1 / 2 - φ / 180
  latOf := fun y => 90 - 180 * y
  floorU32 := fun x => (⌊x⌋).toNat
  ofNat := fun n => (n : ℚ)
  latMax := 850511 / 10000

theorem toyEnv_hyps :
    CastExact toyEnv ∧ FloorSpec toyEnv ∧ LatMaxNonneg toyEnv ∧ LatOfStrictAnti toyEnv ∧
    MercYAntitone toyEnv ∧ MercYLatOf toyEnv ∧ LatOfMercY toyEnv ∧ ClampInside toyEnv := by
  refine ⟨fun _ => rfl, ?_, ?_, ?_, ?_, ?_, ?_, ?_⟩
  · intro x n h1 h2
    have : ⌊x⌋ = (n : ℤ) := by
      rw [Int.floor_eq_iff]; exact ⟨by exact_mod_cast h1, by exact_mod_cast h2⟩
    simp only [toyEnv, this, Int.toNat_natCast]
  · unfold LatMaxNonneg toyEnv; norm_num
  · intro a b h; simp only [toyEnv]; linarith
  · intro a b h; simp only [toyEnv]
    have : a / 180 ≤ b / 180 := div_le_div_of_nonneg_right h (by norm_num)
    linarith
  · intro y _ _; simp only [toyEnv]; ring
  · intro φ _ _; simp only [toyEnv]; ring
  · unfold ClampInside toyEnv; norm_num

/-- The hypotheses do NOT imply the full statement: in the toy environment the tile (0,1,6) lies
    wholly north of the clamp latitude (its centre is at 85.78125 > 85.0511) and its centre is sent
    to row 0.  For the real code the first such rows appear at zoom 18, e.g. tile (950460,1,21):
    known finding C13-polar-clamp-center, replayed by `./check C13`. -/
theorem center_maps_back_full_fails' :
    ∃ E : Env ℚ, (CastExact E ∧ FloorSpec E ∧ LatMaxNonneg E ∧ LatOfStrictAnti E ∧
      MercYAntitone E ∧ MercYLatOf E ∧ LatOfMercY E ∧ ClampInside E) ∧
      ¬ (∀ t : Tile, t.z ≤ 30 → t.x < 2 ^ t.z → t.y < 2 ^ t.z → at_ E (center E t) t.z = t) := by
  refine ⟨toyEnv, toyEnv_hyps, ?_⟩
  intro hfull
  obtain ⟨hc, hf, hm, -⟩ := toyEnv_hyps
  have ht := hfull ⟨0, 1, 6⟩ (by decide) (by decide) (by decide)
  have hcen := center_valid toyEnv hc ⟨0, 1, 6⟩ (by decide) (by decide)
  have hlat : toyEnv.latMax < (center toyEnv ⟨0, 1, 6⟩).y := by
    rw [hcen]; simp only [toyEnv]; norm_num
  exact (center_polar_rows_fail' toyEnv hc hf hm ⟨0, 1, 6⟩ (by decide)).1 hlat (by decide) ht

theorem at_toy_example : at_ toyEnv ⟨180, 0⟩ 3 = ⟨7, 4, 3⟩ := by
  obtain ⟨_, hf, -⟩ := toyEnv_hyps
  have hs : shl32 1 3 = 8 := by decide
  have hfx : (fraction toyEnv ⟨180, 0⟩ 3).x = 8 := by
    simp only [fraction, maxTiles32, toyEnv, hs]; norm_num
  have hfy : (fraction toyEnv ⟨180, 0⟩ 3).y = 4 := by
    simp only [fraction, maxTiles32, toyEnv, hs]; norm_num
  have hx : toyEnv.floorU32 (fraction toyEnv ⟨180, 0⟩ 3).x = 8 := by
    rw [hfx]; apply hf <;> norm_num
  have hy : toyEnv.floorU32 (fraction toyEnv ⟨180, 0⟩ 3).y = 4 := by
    rw [hfy]; apply hf <;> norm_num
  obtain ⟨hc, -⟩ := toyEnv_hyps
  have hxx : (at_ toyEnv ⟨180, 0⟩ 3).x = 7 := by
    apply at_x_eq toyEnv hc ⟨180, 0⟩ (by decide) 8 _ hx
    · decide
    · rw [hfx]; norm_num
  have hyy : (at_ toyEnv ⟨180, 0⟩ 3).y = 4 := by rw [at_y, hy]
  exact tile_ext hxx hyy rfl

end Orb.TileGeo
