/-
  C08: the statement `ring_vertices_on_input'` is FALSE of the model.  A kernel-checked counterexample
  over ℚ: a triangle that contains the box corner (0,0) in its interior.  Sutherland–Hodgman emits the
  corner, which is neither an input vertex nor on a segment between two input vertices.
-/
import OrbProofs.C08Ring
import Mathlib.Algebra.Order.Field.Rat
import Mathlib.Tactic.NormNum

namespace Orb.Clip.C08
open Orb Orb.Core Generated.Params

set_option linter.unusedSimpArgs false

/-- the box `[0,2]²` -/
def cxBox : Bound ℚ := ⟨⟨0, 0⟩, ⟨2, 2⟩⟩
/-- a closed triangle with the corner `(0,0)` in its interior -/
def cxInp : List (Pt ℚ) := [⟨-3, 1⟩, ⟨1, -3⟩, ⟨1, 1⟩, ⟨-3, 1⟩]

theorem cx_ring : ring cxBox cxInp = some [⟨0, 0⟩, ⟨1, 0⟩, ⟨1, 1⟩, ⟨0, 1⟩, ⟨0, 0⟩] := by
  have hic : ptEqB (⟨-3, 1⟩ : Pt ℚ) (cxInp.getLast?.getD ⟨-3, 1⟩) = true := by
    rw [ptEqB_iff]; rfl
  unfold cxInp at *
  rw [ring_cons_eq, hic]
  have p1 : rpass cxBox true 1 (some [⟨-3, 1⟩, ⟨1, -3⟩, ⟨1, 1⟩, ⟨-3, 1⟩]) =
      some [⟨0, -2⟩, ⟨1, -3⟩, ⟨1, 1⟩, ⟨0, 1⟩] := by
    simp only [rpass]
    rw [ringPass_eq _ 1 _ (intersect_1 _)]
    simp [passL, emit, ins_1m, cxBox]
    norm_num
  rw [p1]
  have p2 : rpass cxBox true 2 (some [⟨0, -2⟩, ⟨1, -3⟩, ⟨1, 1⟩, ⟨0, 1⟩]) =
      some [⟨0, -2⟩, ⟨1, -3⟩, ⟨1, 1⟩, ⟨0, 1⟩] := by
    simp only [rpass]
    rw [ringPass_eq _ 2 _ (intersect_2 _)]
    simp [passL, emit, ins_2', cxBox]
  rw [p2]
  have p3 : rpass cxBox true 4 (some [⟨0, -2⟩, ⟨1, -3⟩, ⟨1, 1⟩, ⟨0, 1⟩]) =
      some [⟨0, 0⟩, ⟨1, 0⟩, ⟨1, 1⟩, ⟨0, 1⟩] := by
    simp only [rpass]
    rw [ringPass_eq _ 4 _ (intersect_4 _)]
    simp [passL, emit, ins_4', cxBox]
    norm_num
  rw [p3]
  have p4 : rpass cxBox true 8 (some [⟨0, 0⟩, ⟨1, 0⟩, ⟨1, 1⟩, ⟨0, 1⟩]) =
      some [⟨0, 0⟩, ⟨1, 0⟩, ⟨1, 1⟩, ⟨0, 1⟩] := by
    simp only [rpass]
    rw [ringPass_eq _ 8 _ (intersect_8 _)]
    simp [passL, emit, ins_8', cxBox]
  rw [p4]
  simp [rclose, ptEqB]

theorem cx_not_on_input :
    ¬ ((⟨0, 0⟩ : Pt ℚ) ∈ cxInp ∨ ∃ a ∈ cxInp, ∃ b ∈ cxInp, OnSeg a b (⟨0, 0⟩ : Pt ℚ)) := by
  rintro (h | ⟨a, ha, b, hb, t, h0, h1, ht⟩)
  · simp [cxInp] at h
  · simp only [cxInp, List.mem_cons, List.not_mem_nil, or_false] at ha hb
    simp only [lerp, Pt.mk.injEq] at ht
    obtain ⟨hx, hy⟩ := ht
    rcases ha with rfl | rfl | rfl | rfl <;> rcases hb with rfl | rfl | rfl | rfl <;>
      simp only [] at hx hy <;> linarith

/-- `ring_vertices_on_input'` (as stated in C08Lemmas/C08) does not hold. -/
theorem ring_vertices_on_input_false :
    ¬ ∀ (box : Bound ℚ), BoxOK box → ∀ (inp out : List (Pt ℚ)), ring box inp = some out →
      ∀ v ∈ out, v ∈ inp ∨ ∃ a ∈ inp, ∃ b ∈ inp, OnSeg a b v := by
  intro h
  have hb : BoxOK cxBox := by simp [BoxOK, cxBox]
  exact cx_not_on_input (h cxBox hb cxInp _ cx_ring ⟨0, 0⟩ (by simp))

end Orb.Clip.C08
