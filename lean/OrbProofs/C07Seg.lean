/-
  C07, segment level: vocabulary, the parametrisation `lerp`, the four half-plane excesses `exc`,
  region codes, `intersect`, and the specification of the inner loop `segLoop` (both modes).
-/
import Orb.Clip
import OrbProofs.ClipLoop
import Mathlib.Algebra.Order.Field.Basic
import Mathlib.Tactic.Linarith
import Mathlib.Tactic.Ring
import Mathlib.Tactic.FieldSimp

set_option linter.unusedSectionVars false

namespace Orb.Clip
open Orb Orb.Core Generated.Params

/-! ### spec-side vocabulary -/

section vocab
variable {α : Type} [Field α] [LinearOrder α] [IsStrictOrderedRing α]

/-- the box has positive width and height (the property's quantifier) -/
def BoxOK (box : Bound α) : Prop := box.lo.x < box.hi.x ∧ box.lo.y < box.hi.y

/-- closed-box membership -/
def InBox (box : Bound α) (p : Pt α) : Prop :=
  box.lo.x ≤ p.x ∧ p.x ≤ box.hi.x ∧ box.lo.y ≤ p.y ∧ p.y ≤ box.hi.y

/-- open-box membership -/
def InOpenBox (box : Bound α) (p : Pt α) : Prop :=
  box.lo.x < p.x ∧ p.x < box.hi.x ∧ box.lo.y < p.y ∧ p.y < box.hi.y

/-- the point at parameter `t` of the segment `a b` -/
def lerp (a b : Pt α) (t : α) : Pt α := ⟨a.x + t * (b.x - a.x), a.y + t * (b.y - a.y)⟩

/-- `q` lies on the closed segment `a b` -/
def OnSeg (a b q : Pt α) : Prop := ∃ t, 0 ≤ t ∧ t ≤ 1 ∧ q = lerp a b t

/-- consecutive vertex pairs of a path -/
def segsOf : List (Pt α) → List (Pt α × Pt α)
  | a :: b :: rest => (a, b) :: segsOf (b :: rest)
  | _ => []

/-- `q` lies on the polyline `ps` (a path with fewer than two vertices has no points) -/
def OnPath (ps : List (Pt α)) (q : Pt α) : Prop := ∃ s ∈ segsOf ps, OnSeg s.1 s.2 q

/-- `q` lies on one of the pieces -/
def OnPieces (out : List (List (Pt α))) (q : Pt α) : Prop := ∃ piece ∈ out, OnPath piece q

end vocab

variable {α : Type} [Field α] [LinearOrder α] [IsStrictOrderedRing α]

/-! ### points, `lerp`, `OnSeg` -/

theorem pt_eq {p q : Pt α} (hx : p.x = q.x) (hy : p.y = q.y) : p = q := by
  cases p; cases q; simp_all

@[simp] theorem lerp_x (a b : Pt α) (t : α) : (lerp a b t).x = a.x + t * (b.x - a.x) := rfl
@[simp] theorem lerp_y (a b : Pt α) (t : α) : (lerp a b t).y = a.y + t * (b.y - a.y) := rfl

theorem lerp_zero (a b : Pt α) : lerp a b 0 = a := by
  apply pt_eq <;> simp

theorem lerp_one (a b : Pt α) : lerp a b 1 = b := by
  apply pt_eq <;> simp

theorem lerp_lerp (a b : Pt α) (s e t : α) :
    lerp (lerp a b s) (lerp a b e) t = lerp a b (s + t * (e - s)) := by
  apply pt_eq <;> simp only [lerp_x, lerp_y] <;> ring

theorem onSeg_left (a b : Pt α) : OnSeg a b a := ⟨0, le_refl _, zero_le_one, (lerp_zero a b).symm⟩
theorem onSeg_right (a b : Pt α) : OnSeg a b b := ⟨1, zero_le_one, le_refl _, (lerp_one a b).symm⟩

theorem onSeg_lerp (a b : Pt α) {t : α} (h0 : 0 ≤ t) (h1 : t ≤ 1) : OnSeg a b (lerp a b t) :=
  ⟨t, h0, h1, rfl⟩

/-- a sub-segment of a segment lies on the segment -/
theorem OnSeg.sub {a b a' b' q : Pt α} (ha : OnSeg a b a') (hb : OnSeg a b b')
    (hq : OnSeg a' b' q) : OnSeg a b q := by
  obtain ⟨s, hs0, hs1, rfl⟩ := ha
  obtain ⟨e, he0, he1, rfl⟩ := hb
  obtain ⟨t, ht0, ht1, rfl⟩ := hq
  refine ⟨s + t * (e - s), ?_, ?_, lerp_lerp a b s e t⟩
  · nlinarith [mul_nonneg ht0 he0, mul_nonneg (sub_nonneg.2 ht1) hs0]
  · nlinarith [mul_nonneg ht0 (sub_nonneg.2 he1), mul_nonneg (sub_nonneg.2 ht1) (sub_nonneg.2 hs1)]

/-- a parameter between `s` and `e` gives a point of the sub-segment -/
theorem onSeg_between (a b : Pt α) {s e t : α} (hst : s ≤ t) (hte : t ≤ e) :
    OnSeg (lerp a b s) (lerp a b e) (lerp a b t) := by
  rcases eq_or_lt_of_le (le_trans hst hte) with hse | hse
  · have : t = s := le_antisymm (hse ▸ hte) hst
    subst this
    exact onSeg_left _ _
  · have hpos : 0 < e - s := sub_pos.2 hse
    refine ⟨(t - s) / (e - s), div_nonneg (sub_nonneg.2 hst) hpos.le, ?_, ?_⟩
    · rw [div_le_one hpos]; linarith
    · rw [lerp_lerp]
      congr 1
      field_simp
      ring

/-! ### the four half-planes -/

/-- signed excess of `p` over the edge `k` (8 top, 4 bottom, 2 right, 1 left): positive = strictly
    beyond the edge, zero = on its line -/
def exc (box : Bound α) (k : Nat) (p : Pt α) : α :=
  if k = 8 then p.y - box.hi.y else if k = 4 then box.lo.y - p.y
  else if k = 2 then p.x - box.hi.x else box.lo.x - p.x

def Edge (k : Nat) : Prop := k = 8 ∨ k = 4 ∨ k = 2 ∨ k = 1

theorem exc_lerp (box : Bound α) (k : Nat) (a b : Pt α) (t : α) :
    exc box k (lerp a b t) = (1 - t) * exc box k a + t * exc box k b := by
  unfold exc lerp; split_ifs <;> ring

theorem inBox_iff {box : Bound α} {p : Pt α} : InBox box p ↔ ∀ k, Edge k → exc box k p ≤ 0 := by
  constructor
  · rintro ⟨h1, h2, h3, h4⟩ k (rfl | rfl | rfl | rfl) <;> simp [exc] <;> linarith
  · intro h
    have h8 := h 8 (Or.inl rfl)
    have h4 := h 4 (Or.inr (Or.inl rfl))
    have h2 := h 2 (Or.inr (Or.inr (Or.inl rfl)))
    have h1 := h 1 (Or.inr (Or.inr (Or.inr rfl)))
    simp [exc] at h8 h4 h2 h1
    exact ⟨h1, h2, h4, h8⟩

theorem inOpenBox_iff {box : Bound α} {p : Pt α} :
    InOpenBox box p ↔ ∀ k, Edge k → exc box k p < 0 := by
  constructor
  · rintro ⟨h1, h2, h3, h4⟩ k (rfl | rfl | rfl | rfl) <;> simp [exc] <;> linarith
  · intro h
    have h8 := h 8 (Or.inl rfl)
    have h4 := h 4 (Or.inr (Or.inl rfl))
    have h2 := h 2 (Or.inr (Or.inr (Or.inl rfl)))
    have h1 := h 1 (Or.inr (Or.inr (Or.inr rfl)))
    simp [exc] at h8 h4 h2 h1
    exact ⟨h1, h2, h4, h8⟩

theorem InOpenBox.inBox {box : Bound α} {p : Pt α} (h : InOpenBox box p) : InBox box p :=
  ⟨h.1.le, h.2.1.le, h.2.2.1.le, h.2.2.2.le⟩

/-- the closed box is convex -/
theorem inBox_lerp {box : Bound α} {a b : Pt α} (ha : InBox box a) (hb : InBox box b) {t : α}
    (h0 : 0 ≤ t) (h1 : t ≤ 1) : InBox box (lerp a b t) := by
  rw [inBox_iff] at *
  intro k hk
  rw [exc_lerp]
  nlinarith [mul_nonneg (sub_nonneg.2 h1) (neg_nonneg.2 (ha k hk)), mul_nonneg h0 (neg_nonneg.2 (hb k hk))]

theorem inBox_of_onSeg {box : Bound α} {a b q : Pt α} (ha : InBox box a) (hb : InBox box b)
    (hq : OnSeg a b q) : InBox box q := by
  obtain ⟨t, h0, h1, rfl⟩ := hq
  exact inBox_lerp ha hb h0 h1

/-! ### region codes -/

/-- weak reading of a code, shared by `bitCode` and `bitCodeOpen`: a set bit puts the point weakly
    beyond that edge, a clear bit weakly within it -/
def W (box : Bound α) (c : Nat) (p : Pt α) : Prop :=
  c < 16 ∧ ∀ k, Edge k → (c &&& k ≠ 0 → 0 ≤ exc box k p) ∧ (c &&& k = 0 → exc box k p ≤ 0)

theorem bitCode_lt (box : Bound α) (p : Pt α) : bitCode box p < 16 := by
  unfold bitCode
  simp only [clip_codeLeft, clip_codeRight, clip_codeBottom, clip_codeTop]
  split_ifs <;> decide

theorem bitCodeOpen_lt (box : Bound α) (p : Pt α) : bitCodeOpen box p < 16 := by
  unfold bitCodeOpen
  simp only [clip_codeLeft, clip_codeRight, clip_codeBottom, clip_codeTop]
  split_ifs <;> decide

/-- closed code: bit set ↔ strictly beyond the edge -/
theorem bitCode_bit {box : Bound α} (hb : BoxOK box) (p : Pt α) {k : Nat} (hk : Edge k) :
    bitCode box p &&& k ≠ 0 ↔ 0 < exc box k p := by
  obtain ⟨hx, hy⟩ := hb
  rcases hk with rfl | rfl | rfl | rfl <;>
    simp only [bitCode, exc, clip_codeLeft, clip_codeRight, clip_codeBottom, clip_codeTop] <;>
    split_ifs <;>
    (constructor
     · intro h; first | linarith | exact absurd h (by decide)
     · intro h; first | decide | (exfalso; linarith))

/-- open code: bit set ↔ weakly beyond the edge -/
theorem bitCodeOpen_bit {box : Bound α} (hb : BoxOK box) (p : Pt α) {k : Nat} (hk : Edge k) :
    bitCodeOpen box p &&& k ≠ 0 ↔ 0 ≤ exc box k p := by
  obtain ⟨hx, hy⟩ := hb
  rcases hk with rfl | rfl | rfl | rfl <;>
    simp only [bitCodeOpen, exc, clip_codeLeft, clip_codeRight, clip_codeBottom, clip_codeTop] <;>
    split_ifs <;>
    (constructor
     · intro h; first | linarith | exact absurd h (by decide)
     · intro h; first | decide | (exfalso; linarith))

theorem W_bitCode {box : Bound α} (hb : BoxOK box) (p : Pt α) : W box (bitCode box p) p := by
  refine ⟨bitCode_lt box p, fun k hk => ⟨fun h => ((bitCode_bit hb p hk).1 h).le, fun h => ?_⟩⟩
  by_contra hc
  exact (bitCode_bit hb p hk).2 (not_le.1 hc) h

theorem W_bitCodeOpen {box : Bound α} (hb : BoxOK box) (p : Pt α) : W box (bitCodeOpen box p) p := by
  refine ⟨bitCodeOpen_lt box p, fun k hk => ⟨fun h => (bitCodeOpen_bit hb p hk).1 h, fun h => ?_⟩⟩
  by_contra hc
  exact (bitCodeOpen_bit hb p hk).2 (not_le.1 hc).le h

theorem W_zero_inBox {box : Bound α} {p : Pt α} (h : W box 0 p) : InBox box p := by
  rw [inBox_iff]
  intro k hk
  exact ((h.2 k hk).2 (Nat.zero_and k))

/-! ### pure bit facts on the sixteen codes -/

def mu (c : Nat) : Nat := c % 2 + c / 2 % 2 + c / 4 % 2 + c / 8 % 2

theorem Edge.mem {k : Nat} (h : Edge k) : k ∈ [8, 4, 2, 1] := by
  rcases h with rfl | rfl | rfl | rfl <;> simp

theorem edge_of_mem {k : Nat} (h : k ∈ [8, 4, 2, 1]) : Edge k := by
  simpa [Edge] using h

theorem bits_or_zero : ∀ c < 16, ∀ c' < 16, c ||| c' = 0 → c = 0 ∧ c' = 0 := by decide

theorem bits_first : ∀ c < 16, c ≠ 0 →
    c &&& 8 ≠ 0 ∨ (c &&& 8 = 0 ∧ c &&& 4 ≠ 0) ∨ (c &&& 8 = 0 ∧ c &&& 4 = 0 ∧ c &&& 2 ≠ 0) ∨
      (c &&& 8 = 0 ∧ c &&& 4 = 0 ∧ c &&& 2 = 0 ∧ c &&& 1 ≠ 0) := by decide

theorem bits_disj : ∀ c < 16, ∀ c' < 16, c &&& c' = 0 → ∀ k ∈ [8, 4, 2, 1], c &&& k ≠ 0 → c' &&& k = 0 := by
  decide

theorem bits_common : ∀ c < 16, ∀ c' < 16, c &&& c' ≠ 0 →
    ∃ k ∈ [8, 4, 2, 1], c &&& k ≠ 0 ∧ c' &&& k ≠ 0 := by decide

theorem bits_common' : ∀ c < 16, ∀ c' < 16, ∀ k ∈ [8, 4, 2, 1], c &&& k ≠ 0 → c' &&& k ≠ 0 →
    c &&& c' ≠ 0 := by decide

theorem bits_mu_le : ∀ c < 16, ∀ c' < 16, mu (c ||| c') ≤ 4 := by decide

set_option synthInstance.maxSize 100000 in
set_option maxRecDepth 100000 in
theorem bits_mu : ∀ c' < 16, ∀ c1 < 16, ∀ c2 < 16, ∀ k ∈ [8, 4, 2, 1], c1 &&& k ≠ 0 → c1 &&& c2 = 0 →
    c' &&& k = 0 → (∀ j ∈ [8, 4, 2, 1], c' &&& j ≠ 0 → c1 &&& j ≠ 0 ∨ c2 &&& j ≠ 0) →
    mu (c' ||| c2) < mu (c1 ||| c2) := by decide

end Orb.Clip
