/-
  C01 — WKB/EWKB encode–decode is lossless; every decode path agrees.
  PROPERTY THEOREMS about the model `Orb.WKB` (encoding/internal/wkbcommon + wkb/ewkb wrappers).

  Coordinates are arbitrary 64-bit patterns (NaN payloads, ±0, ±Inf, subnormals: no special case).
  `WF32 g` : every slice length fits the 32-bit count field.  SRID 0 = absent.
  `collDepth g ≤ wkb_MaxCollectionDepth` : geometry collections are nested no deeper than the decoders
  accept (`wkbcommon.MaxCollectionDepth`, regenerated into `Generated.Params`; 10000).  The round trip is
  NOT "to any depth": beyond the limit both decoders answer `ErrNestingTooDeep` (`encode_too_deep`), which
  is what keeps hostile input from overflowing the goroutine stack (C05).
-/
import OrbProofs.C01Lemmas
import OrbProofs.C01Scanner
import OrbProofs.C01Order

namespace Orb.WKB

/-- A nil interface and every typed nil slice encode to no bytes. -/
theorem encode_nil (o : Order) (srid : Nat) (k : Kind) :
    encode o srid .nilIface = [] ∧ encode o srid (.nilSlice k) = [] := encode_nil' o srid k

/-- One-shot byte decoder: decoding an encoding returns the canonical value and the SRID written. -/
theorem unmarshal_encode (o : Order) (srid : Nat) (g : G) (hw : WF32 g) (hs : srid < 2^32)
    (hd : collDepth g ≤ Generated.Params.wkb_MaxCollectionDepth) :
    unmarshal (encGeom o srid g) = .ok (canon g, srid) := unmarshal_encode' o srid g hw hs hd

/-- Streaming decoder: it consumes exactly the encoding and leaves the rest of the stream; a decoder
    that is itself `MaxCollectionDepth - left` collections deep accepts `left` more levels. -/
theorem decodeStream_encode (o : Order) (srid : Nat) (g : G) (hw : WF32 g) (hs : srid < 2^32) (rest : Bytes)
    (left : Nat) (hd : collDepth g ≤ left) :
    decodeStream left (encGeom o srid g ++ rest) = .ok (canon g, srid, rest) :=
  decodeStream_encode' o srid g hw hs rest left hd

theorem decode_encode (o : Order) (srid : Nat) (g : G) (hw : WF32 g) (hs : srid < 2^32)
    (hd : collDepth g ≤ Generated.Params.wkb_MaxCollectionDepth) :
    decode (encGeom o srid g) = .ok (canon g, srid) := decode_encode' o srid g hw hs hd

/-- The depth hypothesis is exactly what is needed: the encoding of a value whose collections are
    nested deeper than `MaxCollectionDepth` is REJECTED by both decoders, with `ErrNestingTooDeep`
    (the encoder itself has no limit). -/
theorem encode_too_deep (o : Order) (srid : Nat) (g : G) (hw : WF32 g) (hs : srid < 2^32)
    (hd : Generated.Params.wkb_MaxCollectionDepth < collDepth g) :
    decode (encGeom o srid g) = .err .nestingTooDeep ∧ unmarshal (encGeom o srid g) = .err .nestingTooDeep :=
  encode_too_deep' o srid g hw hs hd

theorem decodeStream_too_deep (o : Order) (srid : Nat) (g : G) (hw : WF32 g) (hs : srid < 2^32) (rest : Bytes)
    (left : Nat) (hd : left < collDepth g) :
    decodeStream left (encGeom o srid g ++ rest) = .err .nestingTooDeep :=
  decodeStream_too_deep' o srid g hw hs rest left hd

/-- Scanning into each of the ten destinations yields the value under the documented coercions
    (`coerce` is the table, written out as data) and a wrong-geometry error for every other kind. -/
theorem scan_table (bnd : BoundFn) (d : Dest) (o : Order) (srid : Nat) (g : G) (hw : WF32 g) (hs : srid < 2^32)
    (hd : collDepth g ≤ Generated.Params.wkb_MaxCollectionDepth) :
    scan bnd d (encGeom o srid g) =
      (match coerce bnd d (canon g) with
       | some v => .ok (v, srid)
       | none => .err .incorrectGeometry) := scan_table' bnd d o srid g hw hs hd

/-- The byte decoder, the stream decoder and the untyped scanner agree on every encoder output
    (at ANY nesting depth: beyond the limit they agree on the error). -/
theorem paths_agree (bnd : BoundFn) (o : Order) (srid : Nat) (g : G) (hw : WF32 g) (hs : srid < 2^32) :
    unmarshal (encGeom o srid g) = decode (encGeom o srid g) ∧
    scan bnd .any (encGeom o srid g) = unmarshal (encGeom o srid g) := paths_agree' bnd o srid g hw hs

/-- Hex text framing (either letter case) scans like the raw bytes. -/
theorem framing_hex (bnd : BoundFn) (d : Dest) (upper : Bool) (o : Order) (srid : Nat) (g : G) :
    scan bnd d (hexEncode upper (encGeom o srid g)) = scan bnd d (encGeom o srid g) :=
  framing_hex' bnd d upper o srid g

/-- `\x`-prefixed hex framing scans like the raw bytes. -/
theorem framing_bslash_x (bnd : BoundFn) (d : Dest) (o : Order) (srid : Nat) (g : G) :
    scan bnd d (92 :: 120 :: hexEncode false (encGeom o srid g)) = scan bnd d (encGeom o srid g) :=
  framing_bslash_x' bnd d o srid g

/-- `ewkb.ScannerPrefixSRID`: the 4-byte little-endian prefix is stripped; the SRID reported is the
    embedded one when non-zero, else the prefix. -/
theorem framing_prefix_ewkb (bnd : BoundFn) (d : Dest) (o : Order) (srid p : Nat) (g : G) (hw : WF32 g)
    (hs : srid < 2^32) (hp : p < 2^32) (hd : collDepth g ≤ Generated.Params.wkb_MaxCollectionDepth) :
    ewkbScan bnd true d (u32 .little p ++ encGeom o srid g) =
      (match coerce bnd d (canon g) with
       | some v => .ok (v, if srid ≠ 0 then srid else p)
       | none => .err .incorrectGeometry) := framing_prefix_ewkb' bnd d o srid p g hw hs hp hd

/-- The deprecated `wkb.Scanner` retry (strip a 4-byte prefix when the header is not WKB) works
    whenever the first prefix byte cannot be mistaken for a byte-order mark or a hex framing:
    PARTIAL — the full statement (every prefix) is false of the code, see the witness below. -/
theorem framing_prefix_wkb_partial (bnd : BoundFn) (d : Dest) (o : Order) (p : Nat) (g : G) (hw : WF32 g)
    (hp : p < 2^32) (h0 : p % 256 ≠ 0) (h1 : p % 256 ≠ 1) (h2 : p % 256 ≠ 48) (h3 : p % 256 ≠ 92)
    (hd : collDepth g ≤ Generated.Params.wkb_MaxCollectionDepth) :
    wkbScan bnd d (u32 .little p ++ encGeom o 0 g) =
      (match coerce bnd d (canon g) with
       | some v => .ok v
       | none => .err .incorrectGeometry) := framing_prefix_wkb_partial' bnd d o p g hw hp h0 h1 h2 h3 hd

/-- Witness that the full statement fails: SRID 256 (prefix bytes 00 01 00 00) in front of a point
    is accepted as a big-endian header and a wrong point is returned with no error. -/
theorem wkbScan_prefix_witness (bnd : BoundFn) :
    ∃ v, wkbScan bnd .any (u32 .little 256 ++ encGeom .little 0 (.point ⟨0x3ff0000000000000, 0x4000000000000000⟩)) = .ok v ∧
      v ≠ .point ⟨0x3ff0000000000000, 0x4000000000000000⟩ := wkbScan_prefix_witness' bnd

/-- Whatever a decoder returns is nested no deeper than the limit (so it re-encodes to something the
    decoders accept) … -/
theorem decode_depth_ok (bs : Bytes) (g : G) (srid : Nat) (h : decode bs = .ok (g, srid)) :
    collDepth g ≤ Generated.Params.wkb_MaxCollectionDepth := decode_ok_depth h

theorem unmarshal_depth_ok (bs : Bytes) (g : G) (srid : Nat) (h : unmarshal bs = .ok (g, srid)) :
    collDepth g ≤ Generated.Params.wkb_MaxCollectionDepth := unmarshal_ok_depth h

/-- … so a decoded value re-encodes and decodes to itself (stability, used by C05). -/
theorem reencode_stable (bs : Bytes) (g : G) (srid : Nat) (h : unmarshal bs = .ok (g, srid)) (o : Order) :
    unmarshal (encGeom o srid g) = .ok (g, srid) := reencode_stable' bs g srid h o

/-- One `ewkb.GeometryScanner` value reused for many rows: what the caller observes after a `Scan`
    (error, `Valid`, `Geometry`, and the SRID of a valid row) never depends on the rows scanned before. -/
theorem ewkb_scanner_history_free (bnd : BoundFn) (p : Bool) (d : Dest) (σ σ' : ScanState) (x : ScanIn) :
    (ewkbScanStep bnd p d σ x).map ScanState.observe = (ewkbScanStep bnd p d σ' x).map ScanState.observe :=
  ewkbScanStep_history_free' bnd p d σ σ' x

/-- A row written by the encoder reads, on a reused `ewkb.Scanner`, exactly as the coercion table says. -/
theorem ewkb_scanner_reused_row (bnd : BoundFn) (d : Dest) (σ : ScanState) (o : Order) (srid : Nat) (g : G)
    (hw : WF32 g) (hs : srid < 2^32) (hd : collDepth g ≤ Generated.Params.wkb_MaxCollectionDepth) :
    (ewkbScanStep bnd false d σ (.bytes (encGeom o srid g))).map ScanState.observe =
      (match coerce bnd d (canon g) with
       | some v => .ok (none, true, some v, srid)
       | none => .ok (some .incorrectGeometry, false, none, 0)) := ewkbScanStep_encode' bnd d σ o srid g hw hs hd

/-- The deprecated `wkb.GeometryScanner` is history free as well. -/
theorem wkb_scanner_history_free (bnd : BoundFn) (d : Dest) (σ σ' : ScanState) (x : ScanIn) :
    (wkbScanStep bnd d σ x).map ScanState.observe = (wkbScanStep bnd d σ' x).map ScanState.observe :=
  wkbScanStep_history_free' bnd d σ σ' x

/-! ### the byte-order VALUE given to the encoder (`Orb.WKBOrder`)

  `encodeBO isLittleEndianValue payload` is `Marshal(g, srid, order)` for a `binary.ByteOrder` value that is
  (or is not) `binary.LittleEndian` and writes integers in order `payload`; the mark in front of every
  geometry is `codeMark …`, decided by the code by probing the value (`isLittleEndian`). -/

/-- Mark and payload in the same order: the encoder all the theorems above are about. -/
theorem encGeomM_same (o : Order) (srid : Nat) (g : G) : encGeomM o o srid g = encGeom o srid g :=
  encGeomM_same' o srid g

/-- EVERY byte-order value round-trips (`binary.LittleEndian`, `binary.BigEndian`, `binary.NativeEndian`, user
    types): since fix C01-3 the mark is decided by probing the value, so it is the order of the payload. -/
theorem byte_order_roundtrip (isLittleEndianValue : Bool) (o : Order) (srid : Nat) (g : G) (hw : WF32 g)
    (hs : srid < 2^32) (hd : collDepth g ≤ Generated.Params.wkb_MaxCollectionDepth) :
    unmarshal (encodeBO isLittleEndianValue o srid (.val g)) = .ok (canon g, srid) ∧
    decode (encodeBO isLittleEndianValue o srid (.val g)) = .ok (canon g, srid) :=
  byte_order_roundtrip' isLittleEndianValue o srid g hw hs hd

/-- Non-vacuity: a concrete nested value meets the hypotheses, and its encoding is what Go writes
    (`01 07000020 E6100000 01000000 | 01 01000000 <x> <y>` for SRID 4326). -/
example : WF32 (.collection [.point ⟨1, 2⟩, .ring []]) ∧
    collDepth (.collection [.point ⟨1, 2⟩, .collection [.ring []]]) = 2 ∧
    collDepth (.collection [.point ⟨1, 2⟩, .collection [.ring []]]) ≤ Generated.Params.wkb_MaxCollectionDepth ∧
    (encGeom .little 4326 (.collection [.point ⟨1, 2⟩])).take 13 = [1, 7, 0, 0, 32, 0xE6, 0x10, 0, 0, 1, 0, 0, 0] := by
  refine ⟨?_, by decide, by decide, by decide⟩
  simp [WF32]

/-- Non-vacuity of `encode_too_deep` (instantiated at one level left, where it can be computed):
    a collection in a collection is rejected by a decoder that has one level left. -/
example : decodeStream 1 (encGeom .little 0 (.collection [.collection []])) = .err .nestingTooDeep ∧
    decodeStream 2 (encGeom .little 0 (.collection [.collection []])) = .ok (.collection [.collection []], 0, []) :=
  ⟨rfl, rfl⟩

end Orb.WKB
