/-
  C01 — WKB/EWKB encode–decode is lossless; every decode path agrees.
  PROPERTY THEOREMS about the model `Orb.WKB` (encoding/internal/wkbcommon + wkb/ewkb wrappers).

  Coordinates are arbitrary 64-bit patterns (NaN payloads, ±0, ±Inf, subnormals: no special case).
  `WF32 g` : every slice length fits the 32-bit count field.  SRID 0 = absent.
-/
import OrbProofs.C01Lemmas
import OrbProofs.C01Scanner

namespace Orb.WKB

/-- A nil interface and every typed nil slice encode to no bytes. -/
theorem encode_nil (o : Order) (srid : Nat) (k : Kind) :
    encode o srid .nilIface = [] ∧ encode o srid (.nilSlice k) = [] := encode_nil' o srid k

/-- One-shot byte decoder: decoding an encoding returns the canonical value and the SRID written. -/
theorem unmarshal_encode (o : Order) (srid : Nat) (g : G) (hw : WF32 g) (hs : srid < 2^32) :
    unmarshal (encGeom o srid g) = .ok (canon g, srid) := unmarshal_encode' o srid g hw hs

/-- Streaming decoder: it consumes exactly the encoding and leaves the rest of the stream. -/
theorem decodeStream_encode (o : Order) (srid : Nat) (g : G) (hw : WF32 g) (hs : srid < 2^32) (rest : Bytes)
    (fuel : Nat) (hf : (encGeom o srid g).length ≤ fuel) :
    decodeStream fuel (encGeom o srid g ++ rest) = .ok (canon g, srid, rest) :=
  decodeStream_encode' o srid g hw hs rest fuel hf

theorem decode_encode (o : Order) (srid : Nat) (g : G) (hw : WF32 g) (hs : srid < 2^32) :
    decode (encGeom o srid g) = .ok (canon g, srid) := decode_encode' o srid g hw hs

/-- Scanning into each of the ten destinations yields the value under the documented coercions
    (`coerce` is the table, written out as data) and a wrong-geometry error for every other kind. -/
theorem scan_table (bnd : BoundFn) (d : Dest) (o : Order) (srid : Nat) (g : G) (hw : WF32 g) (hs : srid < 2^32) :
    scan bnd d (encGeom o srid g) =
      (match coerce bnd d (canon g) with
       | some v => .ok (v, srid)
       | none => .err .incorrectGeometry) := scan_table' bnd d o srid g hw hs

/-- The byte decoder, the stream decoder and the untyped scanner agree on every encoder output. -/
theorem paths_agree (bnd : BoundFn) (o : Order) (srid : Nat) (g : G) (hw : WF32 g) (hs : srid < 2^32) :
    unmarshal (encGeom o srid g) = decode (encGeom o srid g) ∧
    scan bnd .any (encGeom o srid g) = unmarshal (encGeom o srid g) := paths_agree' bnd o srid g hw hs

/-- Hex text framing (either letter case) scans like the raw bytes. -/
theorem framing_hex (bnd : BoundFn) (d : Dest) (upper : Bool) (o : Order) (srid : Nat) (g : G) :
    scan bnd d (hexEncode upper (encGeom o srid g)) = scan bnd d (encGeom o srid g) :=
  framing_hex' bnd d upper o srid g

/-- `\x`-prefixed hex framing scans like the raw bytes. -/
theorem framing_bslash_x (bnd : BoundFn) (d : Dest) (o : Order) (srid : Nat) (g : G) :
    scan bnd d (92 :: 120 :: hexEncode false (encGeom o srid g)) = scan bnd d (encGeom o srid g) :=
  framing_bslash_x' bnd d o srid g

/-- `ewkb.ScannerPrefixSRID`: the 4-byte little-endian prefix is stripped; the SRID reported is the
    embedded one when non-zero, else the prefix. -/
theorem framing_prefix_ewkb (bnd : BoundFn) (d : Dest) (o : Order) (srid p : Nat) (g : G) (hw : WF32 g)
    (hs : srid < 2^32) (hp : p < 2^32) :
    ewkbScan bnd true d (u32 .little p ++ encGeom o srid g) =
      (match coerce bnd d (canon g) with
       | some v => .ok (v, if srid ≠ 0 then srid else p)
       | none => .err .incorrectGeometry) := framing_prefix_ewkb' bnd d o srid p g hw hs hp

/-- The deprecated `wkb.Scanner` retry (strip a 4-byte prefix when the header is not WKB) works
    whenever the first prefix byte cannot be mistaken for a byte-order mark or a hex framing:
    PARTIAL — the full statement (every prefix) is false of the code, see the witness below. -/
theorem framing_prefix_wkb_partial (bnd : BoundFn) (d : Dest) (o : Order) (p : Nat) (g : G) (hw : WF32 g)
    (hp : p < 2^32) (h0 : p % 256 ≠ 0) (h1 : p % 256 ≠ 1) (h2 : p % 256 ≠ 48) (h3 : p % 256 ≠ 92) :
    wkbScan bnd d (u32 .little p ++ encGeom o 0 g) =
      (match coerce bnd d (canon g) with
       | some v => .ok v
       | none => .err .incorrectGeometry) := framing_prefix_wkb_partial' bnd d o p g hw hp h0 h1 h2 h3

/-- Witness that the full statement fails: SRID 256 (prefix bytes 00 01 00 00) in front of a point
    is accepted as a big-endian header and a wrong point is returned with no error. -/
theorem wkbScan_prefix_witness (bnd : BoundFn) :
    ∃ v, wkbScan bnd .any (u32 .little 256 ++ encGeom .little 0 (.point ⟨0x3ff0000000000000, 0x4000000000000000⟩)) = .ok v ∧
      v ≠ .point ⟨0x3ff0000000000000, 0x4000000000000000⟩ := wkbScan_prefix_witness' bnd

/-- A decoded value re-encodes and decodes to itself (stability, used by C05). -/
theorem reencode_stable (bs : Bytes) (g : G) (srid : Nat) (h : unmarshal bs = .ok (g, srid)) (o : Order) :
    unmarshal (encGeom o srid g) = .ok (g, srid) := reencode_stable' bs g srid h o

/-- One `ewkb.GeometryScanner` value reused for many rows: what the caller observes after a `Scan`
    (error, `Valid`, `Geometry`, and the SRID of a valid row) never depends on the rows scanned before. -/
theorem ewkb_scanner_history_free (bnd : BoundFn) (p : Bool) (d : Dest) (σ σ' : ScanState) (x : ScanIn) :
    (ewkbScanStep bnd p d σ x).map ScanState.observe = (ewkbScanStep bnd p d σ' x).map ScanState.observe :=
  ewkbScanStep_history_free' bnd p d σ σ' x

/-- A row written by the encoder reads, on a reused `ewkb.Scanner`, exactly as the coercion table says. -/
theorem ewkb_scanner_reused_row (bnd : BoundFn) (d : Dest) (σ : ScanState) (o : Order) (srid : Nat) (g : G)
    (hw : WF32 g) (hs : srid < 2^32) :
    (ewkbScanStep bnd false d σ (.bytes (encGeom o srid g))).map ScanState.observe =
      (match coerce bnd d (canon g) with
       | some v => .ok (none, true, some v, srid)
       | none => .ok (some .incorrectGeometry, false, none, 0)) := ewkbScanStep_encode' bnd d σ o srid g hw hs

/-- The deprecated `wkb.GeometryScanner` is history free as well. -/
theorem wkb_scanner_history_free (bnd : BoundFn) (d : Dest) (σ σ' : ScanState) (x : ScanIn) :
    (wkbScanStep bnd d σ x).map ScanState.observe = (wkbScanStep bnd d σ' x).map ScanState.observe :=
  wkbScanStep_history_free' bnd d σ σ' x

/-- Non-vacuity: a concrete nested value meets the hypotheses, and its encoding is what Go writes
    (`01 07000020 E6100000 01000000 | 01 01000000 <x> <y>` for SRID 4326). -/
example : WF32 (.collection [.point ⟨1, 2⟩, .ring []]) ∧
    (encGeom .little 4326 (.collection [.point ⟨1, 2⟩])).take 13 = [1, 7, 0, 0, 32, 0xE6, 0x10, 0, 0, 1, 0, 0, 0] := by
  refine ⟨?_, by decide⟩
  simp [WF32]

end Orb.WKB
