/-
  C04 — the assumption `FloatText` reduced to the digit generator.

  `gLayout neg d dp` (Orb/WKTFloat.lean) is the layout half of fmt's `%g` on a finite float64
  (strconv's `%e` / `%f` writers and the choice between them), for ANY digit list `d` and any
  decimal-point position `dp`.  Proved here, for all `neg`, `d`, `dp`:
    * the text is not empty;
    * every byte is a digit, `.`, `e`, `+` or `-` — hence none of the six delimiter bytes;
    * the only letter is the `e` of the exponent form, and it is followed by a sign — hence no two
      adjacent letters.
  So of `FloatText` + `NoAdjacentLetters` only "the text of `x` is `gLayout` of some digits" (`GText`)
  and "`ParseFloat` maps it back to `x`" remain assumed.
  Helper file of OrbProofs.C04Lemmas.
-/
import OrbProofs.C04Respell
import OrbProofs.C04Witness
import Orb.WKTFloat
namespace Orb.WKT

/-- digit, `.`, `e`, `+`, `-` -/
def isGByte (b : UInt8) : Bool := (48 ≤ b && b ≤ 57) || b == 46 || b == 101 || b == 43 || b == 45

set_option maxRecDepth 100000 in
theorem gf_bytes_fin : ∀ n : Fin 256,
    (isGByte (UInt8.ofFin n) = true → isDelim (UInt8.ofFin n) = false) ∧
    (isGByte (UInt8.ofFin n) = true → isLetter (UInt8.ofFin n) = true → UInt8.ofFin n = 101) := by
  decide

theorem gf_bytes (b : UInt8) :
    (isGByte b = true → isDelim b = false) ∧ (isGByte b = true → isLetter b = true → b = 101) := by
  have := gf_bytes_fin b.toFin
  simpa only [UInt8.ofFin_toFin] using this

/-- a byte of the non-letter part of a `%g` text: digit, `.`, `+`, `-` -/
def isGPlain (b : UInt8) : Bool := isGByte b && !isLetter b

/-- all bytes are digits, `.`, `+`, `-` -/
def GPlain (s : Str) : Prop := ∀ b ∈ s, isGPlain b = true

theorem gf_digitByte (k : Nat) : isGPlain (digitByte k) = true := by
  have h := Nat.mod_lt k (by decide : 10 > 0)
  unfold digitByte
  generalize k % 10 = m at h
  interval_cases m <;> decide

theorem gf_plain_nil : GPlain [] := fun _ h => by cases h

theorem gf_plain_cons {b : UInt8} {s : Str} (hb : isGPlain b = true) (hs : GPlain s) : GPlain (b :: s) := by
  intro x hx
  rcases List.mem_cons.1 hx with rfl | hx
  · exact hb
  · exact hs x hx

theorem gf_plain_append {s t : Str} (hs : GPlain s) (ht : GPlain t) : GPlain (s ++ t) := by
  intro x hx
  rcases List.mem_append.1 hx with hx | hx
  · exact hs x hx
  · exact ht x hx

theorem gf_plain_map {α : Type} (l : List α) (f : α → UInt8) (h : ∀ a, isGPlain (f a) = true) : GPlain (l.map f) := by
  intro x hx
  obtain ⟨a, -, rfl⟩ := List.mem_map.1 hx
  exact h a

theorem gf_plain_replicate (n : Nat) : GPlain (List.replicate n 48) := by
  intro x hx
  rw [(List.mem_replicate.1 hx).2]; decide

theorem gf_plain_sign (neg : Bool) : GPlain (signStr neg) := by
  cases neg
  · exact gf_plain_nil
  · exact gf_plain_cons (by decide) gf_plain_nil

theorem gf_plain_expDigits (e : Nat) : GPlain (expDigits e) := by
  unfold expDigits
  split
  · exact gf_plain_cons (by decide) (gf_plain_cons (gf_digitByte _) gf_plain_nil)
  · split
    · exact gf_plain_cons (gf_digitByte _) (gf_plain_cons (gf_digitByte _) gf_plain_nil)
    · exact gf_plain_cons (gf_digitByte _) (gf_plain_cons (gf_digitByte _) (gf_plain_cons (gf_digitByte _) gf_plain_nil))

/-- the `%f` form has no letter at all -/
theorem gf_fmtF_plain (neg : Bool) (d : List Nat) (dp : Int) : GPlain (gFmtF neg d dp) := by
  unfold gFmtF
  refine gf_plain_append (gf_plain_append (gf_plain_sign neg) ?_) ?_
  · split
    · exact gf_plain_append (gf_plain_map _ _ gf_digitByte) (gf_plain_replicate _)
    · exact gf_plain_cons (by decide) gf_plain_nil
  · split
    · refine gf_plain_cons (by decide) (gf_plain_map _ _ ?_)
      intro i
      dsimp only
      split
      · exact gf_digitByte _
      · decide
    · exact gf_plain_nil

theorem gf_fmtF_ne_nil (neg : Bool) (d : List Nat) (dp : Int) : gFmtF neg d dp ≠ [] := by
  unfold gFmtF
  intro h
  have h1 := (List.append_eq_nil_iff.1 h).1
  have h2 := (List.append_eq_nil_iff.1 h1).2
  split at h2
  · rename_i hdp
    have := (List.append_eq_nil_iff.1 h2).2
    have hl : (List.replicate (dp.toNat - d.length) (48 : UInt8)).length = 0 := by rw [this]; rfl
    have h3 := (List.append_eq_nil_iff.1 h2).1
    have hl2 : ((d.take dp.toNat).map digitByte).length = 0 := by rw [h3]; rfl
    simp only [List.length_replicate, List.length_map, List.length_take] at hl hl2
    omega
  · cases h2

/-- the `%e` form: plain bytes, `e`, plain bytes (sign and digits of the exponent) -/
theorem gf_fmtE_shape (neg : Bool) (d : List Nat) (dp : Int) :
    ∃ A B, GPlain A ∧ GPlain B ∧ gFmtE neg d dp = A ++ 101 :: B := by
  refine ⟨signStr neg ++ gFirst d :: gFrac d,
    (if gExp d dp < 0 then 45 else 43) :: expDigits (gExp d dp).natAbs, ?_, ?_, by simp [gFmtE]⟩
  · refine gf_plain_append (gf_plain_sign neg) (gf_plain_cons ?_ ?_)
    · cases d with
      | nil => decide
      | cons k _ => exact gf_digitByte k
    · rcases d with _ | ⟨_, _ | ⟨k, rest⟩⟩
      · exact gf_plain_nil
      · exact gf_plain_nil
      · exact gf_plain_cons (by decide) (gf_plain_map _ _ gf_digitByte)
  · refine gf_plain_cons ?_ (gf_plain_expDigits _)
    split <;> decide

/-! ### no two adjacent letters -/

theorem gf_plain_notLetter {s : Str} (h : GPlain s) : ∀ b ∈ s, isLetter b = false := by
  intro b hb
  have := h b hb
  unfold isGPlain at this
  cases hl : isLetter b
  · rfl
  · rw [hl] at this; simp at this

theorem gf_nal_of_noLetters : ∀ (s : Str), (∀ b ∈ s, isLetter b = false) → NoAdjacentLetters s
  | [], _ => by simp [NoAdjacentLetters]
  | [_], _ => by simp [NoAdjacentLetters]
  | x :: y :: r, h =>
    ⟨by simp [h x (by simp)], gf_nal_of_noLetters (y :: r) (fun b hb => h b (List.mem_cons_of_mem _ hb))⟩

theorem gf_nal_e : ∀ (A B : Str), (∀ b ∈ A, isLetter b = false) → (∀ b ∈ B, isLetter b = false) →
    NoAdjacentLetters (A ++ 101 :: B)
  | [], [], _, _ => by simp [NoAdjacentLetters]
  | [], y :: B, _, hB => ⟨by simp [hB y (by simp)], gf_nal_of_noLetters _ hB⟩
  | [x], B, hA, hB => ⟨by simp [hA x (by simp)], gf_nal_e [] B (by simp) hB⟩
  | x :: x' :: A, B, hA, hB =>
    ⟨by simp [hA x (by simp)], gf_nal_e (x' :: A) B (fun b hb => hA b (List.mem_cons_of_mem _ hb)) hB⟩

/-! ### the three facts about `gLayout` -/

theorem gLayout_ne_nil' (neg : Bool) (d : List Nat) (dp : Int) : gLayout neg d dp ≠ [] := by
  unfold gLayout
  dsimp only
  split
  · obtain ⟨A, B, -, -, h⟩ := gf_fmtE_shape neg d dp
    rw [h]; simp
  · exact gf_fmtF_ne_nil neg d dp

theorem gLayout_bytes' (neg : Bool) (d : List Nat) (dp : Int) : ∀ b ∈ gLayout neg d dp, isGByte b = true := by
  have hp : ∀ {s : Str}, GPlain s → ∀ b ∈ s, isGByte b = true := by
    intro s hs b hb
    have := hs b hb
    unfold isGPlain at this
    exact (Bool.and_eq_true _ _ ▸ this).1
  unfold gLayout
  dsimp only
  split
  · obtain ⟨A, B, hA, hB, h⟩ := gf_fmtE_shape neg d dp
    rw [h]
    intro b hb
    rcases List.mem_append.1 hb with hb | hb
    · exact hp hA b hb
    · rcases List.mem_cons.1 hb with rfl | hb
      · decide
      · exact hp hB b hb
  · exact hp (gf_fmtF_plain neg d dp)

theorem gLayout_clean' (neg : Bool) (d : List Nat) (dp : Int) : ∀ b ∈ gLayout neg d dp, isDelim b = false :=
  fun b hb => (gf_bytes b).1 (gLayout_bytes' neg d dp b hb)

theorem gLayout_noAdjacentLetters' (neg : Bool) (d : List Nat) (dp : Int) : NoAdjacentLetters (gLayout neg d dp) := by
  unfold gLayout
  dsimp only
  split
  · obtain ⟨A, B, hA, hB, h⟩ := gf_fmtE_shape neg d dp
    rw [h]
    exact gf_nal_e A B (gf_plain_notLetter hA) (gf_plain_notLetter hB)
  · exact gf_nal_of_noLetters _ (gf_plain_notLetter (gf_fmtF_plain neg d dp))

/-! ### what remains assumed of Go -/

/-- the `%g` text of `x` is the layout of SOME sign, digit list and decimal-point position -/
def GText (fmtF : UInt64 → Str) (x : UInt64) : Prop := ∃ neg d dp, fmtF x = gLayout neg d dp

/-- the reduced assumption at one coordinate: `%g` lays out some digits, `ParseFloat` reads them back -/
structure GRoundTrip (fmtF : UInt64 → Str) (parseF : Str → Option UInt64) (x : UInt64) : Prop where
  shaped : GText fmtF x
  parses : parseF (fmtF x) = some x

def GCoords (fmtF : UInt64 → Str) (parseF : Str → Option UInt64) (g : G) : Prop :=
  ∀ x ∈ coords g, GRoundTrip fmtF parseF x

theorem floatText_of_gRoundTrip' {fmtF : UInt64 → Str} {parseF : Str → Option UInt64} {x : UInt64}
    (h : GRoundTrip fmtF parseF x) : FloatText fmtF parseF x := by
  obtain ⟨⟨neg, d, dp, hs⟩, hp⟩ := h
  exact ⟨by rw [hs]; exact gLayout_ne_nil' neg d dp, by rw [hs]; exact gLayout_clean' neg d dp, hp⟩

theorem noAdjacentLetters_of_gText' {fmtF : UInt64 → Str} {x : UInt64} (h : GText fmtF x) :
    NoAdjacentLetters (fmtF x) := by
  obtain ⟨neg, d, dp, hs⟩ := h
  rw [hs]; exact gLayout_noAdjacentLetters' neg d dp

theorem goodCoords_of_gCoords' {fmtF : UInt64 → Str} {parseF : Str → Option UInt64} {g : G}
    (h : GCoords fmtF parseF g) : GoodCoords fmtF parseF g := fun x hx => floatText_of_gRoundTrip' (h x hx)

/-! ### non-vacuity: the printer of OrbProofs.C04Witness is a `gLayout` printer -/

theorem gText0 (x : UInt64) : GText fmt0 x := by
  unfold GText fmt0
  split
  · exact ⟨false, [1], 1, by decide⟩
  · split
    · exact ⟨false, [2], 1, by decide⟩
    · split
      · exact ⟨true, [5], 0, by decide⟩
      · exact ⟨false, [1], 22, by decide⟩

theorem gcoords0 : GCoords fmt0 parse0 g0 := fun x hx => ⟨gText0 x, (good0 x hx).parses⟩

end Orb.WKT
