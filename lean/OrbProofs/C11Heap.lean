/-
  C11 (heap part) — correctness of the array-based binary max-heap of `Orb.Quadtree`
  (`siftUp`, `heapPush`, `siftDown`, `heapPop`; model of quadtree/maxheap.go).

  Both sift loops only ever swap two positions whose contents are known, so the
  contents are permuted; heap order is carried by the loop invariants `UpInv` / `DownInv`
  ("order holds everywhere except around the hole `i`, and the children of `i` are below
  the parent of `i`").
-/
import Orb.Quadtree
import Mathlib.Order.Basic
import Mathlib.Order.Defs.LinearOrder
import Mathlib.Data.List.Perm.Basic

namespace Orb.Quadtree
open Orb Orb.Core

variable {α : Type} [LinearOrder α]

/-- max-heap order in child form: children of `i` are `2i+1`, `2i+2` -/
def HeapOrd (h : Heap α) : Prop :=
  ∀ i j (hi : i < h.size) (hj : j < h.size), (j = 2*i+1 ∨ j = 2*i+2) → h[j].2 ≤ h[i].2

theorem up_eq (i : Nat) : ((i + 1) >>> 1) - 1 = (i + 1) / 2 - 1 := by
  simp [Nat.shiftRight_eq_div_pow]

theorem right_eq (i : Nat) : (i + 1) <<< 1 = 2 * i + 2 := by
  simp [Nat.shiftLeft_eq]; omega

/-- writing back the two known values is a swap -/
theorem set_set_eq_swap {β : Type} (h : Array β) (i j : Nat) (hi : i < h.size) (hj : j < h.size) :
    (h.setIfInBounds i h[j]).setIfInBounds j h[i] = h.swap i j hi hj := by
  apply Array.ext
  · simp
  · intro k hk1 hk2
    simp only [Array.getElem_swap]
    grind

structure UpInv (h : Heap α) (i : Nat) : Prop where
  lt : i < h.size
  ord : ∀ a b (ha : a < h.size) (hb : b < h.size), (b = 2*a+1 ∨ b = 2*a+2) → b ≠ i → h[b].2 ≤ h[a].2
  gp : ∀ a c (ha : a < h.size) (hc : c < h.size), (i = 2*a+1 ∨ i = 2*a+2) → (c = 2*i+1 ∨ c = 2*i+2) →
    h[c].2 ≤ h[a].2

theorem upInv_swap (h : Heap α) (i up : Nat) (inv : UpInv h i) (hup : up < h.size)
    (hiu : i = 2*up+1 ∨ i = 2*up+2) (hle : h[up].2 ≤ (h[i]'inv.lt).2) :
    UpInv (h.swap i up inv.lt hup) up := by
  obtain ⟨hi, ord, gp⟩ := inv
  refine ⟨by simpa using hup, ?_, ?_⟩
  · intro a b ha hb hab hbu
    have ha' : a < h.size := by simpa using ha
    have hb' : b < h.size := by simpa using hb
    simp only [Array.getElem_swap]
    grind
  · intro a c ha hc hua hcu
    have ha' : a < h.size := by simpa using ha
    have hc' : c < h.size := by simpa using hc
    simp only [Array.getElem_swap]
    grind

/-- one unfolding of `siftUp` in swap form -/
theorem siftUp_succ (pt : Ptr α) (d : α) (fuel i : Nat) (h : Heap α) (hi : i < h.size) (hi0 : i ≠ 0)
    (hid : h[i] = (pt, d)) :
    siftUp pt d (fuel+1) i h =
      if d < (h[(i+1)/2-1]'(by omega)).2 then h
      else siftUp pt d fuel ((i+1)/2-1) (h.swap i ((i+1)/2-1) hi (by omega)) := by
  have hup : (i+1)/2-1 < h.size := by omega
  rw [siftUp]
  simp only [hi0, if_false, up_eq, Array.getElem?_eq_getElem hup]
  rw [← set_set_eq_swap, hid]

theorem siftUp_ord (pt : Ptr α) (d : α) (fuel : Nat) : ∀ (i : Nat) (h : Heap α) (inv : UpInv h i),
    h[i]'inv.lt = (pt, d) → i < fuel → HeapOrd (siftUp pt d fuel i h) := by
  induction fuel with
  | zero => intro i h _ _ hf; omega
  | succ fuel ih =>
    intro i h inv hid hf
    have hi := inv.lt
    by_cases hi0 : i = 0
    · subst hi0
      simp only [siftUp, if_true]
      intro a b ha hb hab
      exact inv.ord a b ha hb hab (by omega)
    · have hup : (i+1)/2-1 < h.size := by omega
      have hiu : i = 2*((i+1)/2-1)+1 ∨ i = 2*((i+1)/2-1)+2 := by omega
      rw [siftUp_succ pt d fuel i h hi hi0 hid]
      split_ifs with hlt
      · intro a b ha hb hab
        by_cases hbi : b = i
        · have : a = (i+1)/2-1 := by omega
          subst this
          subst hbi
          rw [hid]; exact le_of_lt hlt
        · exact inv.ord a b ha hb hab hbi
      · have hle : (h[(i+1)/2-1]'hup).2 ≤ (h[i]'hi).2 := by rw [hid]; exact not_lt.mp hlt
        apply ih _ _ (upInv_swap h i _ inv hup hiu hle)
        · simp [hid]
        · omega

theorem siftUp_perm (pt : Ptr α) (d : α) (fuel : Nat) : ∀ (i : Nat) (h : Heap α) (hi : i < h.size),
    h[i] = (pt, d) → (siftUp pt d fuel i h).toList.Perm h.toList := by
  induction fuel with
  | zero => intro i h _ _; simp [siftUp]
  | succ fuel ih =>
    intro i h hi hid
    by_cases hi0 : i = 0
    · subst hi0
      simp [siftUp]
    · have hup : (i+1)/2-1 < h.size := by omega
      rw [siftUp_succ pt d fuel i h hi hi0 hid]
      split_ifs with hlt
      · exact List.Perm.refl _
      · refine (ih _ _ (by simpa using hup) (by simp [hid])).trans ?_
        exact Array.perm_iff_toList_perm.mp (Array.swap_perm hi hup)


theorem siftDown_succ (last : Ptr α × α) (fuel i : Nat) (h : Heap α) (hi : i < h.size)
    (hid : h[i] = last) :
    ∃ (ci : Nat) (hci : ci < h.size), (ci = i ∨ ci = 2*i+1 ∨ ci = 2*i+2) ∧
      (∀ c (hc : c < h.size), (c = i ∨ c = 2*i+1 ∨ c = 2*i+2) → h[c].2 ≤ h[ci].2) ∧
      siftDown last (fuel+1) i h =
        if ci = i then h else siftDown last fuel ci (h.swap i ci hi hci) := by
  rw [siftDown]
  have e1 : 2*i+2-1 = 2*i+1 := by omega
  simp only [right_eq, e1, Array.getElem?_eq_getElem hi]
  by_cases hl : 2*i+1 < h.size
  · by_cases hr : 2*i+2 < h.size
    · simp only [Array.getElem?_eq_getElem hl, Array.getElem?_eq_getElem hr]
      by_cases c1 : h[i].2 < h[2*i+1].2
      · simp only [c1, if_true]
        by_cases c2 : h[2*i+1].2 < h[2*i+2].2
        · simp only [c2, if_true]
          refine ⟨2*i+2, hr, by omega, ?_, by rw [← set_set_eq_swap, hid]⟩
          intro c hc hcc
          rcases hcc with rfl | rfl | rfl
          · exact le_of_lt (lt_trans c1 c2)
          · exact le_of_lt c2
          · exact le_rfl
        · simp only [c2, if_false]
          refine ⟨2*i+1, hl, by omega, ?_, by rw [← set_set_eq_swap, hid]⟩
          intro c hc hcc
          rcases hcc with rfl | rfl | rfl
          · exact le_of_lt c1
          · exact le_rfl
          · exact not_lt.mp c2
      · simp only [c1, if_false]
        by_cases c2 : h[i].2 < h[2*i+2].2
        · simp only [c2, if_true]
          refine ⟨2*i+2, hr, by omega, ?_, by rw [← set_set_eq_swap, hid]⟩
          intro c hc hcc
          rcases hcc with rfl | rfl | rfl
          · exact le_of_lt c2
          · exact le_trans (not_lt.mp c1) (le_of_lt c2)
          · exact le_rfl
        · simp only [c2, if_false]
          refine ⟨i, hi, by omega, ?_, by simp⟩
          intro c hc hcc
          rcases hcc with rfl | rfl | rfl
          · exact le_rfl
          · exact not_lt.mp c1
          · exact not_lt.mp c2
    · have hr' : h[2*i+2]? = none := Array.getElem?_eq_none (by omega)
      simp only [Array.getElem?_eq_getElem hl, hr']
      by_cases c1 : h[i].2 < h[2*i+1].2
      · simp only [c1, if_true]
        refine ⟨2*i+1, hl, by omega, ?_, by rw [← set_set_eq_swap, hid]⟩
        intro c hc hcc
        rcases hcc with rfl | rfl | rfl
        · exact le_of_lt c1
        · exact le_rfl
        · omega
      · simp only [c1, if_false]
        refine ⟨i, hi, by omega, ?_, by simp⟩
        intro c hc hcc
        rcases hcc with rfl | rfl | rfl
        · exact le_rfl
        · exact not_lt.mp c1
        · omega
  · have hl' : h[2*i+1]? = none := Array.getElem?_eq_none (by omega)
    have hr' : h[2*i+2]? = none := Array.getElem?_eq_none (by omega)
    simp only [hl', hr']
    refine ⟨i, hi, by omega, ?_, by simp⟩
    intro c hc hcc
    rcases hcc with rfl | rfl | rfl
    · exact le_rfl
    · omega
    · omega


/-- siftDown invariant -/
structure DownInv (h : Heap α) (i : Nat) : Prop where
  lt : i < h.size
  ord : ∀ a b (ha : a < h.size) (hb : b < h.size), (b = 2*a+1 ∨ b = 2*a+2) → a ≠ i → h[b].2 ≤ h[a].2
  gp : ∀ a c (ha : a < h.size) (hc : c < h.size), (i = 2*a+1 ∨ i = 2*a+2) → (c = 2*i+1 ∨ c = 2*i+2) →
    h[c].2 ≤ h[a].2

theorem downInv_swap (h : Heap α) (i ci : Nat) (inv : DownInv h i) (hci : ci < h.size)
    (hic : ci = 2*i+1 ∨ ci = 2*i+2)
    (hmax : ∀ c (hc : c < h.size), (c = i ∨ c = 2*i+1 ∨ c = 2*i+2) → h[c].2 ≤ h[ci].2) :
    DownInv (h.swap i ci inv.lt hci) ci := by
  obtain ⟨hi, ord, gp⟩ := inv
  refine ⟨by simpa using hci, ?_, ?_⟩
  · intro a b ha hb hab hbu
    have ha' : a < h.size := by simpa using ha
    have hb' : b < h.size := by simpa using hb
    simp only [Array.getElem_swap]
    grind
  · intro a c ha hc hua hcu
    have ha' : a < h.size := by simpa using ha
    have hc' : c < h.size := by simpa using hc
    simp only [Array.getElem_swap]
    grind

theorem siftDown_ord (last : Ptr α × α) (fuel : Nat) : ∀ (i : Nat) (h : Heap α) (inv : DownInv h i),
    h[i]'inv.lt = last → h.size ≤ fuel + i → HeapOrd (siftDown last fuel i h) := by
  induction fuel with
  | zero => intro i h inv _ hf; have := inv.lt; omega
  | succ fuel ih =>
    intro i h inv hid hf
    have hi := inv.lt
    obtain ⟨ci, hci, hcc, hmax, heq⟩ := siftDown_succ last fuel i h hi hid
    rw [heq]
    split_ifs with hcii
    · subst hcii
      intro a b ha hb hab
      by_cases hai : a = ci
      · subst hai
        exact hmax b hb (by omega)
      · exact inv.ord a b ha hb hab hai
    · have hic : ci = 2*i+1 ∨ ci = 2*i+2 := by omega
      apply ih _ _ (downInv_swap h i ci inv hci hic hmax)
      · simp [hid]
      · simp only [Array.size_swap]; omega

theorem siftDown_perm (last : Ptr α × α) (fuel : Nat) : ∀ (i : Nat) (h : Heap α) (hi : i < h.size),
    h[i] = last → (siftDown last fuel i h).toList.Perm h.toList := by
  induction fuel with
  | zero => intro i h _ _; simp [siftDown]
  | succ fuel ih =>
    intro i h hi hid
    obtain ⟨ci, hci, hcc, hmax, heq⟩ := siftDown_succ last fuel i h hi hid
    rw [heq]
    split_ifs with hcii
    · exact List.Perm.refl _
    · refine (ih _ _ (by simpa using hci) ?_).trans ?_
      · simp [hid]
      · exact Array.perm_iff_toList_perm.mp (Array.swap_perm hi hci)

/-! ### the theorems -/

theorem heapOrd_empty : HeapOrd (#[] : Heap α) := by
  intro i j hi; simp at hi

theorem heapOrd_le_root (h : Heap α) (ho : HeapOrd h) (h0 : 0 < h.size) :
    ∀ (i : Nat) (hi : i < h.size), h[i].2 ≤ h[0].2 := by
  intro i
  induction i using Nat.strongRecOn with
  | _ i ih =>
    intro hi
    by_cases hi0 : i = 0
    · subst hi0; exact le_rfl
    · have hp : (i-1)/2 < h.size := by omega
      exact le_trans (ho ((i-1)/2) i hp hi (by omega)) (ih ((i-1)/2) (by omega) hp)

theorem heapOrd_top_max (h : Heap α) (ho : HeapOrd h) (top : Ptr α × α) (ht : h[0]? = some top) :
    ∀ e ∈ h.toList, e.2 ≤ top.2 := by
  intro e he
  obtain ⟨h0, rfl⟩ := Array.getElem?_eq_some_iff.mp ht
  rw [Array.mem_toList_iff] at he
  obtain ⟨i, hi, rfl⟩ := Array.mem_iff_getElem.mp he
  exact heapOrd_le_root h ho h0 i hi

theorem heapPush_perm (h : Heap α) (p : Ptr α) (d : α) :
    (heapPush h p d).toList.Perm ((p, d) :: h.toList) := by
  unfold heapPush
  refine (siftUp_perm p d _ _ _ (by simp) (by simp)).trans ?_
  simp only [Array.toList_push]
  exact List.perm_append_singleton _ _

theorem heapPush_ord (h : Heap α) (p : Ptr α) (d : α) (ho : HeapOrd h) : HeapOrd (heapPush h p d) := by
  unfold heapPush
  have inv : UpInv (h.push (p, d)) ((h.push (p, d)).size - 1) := by
    refine ⟨by simp, ?_, ?_⟩
    · intro a b ha hb hab hbi
      simp only [Array.size_push] at ha hb hbi
      simp only [Nat.add_sub_cancel] at hbi
      have hb' : b < h.size := by omega
      have ha' : a < h.size := by omega
      simp only [Array.getElem_push, ha', hb', dite_true]
      exact ho a b ha' hb' hab
    · intro a c ha hc hia hci
      simp only [Array.size_push] at ha hc hia hci
      omega
  exact siftUp_ord p d _ _ _ inv (by simp) (by simp)


theorem heapPop_ord (h : Heap α) (ho : HeapOrd h) : HeapOrd (heapPop h) := by
  unfold heapPop
  split
  · exact ho
  · rename_i last hlast
    simp only
    split_ifs with hs
    · intro i j hi; omega
    · have hs' : 0 < h.pop.size := by omega
      have inv : DownInv (h.pop.setIfInBounds 0 last) 0 := by
        refine ⟨by simpa using hs', ?_, ?_⟩
        · intro a b ha hb hab ha0
          have ha' : a < h.size := by simp at ha; omega
          have hb' : b < h.size := by simp at hb; omega
          have hb0 : b ≠ 0 := by omega
          have ha2 : a < h.pop.size := by simpa using ha
          have hb2 : b < h.pop.size := by simpa using hb
          rw [Array.getElem_setIfInBounds ha2, Array.getElem_setIfInBounds hb2]
          simp only [Array.getElem_pop, Ne.symm ha0, Ne.symm hb0, if_false]
          exact ho a b ha' hb' hab
        · intro a c ha hc h0a; omega
      apply siftDown_ord last _ 0 _ inv
      · simp
      · simp

theorem toList_eq_pop_append {β : Type} (h : Array β) (hs : 0 < h.size) :
    h.toList = h.pop.toList ++ [h[h.size-1]] := by
  have hne : h.toList ≠ [] := by
    intro hnil
    have := congrArg List.length hnil
    simp only [Array.length_toList, List.length_nil] at this; omega
  rw [Array.toList_pop]
  conv_lhs => rw [← List.dropLast_concat_getLast hne]
  congr 2
  rw [List.getLast_eq_getElem]
  simp

theorem heapPop_perm (h : Heap α) (top : Ptr α × α) (ht : h[0]? = some top) :
    h.toList.Perm (top :: (heapPop h).toList) := by
  obtain ⟨h0, rfl⟩ := Array.getElem?_eq_some_iff.mp ht
  unfold heapPop
  have hb : h.back? = some (h[h.size-1]) := by
    rw [Array.back?_eq_getElem?, Array.getElem?_eq_getElem]
  rw [hb]
  simp only
  have hdecomp := toList_eq_pop_append h h0
  split_ifs with hs
  · have hnil : h.pop.toList = [] := by
      apply List.eq_nil_of_length_eq_zero; simpa using hs
    have h1 : h.size - 1 = 0 := by simp at hs; omega
    rw [hdecomp, hnil]
    simp [h1]
  · have hs' : 0 < h.pop.size := by omega
    refine List.Perm.trans ?_ (List.Perm.cons _ (siftDown_perm _ _ 0 _ (by simpa using hs')
      (by rw [Array.getElem_setIfInBounds hs']; simp)).symm)
    rw [Array.toList_setIfInBounds]
    have hcons : h.pop.toList = h[0] :: h.pop.toList.tail := by
      have hne : h.pop.toList ≠ [] := by
        intro hnil
        have := congrArg List.length hnil
        simp only [Array.length_toList, List.length_nil] at this; omega
      have e := (List.cons_head_tail hne).symm
      have hh : h.pop.toList.head hne = h[0] := by rw [List.head_eq_getElem]; simp
      rw [hh] at e; exact e
    rw [hdecomp, hcons]
    simp only [List.set_cons_zero, List.cons_append]
    exact List.Perm.cons _ (List.perm_append_singleton _ _)

end Orb.Quadtree
