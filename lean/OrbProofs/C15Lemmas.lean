/-
  Helper lemmas for C15.  The primed statements are re-exported by OrbProofs/C15.lean.
-/
import Orb.Project
import OrbProofs.C06Lemmas
import Mathlib.Tactic.Positivity
import Mathlib.Tactic.NormNum
import Mathlib.Tactic.Push
import Mathlib.Algebra.Order.Field.Basic
import Mathlib.Algebra.Order.Floor.Ring
import Mathlib.Data.Rat.Floor
import Mathlib.Order.MinMax
import Mathlib.Tactic.Ring
import Mathlib.Tactic.FieldSimp
import Mathlib.Tactic.Linarith
import Mathlib.Tactic.SplitIfs

namespace Orb.Project
open Orb Orb.Core

/-! ### spec-side vocabulary -/

/-- no `Bound` value anywhere inside the geometry -/
def NoBounds {α : Type} : Geom α → Prop
  | .bound _ _ => False
  | .collection gs => ∀ g ∈ gs, NoBounds g
  | _ => True

/-- `⌊x⌋` on ℚ, as a rational -/
def ratFloor (x : Rat) : Rat := ((⌊x⌋ : ℤ) : Rat)

/-- `nonPowerOfTwoProjection` as it was BEFORE fix 7b86dd1 (no half pixel on the way out): kept on
    the spec side only, as the witness of why the fix was needed (`tile_roundtrip_nonpow2_no_margin`). -/
def nonPow2ProjUnfixed {α : Type} [Add α] [Sub α] [Mul α] [Div α]
    (floor : α → α) (P G : Pt α → Pt α) (minx miny e : α) : TileProj α where
  toTile := fun p => let q := P p; ⟨floor ((q.x - minx) * e), floor ((q.y - miny) * e)⟩
  toWGS84 := fun p => G ⟨p.x / e + minx, p.y / e + miny⟩

theorem ratFloor_spec : ∀ (x : Rat) (n : ℤ), (n : Rat) ≤ x → x < (n : Rat) + 1 → ratFloor x = (n : Rat) := by
  intro x n h1 h2
  unfold ratFloor
  have : ⌊x⌋ = n := Int.floor_eq_iff.2 ⟨h1, h2⟩
  rw [this]

/-! ### list-level facts -/

section lists
variable {σ α : Type}

theorem ptsM_append (proj : Proj σ α) (a b : List (Pt α)) (s : σ) :
    ptsM proj (a ++ b) s =
      ((ptsM proj a s).1 ++ (ptsM proj b (ptsM proj a s).2).1, (ptsM proj b (ptsM proj a s).2).2) := by
  induction a generalizing s with
  | nil => simp [ptsM]
  | cons p ps ih => simp [ptsM, ih]

theorem ptsM_length (proj : Proj σ α) (l : List (Pt α)) (s : σ) :
    (ptsM proj l s).1.length = l.length := by
  induction l generalizing s with
  | nil => simp [ptsM]
  | cons p ps ih => simp [ptsM, ih]

theorem ptsM_pure (f : Pt α → Pt α) (l : List (Pt α)) :
    (ptsM (σ := Unit) (fun p s => (f p, s)) l ()).1 = l.map f := by
  induction l with
  | nil => simp [ptsM]
  | cons p ps ih => simp [ptsM, ih]

theorem ptsM_rec (f : Pt α → Pt α) (l init : List (Pt α)) :
    (ptsM (fun p (l : List (Pt α)) => (f p, l ++ [p])) l init).2 = init ++ l := by
  induction l generalizing init with
  | nil => simp [ptsM]
  | cons p ps ih => simp [ptsM, ih]

theorem unflatten_append {β γ : Type} (ls : List (List γ)) (A B : List β)
    (h : ls.flatten.length ≤ A.length) : unflatten ls (A ++ B) = unflatten ls A := by
  induction ls generalizing A with
  | nil => simp [unflatten]
  | cons l ls ih =>
    simp only [List.flatten_cons, List.length_append] at h
    simp only [unflatten]
    rw [List.take_append_of_le_length (by omega), List.drop_append_of_le_length (by omega), ih]
    simp only [List.length_drop]; omega

theorem unflatten_flatten {β γ : Type} (ls : List (List γ)) (qs : List β)
    (h : ls.flatten.length ≤ qs.length) : (unflatten ls qs).flatten = qs.take ls.flatten.length := by
  induction ls generalizing qs with
  | nil => simp [unflatten]
  | cons l ls ih =>
    simp only [List.flatten_cons, List.length_append] at h
    simp only [unflatten, List.flatten_cons, List.length_append, List.take_add]
    rw [ih]
    simp only [List.length_drop]; omega

theorem unflatten_shape {β γ δ : Type} (u : δ) (ls : List (List γ)) (qs : List β)
    (h : ls.flatten.length ≤ qs.length) :
    (unflatten ls qs).map (fun l => l.map fun _ => u) = ls.map (fun l => l.map fun _ => u) := by
  induction ls generalizing qs with
  | nil => simp [unflatten]
  | cons l ls ih =>
    simp only [List.flatten_cons, List.length_append] at h
    simp only [unflatten, List.map_cons]
    rw [ih]
    · congr 1
      simp only [List.map_const', List.length_take]
      congr 1; omega
    · simp only [List.length_drop]; omega

theorem ptssM_eq (proj : Proj σ α) (ls : List (List (Pt α))) (s : σ) :
    ptssM proj ls s = (unflatten ls (ptsM proj ls.flatten s).1, (ptsM proj ls.flatten s).2) := by
  induction ls generalizing s with
  | nil => simp [ptssM, unflatten, ptsM]
  | cons l ls ih =>
    simp only [ptssM, List.flatten_cons, ptsM_append, unflatten, ih]
    rw [List.take_left' (ptsM_length proj l s), List.drop_left' (ptsM_length proj l s)]

theorem fillPolys_append (ps : List (List (List (Pt α)))) (A B : List (Pt α))
    (h : ps.flatten.flatten.length ≤ A.length) :
    fill.fillPolys ps (A ++ B) = fill.fillPolys ps A := by
  induction ps generalizing A with
  | nil => simp [fill.fillPolys]
  | cons p ps ih =>
    simp only [List.flatten_cons, List.flatten_append, List.length_append] at h
    simp only [fill.fillPolys]
    rw [unflatten_append _ _ _ (by omega), List.drop_append_of_le_length (by omega), ih]
    simp only [List.length_drop]; omega

theorem fillPolys_flatten (ps : List (List (List (Pt α)))) (qs : List (Pt α))
    (h : ps.flatten.flatten.length ≤ qs.length) :
    (fill.fillPolys ps qs).flatten.flatten = qs.take ps.flatten.flatten.length := by
  induction ps generalizing qs with
  | nil => simp [fill.fillPolys]
  | cons p ps ih =>
    simp only [List.flatten_cons, List.flatten_append, List.length_append] at h
    simp only [fill.fillPolys, List.flatten_cons, List.flatten_append, List.length_append,
      List.take_add]
    rw [ih, unflatten_flatten _ _ (by omega)]
    simp only [List.length_drop]; omega

theorem fillPolys_shape {δ : Type} (u : δ) (ps : List (List (List (Pt α)))) (qs : List (Pt α))
    (h : ps.flatten.flatten.length ≤ qs.length) :
    (fill.fillPolys ps qs).map (fun p => p.map fun l => l.map fun _ => u)
      = ps.map (fun p => p.map fun l => l.map fun _ => u) := by
  induction ps generalizing qs with
  | nil => simp [fill.fillPolys]
  | cons p ps ih =>
    simp only [List.flatten_cons, List.flatten_append, List.length_append] at h
    simp only [fill.fillPolys, List.map_cons]
    rw [ih, unflatten_shape u _ _ (by omega)]
    simp only [List.length_drop]; omega

theorem ptsssM_eq (proj : Proj σ α) (ps : List (List (List (Pt α)))) (s : σ) :
    ptsssM proj ps s =
      (fill.fillPolys ps (ptsM proj ps.flatten.flatten s).1, (ptsM proj ps.flatten.flatten s).2) := by
  induction ps generalizing s with
  | nil => simp [ptsssM, fill.fillPolys, ptsM]
  | cons p ps ih =>
    simp only [ptsssM, List.flatten_cons, List.flatten_append, ptsM_append, fill.fillPolys, ih,
      ptssM_eq]
    rw [unflatten_append _ _ _ (by rw [ptsM_length]), List.drop_left' (ptsM_length proj _ s)]

end lists

section project
variable {σ α : Type} [LinearOrder α]

theorem fill_go_append (gs : List (Geom α))
    (ih : ∀ g ∈ gs, ∀ A B : List (Pt α), (verts g).length ≤ A.length → fill g (A ++ B) = fill g A)
    (A B : List (Pt α)) (h : (verts.go gs).length ≤ A.length) :
    fill.go gs (A ++ B) = fill.go gs A := by
  induction gs generalizing A with
  | nil => simp [fill.go]
  | cons g gs ihg =>
    simp only [verts.go, List.length_append] at h
    simp only [fill.go]
    rw [ih g (by simp) A B (by omega), List.drop_append_of_le_length (by omega),
      ihg (fun g hg => ih g (by simp [hg]))]
    simp only [List.length_drop]; omega

theorem fill_append (g : Geom α) : ∀ (A B : List (Pt α)), (verts g).length ≤ A.length →
    fill g (A ++ B) = fill g A := by
  induction g using Orb.Core.Geom.ind with
  | h1 p =>
    intro A B h
    cases A with
    | nil => simp [verts] at h
    | cons a A => simp [fill]
  | h2 ps => intro A B h; simp only [verts] at h; simp only [fill, List.take_append_of_le_length h]
  | h3 ps => intro A B h; simp only [verts] at h; simp only [fill, List.take_append_of_le_length h]
  | h5 ps => intro A B h; simp only [verts] at h; simp only [fill, List.take_append_of_le_length h]
  | h4 ls => intro A B h; simp only [verts] at h; simp only [fill, unflatten_append _ _ _ h]
  | h6 ls => intro A B h; simp only [verts] at h; simp only [fill, unflatten_append _ _ _ h]
  | h7 ps => intro A B h; simp only [verts] at h; simp only [fill, fillPolys_append _ _ _ h]
  | h8 a b =>
    intro A B h
    match A, h with
    | a1 :: a2 :: A, _ => simp [fill]
  | hc gs ih =>
    intro A B h
    simp only [verts] at h
    simp only [fill, fill_go_append gs ih A B h]

theorem geometryM_go_eq (proj : Proj σ α) (gs : List (Geom α))
    (ih : ∀ g ∈ gs, ∀ s, geometryM proj g s = (fill g (ptsM proj (verts g) s).1, (ptsM proj (verts g) s).2))
    (s : σ) :
    geometryM.go proj gs s = (fill.go gs (ptsM proj (verts.go gs) s).1, (ptsM proj (verts.go gs) s).2) := by
  induction gs generalizing s with
  | nil => simp [geometryM.go, fill.go, verts.go, ptsM]
  | cons g gs ihg =>
    simp only [geometryM.go, verts.go, fill.go, ptsM_append]
    rw [ih g (by simp), ihg (fun g hg => ih g (by simp [hg]))]
    simp only
    rw [fill_append g _ _ (by rw [ptsM_length]), List.drop_left' (ptsM_length proj _ s)]

theorem project_map' (proj : Proj σ α) (g : Geom α) (s : σ) :
    geometryM proj g s = (fill g (ptsM proj (verts g) s).1, (ptsM proj (verts g) s).2) := by
  induction g using Orb.Core.Geom.ind generalizing s with
  | h1 p => simp [geometryM, fill, verts, ptsM]
  | h2 ps =>
    simp only [geometryM, fill, verts]
    rw [← ptsM_length proj ps s, List.take_length]
  | h3 ps =>
    simp only [geometryM, fill, verts]
    rw [← ptsM_length proj ps s, List.take_length]
  | h5 ps =>
    simp only [geometryM, fill, verts]
    rw [← ptsM_length proj ps s, List.take_length]
  | h4 ls => simp only [geometryM, fill, verts, ptssM_eq]
  | h6 ls => simp only [geometryM, fill, verts, ptssM_eq]
  | h7 ps => simp only [geometryM, fill, verts, ptsssM_eq]
  | h8 a b => simp [geometryM, fill, verts, ptsM]
  | hc gs ih =>
    simp only [geometryM, fill, verts]
    rw [geometryM_go_eq proj gs ih s]

theorem project_calls' (f : Pt α → Pt α) (g : Geom α) :
    (geometryM (fun p (l : List (Pt α)) => (f p, l ++ [p])) g []).2 = verts g := by
  rw [project_map']
  simp [ptsM_rec]

theorem shape_go_fill (gs : List (Geom α))
    (ih : ∀ g ∈ gs, ∀ qs : List (Pt α), (verts g).length ≤ qs.length → shape (fill g qs) = shape g)
    (qs : List (Pt α)) (h : (verts.go gs).length ≤ qs.length) :
    shape.go (fill.go gs qs) = shape.go gs := by
  induction gs generalizing qs with
  | nil => simp [fill.go, shape.go]
  | cons g gs ihg =>
    simp only [verts.go, List.length_append] at h
    simp only [fill.go, shape.go]
    rw [ih g (by simp) qs (by omega), ihg (fun g hg => ih g (by simp [hg]))]
    simp only [List.length_drop]; omega

theorem shape_fill (g : Geom α) : ∀ (qs : List (Pt α)), (verts g).length ≤ qs.length →
    shape (fill g qs) = shape g := by
  induction g using Orb.Core.Geom.ind with
  | h1 p => intro qs h; simp [fill, shape]
  | h2 ps =>
    intro qs h; simp only [verts] at h
    simp only [fill, shape, List.map_const', List.length_take, Nat.min_eq_left h]
  | h3 ps =>
    intro qs h; simp only [verts] at h
    simp only [fill, shape, List.map_const', List.length_take, Nat.min_eq_left h]
  | h5 ps =>
    intro qs h; simp only [verts] at h
    simp only [fill, shape, List.map_const', List.length_take, Nat.min_eq_left h]
  | h4 ls => intro qs h; simp only [verts] at h; simp only [fill, shape, unflatten_shape _ _ _ h]
  | h6 ls => intro qs h; simp only [verts] at h; simp only [fill, shape, unflatten_shape _ _ _ h]
  | h7 ps => intro qs h; simp only [verts] at h; simp only [fill, shape, fillPolys_shape _ _ _ h]
  | h8 a b => intro qs h; simp [fill, shape]
  | hc gs ih =>
    intro qs h
    simp only [verts] at h
    simp only [fill, shape, shape_go_fill gs ih qs h]

theorem project_shape' (proj : Proj σ α) (g : Geom α) (s : σ) :
    shape (geometryM proj g s).1 = shape g := by
  rw [project_map']
  exact shape_fill g _ (by rw [ptsM_length])

theorem project_pure' (f : Pt α → Pt α) (g : Geom α) :
    geometry f g = fill g ((verts g).map f) := by
  unfold geometry
  rw [project_map', ptsM_pure]

theorem verts_go_fill (gs : List (Geom α))
    (ih : ∀ g ∈ gs, NoBounds g → ∀ qs : List (Pt α), (verts g).length ≤ qs.length →
      verts (fill g qs) = qs.take (verts g).length)
    (hn : ∀ g ∈ gs, NoBounds g)
    (qs : List (Pt α)) (h : (verts.go gs).length ≤ qs.length) :
    verts.go (fill.go gs qs) = qs.take (verts.go gs).length := by
  induction gs generalizing qs with
  | nil => simp [fill.go, verts.go]
  | cons g gs ihg =>
    simp only [verts.go, List.length_append] at h
    simp only [fill.go, verts.go, List.length_append, List.take_add]
    rw [ih g (by simp) (hn g (by simp)) qs (by omega),
      ihg (fun g hg => ih g (by simp [hg])) (fun g hg => hn g (by simp [hg]))]
    simp only [List.length_drop]; omega

theorem verts_fill (g : Geom α) : NoBounds g → ∀ (qs : List (Pt α)), (verts g).length ≤ qs.length →
    verts (fill g qs) = qs.take (verts g).length := by
  induction g using Orb.Core.Geom.ind with
  | h1 p =>
    intro _ qs h
    cases qs with
    | nil => simp [verts] at h
    | cons a A => simp [fill, verts]
  | h2 ps => intro _ qs h; simp only [fill, verts]
  | h3 ps => intro _ qs h; simp only [fill, verts]
  | h5 ps => intro _ qs h; simp only [fill, verts]
  | h4 ls => intro _ qs h; simp only [verts] at h; simp only [fill, verts, unflatten_flatten _ _ h]
  | h6 ls => intro _ qs h; simp only [verts] at h; simp only [fill, verts, unflatten_flatten _ _ h]
  | h7 ps => intro _ qs h; simp only [verts] at h; simp only [fill, verts, fillPolys_flatten _ _ h]
  | h8 a b => intro hn; simp [NoBounds] at hn
  | hc gs ih =>
    intro hn qs h
    simp only [verts] at h
    simp only [NoBounds] at hn
    simp only [fill, verts, verts_go_fill gs ih hn qs h]

theorem project_verts' (f : Pt α → Pt α) (g : Geom α) (h : NoBounds g) :
    verts (geometry f g) = (verts g).map f := by
  rw [project_pure', verts_fill g h _ (by simp)]
  rw [← List.length_map (f := f), List.take_length]

theorem project_bound' (f : Pt α → Pt α) (lo hi : Pt α) :
    geometry f (.bound lo hi) =
      .bound ⟨min (f lo).x (f hi).x, min (f lo).y (f hi).y⟩ ⟨max (f lo).x (f hi).x, max (f lo).y (f hi).y⟩ := by
  have hne : (⟨f lo, f lo⟩ : Bound α).isEmpty = false := point_nonempty (f lo)
  have := extend_nonempty (⟨f lo, f lo⟩ : Bound α) (f hi) hne
  simp only [geometry, geometryM, boundOf]
  rw [this]

theorem project_nil' (proj : Proj σ α) (s : σ) (k : Kind) :
    geometryVM proj .nilIface s = (.nilIface, s) ∧ geometryVM proj (.nilSlice k) s = (.nilSlice k, s) := by
  exact ⟨rfl, rfl⟩

end project
section tile
variable {α : Type} [Field α] [LinearOrder α] [IsStrictOrderedRing α]

/-- `P ∘ G` returns the ONE point `c` to within `ε` on both axes.  A pointwise hypothesis: the real
    `toPlanar ∘ toGeo` satisfies it at the pixel centres it is used at, but NOT at every point
    (beyond ±0.9999 `toPlanar` clamps and is off by more than half a world). -/
def CloseAt (P G : Pt α → Pt α) (ε : α) (c : Pt α) : Prop :=
  |(P (G c)).x - c.x| ≤ ε ∧ |(P (G c)).y - c.y| ≤ ε

theorem closeAt_of_eq (P G : Pt α → Pt α) (c : Pt α) (h : P (G c) = c) : CloseAt P G 0 c := by
  simp [CloseAt, h]

theorem tile_roundtrip_margin' (floor : α → α)
    (hfloor : ∀ (x : α) (n : ℤ), (n : α) ≤ x → x < (n : α) + 1 → floor x = (n : α))
    (P G : Pt α → Pt α) (ε : α) (hε : ε < 1 / 2) (mx my i j : ℤ)
    (hPG : CloseAt P G ε ⟨(i : α) + mx + 1 / 2, (j : α) + my + 1 / 2⟩) :
    (pow2Proj floor P G (mx : α) (my : α)).toTile ((pow2Proj floor P G (mx : α) (my : α)).toWGS84 ⟨(i : α), (j : α)⟩)
      = ⟨(i : α), (j : α)⟩ := by
  obtain ⟨hx, hy⟩ := hPG
  rw [abs_le] at hx hy
  simp only at hx hy
  simp only [pow2Proj, Pt.mk.injEq]
  constructor
  · apply hfloor <;> linarith
  · apply hfloor <;> linarith

theorem tile_roundtrip_nonpow2_exact' (floor : α → α)
    (hfloor : ∀ (x : α) (n : ℤ), (n : α) ≤ x → x < (n : α) + 1 → floor x = (n : α))
    (P G : Pt α → Pt α) (hPG : ∀ u, P (G u) = u) (minx miny e : α) (he : e ≠ 0) (i j : ℤ) :
    (nonPow2ProjUnfixed floor P G minx miny e).toTile ((nonPow2ProjUnfixed floor P G minx miny e).toWGS84 ⟨(i : α), (j : α)⟩)
      = ⟨(i : α), (j : α)⟩ := by
  simp only [nonPow2ProjUnfixed, hPG, Pt.mk.injEq]
  have h1 : ((i : α) / e + minx - minx) * e = i := by field_simp; ring
  have h2 : ((j : α) / e + miny - miny) * e = j := by field_simp; ring
  rw [h1, h2]
  constructor
  · apply hfloor <;> linarith
  · apply hfloor <;> linarith

theorem tile_roundtrip_nonpow2_no_margin' (floor : α → α)
    (hfloor : ∀ (x : α) (n : ℤ), (n : α) ≤ x → x < (n : α) + 1 → floor x = (n : α))
    (P G : Pt α → Pt α) (minx miny e : α) (he : 0 < e) (i j : ℤ) (δx δy : α)
    (hδx : 0 < δx) (hδxe : δx * e ≤ 1) (hδy : 0 < δy) (hδye : δy * e ≤ 1)
    (hx : (P (G ⟨(i : α) / e + minx, (j : α) / e + miny⟩)).x = (i : α) / e + minx - δx)
    (hy : (P (G ⟨(i : α) / e + minx, (j : α) / e + miny⟩)).y = (j : α) / e + miny - δy) :
    (nonPow2ProjUnfixed floor P G minx miny e).toTile ((nonPow2ProjUnfixed floor P G minx miny e).toWGS84 ⟨(i : α), (j : α)⟩)
      = ⟨(i : α) - 1, (j : α) - 1⟩ := by
  have he' : e ≠ 0 := ne_of_gt he
  have hpx : 0 < δx * e := mul_pos hδx he
  have hpy : 0 < δy * e := mul_pos hδy he
  simp only [nonPow2ProjUnfixed, hx, hy, Pt.mk.injEq]
  have h1 : ((i : α) / e + minx - δx - minx) * e = i - δx * e := by field_simp; ring
  have h2 : ((j : α) / e + miny - δy - miny) * e = j - δy * e := by field_simp; ring
  rw [h1, h2]
  constructor
  · have := hfloor ((i : α) - δx * e) (i - 1) (by push_cast; linarith) (by push_cast; linarith)
    rw [this]; push_cast; ring
  · have := hfloor ((j : α) - δy * e) (j - 1) (by push_cast; linarith) (by push_cast; linarith)
    rw [this]; push_cast; ring

/-- per axis: an x error alone loses the column and keeps the row (and vice versa by symmetry of the code) -/
theorem tile_roundtrip_nonpow2_no_margin_x' (floor : α → α)
    (hfloor : ∀ (x : α) (n : ℤ), (n : α) ≤ x → x < (n : α) + 1 → floor x = (n : α))
    (P G : Pt α → Pt α) (minx miny e : α) (he : 0 < e) (i j : ℤ) (δx : α)
    (hδx : 0 < δx) (hδxe : δx * e ≤ 1)
    (hx : (P (G ⟨(i : α) / e + minx, (j : α) / e + miny⟩)).x = (i : α) / e + minx - δx)
    (hy : (P (G ⟨(i : α) / e + minx, (j : α) / e + miny⟩)).y = (j : α) / e + miny) :
    (nonPow2ProjUnfixed floor P G minx miny e).toTile ((nonPow2ProjUnfixed floor P G minx miny e).toWGS84 ⟨(i : α), (j : α)⟩)
      = ⟨(i : α) - 1, (j : α)⟩ := by
  have he' : e ≠ 0 := ne_of_gt he
  have hpx : 0 < δx * e := mul_pos hδx he
  simp only [nonPow2ProjUnfixed, hx, hy, Pt.mk.injEq]
  have h1 : ((i : α) / e + minx - δx - minx) * e = i - δx * e := by field_simp; ring
  have h2 : ((j : α) / e + miny - miny) * e = j := by field_simp; ring
  rw [h1, h2]
  constructor
  · have := hfloor ((i : α) - δx * e) (i - 1) (by push_cast; linarith) (by push_cast; linarith)
    rw [this]; push_cast; ring
  · apply hfloor <;> linarith

theorem tile_roundtrip_nonpow2_witness' :
    (nonPow2ProjUnfixed ratFloor (fun u => ⟨u.x - 1 / 1000000000, u.y - 1 / 1000000000⟩) id 3 2 1000).toTile
        ((nonPow2ProjUnfixed ratFloor (fun u => ⟨u.x - 1 / 1000000000, u.y - 1 / 1000000000⟩) id 3 2 1000).toWGS84 ⟨5, 7⟩)
      = (⟨4, 6⟩ : Pt Rat) ∧
    (pow2Proj ratFloor (fun u => ⟨u.x - 1 / 1000000000, u.y - 1 / 1000000000⟩) id 3072 2048).toTile
        ((pow2Proj ratFloor (fun u => ⟨u.x - 1 / 1000000000, u.y - 1 / 1000000000⟩) id 3072 2048).toWGS84 ⟨5, 7⟩)
      = (⟨5, 7⟩ : Pt Rat) := by
  constructor
  · simp only [nonPow2ProjUnfixed, id, Pt.mk.injEq]
    constructor
    · rw [ratFloor_spec _ 4 (by norm_num) (by norm_num)]; norm_num
    · rw [ratFloor_spec _ 6 (by norm_num) (by norm_num)]; norm_num
  · simp only [pow2Proj, id, Pt.mk.injEq]
    constructor
    · rw [ratFloor_spec _ 5 (by norm_num) (by norm_num)]; norm_num
    · rw [ratFloor_spec _ 7 (by norm_num) (by norm_num)]; norm_num

theorem tile_roundtrip_nonpow2_fixed_margin' (floor : α → α)
    (hfloor : ∀ (x : α) (n : ℤ), (n : α) ≤ x → x < (n : α) + 1 → floor x = (n : α))
    (P G : Pt α → Pt α) (ε : α) (minx miny e : α) (he : 0 < e) (hε : ε * e < 1 / 2) (i j : ℤ)
    (hPG : CloseAt P G ε ⟨((i : α) + 1 / 2) / e + minx, ((j : α) + 1 / 2) / e + miny⟩) :
    (nonPow2Proj floor P G minx miny e).toTile ((nonPow2Proj floor P G minx miny e).toWGS84 ⟨(i : α), (j : α)⟩)
      = ⟨(i : α), (j : α)⟩ := by
  have he' : e ≠ 0 := ne_of_gt he
  obtain ⟨hx, hy⟩ := hPG
  rw [abs_le] at hx hy
  simp only at hx hy
  simp only [nonPow2Proj, Pt.mk.injEq]
  have key : ∀ (v c m : α), -ε ≤ v - ((c + 1 / 2) / e + m) → v - ((c + 1 / 2) / e + m) ≤ ε →
      c ≤ (v - m) * e ∧ (v - m) * e < c + 1 := by
    intro v c m h1 h2
    have e1 : (v - m) * e = (v - ((c + 1 / 2) / e + m)) * e + c + 1 / 2 := by field_simp; ring
    have l1 := mul_le_mul_of_nonneg_right h1 he.le
    have l2 := mul_le_mul_of_nonneg_right h2 he.le
    rw [e1]
    constructor <;> linarith
  constructor
  · obtain ⟨a, b⟩ := key _ _ _ hx.1 hx.2
    exact hfloor _ _ a b
  · obtain ⟨a, b⟩ := key _ _ _ hy.1 hy.2
    exact hfloor _ _ a b

theorem newProjection_pow2' (F : MFn α) (X Y Z extent : Nat) (h : isPowerOfTwo extent = true) :
    newProjection F X Y Z extent =
      pow2Proj F.floor (toPlanar F (Z + trailingZeros32 extent)) (toGeo F (Z + trailingZeros32 extent))
        (F.ofNat ((X * 2 ^ trailingZeros32 extent) % 2 ^ 64)) (F.ofNat ((Y * 2 ^ trailingZeros32 extent) % 2 ^ 64)) := by
  unfold newProjection
  rw [if_pos h]

theorem newProjection_nonpow2' (F : MFn α) (X Y Z extent : Nat) (h : isPowerOfTwo extent = false) :
    newProjection F X Y Z extent =
      nonPow2Proj F.floor (toPlanar F Z) (toGeo F Z) (F.ofNat X) (F.ofNat Y) (F.ofNat extent) := by
  unfold newProjection
  rw [h]
  simp

end tile

section mercator
variable {α : Type} [Field α] [LinearOrder α] [IsStrictOrderedRing α] (F : MFn α)

theorem merc_roundtrip_partial' (g : Pt α)
    (hpi : 0 < F.pi) (hR : F.R ≠ 0)
    (hrPi : F.rPi = F.R * F.pi) (hrPi180 : F.rPi180 = F.rPi / 180)
    (hd : F.d180pi = 180 / F.pi) (hph : F.piHalf = F.pi / 2)
    (hexplog : ∀ t, 0 < t → F.exp (F.log t) = t)
    (htanpos : ∀ θ, 0 < θ → θ < F.pi / 2 → 0 < F.tan θ)
    (hatantan : ∀ θ, 0 < θ → θ < F.pi / 2 → F.atan (F.tan θ) = θ)
    (hlat : -90 < g.y ∧ g.y < 90)
    (hclamp : F.max (-F.rPi) (F.min (F.log (F.tan ((90 + g.y) * F.pi / 360)) * F.R) F.rPi)
                = F.log (F.tan ((90 + g.y) * F.pi / 360)) * F.R) :
    mercatorToWGS84 F (wgs84ToMercator F g) = g := by
  obtain ⟨gx, gy⟩ := g
  simp only at hlat hclamp
  have hpi' : F.pi ≠ 0 := ne_of_gt hpi
  have h0 : 0 < (90 + gy) * F.pi / 360 := by
    have : 0 < 90 + gy := by linarith
    positivity
  have h1 : (90 + gy) * F.pi / 360 < F.pi / 2 := by
    have : (90 + gy) * F.pi < 180 * F.pi := mul_lt_mul_of_pos_right (by linarith) hpi
    linarith
  simp only [mercatorToWGS84, wgs84ToMercator, hclamp, Pt.mk.injEq]
  constructor
  · rw [hrPi180, hrPi]; field_simp
  · rw [mul_div_cancel_right₀ _ hR, hexplog _ (htanpos _ h0 h1), hatantan _ h0 h1, hd, hph]
    field_simp; ring

theorem merc_roundtrip_rev_partial' (p : Pt α)
    (hpi : F.pi ≠ 0) (hR : F.R ≠ 0)
    (hrPi : F.rPi = F.R * F.pi) (hrPi180 : F.rPi180 = F.rPi / 180)
    (hd : F.d180pi = 180 / F.pi) (hph : F.piHalf = F.pi / 2)
    (htanatan : ∀ u, F.tan (F.atan u) = u) (hlogexp : ∀ t, F.log (F.exp t) = t)
    (hclamp : F.max (-F.rPi) (F.min p.y F.rPi) = p.y) :
    wgs84ToMercator F (mercatorToWGS84 F p) = p := by
  obtain ⟨px, py⟩ := p
  simp only at hclamp
  simp only [mercatorToWGS84, wgs84ToMercator, Pt.mk.injEq]
  have harg : (90 + F.d180pi * (2 * F.atan (F.exp (py / F.R)) - F.piHalf)) * F.pi / 360
      = F.atan (F.exp (py / F.R)) := by
    rw [hd, hph]; field_simp; ring
  constructor
  · rw [hrPi180, hrPi]; field_simp
  · rw [harg, htanatan, hlogexp, div_mul_cancel₀ _ hR, hclamp]

theorem planar_geo_roundtrip_partial' (z : Nat) (p : Pt α)
    (hpi : F.pi ≠ 0) (hm : maxTiles F z ≠ 0) (htwo : F.twoPi = 2 * F.pi) (hd : F.d180pi = 180 / F.pi)
    (hgd : ∀ t, F.log ((1 + F.sin (2 * F.atan (F.exp t) - F.pi / 2)) / (1 - F.sin (2 * F.atan (F.exp t) - F.pi / 2))) = 2 * t)
    (hclamp : ¬ F.sin (2 * F.atan (F.exp (F.pi - F.twoPi * (p.y / maxTiles F z))) - F.pi / 2) < -F.c9999 ∧
              ¬ F.c9999 < F.sin (2 * F.atan (F.exp (F.pi - F.twoPi * (p.y / maxTiles F z))) - F.pi / 2)) :
    toPlanar F z (toGeo F z p) = p := by
  obtain ⟨px, py⟩ := p
  simp only at hclamp
  obtain ⟨hc1, hc2⟩ := hclamp
  simp only [toPlanar, toGeo, Pt.mk.injEq]
  have harg : (2 * F.atan (F.exp (F.pi - F.twoPi * (py / maxTiles F z))) * F.d180pi - 90) * F.pi / 180
      = 2 * F.atan (F.exp (F.pi - F.twoPi * (py / maxTiles F z))) - F.pi / 2 := by
    rw [hd]; field_simp; ring
  simp only [harg]
  rw [if_neg hc1, if_neg hc2, hgd, htwo]
  constructor
  · field_simp; ring
  · field_simp; ring

end mercator

end Orb.Project
