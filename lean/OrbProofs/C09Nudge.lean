/-
  C09 — the FINITE nudge.  `Nudge.real next` (the nudge the Go code performs, `next` standing for
  `math.Nextafter(·, +Inf)`; `OrbProofs/C09Tie.lean` ties Go's `rayIntersect` to the model at exactly
  this nudge) against the infinitesimal `Nudge.inf` the other C09 theorems are about.
  The primed statements are re-exported by OrbProofs/C09.lean.
-/
import OrbProofs.C09Lemmas
import Mathlib.Algebra.Order.AbsoluteValue.Basic

namespace Orb.Contains
open Orb Orb.Core Orb.EvenOdd

set_option linter.unusedSectionVars false

section model
variable {α : Type} [Field α] [LinearOrder α] [IsStrictOrderedRing α]

theorem edgeNudgeOK_swap' (next : α → α) (p s e : Pt α) :
    edgeNudgeOK next p e s = edgeNudgeOK next p s e := by
  unfold edgeNudgeOK
  rcases lt_trichotomy s.x e.x with h | h | h
  · simp [h, not_lt.mpr h.le]
  · simp [h]
  · simp [h, not_lt.mpr h.le]

theorem real_swap (next : α → α) (p s e : Pt α) (h : e.x < s.x) :
    rayIntersect (Nudge.real next) p s e = rayIntersect (Nudge.real next) p e s := by
  unfold rayIntersect
  simp only [h, if_true, not_lt.mpr h.le, if_false]

/-- the normalised case `s.x ≤ e.x` of `rayIntersect_finite_nudge_iff` -/
theorem real_norm (next : α → α) (p s e : Pt α) (hn : p.x < next p.x) (h : s.x ≤ e.x) :
    rayIntersect (Nudge.real next) p s e = rayIntersect Nudge.inf p s e ↔ edgeNudgeOK next p s e = true := by
  unfold rayIntersect edgeNudgeOK
  simp only [not_lt.mpr h, if_false, beq_iff_eq]
  rcases lt_trichotomy p.x s.x with h1 | h1 | h1
  · simp [h1.ne, (lt_of_lt_of_le h1 h).ne, Nudge.inf, Nudge.real]
  · obtain ⟨px, py⟩ := p
    obtain ⟨sx, sy⟩ := s
    obtain ⟨ex, ey⟩ := e
    simp only at h1 hn h ⊢
    subst h1
    by_cases h2 : py = sy
    · simp [h2]
    · rcases eq_or_lt_of_le h with hv | hlt
      · subst hv
        by_cases hB : (ey < sy ∧ py ≤ sy ∧ ey ≤ py) ∨ (sy < ey ∧ py ≤ ey ∧ sy ≤ py)
        · simp [h2, hB, and_assoc]
        · simp [h2, hB, and_assoc, Nudge.inf, Nudge.real, hn]
      · have a1 : ¬ next px < px := not_lt.mpr hn.le
        have hd1 : 0 < next px - px := sub_pos.mpr hn
        have hd2 : 0 < ex - px := sub_pos.mpr hlt
        have e1 : ((py - sy) / (next px - px) = (ey - sy) / (ex - px)) ↔
            ((py - sy) * (ex - px) = (ey - sy) * (next px - px)) := div_eq_div_iff hd1.ne' hd2.ne'
        have e2 : ((py - sy) / (next px - px) ≤ (ey - sy) / (ex - px)) ↔
            ((py - sy) * (ex - px) ≤ (ey - sy) * (next px - px)) := div_le_div_iff₀ hd1 hd2
        simp [h2, hlt.ne, hlt, Nudge.inf, Nudge.real, a1, not_le.mpr hlt, sub_ne_zero.mpr h2]
        simp only [e1, e2]
        generalize (py - sy) * (ex - px) = A
        generalize (ey - sy) * (next px - px) = B
        clear e1 e2 hd1 hd2
        split_ifs <;> grind
  · have hne : p.x ≠ s.x := h1.ne'
    rcases eq_or_ne e.x p.x with h3 | h3
    · by_cases h2 : p.y = e.y
      · simp [hne, h3, h2]
      · have a1 : ¬ next p.x < s.x := not_lt.mpr (h1.trans hn).le
        simp [hne, h3, h2, Nudge.inf, Nudge.real, a1, hn]
    · simp [hne, h3.symm, Nudge.inf, Nudge.real]

/-- PER EDGE, EXACTLY: the finite nudge answers what the infinitesimal one answers iff `edgeNudgeOK`. -/
theorem rayIntersect_finite_nudge_iff' (next : α → α) (p s e : Pt α) (hn : p.x < next p.x) :
    rayIntersect (Nudge.real next) p s e = rayIntersect Nudge.inf p s e ↔ edgeNudgeOK next p s e = true := by
  rcases le_or_gt s.x e.x with h | h
  · exact real_norm next p s e hn h
  · rw [real_swap next p s e h, ray_swap p s e h, ← edgeNudgeOK_swap' next p s e]
    exact real_norm next p e s hn h.le

/-- a point of the closed segment is never in the nudge-sensitive alignment -/
theorem edgeNudgeOK_of_onSeg (next : α → α) (p s e : Pt α) (h : onSeg s e p = true) :
    edgeNudgeOK next p s e = true := by
  have key : ∀ l r : Pt α, onSeg l r p = true → p.x = l.x → l.x < r.x → p.y = l.y := by
    intro l r ho h1 h2
    have hc := ((onSeg_iff l r p).1 ho).1
    have : EvenOdd.cross l r p = (r.x - l.x) * (p.y - l.y) := by simp only [EvenOdd.cross, h1]; ring
    rw [this] at hc
    rcases mul_eq_zero.1 hc with a | a
    · exact absurd a (sub_pos.mpr h2).ne'
    · exact sub_eq_zero.1 a
  unfold edgeNudgeOK
  by_cases hx : e.x < s.x
  · simp only [show (if e.x < s.x then e else s) = e from if_pos hx,
      show (if e.x < s.x then s else e) = s from if_pos hx]
    rw [← onSeg_swap] at h
    have : (p.x == e.x && decide (e.x < s.x) && !(p.y == e.y)) = false := by
      rw [Bool.eq_false_iff]; intro c; simp at c; exact c.2 (key e s h c.1.1 c.1.2)
    rw [this]; rfl
  · simp only [hx, if_false]
    have : (p.x == s.x && decide (s.x < e.x) && !(p.y == s.y)) = false := by
      rw [Bool.eq_false_iff]; intro c; simp at c; exact c.2 (key s e h c.1.1 c.1.2)
    rw [this]; rfl

/-- on the closed segment every finite nudge reports `on` -/
theorem rayIntersect_real_on' (next : α → α) (p s e : Pt α) (hn : p.x < next p.x) (h : onSeg s e p = true) :
    rayIntersect (Nudge.real next) p s e = (false, true) := by
  rw [(rayIntersect_finite_nudge_iff' next p s e hn).2 (edgeNudgeOK_of_onSeg next p s e h), ray_eq, h]; rfl

theorem ringLoop_congr (N₁ N₂ : Nudge α) (p : Pt α) (l : List (Pt α)) (c : Bool)
    (h : ∀ se ∈ chain l, rayIntersect N₁ p se.1 se.2 = rayIntersect N₂ p se.1 se.2) :
    ringLoop N₁ p l c = ringLoop N₂ p l c := by
  induction l generalizing c with
  | nil => rfl
  | cons a l ih =>
    cases l with
    | nil => rfl
    | cons b t =>
      have h0 : rayIntersect N₁ p a b = rayIntersect N₂ p a b := h (a, b) (by simp [chain])
      rw [ringLoop, ringLoop, h0]
      by_cases h2 : (rayIntersect N₂ p a b).2 = true
      · simp [h2]
      · simp only [h2]
        exact ih _ (fun se hse => h se (by rw [chain]; exact List.mem_cons_of_mem _ hse))

theorem ringLoop_real_on (next : α → α) (p : Pt α) (hn : p.x < next p.x) (l : List (Pt α)) (c : Bool)
    (h : ∃ se ∈ chain l, onSeg se.1 se.2 p = true) : ringLoop (Nudge.real next) p l c = true := by
  induction l generalizing c with
  | nil => simp [chain] at h
  | cons a l ih =>
    cases l with
    | nil => simp [chain] at h
    | cons b t =>
      rw [ringLoop]
      obtain ⟨se, hse, ho⟩ := h
      rw [chain, List.mem_cons] at hse
      by_cases h2 : (rayIntersect (Nudge.real next) p a b).2 = true
      · simp [h2]
      · simp only [h2]
        rcases hse with rfl | hse
        · rw [rayIntersect_real_on' next p _ _ hn ho] at h2
          exact absurd rfl h2
        · exact ih _ ⟨se, hse, ho⟩

/-- a finite nudge never makes `RingContains` panic: the answer is always a `Bool` -/
theorem ringContains_real_ok (next : α → α) (eb : Bound α) (he : eb.isEmpty = true) (r : List (Pt α)) (p : Pt α) :
    ∃ b, ringContains (Nudge.real next) eb r p = .ok b := by
  unfold ringContains
  cases hb : (multiPointBound eb r).contains p with
  | false => exact ⟨false, by simp⟩
  | true =>
    cases r with
    | nil =>
      exfalso
      rw [multiPointBound, contains_iff'] at hb
      exact (isEmpty_iff' eb).1 he ⟨p, hb⟩
    | cons v t =>
      simp only [Bool.not_true, Bool.false_eq_true, if_false]
      split_ifs
      · exact ⟨true, rfl⟩
      · exact ⟨_, rfl⟩

/-- RING LEVEL, any finite nudge, the exact per-edge condition on every edge: the finite nudge answers what
    the infinitesimal one answers -/
theorem ringContains_real_eq_inf (next : α → α) (eb : Bound α) (r : List (Pt α)) (p : Pt α) (hn : p.x < next p.x)
    (h : ∀ se ∈ edges r, edgeNudgeOK next p se.1 se.2 = true) :
    ringContains (Nudge.real next) eb r p = ringContains Nudge.inf eb r p := by
  unfold ringContains
  cases r with
  | nil => rfl
  | cons v t =>
    simp only []
    rw [edges_cons] at h
    have h0 : rayIntersect (Nudge.real next) p v ((v :: t).getLast?.getD v) =
        rayIntersect Nudge.inf p v ((v :: t).getLast?.getD v) := by
      rw [getLast?_getD_eq, rayIntersect_finite_nudge_iff' next p _ _ hn, edgeNudgeOK_swap']
      exact h (lastD' v t, v) (List.mem_cons_self ..)
    rw [h0, ringLoop_congr (Nudge.real next) Nudge.inf p (v :: t) _
      (fun se hse => (rayIntersect_finite_nudge_iff' next p _ _ hn).2 (h se (List.mem_cons_of_mem _ hse)))]

/-- ON THE BOUNDARY no condition on the size of the nudge is needed: `RingContains` answers `true` -/
theorem ringContains_real_on_boundary' (next : α → α) (eb : Bound α) (he : eb.isEmpty = true) (r : List (Pt α))
    (p : Pt α) (hn : p.x < next p.x) (hb : onBoundary r p = true) :
    ringContains (Nudge.real next) eb r p = .ok true := by
  have hin : inside r p = true := by rw [inside, hb]; rfl
  have hI := ringContains_iff_inside' eb he r p
  rw [hin] at hI
  unfold ringContains at hI ⊢
  cases hc : (multiPointBound eb r).contains p with
  | false => rw [hc] at hI; simp at hI
  | true =>
    simp only [Bool.not_true, Bool.false_eq_true, if_false]
    cases r with
    | nil => simp [onBoundary, edges] at hb
    | cons v t =>
      simp only []
      rw [onBoundary, edges_cons, List.any_cons, Bool.or_eq_true, List.any_eq_true] at hb
      split_ifs with h2
      · rfl
      · rcases hb with hb | hb
        · rw [getLast?_getD_eq, rayIntersect_real_on' next p _ _ hn (by rw [onSeg_swap]; exact hb)] at h2
          exact absurd rfl h2
        · rw [ringLoop_real_on next p hn (v :: t) _ hb]

/-- `RingContains` with ANY finite nudge = the closed even-odd region, provided that OFF THE BOUNDARY every
    edge satisfies the exact per-edge condition `edgeNudgeOK` -/
theorem ringContains_finite_nudge_exact' (next : α → α) (eb : Bound α) (he : eb.isEmpty = true) (r : List (Pt α))
    (p : Pt α) (hn : p.x < next p.x)
    (h : onBoundary r p = false → ∀ se ∈ edges r, edgeNudgeOK next p se.1 se.2 = true) :
    ringContains (Nudge.real next) eb r p = .ok (inside r p) := by
  cases hb : onBoundary r p with
  | true =>
    rw [ringContains_real_on_boundary' next eb he r p hn hb, inside, hb]; rfl
  | false =>
    rw [ringContains_real_eq_inf next eb r p hn (h hb), ringContains_iff_inside' eb he]

/-- the readable sufficient condition implies the exact one (normalised edge) -/
theorem edgeNudgeOK_of_small_norm (ε : α) (p l r : Pt α) (h : l.x ≤ r.x)
    (ge : p.x < r.x → p.x + ε ≤ r.x)
    (hs : l.x ≠ r.x → p.x = min l.x r.x → min l.y r.y ≤ p.y → p.y ≤ max l.y r.y →
      ε * |r.y - l.y| < |EvenOdd.cross l r p|) :
    edgeNudgeOK (· + ε) p l r = true := by
  unfold edgeNudgeOK
  simp only [not_lt.mpr h, if_false]
  by_cases c : (p.x == l.x && decide (l.x < r.x) && !(p.y == l.y)) = true
  · rw [if_pos c]
    simp only [Bool.and_eq_true, beq_iff_eq, decide_eq_true_eq, Bool.not_eq_true', beq_eq_false_iff_ne, ne_eq] at c
    obtain ⟨⟨c1, c2⟩, c3⟩ := c
    have hcr : EvenOdd.cross l r p = (r.x - l.x) * (p.y - l.y) := by simp only [EvenOdd.cross, c1]; ring
    have hd : p.x + ε - l.x = ε := by rw [c1]; ring
    have hpos : 0 < r.x - l.x := sub_pos.mpr c2
    have hs' := hs c2.ne (by rw [min_eq_left h]; exact c1)
    rw [hcr, abs_mul, abs_of_pos hpos] at hs'
    rw [hd]
    by_cases c4 : p.y < l.y
    · rw [if_pos c4]
      simp only [Bool.and_eq_true, Bool.or_eq_true, decide_eq_true_eq]
      refine ⟨ge (c1 ▸ c2), ?_⟩
      by_cases c5 : p.y < r.y
      · exact Or.inl c5
      · right
        have c5' : r.y ≤ p.y := not_lt.1 c5
        have := hs' (by rw [min_eq_right (c5'.trans c4.le)]; exact c5') (by rw [max_eq_left (c5'.trans c4.le)]; exact c4.le)
        rw [abs_of_nonpos (sub_nonpos.mpr (c5'.trans c4.le)), abs_of_neg (sub_neg.mpr c4)] at this
        nlinarith
    · rw [if_neg c4]
      have c4' : l.y < p.y := lt_of_le_of_ne (not_lt.1 c4) (Ne.symm c3)
      simp only [Bool.or_eq_true, Bool.not_eq_true', Bool.and_eq_false_iff, decide_eq_false_iff_not, decide_eq_true_eq]
      by_cases c5 : p.y ≤ r.y
      · right
        have := hs' (by rw [min_eq_left (c4'.le.trans c5)]; exact c4'.le) (by rw [max_eq_right (c4'.le.trans c5)]; exact c5)
        rw [abs_of_nonneg (sub_nonneg.mpr (c4'.le.trans c5)), abs_of_pos (sub_pos.mpr c4')] at this
        nlinarith
      · exact Or.inl (Or.inl c5)
  · rw [if_neg c]

theorem edgeNudgeOK_of_small (ε : α) (p s e : Pt α)
    (gs : p.x < s.x → p.x + ε ≤ s.x) (ge : p.x < e.x → p.x + ε ≤ e.x)
    (hs : s.x ≠ e.x → p.x = min s.x e.x → min s.y e.y ≤ p.y → p.y ≤ max s.y e.y →
      ε * |e.y - s.y| < |EvenOdd.cross s e p|) :
    edgeNudgeOK (· + ε) p s e = true := by
  rcases le_or_gt s.x e.x with h | h
  · exact edgeNudgeOK_of_small_norm ε p s e h ge hs
  · rw [← edgeNudgeOK_swap']
    refine edgeNudgeOK_of_small_norm ε p e s h.le gs ?_
    intro a b c d
    rw [cross_swap, abs_neg, abs_sub_comm]
    exact hs a.symm (by rw [min_comm]; exact b) (by rw [min_comm]; exact c) (by rw [max_comm]; exact d)

theorem lt_addEps (ε : α) (hε : 0 < ε) (x : α) : x < (· + ε) x := lt_add_of_pos_right x hε

/-- the readable sufficient condition for a ring and the nudge `x ↦ x + ε`: `ε` is at most every positive gap
    `v.x − p.x` to a vertex abscissa, and for every non-vertical edge whose LEFT endpoint is level with the query
    (`p.x = min s.x e.x`) and whose `y`-range contains `p.y`, `ε·|e.y − s.y| < |cross s e p|` (the horizontal
    distance from `p` to the edge's line exceeds `ε`) -/
def NudgeSmall (ε : α) (r : List (Pt α)) (p : Pt α) : Prop :=
  (∀ v ∈ r, p.x < v.x → p.x + ε ≤ v.x) ∧
  (∀ se ∈ edges r, se.1.x ≠ se.2.x → p.x = min se.1.x se.2.x →
      min se.1.y se.2.y ≤ p.y → p.y ≤ max se.1.y se.2.y →
      ε * |se.2.y - se.1.y| < |EvenOdd.cross se.1 se.2 p|)

theorem nudgeSmall_ok (ε : α) (r : List (Pt α)) (p : Pt α) (h : NudgeSmall ε r p) :
    ∀ se ∈ edges r, edgeNudgeOK (· + ε) p se.1 se.2 = true := by
  intro se hse
  have hm := mem_edges (s := se.1) (e := se.2) hse
  exact edgeNudgeOK_of_small ε p se.1 se.2 (h.1 _ hm.1) (h.1 _ hm.2) (h.2 se hse)

/-- EDGE LEVEL, concrete nudge `x ↦ x + ε`, `ε > 0`. -/
theorem rayIntersect_finite_nudge' (ε : α) (hε : 0 < ε) (p s e : Pt α)
    (gs : p.x < s.x → p.x + ε ≤ s.x) (ge : p.x < e.x → p.x + ε ≤ e.x)
    (hs : s.x ≠ e.x → p.x = min s.x e.x → min s.y e.y ≤ p.y → p.y ≤ max s.y e.y →
      ε * |e.y - s.y| < |EvenOdd.cross s e p|) :
    rayIntersect (Nudge.real (· + ε)) p s e = rayIntersect Nudge.inf p s e :=
  (rayIntersect_finite_nudge_iff' _ p s e (lt_addEps ε hε p.x)).2 (edgeNudgeOK_of_small ε p s e gs ge hs)

/-- RING LEVEL, concrete nudge `x ↦ x + ε`, `ε > 0`: the hypothesis is needed off the boundary only. -/
theorem ringContains_finite_nudge' (ε : α) (hε : 0 < ε) (eb : Bound α) (he : eb.isEmpty = true)
    (r : List (Pt α)) (p : Pt α) (h : onBoundary r p = false → NudgeSmall ε r p) :
    ringContains (Nudge.real (· + ε)) eb r p = .ok (inside r p) :=
  ringContains_finite_nudge_exact' _ eb he r p (lt_addEps ε hε p.x) (fun hb => nudgeSmall_ok ε r p (h hb))

theorem holesLoop_finite (next : α → α) (eb : Bound α) (he : eb.isEmpty = true) (p : Pt α) (hn : p.x < next p.x)
    (holes : List (List (Pt α)))
    (h : ∀ rg ∈ holes, onBoundary rg p = false → ∀ se ∈ edges rg, edgeNudgeOK next p se.1 se.2 = true) :
    holesLoop (Nudge.real next) eb p holes = .ok (holes.all fun h => !inside h p) := by
  induction holes with
  | nil => rfl
  | cons hd t ih =>
    rw [holesLoop, ringContains_finite_nudge_exact' next eb he hd p hn (h hd (List.mem_cons_self ..)), List.all_cons]
    have ih' := ih (fun rg hrg => h rg (List.mem_cons_of_mem _ hrg))
    cases inside hd p
    · simpa using ih'
    · rfl

/-- ENTRY-POINT LEVEL: `PolygonContains` with a finite nudge = inside the outer ring and in no hole -/
theorem polygonContains_finite_nudge_exact' (next : α → α) (eb : Bound α) (he : eb.isEmpty = true)
    (outer : List (Pt α)) (holes : List (List (Pt α))) (p : Pt α) (hn : p.x < next p.x)
    (h : ∀ rg ∈ outer :: holes, onBoundary rg p = false → ∀ se ∈ edges rg, edgeNudgeOK next p se.1 se.2 = true) :
    polygonContains (Nudge.real next) eb (outer :: holes) p =
      .ok (inside outer p && holes.all fun h => !inside h p) := by
  rw [polygonContains, ringContains_finite_nudge_exact' next eb he outer p hn (h outer (List.mem_cons_self ..))]
  have hh := holesLoop_finite next eb he p hn holes (fun rg hrg => h rg (List.mem_cons_of_mem _ hrg))
  cases inside outer p
  · rfl
  · simpa using hh

theorem multiPolygonContains_finite_nudge_exact' (next : α → α) (eb : Bound α) (he : eb.isEmpty = true)
    (mp : List (List (List (Pt α)))) (hne : ∀ pg ∈ mp, pg ≠ []) (p : Pt α) (hn : p.x < next p.x)
    (h : ∀ pg ∈ mp, ∀ rg ∈ pg, onBoundary rg p = false → ∀ se ∈ edges rg, edgeNudgeOK next p se.1 se.2 = true) :
    multiPolygonContains (Nudge.real next) eb mp p = .ok (mp.any fun pg => polyInside pg p) := by
  induction mp with
  | nil => rfl
  | cons pg t ih =>
    cases pg with
    | nil => exact absurd rfl (hne [] (List.mem_cons_self ..))
    | cons outer holes =>
      rw [multiPolygonContains, polygonContains_finite_nudge_exact' next eb he outer holes p hn
        (h _ (List.mem_cons_self ..)), List.any_cons]
      have ih' := ih (fun q hq => hne q (List.mem_cons_of_mem _ hq)) (fun q hq => h q (List.mem_cons_of_mem _ hq))
      have hp : polyInside (outer :: holes) p = (inside outer p && holes.all fun h => !inside h p) := rfl
      rw [hp]
      cases (inside outer p && holes.all fun h => !inside h p)
      · simpa using ih'
      · rfl

/-- the holes loop answers `false` as soon as one hole has the point on its boundary — whatever the finite
    nudge does on the other holes -/
theorem holesLoop_real_on_boundary (next : α → α) (eb : Bound α) (he : eb.isEmpty = true) (p : Pt α)
    (hn : p.x < next p.x) (holes : List (List (Pt α))) (hole : List (Pt α)) (hm : hole ∈ holes)
    (hb : onBoundary hole p = true) : holesLoop (Nudge.real next) eb p holes = .ok false := by
  induction holes with
  | nil => simp at hm
  | cons hd t ih =>
    rw [holesLoop]
    rcases List.mem_cons.1 hm with rfl | hm
    · rw [ringContains_real_on_boundary' next eb he hole p hn hb]
    · obtain ⟨b, hb'⟩ := ringContains_real_ok next eb he hd p
      rw [hb']
      cases b
      · exact ih hm
      · rfl

/-- A POINT ON A HOLE'S BOUNDARY IS NOT IN THE POLYGON — at the entry point, for every finite nudge and with no
    condition on its size (and for the infinitesimal nudge by `polygonContains_iff'`). -/
theorem polygonContains_real_on_hole_boundary' (next : α → α) (eb : Bound α) (he : eb.isEmpty = true)
    (outer : List (Pt α)) (holes : List (List (Pt α))) (p : Pt α) (hn : p.x < next p.x)
    (hole : List (Pt α)) (hm : hole ∈ holes) (hb : onBoundary hole p = true) :
    polygonContains (Nudge.real next) eb (outer :: holes) p = .ok false := by
  rw [polygonContains]
  obtain ⟨b, hb'⟩ := ringContains_real_ok next eb he outer p
  rw [hb']
  cases b
  · rfl
  · exact holesLoop_real_on_boundary next eb he p hn holes hole hm hb

theorem polygonContains_on_hole_boundary' (eb : Bound α) (he : eb.isEmpty = true)
    (outer : List (Pt α)) (holes : List (List (Pt α))) (p : Pt α)
    (hole : List (Pt α)) (hm : hole ∈ holes) (hb : onBoundary hole p = true) :
    polygonContains Nudge.inf eb (outer :: holes) p = .ok false := by
  rw [polygonContains_iff' eb he]
  have : (holes.all fun h => !inside h p) = false := by
    rw [List.all_eq_false]
    exact ⟨hole, hm, by simp [inside, hb]⟩
  rw [this, Bool.and_false]

end model

section variants
variable {α : Type} [Field α] [LinearOrder α] [IsStrictOrderedRing α]

/-- rotation permutes the edges -/
theorem edges_rotate_perm (a b : List (Pt α)) : (edges (b ++ a)).Perm (edges (a ++ b)) := by
  cases a with
  | nil => simp
  | cons a0 as =>
    cases b with
    | nil => simp
    | cons b0 bs =>
      have h1 : (edges (b0 :: bs ++ a0 :: as)).Perm (chain (b0 :: bs ++ [a0]) ++ chain (a0 :: as ++ [b0])) := by
        refine (edges_perm b0 (bs ++ a0 :: as)).trans ?_
        rw [show b0 :: (bs ++ a0 :: as) ++ [b0] = (b0 :: bs) ++ a0 :: (as ++ [b0]) by simp, chain_append]
        exact List.Perm.refl _
      have h2 : (edges (a0 :: as ++ b0 :: bs)).Perm (chain (a0 :: as ++ [b0]) ++ chain (b0 :: bs ++ [a0])) := by
        refine (edges_perm a0 (as ++ b0 :: bs)).trans ?_
        rw [show a0 :: (as ++ b0 :: bs) ++ [a0] = (a0 :: as) ++ b0 :: (bs ++ [a0]) by simp, chain_append]
        exact List.Perm.refl _
      exact h1.trans (List.perm_append_comm.trans h2.symm)

/-- reversal permutes the edges and turns each around -/
theorem edges_reverse_perm (r : List (Pt α)) : (edges r.reverse).Perm ((edges r).map Prod.swap) := by
  cases r with
  | nil => simp [edges]
  | cons v t =>
    rw [List.reverse_cons]
    refine (edges_rotate_perm [v] t.reverse).trans ?_
    rw [List.singleton_append]
    refine (edges_perm v t.reverse).trans ?_
    refine List.Perm.trans ?_ ((edges_perm v t).map Prod.swap).symm
    have : v :: t.reverse ++ [v] = (v :: t ++ [v]).reverse := by simp
    rw [this, chain_reverse]
    exact List.reverse_perm _

/-- explicit closing adds the degenerate edge `(v, v)` -/
theorem edges_close_perm (v : Pt α) (t : List (Pt α)) :
    (edges (v :: t ++ [v])).Perm ((v, v) :: edges (v :: t)) := by
  have h1 : edges (v :: t ++ [v]) = (v, v) :: chain (v :: t ++ [v]) := by
    rw [List.cons_append, edges_cons]
    congr 2
    have : ∀ (w : Pt α) (l : List (Pt α)), lastD' w (l ++ [v]) = v := by
      intro w l
      induction l generalizing w with
      | nil => rfl
      | cons b l ih => exact ih b
    exact this v t
  rw [h1]
  exact List.Perm.cons _ (edges_perm v t).symm

theorem edgeNudgeOK_self (next : α → α) (p v : Pt α) : edgeNudgeOK next p v v = true := by
  unfold edgeNudgeOK
  simp

/-- what the driver evaluates, on the base ring only: every edge meets the exact per-edge condition, or the
    point is on the boundary (where nothing is required) -/
def NudgeCond (next : α → α) (r : List (Pt α)) (p : Pt α) : Prop :=
  (∀ se ∈ edges r, edgeNudgeOK next p se.1 se.2 = true) ∨ onBoundary r p = true

theorem nudgeCond_of_perm (next : α → α) (r r' : List (Pt α)) (p : Pt α) (h : (edges r').Perm (edges r))
    (c : NudgeCond next r p) : NudgeCond next r' p := by
  rcases c with c | c
  · exact Or.inl fun se hse => c se (h.mem_iff.1 hse)
  · right
    rw [onBoundary, List.any_eq_true] at c ⊢
    obtain ⟨se, hse, ho⟩ := c
    exact ⟨se, h.mem_iff.2 hse, ho⟩

theorem nudgeCond_rotate' (next : α → α) (a b : List (Pt α)) (p : Pt α) (c : NudgeCond next (a ++ b) p) :
    NudgeCond next (b ++ a) p :=
  nudgeCond_of_perm next (a ++ b) (b ++ a) p (edges_rotate_perm a b) c

theorem nudgeCond_reverse' (next : α → α) (r : List (Pt α)) (p : Pt α) (c : NudgeCond next r p) :
    NudgeCond next r.reverse p := by
  have h := edges_reverse_perm r
  rcases c with c | c
  · left
    intro se hse
    have := h.mem_iff.1 hse
    rw [List.mem_map] at this
    obtain ⟨se', hse', rfl⟩ := this
    rw [Prod.fst_swap, Prod.snd_swap, edgeNudgeOK_swap']
    exact c se' hse'
  · right
    rw [onBoundary, List.any_eq_true] at c ⊢
    obtain ⟨se, hse, ho⟩ := c
    refine ⟨se.swap, h.mem_iff.2 (List.mem_map.2 ⟨se, hse, rfl⟩), ?_⟩
    rw [Prod.fst_swap, Prod.snd_swap, onSeg_swap]
    exact ho

theorem nudgeCond_close' (next : α → α) (v : Pt α) (t : List (Pt α)) (p : Pt α) (c : NudgeCond next (v :: t) p) :
    NudgeCond next (v :: t ++ [v]) p := by
  have h := edges_close_perm v t
  rcases c with c | c
  · left
    intro se hse
    rcases List.mem_cons.1 (h.mem_iff.1 hse) with rfl | hm
    · exact edgeNudgeOK_self next p v
    · exact c se hm
  · right
    rw [onBoundary, List.any_eq_true] at c ⊢
    obtain ⟨se, hse, ho⟩ := c
    exact ⟨se, h.mem_iff.2 (List.mem_cons_of_mem _ hse), ho⟩

theorem ringContains_of_nudgeCond (next : α → α) (eb : Bound α) (he : eb.isEmpty = true) (r : List (Pt α))
    (p : Pt α) (hn : p.x < next p.x) (c : NudgeCond next r p) :
    ringContains (Nudge.real next) eb r p = .ok (inside r p) := by
  apply ringContains_finite_nudge_exact' next eb he r p hn
  intro hb
  rcases c with c | c
  · exact c
  · rw [hb] at c; exact absurd c (by simp)

end variants

end Orb.Contains
