/-
  C11 — translation tie for quadtree/quadtree.go: `childIndex`, the quadrant choice and child-cell
  computation at the head of `Quadtree.add`, and `planar.DistanceSquared` as the visitors use it.
  `Generated/QuadtreeGo.lean` is REGENERATED from /repo on every run by
  harness/cmd/factgen/translate_float.go.
-/
import Orb.Quadtree
import Generated.QuadtreeGo
import Generated.PlanarGo

namespace Orb.C11Tie
open Orb Orb.Core

set_option linter.unusedSectionVars false

variable {α : Type} [Add α] [Sub α] [Mul α] [Div α] [Neg α] [LT α] [LE α] [DecidableLT α] [DecidableLE α]
  [BEq α] [Min α] [Max α] [OfNat α 0] [OfNat α 1] [OfNat α 2] [OfNat α 6] [NatCast α]

/-- `childIndex`: the Go code sets `i = 2` and then `i++`; the model adds the two contributions -/
theorem childIndex_tie (cx cy : α) (p : Pt α) :
    Generated.QuadtreeGo.childIndex cx cy p = Quadtree.childIndex cx cy p := by
  unfold Generated.QuadtreeGo.childIndex Quadtree.childIndex
  split <;> split <;> rfl

/-- the statements of `Quadtree.add` before the child is looked at: they compute the child index
    and shrink `left, right, bottom, top` to the child's cell, which the model writes as
    `childIndex c.cx c.cy p` and `c.sub i` -/
theorem addDescend_tie (p : Pt α) (c : Quadtree.Cell α) :
    Generated.QuadtreeGo.addDescend p c.l c.r c.b c.t =
      (let i := Quadtree.childIndex c.cx c.cy p
       (i, (c.sub i).l, (c.sub i).r, (c.sub i).b, (c.sub i).t)) := by
  unfold Generated.QuadtreeGo.addDescend Quadtree.childIndex
  by_cases h1 : p.y ≤ (c.b + c.t) / 2 <;> by_cases h2 : p.x ≥ (c.l + c.r) / 2 <;>
    simp [h1, h2, Quadtree.Cell.sub, Quadtree.Cell.cx, Quadtree.Cell.cy]

/-- `planar.DistanceSquared`, called by `findVisitor.Visit` and `nearestVisitor.Visit` -/
theorem distSq_tie (p q : Pt α) : Generated.PlanarGo.distanceSquared p q = Quadtree.distSq p q := rfl

theorem all_translated_QuadtreeGo : Generated.QuadtreeGo.translated = ["childIndex", "addDescend"] := by
  decide

end Orb.C11Tie
