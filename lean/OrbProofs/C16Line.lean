/-
  C16 lemmas, part E: what `smartclip` relies on from the open-bound line clipper `Clip.line box true`
  (model of clip/clip.go): it never gets stuck, every piece has at least two points inside the closed
  box, starts on the boundary unless it starts at a first vertex strictly inside, and ends on the
  boundary unless it ends at a last vertex strictly inside.

  The segment-level theory (namespace `LE`, up to `segLoop_spec`) is a copy, under new names, of the
  proved C07 development (OrbProofs/C07Seg.lean, C07SegLoop.lean, parts of C07Line.lean).  It reasons about
  the inner loop without the rounding guards (`segLoopU`, OrbProofs/ClipLoop.lean); `lineStep_eq_U` (from
  the C07 bridge `Clip.lineStep_eq_U`: over a field the guards of the model's loop change nothing) carries
  the results over to the model.
-/
import OrbProofs.C16Tables
import OrbProofs.C07Line
import Mathlib.Tactic.FieldSimp
import Mathlib.Tactic.Push

set_option linter.unusedSectionVars false
set_option linter.unusedVariables false

namespace Orb.SmartClip
open Orb Orb.Core

variable {α : Type} [Field α] [LinearOrder α] [IsStrictOrderedRing α]

/-- the specification of `Clip.line box true` used by smartclip -/
def LineSpec (box : Bound α) : Prop :=
  ∀ inp : List (Pt α), ∃ out, Clip.line box true inp = some out ∧
    (∀ piece ∈ out, 2 ≤ piece.length) ∧
    (∀ piece ∈ out, ∀ v ∈ piece, InBox box v) ∧
    (∀ (k : Nat) (piece : List (Pt α)), out[k]? = some piece → ∀ p, piece.head? = some p →
      OnBoundary box p ∨ (k = 0 ∧ inp.head? = some p ∧ InOpenBox box p)) ∧
    (∀ (k : Nat) (piece : List (Pt α)), out[k]? = some piece → ∀ p, piece.getLast? = some p →
      OnBoundary box p ∨ (k + 1 = out.length ∧ inp.getLast? = some p ∧ InOpenBox box p)) ∧
    -- a first / last vertex strictly inside is kept as the start of the first / end of the last piece
    (2 ≤ inp.length → ∀ p, inp.head? = some p → InOpenBox box p →
      ∃ piece, out[0]? = some piece ∧ piece.head? = some p) ∧
    (2 ≤ inp.length → ∀ p, inp.getLast? = some p → InOpenBox box p →
      ∃ piece, out.getLast? = some piece ∧ piece.getLast? = some p)

namespace LE
open Generated.Params
open Orb.Clip (bitCode intersect segLoop segLoopU Seg push lineStep lineStepU lineLoop line LineSt)

/-- the point at parameter `t` of the segment `a b` -/
def lerp (a b : Pt α) (t : α) : Pt α := ⟨a.x + t * (b.x - a.x), a.y + t * (b.y - a.y)⟩

/-- `q` lies on the closed segment `a b` -/
def OnSeg (a b q : Pt α) : Prop := ∃ t, 0 ≤ t ∧ t ≤ 1 ∧ q = lerp a b t

/-! ### points, `lerp`, `OnSeg` -/

theorem pt_eq {p q : Pt α} (hx : p.x = q.x) (hy : p.y = q.y) : p = q := by
  cases p; cases q; simp_all

@[simp] theorem lerp_x (a b : Pt α) (t : α) : (lerp a b t).x = a.x + t * (b.x - a.x) := rfl
@[simp] theorem lerp_y (a b : Pt α) (t : α) : (lerp a b t).y = a.y + t * (b.y - a.y) := rfl

theorem lerp_zero (a b : Pt α) : lerp a b 0 = a := by
  apply pt_eq <;> simp

theorem lerp_one (a b : Pt α) : lerp a b 1 = b := by
  apply pt_eq <;> simp

theorem lerp_lerp (a b : Pt α) (s e t : α) :
    lerp (lerp a b s) (lerp a b e) t = lerp a b (s + t * (e - s)) := by
  apply pt_eq <;> simp only [lerp_x, lerp_y] <;> ring

theorem onSeg_left (a b : Pt α) : OnSeg a b a := ⟨0, le_refl _, zero_le_one, (lerp_zero a b).symm⟩
theorem onSeg_right (a b : Pt α) : OnSeg a b b := ⟨1, zero_le_one, le_refl _, (lerp_one a b).symm⟩

theorem onSeg_lerp (a b : Pt α) {t : α} (h0 : 0 ≤ t) (h1 : t ≤ 1) : OnSeg a b (lerp a b t) :=
  ⟨t, h0, h1, rfl⟩

/-- a sub-segment of a segment lies on the segment -/
theorem OnSeg.sub {a b a' b' q : Pt α} (ha : OnSeg a b a') (hb : OnSeg a b b')
    (hq : OnSeg a' b' q) : OnSeg a b q := by
  obtain ⟨s, hs0, hs1, rfl⟩ := ha
  obtain ⟨e, he0, he1, rfl⟩ := hb
  obtain ⟨t, ht0, ht1, rfl⟩ := hq
  refine ⟨s + t * (e - s), ?_, ?_, lerp_lerp a b s e t⟩
  · nlinarith [mul_nonneg ht0 he0, mul_nonneg (sub_nonneg.2 ht1) hs0]
  · nlinarith [mul_nonneg ht0 (sub_nonneg.2 he1), mul_nonneg (sub_nonneg.2 ht1) (sub_nonneg.2 hs1)]

/-- a parameter between `s` and `e` gives a point of the sub-segment -/
theorem onSeg_between (a b : Pt α) {s e t : α} (hst : s ≤ t) (hte : t ≤ e) :
    OnSeg (lerp a b s) (lerp a b e) (lerp a b t) := by
  rcases eq_or_lt_of_le (le_trans hst hte) with hse | hse
  · have : t = s := le_antisymm (hse ▸ hte) hst
    subst this
    exact onSeg_left _ _
  · have hpos : 0 < e - s := sub_pos.2 hse
    refine ⟨(t - s) / (e - s), div_nonneg (sub_nonneg.2 hst) hpos.le, ?_, ?_⟩
    · rw [div_le_one hpos]; linarith
    · rw [lerp_lerp]
      congr 1
      field_simp
      ring

/-! ### the four half-planes -/

/-- signed excess of `p` over the edge `k` (8 top, 4 bottom, 2 right, 1 left): positive = strictly
    beyond the edge, zero = on its line -/
def exc (box : Bound α) (k : Nat) (p : Pt α) : α :=
  if k = 8 then p.y - box.hi.y else if k = 4 then box.lo.y - p.y
  else if k = 2 then p.x - box.hi.x else box.lo.x - p.x

def Edge (k : Nat) : Prop := k = 8 ∨ k = 4 ∨ k = 2 ∨ k = 1

theorem exc_lerp (box : Bound α) (k : Nat) (a b : Pt α) (t : α) :
    exc box k (lerp a b t) = (1 - t) * exc box k a + t * exc box k b := by
  unfold exc lerp; split_ifs <;> ring

theorem inBox_iff {box : Bound α} {p : Pt α} : InBox box p ↔ ∀ k, Edge k → exc box k p ≤ 0 := by
  constructor
  · rintro ⟨h1, h2, h3, h4⟩ k (rfl | rfl | rfl | rfl) <;> simp [exc] <;> linarith
  · intro h
    have h8 := h 8 (Or.inl rfl)
    have h4 := h 4 (Or.inr (Or.inl rfl))
    have h2 := h 2 (Or.inr (Or.inr (Or.inl rfl)))
    have h1 := h 1 (Or.inr (Or.inr (Or.inr rfl)))
    simp [exc] at h8 h4 h2 h1
    exact ⟨h1, h2, h4, h8⟩

theorem inOpenBox_iff {box : Bound α} {p : Pt α} :
    InOpenBox box p ↔ ∀ k, Edge k → exc box k p < 0 := by
  constructor
  · rintro ⟨h1, h2, h3, h4⟩ k (rfl | rfl | rfl | rfl) <;> simp [exc] <;> linarith
  · intro h
    have h8 := h 8 (Or.inl rfl)
    have h4 := h 4 (Or.inr (Or.inl rfl))
    have h2 := h 2 (Or.inr (Or.inr (Or.inl rfl)))
    have h1 := h 1 (Or.inr (Or.inr (Or.inr rfl)))
    simp [exc] at h8 h4 h2 h1
    exact ⟨h1, h2, h4, h8⟩

theorem inBox_of_inOpenBox {box : Bound α} {p : Pt α} (h : InOpenBox box p) : InBox box p :=
  ⟨h.1.le, h.2.1.le, h.2.2.1.le, h.2.2.2.le⟩

/-- the closed box is convex -/
theorem inBox_lerp {box : Bound α} {a b : Pt α} (ha : InBox box a) (hb : InBox box b) {t : α}
    (h0 : 0 ≤ t) (h1 : t ≤ 1) : InBox box (lerp a b t) := by
  rw [inBox_iff] at *
  intro k hk
  rw [exc_lerp]
  nlinarith [mul_nonneg (sub_nonneg.2 h1) (neg_nonneg.2 (ha k hk)), mul_nonneg h0 (neg_nonneg.2 (hb k hk))]

theorem inBox_of_onSeg {box : Bound α} {a b q : Pt α} (ha : InBox box a) (hb : InBox box b)
    (hq : OnSeg a b q) : InBox box q := by
  obtain ⟨t, h0, h1, rfl⟩ := hq
  exact inBox_lerp ha hb h0 h1

/-! ### region codes -/

/-- weak reading of a code, shared by `bitCode` and `bitCodeOpen`: a set bit puts the point weakly
    beyond that edge, a clear bit weakly within it -/
def W (box : Bound α) (c : Nat) (p : Pt α) : Prop :=
  c < 16 ∧ ∀ k, Edge k → (c &&& k ≠ 0 → 0 ≤ exc box k p) ∧ (c &&& k = 0 → exc box k p ≤ 0)

theorem bitCode_lt (box : Bound α) (p : Pt α) : bitCode box p < 16 := by
  unfold bitCode
  simp only [clip_codeLeft, clip_codeRight, clip_codeBottom, clip_codeTop]
  split_ifs <;> decide

theorem bitCodeOpen_lt (box : Bound α) (p : Pt α) : Clip.bitCodeOpen box p < 16 := by
  unfold Clip.bitCodeOpen
  simp only [clip_codeLeft, clip_codeRight, clip_codeBottom, clip_codeTop]
  split_ifs <;> decide

/-- closed code: bit set ↔ strictly beyond the edge -/
theorem bitCode_bit {box : Bound α} (hb : BoxOK box) (p : Pt α) {k : Nat} (hk : Edge k) :
    bitCode box p &&& k ≠ 0 ↔ 0 < exc box k p := by
  obtain ⟨hx, hy⟩ := hb
  rcases hk with rfl | rfl | rfl | rfl <;>
    simp only [bitCode, exc, clip_codeLeft, clip_codeRight, clip_codeBottom, clip_codeTop] <;>
    split_ifs <;>
    (constructor
     · intro h; first | linarith | exact absurd h (by decide)
     · intro h; first | decide | (exfalso; linarith))

/-- open code: bit set ↔ weakly beyond the edge -/
theorem bitCodeOpen_bit {box : Bound α} (hb : BoxOK box) (p : Pt α) {k : Nat} (hk : Edge k) :
    Clip.bitCodeOpen box p &&& k ≠ 0 ↔ 0 ≤ exc box k p := by
  obtain ⟨hx, hy⟩ := hb
  rcases hk with rfl | rfl | rfl | rfl <;>
    simp only [Clip.bitCodeOpen, exc, clip_codeLeft, clip_codeRight, clip_codeBottom, clip_codeTop] <;>
    split_ifs <;>
    (constructor
     · intro h; first | linarith | exact absurd h (by decide)
     · intro h; first | decide | (exfalso; linarith))

theorem W_bitCode {box : Bound α} (hb : BoxOK box) (p : Pt α) : W box (bitCode box p) p := by
  refine ⟨bitCode_lt box p, fun k hk => ⟨fun h => ((bitCode_bit hb p hk).1 h).le, fun h => ?_⟩⟩
  by_contra hc
  exact (bitCode_bit hb p hk).2 (not_le.1 hc) h

theorem W_bitCodeOpen {box : Bound α} (hb : BoxOK box) (p : Pt α) : W box (Clip.bitCodeOpen box p) p := by
  refine ⟨bitCodeOpen_lt box p, fun k hk => ⟨fun h => (bitCodeOpen_bit hb p hk).1 h, fun h => ?_⟩⟩
  by_contra hc
  exact (bitCodeOpen_bit hb p hk).2 (not_le.1 hc).le h

theorem W_zero_inBox {box : Bound α} {p : Pt α} (h : W box 0 p) : InBox box p := by
  rw [inBox_iff]
  intro k hk
  exact ((h.2 k hk).2 (Nat.zero_and k))

/-! ### pure bit facts on the sixteen codes -/

def mu (c : Nat) : Nat := c % 2 + c / 2 % 2 + c / 4 % 2 + c / 8 % 2

theorem Edge.mem {k : Nat} (h : Edge k) : k ∈ [8, 4, 2, 1] := by
  rcases h with rfl | rfl | rfl | rfl <;> simp

theorem edge_of_mem {k : Nat} (h : k ∈ [8, 4, 2, 1]) : Edge k := by
  simpa [Edge] using h

theorem bits_or_zero : ∀ c < 16, ∀ c' < 16, c ||| c' = 0 → c = 0 ∧ c' = 0 := by decide

theorem bits_first : ∀ c < 16, c ≠ 0 →
    c &&& 8 ≠ 0 ∨ (c &&& 8 = 0 ∧ c &&& 4 ≠ 0) ∨ (c &&& 8 = 0 ∧ c &&& 4 = 0 ∧ c &&& 2 ≠ 0) ∨
      (c &&& 8 = 0 ∧ c &&& 4 = 0 ∧ c &&& 2 = 0 ∧ c &&& 1 ≠ 0) := by decide

theorem bits_disj : ∀ c < 16, ∀ c' < 16, c &&& c' = 0 → ∀ k ∈ [8, 4, 2, 1], c &&& k ≠ 0 → c' &&& k = 0 := by
  decide

theorem bits_common : ∀ c < 16, ∀ c' < 16, c &&& c' ≠ 0 →
    ∃ k ∈ [8, 4, 2, 1], c &&& k ≠ 0 ∧ c' &&& k ≠ 0 := by decide

theorem bits_common' : ∀ c < 16, ∀ c' < 16, ∀ k ∈ [8, 4, 2, 1], c &&& k ≠ 0 → c' &&& k ≠ 0 →
    c &&& c' ≠ 0 := by decide

theorem bits_mu_le : ∀ c < 16, ∀ c' < 16, mu (c ||| c') ≤ 4 := by decide

set_option synthInstance.maxSize 100000 in
set_option maxRecDepth 100000 in
theorem bits_mu : ∀ c' < 16, ∀ c1 < 16, ∀ c2 < 16, ∀ k ∈ [8, 4, 2, 1], c1 &&& k ≠ 0 → c1 &&& c2 = 0 →
    c' &&& k = 0 → (∀ j ∈ [8, 4, 2, 1], c' &&& j ≠ 0 → c1 &&& j ≠ 0 ∨ c2 &&& j ≠ 0) →
    mu (c' ||| c2) < mu (c1 ||| c2) := by decide

/-! ### where a line crosses a threshold -/

/-- coordinate going up through `h` -/
theorem param_le {ya yb h : α} (ha : ya ≤ h) (hb : h ≤ yb) :
    0 ≤ (h - ya) / (yb - ya) ∧ (h - ya) / (yb - ya) ≤ 1 ∧
    ya + (h - ya) / (yb - ya) * (yb - ya) = h ∧
    (∀ t, 0 ≤ t → t < (h - ya) / (yb - ya) → ya + t * (yb - ya) < h) ∧
    (∀ t, (h - ya) / (yb - ya) < t → t ≤ 1 → h ≤ ya + t * (yb - ya)) ∧
    (h < yb → ∀ t, (h - ya) / (yb - ya) < t → h < ya + t * (yb - ya)) := by
  rcases eq_or_lt_of_le (le_trans ha hb) with hd | hd
  · have h1 : ya = h := le_antisymm ha (hd ▸ hb)
    subst h1
    subst hd
    simp only [sub_self, div_zero, mul_zero, add_zero]
    refine ⟨le_refl _, zero_le_one, trivial, ?_, ?_, ?_⟩
    · intro t h0 h1; exact absurd h1 (not_lt.2 h0)
    · intro t _ _; exact le_refl _
    · intro h; exact absurd h (lt_irrefl _)
  · have hpos : 0 < yb - ya := sub_pos.2 hd
    have hT : (h - ya) / (yb - ya) * (yb - ya) = h - ya := div_mul_cancel₀ _ hpos.ne'
    refine ⟨div_nonneg (sub_nonneg.2 ha) hpos.le, ?_, by linarith, ?_, ?_, ?_⟩
    · rw [div_le_one hpos]; linarith
    · intro t _ ht
      have := mul_lt_mul_of_pos_right ht hpos
      linarith
    · intro t ht _
      have := mul_lt_mul_of_pos_right ht hpos
      linarith
    · intro _ t ht
      have := mul_lt_mul_of_pos_right ht hpos
      linarith

/-- coordinate going down through `h` -/
theorem param_ge {ya yb h : α} (ha : h ≤ ya) (hb : yb ≤ h) :
    0 ≤ (h - ya) / (yb - ya) ∧ (h - ya) / (yb - ya) ≤ 1 ∧
    ya + (h - ya) / (yb - ya) * (yb - ya) = h ∧
    (∀ t, 0 ≤ t → t < (h - ya) / (yb - ya) → h < ya + t * (yb - ya)) ∧
    (∀ t, (h - ya) / (yb - ya) < t → t ≤ 1 → ya + t * (yb - ya) ≤ h) ∧
    (yb < h → ∀ t, (h - ya) / (yb - ya) < t → ya + t * (yb - ya) < h) := by
  have e : (-h - -ya) / (-yb - -ya) = (h - ya) / (yb - ya) := by
    rw [show -h - -ya = -(h - ya) by ring, show -yb - -ya = -(yb - ya) by ring, neg_div_neg_eq]
  obtain ⟨h0, h1, h2, h3, h4, h5⟩ := param_le (neg_le_neg ha) (neg_le_neg hb)
  rw [e] at h0 h1 h2 h3 h4 h5
  refine ⟨h0, h1, by linarith, ?_, ?_, ?_⟩
  · intro t ht0 ht; have := h3 t ht0 ht; linarith
  · intro t ht ht1; have := h4 t ht ht1; linarith
  · intro hlt t ht; have := h5 (neg_lt_neg hlt) t ht; linarith

/-! ### `intersect`, edge by edge -/

@[simp] theorem exc_8 (box : Bound α) (p : Pt α) : exc box 8 p = p.y - box.hi.y := by simp [exc]
@[simp] theorem exc_4 (box : Bound α) (p : Pt α) : exc box 4 p = box.lo.y - p.y := by simp [exc]
@[simp] theorem exc_2 (box : Bound α) (p : Pt α) : exc box 2 p = p.x - box.hi.x := by simp [exc]
@[simp] theorem exc_1 (box : Bound α) (p : Pt α) : exc box 1 p = box.lo.x - p.x := by simp [exc]

/-- `k` is the edge `intersect` picks for the code `c` -/
def FirstBit (c k : Nat) : Prop :=
  (k = 8 ∧ c &&& 8 ≠ 0) ∨ (k = 4 ∧ c &&& 8 = 0 ∧ c &&& 4 ≠ 0) ∨
  (k = 2 ∧ c &&& 8 = 0 ∧ c &&& 4 = 0 ∧ c &&& 2 ≠ 0) ∨
  (k = 1 ∧ c &&& 8 = 0 ∧ c &&& 4 = 0 ∧ c &&& 2 = 0 ∧ c &&& 1 ≠ 0)

theorem firstBit_exists {c : Nat} (hc : c < 16) (h0 : c ≠ 0) : ∃ k, FirstBit c k := by
  rcases bits_first c hc h0 with h | h | h | h
  · exact ⟨8, Or.inl ⟨rfl, h⟩⟩
  · exact ⟨4, Or.inr (Or.inl ⟨rfl, h⟩)⟩
  · exact ⟨2, Or.inr (Or.inr (Or.inl ⟨rfl, h⟩))⟩
  · exact ⟨1, Or.inr (Or.inr (Or.inr ⟨rfl, h⟩))⟩

theorem FirstBit.edge {c k : Nat} (h : FirstBit c k) : Edge k := by
  rcases h with ⟨rfl, _⟩ | ⟨rfl, _⟩ | ⟨rfl, _⟩ | ⟨rfl, _⟩ <;> simp [Edge]

theorem FirstBit.bit {c k : Nat} (h : FirstBit c k) : c &&& k ≠ 0 := by
  rcases h with ⟨rfl, h⟩ | ⟨rfl, _, h⟩ | ⟨rfl, _, _, h⟩ | ⟨rfl, _, _, _, h⟩ <;> exact h

/-- the point computed by `intersect` for the edge `k` -/
def cross (box : Bound α) (k : Nat) (a b : Pt α) : Pt α :=
  if k = 8 then ⟨a.x + (b.x - a.x) * (box.hi.y - a.y) / (b.y - a.y), box.hi.y⟩
  else if k = 4 then ⟨a.x + (b.x - a.x) * (box.lo.y - a.y) / (b.y - a.y), box.lo.y⟩
  else if k = 2 then ⟨box.hi.x, a.y + (b.y - a.y) * (box.hi.x - a.x) / (b.x - a.x)⟩
  else ⟨box.lo.x, a.y + (b.y - a.y) * (box.lo.x - a.x) / (b.x - a.x)⟩

theorem intersect_eq_cross (box : Bound α) {c k : Nat} (h : FirstBit c k) (a b : Pt α) :
    intersect box c a b = some (cross box k a b) := by
  rcases h with ⟨rfl, h8⟩ | ⟨rfl, h8, h4⟩ | ⟨rfl, h8, h4, h2⟩ | ⟨rfl, h8, h4, h2, h1⟩ <;>
    simp [intersect, cross, clip_codeLeft, clip_codeRight, clip_codeBottom, clip_codeTop, *]
  rw [Nat.and_one_is_mod] at h1; omega

/-- the moved end is the start `a` (weakly beyond edge `k`, `b` weakly within): the crossing point is
    `lerp a b T`, lies on the edge line, and everything before it is strictly beyond the edge -/
theorem cross_startEnd (box : Bound α) {k : Nat} (hk : Edge k) (a b : Pt α)
    (ha : 0 ≤ exc box k a) (hb : exc box k b ≤ 0) :
    ∃ T, 0 ≤ T ∧ T ≤ 1 ∧ cross box k a b = lerp a b T ∧ exc box k (lerp a b T) = 0 ∧
      ∀ t, 0 ≤ t → t < T → 0 < exc box k (lerp a b t) := by
  rcases hk with rfl | rfl | rfl | rfl
  · simp only [exc_8] at ha hb
    obtain ⟨h0, h1, h2, h3, -, -⟩ := param_ge (ya := a.y) (yb := b.y) (h := box.hi.y) (by linarith) (by linarith)
    refine ⟨_, h0, h1, ?_, ?_, ?_⟩
    · apply pt_eq
      · simp only [cross, lerp_x, if_true]; ring
      · simp only [cross, lerp_y, if_true]; exact h2.symm
    · simp only [exc_8, lerp_y]; linarith
    · intro t ht0 ht; have := h3 t ht0 ht; simp only [exc_8, lerp_y]; linarith
  · simp only [exc_4] at ha hb
    obtain ⟨h0, h1, h2, h3, -, -⟩ := param_le (ya := a.y) (yb := b.y) (h := box.lo.y) (by linarith) (by linarith)
    refine ⟨_, h0, h1, ?_, ?_, ?_⟩
    · apply pt_eq
      · simp [cross]; ring
      · simp [cross]; exact h2.symm
    · simp only [exc_4, lerp_y]; linarith
    · intro t ht0 ht; have := h3 t ht0 ht; simp only [exc_4, lerp_y]; linarith
  · simp only [exc_2] at ha hb
    obtain ⟨h0, h1, h2, h3, -, -⟩ := param_ge (ya := a.x) (yb := b.x) (h := box.hi.x) (by linarith) (by linarith)
    refine ⟨_, h0, h1, ?_, ?_, ?_⟩
    · apply pt_eq
      · simp [cross]; exact h2.symm
      · simp [cross]; ring
    · simp only [exc_2, lerp_x]; linarith
    · intro t ht0 ht; have := h3 t ht0 ht; simp only [exc_2, lerp_x]; linarith
  · simp only [exc_1] at ha hb
    obtain ⟨h0, h1, h2, h3, -, -⟩ := param_le (ya := a.x) (yb := b.x) (h := box.lo.x) (by linarith) (by linarith)
    refine ⟨_, h0, h1, ?_, ?_, ?_⟩
    · apply pt_eq
      · simp [cross]; exact h2.symm
      · simp [cross]; ring
    · simp only [exc_1, lerp_x]; linarith
    · intro t ht0 ht; have := h3 t ht0 ht; simp only [exc_1, lerp_x]; linarith

/-- the moved end is the far end `b` (weakly beyond edge `k`, `a` weakly within) -/
theorem cross_farEnd (box : Bound α) {k : Nat} (hk : Edge k) (a b : Pt α)
    (ha : exc box k a ≤ 0) (hb : 0 ≤ exc box k b) :
    ∃ T, 0 ≤ T ∧ T ≤ 1 ∧ cross box k a b = lerp a b T ∧ exc box k (lerp a b T) = 0 ∧
      (∀ t, T < t → t ≤ 1 → 0 ≤ exc box k (lerp a b t)) ∧
      (0 < exc box k b → ∀ t, T < t → 0 < exc box k (lerp a b t)) := by
  rcases hk with rfl | rfl | rfl | rfl
  · simp only [exc_8] at ha hb
    obtain ⟨h0, h1, h2, -, h4, h5⟩ := param_le (ya := a.y) (yb := b.y) (h := box.hi.y) (by linarith) (by linarith)
    refine ⟨_, h0, h1, ?_, ?_, ?_, ?_⟩
    · apply pt_eq
      · simp [cross]; ring
      · simp [cross]; exact h2.symm
    · simp only [exc_8, lerp_y]; linarith
    · intro t ht ht1; have := h4 t ht ht1; simp only [exc_8, lerp_y]; linarith
    · intro hpos t ht; simp only [exc_8] at hpos; have := h5 (by linarith) t ht
      simp only [exc_8, lerp_y]; linarith
  · simp only [exc_4] at ha hb
    obtain ⟨h0, h1, h2, -, h4, h5⟩ := param_ge (ya := a.y) (yb := b.y) (h := box.lo.y) (by linarith) (by linarith)
    refine ⟨_, h0, h1, ?_, ?_, ?_, ?_⟩
    · apply pt_eq
      · simp [cross]; ring
      · simp [cross]; exact h2.symm
    · simp only [exc_4, lerp_y]; linarith
    · intro t ht ht1; have := h4 t ht ht1; simp only [exc_4, lerp_y]; linarith
    · intro hpos t ht; simp only [exc_4] at hpos; have := h5 (by linarith) t ht
      simp only [exc_4, lerp_y]; linarith
  · simp only [exc_2] at ha hb
    obtain ⟨h0, h1, h2, -, h4, h5⟩ := param_le (ya := a.x) (yb := b.x) (h := box.hi.x) (by linarith) (by linarith)
    refine ⟨_, h0, h1, ?_, ?_, ?_, ?_⟩
    · apply pt_eq
      · simp [cross]; exact h2.symm
      · simp [cross]; ring
    · simp only [exc_2, lerp_x]; linarith
    · intro t ht ht1; have := h4 t ht ht1; simp only [exc_2, lerp_x]; linarith
    · intro hpos t ht; simp only [exc_2] at hpos; have := h5 (by linarith) t ht
      simp only [exc_2, lerp_x]; linarith
  · simp only [exc_1] at ha hb
    obtain ⟨h0, h1, h2, -, h4, h5⟩ := param_ge (ya := a.x) (yb := b.x) (h := box.lo.x) (by linarith) (by linarith)
    refine ⟨_, h0, h1, ?_, ?_, ?_, ?_⟩
    · apply pt_eq
      · simp [cross]; exact h2.symm
      · simp [cross]; ring
    · simp only [exc_1, lerp_x]; linarith
    · intro t ht ht1; have := h4 t ht ht1; simp only [exc_1, lerp_x]; linarith
    · intro hpos t ht; simp only [exc_1] at hpos; have := h5 (by linarith) t ht
      simp only [exc_1, lerp_x]; linarith

/-! ### one clipping step -/

/-- a code bit set on the crossing point was already set on one of the two ends -/
theorem conv_codes {box : Bound α} {cA cB : Nat} {a b : Pt α} (hWA : W box cA a) (hWB : W box cB b)
    {T : α} (hT0 : 0 ≤ T) (hT1 : T ≤ 1) :
    ∀ j, Edge j → 0 < exc box j (lerp a b T) → cA &&& j ≠ 0 ∨ cB &&& j ≠ 0 := by
  intro j hj hpos
  by_contra hc
  push Not at hc
  have h1 := (hWA.2 j hj).2 hc.1
  have h2 := (hWB.2 j hj).2 hc.2
  rw [exc_lerp] at hpos
  nlinarith [mul_nonneg (sub_nonneg.2 hT1) (neg_nonneg.2 h1), mul_nonneg hT0 (neg_nonneg.2 h2)]

theorem mu_dec {box : Bound α} (hb : BoxOK box) {c1 c2 : Nat} (h1 : c1 < 16) (h2 : c2 < 16) {k : Nat}
    (hk : Edge k) (hck : c1 &&& k ≠ 0) (hand : c1 &&& c2 = 0) (p : Pt α) (hz : exc box k p = 0)
    (hconv : ∀ j, Edge j → 0 < exc box j p → c1 &&& j ≠ 0 ∨ c2 &&& j ≠ 0) :
    mu (bitCode box p ||| c2) < mu (c1 ||| c2) := by
  have hk0 : bitCode box p &&& k = 0 := by
    by_contra h
    have := (bitCode_bit hb p hk).1 h
    linarith
  exact bits_mu _ (bitCode_lt box p) _ h1 _ h2 k hk.mem hck hand hk0
    (fun j hj h => hconv j (edge_of_mem hj) ((bitCode_bit hb p (edge_of_mem hj)).1 h))

/-- clipping the start end -/
theorem clipA {box : Bound α} (hb : BoxOK box) {cA cB : Nat} {a b : Pt α} (hWA : W box cA a)
    (hWB : W box cB b) (hne : cA ≠ 0) (hand : cA &&& cB = 0) :
    ∃ T, 0 ≤ T ∧ T ≤ 1 ∧ intersect box cA a b = some (lerp a b T) ∧
      mu (bitCode box (lerp a b T) ||| cB) < mu (cA ||| cB) ∧
      ∀ t, 0 ≤ t → t < T → ¬ InBox box (lerp a b t) := by
  obtain ⟨k, hfb⟩ := firstBit_exists hWA.1 hne
  have hk := hfb.edge
  have hbit := hfb.bit
  have hbitB : cB &&& k = 0 := bits_disj cA hWA.1 cB hWB.1 hand k hk.mem hbit
  obtain ⟨T, hT0, hT1, hcross, hz, hdis⟩ :=
    cross_startEnd box hk a b ((hWA.2 k hk).1 hbit) ((hWB.2 k hk).2 hbitB)
  refine ⟨T, hT0, hT1, ?_, ?_, ?_⟩
  · rw [intersect_eq_cross box hfb, hcross]
  · exact mu_dec hb hWA.1 hWB.1 hk hbit hand _ hz (conv_codes hWA hWB hT0 hT1)
  · intro t ht0 ht hin
    have := (inBox_iff.1 hin) k hk
    have := hdis t ht0 ht
    linarith

/-- clipping the far end -/
theorem clipB {box : Bound α} (hb : BoxOK box) {cA cB : Nat} {a b : Pt α} (hWA : W box cA a)
    (hWB : W box cB b) (hne : cB ≠ 0) (hand : cA &&& cB = 0) :
    ∃ T, 0 ≤ T ∧ T ≤ 1 ∧ intersect box cB a b = some (lerp a b T) ∧
      mu (cA ||| bitCode box (lerp a b T)) < mu (cA ||| cB) ∧
      (∀ t, T < t → t ≤ 1 → ¬ InOpenBox box (lerp a b t)) ∧
      (cB = bitCode box b → ∀ t, T < t → t ≤ 1 → ¬ InBox box (lerp a b t)) := by
  obtain ⟨k, hfb⟩ := firstBit_exists hWB.1 hne
  have hk := hfb.edge
  have hbit := hfb.bit
  have hand' : cB &&& cA = 0 := by rw [Nat.and_comm]; exact hand
  have hbitA : cA &&& k = 0 := bits_disj cB hWB.1 cA hWA.1 hand' k hk.mem hbit
  obtain ⟨T, hT0, hT1, hcross, hz, hdis, hdis'⟩ :=
    cross_farEnd box hk a b ((hWA.2 k hk).2 hbitA) ((hWB.2 k hk).1 hbit)
  refine ⟨T, hT0, hT1, ?_, ?_, ?_, ?_⟩
  · rw [intersect_eq_cross box hfb, hcross]
  · rw [Nat.or_comm cA, Nat.or_comm cA]
    refine mu_dec hb hWB.1 hWA.1 hk hbit hand' _ hz ?_
    intro j hj hpos
    exact (conv_codes hWA hWB hT0 hT1 j hj hpos).symm
  · intro t ht ht1 hin
    have := (inOpenBox_iff.1 hin) k hk
    have := hdis t ht ht1
    linarith
  · intro hex t ht _ hin
    have hpos : 0 < exc box k b := (bitCode_bit hb b hk).1 (hex ▸ hbit)
    have := (inBox_iff.1 hin) k hk
    have := hdis' hpos t ht
    linarith

/-! ### the inner loop -/

/-- the region whose points must be kept: the open box, and in strict (closed) mode `S` the closed box -/
def Reg (S : Prop) (box : Bound α) (q : Pt α) : Prop := InOpenBox box q ∨ (S ∧ InBox box q)

theorem Reg.inBox {S : Prop} {box : Bound α} {q : Pt α} (h : Reg S box q) : InBox box q := by
  rcases h with h | h
  · exact inBox_of_inOpenBox h
  · exact h.2

/-- post-condition of `segLoopU` started on `a b` with codes `cA cB` -/
def SegPost (box : Bound α) (S : Prop) (a b : Pt α) (cA cB : Nat) : Seg α → Prop
  | .accept a' b' c => c = 0 ∧ InBox box a' ∧ InBox box b' ∧ OnSeg a b a' ∧ OnSeg a b b' ∧
      (cA = 0 → a' = a) ∧ (cB = 0 → b' = b) ∧ ∀ q, OnSeg a b q → Reg S box q → OnSeg a' b' q
  | .reject => cA ≠ 0 ∧ ∀ q, OnSeg a b q → ¬ Reg S box q
  | .stuck => False

theorem segLoop_spec {box : Bound α} (hb : BoxOK box) (S : Prop) :
    ∀ (fuel : Nat) (a b : Pt α) (cA cB : Nat), W box cA a → W box cB b →
      (S → cA = bitCode box a ∧ cB = bitCode box b) → mu (cA ||| cB) < fuel →
      SegPost box S a b cA cB (segLoopU box fuel a b cA cB) := by
  intro fuel
  induction fuel with
  | zero => intro a b cA cB _ _ _ h; omega
  | succ n ih =>
    intro a b cA cB hWA hWB hS hfuel
    rw [segLoopU]
    split_ifs with h1 h2 h3
    · -- accept
      obtain ⟨hA0, hB0⟩ := bits_or_zero cA hWA.1 cB hWB.1 h1
      subst hA0; subst hB0
      exact ⟨rfl, W_zero_inBox hWA, W_zero_inBox hWB, onSeg_left a b, onSeg_right a b,
        fun _ => rfl, fun _ => rfl, fun q hq _ => hq⟩
    · -- reject
      refine ⟨?_, ?_⟩
      · rintro rfl; exact h2 (Nat.zero_and cB)
      · obtain ⟨k, hkm, hkA, hkB⟩ := bits_common cA hWA.1 cB hWB.1 h2
        have hk := edge_of_mem hkm
        rintro q ⟨t, ht0, ht1, rfl⟩ hreg
        have eA := (hWA.2 k hk).1 hkA
        have eB := (hWB.2 k hk).1 hkB
        rcases hreg with hreg | ⟨hs, hreg⟩
        · have := (inOpenBox_iff.1 hreg) k hk
          rw [exc_lerp] at this
          nlinarith [mul_nonneg (sub_nonneg.2 ht1) eA, mul_nonneg ht0 eB]
        · obtain ⟨hcA, hcB⟩ := hS hs
          have eA' : 0 < exc box k a := (bitCode_bit hb a hk).1 (hcA ▸ hkA)
          have eB' : 0 < exc box k b := (bitCode_bit hb b hk).1 (hcB ▸ hkB)
          have := (inBox_iff.1 hreg) k hk
          rw [exc_lerp] at this
          rcases eq_or_lt_of_le ht0 with h0 | h0
          · subst h0; simp at this; linarith
          · nlinarith [mul_nonneg (sub_nonneg.2 ht1) eA'.le, mul_pos h0 eB']
    · -- clip the start end
      have hand : cA &&& cB = 0 := not_not.1 h2
      obtain ⟨T, hT0, hT1, hint, hmu, hdis⟩ := clipA hb hWA hWB h3 hand
      rw [hint]
      show SegPost box S a b cA cB (segLoopU box n (lerp a b T) b (bitCode box (lerp a b T)) cB)
      have key := ih (lerp a b T) b (bitCode box (lerp a b T)) cB (W_bitCode hb _) hWB
        (fun s => ⟨rfl, (hS s).2⟩) (by omega)
      have hsplit : ∀ q, OnSeg a b q → InBox box q → OnSeg (lerp a b T) b q := by
        rintro q ⟨t, ht0, ht1, rfl⟩ hin
        have hTt : T ≤ t := by
          by_contra hlt
          exact hdis t ht0 (not_le.1 hlt) hin
        have := onSeg_between a b hTt ht1
        rwa [lerp_one] at this
      generalize segLoopU box n (lerp a b T) b (bitCode box (lerp a b T)) cB = r at key ⊢
      cases r with
      | accept a' b' c =>
        obtain ⟨hc, hia, hib, hoa, hob, _, hb', hcomp⟩ := key
        have hTon : OnSeg a b (lerp a b T) := onSeg_lerp a b hT0 hT1
        exact ⟨hc, hia, hib, hTon.sub (onSeg_right a b) hoa, hTon.sub (onSeg_right a b) hob,
          fun h => absurd h h3, hb', fun q hq hreg => hcomp q (hsplit q hq hreg.inBox) hreg⟩
      | reject =>
        exact ⟨h3, fun q hq hreg => key.2 q (hsplit q hq hreg.inBox) hreg⟩
      | stuck => exact key
    · -- clip the far end
      have hand : cA &&& cB = 0 := not_not.1 h2
      have hA0 : cA = 0 := not_not.1 h3
      have hB0 : cB ≠ 0 := by
        rintro rfl; apply h1; rw [hA0]; rfl
      obtain ⟨T, hT0, hT1, hint, hmu, hdisO, hdisC⟩ := clipB hb hWA hWB hB0 hand
      rw [hint]
      show SegPost box S a b cA cB (segLoopU box n a (lerp a b T) cA (bitCode box (lerp a b T)))
      have key := ih a (lerp a b T) cA (bitCode box (lerp a b T)) hWA (W_bitCode hb _)
        (fun s => ⟨(hS s).1, rfl⟩) (by omega)
      have hsplit : ∀ q, OnSeg a b q → Reg S box q → OnSeg a (lerp a b T) q := by
        rintro q ⟨t, ht0, ht1, rfl⟩ hreg
        have hTt : t ≤ T := by
          by_contra hlt
          rcases hreg with hreg | ⟨hs, hreg⟩
          · exact hdisO t (not_le.1 hlt) ht1 hreg
          · exact hdisC (hS hs).2 t (not_le.1 hlt) ht1 hreg
        have := onSeg_between a b ht0 hTt
        rwa [lerp_zero] at this
      generalize segLoopU box n a (lerp a b T) cA (bitCode box (lerp a b T)) = r at key ⊢
      cases r with
      | accept a' b' c =>
        obtain ⟨hc, hia, hib, hoa, hob, ha', _, hcomp⟩ := key
        have hTon : OnSeg a b (lerp a b T) := onSeg_lerp a b hT0 hT1
        exact ⟨hc, hia, hib, (onSeg_left a b).sub hTon hoa, (onSeg_left a b).sub hTon hob,
          ha', fun h => absurd h hB0, fun q hq hreg => hcomp q (hsplit q hq hreg) hreg⟩
      | reject =>
        exact ⟨key.1, fun q hq hreg => key.2 q (hsplit q hq hreg) hreg⟩
      | stuck => exact key

/-- an accepted segment started with codes sharing no bit -/
theorem mu_lt_eight {cA cB : Nat} (hA : cA < 16) (hB : cB < 16) : mu (cA ||| cB) < 8 :=
  lt_of_le_of_lt (bits_mu_le cA hA cB hB) (by decide)


/-! ### the rounding guards of the real loop change nothing over an ordered field -/

/-- the outer step of the model is the step over the loop without the guards (open mode); proved in the
    C07 development (`Clip.segLoop_eq_segLoopU`: clamp branch unreachable, own-intersection arm =
    `intersect`) -/
theorem lineStep_eq_U {box : Bound α} (hb : BoxOK box) {st : LineSt α} {a : Pt α} (b : Pt α) (last : Bool)
    (hcode : st.codeA = Clip.bitCodeOpen box a) :
    lineStep box true st a b last = lineStepU box true st a b last :=
  Clip.lineStep_eq_U (box := box) hb true b last hcode

/-! ### open codes and the open box -/

theorem code_zero_of_inOpen {box : Bound α} {p : Pt α} (h : InOpenBox box p) :
    Clip.bitCodeOpen box p = 0 := by
  obtain ⟨h1, h2, h3, h4⟩ := h
  unfold Clip.bitCodeOpen
  rw [if_neg (not_le.2 h1), if_neg (not_le.2 h2), if_neg (not_le.2 h3), if_neg (not_le.2 h4)]
  rfl

theorem inOpen_of_code_zero {box : Bound α} {p : Pt α} (h : Clip.bitCodeOpen box p = 0) :
    InOpenBox box p := by
  unfold Clip.bitCodeOpen at h
  simp only [clip_codeLeft, clip_codeRight, clip_codeBottom, clip_codeTop] at h
  split_ifs at h
  exact ⟨not_le.1 (by assumption), not_le.1 (by assumption), not_le.1 (by assumption),
    not_le.1 (by assumption)⟩

/-! ### the ends of an accepted segment -/

/-- on the line of one of the four edges -/
def OnEdge (box : Bound α) (p : Pt α) : Prop :=
  p.x = box.lo.x ∨ p.x = box.hi.x ∨ p.y = box.lo.y ∨ p.y = box.hi.y

theorem intersect_onEdge {box : Bound α} {c : Nat} {a b p : Pt α}
    (h : intersect box c a b = some p) : OnEdge box p := by
  unfold Clip.intersect at h
  split_ifs at h <;> (cases h; simp [OnEdge])

/-- what `segLoopU` does to the two ends: an end whose code is 0 is kept, an end whose code is not 0
    is moved by `intersect` onto an edge line -/
theorem segLoop_ends (box : Bound α) : ∀ (fuel : Nat) (a b : Pt α) (cA cB : Nat) (a' b' : Pt α) (c : Nat),
    segLoopU box fuel a b cA cB = .accept a' b' c →
    (cA = 0 → a' = a) ∧ (cA ≠ 0 → OnEdge box a') ∧ (cB = 0 → b' = b) ∧ (cB ≠ 0 → OnEdge box b') := by
  intro fuel
  induction fuel with
  | zero => intro a b cA cB a' b' c h; simp [segLoopU] at h
  | succ n ih =>
    intro a b cA cB a' b' c h
    rw [segLoopU] at h
    split_ifs at h with h1 h2 h3
    · obtain ⟨hA, hB⟩ := Nat.or_eq_zero_iff.1 h1
      cases h
      exact ⟨fun _ => rfl, fun hne => absurd hA hne, fun _ => rfl, fun hne => absurd hB hne⟩
    · cases hi : intersect box cA a b with
      | none => rw [hi] at h; cases h
      | some p =>
        rw [hi] at h
        obtain ⟨i1, i2, i3, i4⟩ := ih p b (bitCode box p) cB a' b' c h
        refine ⟨fun h0 => absurd h0 h3, fun _ => ?_, i3, i4⟩
        by_cases hp : bitCode box p = 0
        · rw [i1 hp]; exact intersect_onEdge hi
        · exact i2 hp
    · have hA0 : cA = 0 := not_not.1 h3
      have hB0 : cB ≠ 0 := by
        rintro rfl; apply h1; rw [hA0]; rfl
      cases hi : intersect box cB a b with
      | none => rw [hi] at h; cases h
      | some p =>
        rw [hi] at h
        obtain ⟨i1, i2, i3, i4⟩ := ih a p cA (bitCode box p) a' b' c h
        refine ⟨i1, i2, fun h0 => absurd h0 hB0, fun _ => ?_⟩
        by_cases hp : bitCode box p = 0
        · rw [i3 hp]; exact intersect_onEdge hi
        · exact i4 hp

theorem onBoundary_of {box : Bound α} {p : Pt α} (h1 : InBox box p) (h2 : OnEdge box p) :
    OnBoundary box p := ⟨h1, h2⟩

/-- the specification of the inner loop in open mode, as used by the outer loop -/
theorem segLoop_open {box : Bound α} (hb : BoxOK box) (a b : Pt α) (cA : Nat)
    (hcA : cA = Clip.bitCodeOpen box a) :
    (match segLoopU box 8 a b cA (Clip.bitCodeOpen box b) with
     | .accept a' b' c => c = 0 ∧ InBox box a' ∧ InBox box b' ∧
         (cA = 0 → a' = a) ∧ (cA ≠ 0 → OnBoundary box a') ∧
         (Clip.bitCodeOpen box b = 0 → b' = b) ∧ (Clip.bitCodeOpen box b ≠ 0 → OnBoundary box b')
     | .reject => cA ≠ 0 ∧ Clip.bitCodeOpen box b ≠ 0
     | .stuck => False) := by
  have hWA : W box cA a := hcA ▸ W_bitCodeOpen hb a
  have hWB : W box (Clip.bitCodeOpen box b) b := W_bitCodeOpen hb b
  have key := segLoop_spec hb False 8 a b cA (Clip.bitCodeOpen box b) hWA hWB
    (fun h => h.elim) (mu_lt_eight hWA.1 hWB.1)
  have ends := segLoop_ends box 8 a b cA (Clip.bitCodeOpen box b)
  generalize segLoopU box 8 a b cA (Clip.bitCodeOpen box b) = r at key ends
  cases r with
  | accept a' b' c =>
    obtain ⟨hc, hia, hib, _, _, _, _, _⟩ := key
    obtain ⟨e1, e2, e3, e4⟩ := ends a' b' c rfl
    exact ⟨hc, hia, hib, e1, fun h => ⟨hia, e2 h⟩, e3, fun h => ⟨hib, e4 h⟩⟩
  | reject =>
    refine ⟨key.1, fun h0 => ?_⟩
    exact key.2 b (onSeg_right a b) (Or.inl (inOpen_of_code_zero h0))
  | stuck => exact key

/-! ### `push` -/

theorem push_new (done : List (List (Pt α))) (p : Pt α) : push done done.length p = done ++ [[p]] := by
  simp [push]

theorem modify_last (done : List (List (Pt α))) (cur : List (Pt α)) (f : List (Pt α) → List (Pt α)) :
    (done ++ [cur]).modify done.length f = done ++ [f cur] := by
  induction done with
  | nil => simp
  | cons x l ih => simp [ih]

theorem push_open (done : List (List (Pt α))) (cur : List (Pt α)) (p : Pt α) :
    push (done ++ [cur]) done.length p = done ++ [cur ++ [p]] := by
  unfold Clip.push
  rw [if_neg (by simp), modify_last]

/-! ### one step of the outer loop, open mode -/

theorem lineStep_eq (box : Bound α) (st : LineSt α) (a b : Pt α) (last : Bool) :
    lineStepU box true st a b last =
      match segLoopU box 8 a b st.codeA (Clip.bitCodeOpen box b) with
      | .accept a' b' codeB' =>
        if codeB' ≠ Clip.bitCodeOpen box b then
          { out := push (push st.out st.line a') st.line b',
            line := if last then st.line else st.line + 1, codeA := Clip.bitCodeOpen box b, stuck := st.stuck }
        else if last then
          { out := push (push st.out st.line a') st.line b', line := st.line,
            codeA := Clip.bitCodeOpen box b, stuck := st.stuck }
        else { out := push st.out st.line a', line := st.line, codeA := Clip.bitCodeOpen box b, stuck := st.stuck }
      | .reject => { st with codeA := Clip.bitCodeOpen box b }
      | .stuck => { st with codeA := Clip.bitCodeOpen box b, stuck := true } := rfl

theorem lineStep_reject {box : Bound α} {st : LineSt α} {a b : Pt α} (last : Bool)
    (hr : segLoopU box 8 a b st.codeA (Clip.bitCodeOpen box b) = .reject) :
    lineStepU box true st a b last = ⟨st.out, st.line, Clip.bitCodeOpen box b, st.stuck⟩ := by
  rw [lineStep_eq, hr]

theorem lineStep_accept_out {box : Bound α} {st : LineSt α} {a b a' b' : Pt α}
    (last : Bool) (hr : segLoopU box 8 a b st.codeA (Clip.bitCodeOpen box b) = .accept a' b' 0)
    (hE : Clip.bitCodeOpen box b ≠ 0) :
    lineStepU box true st a b last =
      ⟨push (push st.out st.line a') st.line b', if last then st.line else st.line + 1,
        Clip.bitCodeOpen box b, st.stuck⟩ := by
  have hE' : (0 : Nat) ≠ Clip.bitCodeOpen box b := fun h => hE h.symm
  rw [lineStep_eq, hr]
  simp only [hE', ne_eq, not_false_eq_true, if_true]

theorem lineStep_accept_in_last {box : Bound α} {st : LineSt α} {a b a' b' : Pt α}
    (hr : segLoopU box 8 a b st.codeA (Clip.bitCodeOpen box b) = .accept a' b' 0)
    (hE : Clip.bitCodeOpen box b = 0) :
    lineStepU box true st a b true =
      ⟨push (push st.out st.line a') st.line b', st.line, Clip.bitCodeOpen box b, st.stuck⟩ := by
  rw [lineStep_eq, hr]
  simp only [hE, ne_eq, not_true_eq_false, if_false, if_true]

theorem lineStep_accept_in {box : Bound α} {st : LineSt α} {a b a' b' : Pt α}
    (hr : segLoopU box 8 a b st.codeA (Clip.bitCodeOpen box b) = .accept a' b' 0)
    (hE : Clip.bitCodeOpen box b = 0) :
    lineStepU box true st a b false =
      ⟨push st.out st.line a', st.line, Clip.bitCodeOpen box b, st.stuck⟩ := by
  rw [lineStep_eq, hr]
  simp only [hE, ne_eq, not_true_eq_false, if_false, Bool.false_eq_true]

theorem lineLoop_cons_cons (box : Bound α) (isOpen : Bool) (st : LineSt α) (a b : Pt α)
    (rest : List (Pt α)) :
    lineLoop box isOpen st (a :: b :: rest) =
      lineLoop box isOpen (lineStep box isOpen st a b rest.isEmpty) (b :: rest) := by
  rw [lineLoop]

theorem lineLoop_single (box : Bound α) (isOpen : Bool) (st : LineSt α) (a : Pt α) :
    lineLoop box isOpen st [a] = st := by
  rw [lineLoop]
  intro _ _ _ h; simp at h

/-! ### all vertices strictly inside -/

theorem segLoop_zero (box : Bound α) (a b : Pt α) : segLoopU box 8 a b 0 0 = .accept a b 0 := by
  rw [segLoopU]; simp

theorem lineStep_inside (box : Bound α) (out : List (List (Pt α))) (a b : Pt α)
    (hb : InOpenBox box b) (last : Bool) :
    lineStep box true ⟨out, 0, 0, false⟩ a b last =
      ⟨if last then push (push out 0 a) 0 b else push out 0 a, 0, 0, false⟩ := by
  have hE : Clip.bitCodeOpen box b = 0 := code_zero_of_inOpen hb
  have hbr : segLoop box true 8 a b (LineSt.codeA ⟨out, 0, 0, false⟩) (if true then Clip.bitCodeOpen box b else bitCode box b) 0 0 =
      segLoopU box 8 a b (LineSt.codeA ⟨out, 0, 0, false⟩) (if true then Clip.bitCodeOpen box b else bitCode box b) := by
    show segLoop box true 8 a b 0 (Clip.bitCodeOpen box b) 0 0 = segLoopU box 8 a b 0 (Clip.bitCodeOpen box b)
    rw [hE]; exact Clip.segLoop_eq_segLoopU_decided box true 7 a b (cA := 0) (cB := 0) 0 0 (Or.inl rfl)
  rw [Clip.lineStep_eq_lineStepU last hbr]
  have hr : segLoopU box 8 a b (LineSt.codeA ⟨out, 0, 0, false⟩) (Clip.bitCodeOpen box b) = .accept a b 0 := by
    rw [hE]; exact segLoop_zero box a b
  cases last
  · rw [lineStep_accept_in hr hE, hE]; rfl
  · rw [lineStep_accept_in_last hr hE, hE]; rfl

theorem lineLoop_inside (box : Bound α) :
    ∀ (rest : List (Pt α)) (a : Pt α) (pre : List (Pt α)) (out : List (List (Pt α))),
      ((out = [] ∧ pre = []) ∨ out = [pre]) → rest ≠ [] → (∀ v ∈ rest, InOpenBox box v) →
      lineLoop box true ⟨out, 0, 0, false⟩ (a :: rest) = ⟨[pre ++ a :: rest], 0, 0, false⟩ := by
  intro rest
  induction rest with
  | nil => intro a pre out _ h; exact absurd rfl h
  | cons b rest ih =>
    intro a pre out hout _ hin
    have hb := hin b List.mem_cons_self
    have hp : push out 0 a = [pre ++ [a]] := by
      rcases hout with ⟨rfl, rfl⟩ | rfl
      · rfl
      · exact push_open [] pre a
    rw [lineLoop_cons_cons, lineStep_inside box out a b hb]
    cases rest with
    | nil =>
      rw [lineLoop_single, hp]
      have : push [pre ++ [a]] 0 b = [pre ++ [a] ++ [b]] := push_open [] _ b
      simp [this]
    | cons c rest =>
      simp only [List.isEmpty_cons, Bool.false_eq_true, if_false]
      rw [hp, ih b (pre ++ [a]) [pre ++ [a]] (Or.inr rfl) (by simp)
        (fun v hv => hin v (List.mem_cons_of_mem _ hv))]
      simp

theorem line_inside (box : Bound α) (inp : List (Pt α)) (h2 : 2 ≤ inp.length)
    (hin : ∀ v ∈ inp, InOpenBox box v) : Clip.line box true inp = some [inp] := by
  match inp, h2 with
  | p :: b :: rest, _ =>
    have hp : Clip.bitCodeOpen box p = 0 := code_zero_of_inOpen (hin p List.mem_cons_self)
    have := lineLoop_inside box (b :: rest) p [] [] (Or.inl ⟨rfl, rfl⟩) (by simp)
      (fun v hv => hin v (List.mem_cons_of_mem _ hv))
    show (if (lineLoop box true ⟨[], 0, Clip.bitCodeOpen box p, false⟩ (p :: b :: rest)).stuck = true then none
        else some (lineLoop box true ⟨[], 0, Clip.bitCodeOpen box p, false⟩ (p :: b :: rest)).out) = _
    rw [hp, this]
    rfl

/-! ### all vertices beyond one edge -/

theorem segLoop_reject_common {box : Bound α} {cA cB k : Nat} (hA : cA < 16) (hB : cB < 16)
    (hk : Edge k) (h1 : cA &&& k ≠ 0) (h2 : cB &&& k ≠ 0) (n : Nat) (a b : Pt α) :
    segLoopU box (n + 1) a b cA cB = .reject := by
  have hand : cA &&& cB ≠ 0 := bits_common' cA hA cB hB k hk.mem h1 h2
  have hor : cA ||| cB ≠ 0 := by
    intro h
    obtain ⟨h0, _⟩ := Nat.or_eq_zero_iff.1 h
    apply h1; rw [h0]; exact Nat.zero_and k
  rw [segLoopU, if_neg hor, if_pos hand]

theorem segLoop_decided_common {box : Bound α} {cA cB k : Nat} (hA : cA < 16) (hB : cB < 16)
    (hk : Edge k) (h1 : cA &&& k ≠ 0) (h2 : cB &&& k ≠ 0) (n : Nat) (a b : Pt α) :
    segLoop box true (n + 1) a b cA cB 0 0 = segLoopU box (n + 1) a b cA cB :=
  Clip.segLoop_eq_segLoopU_decided box true n a b 0 0 (Or.inr (bits_common' cA hA cB hB k hk.mem h1 h2))

theorem lineLoop_outside {box : Bound α} {k : Nat} (hk : Edge k) :
    ∀ (rest : List (Pt α)) (a : Pt α) (l : Nat), (∀ v ∈ a :: rest, Clip.bitCodeOpen box v &&& k ≠ 0) →
      ∃ c, lineLoop box true ⟨[], l, Clip.bitCodeOpen box a, false⟩ (a :: rest) = ⟨[], l, c, false⟩ := by
  intro rest
  induction rest with
  | nil => intro a l _; exact ⟨_, lineLoop_single _ _ _ _⟩
  | cons b rest ih =>
    intro a l h
    have hr := segLoop_reject_common (box := box) (bitCodeOpen_lt box a) (bitCodeOpen_lt box b) hk
      (h a List.mem_cons_self) (h b (List.mem_cons_of_mem _ List.mem_cons_self)) 7 a b
    have hbr := segLoop_decided_common (box := box) (bitCodeOpen_lt box a) (bitCodeOpen_lt box b) hk
      (h a List.mem_cons_self) (h b (List.mem_cons_of_mem _ List.mem_cons_self)) 7 a b
    rw [lineLoop_cons_cons, Clip.lineStep_eq_lineStepU (st := ⟨[], l, Clip.bitCodeOpen box a, false⟩) _ hbr,
      lineStep_reject (st := ⟨[], l, Clip.bitCodeOpen box a, false⟩) _ hr]
    exact ih b l (fun v hv => h v (List.mem_cons_of_mem _ hv))

theorem line_outside {box : Bound α} {k : Nat} (hk : Edge k) (inp : List (Pt α))
    (h : ∀ v ∈ inp, Clip.bitCodeOpen box v &&& k ≠ 0) : Clip.line box true inp = some [] := by
  cases inp with
  | nil => rfl
  | cons p rest =>
    obtain ⟨c, hc⟩ := lineLoop_outside hk rest p 0 h
    show (if (lineLoop box true ⟨[], 0, Clip.bitCodeOpen box p, false⟩ (p :: rest)).stuck = true then none
        else some (lineLoop box true ⟨[], 0, Clip.bitCodeOpen box p, false⟩ (p :: rest)).out) = _
    rw [hc]; rfl


/-! ### the invariant of the outer loop, open mode -/

/-- the start of piece number `k`: on the boundary, or the first input vertex `p0` strictly inside
    (then `k = 0`); and if `p0` is strictly inside, piece 0 starts there -/
def HeadP (box : Bound α) (p0 : Pt α) (k : Nat) (piece : List (Pt α)) : Prop :=
  ∀ p, piece.head? = some p →
    (OnBoundary box p ∨ (k = 0 ∧ p = p0 ∧ InOpenBox box p)) ∧ (k = 0 → InOpenBox box p0 → p = p0)

/-- a finished piece -/
def Closed (box : Bound α) (p0 : Pt α) (k : Nat) (piece : List (Pt α)) : Prop :=
  2 ≤ piece.length ∧ (∀ v ∈ piece, InBox box v) ∧ HeadP box p0 k piece ∧
  ∀ p, piece.getLast? = some p → OnBoundary box p

/-- the piece under construction -/
def OpenP (box : Bound α) (p0 : Pt α) (k : Nat) (cur : List (Pt α)) : Prop :=
  cur ≠ [] ∧ (∀ v ∈ cur, InBox box v) ∧ HeadP box p0 k cur

/-- the loop invariant before the segment starting at `a` is processed -/
def Inv (box : Bound α) (p0 : Pt α) (st : LineSt α) (a : Pt α) : Prop :=
  st.stuck = false ∧ st.codeA = Clip.bitCodeOpen box a ∧
  ∃ done, st.line = done.length ∧ (∀ k piece, done[k]? = some piece → Closed box p0 k piece) ∧
    ((st.out = done ∧ (done = [] → InOpenBox box p0 → a = p0) ∧ (st.codeA = 0 → done = [] ∧ a = p0)) ∨
     ∃ cur, st.out = done ++ [cur] ∧ st.codeA = 0 ∧ OpenP box p0 done.length cur)

/-- the result after the last segment (ending at `b`) -/
def Final (box : Bound α) (p0 b : Pt α) (out : List (List (Pt α))) : Prop :=
  (∀ k piece, out[k]? = some piece → 2 ≤ piece.length ∧ (∀ v ∈ piece, InBox box v) ∧
     HeadP box p0 k piece ∧
     ∀ p, piece.getLast? = some p → OnBoundary box p ∨ (k + 1 = out.length ∧ p = b ∧ InOpenBox box b)) ∧
  (InOpenBox box b → ∃ piece, out.getLast? = some piece ∧ piece.getLast? = some b) ∧
  (InOpenBox box p0 → out ≠ [])

theorem getElem?_snoc {β : Type} (l : List β) (x : β) (k : Nat) (y : β)
    (h : (l ++ [x])[k]? = some y) : l[k]? = some y ∨ (k = l.length ∧ y = x) := by
  rcases Nat.lt_trichotomy k l.length with hk | hk | hk
  · left; rwa [List.getElem?_append_left hk] at h
  · right; subst hk; simp at h; exact ⟨rfl, h.symm⟩
  · exfalso
    have : (l ++ [x])[k]? = none := by
      apply List.getElem?_eq_none; simp; omega
    rw [this] at h; cases h

theorem headP_snoc {box : Bound α} {p0 : Pt α} {k : Nat} {cur : List (Pt α)} {x : Pt α}
    (h : HeadP box p0 k cur) (hne : cur ≠ []) : HeadP box p0 k (cur ++ [x]) := by
  intro p hp
  apply h p
  rwa [List.head?_append_of_ne_nil _ hne] at hp

theorem length_snoc_ge {cur : List (Pt α)} (x : Pt α) (hne : cur ≠ []) : 2 ≤ (cur ++ [x]).length := by
  cases cur with
  | nil => exact absurd rfl hne
  | cons y l => simp

theorem inBox_snoc {box : Bound α} {cur : List (Pt α)} {x : Pt α} (h : ∀ v ∈ cur, InBox box v)
    (hx : InBox box x) : ∀ v ∈ cur ++ [x], InBox box v := by
  intro v hv
  rcases List.mem_append.1 hv with h' | h'
  · exact h v h'
  · rw [List.mem_singleton] at h'; subst h'; exact hx

theorem closed_snoc {box : Bound α} {p0 : Pt α} {k : Nat} {cur : List (Pt α)} {x : Pt α}
    (ho : OpenP box p0 k cur) (hx : OnBoundary box x) : Closed box p0 k (cur ++ [x]) := by
  obtain ⟨o1, o2, o3⟩ := ho
  refine ⟨length_snoc_ge x o1, inBox_snoc o2 hx.1, headP_snoc o3 o1, ?_⟩
  intro p hp
  have : x = p := by simpa using hp
  subst this; exact hx

/-- pushing the (possibly clipped) start of an accepted segment -/
theorem push_start {box : Bound α} {p0 a a' : Pt α} {st : LineSt α} (hI : Inv box p0 st a)
    (hia : InBox box a') (h0 : st.codeA = 0 → a' = a) (hne : st.codeA ≠ 0 → OnBoundary box a') :
    ∃ done cur, st.line = done.length ∧ (∀ k piece, done[k]? = some piece → Closed box p0 k piece) ∧
      push st.out st.line a' = done ++ [cur] ∧ OpenP box p0 done.length cur := by
  obtain ⟨hst, hcode, done, hl, hdone, ⟨ho, hf1, hf2⟩ | ⟨cur, ho, hc0, hne', hin, hhead⟩⟩ := hI
  · refine ⟨done, [a'], hl, hdone, by rw [hl, ho]; exact push_new _ _, by simp, ?_, ?_⟩
    · intro v hv; rw [List.mem_singleton] at hv; subst hv; exact hia
    · intro p hp
      have : a' = p := by simpa using hp
      subst this
      by_cases hc : st.codeA = 0
      · obtain ⟨hd, hap⟩ := hf2 hc
        have haa := h0 hc
        have hopen : InOpenBox box a := inOpen_of_code_zero (hcode ▸ hc)
        refine ⟨Or.inr ⟨by simp [hd], by rw [haa, hap], by rw [haa]; exact hopen⟩,
          fun _ _ => by rw [haa, hap]⟩
      · refine ⟨Or.inl (hne hc), fun hk hp0 => ?_⟩
        have hd : done = [] := List.eq_nil_of_length_eq_zero hk
        have hap := hf1 hd hp0
        exfalso; apply hc; rw [hcode, hap]; exact code_zero_of_inOpen hp0
  · refine ⟨done, cur ++ [a'], hl, hdone, by rw [hl, ho]; exact push_open _ _ _, by simp,
      inBox_snoc hin hia, headP_snoc hhead hne'⟩

/-- a step that is not the last one keeps the invariant -/
theorem lineStep_inv {box : Bound α} (hb : BoxOK box) {p0 a : Pt α} (b : Pt α) {st : LineSt α}
    (hI : Inv box p0 st a) : Inv box p0 (lineStep box true st a b false) b := by
  have hcode := hI.2.1
  rw [lineStep_eq_U hb b false hcode]
  have hst := hI.1
  have key := segLoop_open hb a b st.codeA hcode
  generalize hr : segLoopU box 8 a b st.codeA (Clip.bitCodeOpen box b) = r at key
  cases r with
  | stuck => exact key.elim
  | reject =>
    obtain ⟨hneA, hneB⟩ := key
    rw [lineStep_reject false hr]
    obtain ⟨_, _, done, hl, hdone, ⟨ho, hf1, hf2⟩ | ⟨cur, ho, hc0, _⟩⟩ := hI
    · refine ⟨hst, rfl, done, hl, hdone, Or.inl ⟨ho, ?_, ?_⟩⟩
      · intro hd hp0; exfalso; apply hneA; rw [hcode, hf1 hd hp0]; exact code_zero_of_inOpen hp0
      · intro h0; exact absurd h0 hneB
    · exact absurd hc0 hneA
  | accept a' b' c =>
    obtain ⟨hc, hia, hib, ha0, haN, hb0, hbN⟩ := key
    subst hc
    obtain ⟨done, cur, hl, hdone, hp, hopen⟩ := push_start hI hia ha0 haN
    by_cases hE : Clip.bitCodeOpen box b = 0
    · rw [lineStep_accept_in hr hE, hp]
      exact ⟨hst, rfl, done, hl, hdone, Or.inr ⟨cur, rfl, hE, hopen⟩⟩
    · rw [lineStep_accept_out false hr hE, hp, hl, push_open]
      refine ⟨hst, rfl, done ++ [cur ++ [b']], by simp, ?_, Or.inl ⟨rfl, by simp, fun h0 => absurd h0 hE⟩⟩
      intro k piece hk
      rcases getElem?_snoc _ _ _ _ hk with h | ⟨rfl, rfl⟩
      · exact hdone k piece h
      · exact closed_snoc hopen (hbN hE)

theorem final_snoc {box : Bound α} {p0 b x : Pt α} {done : List (List (Pt α))} {cur : List (Pt α)}
    (hdone : ∀ k piece, done[k]? = some piece → Closed box p0 k piece)
    (hopen : OpenP box p0 done.length cur) (hib : InBox box x)
    (hx : OnBoundary box x ∨ (x = b ∧ InOpenBox box b)) (hb' : InOpenBox box b → x = b) :
    Final box p0 b (done ++ [cur ++ [x]]) := by
  refine ⟨?_, ?_, by simp⟩
  · intro k piece hk
    rcases getElem?_snoc _ _ _ _ hk with h | ⟨rfl, rfl⟩
    · obtain ⟨c1, c2, c3, c4⟩ := hdone k piece h
      exact ⟨c1, c2, c3, fun p hp => Or.inl (c4 p hp)⟩
    · obtain ⟨o1, o2, o3⟩ := hopen
      refine ⟨length_snoc_ge x o1, inBox_snoc o2 hib, headP_snoc o3 o1, ?_⟩
      intro p hp
      have : x = p := by simpa using hp
      subst this
      rcases hx with h | ⟨h1, h2⟩
      · exact Or.inl h
      · exact Or.inr ⟨by simp, h1, h2⟩
  · intro hb
    refine ⟨cur ++ [x], by simp, ?_⟩
    rw [hb' hb]; simp

/-- the last step -/
theorem lineStep_final {box : Bound α} (hb : BoxOK box) {p0 a : Pt α} (b : Pt α) {st : LineSt α}
    (hI : Inv box p0 st a) :
    (lineStep box true st a b true).stuck = false ∧
      Final box p0 b (lineStep box true st a b true).out := by
  have hcode := hI.2.1
  rw [lineStep_eq_U hb b true hcode]
  have hst := hI.1
  have key := segLoop_open hb a b st.codeA hcode
  generalize hr : segLoopU box 8 a b st.codeA (Clip.bitCodeOpen box b) = r at key
  cases r with
  | stuck => exact key.elim
  | reject =>
    obtain ⟨hneA, hneB⟩ := key
    rw [lineStep_reject true hr]
    obtain ⟨_, _, done, hl, hdone, ⟨ho, hf1, hf2⟩ | ⟨cur, ho, hc0, _⟩⟩ := hI
    · refine ⟨hst, ?_, ?_, ?_⟩
      · intro k piece hk
        have hk' : done[k]? = some piece := by rw [← ho]; exact hk
        obtain ⟨c1, c2, c3, c4⟩ := hdone k piece hk'
        exact ⟨c1, c2, c3, fun p hp => Or.inl (c4 p hp)⟩
      · intro hbo; exact absurd (code_zero_of_inOpen hbo) hneB
      · intro hp0 hd
        have hd' : done = [] := by rw [← ho]; exact hd
        apply hneA; rw [hcode, hf1 hd' hp0]; exact code_zero_of_inOpen hp0
    · exact absurd hc0 hneA
  | accept a' b' c =>
    obtain ⟨hc, hia, hib, ha0, haN, hb0, hbN⟩ := key
    subst hc
    obtain ⟨done, cur, hl, hdone, hp, hopen⟩ := push_start hI hia ha0 haN
    by_cases hE : Clip.bitCodeOpen box b = 0
    · rw [lineStep_accept_in_last hr hE, hp, hl, push_open]
      exact ⟨hst, final_snoc hdone hopen hib (Or.inr ⟨hb0 hE, inOpen_of_code_zero hE⟩) (fun _ => hb0 hE)⟩
    · rw [lineStep_accept_out true hr hE, hp, hl, push_open]
      exact ⟨hst, final_snoc hdone hopen hib (Or.inl (hbN hE))
        (fun h => absurd (code_zero_of_inOpen h) hE)⟩

theorem lineLoop_final {box : Bound α} (hb : BoxOK box) (p0 : Pt α) :
    ∀ (rest : List (Pt α)) (a : Pt α) (st : LineSt α) (bl : Pt α), rest ≠ [] → Inv box p0 st a →
      (a :: rest).getLast? = some bl →
      (lineLoop box true st (a :: rest)).stuck = false ∧
      Final box p0 bl (lineLoop box true st (a :: rest)).out := by
  intro rest
  induction rest with
  | nil => intro a st bl h; exact absurd rfl h
  | cons b rest ih =>
    intro a st bl _ hI hlast
    rw [lineLoop_cons_cons]
    cases rest with
    | nil =>
      have : b = bl := by simpa using hlast
      subst this
      rw [lineLoop_single]
      exact lineStep_final hb b hI
    | cons c rest =>
      have hI' := lineStep_inv hb b hI
      exact ih b _ bl (by simp) hI' (by simpa using hlast)

theorem line_final {box : Bound α} (hb : BoxOK box) (p b : Pt α) (rest : List (Pt α)) (bl : Pt α)
    (hlast : (p :: b :: rest).getLast? = some bl) :
    ∃ out, Clip.line box true (p :: b :: rest) = some out ∧ Final box p bl out := by
  have hI : Inv box p ⟨[], 0, Clip.bitCodeOpen box p, false⟩ p :=
    ⟨rfl, rfl, [], rfl, by simp, Or.inl ⟨rfl, fun _ _ => rfl, fun _ => ⟨rfl, rfl⟩⟩⟩
  obtain ⟨h1, h2⟩ := lineLoop_final hb p (b :: rest) p _ bl (by simp) hI hlast
  refine ⟨_, ?_, h2⟩
  show (if (lineLoop box true ⟨[], 0, Clip.bitCodeOpen box p, false⟩ (p :: b :: rest)).stuck = true then none
      else some (lineLoop box true ⟨[], 0, Clip.bitCodeOpen box p, false⟩ (p :: b :: rest)).out) = _
  rw [h1]; rfl

theorem lineSpec_of_final {box : Bound α} {inp : List (Pt α)} {p0 bl : Pt α} {out : List (List (Pt α))}
    (hh : inp.head? = some p0) (hl : inp.getLast? = some bl) (hF : Final box p0 bl out) :
    (∀ piece ∈ out, 2 ≤ piece.length) ∧
    (∀ piece ∈ out, ∀ v ∈ piece, InBox box v) ∧
    (∀ (k : Nat) (piece : List (Pt α)), out[k]? = some piece → ∀ p, piece.head? = some p →
      OnBoundary box p ∨ (k = 0 ∧ inp.head? = some p ∧ InOpenBox box p)) ∧
    (∀ (k : Nat) (piece : List (Pt α)), out[k]? = some piece → ∀ p, piece.getLast? = some p →
      OnBoundary box p ∨ (k + 1 = out.length ∧ inp.getLast? = some p ∧ InOpenBox box p)) ∧
    (2 ≤ inp.length → ∀ p, inp.head? = some p → InOpenBox box p →
      ∃ piece, out[0]? = some piece ∧ piece.head? = some p) ∧
    (2 ≤ inp.length → ∀ p, inp.getLast? = some p → InOpenBox box p →
      ∃ piece, out.getLast? = some piece ∧ piece.getLast? = some p) := by
  obtain ⟨f1, f2, f3⟩ := hF
  refine ⟨?_, ?_, ?_, ?_, ?_, ?_⟩
  · intro piece hp
    obtain ⟨k, hk⟩ := List.getElem?_of_mem hp
    exact (f1 k piece hk).1
  · intro piece hp
    obtain ⟨k, hk⟩ := List.getElem?_of_mem hp
    exact (f1 k piece hk).2.1
  · intro k piece hk p hp
    rcases ((f1 k piece hk).2.2.1 p hp).1 with h | ⟨h1, h2, h3⟩
    · exact Or.inl h
    · exact Or.inr ⟨h1, by rw [h2]; exact hh, h3⟩
  · intro k piece hk p hp
    rcases (f1 k piece hk).2.2.2 p hp with h | ⟨h1, h2, h3⟩
    · exact Or.inl h
    · exact Or.inr ⟨h1, by rw [h2]; exact hl, by rw [h2]; exact h3⟩
  · intro _ p hp hopen
    have hpp : p0 = p := by rw [hh] at hp; exact Option.some.inj hp
    subst hpp
    have hne := f3 hopen
    cases out with
    | nil => exact absurd rfl hne
    | cons piece out =>
      obtain ⟨g1, _, g3, _⟩ := f1 0 piece rfl
      cases piece with
      | nil => simp at g1
      | cons q piece =>
        refine ⟨q :: piece, rfl, ?_⟩
        have := (g3 q rfl).2 rfl hopen
        rw [this]; rfl
  · intro _ p hp hopen
    have hpp : bl = p := by rw [hl] at hp; exact Option.some.inj hp
    subst hpp
    exact f2 hopen

end LE

/-- smartclip's `bitCodeOpen` is clip's -/
theorem bitCodeOpen_eq_clip' (box : Bound α) (p : Pt α) : bitCodeOpen box p = Clip.bitCodeOpen box p := by
  unfold bitCodeOpen Clip.bitCodeOpen
  simp only [Generated.Params.clip_codeLeft, Generated.Params.clip_codeRight,
    Generated.Params.clip_codeBottom, Generated.Params.clip_codeTop]

/-- all vertices strictly inside: the line comes back as one piece -/
theorem line_open_inside' (box : Bound α) (inp : List (Pt α)) (h2 : 2 ≤ inp.length)
    (hin : ∀ v ∈ inp, InOpenBox box v) : Clip.line box true inp = some [inp] :=
  LE.line_inside box inp h2 hin

/-- all vertices on the outer side of one edge (the edge itself included): nothing is left -/
theorem line_open_outside' (box : Bound α) (hb : BoxOK box) (inp : List (Pt α))
    (h : (∀ v ∈ inp, v.x ≤ box.lo.x) ∨ (∀ v ∈ inp, box.hi.x ≤ v.x) ∨
         (∀ v ∈ inp, v.y ≤ box.lo.y) ∨ (∀ v ∈ inp, box.hi.y ≤ v.y)) :
    Clip.line box true inp = some [] := by
  rcases h with h | h | h | h
  · have hk : LE.Edge 1 := Or.inr (Or.inr (Or.inr rfl))
    refine LE.line_outside hk inp (fun v hv => (LE.bitCodeOpen_bit hb v hk).2 ?_)
    rw [LE.exc_1]; linarith [h v hv]
  · have hk : LE.Edge 2 := Or.inr (Or.inr (Or.inl rfl))
    refine LE.line_outside hk inp (fun v hv => (LE.bitCodeOpen_bit hb v hk).2 ?_)
    rw [LE.exc_2]; linarith [h v hv]
  · have hk : LE.Edge 4 := Or.inr (Or.inl rfl)
    refine LE.line_outside hk inp (fun v hv => (LE.bitCodeOpen_bit hb v hk).2 ?_)
    rw [LE.exc_4]; linarith [h v hv]
  · have hk : LE.Edge 8 := Or.inl rfl
    refine LE.line_outside hk inp (fun v hv => (LE.bitCodeOpen_bit hb v hk).2 ?_)
    rw [LE.exc_8]; linarith [h v hv]

theorem line_spec' (box : Bound α) (hb : BoxOK box) : LineSpec box := by
  intro inp
  match inp with
  | [] => exact ⟨[], rfl, by simp⟩
  | [p] =>
    refine ⟨[], ?_, by simp⟩
    simp [Clip.line, LE.lineLoop_single]
  | p :: b :: rest =>
    obtain ⟨bl, hbl⟩ : ∃ bl, (p :: b :: rest).getLast? = some bl :=
      ⟨(p :: b :: rest).getLast (by simp), List.getLast?_eq_getLast_of_ne_nil (by simp)⟩
    obtain ⟨out, h1, hF⟩ := LE.line_final hb p b rest bl hbl
    exact ⟨out, h1, LE.lineSpec_of_final rfl hbl hF⟩

end Orb.SmartClip
