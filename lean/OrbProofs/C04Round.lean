/-
  C04 — round trip over all spellings (collections to any depth), the typed decision table.
  Helper file of OrbProofs.C04Lemmas.
-/
import OrbProofs.C04Kinds
import OrbProofs.C04Total
import Mathlib.Tactic

namespace Orb.WKT

/-! ### auxiliary: the depth scan of the collection splitter (names prefixed `rd_`) -/

set_option maxRecDepth 100000 in
theorem rd_upper_delim (b : UInt8) : (upper b = cLP ↔ b = cLP) ∧ (upper b = cRP ↔ b = cRP) ∧ (upper b = cComma ↔ b = cComma) := by
  have h : ∀ n : Fin 256, (upper (UInt8.ofFin n) = cLP ↔ (UInt8.ofFin n) = cLP) ∧ (upper (UInt8.ofFin n) = cRP ↔ (UInt8.ofFin n) = cRP) ∧ (upper (UInt8.ofFin n) = cComma ↔ (UInt8.ofFin n) = cComma) := by decide
  simpa using h b.toFin

/-- a byte that the collection splitter does not look at -/
def RdPlain (b : UInt8) : Prop := b ≠ cLP ∧ b ≠ cRP ∧ b ≠ cComma

theorem rd_plain_of_blank {b : UInt8} (h : isBlank b = true) : RdPlain b := by
  simp only [isBlank, Bool.or_eq_true, beq_iff_eq] at h
  rcases h with (rfl | rfl) | rfl <;> (unfold RdPlain; decide)

theorem rd_plain_of_notDelim {b : UInt8} (h : isDelim b = false) : RdPlain b := by
  simp only [isDelim, Bool.or_eq_false_iff, beq_eq_false_iff_ne] at h
  exact ⟨h.1.2, h.2, h.1.1.2⟩

theorem rd_plain_of_caseVariant {kw k : Str} (hv : CaseVariant kw k) (hk : ∀ b ∈ kw, RdPlain b) : ∀ b ∈ k, RdPlain b := by
  intro b hb
  have : upper b ∈ kw := by rw [← hv]; exact List.mem_map_of_mem hb
  have h := hk _ this
  have u := rd_upper_delim b
  exact ⟨fun e => h.1 (u.1.2 e), fun e => h.2.1 (u.2.1.2 e), fun e => h.2.2 (u.2.2.2 e)⟩

/-- scanning `t` at any depth `≥ lo` cuts nothing and comes back to the same depth -/
def DepthScan (lo : Int) (t : Str) : Prop :=
  ∀ d : Int, lo ≤ d → ∀ (s rest : Str) (i start : Nat) (r : List Str),
    sgcLoop s (t ++ rest) i d start r = sgcLoop s rest (i + t.length) d start r

theorem rd_scan_nil (lo : Int) : DepthScan lo [] := by
  intro d _ s rest i start r; simp

theorem rd_scan_mono {lo lo' : Int} {t : Str} (h : lo ≤ lo') (hs : DepthScan lo t) : DepthScan lo' t :=
  fun d hd => hs d (le_trans h hd)

theorem rd_scan_append {lo : Int} {x y : Str} (hx : DepthScan lo x) (hy : DepthScan lo y) : DepthScan lo (x ++ y) := by
  intro d hd s rest i start r
  rw [List.append_assoc, hx d hd, hy d hd, List.length_append, Nat.add_assoc]

theorem rd_scan_plain {lo : Int} {t : Str} (h : ∀ b ∈ t, RdPlain b) : DepthScan lo t := by
  induction t with
  | nil => exact rd_scan_nil lo
  | cons b t ih =>
    intro d hd s rest i start r
    have hb := h b (by simp)
    have := ih (fun c hc => h c (by simp [hc])) d hd s rest (i + 1) start r
    simp only [List.cons_append, sgcLoop, beq_iff_eq, hb.1, hb.2.1, hb.2.2, if_false, List.length_cons]
    rw [this]; congr 1; omega

theorem rd_scan_comma {lo : Int} (h : 1 ≤ lo) : DepthScan lo [cComma] := by
  intro d hd s rest i start r
  have hd0 : (d == 0) = false := by simp; omega
  have h1 : (cComma == cLP) = false := by decide
  have h2 : (cComma == cRP) = false := by decide
  simp [sgcLoop, hd0, h1, h2]

theorem rd_scan_bracket {lo : Int} {x : Str} (hx : DepthScan (lo + 1) x) : DepthScan lo (cLP :: (x ++ [cRP])) := by
  intro d hd s rest i start r
  have h2 : (cRP == cLP) = false := by decide
  simp only [List.cons_append, sgcLoop, beq_self_eq_true, if_true, List.append_assoc]
  rw [hx (d + 1) (by omega)]
  simp only [List.nil_append, sgcLoop, h2, beq_self_eq_true, if_true, List.length_cons, List.length_append,
    List.length_nil]
  rw [show d + 1 - 1 = d by omega]
  simp only [Bool.false_eq_true, if_false]
  congr 1; omega

theorem rd_scan_sepJoin {lo : Int} (h : 1 ≤ lo) {ps : List Str} {body : Str} (hj : SepJoin ps body)
    (hp : ∀ p ∈ ps, DepthScan lo p) : DepthScan lo body := by
  induction hj with
  | one p => exact hp p (by simp)
  | cons p a b ps t ha hb _ ih =>
    have e : p ++ a ++ cComma :: (b ++ t) = p ++ (a ++ ([cComma] ++ (b ++ t))) := by simp
    rw [e]
    refine rd_scan_append (hp p (by simp)) (rd_scan_append (rd_scan_plain fun c hc => rd_plain_of_blank (ha c hc))
      (rd_scan_append (rd_scan_comma h) (rd_scan_append (rd_scan_plain fun c hc => rd_plain_of_blank (hb c hc)) (ih fun q hq => hp q (by simp [hq])))))

theorem rd_scan_commaSep {lo : Int} (h : 1 ≤ lo) {ps : List Str} (hp : ∀ p ∈ ps, DepthScan lo p) : DepthScan lo (commaSep ps) := by
  cases ps with
  | nil => exact rd_scan_nil lo
  | cons p ps => exact rd_scan_sepJoin h (sepJoin_commaSep (by simp)) hp

instance rd_decPlain (b : UInt8) : Decidable (RdPlain b) := by unfold RdPlain; infer_instance

theorem rd_scan_bracketed {lo : Int} {a b c body : Str} (ha : AllBlank a) (hb : AllBlank b) (hc : AllBlank c)
    (h : DepthScan (lo + 1) body) : DepthScan lo (bracketed a b c body) := by
  unfold bracketed
  refine rd_scan_append (rd_scan_plain fun x hx => rd_plain_of_blank (ha x hx)) ?_
  rw [show b ++ body ++ c ++ [cRP] = (b ++ (body ++ c)) ++ [cRP] by simp]
  exact rd_scan_bracket (rd_scan_append (rd_scan_plain fun x hx => rd_plain_of_blank (hb x hx))
    (rd_scan_append h (rd_scan_plain fun x hx => rd_plain_of_blank (hc x hx))))

theorem rd_scan_kwBracketed {lo : Int} {kw body t : Str} (hk : ∀ b ∈ kw, RdPlain b) (h : KwBracketed kw body t)
    (hb : DepthScan (lo + 1) body) : DepthScan lo t := by
  obtain ⟨k, a, b, c, hv, ha, hb', hc, rfl⟩ := h
  exact rd_scan_append (rd_scan_plain (rd_plain_of_caseVariant hv hk)) (rd_scan_bracketed ha hb' hc hb)

theorem rd_scan_emptyParen (lo : Int) : DepthScan lo [cLP, cRP] := by
  have := rd_scan_bracket (lo := lo) (x := []) (rd_scan_nil _)
  simpa using this

section
variable (fmtF : UInt64 → Str)

/-- the two printed numbers of a point contain no byte the splitter looks at -/
def RdCleanPt (p : P) : Prop := (∀ b ∈ fmtF p.x, RdPlain b) ∧ (∀ b ∈ fmtF p.y, RdPlain b)

theorem rd_scan_wCoord {lo : Int} {p : P} (h : RdCleanPt fmtF p) : DepthScan lo (wCoord fmtF p) := by
  apply rd_scan_plain
  intro b hb
  simp only [wCoord, List.mem_append, List.mem_cons] at hb
  rcases hb with hb | rfl | hb
  · exact h.1 b hb
  · unfold RdPlain; decide
  · exact h.2 b hb

theorem rd_scan_wLineString {lo : Int} (hlo : 0 ≤ lo) {ps : List P} (h : ∀ p ∈ ps, RdCleanPt fmtF p) :
    DepthScan lo (wLineString fmtF ps) := by
  unfold wLineString
  refine rd_scan_bracket (rd_scan_commaSep (by omega) ?_)
  intro q hq
  obtain ⟨p, hp, rfl⟩ := List.mem_map.1 hq
  exact rd_scan_wCoord fmtF (h p hp)

theorem rd_scan_wRings {lo : Int} (hlo : 0 ≤ lo) {rs : List (List P)} (h : ∀ r ∈ rs, ∀ p ∈ r, RdCleanPt fmtF p) :
    DepthScan lo (wRings fmtF rs) := by
  unfold wRings
  refine rd_scan_bracket (rd_scan_commaSep (by omega) ?_)
  intro q hq
  obtain ⟨r, hr, rfl⟩ := List.mem_map.1 hq
  exact rd_scan_wLineString fmtF (by omega) (h r hr)

theorem rd_scan_isBrPoints {lo : Int} (hlo : 0 ≤ lo) {ps : List P} {t : Str} (h : ∀ p ∈ ps, RdCleanPt fmtF p)
    (ht : IsBrPoints fmtF ps t) : DepthScan lo t := by
  rcases ht with ⟨_, rfl⟩ | ⟨b, c, body, hb, hc, hj, rfl⟩
  · exact rd_scan_emptyParen lo
  · refine rd_scan_bracketed (by intro x hx; cases hx) hb hc (rd_scan_sepJoin (by omega) hj ?_)
    intro q hq
    obtain ⟨p, hp, rfl⟩ := List.mem_map.1 hq
    exact rd_scan_wCoord fmtF (h p hp)

end

theorem rd_forall2_mem_right {α β : Type} {r : α → β → Prop} {as : List α} {bs : List β} (h : Forall2 r as bs) :
    ∀ b ∈ bs, ∃ a ∈ as, r a b := by
  induction h with
  | nil => intro b hb; cases hb
  | cons hab _ ih =>
    intro b hb
    rcases List.mem_cons.1 hb with rfl | hb
    · exact ⟨_, by simp, hab⟩
    · obtain ⟨a, ha, h⟩ := ih b hb
      exact ⟨a, by simp [ha], h⟩

theorem rd_scan_ringPieces (fmtF : UInt64 → Str) {lo : Int} (hlo : 1 ≤ lo) {rs : List (List P)} {pieces : List Str} {body : Str}
    (h : ∀ r ∈ rs, ∀ p ∈ r, RdCleanPt fmtF p) (hf : Forall2 (IsBrPoints fmtF) rs pieces) (hj : SepJoin pieces body) :
    DepthScan lo body := by
  refine rd_scan_sepJoin hlo hj ?_
  intro q hq
  obtain ⟨r, hr, hq'⟩ := rd_forall2_mem_right hf q hq
  exact rd_scan_isBrPoints fmtF (by omega) (h r hr) hq'

theorem rd_scan_kwRings (fmtF : UInt64 → Str) {kw : Str} {rs : List (List P)} {t : Str} (hk : ∀ b ∈ kw, RdPlain b)
    (h : ∀ r ∈ rs, ∀ p ∈ r, RdCleanPt fmtF p) (ht : KwRings fmtF kw rs t) : DepthScan 0 t := by
  obtain ⟨pieces, body, hf, hj, hkb⟩ := ht
  exact rd_scan_kwBracketed hk hkb (rd_scan_ringPieces fmtF (by omega) h hf hj)

theorem rd_scan_isBrPoly (fmtF : UInt64 → Str) {lo : Int} (hlo : 0 ≤ lo) {rs : List (List P)} {t : Str}
    (h : ∀ r ∈ rs, ∀ p ∈ r, RdCleanPt fmtF p) (ht : IsBrPoly fmtF rs t) : DepthScan lo t := by
  rcases ht with ⟨_, rfl⟩ | ⟨pieces, b, c, body, hb, hc, hf, hj, rfl⟩
  · exact rd_scan_emptyParen lo
  · exact rd_scan_bracketed (by intro x hx; cases hx) hb hc (rd_scan_ringPieces fmtF (by omega) h hf hj)

theorem rd_geom_ind {motive : G → Prop}
    (h1 : ∀ p, motive (.point p)) (h2 : ∀ ps, motive (.multiPoint ps))
    (h3 : ∀ ps, motive (.lineString ps)) (h4 : ∀ ls, motive (.multiLineString ls))
    (h5 : ∀ ps, motive (.ring ps)) (h6 : ∀ rs, motive (.polygon rs))
    (h7 : ∀ ps, motive (.multiPolygon ps)) (h8 : ∀ a b, motive (.bound a b))
    (hc : ∀ gs, (∀ g ∈ gs, motive g) → motive (.collection gs)) : ∀ g, motive g := by
  intro g
  refine Geom.rec (motive_1 := motive) (motive_2 := fun gs => ∀ g ∈ gs, motive g)
    h1 h2 h3 h4 h5 h6 h7 h8 hc ?_ ?_ g
  · intro g hg; cases hg
  · intro head tail hh ht g hg
    rcases List.mem_cons.1 hg with rfl | hg
    · exact hh
    · exact ht g hg

theorem rd_spelledList_forall2 (fmtF : UInt64 → Str) : ∀ (gs : List G) (ts : List Str), SpelledList fmtF gs ts →
    Forall2 (SpelledCore fmtF) gs ts
  | [], [], _ => .nil
  | [], _ :: _, h => by simp only [SpelledList] at h
  | _ :: _, [], h => by simp only [SpelledList] at h
  | g :: gs, t :: ts, h => by
    simp only [SpelledList] at h
    exact .cons h.1 (rd_spelledList_forall2 fmtF gs ts h.2)

theorem rd_kw_plain :
    (∀ b ∈ kwPoint, RdPlain b) ∧ (∀ b ∈ kwMultiPoint, RdPlain b) ∧ (∀ b ∈ kwLineString, RdPlain b) ∧
    (∀ b ∈ kwMultiLineString, RdPlain b) ∧ (∀ b ∈ kwPolygon, RdPlain b) ∧ (∀ b ∈ kwMultiPolygon, RdPlain b) ∧
    (∀ b ∈ kwCollection, RdPlain b) ∧
    (∀ b ∈ kwMultiPoint ++ sEmpty, RdPlain b) ∧ (∀ b ∈ kwLineString ++ sEmpty, RdPlain b) ∧
    (∀ b ∈ kwMultiLineString ++ sEmpty, RdPlain b) ∧ (∀ b ∈ kwPolygon ++ sEmpty, RdPlain b) ∧
    (∀ b ∈ kwMultiPolygon ++ sEmpty, RdPlain b) ∧ (∀ b ∈ kwCollection ++ sEmpty, RdPlain b) := by
  decide

section
variable (fmtF : UInt64 → Str)

/-- every printed coordinate of `g` is free of the bytes the splitter looks at -/
def RdClean (g : G) : Prop := ∀ x ∈ coords g, ∀ b ∈ fmtF x, RdPlain b

theorem rd_clean_pts {ps : List P} (h : ∀ x ∈ ptsCoords ps, ∀ b ∈ fmtF x, RdPlain b) :
    ∀ p ∈ ps, RdCleanPt fmtF p := by
  intro p hp
  constructor
  · exact h p.x (by simp only [ptsCoords, List.mem_flatMap]; exact ⟨p, hp, by simp [ptCoords]⟩)
  · exact h p.y (by simp only [ptsCoords, List.mem_flatMap]; exact ⟨p, hp, by simp [ptCoords]⟩)

theorem rd_clean_rings {rs : List (List P)} (h : ∀ x ∈ ringsCoords rs, ∀ b ∈ fmtF x, RdPlain b) :
    ∀ r ∈ rs, ∀ p ∈ r, RdCleanPt fmtF p := by
  intro r hr
  apply rd_clean_pts
  intro x hx
  exact h x (by simp only [ringsCoords, List.mem_flatMap]; exact ⟨r, hr, hx⟩)

theorem rd_mem_coordsList {g : G} {x : UInt64} : ∀ {gs : List G}, g ∈ gs → x ∈ coords g → x ∈ coords.coordsList gs
  | [], hg, _ => by cases hg
  | g' :: gs, hg, hx => by
    simp only [coords.coordsList, List.mem_append]
    rcases List.mem_cons.1 hg with rfl | hg
    · exact Or.inl hx
    · exact Or.inr (rd_mem_coordsList hg hx)

theorem rd_scan_spelledCore (g : G) : ∀ t, SpelledCore fmtF g t → RdClean fmtF g → DepthScan 0 t := by
  induction g using rd_geom_ind with
  | h1 p =>
    intro t h hc
    simp only [SpelledCore] at h
    refine rd_scan_kwBracketed (by decide) h (rd_scan_wCoord fmtF ⟨hc p.x ?_, hc p.y ?_⟩) <;> simp [coords, ptCoords]
  | h2 ps =>
    intro t h hc
    cases ps with
    | nil =>
      simp only [SpelledCore] at h
      exact rd_scan_plain (rd_plain_of_caseVariant h (by decide))
    | cons p ps =>
      simp only [SpelledCore] at h
      obtain ⟨pieces, body, hf, hj, hk⟩ := h
      refine rd_scan_kwBracketed (by decide) hk (rd_scan_sepJoin (by omega) hj ?_)
      intro q hq
      obtain ⟨p', hp', b, c, hb, hc', rfl⟩ := rd_forall2_mem_right hf q hq
      exact rd_scan_bracketed (by intro x hx; cases hx) hb hc' (rd_scan_wCoord fmtF (rd_clean_pts fmtF hc p' hp'))
  | h3 ps =>
    intro t h hc
    cases ps with
    | nil =>
      simp only [SpelledCore] at h
      exact rd_scan_plain (rd_plain_of_caseVariant h (by decide))
    | cons p ps =>
      simp only [SpelledCore] at h
      obtain ⟨body, hj, hk⟩ := h
      refine rd_scan_kwBracketed (by decide) hk (rd_scan_sepJoin (by omega) hj ?_)
      intro q hq
      obtain ⟨p', hp', rfl⟩ := List.mem_map.1 hq
      exact rd_scan_wCoord fmtF (rd_clean_pts fmtF hc p' hp')
  | h4 ls =>
    intro t h hc
    cases ls with
    | nil =>
      simp only [SpelledCore] at h
      exact rd_scan_plain (rd_plain_of_caseVariant h (by decide))
    | cons l ls =>
      simp only [SpelledCore] at h
      exact rd_scan_kwRings fmtF (by decide) (rd_clean_rings fmtF hc) h
  | h5 r =>
    intro t h hc
    simp only [SpelledCore] at h
    refine rd_scan_kwRings fmtF (by decide) ?_ h
    intro r' hr'
    rw [List.mem_singleton.1 hr']
    exact rd_clean_pts fmtF hc
  | h6 rs =>
    intro t h hc
    cases rs with
    | nil =>
      simp only [SpelledCore] at h
      exact rd_scan_plain (rd_plain_of_caseVariant h (by decide))
    | cons l ls =>
      simp only [SpelledCore] at h
      exact rd_scan_kwRings fmtF (by decide) (rd_clean_rings fmtF hc) h
  | h7 ps =>
    intro t h hc
    cases ps with
    | nil =>
      simp only [SpelledCore] at h
      exact rd_scan_plain (rd_plain_of_caseVariant h (by decide))
    | cons l ls =>
      simp only [SpelledCore] at h
      obtain ⟨pieces, body, hf, hj, hk⟩ := h
      refine rd_scan_kwBracketed (by decide) hk (rd_scan_sepJoin (by omega) hj ?_)
      intro q hq
      obtain ⟨poly, hp, hq'⟩ := rd_forall2_mem_right hf q hq
      refine rd_scan_isBrPoly fmtF (by omega) (rd_clean_rings fmtF ?_) hq'
      intro x hx
      exact hc x (by simp only [coords, List.mem_flatMap]; exact ⟨poly, hp, hx⟩)
  | h8 a b =>
    intro t h hc
    simp only [SpelledCore] at h
    refine rd_scan_kwRings fmtF (by decide) ?_ h
    intro r' hr'
    rw [List.mem_singleton.1 hr']
    have ha : RdCleanPt fmtF a := ⟨hc a.x (by simp [coords, ptCoords]), hc a.y (by simp [coords, ptCoords])⟩
    have hb : RdCleanPt fmtF b := ⟨hc b.x (by simp [coords, ptCoords]), hc b.y (by simp [coords, ptCoords])⟩
    intro p hp
    simp only [boundRing, List.mem_cons, List.not_mem_nil, or_false] at hp
    rcases hp with rfl | rfl | rfl | rfl | rfl
    · exact ha
    · exact ⟨hb.1, ha.2⟩
    · exact hb
    · exact ⟨ha.1, hb.2⟩
    · exact ha
  | hc gs ih =>
    intro t h hc
    cases gs with
    | nil =>
      simp only [SpelledCore] at h
      exact rd_scan_plain (rd_plain_of_caseVariant h (by decide))
    | cons g gs =>
      simp only [SpelledCore] at h
      obtain ⟨ts, body, hl, hj, hk⟩ := h
      have hf := rd_spelledList_forall2 fmtF _ _ hl
      refine rd_scan_kwBracketed (by decide) hk (rd_scan_sepJoin (by omega) hj ?_)
      intro q hq
      obtain ⟨g', hg', hs⟩ := rd_forall2_mem_right hf q hq
      refine rd_scan_mono (by omega) (ih g' hg' q hs ?_)
      intro x hx
      exact hc x (rd_mem_coordsList hg' hx)
end

/-- `p` is `t` with blanks around it -/
def RdPadOf (t p : Str) : Prop := ∃ x y, AllBlank x ∧ AllBlank y ∧ p = x ++ t ++ y

theorem rd_slice_mid (x y z : Str) : slice (x ++ (y ++ z)) x.length (x.length + y.length) = .ok y := by
  unfold slice
  rw [if_pos (by simp)]
  simp

theorem rd_allBlank_nil : AllBlank [] := fun _ hc => absurd hc List.not_mem_nil

theorem rd_allBlank_append {a b : Str} (ha : AllBlank a) (hb : AllBlank b) : AllBlank (a ++ b) := by
  intro c hc
  rcases List.mem_append.1 hc with h | h
  · exact ha c h
  · exact hb c h

/-- the splitter on members joined by re-spelled commas: exactly the members, each with the blanks
    next to its commas -/
theorem rd_sgcLoop_sepJoin {ts : List Str} {body : Str} (hj : SepJoin ts body) (hs : ∀ t ∈ ts, DepthScan 0 t) :
    ∀ (s s0 pre : Str) (r : List Str) (i start : Nat), AllBlank pre → s = s0 ++ (pre ++ body) →
      i = s0.length + pre.length → start = s0.length →
      ∃ pieces, sgcLoop s body i 0 start r = .ok (r ++ pieces) ∧ Forall2 RdPadOf ts pieces := by
  induction hj with
  | one p =>
    intro s s0 pre r i start hpre es ei est
    refine ⟨[pre ++ p], ?_, .cons ⟨pre, [], hpre, rd_allBlank_nil, (List.append_nil _).symm⟩ .nil⟩
    have := hs p (by simp) 0 (le_refl _) s [] i start r
    rw [List.append_nil] at this
    rw [this]
    simp only [sgcLoop]
    rw [es, est, sliceFrom_append]
  | cons p a b ps t ha hb _ ih =>
    intro s s0 pre r i start hpre es ei est
    have hp := hs p (by simp) 0 (le_refl _) s (a ++ cComma :: (b ++ t)) i start r
    have ha' := rd_scan_plain (lo := 0) (fun c hc => rd_plain_of_blank (ha c hc)) 0 (le_refl _) s (cComma :: (b ++ t))
      (i + p.length) start r
    have hb' := rd_scan_plain (lo := 0) (fun c hc => rd_plain_of_blank (hb c hc)) 0 (le_refl _) s t
      (i + p.length + a.length + 1) (i + p.length + a.length + 1) (r ++ [pre ++ p ++ a])
    have hsl : slice s start (i + p.length + a.length) = .ok (pre ++ p ++ a) := by
      rw [es, est, ei]
      have := rd_slice_mid s0 (pre ++ p ++ a) (cComma :: (b ++ t))
      simp only [List.length_append, List.append_assoc] at this ⊢
      rw [← this]; congr 1; omega
    obtain ⟨pieces, h1, h2⟩ := ih (fun q hq => hs q (by simp [hq])) s (s0 ++ pre ++ p ++ a ++ [cComma]) b
      (r ++ [pre ++ p ++ a]) (i + p.length + a.length + 1 + b.length) (i + p.length + a.length + 1) hb
      (by rw [es]; simp) (by rw [ei]; simp; omega) (by rw [ei]; simp; omega)
    refine ⟨(pre ++ p ++ a) :: pieces, ?_, .cons ⟨pre, a, hpre, ha, rfl⟩ h2⟩
    have h3 : (cComma == cLP) = false := by decide
    have h4 : (cComma == cRP) = false := by decide
    rw [show p ++ a ++ cComma :: (b ++ t) = p ++ (a ++ cComma :: (b ++ t)) by simp, hp, ha']
    simp only [sgcLoop, h3, h4, Bool.false_eq_true, if_false, beq_self_eq_true, if_true, hsl]
    rw [hb', h1]
    simp

section
variable (fmtF : UInt64 → Str) (parseF : Str → Option UInt64)

theorem rd_kindIdx_lt (g : G) : kindIdx g < 7 := by
  cases g <;> simp [kindIdx]

/-! `Unmarshal`'s dispatch on a padded spelled text, per kind index -/

theorem rd_dispatch0 {g : G} {t pre post : Str} (h : SpelledCore fmtF g t) (hi : kindIdx g = 0)
    (hpre : AllBlank pre) (hpost : AllBlank post) (f : Nat) :
    unmarshalF parseF (f + 1) (pre ++ t ++ post) = (unmarshalPoint parseF t).map .point := by
  have hge := spelledCore_goodEnds fmtF h
  obtain ⟨k, rest, hv, rfl⟩ := spelledCore_prefix fmtF h
  have hk := kwAt_kindIdx g
  rw [hi] at hk
  exact unmarshalF_dispatch parseF (i := 0) (by decide) hpre hpost (by rw [hk]; exact hv) hge

theorem rd_dispatch1 {g : G} {t pre post : Str} (h : SpelledCore fmtF g t) (hi : kindIdx g = 1)
    (hpre : AllBlank pre) (hpost : AllBlank post) (f : Nat) :
    unmarshalF parseF (f + 1) (pre ++ t ++ post) = (unmarshalMultiPoint parseF t).map .multiPoint := by
  have hge := spelledCore_goodEnds fmtF h
  obtain ⟨k, rest, hv, rfl⟩ := spelledCore_prefix fmtF h
  have hk := kwAt_kindIdx g
  rw [hi] at hk
  exact unmarshalF_dispatch parseF (i := 1) (by decide) hpre hpost (by rw [hk]; exact hv) hge

theorem rd_dispatch2 {g : G} {t pre post : Str} (h : SpelledCore fmtF g t) (hi : kindIdx g = 2)
    (hpre : AllBlank pre) (hpost : AllBlank post) (f : Nat) :
    unmarshalF parseF (f + 1) (pre ++ t ++ post) = (unmarshalLineString parseF t).map .lineString := by
  have hge := spelledCore_goodEnds fmtF h
  obtain ⟨k, rest, hv, rfl⟩ := spelledCore_prefix fmtF h
  have hk := kwAt_kindIdx g
  rw [hi] at hk
  exact unmarshalF_dispatch parseF (i := 2) (by decide) hpre hpost (by rw [hk]; exact hv) hge

theorem rd_dispatch3 {g : G} {t pre post : Str} (h : SpelledCore fmtF g t) (hi : kindIdx g = 3)
    (hpre : AllBlank pre) (hpost : AllBlank post) (f : Nat) :
    unmarshalF parseF (f + 1) (pre ++ t ++ post) = (unmarshalMultiLineString parseF t).map .multiLineString := by
  have hge := spelledCore_goodEnds fmtF h
  obtain ⟨k, rest, hv, rfl⟩ := spelledCore_prefix fmtF h
  have hk := kwAt_kindIdx g
  rw [hi] at hk
  exact unmarshalF_dispatch parseF (i := 3) (by decide) hpre hpost (by rw [hk]; exact hv) hge

theorem rd_dispatch4 {g : G} {t pre post : Str} (h : SpelledCore fmtF g t) (hi : kindIdx g = 4)
    (hpre : AllBlank pre) (hpost : AllBlank post) (f : Nat) :
    unmarshalF parseF (f + 1) (pre ++ t ++ post) = (unmarshalPolygon parseF t).map .polygon := by
  have hge := spelledCore_goodEnds fmtF h
  obtain ⟨k, rest, hv, rfl⟩ := spelledCore_prefix fmtF h
  have hk := kwAt_kindIdx g
  rw [hi] at hk
  exact unmarshalF_dispatch parseF (i := 4) (by decide) hpre hpost (by rw [hk]; exact hv) hge

theorem rd_dispatch5 {g : G} {t pre post : Str} (h : SpelledCore fmtF g t) (hi : kindIdx g = 5)
    (hpre : AllBlank pre) (hpost : AllBlank post) (f : Nat) :
    unmarshalF parseF (f + 1) (pre ++ t ++ post) = (unmarshalMultiPolygon parseF t).map .multiPolygon := by
  have hge := spelledCore_goodEnds fmtF h
  obtain ⟨k, rest, hv, rfl⟩ := spelledCore_prefix fmtF h
  have hk := kwAt_kindIdx g
  rw [hi] at hk
  exact unmarshalF_dispatch parseF (i := 5) (by decide) hpre hpost (by rw [hk]; exact hv) hge

theorem rd_dispatch6 {g : G} {t pre post : Str} (h : SpelledCore fmtF g t) (hi : kindIdx g = 6)
    (hpre : AllBlank pre) (hpost : AllBlank post) (f : Nat) :
    unmarshalF parseF (f + 1) (pre ++ t ++ post) = (unmarshalCollection (unmarshalF parseF f) t).map .collection := by
  have hge := spelledCore_goodEnds fmtF h
  obtain ⟨k, rest, hv, rfl⟩ := spelledCore_prefix fmtF h
  have hk := kwAt_kindIdx g
  rw [hi] at hk
  exact unmarshalF_dispatch parseF (i := 6) (by decide) hpre hpost (by rw [hk]; exact hv) hge

/-- the statement of the main induction at one value -/
def RdMotive (g : G) : Prop :=
  ∀ t, SpelledCore fmtF g t → noEmptyMemberDeep g = true →
    GoodCoords fmtF parseF g → ∀ pre post, AllBlank pre → AllBlank post →
    ∀ fuel, (pre ++ t ++ post).length < fuel → unmarshalF parseF fuel (pre ++ t ++ post) = .ok (canon g)

theorem rd_collect (f : Nat) : ∀ (gs : List G) (ts pieces : List Str) (acc : List G),
    Forall2 (SpelledCore fmtF) gs ts → Forall2 RdPadOf ts pieces → (∀ p ∈ pieces, p.length < f) →
    (∀ g ∈ gs, RdMotive fmtF parseF g) → noEmptyMemberDeep.allDeep gs = true →
    (∀ x ∈ coords.coordsList gs, FloatText fmtF parseF x) →
    collectMembers (unmarshalF parseF f) pieces acc = .ok (acc ++ canon.canonList gs) := by
  intro gs
  induction gs with
  | nil =>
    intro ts pieces acc h1 h2 _ _ _ _
    cases h1; cases h2
    simp [collectMembers, canon.canonList]
  | cons g gs ih =>
    intro ts pieces acc h1 h2 hl hm he hc
    rcases h1 with _ | ⟨hgt, h1'⟩
    rcases h2 with _ | ⟨hpad, h2'⟩
    obtain ⟨x, y, hx, hy, rfl⟩ := hpad
    rename_i t ts' ps'
    have hge := spelledCore_goodEnds fmtF hgt
    simp only [noEmptyMemberDeep.allDeep, Bool.and_eq_true] at he
    simp only [coords.coordsList, List.mem_append] at hc
    have hne : (x ++ t ++ y).length ≠ 0 := by
      have := hge.1
      simp only [List.length_append]; omega
    simp only [collectMembers]
    rw [if_neg hne, hm g (by simp) t hgt he.1 (fun z hz => hc z (Or.inl hz)) x y hx hy f (hl _ (by simp))]
    simp only
    rw [ih ts' ps' _ h1' h2' (fun p hp => hl p (by simp [hp])) (fun g' hg' => hm g' (by simp [hg'])) he.2
      (fun z hz => hc z (Or.inr hz))]
    simp [canon.canonList]

end

section
variable (fmtF : UInt64 → Str) (parseF : Str → Option UInt64)

theorem rd_clean_of_good {g : G} (hc : GoodCoords fmtF parseF g) : RdClean fmtF g :=
  fun x hx b hb => rd_plain_of_notDelim ((hc x hx).clean b hb)

theorem rd_main (g : G) : RdMotive fmtF parseF g := by
  induction g using rd_geom_ind with
  | h1 p =>
    intro t h he hc pre post hpre hpost fuel hlen
    obtain ⟨f, rfl⟩ : ∃ f, fuel = f + 1 := ⟨fuel - 1, by omega⟩
    rw [rd_dispatch0 fmtF parseF h rfl hpre hpost f, unmarshalPoint_spelled fmtF parseF h hc]
    rfl
  | h2 ps =>
    intro t h he hc pre post hpre hpost fuel hlen
    obtain ⟨f, rfl⟩ : ∃ f, fuel = f + 1 := ⟨fuel - 1, by omega⟩
    rw [rd_dispatch1 fmtF parseF h rfl hpre hpost f, unmarshalMultiPoint_spelled fmtF parseF h hc]
    rfl
  | h3 ps =>
    intro t h he hc pre post hpre hpost fuel hlen
    obtain ⟨f, rfl⟩ : ∃ f, fuel = f + 1 := ⟨fuel - 1, by omega⟩
    rw [rd_dispatch2 fmtF parseF h rfl hpre hpost f, unmarshalLineString_spelled fmtF parseF h hc]
    rfl
  | h4 ls =>
    intro t h he hc pre post hpre hpost fuel hlen
    obtain ⟨f, rfl⟩ : ∃ f, fuel = f + 1 := ⟨fuel - 1, by omega⟩
    simp only [noEmptyMemberDeep] at he
    rw [rd_dispatch3 fmtF parseF h rfl hpre hpost f, unmarshalMultiLineString_spelled fmtF parseF h he hc]
    rfl
  | h5 r =>
    intro t h he hc pre post hpre hpost fuel hlen
    obtain ⟨f, rfl⟩ : ∃ f, fuel = f + 1 := ⟨fuel - 1, by omega⟩
    have h' : SpelledCore fmtF (.polygon [r]) t := by simpa only [SpelledCore] using h
    have he' : noEmptyMember (.polygon [r]) = true := by
      simp only [noEmptyMemberDeep, noEmptyMember] at he
      simp [noEmptyMember, he]
    have hc' : GoodCoords fmtF parseF (.polygon [r]) := by
      intro x hx
      exact hc x (by simpa [coords, ringsCoords] using hx)
    rw [rd_dispatch4 fmtF parseF h rfl hpre hpost f, unmarshalPolygon_spelled fmtF parseF h' he' hc']
    rfl
  | h6 rs =>
    intro t h he hc pre post hpre hpost fuel hlen
    obtain ⟨f, rfl⟩ : ∃ f, fuel = f + 1 := ⟨fuel - 1, by omega⟩
    simp only [noEmptyMemberDeep] at he
    rw [rd_dispatch4 fmtF parseF h rfl hpre hpost f, unmarshalPolygon_spelled fmtF parseF h he hc]
    rfl
  | h7 ps =>
    intro t h he hc pre post hpre hpost fuel hlen
    obtain ⟨f, rfl⟩ : ∃ f, fuel = f + 1 := ⟨fuel - 1, by omega⟩
    simp only [noEmptyMemberDeep] at he
    rw [rd_dispatch5 fmtF parseF h rfl hpre hpost f, unmarshalMultiPolygon_spelled fmtF parseF h he hc]
    rfl
  | h8 a b =>
    intro t h he hc pre post hpre hpost fuel hlen
    obtain ⟨f, rfl⟩ : ∃ f, fuel = f + 1 := ⟨fuel - 1, by omega⟩
    have h' : SpelledCore fmtF (.polygon [boundRing a b]) t := by simpa only [SpelledCore] using h
    have he' : noEmptyMember (.polygon [boundRing a b]) = true := by
      simp [noEmptyMember, boundRing]
    have hc' : GoodCoords fmtF parseF (.polygon [boundRing a b]) := by
      intro x hx
      apply hc x
      simp only [coords, ringsCoords, ptsCoords, ptCoords, boundRing, List.flatMap_cons, List.flatMap_nil,
        List.append_nil, List.mem_cons, List.not_mem_nil, or_false, List.cons_append, List.nil_append] at hx ⊢
      tauto
    rw [rd_dispatch4 fmtF parseF h rfl hpre hpost f, unmarshalPolygon_spelled fmtF parseF h' he' hc']
    rfl
  | hc gs ih =>
    intro t h he hc pre post hpre hpost fuel hlen
    obtain ⟨f, rfl⟩ : ∃ f, fuel = f + 1 := ⟨fuel - 1, by omega⟩
    rw [rd_dispatch6 fmtF parseF h rfl hpre hpost f]
    cases gs with
    | nil =>
      simp only [SpelledCore] at h
      unfold unmarshalCollection
      rw [if_pos (equalFold_caseVariant h)]
      rfl
    | cons g gs =>
      simp only [SpelledCore] at h
      obtain ⟨ts, body, hl, hj, k, a, b, c, hv, ha, hb, hc', rfl⟩ := h
      have hf := rd_spelledList_forall2 fmtF _ _ hl
      have hk : k.length = 18 := caseVariant_length hv
      have e1 : equalFold (k ++ bracketed a b c body) (kwCollection ++ sEmpty) = false :=
        equalFold_false_of_lp (by decide) (by simp [bracketed])
      have e2 : (k ++ bracketed a b c body).length ≠ 18 := by
        simp only [bracketed, List.length_append, List.length_cons, hk]; omega
      have e3 : sliceFrom (k ++ bracketed a b c body) 18 = .ok (bracketed a b c body) := by
        rw [← hk]; exact sliceFrom_append _ _
      have hge : GoodEnds body := by
        refine sepJoin_goodEnds hj ?_ ?_
        · intro p hp
          obtain ⟨g', _, hs⟩ := rd_forall2_mem_right hf p hp
          have := spelledCore_goodEnds fmtF hs
          refine ⟨?_, this.2.1, this.2.2⟩
          intro e; rw [e] at this; have := this.1; simp at this
        · intro p hp
          obtain ⟨g', _, hs⟩ := rd_forall2_mem_right hf p hp
          exact (spelledCore_goodEnds fmtF hs).1
      have e4 : trimSpaceBrackets (bracketed a b c body) = .ok body := trimSpaceBrackets_bracketed ha hb hc' hge
      have hscan : ∀ q ∈ ts, DepthScan 0 q := by
        intro q hq
        obtain ⟨g', hg', hs⟩ := rd_forall2_mem_right hf q hq
        refine rd_scan_spelledCore fmtF g' q hs (rd_clean_of_good fmtF parseF ?_)
        intro x hx
        exact hc x (rd_mem_coordsList hg' hx)
      obtain ⟨pieces, hp1, hp2⟩ := rd_sgcLoop_sepJoin hj hscan body [] [] [] 0 0 rd_allBlank_nil (by simp) rfl rfl
      have e5 : splitGeometryCollection (bracketed a b c body) = .ok pieces := by
        unfold splitGeometryCollection
        rw [e4]
        simpa using hp1
      have hlenp : ∀ m ∈ pieces, m.length < f := by
        intro m hm
        have := splitGeometryCollection_member_length e5 m hm
        simp only [List.length_append, hk] at hlen
        omega
      simp only [noEmptyMemberDeep] at he
      have hc2 : ∀ x ∈ coords.coordsList (g :: gs), FloatText fmtF parseF x :=
        fun x hx => hc x (by simpa only [coords] using hx)
      unfold unmarshalCollection
      rw [e1, if_neg e2, e3]
      simp only [Bool.false_eq_true, if_false]
      rw [e5]
      simp only
      rw [rd_collect fmtF parseF f (g :: gs) ts pieces [] hf hp2 hlenp ih he hc2]
      simp [canon, Res.map]

end

section
variable (fmtF : UInt64 → Str) (parseF : Str → Option UInt64)

theorem rd_map_ite {α β : Type} (p : Prop) [Decidable p] (r : R α) (e : Err) (f : α → β) :
    (if p then r else (.err e : R α)).map f = if p then r.map f else .err e := by
  split <;> rfl

/-- the seven typed functions on a padded spelled text -/
theorem rd_typedAll {g : G} {c pre post : Str} (h : SpelledCore fmtF g c) (hpre : AllBlank pre) (hpost : AllBlank post) :
    typedAll parseF (pre ++ c ++ post) =
      [ if 0 = kindIdx g then (unmarshalPoint parseF c).map .point else .err .incorrect,
        if 1 = kindIdx g then (unmarshalMultiPoint parseF c).map .multiPoint else .err .incorrect,
        if 2 = kindIdx g then (unmarshalLineString parseF c).map .lineString else .err .incorrect,
        if 3 = kindIdx g then (unmarshalMultiLineString parseF c).map .multiLineString else .err .incorrect,
        if 4 = kindIdx g then (unmarshalPolygon parseF c).map .polygon else .err .incorrect,
        if 5 = kindIdx g then (unmarshalMultiPolygon parseF c).map .multiPolygon else .err .incorrect,
        if 6 = kindIdx g then (unmarshalCollection (unmarshal parseF) c).map .collection else .err .incorrect ] := by
  have hge := spelledCore_goodEnds fmtF h
  obtain ⟨k, rest, hv, rfl⟩ := spelledCore_prefix fmtF h
  have hd : ∀ {α : Type} (j : Nat) (_ : j < 7) (body : Str → R α),
      typed (kwAt j) body (pre ++ (k ++ rest) ++ post) =
        if j = kindIdx g then body (k ++ rest) else .err .incorrect :=
    fun j hj body => typed_dispatch (rd_kindIdx_lt g) hj hpre hpost (by rw [kwAt_kindIdx]; exact hv) hge body
  have h0 : typed kwPoint (unmarshalPoint parseF) (pre ++ (k ++ rest) ++ post) = _ := hd 0 (by decide) _
  have h1 : typed kwMultiPoint (unmarshalMultiPoint parseF) (pre ++ (k ++ rest) ++ post) = _ := hd 1 (by decide) _
  have h2 : typed kwLineString (unmarshalLineString parseF) (pre ++ (k ++ rest) ++ post) = _ := hd 2 (by decide) _
  have h3 : typed kwMultiLineString (unmarshalMultiLineString parseF) (pre ++ (k ++ rest) ++ post) = _ := hd 3 (by decide) _
  have h4 : typed kwPolygon (unmarshalPolygon parseF) (pre ++ (k ++ rest) ++ post) = _ := hd 4 (by decide) _
  have h5 : typed kwMultiPolygon (unmarshalMultiPolygon parseF) (pre ++ (k ++ rest) ++ post) = _ := hd 5 (by decide) _
  have h6 : typed kwCollection (unmarshalCollection (unmarshal parseF)) (pre ++ (k ++ rest) ++ post) = _ := hd 6 (by decide) _
  unfold typedAll unmarshalPointT unmarshalMultiPointT unmarshalLineStringT unmarshalMultiLineStringT unmarshalPolygonT
    unmarshalMultiPolygonT unmarshalCollectionT
  rw [h0, h1, h2, h3, h4, h5, h6]
  simp only [rd_map_ite]

theorem rd_own (g : G) (c pre post : Str) (h : SpelledCore fmtF g c) (hpre : AllBlank pre) (hpost : AllBlank post) :
    (typedAll parseF (pre ++ c ++ post))[kindIdx g]? = some (unmarshal parseF (pre ++ c ++ post)) := by
  rw [rd_typedAll fmtF parseF h hpre hpost]
  show _ = some (unmarshalF parseF ((pre ++ c ++ post).length + 1) (pre ++ c ++ post))
  have hi := rd_kindIdx_lt g
  obtain ⟨i, hik⟩ : ∃ i, kindIdx g = i := ⟨_, rfl⟩
  rw [hik] at hi ⊢
  interval_cases i
  · rw [rd_dispatch0 fmtF parseF h hik hpre hpost]; rfl
  · rw [rd_dispatch1 fmtF parseF h hik hpre hpost]; rfl
  · rw [rd_dispatch2 fmtF parseF h hik hpre hpost]; rfl
  · rw [rd_dispatch3 fmtF parseF h hik hpre hpost]; rfl
  · rw [rd_dispatch4 fmtF parseF h hik hpre hpost]; rfl
  · rw [rd_dispatch5 fmtF parseF h hik hpre hpost]; rfl
  · rw [rd_dispatch6 fmtF parseF h hik hpre hpost]
    have h18 : 18 ≤ c.length := by
      obtain ⟨k, rest, hv, rfl⟩ := spelledCore_prefix fmtF h
      have hk := kwAt_kindIdx g
      rw [hik] at hk
      rw [← hk] at hv
      have := caseVariant_length hv
      simp only [List.length_append]
      have e : (kwAt 6).length = 18 := rfl
      omega
    rw [unmarshalCollection_congr (unmarshal parseF) (unmarshalF parseF (pre ++ c ++ post).length) c h18 ?_]
    · rfl
    · intro m hm
      show unmarshalF parseF (m.length + 1) m = _
      apply unmarshalF_fuel_irrelevant
      · omega
      · simp only [List.length_append]; omega

theorem rd_expected_get (k : Nat) (own : R G) (j : Nat) :
    (expectedTyped k own)[j]? = if j < 7 then some (if j = k then own else .err .incorrect) else none := by
  unfold expectedTyped
  by_cases hj : j < 7
  · simp [hj]
  · simp [hj]

end

/-! ### the theorems -/

section
variable (fmtF : UInt64 → Str) (parseF : Str → Option UInt64)

/-- main induction: a spelled text, padded with blanks, parses to the canonical value with any
    sufficient recursion budget -/
theorem unmarshalF_spelledCore (g : G) : ∀ t, SpelledCore fmtF g t → noEmptyMemberDeep g = true →
    GoodCoords fmtF parseF g → ∀ pre post, AllBlank pre → AllBlank post →
    ∀ fuel, (pre ++ t ++ post).length < fuel → unmarshalF parseF fuel (pre ++ t ++ post) = .ok (canon g) :=
  rd_main fmtF parseF g

theorem unmarshal_spelled' (g : G) (t : Str) (hs : Spelled fmtF g t) (he : noEmptyMemberDeep g = true)
    (hc : GoodCoords fmtF parseF g) : unmarshal parseF t = .ok (canon g) := by
  obtain ⟨pre, post, c, hpre, hpost, hcore, rfl⟩ := hs
  unfold unmarshal
  exact unmarshalF_spelledCore fmtF parseF g c hcore he hc pre post hpre hpost _ (Nat.lt_succ_self _)

theorem marshalG_spelled' (g : G) : Spelled fmtF g (marshalG fmtF g) :=
  ⟨[], [], marshalG fmtF g, rd_allBlank_nil, rd_allBlank_nil, marshalG_spelledCore fmtF g, by simp⟩

theorem unmarshal_marshal' (g : G) (he : noEmptyMemberDeep g = true) (hc : GoodCoords fmtF parseF g) :
    unmarshal parseF (marshalG fmtF g) = .ok (canon g) :=
  unmarshal_spelled' fmtF parseF g _ (marshalG_spelled' fmtF g) he hc

theorem typed_rejects_other' (g : G) (t : Str) (hs : Spelled fmtF g t) (j : Nat) (hj : j < 7) (hne : j ≠ kindIdx g) :
    (typedAll parseF t)[j]? = some (.err .incorrect) := by
  obtain ⟨pre, post, c, hpre, hpost, hcore, rfl⟩ := hs
  rw [rd_typedAll fmtF parseF hcore hpre hpost]
  interval_cases j <;> simp [hne]

theorem typed_own_eq_unmarshal' (g : G) (t : Str) (hs : Spelled fmtF g t) :
    (typedAll parseF t)[kindIdx g]? = some (unmarshal parseF t) := by
  obtain ⟨pre, post, c, hpre, hpost, hcore, rfl⟩ := hs
  exact rd_own fmtF parseF g c pre post hcore hpre hpost

theorem typed_spelled' (g : G) (t : Str) (hs : Spelled fmtF g t) (he : noEmptyMemberDeep g = true)
    (hc : GoodCoords fmtF parseF g) : typedAll parseF t = expectedTyped (kindIdx g) (.ok (canon g)) := by
  apply List.ext_getElem?
  intro j
  rw [rd_expected_get]
  by_cases hj : j < 7
  · rw [if_pos hj]
    by_cases hk : j = kindIdx g
    · rw [if_pos hk, hk, typed_own_eq_unmarshal' fmtF parseF g t hs, unmarshal_spelled' fmtF parseF g t hs he hc]
    · rw [if_neg hk, typed_rejects_other' fmtF parseF g t hs j hj hk]
  · rw [if_neg hj]
    exact List.getElem?_eq_none (by show 7 ≤ j; omega)

theorem respell_invariant_partial' (g : G) (t : Str) (hs : Spelled fmtF g t) (he : noEmptyMemberDeep g = true)
    (hc : GoodCoords fmtF parseF g) : unmarshal parseF t = unmarshal parseF (marshalG fmtF g) := by
  rw [unmarshal_spelled' fmtF parseF g t hs he hc, unmarshal_marshal' fmtF parseF g he hc]

end

end Orb.WKT
