/-
  C03 lemmas, part 4: layers — `unmarshalVT ∘ marshalVT`, determinism lifted to tiles, and
  the collection-flattening defect.
-/
import OrbProofs.C03Poly
import OrbProofs.C03Props

namespace Orb.MVT
open Orb

/-- Two features that differ only in the iteration order of their property maps. -/
def Feature.permEq (f f' : Feature) : Prop :=
  f.id = f'.id ∧ f.geom = f'.geom ∧ f.props.Perm f'.props

def featuresPermEq : List Feature → List Feature → Prop
  | [], [] => True
  | f :: fs, f' :: fs' => f.permEq f' ∧ featuresPermEq fs fs'
  | _, _ => False

def Layer.permEq (l l' : Layer) : Prop :=
  l.name = l'.name ∧ l.version = l'.version ∧ l.extent = l'.extent ∧
  featuresPermEq l.features l'.features

/-- Layer lists that differ only in the iteration order of the property maps. -/
def layersPermEq : List Layer → List Layer → Prop
  | [], [] => True
  | l :: ls, l' :: ls' => l.permEq l' ∧ layersPermEq ls ls'
  | _, _ => False

def layer_roundtrip_full : Prop :=
  ∀ ls, mvtWF ls = true → ∃ t, marshalVT ls = .ok t ∧ unmarshalVT t = .ok (expectLayers ls)


/-! #### helpers for `layer_roundtrip_exact'` / `layer_roundtrip_partial'`

  Everything is stated for the decoder run with an arbitrary orientation function `ori` that
  agrees with the exact one on the rings of the input (`oriAgree`), and for layers without a
  +0 / −0 clash (`noZeroClash (layerVals l)`); `vs` is the list of all values of the layer. -/

-- `KVE.le_refl`, `KVE.le_trans` come from C03Props.

theorem decodeFeature_ok (ori : List (Pt Int) → Int) (keys : List String) (vals : List DVal) (a : Nat) (id : Option Nat)
    (tags : List W) (gt : Int) (ws : List W) (props : List (String × DVal)) (g : Geom Int)
    (ht : decodeTags keys vals tags [] = .ok props) (hw : ws ≠ [])
    (hg : (decodeGeometryIter ori gt ws a).1 = .ok g) :
    ∃ a', decodeFeature ori keys vals a ⟨id, tags, gt, ws⟩ = (.ok ⟨id, g, props⟩, a') := by
  have hemp : ws.isEmpty = false := by
    cases ws with
    | nil => exact absurd rfl hw
    | cons _ _ => rfl
  rcases hd : decodeGeometryIter ori gt ws a with ⟨r, s⟩
  rw [hd] at hg
  simp only at hg
  subst hg
  refine ⟨s.alloc, ?_⟩
  simp [decodeFeature, ht, hemp, hd]

theorem decodeFeatures_append (ori : List (Pt Int) → Int) (keys : List String) (vals : List DVal) (xs ys : List VTFeature) :
    ∀ (a a1 a2 : Nat) (r1 r2 : List DFeature),
      decodeFeatures ori keys vals a xs = (.ok r1, a1) →
      decodeFeatures ori keys vals a1 ys = (.ok r2, a2) →
      decodeFeatures ori keys vals a (xs ++ ys) = (.ok (r1 ++ r2), a2) := by
  induction xs with
  | nil =>
    intro a a1 a2 r1 r2 h1 h2
    simp only [decodeFeatures, Prod.mk.injEq, Res.ok.injEq] at h1
    obtain ⟨h1, h1'⟩ := h1
    subst h1 h1'
    simpa using h2
  | cons x xs ih =>
    intro a a1 a2 r1 r2 h1 h2
    simp only [decodeFeatures, List.cons_append] at h1 ⊢
    rcases hx : decodeFeature ori keys vals a x with ⟨rx, ax⟩
    rw [hx] at h1
    cases rx with
    | ok x' =>
      simp only at h1 ⊢
      rcases hxs : decodeFeatures ori keys vals ax xs with ⟨rxs, axs⟩
      rw [hxs] at h1
      cases rxs with
      | ok xs' =>
        simp only [Prod.mk.injEq, Res.ok.injEq] at h1
        obtain ⟨h1, h1'⟩ := h1
        subst h1 h1'
        rw [ih ax axs a2 xs' r2 hxs h2]
        simp
      | err _ => simp at h1
      | panic _ => simp at h1
    | err _ => simp at h1
    | panic _ => simp at h1

/-- All features of `xs` decode, from every value of the counter, to `r`. -/
def DecOK (ori : List (Pt Int) → Int) (e : KVE) (xs : List VTFeature) (r : List DFeature) : Prop :=
  ∀ a, ∃ a', decodeFeatures ori e.keys e.dvals a xs = (.ok r, a')

theorem DecOK.append {ori : List (Pt Int) → Int} {e : KVE} {xs ys : List VTFeature} {r1 r2 : List DFeature}
    (h1 : DecOK ori e xs r1) (h2 : DecOK ori e ys r2) : DecOK ori e (xs ++ ys) (r1 ++ r2) := by
  intro a
  obtain ⟨a1, h1⟩ := h1 a
  obtain ⟨a2, h2⟩ := h2 a1
  exact ⟨a2, decodeFeatures_append _ _ _ _ _ _ _ _ _ _ h1 h2⟩

theorem DecOK.nil (ori : List (Pt Int) → Int) (e : KVE) : DecOK ori e [] [] := fun a => ⟨a, rfl⟩

theorem addSingle_ok (ori : List (Pt Int) → Int) (vs : List PVal) (fs : List VTFeature) (e : KVE) (g : Geom Int)
    (props : List (String × PVal))
    (id : IdVal) (hg : geomWF g = true) (hd : geomNoDupClose g = true)
    (hori : ∀ r ∈ ringsOf g, ori r = oriInt r)
    (hn : nodupKeys props = true) (hv : ∀ p ∈ props, pvalWF p.2 = true)
    (hsub : ∀ p ∈ props, p.2 ∈ vs) (hnc : noZeroClash vs = true)
    (hi : KVE.InvZ vs e) (hk : e.keys.length + props.length ≤ 2^32)
    (hl : e.vals.length + props.length ≤ 2^32) :
    ∃ vf e', addSingle fs e g props id = .ok (fs ++ [vf], e') ∧ KVE.InvZ vs e' ∧ KVE.le e e' ∧
      e'.keys.length ≤ e.keys.length + props.length ∧ e'.vals.length ≤ e.vals.length + props.length ∧
      ∀ e'', KVE.le e' e'' →
        DecOK ori e'' [vf] [⟨convertID id, normG g, expectProps props⟩] := by
  obtain ⟨t, ws, henc, hws, _⟩ := geometry_roundtrip_iter_ori ori g hg hd hori 0
  obtain ⟨tags, e', hp, hi', hle, hk', hl', hdec⟩ :=
    encodeProperties_decodeZ vs e props hn hv hsub hnc hi hk hl
  refine ⟨⟨convertID id, tags, t, ws⟩, e', ?_, hi', hle, hk', hl', ?_⟩
  · simp [addSingle, henc, hp]
  · intro e'' hle'' a
    obtain ⟨t', ws', henc', _, hgeo⟩ := geometry_roundtrip_iter_ori ori g hg hd hori a
    rw [henc] at henc'
    simp only [Res.ok.injEq, Prod.mk.injEq] at henc'
    obtain ⟨ht, hw⟩ := henc'
    subst ht hw
    obtain ⟨a', ha'⟩ := decodeFeature_ok ori e''.keys e''.dvals a (convertID id) tags t ws _ _
      (hdec e'' hle'') hws hgeo
    refine ⟨a', ?_⟩
    simp [decodeFeatures, ha']

theorem addFeature_val (fs : List VTFeature) (e : KVE) (id : IdVal) (props : List (String × PVal))
    (g : Geom Int) (hg : geomWF g = true) :
    addFeature fs e ⟨id, .val g, props⟩ = addSingle fs e g props id ∧
    expectFeature ⟨id, .val g, props⟩ = [⟨convertID id, normG g, expectProps props⟩] := by
  cases g <;> first | (simp [geomWF] at hg; done) | exact ⟨rfl, rfl⟩

/-- the part of `featureExact` that does not concern zeros -/
def featureShape (f : Feature) : Bool := singleColl f.geom && gvalNoDupClose f.geom

theorem addFeature_ok (ori : List (Pt Int) → Int) (vs : List PVal) (fs : List VTFeature) (e : KVE) (f : Feature)
    (hwf : featureWF f = true) (hx : featureShape f = true)
    (hori : ∀ r ∈ gvalRings f.geom, ori r = oriInt r)
    (hsub : ∀ p ∈ f.props, p.2 ∈ vs) (hnc : noZeroClash vs = true)
    (hi : KVE.InvZ vs e) (hk : e.keys.length + f.props.length ≤ 2^32)
    (hl : e.vals.length + f.props.length ≤ 2^32) :
    ∃ new e', addFeature fs e f = .ok (fs ++ new, e') ∧ KVE.InvZ vs e' ∧ KVE.le e e' ∧
      e'.keys.length ≤ e.keys.length + f.props.length ∧
      e'.vals.length ≤ e.vals.length + f.props.length ∧
      ∀ e'', KVE.le e' e'' → DecOK ori e'' new (expectFeature f) := by
  obtain ⟨id, geom, props⟩ := f
  simp only [featureWF, featureShape, Bool.and_eq_true, List.all_eq_true] at hwf hx
  obtain ⟨⟨⟨hgw, _⟩, hn⟩, hv⟩ := hwf
  obtain ⟨hsc, hnd⟩ := hx
  simp only at hori hsub
  have single : ∀ g, geomWF g = true → geomNoDupClose g = true →
      (∀ r ∈ ringsOf g, ori r = oriInt r) →
      addFeature fs e ⟨id, geom, props⟩ = addSingle fs e g props id →
      expectFeature ⟨id, geom, props⟩ = [⟨convertID id, normG g, expectProps props⟩] →
      ∃ new e', addFeature fs e ⟨id, geom, props⟩ = .ok (fs ++ new, e') ∧ KVE.InvZ vs e' ∧ KVE.le e e' ∧
        e'.keys.length ≤ e.keys.length + props.length ∧
        e'.vals.length ≤ e.vals.length + props.length ∧
        ∀ e'', KVE.le e' e'' → DecOK ori e'' new (expectFeature ⟨id, geom, props⟩) := by
    intro g hg hd ho h1 h2
    obtain ⟨vf, e', h, hi', hle, hk', hl', hdec⟩ :=
      addSingle_ok ori vs fs e g props id hg hd ho hn hv hsub hnc hi hk hl
    exact ⟨[vf], e', by rw [h1, h], hi', hle, hk', hl', by rw [h2]; exact hdec⟩
  cases geom with
  | nilIface =>
    exact ⟨[], e, by simp [addFeature, gvalGeom], hi, KVE.le_refl e, by simp, by simp,
      fun e'' _ => by simpa [expectFeature, gvalGeom] using DecOK.nil ori e''⟩
  | nilSlice k => simp [gvalWF] at hgw
  | val g =>
    by_cases hc : ∃ gs, g = .collection gs
    · obtain ⟨gs, rfl⟩ := hc
      simp only [singleColl, beq_iff_eq] at hsc
      match gs, hsc with
      | [g], _ =>
        simp only [gvalWF, gvalNoDupClose, List.all_cons, List.all_nil, Bool.and_true] at hgw hnd
        have ho : ∀ r ∈ ringsOf g, ori r = oriInt r := by
          intro r hr; exact hori r (by simpa [gvalRings] using hr)
        exact single g hgw hnd ho rfl rfl
    · have hgw' : geomWF g = true := by
        cases g <;> first | exact hgw | exact absurd ⟨_, rfl⟩ hc
      have hnd' : geomNoDupClose g = true := by
        cases g <;> first | exact hnd | exact absurd ⟨_, rfl⟩ hc
      have ho : ∀ r ∈ ringsOf g, ori r = oriInt r := by
        cases g <;> first | exact hori | exact absurd ⟨_, rfl⟩ hc
      obtain ⟨h1, h2⟩ := addFeature_val fs e id props g hgw'
      exact single g hgw' hnd' ho h1 h2

theorem addFeatures_ok (ori : List (Pt Int) → Int) (vs : List PVal) (hnc : noZeroClash vs = true) (feats : List Feature) :
    ∀ (fs : List VTFeature) (e : KVE),
      (∀ f ∈ feats, featureWF f = true ∧ featureShape f = true ∧
        (∀ r ∈ gvalRings f.geom, ori r = oriInt r) ∧ ∀ p ∈ f.props, p.2 ∈ vs) → KVE.InvZ vs e →
      e.keys.length + (feats.map fun f => f.props.length).sum ≤ 2^32 →
      e.vals.length + (feats.map fun f => f.props.length).sum ≤ 2^32 →
      ∃ new e', addFeatures fs e feats = .ok (fs ++ new, e') ∧ KVE.InvZ vs e' ∧ KVE.le e e' ∧
        ∀ e'', KVE.le e' e'' → DecOK ori e'' new (feats.flatMap expectFeature) := by
  induction feats with
  | nil =>
    intro fs e _ hi _ _
    exact ⟨[], e, by simp [addFeatures], hi, KVE.le_refl e, fun e'' _ => DecOK.nil ori e''⟩
  | cons f rest ih =>
    intro fs e hf hi hk hl
    simp only [List.map_cons, List.sum_cons] at hk hl
    obtain ⟨hwf, hx, ho, hsub⟩ := hf f (List.mem_cons_self)
    obtain ⟨new1, e1, h1, hi1, hle1, hk1, hl1, hdec1⟩ :=
      addFeature_ok ori vs fs e f hwf hx ho hsub hnc hi (by omega) (by omega)
    obtain ⟨new2, e2, h2, hi2, hle2, hdec2⟩ :=
      ih (fs ++ new1) e1 (fun f' hf' => hf f' (List.mem_cons_of_mem _ hf')) hi1 (by omega) (by omega)
    refine ⟨new1 ++ new2, e2, ?_, hi2, KVE.le_trans hle1 hle2, ?_⟩
    · simp [addFeatures, h1, h2]
    · intro e'' hle''
      rw [List.flatMap_cons]
      exact (hdec1 e'' (KVE.le_trans hle2 hle'')).append (hdec2 e'' hle'')

theorem mem_layerVals {l : Layer} {f : Feature} (hf : f ∈ l.features) {p : String × PVal}
    (hp : p ∈ f.props) : p.2 ∈ layerVals l := by
  simp only [layerVals, List.mem_flatMap, List.mem_map]
  exact ⟨f, hf, p, hp, rfl⟩

theorem marshalLayer_ok (ori : List (Pt Int) → Int) (l : Layer) (hwf : layerWF l = true)
    (hx : layerExactZ l = true)
    (ho : ∀ f ∈ l.features, ∀ r ∈ gvalRings f.geom, ori r = oriInt r) :
    ∃ v, marshalLayer l = .ok v ∧
      ∀ a, ∃ a', decodeLayer ori a v = (.ok (expectLayer l), a') := by
  simp only [layerWF, Bool.and_eq_true, List.all_eq_true, decide_eq_true_eq] at hwf
  simp only [layerExactZ, Bool.and_eq_true, List.all_eq_true] at hx
  obtain ⟨⟨⟨_, _⟩, hf⟩, hsum⟩ := hwf
  obtain ⟨hshape, hnc⟩ := hx
  obtain ⟨new, e', h, _, _, hdec⟩ := addFeatures_ok ori (layerVals l) hnc l.features [] KVE.empty
    (fun f hfm => ⟨hf f hfm, by simpa [featureShape] using hshape f hfm, ho f hfm,
      fun p hp => mem_layerVals hfm hp⟩) (KVE.invZ_empty _)
    (by simp only [KVE.empty, List.length_nil]; omega)
    (by simp only [KVE.empty, List.length_nil]; omega)
  refine ⟨_, by simp only [marshalLayer, h]; rfl, ?_⟩
  intro a
  obtain ⟨a', ha'⟩ := hdec e' (KVE.le_refl e') (a + new.length)
  refine ⟨a', ?_⟩
  have hv : List.map decodeTVal (List.map (fun x => x.2) e'.vals) = e'.dvals := by
    simp [KVE.dvals, List.map_map, Function.comp_def]
  simp only [decodeLayer, List.nil_append, hv, ha']
  rfl

theorem marshalVT_ok (ori : List (Pt Int) → Int) (ls : List Layer) (h : mvtWF ls = true)
    (hx : exactDomainZ ls = true) (ho : oriAgree ori ls) :
    ∃ t, marshalVT ls = .ok t ∧
      ∀ a, ∃ a', decodeLayers ori a t = (.ok (expectLayers ls), a') := by
  induction ls with
  | nil => exact ⟨[], rfl, fun a => ⟨a, rfl⟩⟩
  | cons l ls ih =>
    simp only [mvtWF, exactDomainZ, List.all_cons, Bool.and_eq_true] at h hx
    obtain ⟨v, hv, hdv⟩ := marshalLayer_ok ori l h.1 hx.1 (fun f hf => ho l (by simp) f hf)
    obtain ⟨vs, hvs, hdvs⟩ := ih h.2 hx.2 (fun m hm => ho m (List.mem_cons_of_mem _ hm))
    refine ⟨v :: vs, by simp [marshalVT, hv, hvs], ?_⟩
    intro a
    obtain ⟨a1, h1⟩ := hdv a
    obtain ⟨a2, h2⟩ := hdvs a1
    exact ⟨a2, by simp [decodeLayers, h1, h2, expectLayers]⟩

/-- The round trip at full strength: the decoder run with any orientation function that is exact
    on the rings of the input (`oriAgree`; Go runs the float64 shoelace), layers without a
    +0 / −0 clash (`exactDomainZ`; a lone −0.0 comes back bit for bit). -/
theorem layer_roundtrip_exact' (ori : List (Pt Int) → Int) (ls : List Layer) (h : mvtWF ls = true)
    (hx : exactDomainZ ls = true) (ho : oriAgree ori ls) :
    ∃ t, marshalVT ls = .ok t ∧ (unmarshalVTWith ori t).1 = .ok (expectLayers ls) := by
  obtain ⟨t, ht, hd⟩ := marshalVT_ok ori ls h hx ho
  obtain ⟨a', ha'⟩ := hd 0
  exact ⟨t, ht, by simp [unmarshalVTWith, ha']⟩

theorem exactDomainZ_of_exactDomain (ls : List Layer) (hx : exactDomain ls = true) :
    exactDomainZ ls = true := by
  simp only [exactDomain, exactDomainZ, List.all_eq_true] at hx ⊢
  intro l hl
  have hl' := hx l hl
  simp only [layerExactZ, Bool.and_eq_true, List.all_eq_true]
  refine ⟨fun f hf => ?_, ?_⟩
  · have := hl' f hf
    simp only [featureExact, Bool.and_eq_true] at this
    exact this.1
  · apply noZeroClash_of_noNegZero
    intro v hv
    simp only [layerVals, List.mem_flatMap, List.mem_map] at hv
    obtain ⟨f, hf, p, hp, rfl⟩ := hv
    have := hl' f hf
    simp only [featureExact, Bool.and_eq_true, noNegZero, List.all_eq_true] at this
    simpa using this.2 p hp

theorem oriAgree_oriInt (ls : List Layer) : oriAgree oriInt ls := fun _ _ _ _ _ _ => rfl

/-- Name, version, extent, feature order, ids, geometries and properties all come back. -/
theorem layer_roundtrip_partial' (ls : List Layer) (h : mvtWF ls = true) (hx : exactDomain ls = true) :
    ∃ t, marshalVT ls = .ok t ∧ unmarshalVT t = .ok (expectLayers ls) :=
  layer_roundtrip_exact' oriInt ls h (exactDomainZ_of_exactDomain ls hx) (oriAgree_oriInt ls)

/-- A one-member collection is marshalled exactly like its member. -/
theorem collection_single_as_member' (fs : List VTFeature) (e : KVE) (id : IdVal)
    (props : List (String × PVal)) (g : Geom Int) (hg : ∀ gs, g ≠ .collection gs) :
    addFeature fs e ⟨id, .val (.collection [g]), props⟩ = addFeature fs e ⟨id, .val g, props⟩ := by
  cases g <;> first | rfl | exact absurd rfl (hg _)

/-! #### helpers for `marshalVT_deterministic'` -/

theorem addFeature_permEq (fs : List VTFeature) (e : KVE) (f f' : Feature) (h : f.permEq f')
    (hn : nodupKeys f.props = true) : addFeature fs e f = addFeature fs e f' := by
  obtain ⟨id, geom, props⟩ := f
  obtain ⟨id', geom', props'⟩ := f'
  obtain ⟨h1, h2, h3⟩ := h
  simp only at h1 h2 h3 hn
  subst h1 h2
  have hp := fun e => marshal_deterministic' e props props' h3 hn
  have hs : ∀ g, addSingle fs e g props id = addSingle fs e g props' id := by
    intro g
    simp only [addSingle, hp]
  simp only [addFeature, hs]

theorem addFeatures_permEq (feats : List Feature) :
    ∀ (feats' : List Feature) (fs : List VTFeature) (e : KVE), featuresPermEq feats feats' →
      (∀ f ∈ feats, nodupKeys f.props = true) →
      addFeatures fs e feats = addFeatures fs e feats' := by
  induction feats with
  | nil =>
    intro feats' fs e h _
    cases feats' with
    | nil => rfl
    | cons _ _ => exact absurd h (by simp [featuresPermEq])
  | cons f rest ih =>
    intro feats' fs e h hn
    cases feats' with
    | nil => exact absurd h (by simp [featuresPermEq])
    | cons f' rest' =>
      simp only [featuresPermEq] at h
      simp only [addFeatures, addFeature_permEq fs e f f' h.1 (hn f List.mem_cons_self)]
      cases addFeature fs e f' with
      | ok r => exact ih rest' r.1 r.2 h.2 (fun g hg => hn g (List.mem_cons_of_mem _ hg))
      | err _ => rfl
      | panic _ => rfl

theorem marshalLayer_permEq (l l' : Layer) (h : l.permEq l')
    (hn : ∀ f ∈ l.features, nodupKeys f.props = true) : marshalLayer l = marshalLayer l' := by
  obtain ⟨h1, h2, h3, h4⟩ := h
  simp only [marshalLayer, addFeatures_permEq l.features l'.features [] KVE.empty h4 hn, h1, h2, h3]

/-- The tile structure does not depend on the iteration order of any property map. -/
theorem marshalVT_deterministic' (ls ls' : List Layer) (h : layersPermEq ls ls')
    (hn : ∀ l ∈ ls, ∀ f ∈ l.features, nodupKeys f.props = true) : marshalVT ls = marshalVT ls' := by
  induction ls generalizing ls' with
  | nil =>
    cases ls' with
    | nil => rfl
    | cons _ _ => exact absurd h (by simp [layersPermEq])
  | cons l ls ih =>
    cases ls' with
    | nil => exact absurd h (by simp [layersPermEq])
    | cons l' ls' =>
      simp only [layersPermEq] at h
      simp only [marshalVT, marshalLayer_permEq l l' h.1 (hn l List.mem_cons_self),
        ih ls' h.2 (fun m hm => hn m (List.mem_cons_of_mem _ hm))]

/-! #### helpers for `collection_members_partial'` -/

theorem addSingle_len (fs fs' : List VTFeature) (e e' : KVE) (g : Geom Int)
    (props : List (String × PVal)) (id : IdVal) (h : addSingle fs e g props id = .ok (fs', e')) :
    fs'.length = fs.length + 1 := by
  unfold addSingle at h
  split at h
  · split at h
    · simp only [Res.ok.injEq, Prod.mk.injEq] at h
      rw [← h.1]; simp
    · exact absurd h (by simp)
    · exact absurd h (by simp)
  · exact absurd h (by simp)
  · exact absurd h (by simp)

theorem addFeature_len (fs fs' : List VTFeature) (e e' : KVE) (f : Feature)
    (hs : singleColl f.geom = true) (h : addFeature fs e f = .ok (fs', e')) :
    fs'.length = fs.length + (expectFeature f).length := by
  obtain ⟨id, geom, props⟩ := f
  have single : ∀ g, addFeature fs e ⟨id, geom, props⟩ = addSingle fs e g props id →
      (expectFeature ⟨id, geom, props⟩).length = 1 →
      fs'.length = fs.length + (expectFeature ⟨id, geom, props⟩).length := by
    intro g h1 h2
    rw [h1] at h
    rw [h2]
    exact addSingle_len _ _ _ _ _ _ _ h
  have single' : ∀ g, gvalGeom geom = some g → (∀ gs, g ≠ .collection gs) →
      fs'.length = fs.length + (expectFeature ⟨id, geom, props⟩).length := by
    intro g hg hc
    apply single g
    · cases g <;> first | (simp only [addFeature, hg]; done) | exact absurd rfl (hc _)
    · cases g <;> first | (simp only [expectFeature, hg, List.length_singleton]; done) | exact absurd rfl (hc _)
  cases geom with
  | nilIface =>
    simp only [addFeature, gvalGeom, Res.ok.injEq, Prod.mk.injEq] at h
    simp [expectFeature, gvalGeom, h.1]
  | nilSlice k =>
    cases k
    case collection =>
      exact absurd h (by simp [addFeature, gvalGeom, addSingle, encodeGeometry])
    case point =>
      simp only [addFeature, gvalGeom, Res.ok.injEq, Prod.mk.injEq] at h
      simp [expectFeature, gvalGeom, h.1]
    case bound =>
      simp only [addFeature, gvalGeom, Res.ok.injEq, Prod.mk.injEq] at h
      simp [expectFeature, gvalGeom, h.1]
    all_goals exact single' _ rfl (by intro gs hh; cases hh)
  | val g =>
    cases g
    case collection gs =>
      simp only [singleColl, beq_iff_eq] at hs
      match gs, hs with
      | [g], _ => exact single g rfl rfl
    all_goals exact single' _ rfl (by intro gs hh; cases hh)

theorem addFeatures_len (feats : List Feature) :
    ∀ (fs fs' : List VTFeature) (e e' : KVE), (∀ f ∈ feats, singleColl f.geom = true) →
      addFeatures fs e feats = .ok (fs', e') →
      fs'.length = fs.length + (feats.flatMap expectFeature).length := by
  induction feats with
  | nil =>
    intro fs fs' e e' _ h
    simp only [addFeatures, Res.ok.injEq, Prod.mk.injEq] at h
    simp [h.1]
  | cons f rest ih =>
    intro fs fs' e e' hs h
    simp only [addFeatures] at h
    cases h1 : addFeature fs e f with
    | ok r =>
      obtain ⟨fs1, e1⟩ := r
      rw [h1] at h
      simp only at h
      have := addFeature_len fs fs1 e e1 f (hs f List.mem_cons_self) h1
      have := ih fs1 fs' e1 e' (fun g hg => hs g (List.mem_cons_of_mem _ hg)) h
      simp only [List.flatMap_cons, List.length_append]
      omega
    | err _ => rw [h1] at h; exact absurd h (by simp)
    | panic _ => rw [h1] at h; exact absurd h (by simp)

theorem marshalLayer_len (l : Layer) (v : VTLayer) (hs : ∀ f ∈ l.features, singleColl f.geom = true)
    (h : marshalLayer l = .ok v) : v.features.length = (l.features.flatMap expectFeature).length := by
  unfold marshalLayer at h
  cases h1 : addFeatures [] KVE.empty l.features with
  | ok r =>
    obtain ⟨fs1, e1⟩ := r
    rw [h1] at h
    simp only [Res.ok.injEq] at h
    have := addFeatures_len l.features [] fs1 KVE.empty e1 hs h1
    rw [← h]
    simpa using this
  | err _ => rw [h1] at h; exact absurd h (by simp)
  | panic _ => rw [h1] at h; exact absurd h (by simp)

/-- "Every member of a collection becomes its own feature", as a count. -/
def collection_members_full : Prop :=
  ∀ ls t, mvtWF ls = true → marshalVT ls = .ok t →
    t.map (fun l => l.features.length) = ls.map fun l => (l.features.flatMap expectFeature).length

/-- True when every collection has exactly one member. -/
theorem collection_members_partial' (ls : List Layer) (t : VTTile)
    (hs : ∀ l ∈ ls, ∀ f ∈ l.features, singleColl f.geom = true) (hm : marshalVT ls = .ok t) :
    t.map (fun l => l.features.length) = ls.map fun l => (l.features.flatMap expectFeature).length := by
  induction ls generalizing t with
  | nil =>
    simp only [marshalVT, Res.ok.injEq] at hm
    subst hm
    rfl
  | cons l ls ih =>
    simp only [marshalVT] at hm
    cases h1 : marshalLayer l with
    | ok v =>
      rw [h1] at hm
      simp only at hm
      cases h2 : marshalVT ls with
      | ok vs =>
        rw [h2] at hm
        simp only [Res.ok.injEq] at hm
        subst hm
        simp only [List.map_cons]
        rw [ih vs (fun m hm => hs m (List.mem_cons_of_mem _ hm)) h2,
          marshalLayer_len l v (hs l List.mem_cons_self) h1]
      | err _ => rw [h2] at hm; exact absurd hm (by simp)
      | panic _ => rw [h2] at hm; exact absurd hm (by simp)
    | err _ => rw [h1] at hm; exact absurd hm (by simp)
    | panic _ => rw [h1] at hm; exact absurd hm (by simp)

/-- The layer of the witness: one feature, a collection of a point and a line. -/
def collWitness : List Layer :=
  [{ name := "c", version := 2, extent := 4096,
     features := [{ id := .none, props := [],
                    geom := .val (.collection [.point ⟨1, 2⟩, .lineString [⟨0, 0⟩, ⟨3, 4⟩]]) }] }]

/-- False of the code: two members in, one feature out. -/
theorem collection_witness' : ¬ collection_members_full := by
  intro h
  have hm : marshalVT collWitness = .ok
      [{ name := "c", version := 2, extent := 4096, keys := [], values := [],
         features := [{ id := none, tags := [], gtype := 1, geometry := [9#32, 2#32, 4#32] }] }] := by
    decide
  have := h collWitness _ (by decide) hm
  revert this
  decide

end Orb.MVT
