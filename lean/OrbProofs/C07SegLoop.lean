/-
  C07, segment level (continued): `intersect` on each edge and the specification of the inner
  Cohen–Sutherland loop `segLoopU`, in a form covering the closed and the open mode at once.
-/
import OrbProofs.C07Seg

set_option linter.unusedSectionVars false

namespace Orb.Clip
open Orb Orb.Core Generated.Params

variable {α : Type} [Field α] [LinearOrder α] [IsStrictOrderedRing α]

/-! ### where a line crosses a threshold -/

/-- coordinate going up through `h` -/
theorem param_le {ya yb h : α} (ha : ya ≤ h) (hb : h ≤ yb) :
    0 ≤ (h - ya) / (yb - ya) ∧ (h - ya) / (yb - ya) ≤ 1 ∧
    ya + (h - ya) / (yb - ya) * (yb - ya) = h ∧
    (∀ t, 0 ≤ t → t < (h - ya) / (yb - ya) → ya + t * (yb - ya) < h) ∧
    (∀ t, (h - ya) / (yb - ya) < t → t ≤ 1 → h ≤ ya + t * (yb - ya)) ∧
    (h < yb → ∀ t, (h - ya) / (yb - ya) < t → h < ya + t * (yb - ya)) := by
  rcases eq_or_lt_of_le (le_trans ha hb) with hd | hd
  · have h1 : ya = h := le_antisymm ha (hd ▸ hb)
    subst h1
    subst hd
    simp only [sub_self, div_zero, mul_zero, add_zero]
    refine ⟨le_refl _, zero_le_one, trivial, ?_, ?_, ?_⟩
    · intro t h0 h1; exact absurd h1 (not_lt.2 h0)
    · intro t _ _; exact le_refl _
    · intro h; exact absurd h (lt_irrefl _)
  · have hpos : 0 < yb - ya := sub_pos.2 hd
    have hT : (h - ya) / (yb - ya) * (yb - ya) = h - ya := div_mul_cancel₀ _ hpos.ne'
    refine ⟨div_nonneg (sub_nonneg.2 ha) hpos.le, ?_, by linarith, ?_, ?_, ?_⟩
    · rw [div_le_one hpos]; linarith
    · intro t _ ht
      have := mul_lt_mul_of_pos_right ht hpos
      linarith
    · intro t ht _
      have := mul_lt_mul_of_pos_right ht hpos
      linarith
    · intro _ t ht
      have := mul_lt_mul_of_pos_right ht hpos
      linarith

/-- coordinate going down through `h` -/
theorem param_ge {ya yb h : α} (ha : h ≤ ya) (hb : yb ≤ h) :
    0 ≤ (h - ya) / (yb - ya) ∧ (h - ya) / (yb - ya) ≤ 1 ∧
    ya + (h - ya) / (yb - ya) * (yb - ya) = h ∧
    (∀ t, 0 ≤ t → t < (h - ya) / (yb - ya) → h < ya + t * (yb - ya)) ∧
    (∀ t, (h - ya) / (yb - ya) < t → t ≤ 1 → ya + t * (yb - ya) ≤ h) ∧
    (yb < h → ∀ t, (h - ya) / (yb - ya) < t → ya + t * (yb - ya) < h) := by
  have e : (-h - -ya) / (-yb - -ya) = (h - ya) / (yb - ya) := by
    rw [show -h - -ya = -(h - ya) by ring, show -yb - -ya = -(yb - ya) by ring, neg_div_neg_eq]
  obtain ⟨h0, h1, h2, h3, h4, h5⟩ := param_le (neg_le_neg ha) (neg_le_neg hb)
  rw [e] at h0 h1 h2 h3 h4 h5
  refine ⟨h0, h1, by linarith, ?_, ?_, ?_⟩
  · intro t ht0 ht; have := h3 t ht0 ht; linarith
  · intro t ht ht1; have := h4 t ht ht1; linarith
  · intro hlt t ht; have := h5 (neg_lt_neg hlt) t ht; linarith

/-! ### `intersect`, edge by edge -/

@[simp] theorem exc_8 (box : Bound α) (p : Pt α) : exc box 8 p = p.y - box.hi.y := by simp [exc]
@[simp] theorem exc_4 (box : Bound α) (p : Pt α) : exc box 4 p = box.lo.y - p.y := by simp [exc]
@[simp] theorem exc_2 (box : Bound α) (p : Pt α) : exc box 2 p = p.x - box.hi.x := by simp [exc]
@[simp] theorem exc_1 (box : Bound α) (p : Pt α) : exc box 1 p = box.lo.x - p.x := by simp [exc]

/-- `k` is the edge `intersect` picks for the code `c` -/
def FirstBit (c k : Nat) : Prop :=
  (k = 8 ∧ c &&& 8 ≠ 0) ∨ (k = 4 ∧ c &&& 8 = 0 ∧ c &&& 4 ≠ 0) ∨
  (k = 2 ∧ c &&& 8 = 0 ∧ c &&& 4 = 0 ∧ c &&& 2 ≠ 0) ∨
  (k = 1 ∧ c &&& 8 = 0 ∧ c &&& 4 = 0 ∧ c &&& 2 = 0 ∧ c &&& 1 ≠ 0)

theorem firstBit_exists {c : Nat} (hc : c < 16) (h0 : c ≠ 0) : ∃ k, FirstBit c k := by
  rcases bits_first c hc h0 with h | h | h | h
  · exact ⟨8, Or.inl ⟨rfl, h⟩⟩
  · exact ⟨4, Or.inr (Or.inl ⟨rfl, h⟩)⟩
  · exact ⟨2, Or.inr (Or.inr (Or.inl ⟨rfl, h⟩))⟩
  · exact ⟨1, Or.inr (Or.inr (Or.inr ⟨rfl, h⟩))⟩

theorem FirstBit.edge {c k : Nat} (h : FirstBit c k) : Edge k := by
  rcases h with ⟨rfl, _⟩ | ⟨rfl, _⟩ | ⟨rfl, _⟩ | ⟨rfl, _⟩ <;> simp [Edge]

theorem FirstBit.bit {c k : Nat} (h : FirstBit c k) : c &&& k ≠ 0 := by
  rcases h with ⟨rfl, h⟩ | ⟨rfl, _, h⟩ | ⟨rfl, _, _, h⟩ | ⟨rfl, _, _, _, h⟩ <;> exact h

/-- the point computed by `intersect` for the edge `k` -/
def cross (box : Bound α) (k : Nat) (a b : Pt α) : Pt α :=
  if k = 8 then ⟨a.x + (b.x - a.x) * (box.hi.y - a.y) / (b.y - a.y), box.hi.y⟩
  else if k = 4 then ⟨a.x + (b.x - a.x) * (box.lo.y - a.y) / (b.y - a.y), box.lo.y⟩
  else if k = 2 then ⟨box.hi.x, a.y + (b.y - a.y) * (box.hi.x - a.x) / (b.x - a.x)⟩
  else ⟨box.lo.x, a.y + (b.y - a.y) * (box.lo.x - a.x) / (b.x - a.x)⟩

theorem intersect_eq_cross (box : Bound α) {c k : Nat} (h : FirstBit c k) (a b : Pt α) :
    intersect box c a b = some (cross box k a b) := by
  rcases h with ⟨rfl, h8⟩ | ⟨rfl, h8, h4⟩ | ⟨rfl, h8, h4, h2⟩ | ⟨rfl, h8, h4, h2, h1⟩ <;>
    simp [intersect, cross, clip_codeLeft, clip_codeRight, clip_codeBottom, clip_codeTop, *]
  rw [Nat.and_one_is_mod] at h1; omega

/-- the moved end is the start `a` (weakly beyond edge `k`, `b` weakly within): the crossing point is
    `lerp a b T`, lies on the edge line, and everything before it is strictly beyond the edge -/
theorem cross_startEnd (box : Bound α) {k : Nat} (hk : Edge k) (a b : Pt α)
    (ha : 0 ≤ exc box k a) (hb : exc box k b ≤ 0) :
    ∃ T, 0 ≤ T ∧ T ≤ 1 ∧ cross box k a b = lerp a b T ∧ exc box k (lerp a b T) = 0 ∧
      ∀ t, 0 ≤ t → t < T → 0 < exc box k (lerp a b t) := by
  rcases hk with rfl | rfl | rfl | rfl
  · simp only [exc_8] at ha hb
    obtain ⟨h0, h1, h2, h3, -, -⟩ := param_ge (ya := a.y) (yb := b.y) (h := box.hi.y) (by linarith) (by linarith)
    refine ⟨_, h0, h1, ?_, ?_, ?_⟩
    · apply pt_eq
      · simp only [cross, lerp_x, if_true]; ring
      · simp only [cross, lerp_y, if_true]; exact h2.symm
    · simp only [exc_8, lerp_y]; linarith
    · intro t ht0 ht; have := h3 t ht0 ht; simp only [exc_8, lerp_y]; linarith
  · simp only [exc_4] at ha hb
    obtain ⟨h0, h1, h2, h3, -, -⟩ := param_le (ya := a.y) (yb := b.y) (h := box.lo.y) (by linarith) (by linarith)
    refine ⟨_, h0, h1, ?_, ?_, ?_⟩
    · apply pt_eq
      · simp [cross]; ring
      · simp [cross]; exact h2.symm
    · simp only [exc_4, lerp_y]; linarith
    · intro t ht0 ht; have := h3 t ht0 ht; simp only [exc_4, lerp_y]; linarith
  · simp only [exc_2] at ha hb
    obtain ⟨h0, h1, h2, h3, -, -⟩ := param_ge (ya := a.x) (yb := b.x) (h := box.hi.x) (by linarith) (by linarith)
    refine ⟨_, h0, h1, ?_, ?_, ?_⟩
    · apply pt_eq
      · simp [cross]; exact h2.symm
      · simp [cross]; ring
    · simp only [exc_2, lerp_x]; linarith
    · intro t ht0 ht; have := h3 t ht0 ht; simp only [exc_2, lerp_x]; linarith
  · simp only [exc_1] at ha hb
    obtain ⟨h0, h1, h2, h3, -, -⟩ := param_le (ya := a.x) (yb := b.x) (h := box.lo.x) (by linarith) (by linarith)
    refine ⟨_, h0, h1, ?_, ?_, ?_⟩
    · apply pt_eq
      · simp [cross]; exact h2.symm
      · simp [cross]; ring
    · simp only [exc_1, lerp_x]; linarith
    · intro t ht0 ht; have := h3 t ht0 ht; simp only [exc_1, lerp_x]; linarith

/-- the moved end is the far end `b` (weakly beyond edge `k`, `a` weakly within) -/
theorem cross_farEnd (box : Bound α) {k : Nat} (hk : Edge k) (a b : Pt α)
    (ha : exc box k a ≤ 0) (hb : 0 ≤ exc box k b) :
    ∃ T, 0 ≤ T ∧ T ≤ 1 ∧ cross box k a b = lerp a b T ∧ exc box k (lerp a b T) = 0 ∧
      (∀ t, T < t → t ≤ 1 → 0 ≤ exc box k (lerp a b t)) ∧
      (0 < exc box k b → ∀ t, T < t → 0 < exc box k (lerp a b t)) := by
  rcases hk with rfl | rfl | rfl | rfl
  · simp only [exc_8] at ha hb
    obtain ⟨h0, h1, h2, -, h4, h5⟩ := param_le (ya := a.y) (yb := b.y) (h := box.hi.y) (by linarith) (by linarith)
    refine ⟨_, h0, h1, ?_, ?_, ?_, ?_⟩
    · apply pt_eq
      · simp [cross]; ring
      · simp [cross]; exact h2.symm
    · simp only [exc_8, lerp_y]; linarith
    · intro t ht ht1; have := h4 t ht ht1; simp only [exc_8, lerp_y]; linarith
    · intro hpos t ht; simp only [exc_8] at hpos; have := h5 (by linarith) t ht
      simp only [exc_8, lerp_y]; linarith
  · simp only [exc_4] at ha hb
    obtain ⟨h0, h1, h2, -, h4, h5⟩ := param_ge (ya := a.y) (yb := b.y) (h := box.lo.y) (by linarith) (by linarith)
    refine ⟨_, h0, h1, ?_, ?_, ?_, ?_⟩
    · apply pt_eq
      · simp [cross]; ring
      · simp [cross]; exact h2.symm
    · simp only [exc_4, lerp_y]; linarith
    · intro t ht ht1; have := h4 t ht ht1; simp only [exc_4, lerp_y]; linarith
    · intro hpos t ht; simp only [exc_4] at hpos; have := h5 (by linarith) t ht
      simp only [exc_4, lerp_y]; linarith
  · simp only [exc_2] at ha hb
    obtain ⟨h0, h1, h2, -, h4, h5⟩ := param_le (ya := a.x) (yb := b.x) (h := box.hi.x) (by linarith) (by linarith)
    refine ⟨_, h0, h1, ?_, ?_, ?_, ?_⟩
    · apply pt_eq
      · simp [cross]; exact h2.symm
      · simp [cross]; ring
    · simp only [exc_2, lerp_x]; linarith
    · intro t ht ht1; have := h4 t ht ht1; simp only [exc_2, lerp_x]; linarith
    · intro hpos t ht; simp only [exc_2] at hpos; have := h5 (by linarith) t ht
      simp only [exc_2, lerp_x]; linarith
  · simp only [exc_1] at ha hb
    obtain ⟨h0, h1, h2, -, h4, h5⟩ := param_ge (ya := a.x) (yb := b.x) (h := box.lo.x) (by linarith) (by linarith)
    refine ⟨_, h0, h1, ?_, ?_, ?_, ?_⟩
    · apply pt_eq
      · simp [cross]; exact h2.symm
      · simp [cross]; ring
    · simp only [exc_1, lerp_x]; linarith
    · intro t ht ht1; have := h4 t ht ht1; simp only [exc_1, lerp_x]; linarith
    · intro hpos t ht; simp only [exc_1] at hpos; have := h5 (by linarith) t ht
      simp only [exc_1, lerp_x]; linarith

/-! ### one clipping step -/

/-- a code bit set on the crossing point was already set on one of the two ends -/
theorem conv_codes {box : Bound α} {cA cB : Nat} {a b : Pt α} (hWA : W box cA a) (hWB : W box cB b)
    {T : α} (hT0 : 0 ≤ T) (hT1 : T ≤ 1) :
    ∀ j, Edge j → 0 < exc box j (lerp a b T) → cA &&& j ≠ 0 ∨ cB &&& j ≠ 0 := by
  intro j hj hpos
  by_contra hc
  push Not at hc
  have h1 := (hWA.2 j hj).2 hc.1
  have h2 := (hWB.2 j hj).2 hc.2
  rw [exc_lerp] at hpos
  nlinarith [mul_nonneg (sub_nonneg.2 hT1) (neg_nonneg.2 h1), mul_nonneg hT0 (neg_nonneg.2 h2)]

theorem mu_dec {box : Bound α} (hb : BoxOK box) {c1 c2 : Nat} (h1 : c1 < 16) (h2 : c2 < 16) {k : Nat}
    (hk : Edge k) (hck : c1 &&& k ≠ 0) (hand : c1 &&& c2 = 0) (p : Pt α) (hz : exc box k p = 0)
    (hconv : ∀ j, Edge j → 0 < exc box j p → c1 &&& j ≠ 0 ∨ c2 &&& j ≠ 0) :
    mu (bitCode box p ||| c2) < mu (c1 ||| c2) := by
  have hk0 : bitCode box p &&& k = 0 := by
    by_contra h
    have := (bitCode_bit hb p hk).1 h
    linarith
  exact bits_mu _ (bitCode_lt box p) _ h1 _ h2 k hk.mem hck hand hk0
    (fun j hj h => hconv j (edge_of_mem hj) ((bitCode_bit hb p (edge_of_mem hj)).1 h))

/-- clipping the start end -/
theorem clipA {box : Bound α} (hb : BoxOK box) {cA cB : Nat} {a b : Pt α} (hWA : W box cA a)
    (hWB : W box cB b) (hne : cA ≠ 0) (hand : cA &&& cB = 0) :
    ∃ T, 0 ≤ T ∧ T ≤ 1 ∧ intersect box cA a b = some (lerp a b T) ∧
      mu (bitCode box (lerp a b T) ||| cB) < mu (cA ||| cB) ∧
      ∀ t, 0 ≤ t → t < T → ¬ InBox box (lerp a b t) := by
  obtain ⟨k, hfb⟩ := firstBit_exists hWA.1 hne
  have hk := hfb.edge
  have hbit := hfb.bit
  have hbitB : cB &&& k = 0 := bits_disj cA hWA.1 cB hWB.1 hand k hk.mem hbit
  obtain ⟨T, hT0, hT1, hcross, hz, hdis⟩ :=
    cross_startEnd box hk a b ((hWA.2 k hk).1 hbit) ((hWB.2 k hk).2 hbitB)
  refine ⟨T, hT0, hT1, ?_, ?_, ?_⟩
  · rw [intersect_eq_cross box hfb, hcross]
  · exact mu_dec hb hWA.1 hWB.1 hk hbit hand _ hz (conv_codes hWA hWB hT0 hT1)
  · intro t ht0 ht hin
    have := (inBox_iff.1 hin) k hk
    have := hdis t ht0 ht
    linarith

/-- clipping the far end -/
theorem clipB {box : Bound α} (hb : BoxOK box) {cA cB : Nat} {a b : Pt α} (hWA : W box cA a)
    (hWB : W box cB b) (hne : cB ≠ 0) (hand : cA &&& cB = 0) :
    ∃ T, 0 ≤ T ∧ T ≤ 1 ∧ intersect box cB a b = some (lerp a b T) ∧
      mu (cA ||| bitCode box (lerp a b T)) < mu (cA ||| cB) ∧
      (∀ t, T < t → t ≤ 1 → ¬ InOpenBox box (lerp a b t)) ∧
      (cB = bitCode box b → ∀ t, T < t → t ≤ 1 → ¬ InBox box (lerp a b t)) := by
  obtain ⟨k, hfb⟩ := firstBit_exists hWB.1 hne
  have hk := hfb.edge
  have hbit := hfb.bit
  have hand' : cB &&& cA = 0 := by rw [Nat.and_comm]; exact hand
  have hbitA : cA &&& k = 0 := bits_disj cB hWB.1 cA hWA.1 hand' k hk.mem hbit
  obtain ⟨T, hT0, hT1, hcross, hz, hdis, hdis'⟩ :=
    cross_farEnd box hk a b ((hWA.2 k hk).2 hbitA) ((hWB.2 k hk).1 hbit)
  refine ⟨T, hT0, hT1, ?_, ?_, ?_, ?_⟩
  · rw [intersect_eq_cross box hfb, hcross]
  · rw [Nat.or_comm cA, Nat.or_comm cA]
    refine mu_dec hb hWB.1 hWA.1 hk hbit hand' _ hz ?_
    intro j hj hpos
    exact (conv_codes hWA hWB hT0 hT1 j hj hpos).symm
  · intro t ht ht1 hin
    have := (inOpenBox_iff.1 hin) k hk
    have := hdis t ht ht1
    linarith
  · intro hex t ht _ hin
    have hpos : 0 < exc box k b := (bitCode_bit hb b hk).1 (hex ▸ hbit)
    have := (inBox_iff.1 hin) k hk
    have := hdis' hpos t ht
    linarith

/-! ### the inner loop -/

/-- the region whose points must be kept: the open box, and in strict (closed) mode `S` the closed box -/
def Reg (S : Prop) (box : Bound α) (q : Pt α) : Prop := InOpenBox box q ∨ (S ∧ InBox box q)

theorem Reg.inBox {S : Prop} {box : Bound α} {q : Pt α} (h : Reg S box q) : InBox box q := by
  rcases h with h | h
  · exact h.inBox
  · exact h.2

/-- post-condition of `segLoopU` started on `a b` with codes `cA cB` -/
def SegPost (box : Bound α) (S : Prop) (a b : Pt α) (cA cB : Nat) : Seg α → Prop
  | .accept a' b' c => c = 0 ∧ InBox box a' ∧ InBox box b' ∧ OnSeg a b a' ∧ OnSeg a b b' ∧
      (cA = 0 → a' = a) ∧ (cB = 0 → b' = b) ∧ ∀ q, OnSeg a b q → Reg S box q → OnSeg a' b' q
  | .reject => cA ≠ 0 ∧ ∀ q, OnSeg a b q → ¬ Reg S box q
  | .stuck => False

theorem segLoop_spec {box : Bound α} (hb : BoxOK box) (S : Prop) :
    ∀ (fuel : Nat) (a b : Pt α) (cA cB : Nat), W box cA a → W box cB b →
      (S → cA = bitCode box a ∧ cB = bitCode box b) → mu (cA ||| cB) < fuel →
      SegPost box S a b cA cB (segLoopU box fuel a b cA cB) := by
  intro fuel
  induction fuel with
  | zero => intro a b cA cB _ _ _ h; omega
  | succ n ih =>
    intro a b cA cB hWA hWB hS hfuel
    rw [segLoopU]
    split_ifs with h1 h2 h3
    · -- accept
      obtain ⟨hA0, hB0⟩ := bits_or_zero cA hWA.1 cB hWB.1 h1
      subst hA0; subst hB0
      exact ⟨rfl, W_zero_inBox hWA, W_zero_inBox hWB, onSeg_left a b, onSeg_right a b,
        fun _ => rfl, fun _ => rfl, fun q hq _ => hq⟩
    · -- reject
      refine ⟨?_, ?_⟩
      · rintro rfl; exact h2 (Nat.zero_and cB)
      · obtain ⟨k, hkm, hkA, hkB⟩ := bits_common cA hWA.1 cB hWB.1 h2
        have hk := edge_of_mem hkm
        rintro q ⟨t, ht0, ht1, rfl⟩ hreg
        have eA := (hWA.2 k hk).1 hkA
        have eB := (hWB.2 k hk).1 hkB
        rcases hreg with hreg | ⟨hs, hreg⟩
        · have := (inOpenBox_iff.1 hreg) k hk
          rw [exc_lerp] at this
          nlinarith [mul_nonneg (sub_nonneg.2 ht1) eA, mul_nonneg ht0 eB]
        · obtain ⟨hcA, hcB⟩ := hS hs
          have eA' : 0 < exc box k a := (bitCode_bit hb a hk).1 (hcA ▸ hkA)
          have eB' : 0 < exc box k b := (bitCode_bit hb b hk).1 (hcB ▸ hkB)
          have := (inBox_iff.1 hreg) k hk
          rw [exc_lerp] at this
          rcases eq_or_lt_of_le ht0 with h0 | h0
          · subst h0; simp at this; linarith
          · nlinarith [mul_nonneg (sub_nonneg.2 ht1) eA'.le, mul_pos h0 eB']
    · -- clip the start end
      have hand : cA &&& cB = 0 := not_not.1 h2
      obtain ⟨T, hT0, hT1, hint, hmu, hdis⟩ := clipA hb hWA hWB h3 hand
      rw [hint]
      show SegPost box S a b cA cB (segLoopU box n (lerp a b T) b (bitCode box (lerp a b T)) cB)
      have key := ih (lerp a b T) b (bitCode box (lerp a b T)) cB (W_bitCode hb _) hWB
        (fun s => ⟨rfl, (hS s).2⟩) (by omega)
      have hsplit : ∀ q, OnSeg a b q → InBox box q → OnSeg (lerp a b T) b q := by
        rintro q ⟨t, ht0, ht1, rfl⟩ hin
        have hTt : T ≤ t := by
          by_contra hlt
          exact hdis t ht0 (not_le.1 hlt) hin
        have := onSeg_between a b hTt ht1
        rwa [lerp_one] at this
      generalize segLoopU box n (lerp a b T) b (bitCode box (lerp a b T)) cB = r at key ⊢
      cases r with
      | accept a' b' c =>
        obtain ⟨hc, hia, hib, hoa, hob, _, hb', hcomp⟩ := key
        have hTon : OnSeg a b (lerp a b T) := onSeg_lerp a b hT0 hT1
        exact ⟨hc, hia, hib, hTon.sub (onSeg_right a b) hoa, hTon.sub (onSeg_right a b) hob,
          fun h => absurd h h3, hb', fun q hq hreg => hcomp q (hsplit q hq hreg.inBox) hreg⟩
      | reject =>
        exact ⟨h3, fun q hq hreg => key.2 q (hsplit q hq hreg.inBox) hreg⟩
      | stuck => exact key
    · -- clip the far end
      have hand : cA &&& cB = 0 := not_not.1 h2
      have hA0 : cA = 0 := not_not.1 h3
      have hB0 : cB ≠ 0 := by
        rintro rfl; apply h1; rw [hA0]; rfl
      obtain ⟨T, hT0, hT1, hint, hmu, hdisO, hdisC⟩ := clipB hb hWA hWB hB0 hand
      rw [hint]
      show SegPost box S a b cA cB (segLoopU box n a (lerp a b T) cA (bitCode box (lerp a b T)))
      have key := ih a (lerp a b T) cA (bitCode box (lerp a b T)) hWA (W_bitCode hb _)
        (fun s => ⟨(hS s).1, rfl⟩) (by omega)
      have hsplit : ∀ q, OnSeg a b q → Reg S box q → OnSeg a (lerp a b T) q := by
        rintro q ⟨t, ht0, ht1, rfl⟩ hreg
        have hTt : t ≤ T := by
          by_contra hlt
          rcases hreg with hreg | ⟨hs, hreg⟩
          · exact hdisO t (not_le.1 hlt) ht1 hreg
          · exact hdisC (hS hs).2 t (not_le.1 hlt) ht1 hreg
        have := onSeg_between a b ht0 hTt
        rwa [lerp_zero] at this
      generalize segLoopU box n a (lerp a b T) cA (bitCode box (lerp a b T)) = r at key ⊢
      cases r with
      | accept a' b' c =>
        obtain ⟨hc, hia, hib, hoa, hob, ha', _, hcomp⟩ := key
        have hTon : OnSeg a b (lerp a b T) := onSeg_lerp a b hT0 hT1
        exact ⟨hc, hia, hib, (onSeg_left a b).sub hTon hoa, (onSeg_left a b).sub hTon hob,
          ha', fun h => absurd h hB0, fun q hq hreg => hcomp q (hsplit q hq hreg) hreg⟩
      | reject =>
        exact ⟨key.1, fun q hq hreg => key.2 q (hsplit q hq hreg) hreg⟩
      | stuck => exact key

/-- an accepted segment started with codes sharing no bit -/
theorem segLoop_accept_and {box : Bound α} {fuel : Nat} {a b a' b' : Pt α} {cA cB c : Nat}
    (h : segLoopU box fuel a b cA cB = .accept a' b' c) : cA &&& cB = 0 := by
  cases fuel with
  | zero => simp [segLoopU] at h
  | succ n =>
    rw [segLoopU] at h
    split_ifs at h with h1 h2
    · have h0 := Nat.or_eq_zero_iff.1 h1
      rw [h0.1, h0.2]; rfl
    · exact not_not.1 h2
    · exact not_not.1 h2

theorem mu_lt_eight {cA cB : Nat} (hA : cA < 16) (hB : cB < 16) : mu (cA ||| cB) < 8 :=
  lt_of_le_of_lt (bits_mu_le cA hA cB hB) (by decide)

/-- open mode: a non-degenerate accepted piece segment runs strictly inside, away from its ends -/
theorem open_interior {box : Bound α} (hb : BoxOK box) {a b a' b' : Pt α}
    (hand : bitCodeOpen box a &&& bitCodeOpen box b = 0) (hia : InBox box a') (hib : InBox box b')
    (hoa : OnSeg a b a') (hob : OnSeg a b b') (hne : a' ≠ b') {t : α} (ht0 : 0 < t) (ht1 : t < 1) :
    InOpenBox box (lerp a' b' t) := by
  rw [inOpenBox_iff]
  intro k hk
  by_contra hge
  have hge : 0 ≤ exc box k (lerp a' b' t) := not_lt.1 hge
  have ea' := (inBox_iff.1 hia) k hk
  have eb' := (inBox_iff.1 hib) k hk
  rw [exc_lerp] at hge
  have h1t : 0 < 1 - t := sub_pos.2 ht1
  have p1 : (1 - t) * exc box k a' ≤ 0 := mul_nonpos_of_nonneg_of_nonpos h1t.le ea'
  have p2 : t * exc box k b' ≤ 0 := mul_nonpos_of_nonneg_of_nonpos ht0.le eb'
  have za' : exc box k a' = 0 := by
    have : (1 - t) * exc box k a' = 0 := by linarith
    rcases mul_eq_zero.1 this with h | h
    · exact absurd h h1t.ne'
    · exact h
  have zb' : exc box k b' = 0 := by
    have : t * exc box k b' = 0 := by linarith
    rcases mul_eq_zero.1 this with h | h
    · exact absurd h ht0.ne'
    · exact h
  obtain ⟨s, _, _, rfl⟩ := hoa
  obtain ⟨e, _, _, rfl⟩ := hob
  have hse : s ≠ e := by rintro rfl; exact hne rfl
  rw [exc_lerp] at za' zb'
  have hprod : (s - e) * (exc box k b - exc box k a) = 0 := by linarith
  have hab : exc box k b = exc box k a := by
    rcases mul_eq_zero.1 hprod with h | h
    · exact absurd (sub_eq_zero.1 h) hse
    · exact sub_eq_zero.1 h
  have za : exc box k a = 0 := by rw [hab] at za'; linarith
  have zb : exc box k b = 0 := by rw [hab]; exact za
  have bA := (bitCodeOpen_bit hb a hk).2 za.ge
  have bB := (bitCodeOpen_bit hb b hk).2 zb.ge
  exact bits_common' _ (bitCodeOpen_lt box a) _ (bitCodeOpen_lt box b) k hk.mem bA bB hand

/-- closed mode, exact codes: the accepted segment is exactly the inside part -/
theorem segLoop_closed {box : Bound α} (hb : BoxOK box) (a b : Pt α) :
    (match segLoopU box 8 a b (bitCode box a) (bitCode box b) with
     | .accept a' b' _ => InBox box a' ∧ InBox box b' ∧ OnSeg a b a' ∧ OnSeg a b b' ∧
         ∀ q, OnSeg a b q → (InBox box q ↔ OnSeg a' b' q)
     | .reject => ∀ q, OnSeg a b q → ¬ InBox box q
     | .stuck => False) := by
  have key := segLoop_spec hb True 8 a b (bitCode box a) (bitCode box b) (W_bitCode hb a)
    (W_bitCode hb b) (fun _ => ⟨rfl, rfl⟩) (mu_lt_eight (bitCode_lt box a) (bitCode_lt box b))
  generalize segLoopU box 8 a b (bitCode box a) (bitCode box b) = r at key ⊢
  cases r with
  | accept a' b' c =>
    obtain ⟨_, hia, hib, hoa, hob, _, _, hcomp⟩ := key
    exact ⟨hia, hib, hoa, hob, fun q hq =>
      ⟨fun hin => hcomp q hq (Or.inr ⟨trivial, hin⟩), fun hq' => inBox_of_onSeg hia hib hq'⟩⟩
  | reject => exact fun q hq hin => key.2 q hq (Or.inr ⟨trivial, hin⟩)
  | stuck => exact key

/-! ### the rounding guards of the real loop change nothing over an ordered field -/

/-- what holds while the far end `b` is still the unclipped vertex (open bound): its code is its exact
    open code, and the start end is strictly within every edge line the far end lies on, unless its own
    code marks that edge -/
def FreshB (box : Bound α) (a b : Pt α) (cA cB : Nat) : Prop :=
  cB = bitCodeOpen box b ∧
    ∀ k, Edge k → cB &&& k ≠ 0 → exc box k b = 0 → cA &&& k = 0 → exc box k a < 0

theorem freshB_start {box : Bound α} (hb : BoxOK box) (a b : Pt α) :
    FreshB box a b (bitCodeOpen box a) (bitCodeOpen box b) := by
  refine ⟨rfl, fun k hk _ _ hkA => ?_⟩
  by_contra hge
  exact (bitCodeOpen_bit hb a hk).2 (not_lt.1 hge) hkA

/-- a clip of the start end keeps `FreshB` -/
theorem freshB_clipA {box : Bound α} (hb : BoxOK box) {cA cB : Nat} {a b a' : Pt α} (hWA : W box cA a)
    (hWB : W box cB b) (hF : FreshB box a b cA cB) (hne : cA ≠ 0) (hand : cA &&& cB = 0)
    (hint : intersect box cA a b = some a') : FreshB box a' b (bitCode box a') cB := by
  obtain ⟨hcb, hJ⟩ := hF
  refine ⟨hcb, fun k hk hkB hzb _ => ?_⟩
  obtain ⟨j, hfb⟩ := firstBit_exists hWA.1 hne
  have hj := hfb.edge
  have hbitB : cB &&& j = 0 := bits_disj cA hWA.1 cB hWB.1 hand j hj.mem hfb.bit
  obtain ⟨T, hT0, hT1, hcross, hz, _⟩ :=
    cross_startEnd box hj a b ((hWA.2 j hj).1 hfb.bit) ((hWB.2 j hj).2 hbitB)
  rw [intersect_eq_cross box hfb, hcross] at hint
  cases hint
  -- the crossing point is not the far end: the far end is strictly within the edge `j`
  have hT : T < 1 := by
    rcases lt_or_eq_of_le hT1 with h | h
    · exact h
    · exfalso
      rw [h, lerp_one] at hz
      have := (bitCodeOpen_bit hb b hj).2 hz.ge
      rw [← hcb] at this
      exact this hbitB
  have hand' : cB &&& cA = 0 := by rw [Nat.and_comm]; exact hand
  have hkA : cA &&& k = 0 := bits_disj cB hWB.1 cA hWA.1 hand' k hk.mem hkB
  have hneg := hJ k hk hkB hzb hkA
  rw [exc_lerp, hzb, mul_zero, add_zero]
  exact mul_neg_of_pos_of_neg (sub_pos.2 hT) hneg

/-- open bound: a far end that is an unclipped vertex on the boundary is what `intersect` returns -/
theorem intersect_boundary_end {box : Bound α} {cB : Nat} {a b : Pt α} (hWA : W box 0 a) (hWB : W box cB b)
    (hF : FreshB box a b 0 cB) (hne : cB ≠ 0) (hbc : bitCode box b = 0) (hb : BoxOK box) :
    intersect box cB a b = some b := by
  obtain ⟨k, hfb⟩ := firstBit_exists hWB.1 hne
  have hk := hfb.edge
  have hin : InBox box b := W_zero_inBox (hbc ▸ W_bitCode hb b)
  have hzb : exc box k b = 0 := le_antisymm ((inBox_iff.1 hin) k hk) ((hWB.2 k hk).1 hfb.bit)
  have hneg : exc box k a < 0 := hF.2 k hk hfb.bit hzb (Nat.zero_and k)
  obtain ⟨T, _, hT1, hcross, hz, _⟩ := cross_farEnd box hk a b hneg.le hzb.ge
  rw [intersect_eq_cross box hfb, hcross]
  rw [exc_lerp, hzb, mul_zero, add_zero] at hz
  have hT : T = 1 := by
    rcases mul_eq_zero.1 hz with h | h
    · exact (sub_eq_zero.1 h).symm
    · exact absurd h hneg.ne
  rw [hT, lerp_one]

/-- THE GUARDS CHANGE NOTHING over exact arithmetic: every `intersect` strictly lowers the number of
    region-code bits (`clipA`, `clipB`), a code has at most two, so no end is clipped a third time and the
    clamp branch is unreachable; and with the open bound a far end on the boundary is exactly what
    `intersect` returns.  So the model's loop `segLoop` coincides with the loop without the guards,
    `segLoopU`, about which this development reasons.  (`hopen`: with the open bound the two codes are
    the open codes of the two ends, as `lineStep` passes them.) -/
theorem segLoop_eq_segLoopU {box : Bound α} (hb : BoxOK box) (isOpen : Bool) {a b : Pt α} {cA cB : Nat}
    (hWA : W box cA a) (hWB : W box cB b) (hA2 : bitCount cA ≤ 2) (hB2 : bitCount cB ≤ 2)
    (hopen : isOpen = true → cA = bitCodeOpen box a ∧ cB = bitCodeOpen box b) (fuel : Nat) :
    segLoop box isOpen fuel a b cA cB 0 0 = segLoopU box fuel a b cA cB := by
  refine segLoop_eq_segLoopU_of box isOpen (fun a b cA cB => W box cA a ∧ W box cB b)
    (fun a b cA cB => isOpen = true → FreshB box a b cA cB) ?_ ?_ ?_ ?_ ?_
    fuel a b cA cB 0 0 ⟨hWA, hWB⟩ ?_ ?_ ?_
  · exact fun _ _ _ _ h => ⟨h.1.1, h.2.1⟩
  · rintro a b cA cB ⟨hWA, hWB⟩ hne hand a' hint
    obtain ⟨T, _, _, hint', hmu, _⟩ := clipA hb hWA hWB hne hand
    rw [hint'] at hint
    cases hint
    exact ⟨⟨W_bitCode hb _, hWB⟩, hmu⟩
  · rintro a b cA cB ⟨hWA, hWB⟩ hF hne hand a' hint ho
    exact freshB_clipA hb hWA hWB (hF ho) hne hand hint
  · rintro a b cB ⟨hWA, hWB⟩ hne b' hint
    obtain ⟨T, _, _, hint', hmu, _⟩ := clipB hb hWA hWB hne (Nat.zero_and cB)
    rw [hint'] at hint
    cases hint
    refine ⟨⟨hWA, W_bitCode hb _⟩, ?_⟩
    rw [Nat.zero_or, Nat.zero_or] at hmu
    exact hmu
  · rintro ho a b cB ⟨hWA, hWB⟩ hF hne hbc
    exact intersect_boundary_end hWA hWB (hF ho) hne hbc hb
  · intro _ ho
    obtain ⟨h1, h2⟩ := hopen ho
    rw [h1, h2]
    exact freshB_start hb a b
  · have := bitCount_or_le cA hWA.1 cB hWB.1
    omega
  · omega

end Orb.Clip
