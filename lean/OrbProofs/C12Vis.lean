/-
  C12 lemmas: Visvalingam (heap, linked list, loop).  The primed statements are re-exported by OrbProofs/C12.lean.
-/
import OrbProofs.C12Basic
import OrbProofs.C12VisHeap
import Mathlib.Data.List.Basic
import Mathlib.Data.List.Perm.Basic
import Mathlib.Tactic.Linarith

set_option linter.unusedSectionVars false
set_option linter.unusedVariables false

namespace Orb.Simplify
open Orb

namespace Vis

/-! ### items: `get` after `modify` -/
section items
variable {α : Type}

theorem get_modify (st : VS α) (id j : Nat) (f : VItem α → VItem α) (hid : id < st.items.size) :
    (st.modify id f).get j = if j = id then f (st.get j) else st.get j := by
  unfold VS.get VS.modify
  simp only [Array.getD_eq_getD_getElem?, Array.getElem?_modify]
  split_ifs with h1 h2 h3
  · subst h1; simp [hid]
  · omega
  · subst h3; simp at h1
  · rfl

theorem get_modify_ne (st : VS α) (id j : Nat) (f : VItem α → VItem α) (h : j ≠ id) :
    (st.modify id f).get j = st.get j := by
  unfold VS.get VS.modify
  simp only [Array.getD_eq_getD_getElem?, Array.getElem?_modify]
  rw [if_neg (Ne.symm h)]

theorem get_modify_proj {β : Type} (g : VItem α → β) (st : VS α) (id j : Nat) (f : VItem α → VItem α)
    (hf : ∀ it, g (f it) = g it) : g ((st.modify id f).get j) = g (st.get j) := by
  unfold VS.get VS.modify
  simp only [Array.getD_eq_getD_getElem?, Array.getElem?_modify]
  split_ifs with h
  · cases h2 : st.items[j]? <;> simp [hf]
  · rfl

@[simp] theorem modify_heap (st : VS α) (id : Nat) (f : VItem α → VItem α) : (st.modify id f).heap = st.heap := rfl

@[simp] theorem modify_size (st : VS α) (id : Nat) (f : VItem α → VItem α) :
    (st.modify id f).items.size = st.items.size := by
  simp [VS.modify]

theorem area_modify (st : VS α) (id j : Nat) (f : VItem α → VItem α) (hf : ∀ it, (f it).area = it.area) :
    (st.modify id f).area j = st.area j := get_modify_proj (·.area) st id j f hf

theorem frame_refl (st : VS α) : Frame st st := ⟨rfl, fun _ => ⟨rfl, rfl, rfl⟩⟩

theorem frame_trans {a b c : VS α} (h1 : Frame a b) (h2 : Frame b c) : Frame a c := by
  refine ⟨h2.1.trans h1.1, fun j => ?_⟩
  obtain ⟨x1, x2, x3⟩ := h1.2 j
  obtain ⟨y1, y2, y3⟩ := h2.2 j
  exact ⟨y1.trans x1, y2.trans x2, y3.trans x3⟩

end items

section heapframe
variable {α : Type} [LT α] [LE α] [DecidableLT α] [DecidableLE α]

theorem heapIdx_modify (st : VS α) (id : Nat) (f : VItem α → VItem α) (h : HeapIdx st)
    (hf : ∀ it, (f it).index = it.index) : HeapIdx (st.modify id f) := by
  intro i hi
  have := h i hi
  refine ⟨by simpa using this.1, ?_⟩
  rw [modify_heap, get_modify_proj (·.index) st id _ f hf]
  exact this.2

theorem heapOrd_modify (st : VS α) (id : Nat) (f : VItem α → VItem α) (h : HeapOrd st)
    (hf : ∀ it, (f it).area = it.area) : HeapOrd (st.modify id f) := by
  intro i h0 hi
  have := h i h0 hi
  rw [modify_heap, area_modify _ _ _ _ hf, area_modify _ _ _ _ hf]
  exact this

end heapframe

section anyArithmetic
variable {α : Type} [Add α] [Sub α] [Mul α] [Div α] [Neg α] [LT α] [LE α] [DecidableLT α] [DecidableLE α] [BEq α] [OfNat α 0] [OfNat α 1] [OfNat α 2]

/-- one non-stopping iteration of the reduction loop after the `pop` -/
def visStep (ls : List (Pt α)) (st0 : VS α) (cur p nx : Nat) : VS α :=
  let c := st0.get cur
  let st := st0.modify p fun it => { it with next := c.next }
  let st := st.modify nx fun it => { it with prev := c.prev }
  let st :=
    match (st.get p).prev with
    | some pp =>
      let a := doubleTriangleArea ls (st.get pp).pointIndex (st.get p).pointIndex (st.get nx).pointIndex
      update st p (aMax (some a) c.area)
    | none => st
  match (st.get nx).next with
  | some nn =>
    let a := doubleTriangleArea ls (st.get p).pointIndex (st.get nx).pointIndex (st.get nn).pointIndex
    update st nx (aMax (some a) c.area)
  | none => st

theorem visLoop_succ (ls : List (Pt α)) (thr2 : Option α) (k fuel : Nat) (st : VS α) (r : Nat) :
  visLoop ls thr2 k (fuel+1) st r =
    if st.heap.size = 0 then .ok st else
    if aLt thr2 ((pop st).2.get (pop st).1).area || decide (ls.length ≤ k + r) then .ok (pop st).2 else
    match ((pop st).2.get (pop st).1).prev, ((pop st).2.get (pop st).1).next with
    | none, _ => .panic "nil pointer dereference (previous)"
    | some _, none => .panic "nil pointer dereference (next)"
    | some p, some nx => visLoop ls thr2 k fuel (visStep ls (pop st).2 (pop st).1 p nx) (r+1) := by
  rw [visLoop]
  generalize pop st = q
  obtain ⟨cur, st1⟩ := q
  by_cases h1 : st.heap.size = 0
  · simp [h1]
  · rw [if_neg h1, if_neg h1]
    by_cases h2 : (aLt thr2 (st1.get cur).area || decide (ls.length ≤ k + r)) = true
    · show (if _ then _ else _) = _
      rw [if_pos h2, if_pos h2]
    · show (if _ then _ else _) = _
      rw [if_neg h2, if_neg h2]
      rfl

theorem optUpdate_spec {β : Type} (st : VS α) (id : Nat) (o : Option β) (g : β → Option α) (h : HeapIdx st)
    (hin : id ∈ st.heap.toList) (st' : VS α)
    (hst' : st' = match o with | some x => update st id (g x) | none => st) :
    HeapIdx st' ∧ st'.heap.toList.Perm st.heap.toList ∧ Frame st st' ∧ (∀ j, j ≠ id → st'.area j = st.area j) ∧
      (st'.area id = st.area id ∨ (o ≠ none ∧ ∃ x, st'.area id = g x)) := by
  cases o with
  | none =>
    subst hst'
    exact ⟨h, List.Perm.refl _, frame_refl _, fun _ _ => rfl, Or.inl rfl⟩
  | some x =>
    subst hst'
    obtain ⟨a, b, c, d, e⟩ := update_idx st id (g x) h hin
    exact ⟨a, b, c, e, Or.inr ⟨by simp, x, d⟩⟩

theorem visStep_spec (ls : List (Pt α)) (st : VS α) (cur p nx : Nat) (h : HeapIdx st)
    (hp : p ∈ st.heap.toList) (hnx : nx ∈ st.heap.toList) (hpn : p ≠ nx)
    (hps : p < st.items.size) (hns : nx < st.items.size) :
    HeapIdx (visStep ls st cur p nx) ∧ (visStep ls st cur p nx).heap.toList.Perm st.heap.toList ∧
    (visStep ls st cur p nx).items.size = st.items.size ∧
    (∀ j, ((visStep ls st cur p nx).get j).next = if j = p then (st.get cur).next else (st.get j).next) ∧
    (∀ j, ((visStep ls st cur p nx).get j).prev = if j = nx then (st.get cur).prev else (st.get j).prev) ∧
    (∀ j, ((visStep ls st cur p nx).get j).pointIndex = (st.get j).pointIndex) ∧
    (∀ j, j ≠ p → j ≠ nx → (visStep ls st cur p nx).area j = st.area j) ∧
    ((visStep ls st cur p nx).area p = st.area p ∨
      ((st.get p).prev ≠ none ∧ ∃ a, (visStep ls st cur p nx).area p = aMax (some a) (st.get cur).area)) ∧
    ((visStep ls st cur p nx).area nx = st.area nx ∨
      ((st.get nx).next ≠ none ∧ ∃ a, (visStep ls st cur p nx).area nx = aMax (some a) (st.get cur).area)) := by
  unfold visStep
  simp only []
  generalize hc : st.get cur = c
  set st1 := st.modify p fun it => { it with next := c.next } with hst1
  set st2 := st1.modify nx fun it => { it with prev := c.prev } with hst2
  have i1 : HeapIdx st1 := heapIdx_modify _ _ _ h (fun _ => rfl)
  have i2 : HeapIdx st2 := heapIdx_modify _ _ _ i1 (fun _ => rfl)
  have hh2 : st2.heap = st.heap := rfl
  have hs2 : st2.items.size = st.items.size := by simp [hst2, hst1]
  have hnext2 : ∀ j, (st2.get j).next = if j = p then c.next else (st.get j).next := by
    intro j
    have e1 := get_modify_proj (·.next) st1 nx j (fun it => { it with prev := c.prev }) (fun _ => rfl)
    refine e1.trans ?_
    rw [hst1, get_modify _ _ _ _ hps]
    split_ifs <;> rfl
  have hprev2 : ∀ j, (st2.get j).prev = if j = nx then c.prev else (st.get j).prev := by
    intro j
    rw [hst2, get_modify _ _ _ _ (by simpa [hst1] using hns)]
    split_ifs
    · rfl
    · exact get_modify_proj (·.prev) st p j (fun it => { it with next := c.next }) (fun _ => rfl)
  have hpi2 : ∀ j, (st2.get j).pointIndex = (st.get j).pointIndex := by
    intro j
    exact (get_modify_proj (·.pointIndex) st1 nx j (fun it => { it with prev := c.prev }) (fun _ => rfl)).trans
      (get_modify_proj (·.pointIndex) st p j (fun it => { it with next := c.next }) (fun _ => rfl))
  have harea2 : ∀ j, st2.area j = st.area j := by
    intro j
    exact (area_modify st1 nx j (fun it => { it with prev := c.prev }) (fun _ => rfl)).trans
      (area_modify st p j (fun it => { it with next := c.next }) (fun _ => rfl))
  set st3 := (match (st2.get p).prev with
    | some pp => update st2 p (aMax (some (doubleTriangleArea ls (st2.get pp).pointIndex (st2.get p).pointIndex
        (st2.get nx).pointIndex)) c.area)
    | none => st2) with hst3
  obtain ⟨i3, p3, f3, a3, b3⟩ := optUpdate_spec st2 p (st2.get p).prev
    (fun pp => aMax (some (doubleTriangleArea ls (st2.get pp).pointIndex (st2.get p).pointIndex
        (st2.get nx).pointIndex)) c.area) i2 (by rw [hh2]; exact hp) st3 (by rw [hst3]; cases (st2.get p).prev <;> rfl)
  set st4 := (match (st3.get nx).next with
    | some nn => update st3 nx (aMax (some (doubleTriangleArea ls (st3.get p).pointIndex (st3.get nx).pointIndex
        (st3.get nn).pointIndex)) c.area)
    | none => st3) with hst4
  obtain ⟨i4, p4, f4, a4, b4⟩ := optUpdate_spec st3 nx (st3.get nx).next
    (fun nn => aMax (some (doubleTriangleArea ls (st3.get p).pointIndex (st3.get nx).pointIndex
        (st3.get nn).pointIndex)) c.area) i3 (p3.mem_iff.2 (by rw [hh2]; exact hnx)) st4 (by rw [hst4]; cases (st3.get nx).next <;> rfl)
  have f24 := frame_trans f3 f4
  refine ⟨i4, (p4.trans p3).trans (by rw [hh2]), f24.1.trans hs2, ?_, ?_, ?_, ?_, ?_, ?_⟩
  · intro j; rw [(f24.2 j).1, hnext2]
  · intro j; rw [(f24.2 j).2.1, hprev2]
  · intro j; rw [(f24.2 j).2.2, hpi2]
  · intro j h1 h2; rw [a4 j h2, a3 j h1, harea2]
  · rw [a4 p hpn]
    rcases b3 with b3 | ⟨b3, x, hx⟩
    · left; rw [b3, harea2]
    · right
      refine ⟨?_, _, hx⟩
      rwa [hprev2, if_neg hpn] at b3
  · rcases b4 with b4 | ⟨b4, x, hx⟩
    · left; rw [b4, a3 nx (Ne.symm hpn), harea2]
    · right
      refine ⟨?_, _, hx⟩
      rwa [(f3.2 nx).1, hnext2, if_neg (Ne.symm hpn)] at b4

end anyArithmetic

/-! ### the linked-list invariant -/

theorem erase_eq_eraseIdx_of_getElem? {L : List Nat} (hnd : L.Nodup) {i a : Nat} (h : L[i]? = some a) :
    L.erase a = L.eraseIdx i := by
  induction L generalizing i with
  | nil => simp at h
  | cons x xs ih =>
    cases i with
    | zero =>
      simp at h; subst h; simp
    | succ i =>
      simp at h
      have hmem : a ∈ xs := List.mem_iff_getElem?.2 ⟨i, h⟩
      have hne : x ≠ a := by
        rintro rfl
        exact (List.nodup_cons.1 hnd).1 hmem
      rw [List.erase_cons_tail (by simpa using hne), List.eraseIdx_cons_succ, ih (List.nodup_cons.1 hnd).2 h]

section vinv
variable {α : Type}

/-- `L` is the list of live item ids, in order; the links of `st` realise exactly `L` -/
structure VInv (n : Nat) (st : VS α) (L : List Nat) : Prop where
  size : st.items.size = n
  sub : L.Sublist (List.range n)
  head : L[0]? = some 0
  last : L[L.length - 1]? = some (n - 1)
  nxt : ∀ j a b, L[j]? = some a → L[j+1]? = some b → (st.get a).next = some b
  prv : ∀ j a b, L[j]? = some a → L[j+1]? = some b → (st.get b).prev = some a
  prev0 : (st.get 0).prev = none
  nextn : (st.get (n-1)).next = none
  pidx : ∀ a ∈ L, (st.get a).pointIndex = a

namespace VInv
variable {n : Nat} {st : VS α} {L : List Nat}

theorem nodup (hv : VInv n st L) : L.Nodup := List.nodup_range.sublist hv.sub

theorem pairwise (hv : VInv n st L) : L.Pairwise (· < ·) := List.pairwise_lt_range.sublist hv.sub

theorem mem_lt (hv : VInv n st L) {a : Nat} (ha : a ∈ L) : a < n := List.mem_range.1 (hv.sub.subset ha)

theorem two_le (hv : VInv n st L) (hn : 2 ≤ n) : 2 ≤ L.length := by
  have h0 := hv.head
  have h1 := hv.last
  by_contra hlt
  have : L.length - 1 = 0 := by omega
  rw [this, h0] at h1
  simp at h1; omega

theorem inj (hv : VInv n st L) {i j a : Nat} (hi : L[i]? = some a) (hj : L[j]? = some a) : i = j := by
  have hlt : i < L.length := by
    by_contra hc
    rw [List.getElem?_eq_none (by omega)] at hi; cases hi
  exact (List.getElem?_inj hlt hv.nodup).1 (hi.trans hj.symm)

/-- a popped item with both links set is interior: its neighbours in `L` are the link targets -/
theorem locate (hv : VInv n st L) {cur p nx : Nat} (hc : cur ∈ L) (hp : (st.get cur).prev = some p)
    (hnx : (st.get cur).next = some nx) :
    ∃ i, L[i]? = some p ∧ L[i+1]? = some cur ∧ L[i+2]? = some nx := by
  obtain ⟨i, hi⟩ := List.mem_iff_getElem?.1 hc
  have hlt : i < L.length := by
    by_contra hc
    rw [List.getElem?_eq_none (by omega)] at hi; cases hi
  cases i with
  | zero =>
    rw [hv.head] at hi
    cases hi
    rw [hv.prev0] at hp; cases hp
  | succ i =>
    have h1 : L[i]? = some L[i] := List.getElem?_eq_getElem (by omega)
    have hp' := hv.prv i _ _ h1 hi
    rw [hp] at hp'
    by_cases hl : i + 2 < L.length
    · have h2 : L[i+2]? = some L[i+2] := List.getElem?_eq_getElem hl
      have hn' := hv.nxt (i+1) _ _ hi h2
      rw [hnx] at hn'
      refine ⟨i, ?_, hi, ?_⟩
      · rw [h1]; exact hp'.symm
      · rw [h2]; exact hn'.symm
    · have : L.length - 1 = i + 1 := by omega
      have hl := hv.last
      rw [this, hi] at hl
      cases hl
      rw [hv.nextn] at hnx; cases hnx

/-- the final walk reads off `L` -/
theorem walk_drop (hv : VInv n st L) : ∀ (fuel j a : Nat), L[j]? = some a → L.length ≤ fuel + j →
    visWalk st fuel (some a) = L.drop j := by
  intro fuel
  induction fuel with
  | zero =>
    intro j a hj hl
    have hlt : j < L.length := by
      by_contra hc
      rw [List.getElem?_eq_none (by omega)] at hj; cases hj
    omega
  | succ fuel ih =>
    intro j a hj hl
    have hlt : j < L.length := by
      by_contra hc
      rw [List.getElem?_eq_none (by omega)] at hj; cases hj
    have hja : L[j] = a := by
      rw [List.getElem?_eq_getElem hlt] at hj; exact Option.some.inj hj
    rw [visWalk, hv.pidx a (List.mem_iff_getElem?.2 ⟨j, hj⟩), List.drop_eq_getElem_cons hlt, hja]
    congr 1
    by_cases hl2 : j + 1 < L.length
    · have h2 : L[j+1]? = some L[j+1] := List.getElem?_eq_getElem hl2
      rw [hv.nxt j _ _ hj h2]
      exact ih (j+1) _ h2 (by omega)
    · have : L.length - 1 = j := by omega
      have hl := hv.last
      rw [this, hj] at hl
      cases hl
      rw [hv.nextn, List.drop_of_length_le (by omega)]
      cases fuel <;> rfl

theorem walk (hv : VInv n st L) (fuel : Nat) (hf : L.length ≤ fuel) : visWalk st fuel (some 0) = L := by
  have := hv.walk_drop fuel 0 0 hv.head (by omega)
  simpa using this

end VInv
end vinv

section vstep
variable {α : Type} [Add α] [Sub α] [Mul α] [Div α] [Neg α] [LT α] [LE α] [DecidableLT α] [DecidableLE α] [BEq α] [OfNat α 0] [OfNat α 1] [OfNat α 2]
variable {n : Nat} {st : VS α} {L : List Nat}

theorem VInv.frame (hv : VInv n st L) {st' : VS α} (hf : Frame st st') : VInv n st' L where
  size := hf.1.trans hv.size
  sub := hv.sub
  head := hv.head
  last := hv.last
  nxt := fun j a b h1 h2 => by rw [(hf.2 a).1]; exact hv.nxt j a b h1 h2
  prv := fun j a b h1 h2 => by rw [(hf.2 b).2.1]; exact hv.prv j a b h1 h2
  prev0 := by rw [(hf.2 0).2.1]; exact hv.prev0
  nextn := by rw [(hf.2 (n-1)).1]; exact hv.nextn
  pidx := fun a ha => by rw [(hf.2 a).2.2]; exact hv.pidx a ha

/-- the loop-head invariant survives the `pop` -/
theorem VInv.pop (hv : VInv n st L) (hi : HeapIdx st) (hp : st.heap.toList.Perm L) (hne : 0 < st.heap.size) :
    VInv n (pop st).2 L ∧ HeapIdx (pop st).2 ∧ L.Perm ((pop st).1 :: (pop st).2.heap.toList) ∧
      (pop st).1 ∈ L := by
  obtain ⟨a, b, c, d⟩ := pop_idx st hi hne
  refine ⟨hv.frame c, a, hp.symm.trans b, ?_⟩
  exact hp.mem_iff.1 (b.mem_iff.2 (List.mem_cons_self))

/-- facts about the neighbours of the popped interior item -/
theorem VInv.step_pre (hv : VInv n st L) {cur p nx : Nat} (hperm : L.Perm (cur :: st.heap.toList))
    (hp : (st.get cur).prev = some p) (hnx : (st.get cur).next = some nx) :
    ∃ i, L[i]? = some p ∧ L[i+1]? = some cur ∧ L[i+2]? = some nx ∧
      p ∈ st.heap.toList ∧ nx ∈ st.heap.toList ∧ p ≠ nx ∧ p ≠ cur ∧ nx ≠ cur ∧
      p < st.items.size ∧ nx < st.items.size := by
  have hc : cur ∈ L := hperm.mem_iff.2 List.mem_cons_self
  obtain ⟨i, h0, h1, h2⟩ := hv.locate hc hp hnx
  have hpc : p ≠ cur := by
    rintro rfl
    have := hv.inj h0 h1; omega
  have hnc : nx ≠ cur := by
    rintro rfl
    have := hv.inj h2 h1; omega
  have hpn : p ≠ nx := by
    rintro rfl
    have := hv.inj h0 h2; omega
  have hpL : p ∈ L := List.mem_iff_getElem?.2 ⟨_, h0⟩
  have hnL : nx ∈ L := List.mem_iff_getElem?.2 ⟨_, h2⟩
  refine ⟨i, h0, h1, h2, ?_, ?_, hpn, hpc, hnc, ?_, ?_⟩
  · have := hperm.mem_iff.1 hpL
    simpa [hpc] using this
  · have := hperm.mem_iff.1 hnL
    simpa [hnc] using this
  · rw [hv.size]; exact hv.mem_lt hpL
  · rw [hv.size]; exact hv.mem_lt hnL

/-- one non-stopping iteration keeps the invariant, for `L` without the popped item -/
theorem VInv.step (ls : List (Pt α)) (hv : VInv n st L) (hi : HeapIdx st) {cur p nx : Nat}
    (hperm : L.Perm (cur :: st.heap.toList))
    (hp : (st.get cur).prev = some p) (hnx : (st.get cur).next = some nx) :
    VInv n (visStep ls st cur p nx) (L.erase cur) ∧ HeapIdx (visStep ls st cur p nx) ∧
      (visStep ls st cur p nx).heap.toList.Perm (L.erase cur) ∧ (L.erase cur).length + 1 = L.length := by
  obtain ⟨i, h0, h1, h2, hpH, hnH, hpn, hpc, hnc, hps, hns⟩ := hv.step_pre hperm hp hnx
  obtain ⟨s1, s2, s3, s4, s5, s6, -, -, -⟩ := visStep_spec ls st cur p nx hi hpH hnH hpn hps hns
  have hc : cur ∈ L := hperm.mem_iff.2 List.mem_cons_self
  have he : L.erase cur = L.eraseIdx (i+1) := erase_eq_eraseIdx_of_getElem? hv.nodup h1
  have hlen : i + 2 < L.length := by
    by_contra hc
    rw [List.getElem?_eq_none (by omega)] at h2; cases h2
  have hlen' : (L.eraseIdx (i+1)).length = L.length - 1 := List.length_eraseIdx_of_lt (by omega)
  refine ⟨?_, s1, ?_, ?_⟩
  · rw [he]
    refine ⟨s3.trans hv.size, (List.eraseIdx_sublist _ _).trans hv.sub, ?_, ?_, ?_, ?_, ?_, ?_, ?_⟩
    · rw [List.getElem?_eraseIdx, if_pos (by omega)]; exact hv.head
    · rw [hlen', List.getElem?_eraseIdx, if_neg (by omega)]
      have : L.length - 1 - 1 + 1 = L.length - 1 := by omega
      rw [this]; exact hv.last
    · intro j a b ha hb
      rw [List.getElem?_eraseIdx] at ha hb
      rw [s4, hnx]
      split_ifs at ha hb with c1 c2 c3
      · have : a ≠ p := by
          rintro rfl
          have := hv.inj ha h0; omega
        rw [if_neg this]; exact hv.nxt j a b ha hb
      · have : j = i := by omega
        subst this
        rw [h0] at ha; cases ha
        rw [h2] at hb; cases hb
        rw [if_pos rfl]
      · omega
      · have : a ≠ p := by
          rintro rfl
          have := hv.inj ha h0; omega
        rw [if_neg this]; exact hv.nxt (j+1) a b ha hb
    · intro j a b ha hb
      rw [List.getElem?_eraseIdx] at ha hb
      rw [s5, hp]
      split_ifs at ha hb with c1 c2 c3
      · have : b ≠ nx := by
          rintro rfl
          have := hv.inj hb h2; omega
        rw [if_neg this]; exact hv.prv j a b ha hb
      · have : j = i := by omega
        subst this
        rw [h0] at ha; cases ha
        rw [h2] at hb; cases hb
        rw [if_pos rfl]
      · omega
      · have : b ≠ nx := by
          rintro rfl
          have := hv.inj hb h2; omega
        rw [if_neg this]; exact hv.prv (j+1) a b ha hb
    · rw [s5, if_neg, hv.prev0]
      rintro rfl
      have := hv.inj hv.head h2; omega
    · rw [s4, if_neg, hv.nextn]
      rintro h
      rw [← h] at h0
      have := hv.inj hv.last h0; omega
    · intro a ha
      rw [s6]; exact hv.pidx a (List.mem_of_mem_eraseIdx ha)
  · refine s2.trans ?_
    have := hperm.erase cur
    rw [List.erase_cons_head] at this
    exact this.symm
  · rw [he, hlen']; omega

end vstep

/-! ### `visInit` establishes the invariant -/

section vinit
variable {α : Type} [Add α] [Sub α] [Mul α] [Div α] [Neg α] [LT α] [LE α] [DecidableLT α] [DecidableLE α] [BEq α] [OfNat α 0] [OfNat α 1] [OfNat α 2]

/-- closure properties of an extra heap property carried through `visInit` (`True`, or `HeapOrd`) -/
structure QOps (Q : VS α → Prop) : Prop where
  empty : ∀ st : VS α, st.heap = #[] → Q st
  push : ∀ (st : VS α) id, HeapIdx st → Q st → id < st.items.size → id ∉ st.heap.toList → Q (push st id)
  modOut : ∀ (st : VS α) id f, id ∉ st.heap.toList → Q st → Q (st.modify id f)
  modArea : ∀ (st : VS α) id f, (∀ it, (f it).area = it.area) → Q st → Q (st.modify id f)

/-- items `0..m` are linked and pushed -/
structure IInv (n : Nat) (st : VS α) (m : Nat) : Prop where
  size : st.items.size = n
  hidx : HeapIdx st
  perm : st.heap.toList.Perm (List.range (m+1))
  pidx : ∀ j, j ≤ m → (st.get j).pointIndex = j
  prv : ∀ j, 1 ≤ j → j ≤ m → (st.get j).prev = some (j-1)
  nxt : ∀ j, j < m → (st.get j).next = some (j+1)
  prev0 : (st.get 0).prev = none
  nextn : ∀ j, m ≤ j → (st.get j).next = none
  area : ∀ j, j ≤ m → (st.area j = none ↔ (j = 0 ∨ j = n - 1))

theorem IInv.add {n m : Nat} {st st' : VS α} (hv : IInv n st m) (hm : m + 1 < n)
    (hidx' : HeapIdx st') (hperm : st'.heap.toList.Perm ((m+1) :: st.heap.toList))
    (hsize : st'.items.size = st.items.size)
    (hnext : ∀ j, (st'.get j).next = if j = m then some (m+1) else (st.get j).next)
    (hprev : ∀ j, (st'.get j).prev = if j = m+1 then some m else (st.get j).prev)
    (hpi : ∀ j, (st'.get j).pointIndex = if j = m+1 then m+1 else (st.get j).pointIndex)
    (harea : ∀ j, j ≠ m+1 → st'.area j = st.area j) (harea' : st'.area (m+1) = none ↔ m+1 = n-1) :
    IInv n st' (m+1) where
  size := hsize.trans hv.size
  hidx := hidx'
  perm := by
    refine hperm.trans ?_
    rw [List.range_succ (n := m+1)]
    exact (List.perm_append_singleton _ _).symm.trans ((hv.perm.append_right _).symm).symm
  pidx := fun j hj => by
    rw [hpi]; split_ifs with h
    · exact h.symm
    · exact hv.pidx j (by omega)
  prv := fun j h1 hj => by
    rw [hprev]; split_ifs with h
    · subst h; rfl
    · exact hv.prv j h1 (by omega)
  nxt := fun j hj => by
    rw [hnext]; split_ifs with h
    · subst h; rfl
    · exact hv.nxt j (by omega)
  prev0 := by rw [hprev, if_neg (by omega)]; exact hv.prev0
  nextn := fun j hj => by rw [hnext, if_neg (by omega)]; exact hv.nextn j (by omega)
  area := fun j hj => by
    by_cases h : j = m + 1
    · subst h; rw [harea']; omega
    · rw [harea j h]; exact hv.area j (by omega)

theorem IInv.not_mem {n m : Nat} {st : VS α} (hv : IInv n st m) : m + 1 ∉ st.heap.toList := by
  intro h
  have := hv.perm.mem_iff.1 h
  simp at this

/-- one step of the `foldl` in `visInit` -/
theorem IInv.foldStep {Q : VS α → Prop} (hq : QOps Q) (ls : List (Pt α)) {n m : Nat} {st : VS α}
    (hv : IInv n st m) (hQ : Q st) (hm : m + 3 ≤ n) (a : α) :
    IInv n (((push (st.modify (m+1) fun it => { it with area := some a, pointIndex := m+1, prev := some (m+1-1) })
        (m+1))).modify (m+1-1) fun it => { it with next := some (m+1) }) (m+1) ∧
    Q (((push (st.modify (m+1) fun it => { it with area := some a, pointIndex := m+1, prev := some (m+1-1) })
        (m+1))).modify (m+1-1) fun it => { it with next := some (m+1) }) := by
  have e : m + 1 - 1 = m := by omega
  rw [e]
  set f1 : VItem α → VItem α := fun it => { it with area := some a, pointIndex := m+1, prev := some m } with hf1
  set f2 : VItem α → VItem α := fun it => { it with next := some (m+1) } with hf2
  set sa := st.modify (m+1) f1 with hsa
  have ia : HeapIdx sa := heapIdx_modify _ _ _ hv.hidx (fun _ => rfl)
  have qa : Q sa := hq.modOut _ _ _ hv.not_mem hQ
  have hsz : sa.items.size = n := by rw [hsa, modify_size, hv.size]
  have ga : ∀ j, sa.get j = if j = m + 1 then f1 (st.get j) else st.get j :=
    fun j => get_modify _ _ _ _ (by rw [hv.size]; omega)
  obtain ⟨ib, pb, fb, ab⟩ := push_idx sa (m+1) ia (by omega) hv.not_mem
  have qb : Q (push sa (m+1)) := hq.push _ _ ia qa (by omega) hv.not_mem
  set sb := push sa (m+1) with hsb
  have hszb : sb.items.size = n := fb.1.trans hsz
  refine ⟨hv.add (by omega) (heapIdx_modify _ _ _ ib (fun _ => rfl)) pb (by rw [modify_size, hszb, hv.size])
    ?_ ?_ ?_ ?_ ?_, hq.modArea _ _ _ (fun _ => rfl) qb⟩
  · intro j
    rw [get_modify _ _ _ _ (by omega)]
    split_ifs with h
    · rfl
    · rw [(fb.2 j).1, ga]; split_ifs <;> rfl
  · intro j
    rw [get_modify_proj (·.prev) sb m j f2 (fun _ => rfl), (fb.2 j).2.1, ga]
    split_ifs <;> rfl
  · intro j
    rw [get_modify_proj (·.pointIndex) sb m j f2 (fun _ => rfl), (fb.2 j).2.2, ga]
    split_ifs <;> rfl
  · intro j hj
    rw [area_modify sb m _ f2 (fun _ => rfl), ab, VS.area, ga, if_neg hj]; rfl
  · rw [area_modify sb m _ f2 (fun _ => rfl), ab, VS.area, ga, if_pos rfl]
    simp [hf1]; omega

/-- the last item of `visInit` -/
theorem IInv.lastStep {Q : VS α → Prop} (hq : QOps Q) {n m : Nat} {st : VS α}
    (hv : IInv n st m) (hQ : Q st) (hm : m + 2 = n) :
    IInv n (push ((st.modify (n-1) fun it => { it with area := none, pointIndex := n-1, prev := some (n-2) }).modify
        (n-2) fun it => { it with next := some (n-1) }) (n-1)) (m+1) ∧
    Q (push ((st.modify (n-1) fun it => { it with area := none, pointIndex := n-1, prev := some (n-2) }).modify
        (n-2) fun it => { it with next := some (n-1) }) (n-1)) := by
  have e1 : n - 1 = m + 1 := by omega
  have e2 : n - 2 = m := by omega
  rw [e1, e2]
  set f1 : VItem α → VItem α := fun it => { it with area := none, pointIndex := m+1, prev := some m } with hf1
  set f2 : VItem α → VItem α := fun it => { it with next := some (m+1) } with hf2
  set sa := st.modify (m+1) f1 with hsa
  have ia : HeapIdx sa := heapIdx_modify _ _ _ hv.hidx (fun _ => rfl)
  have qa : Q sa := hq.modOut _ _ _ hv.not_mem hQ
  have hsz : sa.items.size = n := by rw [hsa, modify_size, hv.size]
  have ga : ∀ j, sa.get j = if j = m + 1 then f1 (st.get j) else st.get j :=
    fun j => get_modify _ _ _ _ (by rw [hv.size]; omega)
  set sb := sa.modify m f2 with hsb
  have ib : HeapIdx sb := heapIdx_modify _ _ _ ia (fun _ => rfl)
  have qb : Q sb := hq.modArea _ _ _ (fun _ => rfl) qa
  have hszb : sb.items.size = n := by rw [hsb, modify_size, hsz]
  have hnm : m + 1 ∉ sb.heap.toList := hv.not_mem
  obtain ⟨ic, pc, fc, ac⟩ := push_idx sb (m+1) ib (by omega) hnm
  refine ⟨hv.add (by omega) ic pc (by rw [fc.1, hszb, hv.size]) ?_ ?_ ?_ ?_ ?_, hq.push _ _ ib qb (by omega) hnm⟩
  · intro j
    rw [(fc.2 j).1, hsb, get_modify _ _ _ _ (by omega)]
    split_ifs with h
    · rfl
    · rw [ga]; split_ifs <;> rfl
  · intro j
    rw [(fc.2 j).2.1, hsb, get_modify_proj (·.prev) sa m j f2 (fun _ => rfl), ga]
    split_ifs <;> rfl
  · intro j
    rw [(fc.2 j).2.2, hsb, get_modify_proj (·.pointIndex) sa m j f2 (fun _ => rfl), ga]
    split_ifs <;> rfl
  · intro j hj
    rw [ac, hsb, area_modify sa m _ f2 (fun _ => rfl), VS.area, ga, if_neg hj]; rfl
  · rw [ac, hsb, area_modify sa m _ f2 (fun _ => rfl), VS.area, ga, if_pos rfl]
    simp [hf1]; omega

theorem visInit_inv {Q : VS α → Prop} (hq : QOps Q) (ls : List (Pt α)) (hn : 2 ≤ ls.length) :
    IInv ls.length (visInit ls) (ls.length - 1) ∧ Q (visInit ls) := by
  unfold visInit
  simp only []
  generalize hnn : ls.length = n at *
  set d : VItem α := ⟨some 0, 0, none, none, 0⟩ with hd
  set st0 : VS α := ⟨Array.replicate n d, #[]⟩ with hst0
  have g0 : ∀ j, st0.get j = d ∨ st0.get j = ⟨none, 0, none, none, 0⟩ := by
    intro j
    by_cases hj : j < n
    · left; simp [VS.get, hst0, hj]
    · right; simp [VS.get, hst0, hj]
  have hn0 : ∀ j, (st0.get j).next = none := by
    intro j; rcases g0 j with h | h <;> rw [h]
  have hp0 : ∀ j, (st0.get j).prev = none := by
    intro j; rcases g0 j with h | h <;> rw [h]
  set fA : VItem α → VItem α := fun it => { it with area := none, pointIndex := 0 } with hfA
  set sA := st0.modify 0 fA with hsA
  have szA : sA.items.size = n := by simp [hsA, hst0]
  have iA : HeapIdx sA := by
    intro i hi
    simp [hsA, hst0] at hi
  have hA : sA.heap.toList = [] := by simp [hsA, hst0]
  have qA : Q sA := hq.empty _ (by simp [hsA, hst0])
  have gA : ∀ j, sA.get j = if j = 0 then fA (st0.get j) else st0.get j :=
    fun j => get_modify _ _ _ _ (by simp [hst0]; omega)
  obtain ⟨i1, p1, f1, a1⟩ := push_idx sA 0 iA (by omega) (by rw [hA]; simp)
  have q1 : Q (push sA 0) := hq.push _ _ iA qA (by omega) (by rw [hA]; simp)
  set st1 := push sA 0 with hst1
  have v1 : IInv n st1 0 := by
    refine ⟨f1.1.trans szA, i1, by rw [hA] at p1; simpa using p1, ?_, ?_, ?_, ?_, ?_, ?_⟩
    · intro j hj
      have : j = 0 := by omega
      subst this
      rw [(f1.2 0).2.2, gA, if_pos rfl]
    · intro j h1 h2; omega
    · intro j hj; omega
    · rw [(f1.2 0).2.1, gA, if_pos rfl]; exact hp0 0
    · intro j _
      rw [(f1.2 j).1, gA]
      split_ifs
      · exact hn0 j
      · exact hn0 j
    · intro j hj
      have : j = 0 := by omega
      subst this
      rw [a1, VS.area, gA, if_pos rfl]
      simp [hfA]
  have hfold : ∀ m, m + 2 ≤ n →
      IInv n ((List.range' 1 m).foldl (fun (st : VS α) i =>
        ((push (st.modify i fun it =>
          { it with area := some (doubleTriangleArea ls (i - 1) i (i + 1)), pointIndex := i, prev := some (i - 1) })
          i).modify (i - 1) fun it => { it with next := some i })) st1) m ∧
      Q ((List.range' 1 m).foldl (fun (st : VS α) i =>
        ((push (st.modify i fun it =>
          { it with area := some (doubleTriangleArea ls (i - 1) i (i + 1)), pointIndex := i, prev := some (i - 1) })
          i).modify (i - 1) fun it => { it with next := some i })) st1) := by
    intro m
    induction m with
    | zero => intro _; exact ⟨v1, q1⟩
    | succ m ih =>
      intro hm
      obtain ⟨ih1, ih2⟩ := ih (by omega)
      rw [List.range'_concat, List.foldl_append, List.foldl_cons, List.foldl_nil]
      have e : 1 + 1 * m = m + 1 := by omega
      rw [e]
      exact IInv.foldStep hq ls ih1 ih2 (by omega) _
  obtain ⟨v2, q2⟩ := hfold (n - 2) (by omega)
  have := IInv.lastStep hq v2 q2 (by omega)
  have e : n - 2 + 1 = n - 1 := by omega
  rw [e] at this
  exact this

end vinit

section vloop
variable {α : Type} [Add α] [Sub α] [Mul α] [Div α] [Neg α] [LT α] [LE α] [DecidableLT α] [DecidableLE α] [BEq α] [OfNat α 0] [OfNat α 1] [OfNat α 2]

theorem getElem?_range_eq {n j a : Nat} (h : (List.range n)[j]? = some a) : a = j ∧ j < n := by
  by_cases hj : j < n
  · rw [List.getElem?_range hj] at h
    exact ⟨(Option.some.inj h).symm, hj⟩
  · rw [List.getElem?_eq_none (by simpa using hj)] at h; cases h

theorem IInv.toVInv {n : Nat} {st : VS α} (hn : 2 ≤ n) (hv : IInv n st (n - 1)) :
    VInv n st (List.range n) where
  size := hv.size
  sub := List.Sublist.refl _
  head := List.getElem?_range (by omega)
  last := by simp only [List.length_range]; exact List.getElem?_range (by omega)
  nxt := fun j a b h1 h2 => by
    obtain ⟨rfl, _⟩ := getElem?_range_eq h1
    obtain ⟨rfl, _⟩ := getElem?_range_eq h2
    exact hv.nxt _ (by omega)
  prv := fun j a b h1 h2 => by
    obtain ⟨rfl, _⟩ := getElem?_range_eq h1
    obtain ⟨rfl, _⟩ := getElem?_range_eq h2
    exact hv.prv _ (by omega) (by omega)
  prev0 := hv.prev0
  nextn := hv.nextn _ (le_refl _)
  pidx := fun a ha => hv.pidx a (by have := List.mem_range.1 ha; omega)

/-- everything the reduction loop needs at its head -/
structure LInv (n : Nat) (st : VS α) (L : List Nat) : Prop where
  vinv : VInv n st L
  hidx : HeapIdx st
  perm : st.heap.toList.Perm L

theorem visInit_LInv (ls : List (Pt α)) (hn : 2 ≤ ls.length) :
    LInv ls.length (visInit ls) (List.range ls.length) := by
  have hq : QOps (fun _ : VS α => True) := ⟨fun _ _ => trivial, fun _ _ _ _ _ _ => trivial,
    fun _ _ _ _ _ => trivial, fun _ _ _ _ _ => trivial⟩
  obtain ⟨h, -⟩ := visInit_inv hq ls hn
  refine ⟨h.toVInv hn, h.hidx, ?_⟩
  have := h.perm
  rwa [Nat.sub_add_cancel (by omega)] at this

/-- any successful run of the loop ends in a state whose links realise a sublist `L'` of the starting
    list; `removed` counts the erased items; the loop only removes while the minimum count allows -/
theorem visLoop_ok (ls : List (Pt α)) (thr2 : Option α) (k : Nat) {n : Nat} (hn : 2 ≤ n) (hls : ls.length = n) :
    ∀ (fuel : Nat) (st : VS α) (L : List Nat) (r : Nat) (st' : VS α), LInv n st L → L.length + r = n →
      k + r ≤ n → visLoop ls thr2 k fuel st r = .ok st' →
      ∃ L' r', VInv n st' L' ∧ L'.Sublist L ∧ L'.length + r' = n ∧ k + r' ≤ n ∧
        (thr2 = none → k + r' = n) := by
  intro fuel
  induction fuel with
  | zero => intro st L r st' _ _ _ h; simp [visLoop] at h
  | succ fuel ih =>
    intro st L r st' hL hlen hk h
    rw [visLoop_succ] at h
    have h2 := hL.vinv.two_le hn
    have hsz : 0 < st.heap.size := by
      have := hL.perm.length_eq
      simp at this; omega
    rw [if_neg (by omega)] at h
    obtain ⟨pv, pi, pp, pc⟩ := hL.vinv.pop hL.hidx hL.perm hsz
    split_ifs at h with htest
    · cases h
      refine ⟨L, r, pv, List.Sublist.refl _, hlen, hk, ?_⟩
      intro ht
      subst ht
      simp [aLt] at htest
      omega
    · simp only [Bool.or_eq_true, decide_eq_true_eq, not_or] at htest
      split at h
      · cases h
      · cases h
      · rename_i p nx hp hnx
        obtain ⟨sv, si, sp, sl⟩ := pv.step ls pi pp hp hnx
        obtain ⟨L', r', a1, a2, a3, a4, a5⟩ := ih _ _ _ _ ⟨sv, si, sp⟩ (by omega) (by omega) h
        exact ⟨L', r', a1, a2.trans List.erase_sublist, a3, a4, a5⟩

end vloop

section vnested
variable {α : Type} [Add α] [Sub α] [Mul α] [Div α] [Neg α] [LT α] [LE α] [DecidableLT α] [DecidableLE α] [BEq α] [OfNat α 0] [OfNat α 1] [OfNat α 2]

/-- two runs from the same state, the second with a weaker stop test, end in nested lists -/
theorem visLoop_nested (ls : List (Pt α)) (t1 t2 : Option α) (k1 k2 : Nat) {n : Nat} (hn : 2 ≤ n)
    (hls : ls.length = n) (ht : ∀ a, aLt t2 a = true → aLt t1 a = true) (hk : k2 ≤ k1) :
    ∀ (fuel : Nat) (st : VS α) (L : List Nat) (r : Nat) (st1 st2 : VS α), LInv n st L → L.length + r = n →
      k1 + r ≤ n → visLoop ls t1 k1 fuel st r = .ok st1 → visLoop ls t2 k2 fuel st r = .ok st2 →
      ∃ L1 L2, VInv n st1 L1 ∧ VInv n st2 L2 ∧ L2.Sublist L1 := by
  intro fuel
  induction fuel with
  | zero => intro st L r st1 st2 _ _ _ h; simp [visLoop] at h
  | succ fuel ih =>
    intro st L r st1 st2 hL hlen hk1 h1 h2
    rw [visLoop_succ] at h1 h2
    have hl2 := hL.vinv.two_le hn
    have hsz : 0 < st.heap.size := by
      have := hL.perm.length_eq
      simp at this; omega
    rw [if_neg (by omega)] at h1 h2
    obtain ⟨pv, pi, pp, pc⟩ := hL.vinv.pop hL.hidx hL.perm hsz
    by_cases htest2 : (aLt t2 ((pop st).2.get (pop st).1).area || decide (ls.length ≤ k2 + r)) = true
    · have htest1 : (aLt t1 ((pop st).2.get (pop st).1).area || decide (ls.length ≤ k1 + r)) = true := by
        simp only [Bool.or_eq_true, decide_eq_true_eq] at htest2 ⊢
        rcases htest2 with h | h
        · exact Or.inl (ht _ h)
        · exact Or.inr (by omega)
      rw [if_pos htest1] at h1
      rw [if_pos htest2] at h2
      cases h1; cases h2
      exact ⟨L, L, pv, pv, List.Sublist.refl _⟩
    · rw [if_neg htest2] at h2
      simp only [Bool.or_eq_true, decide_eq_true_eq, not_or] at htest2
      by_cases htest1 : (aLt t1 ((pop st).2.get (pop st).1).area || decide (ls.length ≤ k1 + r)) = true
      · rw [if_pos htest1] at h1
        cases h1
        split at h2
        · cases h2
        · cases h2
        · rename_i p nx hp hnx
          obtain ⟨sv, si, sp, sl⟩ := pv.step ls pi pp hp hnx
          obtain ⟨L', r', a1, a2, -⟩ := visLoop_ok ls t2 k2 hn hls _ _ _ _ _ ⟨sv, si, sp⟩ (by omega) (by omega) h2
          exact ⟨L, L', pv, a1, a2.trans List.erase_sublist⟩
      · rw [if_neg htest1] at h1
        simp only [Bool.or_eq_true, decide_eq_true_eq, not_or] at htest1
        split at h2
        · cases h2
        · cases h2
        · rename_i p nx hp hnx
          rw [hp, hnx] at h1
          simp only [] at h1
          obtain ⟨sv, si, sp, sl⟩ := pv.step ls pi pp hp hnx
          exact ih _ _ _ _ _ ⟨sv, si, sp⟩ (by omega) (by omega) h1 h2

end vnested

section vmain
variable {α : Type} [Add α] [Sub α] [Mul α] [Div α] [Neg α] [LT α] [LE α] [DecidableLT α] [DecidableLE α] [BEq α] [OfNat α 0] [OfNat α 1] [OfNat α 2]

/-- what a successful `visKept` returns -/
theorem visKept_ok (thr : Option α) (k : Nat) (ls : List (Pt α)) (idxs : List Nat) (hn : 2 ≤ ls.length)
    (hk : k ≤ ls.length) (h : visKept thr k ls = .ok idxs) :
    idxs.Sublist (List.range ls.length) ∧ idxs[0]? = some 0 ∧ idxs[idxs.length - 1]? = some (ls.length - 1) ∧
      k ≤ idxs.length ∧ (thr = none → idxs.length = k) := by
  unfold visKept at h
  simp only [] at h
  split at h
  · rename_i st' hst'
    cases h
    obtain ⟨L', r', v, -, hl, hk', hx⟩ := visLoop_ok ls (thr.map (· * 2)) k hn rfl _ _ _ _ _
      (visInit_LInv ls hn) (by simp) (by omega) hst'
    rw [v.walk _ (by omega)]
    refine ⟨v.sub, v.head, v.last, by omega, ?_⟩
    intro ht
    have := hx (by rw [ht]; rfl)
    omega
  · cases h
  · cases h

theorem visToKeep_pos (toKeep : Nat) (ls : List (Pt α)) (area : Bool) : 1 ≤ visToKeep toKeep ls area := by
  unfold visToKeep visDefaultClosedRing visDefaultOpenRing visDefaultLine
  simp only []
  split_ifs <;> omega

theorem visSimplify_cases (thr : Option α) (toKeep : Nat) (ls out : List (Pt α)) (area : Bool)
    (h : visSimplify thr toKeep ls area = .ok out) :
    (ls.length ≤ 1 ∧ out = ls) ∨ (ls.length ≤ visToKeep toKeep ls area ∧ out = ls) ∨
    (2 ≤ ls.length ∧ visToKeep toKeep ls area < ls.length ∧
      ∃ idxs, visKept thr (visToKeep toKeep ls area) ls = .ok idxs ∧ out = compact ls idxs) := by
  unfold visSimplify at h
  simp only [] at h
  split_ifs at h with h1 h2
  · left; cases h; exact ⟨h1, rfl⟩
  · right; left; cases h; exact ⟨h2, rfl⟩
  · right; right
    refine ⟨by omega, by omega, ?_⟩
    split at h
    · rename_i idxs hi
      cases h
      exact ⟨idxs, hi, rfl⟩
    · cases h
    · cases h

theorem filterMap_getElem?_length {β : Type} (ls : List β) (idxs : List Nat) (hr : ∀ i ∈ idxs, i < ls.length) :
    (idxs.filterMap (fun i => ls[i]?)).length = idxs.length := by
  induction idxs with
  | nil => rfl
  | cons i t ih =>
    have hi : i < ls.length := hr i List.mem_cons_self
    rw [List.filterMap_cons, List.getElem?_eq_getElem hi]
    simp only [List.length_cons]
    rw [ih (fun j hj => hr j (List.mem_cons_of_mem _ hj))]

/-- the point list built from a kept index list -/
theorem compact_kept {β : Type} (ls : List β) (idxs : List Nat) (hn : 2 ≤ ls.length)
    (hs : idxs.Sublist (List.range ls.length)) (h0 : idxs[0]? = some 0)
    (hl : idxs[idxs.length - 1]? = some (ls.length - 1)) :
    (compact ls idxs).Sublist ls ∧ EndsKept ls (compact ls idxs) ∧ (compact ls idxs).length = idxs.length := by
  have hpw : idxs.Pairwise (· < ·) := List.pairwise_lt_range.sublist hs
  have hr : ∀ i ∈ idxs, i < ls.length := fun i hi => List.mem_range.1 (hs.subset hi)
  refine ⟨compact_sublist ls idxs hpw hr, ?_, ?_⟩
  · rw [compact_eq_map ls idxs hpw hr]
    constructor
    · cases idxs with
      | nil => simp at h0
      | cons i t =>
        simp at h0; subst h0
        rw [List.filterMap_cons, List.getElem?_eq_getElem (by omega)]
        simp [List.head?_eq_getElem?]
    · have hne : idxs ≠ [] := by rintro rfl; simp at h0
      have : idxs.getLast? = some (ls.length - 1) := by rw [List.getLast?_eq_getElem?]; exact hl
      obtain ⟨ys, rfl⟩ := List.getLast?_eq_some_iff.1 this
      rw [List.filterMap_append, List.filterMap_cons, List.getElem?_eq_getElem (by omega)]
      simp [List.getLast?_eq_getElem?]
  · rw [compact_eq_map ls idxs hpw hr, filterMap_getElem?_length ls idxs hr]

/-- summary of a successful `visSimplify` -/
theorem visSimplify_ok (thr : Option α) (toKeep : Nat) (ls out : List (Pt α)) (area : Bool)
    (h : visSimplify thr toKeep ls area = .ok out) :
    out.Sublist ls ∧ EndsKept ls out ∧ min ls.length (visToKeep toKeep ls area) ≤ out.length ∧
      (thr = none → visToKeep toKeep ls area < ls.length → out.length = visToKeep toKeep ls area) := by
  rcases visSimplify_cases thr toKeep ls out area h with ⟨h1, rfl⟩ | ⟨h1, rfl⟩ | ⟨h1, h2, idxs, hi, rfl⟩
  · refine ⟨List.Sublist.refl _, ⟨rfl, rfl⟩, Nat.min_le_left _ _, ?_⟩
    intro _ hlt
    have := visToKeep_pos toKeep out area
    omega
  · refine ⟨List.Sublist.refl _, ⟨rfl, rfl⟩, Nat.min_le_left _ _, ?_⟩
    intro _ hlt
    omega
  · obtain ⟨a1, a2, a3, a4, a5⟩ := visKept_ok thr _ ls idxs h1 (by omega) hi
    obtain ⟨b1, b2, b3⟩ := compact_kept ls idxs h1 a1 a2 a3
    refine ⟨b1, b2, ?_, ?_⟩
    · rw [b3]; exact le_trans (Nat.min_le_right _ _) a4
    · intro ht _
      rw [b3]; exact a5 ht

end vmain

section vnested2
variable {α : Type} [Add α] [Sub α] [Mul α] [Div α] [Neg α] [LT α] [LE α] [DecidableLT α] [DecidableLE α] [BEq α] [OfNat α 0] [OfNat α 1] [OfNat α 2]

theorem visKept_nested (thr1 thr2 : Option α) (k1 k2 : Nat) (ls : List (Pt α)) (i1 i2 : List Nat)
    (hn : 2 ≤ ls.length) (hk1 : k1 ≤ ls.length)
    (ht : ∀ a, aLt (thr2.map (· * 2)) a = true → aLt (thr1.map (· * 2)) a = true) (hk : k2 ≤ k1)
    (h1 : visKept thr1 k1 ls = .ok i1) (h2 : visKept thr2 k2 ls = .ok i2) : i2.Sublist i1 := by
  unfold visKept at h1 h2
  simp only [] at h1 h2
  split at h1
  · rename_i st1 hst1
    split at h2
    · rename_i st2 hst2
      cases h1; cases h2
      obtain ⟨L1, L2, v1, v2, hs⟩ := visLoop_nested ls _ _ k1 k2 hn rfl ht hk _ _ _ _ _ _
        (visInit_LInv ls hn) (by simp) (by omega) hst1 hst2
      have l1 : L1.length ≤ ls.length := by simpa using v1.sub.length_le
      have l2 : L2.length ≤ ls.length := by simpa using v2.sub.length_le
      rw [v1.walk _ (by omega), v2.walk _ (by omega)]
      exact hs
    · cases h2
    · cases h2
  · cases h1
  · cases h1

theorem visSimplify_nested (thr1 thr2 : Option α) (k₁ k₂ : Nat) (ls o₁ o₂ : List (Pt α)) (area : Bool)
    (ht : ∀ a, aLt (thr2.map (· * 2)) a = true → aLt (thr1.map (· * 2)) a = true)
    (hk : visToKeep k₂ ls area ≤ visToKeep k₁ ls area)
    (h₁ : visSimplify thr1 k₁ ls area = .ok o₁) (h₂ : visSimplify thr2 k₂ ls area = .ok o₂) :
    o₂.Sublist o₁ := by
  rcases visSimplify_cases thr1 k₁ ls o₁ area h₁ with ⟨h1, rfl⟩ | ⟨h1, rfl⟩ | ⟨h1, h2, i1, hi1, rfl⟩
  · exact (visSimplify_ok thr2 k₂ _ o₂ area h₂).1
  · exact (visSimplify_ok thr2 k₂ _ o₂ area h₂).1
  · rcases visSimplify_cases thr2 k₂ ls o₂ area h₂ with ⟨g1, rfl⟩ | ⟨g1, rfl⟩ | ⟨g1, g2, i2, hi2, rfl⟩
    · omega
    · omega
    · have hs := visKept_nested thr1 thr2 _ _ ls i1 i2 h1 (by omega) ht hk hi1 hi2
      obtain ⟨a1, -⟩ := visKept_ok thr1 _ ls i1 h1 (by omega) hi1
      obtain ⟨b1, -⟩ := visKept_ok thr2 _ ls i2 h1 (by omega) hi2
      rw [compact_eq_map ls i1 (List.pairwise_lt_range.sublist a1) (fun i hi => List.mem_range.1 (a1.subset hi)),
        compact_eq_map ls i2 (List.pairwise_lt_range.sublist b1) (fun i hi => List.mem_range.1 (b1.subset hi))]
      exact hs.filterMap _

end vnested2

end Vis

section anyArithmetic
variable {α : Type} [Add α] [Sub α] [Mul α] [Div α] [Neg α] [LT α] [LE α] [DecidableLT α] [DecidableLE α] [BEq α] [OfNat α 0] [OfNat α 1] [OfNat α 2]

theorem vis_subseq_in_order' (thr : Option α) (toKeep : Nat) (ls out : List (Pt α)) (area : Bool)
    (h : visSimplify thr toKeep ls area = .ok out) : out.Sublist ls :=
  (Vis.visSimplify_ok thr toKeep ls out area h).1

theorem vis_endpoints_kept' (thr : Option α) (toKeep : Nat) (ls out : List (Pt α)) (area : Bool)
    (h : visSimplify thr toKeep ls area = .ok out) : EndsKept ls out :=
  (Vis.visSimplify_ok thr toKeep ls out area h).2.1

theorem vis_closed_stays_closed' (thr : Option α) (toKeep : Nat) (ls out : List (Pt α)) (area : Bool)
    (h : visSimplify thr toKeep ls area = .ok out) (hc : Closed ls) : Closed out := by
  obtain ⟨e1, e2⟩ := (Vis.visSimplify_ok thr toKeep ls out area h).2.1
  obtain ⟨a, b, h1, h2, h3⟩ := hc
  exact ⟨a, b, e1.trans h1, e2.trans h2, h3⟩

theorem vis_min_count' (thr : Option α) (toKeep : Nat) (ls out : List (Pt α)) (area : Bool)
    (h : visSimplify thr toKeep ls area = .ok out) :
    min ls.length (visToKeep toKeep ls area) ≤ out.length :=
  (Vis.visSimplify_ok thr toKeep ls out area h).2.2.1

theorem vis_default_counts' (ls : List (Pt α)) :
    visToKeep 0 ls false = 2 ∧ (visToKeep 0 ls true = 3 ∨ visToKeep 0 ls true = 4) ∧
    ∀ k, k ≠ 0 → ∀ area, visToKeep k ls area = k := by
  refine ⟨by simp [visToKeep, visDefaultLine], ?_, ?_⟩
  · simp only [visToKeep, visDefaultClosedRing, visDefaultOpenRing]
    split_ifs <;> simp
  · intro k hk area
    simp [visToKeep, hk]

theorem vis_keep_exact' (toKeep : Nat) (ls out : List (Pt α)) (area : Bool)
    (h : visSimplify none toKeep ls area = .ok out) (hk : visToKeep toKeep ls area < ls.length) :
    out.length = visToKeep toKeep ls area :=
  (Vis.visSimplify_ok none toKeep ls out area h).2.2.2 rfl hk

end anyArithmetic

/-! ### totality over a linear order (needs the heap order and pop-min) -/

namespace Vis
section vtotal
variable {α : Type} [Field α] [LinearOrder α] [IsStrictOrderedRing α]

theorem getD_mem_heap (st : VS α) (i : Nat) (hi : i < st.heap.size) : st.heap.getD i 0 ∈ st.heap.toList := by
  rw [Array.getD_eq_getD_getElem?, Array.getElem?_eq_getElem hi]
  simp

theorem qops_heapOrd : QOps (fun st : VS α => HeapOrd st) where
  empty := fun st h i _ hi => by rw [h] at hi; simp at hi
  push := fun st id hi ho hid hnew => push_ord st id ⟨hi, ho⟩ hid hnew
  modOut := fun st id f hid ho i h0 hi => by
    rw [modify_heap] at hi
    have := ho i h0 hi
    have hlt : ((i + 1) >>> 1) - 1 < st.heap.size := by
      have : (i + 1) >>> 1 = (i + 1) / 2 := by simp [Nat.shiftRight_eq_div_pow]
      rw [this]; omega
    have m1 := getD_mem_heap st _ hlt
    have m2 := getD_mem_heap st _ hi
    have e1 : st.heap.getD ((i + 1) >>> 1 - 1) 0 ≠ id := fun e => hid (by rw [← e]; exact m1)
    have e2 : st.heap.getD i 0 ≠ id := fun e => hid (by rw [← e]; exact m2)
    rw [modify_heap, VS.area, VS.area, get_modify_ne _ _ _ _ e1, get_modify_ne _ _ _ _ e2]
    exact this
  modArea := fun st id f hf ho => heapOrd_modify st id f ho hf

theorem optUpdate_ord {β : Type} (st : VS α) (id : Nat) (o : Option β) (g : β → Option α) (h : HeapInv st)
    (hin : id ∈ st.heap.toList) (st' : VS α)
    (hst' : st' = match o with | some x => update st id (g x) | none => st) :
    HeapInv st' ∧ st'.heap.toList.Perm st.heap.toList := by
  cases o with
  | none => subst hst'; exact ⟨h, List.Perm.refl _⟩
  | some x =>
    subst hst'
    obtain ⟨a, b, -⟩ := update_idx st id (g x) h.1 hin
    exact ⟨⟨a, update_ord st id (g x) h hin⟩, b⟩

theorem visStep_ord (ls : List (Pt α)) (st : VS α) (cur p nx : Nat) (h : HeapInv st)
    (hp : p ∈ st.heap.toList) (hnx : nx ∈ st.heap.toList) : HeapOrd (visStep ls st cur p nx) := by
  unfold visStep
  simp only []
  generalize hc : st.get cur = c
  set st1 := st.modify p fun it => { it with next := c.next } with hst1
  set st2 := st1.modify nx fun it => { it with prev := c.prev } with hst2
  have i1 : HeapInv st1 := ⟨heapIdx_modify _ _ _ h.1 (fun _ => rfl), heapOrd_modify _ _ _ h.2 (fun _ => rfl)⟩
  have i2 : HeapInv st2 := ⟨heapIdx_modify _ _ _ i1.1 (fun _ => rfl), heapOrd_modify _ _ _ i1.2 (fun _ => rfl)⟩
  have hh2 : st2.heap = st.heap := rfl
  set st3 := (match (st2.get p).prev with
    | some pp => update st2 p (aMax (some (doubleTriangleArea ls (st2.get pp).pointIndex (st2.get p).pointIndex
        (st2.get nx).pointIndex)) c.area)
    | none => st2) with hst3
  obtain ⟨i3, p3⟩ := optUpdate_ord st2 p (st2.get p).prev
    (fun pp => aMax (some (doubleTriangleArea ls (st2.get pp).pointIndex (st2.get p).pointIndex
        (st2.get nx).pointIndex)) c.area) i2 (by rw [hh2]; exact hp) st3
        (by rw [hst3]; cases (st2.get p).prev <;> rfl)
  set st4 := (match (st3.get nx).next with
    | some nn => update st3 nx (aMax (some (doubleTriangleArea ls (st3.get p).pointIndex (st3.get nx).pointIndex
        (st3.get nn).pointIndex)) c.area)
    | none => st3) with hst4
  obtain ⟨i4, p4⟩ := optUpdate_ord st3 nx (st3.get nx).next
    (fun nn => aMax (some (doubleTriangleArea ls (st3.get p).pointIndex (st3.get nx).pointIndex
        (st3.get nn).pointIndex)) c.area) i3 (p3.mem_iff.2 (by rw [hh2]; exact hnx)) st4
        (by rw [hst4]; cases (st3.get nx).next <;> rfl)
  exact i4.2

/-- exactly the two end items have area `+Inf` -/
def AreaInv (n : Nat) (st : VS α) (L : List Nat) : Prop :=
  ∀ a ∈ L, (st.area a = none ↔ (a = 0 ∨ a = n - 1))

theorem visInit_total (ls : List (Pt α)) (hn : 2 ≤ ls.length) :
    LInv ls.length (visInit ls) (List.range ls.length) ∧ HeapOrd (visInit ls) ∧
      AreaInv ls.length (visInit ls) (List.range ls.length) := by
  obtain ⟨h, ho⟩ := visInit_inv qops_heapOrd ls hn
  refine ⟨⟨h.toVInv hn, h.hidx, ?_⟩, ho, ?_⟩
  · have := h.perm
    rwa [Nat.sub_add_cancel (by omega)] at this
  · intro a ha
    exact h.area a (by have := List.mem_range.1 ha; omega)

end vtotal
end Vis

namespace Vis
section vtotal2
variable {α : Type} [Field α] [LinearOrder α] [IsStrictOrderedRing α]

theorem visLoop_total (ls : List (Pt α)) (thr2 : Option α) (k : Nat) (hk2 : 2 ≤ k) {n : Nat} (hn : 2 ≤ n)
    (hls : ls.length = n) :
    ∀ (fuel : Nat) (st : VS α) (L : List Nat) (r : Nat), LInv n st L → HeapOrd st → AreaInv n st L →
      L.length + r = n → L.length < fuel → ∃ st', visLoop ls thr2 k fuel st r = .ok st' := by
  intro fuel
  induction fuel with
  | zero => intro st L r _ _ _ _ h; omega
  | succ fuel ih =>
    intro st L r hL hO hA hlen hfuel
    rw [visLoop_succ]
    have hl2 := hL.vinv.two_le hn
    have hsz : 0 < st.heap.size := by
      have := hL.perm.length_eq
      simp at this; omega
    rw [if_neg (by omega)]
    obtain ⟨pv, pi, pp, pc⟩ := hL.vinv.pop hL.hidx hL.perm hsz
    obtain ⟨pO, pmin⟩ := pop_ord st ⟨hL.hidx, hO⟩ hsz
    obtain ⟨-, -, -, parea⟩ := pop_idx st hL.hidx hsz
    split_ifs with htest
    · exact ⟨_, rfl⟩
    · simp only [Bool.or_eq_true, decide_eq_true_eq, not_or] at htest
      have hl3 : 3 ≤ L.length := by omega
      -- an interior item exists and has a finite area, so the popped minimum is finite too
      have hb : L[1]? = some L[1] := List.getElem?_eq_getElem (by omega)
      have hbL : L[1] ∈ L := List.mem_iff_getElem?.2 ⟨1, hb⟩
      have hb0 : L[1] ≠ 0 := by
        intro e; rw [e] at hb
        have := hL.vinv.inj hb hL.vinv.head; omega
      have hbn : L[1] ≠ n - 1 := by
        intro e; rw [e] at hb
        have := hL.vinv.inj hb hL.vinv.last; omega
      have hbarea : st.area L[1] ≠ none := fun e => by
        rcases (hA _ hbL).1 e with h | h
        · exact hb0 h
        · exact hbn h
      have hcarea : st.area (pop st).1 ≠ none := by
        have := pmin L[1] (hL.perm.mem_iff.2 hbL)
        intro e
        rw [e] at this
        cases hx : st.area L[1] with
        | none => exact hbarea hx
        | some x => rw [hx] at this; simp [aLe] at this
      have hc0 : (pop st).1 ≠ 0 ∧ (pop st).1 ≠ n - 1 := by
        constructor
        · intro e; exact hcarea ((hA _ pc).2 (Or.inl e))
        · intro e; exact hcarea ((hA _ pc).2 (Or.inr e))
      obtain ⟨i, hi⟩ := List.mem_iff_getElem?.1 pc
      have hilt : i < L.length := by
        by_contra hc
        rw [List.getElem?_eq_none (by omega)] at hi; cases hi
      have hi0 : i ≠ 0 := by
        intro e; rw [e, hL.vinv.head] at hi
        exact hc0.1 (Option.some.inj hi).symm
      have hin : i ≠ L.length - 1 := by
        intro e; rw [e, hL.vinv.last] at hi
        exact hc0.2 (Option.some.inj hi).symm
      obtain ⟨i', rfl⟩ : ∃ i', i = i' + 1 := ⟨i - 1, by omega⟩
      have h0 : L[i']? = some L[i'] := List.getElem?_eq_getElem (by omega)
      have h2 : L[i'+2]? = some L[i'+2] := List.getElem?_eq_getElem (by omega)
      have hp := pv.prv i' _ _ h0 hi
      have hnx := pv.nxt (i'+1) _ _ hi h2
      rw [hp, hnx]
      simp only []
      obtain ⟨j, g0, g1, g2, hpH, hnH, hpn, hpc, hnc, hps, hns⟩ := pv.step_pre pp hp hnx
      obtain ⟨sv, si, sp, sl⟩ := pv.step ls pi pp hp hnx
      obtain ⟨-, -, -, -, -, -, s7, s8, s9⟩ := visStep_spec ls (pop st).2 (pop st).1 L[i'] L[i'+2] pi hpH hnH hpn hps hns
      have sO := visStep_ord ls (pop st).2 (pop st).1 L[i'] L[i'+2] ⟨pi, pO⟩ hpH hnH
      have hcs : ∃ c, ((pop st).2.get (pop st).1).area = some c := by
        have : ((pop st).2.get (pop st).1).area = st.area (pop st).1 := parea _
        rw [this]
        cases hx : st.area (pop st).1 with
        | none => exact absurd hx hcarea
        | some c => exact ⟨c, rfl⟩
      obtain ⟨c, hcs⟩ := hcs
      refine ih _ _ (r+1) ⟨sv, si, sp⟩ sO ?_ (by omega) (by omega)
      intro a ha
      have haL : a ∈ L := List.mem_of_mem_erase ha
      by_cases hap : a = L[i']
      · rw [hap]
        rcases s8 with e | ⟨e1, x, e2⟩
        · rw [e, parea]; rw [← hap]; exact hA a haL
        · rw [e2, hcs]
          simp only [aMax]
          constructor
          · intro h; cases h
          · rintro (h | h)
            · rw [h, pv.prev0] at e1; exact absurd rfl e1
            · rw [h] at h0
              have := hL.vinv.inj h0 hL.vinv.last; omega
      · by_cases han : a = L[i'+2]
        · rw [han]
          rcases s9 with e | ⟨e1, x, e2⟩
          · rw [e, parea]; rw [← han]; exact hA a haL
          · rw [e2, hcs]
            simp only [aMax]
            constructor
            · intro h; cases h
            · rintro (h | h)
              · rw [h] at h2
                have := hL.vinv.inj h2 hL.vinv.head; omega
              · rw [h, pv.nextn] at e1; exact absurd rfl e1
        · rw [s7 a hap han, parea]; exact hA a haL

end vtotal2
end Vis

section orderedField
variable {α : Type} [Field α] [LinearOrder α] [IsStrictOrderedRing α]

theorem push_heapInv' (st : VS α) (id : Nat) (h : HeapInv st) (hid : id < st.items.size) (hnew : id ∉ st.heap.toList) :
    HeapInv (push st id) ∧ (push st id).heap.toList.Perm (id :: st.heap.toList) ∧
      ∀ j, (push st id).area j = st.area j := by
  obtain ⟨hi, hp, _, ha⟩ := push_idx st id h.1 hid hnew
  exact ⟨⟨hi, push_ord st id h hid hnew⟩, hp, ha⟩

theorem pop_heapInv' (st : VS α) (h : HeapInv st) (hne : 0 < st.heap.size) :
    HeapInv (pop st).2 ∧ st.heap.toList.Perm ((pop st).1 :: (pop st).2.heap.toList) ∧
      (∀ j, (pop st).2.area j = st.area j) ∧
      ∀ id ∈ st.heap.toList, aLe (st.area (pop st).1) (st.area id) = true := by
  obtain ⟨hi, hp, _, ha⟩ := pop_idx st h.1 hne
  obtain ⟨ho, hm⟩ := pop_ord st h hne
  exact ⟨⟨hi, ho⟩, hp, ha, hm⟩

theorem update_heapInv' (st : VS α) (id : Nat) (a : Option α) (h : HeapInv st) (hin : id ∈ st.heap.toList) :
    HeapInv (update st id a) ∧ (update st id a).heap.toList.Perm st.heap.toList ∧
      (update st id a).area id = a ∧ ∀ j, j ≠ id → (update st id a).area j = st.area j := by
  obtain ⟨hi, hp, _, ha, hb⟩ := update_idx st id a h.1 hin
  exact ⟨⟨hi, update_ord st id a h hin⟩, hp, ha, hb⟩

theorem vis_total' (thr : Option α) (toKeep : Nat) (hk : toKeep = 0 ∨ 2 ≤ toKeep) (ls : List (Pt α)) (area : Bool) :
    ∃ out, visSimplify thr toKeep ls area = .ok out := by
  unfold visSimplify
  simp only []
  split_ifs with h1 h2
  · exact ⟨_, rfl⟩
  · exact ⟨_, rfl⟩
  · have hk2 : 2 ≤ visToKeep toKeep ls area := by
      rcases hk with rfl | hk
      · unfold visToKeep visDefaultClosedRing visDefaultOpenRing visDefaultLine
        simp only []
        split_ifs <;> omega
      · unfold visToKeep
        simp only []
        rw [if_neg (by omega)]; exact hk
    have hn : 2 ≤ ls.length := by omega
    obtain ⟨hL, hO, hA⟩ := Vis.visInit_total ls hn
    obtain ⟨st', hst'⟩ := Vis.visLoop_total ls (thr.map (· * 2)) _ hk2 hn rfl (ls.length + 1) _ _ 0 hL hO hA
      (by simp) (by simp)
    unfold visKept
    simp only []
    rw [hst']
    exact ⟨_, rfl⟩

theorem vis_nested' (thr₁ thr₂ : Option α) (k₁ k₂ : Nat) (ls o₁ o₂ : List (Pt α)) (area : Bool)
    (ht : aLe thr₁ thr₂ = true) (hk : visToKeep k₂ ls area ≤ visToKeep k₁ ls area)
    (h₁ : visSimplify thr₁ k₁ ls area = .ok o₁) (h₂ : visSimplify thr₂ k₂ ls area = .ok o₂) :
    o₂.Sublist o₁ := by
  refine Vis.visSimplify_nested thr₁ thr₂ k₁ k₂ ls o₁ o₂ area ?_ hk h₁ h₂
  intro a ha
  cases thr₂ with
  | none => simp [aLt] at ha
  | some t2 =>
    cases thr₁ with
    | none => simp [aLe] at ht
    | some t1 =>
      cases a with
      | none => simp [aLt]
      | some x =>
        simp only [aLe, aLt, Option.map_some, decide_eq_true_eq] at ht ha ⊢
        linarith

end orderedField

end Orb.Simplify
