/-
  C16 — "a ring wholly outside the box yields nothing", at full strength.

  `ring_outside_nil` (OrbProofs/C16.lean) covers only rings lying in ONE closed outer half-plane of
  the box.  Here the hypothesis is the geometric one: no edge of the (implicitly closed) ring meets
  the OPEN box (`RingAvoidsOpenBox`).  An L-shaped ring round a corner, a ring with an edge lying
  along a box side from outside, a ring touching a corner or passing diagonally through one are all
  covered.

  The segment-level truth (`segLoop_avoid`): for a segment that avoids the open box the open-mode
  Cohen–Sutherland loop does NOT always answer `.reject` — a segment passing through a corner with
  its two ends beyond two different edges (box [0,4]², (-1,1)–(1,-1)) is ACCEPTED as the zero-length
  piece `[(0,0),(0,0)]` (`segLoop_corner_accept_witness`, `line_corner_touch_witness`).  What is true
  is: it is rejected, or accepted as a zero-length piece `[p, p]` with `p` on the boundary.  (A segment
  lying along a side, or touching a side in one point, IS rejected: both ends then carry the open
  code bit of that side.)  `clipRings` drops exactly these zero-length boundary touches
  (`partitionPieces`), so the ring-level statement holds with no extra hypothesis.
-/
import OrbProofs.C16Lemmas
import Mathlib.Algebra.Order.Field.Rat

set_option linter.unusedSectionVars false
set_option linter.unusedVariables false

namespace Orb.SmartClip
open Orb Orb.Core
open Orb.Clip (segLoop segLoopU Seg lineStep lineStepU lineLoop LineSt push)
open Orb.SmartClip.LE

variable {α : Type} [Field α] [LinearOrder α] [IsStrictOrderedRing α]

/-! ### the hypothesis -/

/-- no point of the closed segment `a b` lies strictly inside the box -/
def SegAvoidsOpenBox (box : Bound α) (a b : Pt α) : Prop :=
  ∀ t : α, 0 ≤ t → t ≤ 1 → ¬ InOpenBox box ⟨a.x + t * (b.x - a.x), a.y + t * (b.y - a.y)⟩

/-- no edge of the implicitly closed ring meets the open box: every pair of consecutive vertices of
    `r` followed by its first vertex (so that the closing edge `smartclip` may add itself is covered;
    for an explicitly closed ring that extra edge is the degenerate one `(f, f)`) -/
def RingAvoidsOpenBox (box : Bound α) (r : List (Pt α)) : Prop :=
  List.IsChain (SegAvoidsOpenBox box) (r ++ r.head?.toList)

/-- the same, spelled with `zip`: the pairs `(l[i], l[i+1])` of `l = r ++ [first vertex]` -/
theorem ringAvoidsOpenBox_iff_zip (box : Bound α) (r : List (Pt α)) :
    RingAvoidsOpenBox box r ↔
      ∀ a b, (a, b) ∈ (r ++ r.head?.toList).zip ((r ++ r.head?.toList).drop 1) → SegAvoidsOpenBox box a b := by
  unfold RingAvoidsOpenBox
  generalize r ++ r.head?.toList = l
  induction l with
  | nil => simp
  | cons a t ih =>
    cases t with
    | nil => simp
    | cons b t =>
      rw [List.isChain_cons_cons, ih]
      simp only [List.drop_one, List.tail_cons, List.zip_cons_cons, List.mem_cons, Prod.mk.injEq]
      constructor
      · rintro ⟨h1, h2⟩ x y (⟨rfl, rfl⟩ | h)
        · exact h1
        · exact h2 x y h
      · intro h
        exact ⟨h a b (Or.inl ⟨rfl, rfl⟩), fun x y hxy => h x y (Or.inr hxy)⟩

theorem SegAvoidsOpenBox.lerp {box : Bound α} {a b : Pt α} (h : SegAvoidsOpenBox box a b) (t : α)
    (h0 : 0 ≤ t) (h1 : t ≤ 1) : ¬ InOpenBox box (lerp a b t) := h t h0 h1

theorem SegAvoidsOpenBox.left {box : Bound α} {a b : Pt α} (h : SegAvoidsOpenBox box a b) :
    ¬ InOpenBox box a := by
  have := h.lerp 0 le_rfl zero_le_one
  rwa [lerp_zero] at this

theorem SegAvoidsOpenBox.right {box : Bound α} {a b : Pt α} (h : SegAvoidsOpenBox box a b) :
    ¬ InOpenBox box b := by
  have := h.lerp 1 zero_le_one le_rfl
  rwa [lerp_one] at this

/-! ### one segment -/

/-- THE SEGMENT LEMMA, on the inner loop without the rounding guards (`segLoopU`, the loop C16Line
    reasons about; `segLoop_avoid` below is the same for the model's own call).
    For a segment that avoids the open box the open-mode inner loop either rejects
    it or accepts a zero-length piece on the boundary (a corner the segment passes through); it never
    gets stuck.  (`.reject` alone is false: `segLoop_corner_accept_witness`.) -/
theorem segLoopU_avoid {box : Bound α} (hb : BoxOK box) (a b : Pt α) (h : SegAvoidsOpenBox box a b) :
    (match segLoopU box 8 a b (Clip.bitCodeOpen box a) (Clip.bitCodeOpen box b) with
     | .accept a' b' c => c = 0 ∧ a' = b' ∧ OnBoundary box a'
     | .reject => True
     | .stuck => False) := by
  have hWA := W_bitCodeOpen hb a
  have hWB := W_bitCodeOpen hb b
  have key := segLoop_spec hb False 8 a b _ _ hWA hWB (fun h => h.elim) (mu_lt_eight hWA.1 hWB.1)
  have hop := segLoop_open hb a b (Clip.bitCodeOpen box a) rfl
  have hcA : Clip.bitCodeOpen box a ≠ 0 := fun h0 => h.left (inOpen_of_code_zero h0)
  by_cases hand : Clip.bitCodeOpen box a &&& Clip.bitCodeOpen box b = 0
  swap
  · obtain ⟨k, hkm, hkA, hkB⟩ := bits_common _ hWA.1 _ hWB.1 hand
    rw [segLoop_reject_common hWA.1 hWB.1 (edge_of_mem hkm) hkA hkB 7 a b]
    trivial
  generalize segLoopU box 8 a b (Clip.bitCodeOpen box a) (Clip.bitCodeOpen box b) = r at key hop
  cases r with
  | reject => trivial
  | stuck => exact key
  | accept a' b' c =>
    obtain ⟨hc, hia, hib, ⟨s, hs0, hs1, rfl⟩, ⟨e, he0, he1, rfl⟩, _, _, _⟩ := key
    have hbd : OnBoundary box (lerp a b s) := hop.2.2.2.2.1 hcA
    refine ⟨hc, ?_, hbd⟩
    -- the midpoint of the accepted piece is in the closed box but not in the open box
    have hm := h.lerp ((s + e) / 2) (by linarith) (by linarith)
    rw [inOpenBox_iff] at hm
    push Not at hm
    obtain ⟨k, hk, hkm⟩ := hm
    have h1 := inBox_iff.1 hia k hk
    have h2 := inBox_iff.1 hib k hk
    rw [exc_lerp] at h1 h2 hkm
    by_contra hne
    have hse : s ≠ e := fun h' => hne (by rw [h'])
    have e1 : (1 - s) * exc box k a + s * exc box k b = 0 := by linarith
    have e2 : (1 - e) * exc box k a + e * exc box k b = 0 := by linarith
    have hprod : (e - s) * (exc box k b - exc box k a) = 0 := by linarith
    have hBA : exc box k b = exc box k a := by
      rcases mul_eq_zero.1 hprod with h' | h'
      · exact absurd (sub_eq_zero.1 h').symm hse
      · exact sub_eq_zero.1 h'
    have hA0 : exc box k a = 0 := by rw [hBA] at e1; linarith
    have hB0 : exc box k b = 0 := hBA.trans hA0
    -- then both ends lie on the line of edge `k`, and the segment was rejected at once
    have bA := (bitCodeOpen_bit hb a hk).2 (le_of_eq hA0.symm)
    have bB := (bitCodeOpen_bit hb b hk).2 (le_of_eq hB0.symm)
    exact bits_common' _ hWA.1 _ hWB.1 k hk.mem bA bB hand

/-- over an ordered field the rounding guards of the model's inner loop (clip counters, clamp, the
    own-intersection arm of the open bound) change nothing: the call `lineStep` makes in open mode is
    the loop without the guards (C07 `Clip.segLoop_eq_segLoopU`) -/
theorem segLoop_open_eq_U {box : Bound α} (hb : BoxOK box) (a b : Pt α) :
    segLoop box true 8 a b (Clip.bitCodeOpen box a) (Clip.bitCodeOpen box b) 0 0 =
      segLoopU box 8 a b (Clip.bitCodeOpen box a) (Clip.bitCodeOpen box b) :=
  Clip.segLoop_eq_segLoopU (box := box) hb true (Clip.W_code hb true a) (Clip.W_code hb true b)
    (Clip.bitCount_code_le box true a) (Clip.bitCount_code_le box true b) (fun _ => ⟨rfl, rfl⟩) 8

/-- THE SEGMENT LEMMA for the model's own call (`lineStep` in open mode) -/
theorem segLoop_avoid {box : Bound α} (hb : BoxOK box) (a b : Pt α) (h : SegAvoidsOpenBox box a b) :
    (match segLoop box true 8 a b (Clip.bitCodeOpen box a) (Clip.bitCodeOpen box b) 0 0 with
     | .accept a' b' c => c = 0 ∧ a' = b' ∧ OnBoundary box a'
     | .reject => True
     | .stuck => False) := by
  rw [segLoop_open_eq_U hb]
  exact segLoopU_avoid hb a b h

/-! ### the open-bound line clipper on a chain that avoids the open box -/

/-- a zero-length piece on the boundary -/
def Touch (box : Bound α) (ls : List (Pt α)) : Prop := ∃ p, ls = [p, p] ∧ OnBoundary box p

theorem lineLoop_avoid {box : Bound α} (hb : BoxOK box) :
    ∀ (rest : List (Pt α)) (a : Pt α) (out : List (List (Pt α))),
      List.IsChain (SegAvoidsOpenBox box) (a :: rest) → (∀ ls ∈ out, Touch box ls) →
      ∃ out' l c, lineLoop box true ⟨out, out.length, Clip.bitCodeOpen box a, false⟩ (a :: rest) =
          ⟨out', l, c, false⟩ ∧ ∀ ls ∈ out', Touch box ls := by
  intro rest
  induction rest with
  | nil => intro a out _ ho; exact ⟨out, _, _, lineLoop_single _ _ _ _, ho⟩
  | cons b rest ih =>
    intro a out hch ho
    rw [List.isChain_cons_cons] at hch
    obtain ⟨hab, hch⟩ := hch
    have hseg := segLoopU_avoid hb a b hab
    have hE : Clip.bitCodeOpen box b ≠ 0 := fun h0 => hab.right (inOpen_of_code_zero h0)
    rw [lineLoop_cons_cons,
      lineStep_eq_U hb (st := ⟨out, out.length, Clip.bitCodeOpen box a, false⟩) (a := a) b _ rfl]
    cases hr : segLoopU box 8 a b (Clip.bitCodeOpen box a) (Clip.bitCodeOpen box b) with
    | reject =>
      rw [lineStep_reject (st := ⟨out, out.length, Clip.bitCodeOpen box a, false⟩) _ hr]
      exact ih b out hch ho
    | stuck => rw [hr] at hseg; exact hseg.elim
    | accept a' b' c =>
      rw [hr] at hseg
      obtain ⟨hc, hab', hbd⟩ := hseg
      subst hc
      have ht : ∀ ls ∈ out ++ [[a', b']], Touch box ls := by
        intro ls hls
        rcases List.mem_append.1 hls with h | h
        · exact ho ls h
        · rw [List.mem_singleton] at h
          exact ⟨a', by rw [h, ← hab'], hbd⟩
      have hp : push (push out out.length a') out.length b' = out ++ [[a', b']] := by
        rw [push_new, push_open]; rfl
      rw [lineStep_accept_out (st := ⟨out, out.length, Clip.bitCodeOpen box a, false⟩) _ hr hE]
      show ∃ out' l c, lineLoop box true
          ⟨push (push out out.length a') out.length b',
            if rest.isEmpty = true then out.length else out.length + 1, Clip.bitCodeOpen box b, false⟩
          (b :: rest) = ⟨out', l, c, false⟩ ∧ ∀ ls ∈ out', Touch box ls
      rw [hp]
      cases rest with
      | nil => exact ⟨_, _, _, lineLoop_single _ _ _ _, ht⟩
      | cons c rest =>
        simp only [List.isEmpty_cons, Bool.false_eq_true, if_false]
        have := ih b (out ++ [[a', b']]) hch ht
        simpa only [List.length_append, List.length_singleton] using this

/-- `Clip.line box true` on a chain none of whose edges meets the open box: only zero-length touches -/
theorem line_avoid {box : Bound α} (hb : BoxOK box) (inp : List (Pt α))
    (h : List.IsChain (SegAvoidsOpenBox box) inp) :
    ∃ out, Clip.line box true inp = some out ∧ ∀ ls ∈ out, Touch box ls := by
  cases inp with
  | nil => exact ⟨[], rfl, by simp⟩
  | cons p rest =>
    obtain ⟨out', l, c, hc, ht⟩ := lineLoop_avoid hb rest p [] h (by simp)
    have hc' : lineLoop box true ⟨[], 0, Clip.bitCodeOpen box p, false⟩ (p :: rest) = ⟨out', l, c, false⟩ := hc
    refine ⟨out', ?_, ht⟩
    show (if (lineLoop box true ⟨[], 0, Clip.bitCodeOpen box p, false⟩ (p :: rest)).stuck = true then none
        else some (lineLoop box true ⟨[], 0, Clip.bitCodeOpen box p, false⟩ (p :: rest)).out) = _
    rw [hc']; rfl

/-! ### clipRings -/

theorem isChain_of_append {β : Type} {R : β → β → Prop} :
    ∀ (l m : List β), List.IsChain R (l ++ m) → List.IsChain R l
  | [], _, _ => .nil
  | [a], _, _ => .singleton a
  | a :: b :: l, m, h => by
    rw [List.cons_append, List.cons_append, List.isChain_cons_cons] at h
    exact .cons_cons h.1 (isChain_of_append (b :: l) m h.2)

theorem clipOne_avoid {box : Bound α} (hb : BoxOK box) (r : List (Pt α)) (h : RingAvoidsOpenBox box r) :
    ∃ out, clipOne box r = .ok out ∧ ∀ ls ∈ out, Touch box ls := by
  rw [clipOne_eq]
  split_ifs with hr
  · exact ⟨[], rfl, by simp⟩
  · have hne : r ≠ [] := by simpa using hr
    obtain ⟨r', f, l, h1, hf, hl, h4, _⟩ := closing_spec box r hne
    have hch : List.IsChain (SegAvoidsOpenBox box) r' := by
      rcases h4 with h4 | ⟨hrf, h4⟩
      · rw [h4]; exact isChain_of_append _ _ h
      · unfold RingAvoidsOpenBox at h
        rw [hrf] at h
        rw [h4]; exact h
    obtain ⟨out, hline, ht⟩ := line_avoid hb r' hch
    refine ⟨out, ?_, ht⟩
    rw [h1, resD_ok_bind]
    unfold clipTailD
    rw [hline]
    cases out with
    | nil => rfl
    | cons p0 rest =>
      simp only [hf, hl]
      split_ifs
      · exact joinOuter_all_boundary box _ (fun ls hls => by
          obtain ⟨p, rfl, hp⟩ := ht ls hls
          exact ⟨p, rfl, onBoundary_of_onD box p hp⟩)
      · rfl

theorem clipAll_avoid {box : Bound α} (hb : BoxOK box) (rings : List (List (Pt α)))
    (h : ∀ r ∈ rings, RingAvoidsOpenBox box r) :
    ∃ all, clipAll box rings = .ok all ∧ ∀ ls ∈ all, Touch box ls := by
  induction rings with
  | nil => exact ⟨[], rfl, by simp⟩
  | cons r rest ih =>
    obtain ⟨a, ha1, ha2⟩ := clipOne_avoid hb r (h r List.mem_cons_self)
    obtain ⟨b, hb1, hb2⟩ := ih (fun x hx => h x (List.mem_cons_of_mem _ hx))
    refine ⟨a ++ b, by simp [clipAll, ha1, hb1], ?_⟩
    intro ls hls
    rcases List.mem_append.1 hls with h' | h'
    · exact ha2 ls h'
    · exact hb2 ls h'

/-- the final partition drops zero-length boundary touches -/
theorem partition_touch (box : Bound α) (all : List (List (Pt α))) (h : ∀ ls ∈ all, Touch box ls) :
    partitionPieces box all = .ok ([], []) := by
  induction all with
  | nil => rfl
  | cons ls rest ih =>
    obtain ⟨p, rfl, hp⟩ := h _ List.mem_cons_self
    rw [partition_cons box [p, p] rest [] [] p p rfl rfl (ih fun x hx => h x (List.mem_cons_of_mem _ hx))]
    have : touchBD box [p, p] = true := by
      have hs := pointSide_onBoundary' box p hp
      simp only [touchBD, Bool.and_eq_true, ptEq_iffD, bne_iff_ne, ne_eq, true_and]
      rw [notOnSide]; omega
    rw [this]; rfl

/-- rings that avoid the open box leave `clipRings` nothing: no open piece, no interior ring -/
theorem clipRings_outside_nil (box : Bound α) (hb : BoxOK box) (rings : List (List (Pt α)))
    (h : ∀ r ∈ rings, RingAvoidsOpenBox box r) : clipRings box rings = .ok ([], []) := by
  obtain ⟨all, h1, h2⟩ := clipAll_avoid hb rings h
  simp [clipRings, h1, partition_touch box all h2]

/-! ### the headline -/

/-- A RING WHOLLY OUTSIDE YIELDS NOTHING, at full strength: if no edge of the implicitly closed ring
    meets the open box (edges along a side, corner touches, L-shapes round a corner … all allowed),
    `clipRings` returns no piece and `smartclip.Ring` returns nil, for any orientation argument. -/
theorem ring_outside_nil_strong (box : Bound α) (hb : BoxOK box) (r : List (Pt α)) (o : Int)
    (h : RingAvoidsOpenBox box r) : clipRings box [r] = .ok ([], []) ∧ ring box r o = .ok [] := by
  have hc : clipRings box [r] = .ok ([], []) :=
    clipRings_outside_nil box hb [r] (fun x hx => by rw [List.mem_singleton.1 hx]; exact h)
  refine ⟨hc, ?_⟩
  rw [ring_unfold]
  split_ifs
  · rfl
  · rw [hc]; rfl

/-- the same for `smartclip.Polygon`: every ring (outer and holes) avoids the open box -/
theorem polygon_outside_nil_strong (box : Bound α) (hb : BoxOK box) (p : List (List (Pt α))) (o : Int)
    (h : ∀ r ∈ p, RingAvoidsOpenBox box r) : polygon box p o = .ok [] := by
  rw [polygon_unfold]
  split_ifs
  · rfl
  · rw [clipRings_outside_nil box hb p h]; rfl

/-- … and for `smartclip.MultiPolygon`, where only the OUTER rings are looked at -/
theorem multiPolygon_outside_nil_strong (box : Bound α) (hb : BoxOK box) (mp : List (List (List (Pt α))))
    (o : Int) (h : ∀ r ∈ outerRings mp, RingAvoidsOpenBox box r) : multiPolygon box mp o = .ok [] := by
  rw [multiPolygon_unfold]
  split_ifs
  · rfl
  · rw [clipRings_outside_nil box hb _ h]; rfl

/-! ### sufficient conditions that can be checked vertex by vertex -/

/-- both ends of the segment in one closed outer half-plane of the box -/
def SegBeyondEdge (box : Bound α) (a b : Pt α) : Prop :=
  (a.x ≤ box.lo.x ∧ b.x ≤ box.lo.x) ∨ (box.hi.x ≤ a.x ∧ box.hi.x ≤ b.x) ∨
  (a.y ≤ box.lo.y ∧ b.y ≤ box.lo.y) ∨ (box.hi.y ≤ a.y ∧ box.hi.y ≤ b.y)

instance (box : Bound α) (a b : Pt α) : Decidable (SegBeyondEdge box a b) := by
  unfold SegBeyondEdge; infer_instance

theorem segAvoids_of_beyondEdge {box : Bound α} {a b : Pt α} (h : SegBeyondEdge box a b) :
    SegAvoidsOpenBox box a b := by
  intro t h0 h1 ⟨i1, i2, i3, i4⟩
  have h1' : 0 ≤ 1 - t := sub_nonneg.2 h1
  simp only at i1 i2 i3 i4
  rcases h with ⟨ha, hb⟩ | ⟨ha, hb⟩ | ⟨ha, hb⟩ | ⟨ha, hb⟩
  · nlinarith [mul_nonneg h0 (sub_nonneg.2 hb), mul_nonneg h1' (sub_nonneg.2 ha)]
  · nlinarith [mul_nonneg h0 (sub_nonneg.2 hb), mul_nonneg h1' (sub_nonneg.2 ha)]
  · nlinarith [mul_nonneg h0 (sub_nonneg.2 hb), mul_nonneg h1' (sub_nonneg.2 ha)]
  · nlinarith [mul_nonneg h0 (sub_nonneg.2 hb), mul_nonneg h1' (sub_nonneg.2 ha)]

/-- every edge of the implicitly closed ring lies beyond SOME box edge (which one may change from
    edge to edge: an L-shape round a corner qualifies) -/
def RingEdgesBeyond (box : Bound α) (r : List (Pt α)) : Prop :=
  List.IsChain (SegBeyondEdge box) (r ++ r.head?.toList)

instance (box : Bound α) (r : List (Pt α)) : Decidable (RingEdgesBeyond box r) := by
  unfold RingEdgesBeyond; infer_instance

theorem ringAvoids_of_edgesBeyond {box : Bound α} {r : List (Pt α)} (h : RingEdgesBeyond box r) :
    RingAvoidsOpenBox box r :=
  List.IsChain.imp (fun _ _ => segAvoids_of_beyondEdge) h

theorem isChain_of_forall_mem {β : Type} {R : β → β → Prop} :
    ∀ (l : List β), (∀ a ∈ l, ∀ b ∈ l, R a b) → List.IsChain R l
  | [], _ => .nil
  | [a], _ => .singleton a
  | a :: b :: l, h =>
    .cons_cons (h a List.mem_cons_self b (List.mem_cons_of_mem _ List.mem_cons_self))
      (isChain_of_forall_mem (b :: l) fun x hx y hy => h x (List.mem_cons_of_mem _ hx) y (List.mem_cons_of_mem _ hy))

/-- the hypothesis of the old `ring_outside_nil` (all vertices in ONE closed outer half-plane)
    implies the new one -/
theorem ringAvoids_of_halfplane {box : Bound α} {r : List (Pt α)}
    (h : (∀ v ∈ r, v.x ≤ box.lo.x) ∨ (∀ v ∈ r, box.hi.x ≤ v.x) ∨
         (∀ v ∈ r, v.y ≤ box.lo.y) ∨ (∀ v ∈ r, box.hi.y ≤ v.y)) : RingAvoidsOpenBox box r := by
  apply ringAvoids_of_edgesBeyond
  have hmem : ∀ v ∈ r ++ r.head?.toList, v ∈ r := by
    intro v hv
    rcases List.mem_append.1 hv with hv | hv
    · exact hv
    · cases r with
      | nil => simp at hv
      | cons f t =>
        simp only [List.head?_cons, Option.toList_some, List.mem_singleton] at hv
        rw [hv]; exact List.mem_cons_self
  apply isChain_of_forall_mem
  intro a ha b hb
  rcases h with h | h | h | h
  · exact Or.inl ⟨h a (hmem a ha), h b (hmem b hb)⟩
  · exact Or.inr (Or.inl ⟨h a (hmem a ha), h b (hmem b hb)⟩)
  · exact Or.inr (Or.inr (Or.inl ⟨h a (hmem a ha), h b (hmem b hb)⟩))
  · exact Or.inr (Or.inr (Or.inr ⟨h a (hmem a ha), h b (hmem b hb)⟩))

/-- every edge beyond some box edge ⟹ nothing (decidable hypothesis) -/
theorem ring_outside_nil_edges (box : Bound α) (hb : BoxOK box) (r : List (Pt α)) (o : Int)
    (h : RingEdgesBeyond box r) : clipRings box [r] = .ok ([], []) ∧ ring box r o = .ok [] :=
  ring_outside_nil_strong box hb r o (ringAvoids_of_edgesBeyond h)

/-- the old theorem `ring_outside_nil`, recovered from the strong one -/
theorem ring_outside_nil_of_strong (box : Bound α) (hb : BoxOK box) (r : List (Pt α)) (o : Int)
    (h : (∀ v ∈ r, v.x ≤ box.lo.x) ∨ (∀ v ∈ r, box.hi.x ≤ v.x) ∨
         (∀ v ∈ r, v.y ≤ box.lo.y) ∨ (∀ v ∈ r, box.hi.y ≤ v.y)) : ring box r o = .ok [] :=
  (ring_outside_nil_strong box hb r o (ringAvoids_of_halfplane h)).2

/-! ### witnesses over ℚ -/

/-- `.reject` alone is FALSE at the segment level: box [0,4]², the segment (-1,1)–(1,-1) avoids the
    open box (it passes through the corner (0,0)) and is accepted as a zero-length piece -/
theorem segLoop_corner_accept_witness :
    segLoop (⟨⟨0, 0⟩, ⟨4, 4⟩⟩ : Bound ℚ) true 8 ⟨-1, 1⟩ ⟨1, -1⟩
      (Clip.bitCodeOpen (⟨⟨0, 0⟩, ⟨4, 4⟩⟩ : Bound ℚ) ⟨-1, 1⟩)
      (Clip.bitCodeOpen (⟨⟨0, 0⟩, ⟨4, 4⟩⟩ : Bound ℚ) ⟨1, -1⟩) 0 0 = .accept ⟨0, 0⟩ ⟨0, 0⟩ 0 := by
  with_unfolding_all rfl

theorem segLoop_corner_accept_avoids :
    SegAvoidsOpenBox (⟨⟨0, 0⟩, ⟨4, 4⟩⟩ : Bound ℚ) ⟨-1, 1⟩ ⟨1, -1⟩ := by
  intro t h0 h1 ⟨i1, i2, i3, i4⟩
  simp only at i1 i3
  linarith

/-- the line clipper keeps that touch as a piece; `clipRings` drops it -/
theorem line_corner_touch_witness :
    Clip.line (⟨⟨0, 0⟩, ⟨4, 4⟩⟩ : Bound ℚ) true [⟨-1, 1⟩, ⟨1, -1⟩, ⟨-3, -3⟩, ⟨-1, 1⟩] =
      some [[⟨0, 0⟩, ⟨0, 0⟩]] ∧
    clipRings (⟨⟨0, 0⟩, ⟨4, 4⟩⟩ : Bound ℚ) [[⟨-1, 1⟩, ⟨1, -1⟩, ⟨-3, -3⟩, ⟨-1, 1⟩]] = .ok ([], []) := by
  exact ⟨by with_unfolding_all rfl, by with_unfolding_all rfl⟩

/-- the L-shaped ring round the corner (4,4) of the box [0,4]²: no single half-plane holds it, every
    edge lies beyond some box edge -/
theorem ring_L_shape_witness (o : Int) :
    clipRings (⟨⟨0, 0⟩, ⟨4, 4⟩⟩ : Bound ℚ)
      [[⟨5, -1⟩, ⟨5, 5⟩, ⟨-1, 5⟩, ⟨-1, 6⟩, ⟨6, 6⟩, ⟨6, -1⟩, ⟨5, -1⟩]] = .ok ([], []) ∧
    ring (⟨⟨0, 0⟩, ⟨4, 4⟩⟩ : Bound ℚ)
      [⟨5, -1⟩, ⟨5, 5⟩, ⟨-1, 5⟩, ⟨-1, 6⟩, ⟨6, 6⟩, ⟨6, -1⟩, ⟨5, -1⟩] o = .ok [] :=
  ring_outside_nil_edges _ ⟨by norm_num, by norm_num⟩ _ o (by decide)

/-- a ring with an edge lying along the bottom side of the box, from outside -/
example (o : Int) : ring (⟨⟨0, 0⟩, ⟨4, 4⟩⟩ : Bound ℚ) [⟨0, 0⟩, ⟨4, 0⟩, ⟨4, -2⟩, ⟨0, -2⟩, ⟨0, 0⟩] o = .ok [] :=
  (ring_outside_nil_edges _ ⟨by norm_num, by norm_num⟩ _ o (by decide)).2

/-- a ring with an edge passing diagonally through a corner (not beyond any single box edge) -/
example (o : Int) : ring (⟨⟨0, 0⟩, ⟨4, 4⟩⟩ : Bound ℚ) [⟨-1, 1⟩, ⟨1, -1⟩, ⟨-3, -3⟩, ⟨-1, 1⟩] o = .ok [] := by
  refine (ring_outside_nil_strong _ ⟨by norm_num, by norm_num⟩ _ o ?_).2
  refine .cons_cons segLoop_corner_accept_avoids (.cons_cons (segAvoids_of_beyondEdge (by decide))
    (.cons_cons (segAvoids_of_beyondEdge (by decide)) (.cons_cons (segAvoids_of_beyondEdge (by decide))
      (.singleton _))))

/-- the L-shaped ring, evaluated by the kernel -/
example : ring (⟨⟨0, 0⟩, ⟨4, 4⟩⟩ : Bound ℚ)
    [⟨5, -1⟩, ⟨5, 5⟩, ⟨-1, 5⟩, ⟨-1, 6⟩, ⟨6, 6⟩, ⟨6, -1⟩, ⟨5, -1⟩] CCW = .ok [] := by
  with_unfolding_all rfl

end Orb.SmartClip
