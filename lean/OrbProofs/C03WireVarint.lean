/-
  C03 wire lemmas, part 1: the primitives of `Orb.ProtoWire` — base-128 varints, zigzag of
  sint64, two's complement, field keys, fixed-width little-endian values, strings.
-/
import Orb.ProtoWire

namespace Orb.ProtoWire
open Orb Orb.MVT

/-! ### varints -/

theorem u8_toNat_ofNat (n : Nat) (h : n < 256) : (UInt8.ofNat n).toNat = n := by
  rw [UInt8.toNat_ofNat']; exact Nat.mod_eq_of_lt h

theorem u8_ge_80 (d : UInt8) : (d ≥ 0x80) ↔ 128 ≤ d.toNat := by
  show (0x80 : UInt8) ≤ d ↔ _
  rw [UInt8.le_iff_toNat_le]; rfl

theorem and_7f (n : Nat) : n &&& 0x7F = n % 128 := Nat.and_two_pow_sub_one_eq_mod n 7

/-- One round of the decoder in arithmetic form: the groups do not overlap. -/
theorem or_shift_eq_add (val g shift : Nat) (hv : val < 2^shift) :
    val ||| (g <<< shift) = val + g * 2^shift := by
  rw [Nat.or_comm, ← Nat.shiftLeft_add_eq_or_of_lt hv, Nat.shiftLeft_eq, Nat.add_comm]

theorem encodeVarintF_ne_nil (f v : Nat) : encodeVarintF (f+1) v ≠ [] := by
  unfold encodeVarintF; split <;> simp

theorem encodeVarintF_length_le (f v : Nat) : (encodeVarintF f v).length ≤ f := by
  induction f generalizing v with
  | zero => simp [encodeVarintF]
  | succ f ih =>
    unfold encodeVarintF
    split
    · simp
    · simp only [List.length_cons]; have := ih (v / 128); omega

/-- The encoder stops within its fuel: the fuel does not matter once it covers the value. -/
theorem encodeVarintF_fuel (f g v : Nat) (hf : v < 128^(f+1)) (hg : v < 128^(g+1)) :
    encodeVarintF (f+1) v = encodeVarintF (g+1) v := by
  induction f generalizing g v with
  | zero =>
    have : v < 128 := by simpa using hf
    unfold encodeVarintF; simp [this]
  | succ f ih =>
    unfold encodeVarintF
    by_cases hv : v < 128
    · simp [hv]
    · simp only [hv, if_false]
      cases g with
      | zero => exact absurd (by simpa using hg) hv
      | succ g =>
        congr 1
        apply ih
        · rw [Nat.pow_succ] at hf; omega
        · rw [Nat.pow_succ] at hg; omega

/-- The general round trip: decoder with accumulator `val` below `2^shift`, value `n` covered by
    both fuels, nothing shifted out of the accumulator. -/
theorem varintF_encodeVarintF (bits : Nat) (fd fe shift val n : Nat) (rest : Bytes)
    (hv : val < 2^shift) (hd : n < 128^(fd+1)) (he : n < 128^(fe+1))
    (hfit : val + n * 2^shift < 2^bits) :
    varintF bits (fd+1) shift val (encodeVarintF (fe+1) n ++ rest) = some (val + n * 2^shift, rest) := by
  induction fd generalizing fe shift val n with
  | zero =>
    have hn : n < 128 := by simpa using hd
    unfold encodeVarintF
    simp only [hn, if_true, List.singleton_append]
    unfold varintF
    have ht : (UInt8.ofNat n).toNat = n := u8_toNat_ofNat n (by omega)
    have hge : ¬ (UInt8.ofNat n ≥ 0x80) := by rw [u8_ge_80, ht]; omega
    simp only [hge, if_false, ht, and_7f, Nat.mod_eq_of_lt hn]
    have hlt : n <<< shift < 2^bits := by rw [Nat.shiftLeft_eq]; omega
    rw [Nat.mod_eq_of_lt hlt, or_shift_eq_add _ _ _ hv]
  | succ fd ih =>
    unfold encodeVarintF
    by_cases hn : n < 128
    · simp only [hn, if_true, List.singleton_append]
      unfold varintF
      have ht : (UInt8.ofNat n).toNat = n := u8_toNat_ofNat n (by omega)
      have hge : ¬ (UInt8.ofNat n ≥ 0x80) := by rw [u8_ge_80, ht]; omega
      simp only [hge, if_false, ht, and_7f, Nat.mod_eq_of_lt hn]
      have hlt : n <<< shift < 2^bits := by rw [Nat.shiftLeft_eq]; omega
      rw [Nat.mod_eq_of_lt hlt, or_shift_eq_add _ _ _ hv]
    · simp only [hn, if_false, List.cons_append]
      cases fe with
      | zero => exact absurd (by simpa using he) hn
      | succ fe =>
        unfold varintF
        have hb : n % 128 + 128 < 256 := by omega
        have ht : (UInt8.ofNat (n % 128 + 128)).toNat = n % 128 + 128 := u8_toNat_ofNat _ hb
        have hge : UInt8.ofNat (n % 128 + 128) ≥ 0x80 := by rw [u8_ge_80, ht]; omega
        simp only [hge, if_true, ht, and_7f]
        have hm : (n % 128 + 128) % 128 = n % 128 := by omega
        rw [hm]
        have hsplit : n * 2^shift = (n % 128) * 2^shift + (n / 128) * 2^(shift + 7) := by
          rw [Nat.pow_add]
          have h128 : (2:Nat)^7 = 128 := by decide
          rw [h128]
          have : n = n % 128 + n / 128 * 128 := by omega
          calc n * 2^shift = (n % 128 + n / 128 * 128) * 2^shift := by rw [← this]
            _ = _ := by rw [Nat.add_mul, Nat.mul_assoc, Nat.mul_comm 128]
        have hlt : (n % 128) <<< shift < 2^bits := by
          rw [Nat.shiftLeft_eq]; omega
        rw [Nat.mod_eq_of_lt hlt, or_shift_eq_add _ _ _ hv]
        have hv' : val + n % 128 * 2^shift < 2^(shift + 7) := by
          rw [Nat.pow_add]
          have h128 : (2:Nat)^7 = 128 := by decide
          rw [h128]
          have h1 : n % 128 * 2^shift ≤ 127 * 2^shift := Nat.mul_le_mul_right _ (by omega)
          omega
        rw [ih fe (shift + 7) (val + n % 128 * 2^shift) (n / 128) hv'
          (by rw [Nat.pow_succ] at hd; omega) (by rw [Nat.pow_succ] at he; omega) (by omega)]
        congr 2
        omega

theorem pow64_lt : (2:Nat)^64 ≤ 128^10 := by decide
theorem pow32_lt : (2:Nat)^32 ≤ 128^5 := by decide

/-- `varint64 (encodeVarint n ++ rest) = (n, rest)` for every uint64. -/
theorem varint64_encodeVarint (n : Nat) (rest : Bytes) (h : n < 2^64) :
    varint64 (encodeVarint n ++ rest) = some (n, rest) := by
  have h10 : n < 128^(9+1) := Nat.lt_of_lt_of_le h pow64_lt
  have := varintF_encodeVarintF 64 9 9 0 0 n rest (by decide) h10 h10 (by simpa using h)
  simpa [varint64, encodeVarint] using this

/-- … and the uint32 reader on a value below 2^32 (the encoder wrote at most five bytes). -/
theorem varint32_encodeVarint (n : Nat) (rest : Bytes) (h : n < 2^32) :
    varint32 (encodeVarint n ++ rest) = some (n, rest) := by
  have h5 : n < 128^(4+1) := Nat.lt_of_lt_of_le h pow32_lt
  have h10 : n < 128^(9+1) := Nat.lt_of_lt_of_le (Nat.lt_of_lt_of_le h (by decide)) pow64_lt
  have := varintF_encodeVarintF 32 4 9 0 0 n rest (by decide) h5 h10 (by simpa using h)
  simpa [varint32, encodeVarint] using this

theorem encodeVarint_length_le (n : Nat) : (encodeVarint n).length ≤ 10 :=
  encodeVarintF_length_le 10 n

theorem encodeVarint_ne_nil (n : Nat) : encodeVarint n ≠ [] := encodeVarintF_ne_nil 9 n

theorem encodeVarint_length_pos (n : Nat) : 0 < (encodeVarint n).length :=
  List.length_pos_iff.mpr (encodeVarint_ne_nil n)

/-- A value below 128 is one byte (all field keys of the tile are). -/
theorem encodeVarint_small (n : Nat) (h : n < 128) : encodeVarint n = [UInt8.ofNat n] := by
  simp [encodeVarint, encodeVarintF, h]

/-- The decoder only ever returns a strictly shorter rest. -/
theorem varintF_rest_lt (bits f shift val : Nat) (bs : Bytes) (v : Nat) (r : Bytes)
    (h : varintF bits f shift val bs = some (v, r)) : r.length < bs.length := by
  induction f generalizing shift val bs with
  | zero => simp [varintF] at h
  | succ f ih =>
    cases bs with
    | nil => simp [varintF] at h
    | cons d rest =>
      unfold varintF at h
      simp only at h
      split at h
      · have := ih _ _ _ h; simp only [List.length_cons]; omega
      · simp only [Option.some.injEq, Prod.mk.injEq] at h
        obtain ⟨_, h⟩ := h; subst h; simp

theorem varint64_rest_lt {bs : Bytes} {v : Nat} {r : Bytes} (h : varint64 bs = some (v, r)) :
    r.length < bs.length := varintF_rest_lt _ _ _ _ _ _ _ h

theorem varint32_rest_lt {bs : Bytes} {v : Nat} {r : Bytes} (h : varint32 bs = some (v, r)) :
    r.length < bs.length := varintF_rest_lt _ _ _ _ _ _ _ h

/-! ### zigzag of sint64 -/

theorem sshiftRight63_false (x : BitVec 64) (h : x.msb = false) : x.sshiftRight 63 = 0#64 := by
  ext i hi
  have hm : x[63] = false := by simpa [BitVec.msb_eq_getLsbD_last] using h
  rw [BitVec.getElem_sshiftRight]
  simp [h]
  intro h2
  have : i = 0 := by omega
  subst this; simpa using hm

theorem sshiftRight63_true (x : BitVec 64) (h : x.msb = true) : x.sshiftRight 63 = BitVec.allOnes 64 := by
  ext i hi
  have hm : x[63] = true := by simpa [BitVec.msb_eq_getLsbD_last] using h
  rw [BitVec.getElem_sshiftRight, BitVec.getElem_allOnes]
  simp [h]
  intro h2
  have : i = 0 := by omega
  subst this; simpa using hm

theorem bit0_shift63_zero : ((0#64 : BitVec 64) <<< 63).sshiftRight 63 = 0#64 := by decide
theorem bit0_shift63_one : ((1#64 : BitVec 64) <<< 63).sshiftRight 63 = BitVec.allOnes 64 := by decide

/-- `unZig64 ∘ zigzag = id` on all 2^64 values. -/
theorem zigzag64_roundtrip' (x : BitVec 64) : unzigzag64 (zigzag64 x) = x := by
  unfold unzigzag64 zigzag64
  cases h : x.msb
  · rw [sshiftRight63_false x h, BitVec.xor_zero]
    have hlt : x.toNat < 2^63 := by
      have := (BitVec.msb_eq_false_iff_two_mul_lt).1 h; omega
    have h1 : x <<< 1 &&& 1#64 = 0#64 := by
      apply BitVec.eq_of_toNat_eq
      simp [BitVec.toNat_and, Nat.and_one_is_mod, BitVec.toNat_shiftLeft, Nat.shiftLeft_eq]
    rw [h1, bit0_shift63_zero, BitVec.xor_zero]
    apply BitVec.eq_of_toNat_eq
    simp [BitVec.toNat_shiftLeft, Nat.shiftLeft_eq, Nat.shiftRight_eq_div_pow]
    omega
  · rw [sshiftRight63_true x h, BitVec.xor_allOnes]
    have hlt : 2^63 ≤ x.toNat := by
      have := (BitVec.msb_eq_true_iff_two_mul_ge).1 h; omega
    have h1 : ~~~(x <<< 1) &&& 1#64 = 1#64 := by
      apply BitVec.eq_of_toNat_eq
      simp [BitVec.toNat_and, Nat.and_one_is_mod, BitVec.toNat_shiftLeft, Nat.shiftLeft_eq]
      omega
    rw [h1, bit0_shift63_one, BitVec.xor_allOnes]
    apply BitVec.eq_of_toNat_eq
    simp [BitVec.toNat_shiftLeft, Nat.shiftLeft_eq, Nat.shiftRight_eq_div_pow]
    omega

/-- A sint64 value survives zigzag + varint. -/
theorem sint_roundtrip (v : Int) (h1 : -(2^63 : Int) ≤ v) (h2 : v < (2^63 : Int)) :
    (unzigzag64 (BitVec.ofNat 64 (zigzag64 (BitVec.ofInt 64 v)).toNat)).toInt = v := by
  rw [BitVec.ofNat_toNat, BitVec.setWidth_eq, zigzag64_roundtrip', BitVec.toInt_ofInt]
  rw [Int.bmod_eq_of_le] <;> omega

/-- An int64 value survives `uint64(·)` + varint + `int64(·)`. -/
theorem i64_roundtrip (v : Int) (h1 : -(2^63 : Int) ≤ v) (h2 : v < (2^63 : Int)) :
    i64OfNat (u64OfInt v) = v := by
  unfold i64OfNat u64OfInt
  rw [BitVec.ofNat_toNat, BitVec.setWidth_eq, BitVec.toInt_ofInt]
  rw [Int.bmod_eq_of_le] <;> omega

/-- An int32 value survives `uint64(·)` (sign extension) + varint + `int32(·)`. -/
theorem i32_roundtrip (v : Int) (h1 : -(2^31 : Int) ≤ v) (h2 : v < (2^31 : Int)) :
    i32OfNat (u64OfInt v) = v := by
  unfold i32OfNat u64OfInt
  have : BitVec.ofNat 32 (BitVec.ofInt 64 v).toNat = BitVec.ofInt 32 v := by
    apply BitVec.eq_of_toNat_eq
    simp only [BitVec.toNat_ofNat, BitVec.toNat_ofInt]
    have h : ((v % (2^64 : Nat) : Int).toNat : Int) = v % (2^64 : Nat) :=
      Int.toNat_of_nonneg (Int.emod_nonneg _ (by decide))
    have h' : ((v % (2^32 : Nat) : Int).toNat : Int) = v % (2^32 : Nat) :=
      Int.toNat_of_nonneg (Int.emod_nonneg _ (by decide))
    omega
  rw [this, BitVec.toInt_ofInt, Int.bmod_eq_of_le] <;> omega

theorem u64OfInt_lt (v : Int) : u64OfInt v < 2^64 := (BitVec.ofInt 64 v).isLt

/-! ### field keys -/

/-- `(field << 3) | wt` gives back the field number and the wire type. -/
theorem tag_roundtrip' (field wt : Nat) (h : wt < 8) :
    tag field wt >>> 3 = field ∧ tag field wt &&& 7 = wt := by
  unfold tag
  have hor : field <<< 3 ||| wt = field <<< 3 + wt :=
    (Nat.shiftLeft_add_eq_or_of_lt (i := 3) (by simpa using h) field).symm
  rw [hor, Nat.shiftLeft_eq, Nat.shiftRight_eq_div_pow]
  have h7 : (7 : Nat) = 2^3 - 1 := by decide
  rw [h7, Nat.and_two_pow_sub_one_eq_mod]
  constructor <;> omega

/-! ### fixed-width values -/

theorem fixed32_le32 (b : UInt32) (rest : Bytes) : fixed32 (le32 b ++ rest) = some (b, rest) := by
  have hb : b.toNat < 2^32 := b.toNat_lt
  simp only [le32, fixed32, List.cons_append, List.nil_append, Option.some.injEq, Prod.mk.injEq, and_true]
  rw [u8_toNat_ofNat _ (by omega), u8_toNat_ofNat _ (by omega), u8_toNat_ofNat _ (by omega),
    u8_toNat_ofNat _ (by omega)]
  have : b.toNat % 256 + b.toNat / 2^8 % 256 * 2^8 + b.toNat / 2^16 % 256 * 2^16 +
      b.toNat / 2^24 % 256 * 2^24 = b.toNat := by omega
  rw [this, UInt32.ofNat_toNat]

theorem fixed64_le64 (b : UInt64) (rest : Bytes) : fixed64 (le64 b ++ rest) = some (b, rest) := by
  have hb : b.toNat < 2^64 := b.toNat_lt
  simp only [le64, fixed64, List.cons_append, List.nil_append, Option.some.injEq, Prod.mk.injEq, and_true]
  rw [u8_toNat_ofNat _ (by omega), u8_toNat_ofNat _ (by omega), u8_toNat_ofNat _ (by omega),
    u8_toNat_ofNat _ (by omega), u8_toNat_ofNat _ (by omega), u8_toNat_ofNat _ (by omega),
    u8_toNat_ofNat _ (by omega), u8_toNat_ofNat _ (by omega)]
  have : b.toNat % 256 + b.toNat / 2^8 % 256 * 2^8 + b.toNat / 2^16 % 256 * 2^16 +
      b.toNat / 2^24 % 256 * 2^24 + b.toNat / 2^32 % 256 * 2^32 + b.toNat / 2^40 % 256 * 2^40 +
      b.toNat / 2^48 % 256 * 2^48 + b.toNat / 2^56 % 256 * 2^56 = b.toNat := by omega
  rw [this, UInt64.ofNat_toNat]

/-! ### strings -/

theorem ofUtf8_utf8 (s : String) : ofUtf8? (utf8 s) = some s := by
  unfold ofUtf8? utf8
  have h : (⟨s.toUTF8.data.toList.toArray⟩ : ByteArray) = s.toUTF8 := by
    rw [Array.toArray_toList]
  rw [h]
  simp [String.fromUTF8?, String.toUTF8, s.isValidUTF8]
  rfl

end Orb.ProtoWire
