/-
  C03 wire lemmas, part 4: every tile structure that `marshalVT` builds from Go-typed input
  holds numbers that fit the Go types of `vectortile.Tile` (`tileFits`), in particular on the
  quantifier of C03 (`mvtWF`).
-/
import Orb.ProtoWire

namespace Orb.ProtoWire
open Orb Orb.MVT

/-! ### ids -/

theorem convertIntID_lt (i : Int) (h : i < (2^63 : Int)) (n : Nat) (hn : convertIntID i = some n) : n < 2^64 := by
  unfold convertIntID at hn
  split at hn
  · simp at hn
  · simp only [Option.some.injEq] at hn; omega

theorem truncF_lt (b : UInt64) : truncF b < (2^63 : Int) := by
  unfold truncF
  split
  · decide
  · dsimp only
    split
    · decide
    · omega

theorem atoi_tail (c : Prop) [Decidable c] (v i : Int)
    (h : (if c then none else if v < -(2^63 : Int) ∨ v ≥ (2^63 : Int) then none else some v) = some i) :
    i < (2^63 : Int) := by
  split at h
  · simp at h
  · split at h
    · simp at h
    · simp only [Option.some.injEq] at h; omega

theorem atoi_lt (s : String) (i : Int) (h : atoi? s = some i) : i < (2^63 : Int) := by
  unfold atoi? at h
  dsimp only at h
  split at h <;> exact atoi_tail _ _ _ h

theorem convertID_lt (id : IdVal) (h : idFits id = true) (n : Nat) (hn : convertID id = some n) : n < 2^64 := by
  cases id with
  | none => simp [convertID] at hn
  | int v =>
    simp only [idFits, decide_eq_true_eq] at h
    exact convertIntID_lt v h n hn
  | uint v =>
    simp only [idFits, decide_eq_true_eq] at h
    simp only [convertID, Option.some.injEq] at hn; omega
  | flt b => exact convertIntID_lt _ (truncF_lt b) n hn
  | str s =>
    simp only [convertID] at hn
    split at hn
    · next i hi => exact convertIntID_lt _ (atoi_lt s i hi) n hn
    · simp at hn
  | other => simp [convertID] at hn

/-! ### geometry types -/

theorem map_ok_fst {α : Type} (r : R α) (f : α → Int × List W) (gt : Int) (ws : List W) (c : Int)
    (hf : ∀ a, (f a).1 = c) (h : r.map f = .ok (gt, ws)) : gt = c := by
  cases r with
  | ok a =>
    simp only [Res.map, Res.ok.injEq] at h
    have := hf a; rw [h] at this; exact this
  | err _ => simp [Res.map] at h
  | panic _ => simp [Res.map] at h

theorem encodeGeometry_gtype (g : Geom Int) (gt : Int) (ws : List W) (h : encodeGeometry g = .ok (gt, ws)) :
    gt = 1 ∨ gt = 2 ∨ gt = 3 := by
  cases g with
  | point p => simp only [encodeGeometry, Res.ok.injEq, Prod.mk.injEq] at h; left; exact h.1.symm
  | multiPoint ps => simp only [encodeGeometry, Res.ok.injEq, Prod.mk.injEq] at h; left; exact h.1.symm
  | lineString l => right; left; exact map_ok_fst _ _ _ _ tLineString (fun _ => rfl) h
  | multiLineString ls => right; left; exact map_ok_fst _ _ _ _ tLineString (fun _ => rfl) h
  | ring r => right; right; exact map_ok_fst _ _ _ _ tPolygon (fun _ => rfl) h
  | polygon rs => right; right; exact map_ok_fst _ _ _ _ tPolygon (fun _ => rfl) h
  | multiPolygon ps => right; right; exact map_ok_fst _ _ _ _ tPolygon (fun _ => rfl) h
  | collection gs => simp [encodeGeometry] at h
  | bound a b =>
    right; right
    simp only [encodeGeometry] at h
    exact map_ok_fst _ _ _ _ tPolygon (fun _ => rfl) h

/-! ### the value table -/

def ValsFit (e : KVE) : Prop := ∀ p ∈ e.vals, valueFits p.2 = true

theorem encodeValue_fits (v v' : PVal) (tv : TVal) (hv : pvalFits v = true) (hj : jsonStep v = .ok v')
    (he : MVT.encodeValue v' = .ok tv) : valueFits tv = true := by
  cases v <;> simp only [jsonStep, Res.ok.injEq] at hj <;> (try subst hj) <;>
    simp only [MVT.encodeValue, Res.ok.injEq] at he <;> (try subst he) <;>
    first
      | rfl
      | (simpa [pvalFits, valueFits] using hv)
      | (simp at hj)
      | (simp at he)

theorem KVE_key_vals (e : KVE) (s : String) : (e.key s).2.vals = e.vals := by
  unfold KVE.key; split <;> rfl

theorem KVE_value_fits (e e' : KVE) (v : PVal) (i : Nat) (hv : pvalFits v = true) (he : ValsFit e)
    (h : e.value v = .ok (i, e')) : ValsFit e' := by
  unfold KVE.value at h
  split at h
  · next v' hj =>
    split at h
    · simp only [Res.ok.injEq, Prod.mk.injEq] at h; rw [← h.2]; exact he
    · split at h
      · next tv hen =>
        simp only [Res.ok.injEq, Prod.mk.injEq] at h
        rw [← h.2]
        intro p hp
        simp only [List.mem_append, List.mem_singleton] at hp
        rcases hp with hp | hp
        · exact he p hp
        · subst hp; exact encodeValue_fits v v' tv hv hj hen
      · simp at h
      · simp at h
  · simp at h
  · simp at h

theorem lookupP_fits (ps : List (String × PVal)) (k : String) (h : ∀ p ∈ ps, pvalFits p.2 = true) :
    pvalFits (lookupP ps k) = true := by
  unfold lookupP
  split
  · next p hp => exact h p (List.mem_of_find?_eq_some hp)
  · rfl

theorem encodeTags_fits (ps : List (String × PVal)) (hps : ∀ p ∈ ps, pvalFits p.2 = true) (ks : List String) :
    ∀ (e e' : KVE) (ts : List W), ValsFit e → encodeTags ps e ks = .ok (ts, e') → ValsFit e' := by
  induction ks with
  | nil =>
    intro e e' ts he h
    simp only [encodeTags, Res.ok.injEq, Prod.mk.injEq] at h
    rw [← h.2]; exact he
  | cons k ks ih =>
    intro e e' ts he h
    simp only [encodeTags] at h
    split at h
    · next vi e2 hval =>
      have he2 : ValsFit e2 := by
        apply KVE_value_fits _ _ _ _ (lookupP_fits ps k hps) _ hval
        intro p hp; rw [KVE_key_vals] at hp; exact he p hp
      split at h
      · next ts' e3 hrec =>
        simp only [Res.ok.injEq, Prod.mk.injEq] at h
        rw [← h.2]; exact ih _ _ _ he2 hrec
      · simp at h
      · simp at h
    · simp at h
    · simp at h

/-! ### features, layers, tiles -/

def featIn (f : Feature) : Prop := idFits f.id = true ∧ ∀ p ∈ f.props, pvalFits p.2 = true

theorem addSingle_fits (fs fs' : List VTFeature) (e e' : KVE) (g : Geom Int) (props : List (String × PVal))
    (id : IdVal) (hid : idFits id = true) (hps : ∀ p ∈ props, pvalFits p.2 = true)
    (hfs : ∀ f ∈ fs, featureFits f = true) (he : ValsFit e)
    (h : addSingle fs e g props id = .ok (fs', e')) :
    (∀ f ∈ fs', featureFits f = true) ∧ ValsFit e' := by
  unfold addSingle at h
  split at h
  · next gt ws hg =>
    split at h
    · next tags e2 hp =>
      simp only [Res.ok.injEq, Prod.mk.injEq] at h
      obtain ⟨h1, h2⟩ := h
      subst h1 h2
      refine ⟨?_, encodeTags_fits props hps _ _ _ _ he hp⟩
      intro f hf
      simp only [List.mem_append, List.mem_singleton] at hf
      rcases hf with hf | hf
      · exact hfs f hf
      · subst hf
        have hgt := encodeGeometry_gtype g gt ws hg
        simp only [featureFits, Bool.and_eq_true, decide_eq_true_eq]
        constructor
        · cases hc : convertID id with
          | none => rfl
          | some n => simpa using convertID_lt id hid n hc
        · rcases hgt with h | h | h <;> subst h <;> decide
    · simp at h
    · simp at h
  · simp at h
  · simp at h

theorem addFeature_fits (fs fs' : List VTFeature) (e e' : KVE) (f : Feature) (hf : featIn f)
    (hfs : ∀ f ∈ fs, featureFits f = true) (he : ValsFit e)
    (h : addFeature fs e f = .ok (fs', e')) :
    (∀ f ∈ fs', featureFits f = true) ∧ ValsFit e' := by
  unfold addFeature at h
  split at h
  · simp only [Res.ok.injEq, Prod.mk.injEq] at h
    obtain ⟨h1, h2⟩ := h; subst h1 h2; exact ⟨hfs, he⟩
  · exact addSingle_fits _ _ _ _ _ _ _ hf.1 hf.2 hfs he h
  · exact addSingle_fits _ _ _ _ _ _ _ hf.1 hf.2 hfs he h

theorem addFeatures_fits (feats : List Feature) : ∀ (fs fs' : List VTFeature) (e e' : KVE),
    (∀ f ∈ feats, featIn f) → (∀ f ∈ fs, featureFits f = true) → ValsFit e →
    addFeatures fs e feats = .ok (fs', e') → (∀ f ∈ fs', featureFits f = true) ∧ ValsFit e' := by
  induction feats with
  | nil =>
    intro fs fs' e e' _ hfs he h
    simp only [addFeatures, Res.ok.injEq, Prod.mk.injEq] at h
    obtain ⟨h1, h2⟩ := h; subst h1 h2; exact ⟨hfs, he⟩
  | cons f feats ih =>
    intro fs fs' e e' hin hfs he h
    simp only [addFeatures] at h
    split at h
    · next fs2 e2 h2 =>
      obtain ⟨a, b⟩ := addFeature_fits _ _ _ _ f (hin f (by simp)) hfs he h2
      exact ih _ _ _ _ (fun q hq => hin q (by simp [hq])) a b h
    · simp at h
    · simp at h

theorem marshalLayer_fits (l : Layer) (v : VTLayer) (hv : l.version < 2^32) (hx : l.extent < 2^32)
    (hin : ∀ f ∈ l.features, featIn f) (h : marshalLayer l = .ok v) : layerFits v = true := by
  unfold marshalLayer at h
  split at h
  · next fs e hadd =>
    simp only [Res.ok.injEq] at h
    subst h
    obtain ⟨a, b⟩ := addFeatures_fits l.features [] fs KVE.empty e hin (by simp) (by intro p hp; simp [KVE.empty] at hp) hadd
    simp only [layerFits, Bool.and_eq_true, decide_eq_true_eq, List.all_eq_true]
    refine ⟨⟨⟨hv, hx⟩, ?_⟩, a⟩
    intro tv htv
    simp only [List.mem_map] at htv
    obtain ⟨p, hp, rfl⟩ := htv
    exact b p hp
  · simp at h
  · simp at h

/-- Go-typed input ⇒ Go-typed tile structure. -/
theorem marshalVT_tileFits' (ls : List Layer) (t : VTTile) (hin : inputFits ls = true)
    (h : marshalVT ls = .ok t) : tileFits t = true := by
  induction ls generalizing t with
  | nil =>
    simp only [marshalVT, Res.ok.injEq] at h; subst h; rfl
  | cons l ls ih =>
    simp only [inputFits, List.all_cons, Bool.and_eq_true, decide_eq_true_eq, List.all_eq_true] at hin
    obtain ⟨⟨⟨hv, hx⟩, hfs⟩, hrest⟩ := hin
    simp only [marshalVT] at h
    split at h
    · next v hl =>
      split at h
      · next vs hvs =>
        simp only [Res.ok.injEq] at h
        subst h
        have h1 : layerFits v = true :=
          marshalLayer_fits l v hv hx (fun f hf => ⟨(hfs f hf).1, fun p hp => (hfs f hf).2 p hp⟩) hl
        have h2 : tileFits vs = true := by
          apply ih vs _ hvs
          simp only [inputFits, List.all_eq_true, Bool.and_eq_true, decide_eq_true_eq]
          exact hrest
        simp only [tileFits, List.all_cons, Bool.and_eq_true] at h2 ⊢
        exact ⟨h1, h2⟩
      · simp at h
      · simp at h
    · simp at h
    · simp at h

/-- The quantifier of C03 is Go-typed input. -/
theorem mvtWF_inputFits (ls : List Layer) (h : mvtWF ls = true) : inputFits ls = true := by
  simp only [mvtWF, List.all_eq_true] at h
  simp only [inputFits, List.all_eq_true, Bool.and_eq_true, decide_eq_true_eq]
  intro l hl
  have hwf := h l hl
  simp only [layerWF, Bool.and_eq_true, Bool.or_eq_true, beq_iff_eq, decide_eq_true_eq, List.all_eq_true] at hwf
  obtain ⟨⟨⟨hver, hext⟩, hfeat⟩, _⟩ := hwf
  refine ⟨⟨by rcases hver with h | h <;> omega, hext⟩, ?_⟩
  intro f hf
  have hfw := hfeat f hf
  simp only [featureWF, Bool.and_eq_true, List.all_eq_true] at hfw
  obtain ⟨⟨⟨_, hid⟩, _⟩, hpv⟩ := hfw
  constructor
  · cases hi : f.id <;> simp only [hi, idWF, idFits, decide_eq_true_eq] at hid ⊢ <;> first | rfl | omega | (simp at hid)
  · intro p hp
    have := hpv p hp
    cases hpp : p.2 <;> simp only [hpp, pvalWF, pvalFits, decide_eq_true_eq] at this ⊢ <;> first | rfl | exact this | (simp at this)

end Orb.ProtoWire
