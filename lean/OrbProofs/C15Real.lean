/-
  C15 — NON-VACUITY over ℝ.  The theorems of OrbProofs.C15 about the mercator closed forms and the
  tile projection take named hypotheses on the opaque functions `sin log atan exp tan floor` of
  `MFn α`.  Here `MFn` is instantiated with Mathlib's real functions (`Real.sin`, `Real.log`,
  `Real.arctan`, `Real.exp`, `Real.tan`, `Int.floor`, exact constants), every one of those hypotheses
  is PROVED, and the conditional theorems become unconditional statements about the model over ℝ:

  * `real_merc_roundtrip_rev`   mercator → WGS84 → mercator is the identity on the whole band |y| ≤ Rπ;
  * `real_merc_roundtrip`       WGS84 → mercator → WGS84 is the identity for |lat| < 90 where the clamp is inactive;
  * `real_gudermannian`         the Gudermannian identity assumed by `planar_geo_roundtrip_partial`;
  * `real_clamp_inactive`       inside the world square (0 ≤ y ≤ maxtiles) the ±0.9999 clamp never fires
                                (tanh π = 0.9963 < 0.9999);
  * `real_tile_roundtrip`       hence, over ℝ, `newProjection` (BOTH paths, every extent, every level < 64)
                                returns exactly the same integers for every pixel whose centre lies in
                                the world square — `tile_roundtrip_full` with exact libm, away from the
                                polar buffer.  (With float64 libm the same statement is MEASURED.)
-/
import OrbProofs.C15
import Mathlib.Analysis.SpecialFunctions.Trigonometric.Arctan
import Mathlib.Analysis.SpecialFunctions.Log.Basic
import Mathlib.Analysis.Complex.ExponentialBounds

namespace Orb.Project
open Orb Orb.Core

/-- `MFn` with exact real functions and exact constants -/
noncomputable def realMFn : MFn ℝ where
  sin := Real.sin
  log := Real.log
  atan := Real.arctan
  exp := Real.exp
  tan := Real.tan
  floor := fun x => ((⌊x⌋ : ℤ) : ℝ)
  max := max
  min := min
  ofNat := fun n => (n : ℝ)
  pi := Real.pi
  twoPi := 2 * Real.pi
  piHalf := Real.pi / 2
  d180pi := 180 / Real.pi
  R := 6378137
  rPi := 6378137 * Real.pi
  rPi180 := 6378137 * Real.pi / 180
  c9999 := 9999 / 10000

theorem real_floor_spec : ∀ (x : ℝ) (n : ℤ), (n : ℝ) ≤ x → x < (n : ℝ) + 1 → realMFn.floor x = (n : ℝ) := by
  intro x n h1 h2
  show ((⌊x⌋ : ℤ) : ℝ) = n
  rw [Int.floor_eq_iff.2 ⟨h1, h2⟩]

theorem real_ofNat : ∀ n : Nat, realMFn.ofNat n = (n : ℝ) := fun _ => rfl

/-- mercator → WGS84 → mercator, all hypotheses of `merc_roundtrip_rev_partial` discharged -/
theorem real_merc_roundtrip_rev (p : Pt ℝ) (hy : -(6378137 * Real.pi) ≤ p.y ∧ p.y ≤ 6378137 * Real.pi) :
    wgs84ToMercator realMFn (mercatorToWGS84 realMFn p) = p := by
  apply merc_roundtrip_rev_partial realMFn p Real.pi_ne_zero (by norm_num [realMFn]) rfl rfl rfl rfl
    Real.tan_arctan Real.log_exp
  show max (-(6378137 * Real.pi)) (min p.y (6378137 * Real.pi)) = p.y
  rw [min_eq_left hy.2, max_eq_right hy.1]

/-- WGS84 → mercator → WGS84, all hypotheses of `merc_roundtrip_partial` discharged; the clamp is
    inactive exactly when the mercator y stays within ±Rπ -/
theorem real_merc_roundtrip (g : Pt ℝ) (hlat : -90 < g.y ∧ g.y < 90)
    (hy : -(6378137 * Real.pi) ≤ Real.log (Real.tan ((90 + g.y) * Real.pi / 360)) * 6378137 ∧
          Real.log (Real.tan ((90 + g.y) * Real.pi / 360)) * 6378137 ≤ 6378137 * Real.pi) :
    mercatorToWGS84 realMFn (wgs84ToMercator realMFn g) = g := by
  apply merc_roundtrip_partial realMFn g Real.pi_pos (by norm_num [realMFn]) rfl rfl rfl rfl
    (fun t ht => Real.exp_log ht)
    (fun θ h0 h1 => Real.tan_pos_of_pos_of_lt_pi_div_two h0 h1)
    (fun θ h0 h1 => Real.arctan_tan (by linarith [Real.pi_pos]) h1) hlat
  show max (-(6378137 * Real.pi)) (min (Real.log (Real.tan ((90 + g.y) * Real.pi / 360)) * 6378137) (6378137 * Real.pi))
    = Real.log (Real.tan ((90 + g.y) * Real.pi / 360)) * 6378137
  rw [min_eq_left hy.2, max_eq_right hy.1]

/-- a concrete point: the equator (the hypotheses of `real_merc_roundtrip` are satisfiable) -/
example : mercatorToWGS84 realMFn (wgs84ToMercator realMFn ⟨12, 0⟩) = ⟨12, 0⟩ := by
  apply real_merc_roundtrip ⟨12, 0⟩ (by norm_num)
  have h : (90 + (0 : ℝ)) * Real.pi / 360 = Real.pi / 4 := by ring
  simp only [h, Real.tan_pi_div_four, Real.log_one, zero_mul]
  constructor <;> nlinarith [Real.pi_pos]

/-- `sin(2·atan(eᵗ) − π/2) = (e²ᵗ − 1)/(e²ᵗ + 1)` (= tanh t) -/
theorem real_gd_sin (t : ℝ) :
    Real.sin (2 * Real.arctan (Real.exp t) - Real.pi / 2) = (Real.exp t ^ 2 - 1) / (Real.exp t ^ 2 + 1) := by
  have hpos : (0 : ℝ) < 1 + Real.exp t ^ 2 := by positivity
  rw [Real.sin_sub_pi_div_two, Real.cos_two_mul, Real.cos_sq_arctan]
  field_simp
  ring

/-- the Gudermannian identity that `planar_geo_roundtrip_partial` assumes of the opaque functions -/
theorem real_gudermannian (t : ℝ) :
    Real.log ((1 + Real.sin (2 * Real.arctan (Real.exp t) - Real.pi / 2)) /
              (1 - Real.sin (2 * Real.arctan (Real.exp t) - Real.pi / 2))) = 2 * t := by
  have hE : (0 : ℝ) < Real.exp t := Real.exp_pos t
  have hpos : (0 : ℝ) < Real.exp t ^ 2 + 1 := by positivity
  rw [real_gd_sin]
  have : (1 + (Real.exp t ^ 2 - 1) / (Real.exp t ^ 2 + 1)) / (1 - (Real.exp t ^ 2 - 1) / (Real.exp t ^ 2 + 1))
      = Real.exp t ^ 2 := by
    field_simp
    ring
  rw [this, Real.log_pow, Real.log_exp]
  push_cast
  ring

theorem real_exp_sq_le (t : ℝ) (ht : t ≤ Real.pi) : Real.exp t ^ 2 ≤ 19999 := by
  have h4 : t ≤ 4 := le_trans ht Real.pi_le_four
  have h1 : Real.exp t ≤ Real.exp 4 := Real.exp_le_exp.2 h4
  have h2 : Real.exp 4 = Real.exp 1 ^ 4 := by
    rw [← Real.exp_nat_mul]; norm_num
  have h3 : Real.exp 1 ^ 4 ≤ 3 ^ 4 := pow_le_pow_left₀ (Real.exp_pos 1).le Real.exp_one_lt_three.le 4
  have h5 : Real.exp t ≤ 81 := by rw [h2] at h1; linarith [h3]
  have h6 : 0 < Real.exp t := Real.exp_pos t
  nlinarith

/-- Inside the world square the ±0.9999 clamp of `toPlanar` never fires: for |t| ≤ π,
    |sin(2·atan(eᵗ) − π/2)| = |tanh t| ≤ tanh π < 0.9999. -/
theorem real_clamp_inactive (t : ℝ) (h1 : -Real.pi ≤ t) (h2 : t ≤ Real.pi) :
    ¬ Real.sin (2 * Real.arctan (Real.exp t) - Real.pi / 2) < -(9999 / 10000) ∧
    ¬ 9999 / 10000 < Real.sin (2 * Real.arctan (Real.exp t) - Real.pi / 2) := by
  have hpos : (0 : ℝ) < Real.exp t ^ 2 + 1 := by positivity
  have hup := real_exp_sq_le t h2
  have hlo := real_exp_sq_le (-t) (by linarith)
  have hinv : Real.exp (-t) ^ 2 * Real.exp t ^ 2 = 1 := by
    rw [← mul_pow, ← Real.exp_add]; simp
  have hE2 : 0 < Real.exp t ^ 2 := by positivity
  rw [real_gd_sin]
  constructor
  · rw [not_lt, le_div_iff₀ hpos]
    nlinarith
  · rw [not_lt, div_le_iff₀ hpos]
    nlinarith

/-- `ToPlanar (ToGeo p) = p` over ℝ for every point of the world square at every level < 64 -/
theorem real_planar_geo_roundtrip (z : Nat) (hz : z < 64) (p : Pt ℝ)
    (h0 : 0 ≤ p.y) (h1 : p.y ≤ maxTiles realMFn z) :
    toPlanar realMFn z (toGeo realMFn z p) = p := by
  have hm : (0 : ℝ) < maxTiles realMFn z := by
    rw [maxTiles_eq realMFn real_ofNat z hz]; positivity
  apply planar_geo_roundtrip_partial realMFn z p Real.pi_ne_zero hm.ne' rfl rfl real_gudermannian
  have hu0 : 0 ≤ p.y / maxTiles realMFn z := div_nonneg h0 hm.le
  have hu1 : p.y / maxTiles realMFn z ≤ 1 := (div_le_one hm).2 h1
  apply real_clamp_inactive
  · show -Real.pi ≤ Real.pi - 2 * Real.pi * (p.y / maxTiles realMFn z)
    nlinarith [Real.pi_pos]
  · show Real.pi - 2 * Real.pi * (p.y / maxTiles realMFn z) ≤ Real.pi
    nlinarith [Real.pi_pos]

/-- Over ℝ (exact libm) `mvt.newProjection` — power-of-two path, extent 0, and every other extent —
    returns exactly the same integers for every pixel whose centre lies in the world square.
    This is `tile_roundtrip_full` away from the polar buffer, with every hypothesis of
    `newProjection_roundtrip_exact` discharged: the hypotheses are jointly satisfiable. -/
theorem real_tile_roundtrip (X Y Z extent : Nat) (hlev : projLevel Z extent < 64) (i j : ℤ)
    (h0 : 0 ≤ (pixelCentre X Y extent i j : Pt ℝ).y)
    (h1 : (pixelCentre X Y extent i j : Pt ℝ).y ≤ maxTiles realMFn (projLevel Z extent)) :
    (newProjection realMFn X Y Z extent).toTile ((newProjection realMFn X Y Z extent).toWGS84 ⟨(i : ℝ), (j : ℝ)⟩)
      = ⟨(i : ℝ), (j : ℝ)⟩ := by
  have hm : (0 : ℝ) < maxTiles realMFn (projLevel Z extent) := by
    rw [maxTiles_eq realMFn real_ofNat _ hlev]; positivity
  apply newProjection_roundtrip_exact realMFn real_floor_spec real_ofNat X Y Z extent hlev i j
    Real.pi_ne_zero rfl rfl real_gudermannian
  have hu0 : 0 ≤ (pixelCentre X Y extent i j : Pt ℝ).y / maxTiles realMFn (projLevel Z extent) :=
    div_nonneg h0 hm.le
  have hu1 : (pixelCentre X Y extent i j : Pt ℝ).y / maxTiles realMFn (projLevel Z extent) ≤ 1 :=
    (div_le_one hm).2 h1
  apply real_clamp_inactive
  · show -Real.pi ≤ Real.pi - 2 * Real.pi * _
    nlinarith [Real.pi_pos]
  · show Real.pi - 2 * Real.pi * _ ≤ Real.pi
    nlinarith [Real.pi_pos]

/-- the package's own test case, over ℝ: pixel (2048, 2048) of tile (1,1,2), extent 4096 -/
example : (newProjection realMFn 1 1 2 4096).toTile ((newProjection realMFn 1 1 2 4096).toWGS84 ⟨((2048 : ℤ) : ℝ), ((2048 : ℤ) : ℝ)⟩)
    = ⟨((2048 : ℤ) : ℝ), ((2048 : ℤ) : ℝ)⟩ := by
  have hl : projLevel 2 4096 = 14 := projLevel_two_pow 2 12 (by norm_num)
  have hc : (pixelCentre 1 1 4096 2048 2048 : Pt ℝ) = ⟨2048 + 1 * 2 ^ 12 + 1 / 2, 2048 + 1 * 2 ^ 12 + 1 / 2⟩ := by
    have := pixelCentre_two_pow (α := ℝ) 1 1 12 (by norm_num) (by norm_num) (by norm_num) 2048 2048
    simpa using this
  apply real_tile_roundtrip 1 1 2 4096 (by rw [hl]; norm_num) 2048 2048
  · rw [hc]; norm_num
  · rw [hc, hl, maxTiles_eq realMFn real_ofNat 14 (by norm_num)]; norm_num

end Orb.Project
