/-
  Vocabulary shared by the C12 lemma files (spec-side definitions) and the lemmas that more than
  one of them needs (the in-place compaction loop).
-/
import Orb.Simplify
import Mathlib.Algebra.Order.Field.Basic
import Mathlib.Tactic.Linarith
import Mathlib.Tactic.Ring
import Mathlib.Tactic.SplitIfs

namespace Orb.Simplify
open Orb

/-- first and last element kept -/
def EndsKept {β : Type} (inp out : List β) : Prop := out.head? = inp.head? ∧ out.getLast? = inp.getLast?

/-- Go's `ls[0] == ls[len(ls)-1]` -/
def Closed {α : Type} [BEq α] (l : List (Pt α)) : Prop :=
  ∃ a b, l.head? = some a ∧ l.getLast? = some b ∧ Core.ptEq a b = true

/-- `a` is immediately followed by `b` in `l` -/
def Adjacent {β : Type} (l : List β) (a b : β) : Prop := ∃ l1 l2, l = l1 ++ a :: b :: l2

/-- what every simplifier guarantees for one vertex list -/
def ValidLine {β : Type} (inp out : List β) : Prop := out.Sublist inp ∧ EndsKept inp out

/-- a simplifier all of whose successful results are valid -/
def GoodS {α : Type} (s : Simplifier α) : Prop := ∀ ls area out, s ls area = .ok out → ValidLine ls out

/-- result of `polygon`: some rings kept in order (the outer one always), each simplified validly;
    inner rings that survive have more than 2 points -/
def ValidPolygon {α : Type} (p out : List (List (Pt α))) : Prop :=
  ∃ kept, kept.Sublist p ∧ List.Forall₂ ValidLine kept out ∧ kept.head? = p.head? ∧ ∀ r ∈ out.tail, 2 < r.length

/-- structural induction for the nested inductive `Geom` -/
theorem Geom.ind' {α : Type} {motive : Geom α → Prop}
    (h1 : ∀ p, motive (.point p)) (h2 : ∀ ps, motive (.multiPoint ps))
    (h3 : ∀ ps, motive (.lineString ps)) (h4 : ∀ ls, motive (.multiLineString ls))
    (h5 : ∀ ps, motive (.ring ps)) (h6 : ∀ rs, motive (.polygon rs))
    (h7 : ∀ ps, motive (.multiPolygon ps)) (h8 : ∀ a b, motive (.bound a b))
    (hc : ∀ gs, (∀ g ∈ gs, motive g) → motive (.collection gs)) : ∀ g, motive g := by
  intro g
  refine Geom.rec (motive_1 := motive) (motive_2 := fun gs => ∀ g ∈ gs, motive g)
    h1 h2 h3 h4 h5 h6 h7 h8 hc ?_ ?_ g
  · intro g hg; cases hg
  · intro head tail hh ht g hg
    rcases List.mem_cons.1 hg with rfl | hg
    · exact hh
    · exact ht g hg

/-! ### heap invariant of the Visvalingam min-heap -/

section heapdefs
variable {α : Type} [LT α] [LE α] [DecidableLT α] [DecidableLE α]

/-- every heap slot holds a valid item id and that item's `index` field is the slot -/
def HeapIdx (st : VS α) : Prop :=
  ∀ i, i < st.heap.size → st.heap.getD i 0 < st.items.size ∧ (st.get (st.heap.getD i 0)).index = i

/-- parents are not larger than children (`up := ((i+1)>>1)-1`) -/
def HeapOrd (st : VS α) : Prop :=
  ∀ i, 0 < i → i < st.heap.size →
    aLe (st.area (st.heap.getD (((i + 1) >>> 1) - 1) 0)) (st.area (st.heap.getD i 0)) = true

def HeapInv (st : VS α) : Prop := HeapIdx st ∧ HeapOrd st

end heapdefs

/-! ### the in-place compaction loop -/

/-- elements picked at strictly increasing indices `≥ k` form a subsequence of `ls.drop k` -/
theorem filterMap_getElem?_sublist_drop {β : Type} (ls : List β) :
    ∀ (idxs : List Nat) (k : Nat), idxs.Pairwise (· < ·) → (∀ i ∈ idxs, k ≤ i) →
      (idxs.filterMap (fun i => ls[i]?)).Sublist (ls.drop k) := by
  intro idxs
  induction idxs with
  | nil => intro k _ _; simp
  | cons i rest ih =>
    intro k hp hk
    rw [List.pairwise_cons] at hp
    have hki : k ≤ i := hk i (by simp)
    cases hv : ls[i]? with
    | none =>
      rw [List.filterMap_cons_none hv]
      exact ih k hp.2 (fun j hj => hk j (by simp [hj]))
    | some v =>
      rw [List.filterMap_cons_some hv]
      have hi : i < ls.length := by
        rcases List.getElem?_eq_some_iff.1 hv with ⟨h, _⟩; exact h
      have h1 := ih (i + 1) hp.2 (fun j hj => hp.1 j hj)
      have h2 : ls.drop i = v :: ls.drop (i + 1) := by
        rw [List.drop_eq_getElem_cons hi]
        congr 1
        rcases List.getElem?_eq_some_iff.1 hv with ⟨_, h⟩; exact h
      have h3 : (v :: rest.filterMap (fun i => ls[i]?)).Sublist (ls.drop i) := by
        rw [h2]; exact h1.cons_cons v
      exact h3.trans (List.drop_sublist_drop_left ls hki)

/-- elements picked at strictly increasing indices form a subsequence -/
theorem filterMap_getElem?_sublist {β : Type} (ls : List β) (idxs : List Nat)
    (hs : idxs.Pairwise (· < ·)) : (idxs.filterMap (fun i => ls[i]?)).Sublist ls := by
  simpa using filterMap_getElem?_sublist_drop ls idxs 0 hs (fun _ _ => Nat.zero_le _)

/-- the loop of `compact` started in the middle: state `(cur, c)`, remaining indices `rest` -/
theorem compact_aux {β : Type} (ls : List β) :
    ∀ (rest : List Nat) (cur : List β) (c : Nat), rest.Pairwise (· < ·) →
      (∀ i ∈ rest, c ≤ i ∧ i < ls.length) → cur.length = ls.length →
      (∀ j, c ≤ j → cur[j]? = ls[j]?) →
      let r := rest.foldl (fun (acc : List β × Nat) i =>
        match acc.1[i]? with
        | some v => (acc.1.set acc.2 v, acc.2 + 1)
        | none => acc) (cur, c)
      r.1.take r.2 = cur.take c ++ rest.filterMap (fun i => ls[i]?) := by
  intro rest
  induction rest with
  | nil => intro cur c _ _ _ _; simp
  | cons i rest ih =>
    intro cur c hp hr hl ht
    rw [List.pairwise_cons] at hp
    obtain ⟨hci, hil⟩ := hr i (by simp)
    have hv : ls[i]? = some ls[i] := List.getElem?_eq_getElem hil
    have hcv : cur[i]? = some ls[i] := by rw [ht i hci, hv]
    simp only [List.foldl_cons, hcv]
    rw [List.filterMap_cons_some hv]
    have hc : c < cur.length := by omega
    have := ih (cur.set c ls[i]) (c + 1) hp.2
      (fun j hj => ⟨by have := hp.1 j hj; omega, (hr j (by simp [hj])).2⟩)
      (by simp [hl])
      (fun j hj => by rw [List.getElem?_set_ne (by omega)]; exact ht j (by omega))
    simp only at this
    rw [this]
    have h2 : (cur.set c ls[i]).take (c + 1) = cur.take c ++ [ls[i]] := by
      rw [List.take_add_one, List.take_set_of_le (Nat.le_refl c)]
      simp [hc]
    rw [h2]; simp

/-- Compacting along strictly increasing in-range indices yields exactly the elements at those
    indices (no read ever sees an earlier write). -/
theorem compact_eq_map {β : Type} (ls : List β) (idxs : List Nat) (hs : idxs.Pairwise (· < ·))
    (hr : ∀ i ∈ idxs, i < ls.length) : compact ls idxs = idxs.filterMap (fun i => ls[i]?) := by
  have := compact_aux ls idxs ls 0 hs (fun i hi => ⟨Nat.zero_le _, hr i hi⟩) rfl (fun _ _ => rfl)
  simp only [List.take_zero, List.nil_append] at this
  exact this

/-- … hence a subsequence of the input. -/
theorem compact_sublist {β : Type} (ls : List β) (idxs : List Nat) (hs : idxs.Pairwise (· < ·))
    (hr : ∀ i ∈ idxs, i < ls.length) : (compact ls idxs).Sublist ls := by
  rw [compact_eq_map ls idxs hs hr]
  exact filterMap_getElem?_sublist ls idxs hs

end Orb.Simplify
