/-
  C02 / C05 (GeoJSON share) — the typed helper types `geojson.Point` … `geojson.MultiPolygon`,
  `bbox.go`, the decoded `Type` field, and values with nil members on the marshalling side.
  Re-exported by OrbProofs/C02.lean.
-/
import OrbProofs.C02Lemmas
import OrbProofs.C02Total

namespace Orb.GeoJSON
open Orb

/-! ### typed helpers: totality (since the `g == nil` check) -/

/-- `json.Unmarshal([]byte("null"), &geojson.Point{})` (any of the six types): the inner decode sets
    the pointer `g` to nil; the check returns ErrInvalidGeometry — what `UnmarshalGeometry(null)` returns. -/
theorem typed_null_rejected' (k : Kind) : typedOfDoc .json k .null = .err .invalid := rfl

/-- behind the check stands the dereference of the nil pointer -/
theorem derefCoords_nil_panics : (derefCoords none).isPanic = true := rfl

theorem typedGeomPtr_noPanic (c : Codec) (j : Json) : (typedGeomPtr c j).isPanic = false := by
  have hg := (noPanicAt_all c j).1
  cases c with
  | bson =>
    have : typedGeomPtr .bson j = (decodeGeometry .bson j).map some := by cases j <;> rfl
    rw [this, isPanic_map]; exact hg
  | json =>
    cases j with
    | null => rfl
    | _ => simp only [typedGeomPtr, isPanic_map]; exact hg

/-- the pointer is nil only for json `null` -/
theorem typedGeomPtr_nil_iff (c : Codec) (j : Json) :
    typedGeomPtr c j = .ok none ↔ (c = .json ∧ j = .null) := by
  constructor
  · intro h
    cases c with
    | json =>
      cases j with
      | null => exact ⟨rfl, rfl⟩
      | _ => simp only [typedGeomPtr] at h; revert h; cases decodeGeometry .json _ <;> simp [Res.map]
    | bson =>
      have : typedGeomPtr .bson j = (decodeGeometry .bson j).map some := by cases j <;> rfl
      rw [this] at h; revert h; cases decodeGeometry .bson j <;> simp [Res.map]
  · rintro ⟨rfl, rfl⟩; rfl

/-- **No typed helper decoder panics**: json — the `g == nil` check; bson — the pointer is never nil. -/
theorem typed_total' (c : Codec) (k : Kind) (j : Json) : (typedOfDoc c k j).isPanic = false := by
  have hp := typedGeomPtr_noPanic c j
  unfold typedOfDoc
  cases hd : typedGeomPtr c j with
  | err e => rfl
  | panic s => rw [hd] at hp; cases hp
  | ok p =>
    simp only
    cases p with
    | some d => simp only [Option.isNone_some, Bool.false_eq_true, and_false, if_false, derefCoords]; split <;> rfl
    | none =>
      have := (typedGeomPtr_nil_iff c j).1 hd
      simp [this.1, Res.isPanic]

/-! ### typed helpers: round trip -/

theorem typedGeomPtr_obj (c : Codec) (ms : Members) :
    typedGeomPtr c (.obj ms) = (decodeGeometry c (.obj ms)).map some := by
  cases c <;> rfl

/-- the six kinds of the helper types -/
def typedKind (g : G) : Bool :=
  match g with
  | .point _ | .multiPoint _ | .lineString _ | .multiLineString _ | .polygon _ | .multiPolygon _ => true
  | _ => false

theorem typed_canon (g : G) (h : typedKind g = true) : canonG g = g ∧ isEmptyColl g = false := by
  cases g <;> simp [typedKind] at h <;> exact ⟨rfl, rfl⟩

theorem geomJ_obj_of_typed (c : Codec) (g : G) (h : typedKind g = true) : ∃ ms, geomJ c g = .obj ms := by
  cases g <;> simp [typedKind] at h <;> simp [geomJ, coordDoc] <;> split <;> simp

/-- what `geojson.K(x)` marshals (the document of `&Geometry{Coordinates: x}` = that of
    `NewGeometry(x)`) decodes, through the helper type of `x`'s own kind, to `x`;
    through any other helper type it is rejected ("geojson: not a K type"). -/
theorem typed_roundtrip' (c : Codec) (g : G) (k : Kind) (hk : typedKind g = true) (hok : okG g = true)
    (hb : c = .json ∨ nonEmptyMulti g = true) :
    typedOfDoc c k (geomDoc c (.val g)) = if g.kind = k then .ok (.val g) else .err .notType := by
  obtain ⟨hcan, hne⟩ := typed_canon g hk
  obtain ⟨ms, hms⟩ := geomJ_obj_of_typed c g hk
  have hdec := decode_geomJ c g hok hb hne
  rw [geomDoc_val c g hne]
  unfold typedOfDoc
  rw [hms, typedGeomPtr_obj, ← hms, hdec, hcan]
  simp only [Res.map, derefCoords, Option.isNone_some, Bool.false_eq_true, and_false, if_false]
  cases g <;> simp [typedKind] at hk <;> cases k <;> simp (config := { decide := true }) [assertKind, Geom.kind]

/-! ### the decoded `Type` field -/

/-- `g.Type` after decoding what `NewGeometry(g)` wrote: the GeoJSON name of the kind the value comes
    back as (ring and bound: "Polygon") — which is also the "type" member of the document -/
theorem decoded_type' (g : G) : typeOfV (.val (canonG g)) = kindName g.kind := by
  cases g <;> rfl

theorem doc_type_member (c : Codec) (g : G) (hok : okG g = true) (hb : c = .json ∨ nonEmptyMulti g = true)
    (hne : isEmptyColl g = false) :
    ∃ ms, geomDoc c (.val g) = .obj (("type", .str (kindName g.kind)) :: ms) := by
  rw [geomDoc_val c g hne]
  cases g with
  | collection gs =>
    cases gs with
    | nil => simp [isEmptyColl] at hne
    | cons g0 gs => exact ⟨_, rfl⟩
  | point p => exact ⟨_, rfl⟩
  | ring ps => exact ⟨_, rfl⟩
  | bound a b => exact ⟨_, rfl⟩
  | multiPoint ps =>
    have hn : c = .json ∨ ps.length ≠ 0 := hb.imp id fun h => by cases ps <;> simp_all [nonEmptyMulti]
    exact ⟨_, by rw [geomJ, coordDoc_eq c _ _ _ hn]; rfl⟩
  | lineString ps =>
    have hn : c = .json ∨ ps.length ≠ 0 := hb.imp id fun h => by cases ps <;> simp_all [nonEmptyMulti]
    exact ⟨_, by rw [geomJ, coordDoc_eq c _ _ _ hn]; rfl⟩
  | multiLineString ps =>
    have hn : c = .json ∨ ps.length ≠ 0 := hb.imp id fun h => by cases ps <;> simp_all [nonEmptyMulti]
    exact ⟨_, by rw [geomJ, coordDoc_eq c _ _ _ hn]; rfl⟩
  | polygon ps =>
    have hn : c = .json ∨ ps.length ≠ 0 := hb.imp id fun h => by cases ps <;> simp_all [nonEmptyMulti]
    exact ⟨_, by rw [geomJ, coordDoc_eq c _ _ _ hn]; rfl⟩
  | multiPolygon ps =>
    have hn : c = .json ∨ ps.length ≠ 0 := hb.imp id fun h => by cases ps <;> simp_all [nonEmptyMulti]
    exact ⟨_, by rw [geomJ, coordDoc_eq c _ _ _ hn]; rfl⟩

/-! ### bbox.go -/

theorem bboxAt_lt (l : List UInt64) (i : Nat) (h : i < l.length) : bboxAt l i = .ok l[i] := by
  simp [bboxAt, List.getElem?_eq_getElem h]

/-- `Valid()` covers the four index expressions of `Bound()`: no panic, whatever the bbox -/
theorem bboxBound_total' (bb : Option (List UInt64)) : (bboxBound bb).isPanic = false := by
  unfold bboxBound
  split
  · rfl
  · rename_i hv
    cases bb with
    | none => simp [bboxValid] at hv
    | some l =>
      have hv' : 4 ≤ l.length := by
        simp only [bboxValid, Bool.not_eq_true, Bool.not_eq_false', Bool.and_eq_true, decide_eq_true_eq] at hv
        exact hv.1
      have h0 : 0 < l.length := by omega
      have h1 : 1 < l.length := by omega
      have h2 : l.length / 2 < l.length := by omega
      have h3 : l.length / 2 + 1 < l.length := by omega
      simp [Option.getD, bboxAt_lt l 0 h0, bboxAt_lt l 1 h1, bboxAt_lt l _ h2, bboxAt_lt l _ h3, Res.bind, Res.isPanic]

/-- an index beyond the length does panic: the guard is what `bboxBound_total'` rests on -/
theorem bboxAt_beyond (l : List UInt64) (i : Nat) (h : l.length ≤ i) : (bboxAt l i).isPanic = true := by
  simp [bboxAt, List.getElem?_eq_none h, Res.isPanic]

theorem bbox_newBBox' (a b : Pt UInt64) :
    bboxValid (some (newBBox a b)) = true ∧ bboxBound (some (newBBox a b)) = .ok (a, b) := by
  have hv : bboxValid (some [a.x, a.y, b.x, b.y]) = true := by simp [bboxValid]
  refine ⟨hv, ?_⟩
  simp [bboxBound, newBBox, hv, bboxAt, Res.bind]

theorem bbox_invalid_zero' (bb : Option (List UInt64)) (h : bboxValid bb = false) :
    bboxBound bb = .ok (⟨0, 0⟩, ⟨0, 0⟩) := by
  simp [bboxBound, h]

/-! ### values with nil members: the marshalling side -/

theorem map_nptsJ_some (ls : List (List (Pt UInt64))) : (ls.map some).map nptsJ = ls.map ptsJ := by
  induction ls with
  | nil => rfl
  | cons l ls ih => simp [nptsJ, ih]

theorem nptssJ_some (ls : List (List (Pt UInt64))) : nptssJ (some (ls.map some)) = ptssJ ls := by
  simp only [nptssJ, ptssJ, map_nptsJ_some]

theorem nptsssJ_some (ps : List (List (List (Pt UInt64)))) :
    nptsssJ (some (ps.map fun rs => some (rs.map some))) = ptsssJ ps := by
  simp only [nptsssJ, ptsssJ]
  congr 1
  induction ps with
  | nil => rfl
  | cons p ps ih => simp [nptssJ_some, ih]

/-- on a value WITHOUT nil members the document is the one of `geomJ` (so every theorem about
    `geomDoc` speaks about `geomDocN` on the nil-free values) -/
theorem geomMemberN_ofGeom (c : Codec) : ∀ g : G, geomMemberN c (CoreNil.ofGeom g) = geomJ c g := by
  intro g
  induction g using G.ind with
  | h1 p => rfl
  | h2 ps => simp [CoreNil.ofGeom, geomMemberN, geomJ, nptsJ, lenN]
  | h3 ps => simp [CoreNil.ofGeom, geomMemberN, geomJ, nptsJ, lenN]
  | h4 ls => simp [CoreNil.ofGeom, geomMemberN, geomJ, nptssJ_some, lenN]
  | h5 ps => simp [CoreNil.ofGeom, geomMemberN, geomJ, nptsJ]
  | h6 rs => simp [CoreNil.ofGeom, geomMemberN, geomJ, nptssJ_some, lenN]
  | h7 ps => simp [CoreNil.ofGeom, geomMemberN, geomJ, nptsssJ_some, lenN]
  | h8 a b => rfl
  | hc gs ih =>
    have hl : ∀ gs : List G, (∀ g ∈ gs, geomMemberN c (CoreNil.ofGeom g) = geomJ c g) →
        geomMembersN c (CoreNil.ofGeomList gs) = geomsJ c gs := by
      intro gs
      induction gs with
      | nil => intro _; rfl
      | cons g gs ihl =>
        intro h
        simp [CoreNil.ofGeomList, geomMembersN, geomsJ, h g (by simp), ihl (fun x hx => h x (by simp [hx]))]
    cases gs with
    | nil => rfl
    | cons g0 gs' =>
      simp [CoreNil.ofGeom, CoreNil.ofGeomList, geomMemberN, geomJ, ih g0 (by simp),
        hl gs' (fun x hx => ih x (by simp [hx]))]

theorem geomDocN_ofGVal (c : Codec) (v : V) (hv : okV v = true) :
    geomDocN c (CoreNil.ofGVal v) = geomDoc c v := by
  cases v with
  | nilIface => rfl
  | val g => simp [CoreNil.ofGVal, geomDocN, geomDoc, geomMember, geomMemberN_ofGeom]
  | nilSlice k => cases k <;> first | rfl | simp [okV] at hv

/-- `orb.Polygon{nil}`: the nil ring is written as `null` inside "coordinates" (json and bson) —
    not the RFC 7946 shape — although decoding gives the polygon with one empty ring back -/
theorem nil_ring_doc' (c : Codec) :
    geomDocN c (.polygon (some [none])) = .obj [("type", .str "Polygon"), ("coordinates", .arr [.null])] ∧
    wellformed (geomDocN c (.polygon (some [none]))) = false ∧
    geomOfDoc c (geomDocN c (.polygon (some [none]))) = .ok (.val (.polygon [[]])) ∧
    wellformed (geomDoc c (.val (forgetNil (.polygon (some [none]))))) = true := by
  cases c <;> exact ⟨rfl, rfl, rfl, rfl⟩

/-- a typed-nil member of a collection: `"coordinates":null` (json) -/
theorem nil_member_doc' :
    geomDocN .json (.collection [.multiPoint none]) =
      .obj [("type", .str "GeometryCollection"),
        ("geometries", .arr [.obj [("type", .str "MultiPoint"), ("coordinates", .null)]])] ∧
    wellformed (geomDocN .json (.collection [.multiPoint none])) = false ∧
    geomOfDoc .json (geomDocN .json (.collection [.multiPoint none])) = .ok (.val (.collection [.multiPoint []])) :=
  ⟨rfl, rfl, rfl⟩

end Orb.GeoJSON
