/-
  C12 lemmas: Radial.  The primed statements are re-exported by OrbProofs/C12.lean.
-/
import OrbProofs.C12Basic

namespace Orb.Simplify
open Orb

/-! ### list helpers -/

theorem adjacent_concat {β : Type} {L : List β} {v a b : β} (h : Adjacent (L ++ [v]) a b) :
    Adjacent L a b ∨ (L.getLast? = some a ∧ b = v) := by
  obtain ⟨l1, l2, h⟩ := h
  rcases List.eq_nil_or_concat l2 with rfl | ⟨l2', x, rfl⟩
  · right
    have h' : L ++ [v] = (l1 ++ [a]) ++ [b] := by simpa using h
    obtain ⟨h1, h2⟩ := List.append_inj' h' rfl
    subst h1
    simp at h2
    exact ⟨by simp, h2.symm⟩
  · left
    have h' : L ++ [v] = (l1 ++ a :: b :: l2') ++ [x] := by simpa using h
    obtain ⟨h1, _⟩ := List.append_inj' h' rfl
    exact ⟨l1, l2', h1⟩

theorem adjacent_of_dropLast {β : Type} {L : List β} {a b : β} (h : Adjacent L.dropLast a b) :
    Adjacent L a b := by
  obtain ⟨l1, l2, h⟩ := h
  obtain ⟨t, ht⟩ := List.dropLast_prefix L
  refine ⟨l1, l2 ++ t, ?_⟩
  rw [← ht, h]; simp

theorem map_getD_eq_filterMap {β : Type} (ls : List β) (K : List Nat) (z : β)
    (h : ∀ k ∈ K, k < ls.length) :
    K.map (fun k => ls.getD k z) = K.filterMap (fun i => ls[i]?) := by
  induction K with
  | nil => rfl
  | cons k K ih =>
    have hk : k < ls.length := h k (by simp)
    have hv : ls[k]? = some ls[k] := List.getElem?_eq_getElem hk
    rw [List.filterMap_cons_some hv, List.map_cons, ih (fun j hj => h j (by simp [hj]))]
    simp [List.getD_eq_getElem?_getD, hv]

section radialInv
variable {α : Type} [LT α] [DecidableLT α] [OfNat α 0]

/-- invariant of the radial scan before iteration `i`; `K` = indices of the kept vertices -/
structure RadInv (df : Pt α → Pt α → α) (t : α) (ls : List (Pt α)) (i : Nat) (st : RadSt α)
    (K : List Nat) : Prop where
  len : st.ls.length = ls.length
  cur_lt : st.current < i
  cnt : st.count ≤ st.current + 1
  tail : ∀ j, st.current ≤ j → st.ls[j]? = ls[j]?
  pw : K.Pairwise (· < ·)
  le : ∀ k ∈ K, k ≤ st.current
  hd : K.head? = some 0
  lst : K.getLast? = some st.current
  take : st.ls.take st.count = K.map (fun k => ls.getD k ⟨0, 0⟩)
  sp : ∀ a b, Adjacent (st.ls.take st.count) a b → t < df a b

theorem radInv_init (df : Pt α → Pt α → α) (t : α) (ls : List (Pt α)) (h : ls ≠ []) :
    RadInv df t ls 1 ⟨ls, 1, 0⟩ [0] := by
  obtain ⟨a, l, rfl⟩ := List.exists_cons_of_ne_nil h
  refine ⟨rfl, by simp, by simp, fun _ _ => rfl, by simp, by simp, rfl, rfl, by simp, ?_⟩
  rintro a' b' ⟨l1, l2, h⟩
  have := congrArg List.length h
  simp at this
  omega

theorem radInv_step (df : Pt α → Pt α → α) (t : α) (ls : List (Pt α)) (i : Nat) (st : RadSt α)
    (K : List Nat) (hi : i < ls.length) (inv : RadInv df t ls i st K) :
    ∃ K', RadInv df t ls (i + 1) (radialStep df t st i) K' := by
  unfold radialStep
  simp only
  split
  · rename_i hlt
    have hcur := inv.cur_lt
    have hcnt := inv.cnt
    have hvi : st.ls.getD i ⟨0, 0⟩ = ls.getD i ⟨0, 0⟩ := by
      rw [List.getD_eq_getElem?_getD, List.getD_eq_getElem?_getD, inv.tail i (by omega)]
    have hc : st.count < st.ls.length := by rw [inv.len]; omega
    have htk : (st.ls.set st.count (st.ls.getD i ⟨0, 0⟩)).take (st.count + 1)
        = st.ls.take st.count ++ [st.ls.getD i ⟨0, 0⟩] := by
      rw [List.take_add_one, List.take_set_of_le (Nat.le_refl _)]
      simp [hc]
    refine ⟨K ++ [i], ?_⟩
    refine ⟨by simp [inv.len], by simp, by simp; omega, ?_, ?_, ?_, ?_, by simp, ?_, ?_⟩
    · intro j hj
      simp only at hj
      simp only
      by_cases hcj : st.count = j
      · have hij : i = j := by omega
        subst hcj
        rw [List.getElem?_set_self hc, ← hij, hvi, List.getD_eq_getElem?_getD,
          List.getElem?_eq_getElem hi]
        rfl
      · rw [List.getElem?_set_ne hcj]
        exact inv.tail j (by omega)
    · rw [List.pairwise_append]
      refine ⟨inv.pw, by simp, ?_⟩
      intro a ha b hb
      simp at hb; subst hb
      have := inv.le a ha; omega
    · intro k hk
      simp only
      rcases List.mem_append.1 hk with hk | hk
      · have := inv.le k hk; omega
      · simp at hk; omega
    · have := inv.hd
      cases K with
      | nil => simp at this
      | cons k K => simpa using this
    · simp only
      rw [htk, inv.take, hvi]; simp
    · intro a b hab
      simp only at hab
      rw [htk] at hab
      rcases adjacent_concat hab with h | ⟨h1, h2⟩
      · exact inv.sp a b h
      · rw [inv.take, List.getLast?_map, inv.lst] at h1
        simp only [Option.map_some, Option.some.injEq] at h1
        have hvc : st.ls.getD st.current ⟨0, 0⟩ = ls.getD st.current ⟨0, 0⟩ := by
          rw [List.getD_eq_getElem?_getD, List.getD_eq_getElem?_getD, inv.tail _ (Nat.le_refl _)]
        rw [← h1, h2, ← hvc]
        exact hlt
  · exact ⟨K, inv.len, by have := inv.cur_lt; omega, inv.cnt, inv.tail, inv.pw, inv.le, inv.hd,
      inv.lst, inv.take, inv.sp⟩

theorem radInv_fold (df : Pt α → Pt α → α) (t : α) (ls : List (Pt α)) :
    ∀ (m i : Nat) (st : RadSt α) (K : List Nat), i + m ≤ ls.length → RadInv df t ls i st K →
      ∃ K', RadInv df t ls (i + m) ((List.range' i m).foldl (radialStep df t) st) K' := by
  intro m
  induction m with
  | zero => intro i st K _ inv; exact ⟨K, by simpa using inv⟩
  | succ m ih =>
    intro i st K him inv
    obtain ⟨K1, inv1⟩ := radInv_step df t ls i st K (by omega) inv
    obtain ⟨K2, inv2⟩ := ih (i + 1) _ K1 (by omega) inv1
    refine ⟨K2, ?_⟩
    rw [List.range'_succ, List.foldl_cons]
    have : i + (m + 1) = i + 1 + m := by omega
    rw [this]; exact inv2

/-- summary of a successful run: the output is the input read at a strictly increasing index
    list from `0` to `n-1`, and all scan-kept neighbours are more than `t` apart -/
theorem radial_char (df : Pt α → Pt α → α) (t : α) (ls out : List (Pt α))
    (h : radialSimplify df t ls = .ok out) :
    ∃ K : List Nat, out = K.map (fun k => ls.getD k ⟨0, 0⟩) ∧ K.Pairwise (· < ·) ∧
      (∀ k ∈ K, k < ls.length) ∧ K.head? = some 0 ∧ K.getLast? = some (ls.length - 1) ∧
      ls ≠ [] ∧ ∀ a b, Adjacent out.dropLast a b → t < df a b := by
  unfold radialSimplify at h
  simp only at h
  by_cases hn : ls.length = 0
  · simp [hn] at h
  have hne : ls ≠ [] := by intro h'; simp [h'] at hn
  obtain ⟨K, inv⟩ := radInv_fold df t ls (ls.length - 1) 1 ⟨ls, 1, 0⟩ [0] (by omega)
    (radInv_init df t ls hne)
  rw [if_neg hn] at h
  generalize (List.range' 1 (ls.length - 1)).foldl (radialStep df t) ⟨ls, 1, 0⟩ = st at h inv
  have hcur := inv.cur_lt
  have hcnt := inv.cnt
  split at h
  · rename_i hc
    have hc' : st.current + 1 < ls.length := by omega
    injection h with h
    have hvi : st.ls.getD (ls.length - 1) ⟨0, 0⟩ = ls.getD (ls.length - 1) ⟨0, 0⟩ := by
      rw [List.getD_eq_getElem?_getD, List.getD_eq_getElem?_getD, inv.tail _ (by omega)]
    have hcl : st.count < st.ls.length := by rw [inv.len]; omega
    have htk : (st.ls.set st.count (st.ls.getD (ls.length - 1) ⟨0, 0⟩)).take (st.count + 1)
        = st.ls.take st.count ++ [st.ls.getD (ls.length - 1) ⟨0, 0⟩] := by
      rw [List.take_add_one, List.take_set_of_le (Nat.le_refl _)]
      simp [hcl]
    rw [htk] at h
    refine ⟨K ++ [ls.length - 1], ?_, ?_, ?_, ?_, by simp, hne, ?_⟩
    · rw [← h, inv.take, hvi]; simp
    · rw [List.pairwise_append]
      refine ⟨inv.pw, by simp, ?_⟩
      intro a ha b hb
      simp at hb; subst hb
      have := inv.le a ha; omega
    · intro k hk
      rcases List.mem_append.1 hk with hk | hk
      · have := inv.le k hk; omega
      · simp at hk; omega
    · have := inv.hd
      cases K with
      | nil => simp at this
      | cons k K => simpa using this
    · intro a b hab
      rw [← h, List.dropLast_concat] at hab
      exact inv.sp a b hab
  · rename_i hc
    have hc' : st.current = ls.length - 1 := by omega
    injection h with h
    refine ⟨K, ?_, inv.pw, ?_, inv.hd, by rw [inv.lst, hc'], hne, ?_⟩
    · rw [← h, inv.take]
    · intro k hk; have := inv.le k hk; omega
    · intro a b hab
      rw [← h] at hab
      exact inv.sp a b (adjacent_of_dropLast hab)

end radialInv

section anyArithmetic
variable {α : Type} [Add α] [Sub α] [Mul α] [Div α] [Neg α] [LT α] [LE α] [DecidableLT α] [DecidableLE α] [BEq α] [OfNat α 0] [OfNat α 1] [OfNat α 2]

theorem radial_subseq_in_order' (df : Pt α → Pt α → α) (t : α) (ls out : List (Pt α))
    (h : radialSimplify df t ls = .ok out) : out.Sublist ls := by
  obtain ⟨K, ho, hpw, hlt, _, _, _, _⟩ := radial_char df t ls out h
  have : out = K.filterMap (fun i => ls[i]?) := by
    rw [ho]
    exact map_getD_eq_filterMap ls K _ hlt
  rw [this]
  exact filterMap_getElem?_sublist ls K hpw

theorem radial_endpoints_kept' (df : Pt α → Pt α → α) (t : α) (ls out : List (Pt α))
    (h : radialSimplify df t ls = .ok out) : EndsKept ls out := by
  obtain ⟨K, ho, _, _, hhd, hlst, hne, _⟩ := radial_char df t ls out h
  have hpos : 0 < ls.length := List.length_pos_iff.2 hne
  constructor
  · rw [ho, List.head?_map, hhd]
    simp [List.head?_eq_getElem?, List.getD_eq_getElem?_getD, List.getElem?_eq_getElem hpos]
  · rw [ho, List.getLast?_map, hlst, List.getLast?_eq_getElem?]
    have : ls.length - 1 < ls.length := by omega
    simp [List.getD_eq_getElem?_getD, List.getElem?_eq_getElem this]

theorem radial_closed_stays_closed' (df : Pt α → Pt α → α) (t : α) (ls out : List (Pt α))
    (h : radialSimplify df t ls = .ok out) (hc : Closed ls) : Closed out := by
  obtain ⟨h1, h2⟩ := radial_endpoints_kept' df t ls out h
  obtain ⟨a, b, ha, hb, hab⟩ := hc
  exact ⟨a, b, by rw [h1, ha], by rw [h2, hb], hab⟩

theorem radial_spacing' (df : Pt α → Pt α → α) (t : α) (ls out : List (Pt α))
    (h : radialSimplify df t ls = .ok out) : ∀ a b, Adjacent out.dropLast a b → t < df a b := by
  obtain ⟨K, _, _, _, _, _, _, hsp⟩ := radial_char df t ls out h
  exact hsp

theorem radial_total' (df : Pt α → Pt α → α) (t : α) (ls : List (Pt α)) (h : ls ≠ []) :
    ∃ out, radialSimplify df t ls = .ok out := by
  have hn : ls.length ≠ 0 := by simpa using h
  unfold radialSimplify
  simp only [if_neg hn]
  split
  · exact ⟨_, rfl⟩
  · exact ⟨_, rfl⟩

end anyArithmetic

end Orb.Simplify
